(** Proofs/RenderFloat.v — float layer of C06: the time [to_sequence] gives to a step, quantized
    again at the same resolution, is that step (binary64, all roundings accounted for), and step
    times are strictly increasing in the step.

    Structure: (1) relative-error facts about [rnd]; (2) a real-number lemma [render_time_close]
    shared by the three clocks; (3) the three [seconds_per_step] values as reals; (4) [step_time]
    as a real expression; (5) the round trips; (6) strict monotonicity; (7) concrete instances. *)
From Coq Require Import ZArith Reals Floats Lia Lra List.
From Flocq Require Import Core BinarySingleNaN PrimFloat Relative.
From NS Require Import Base.FloatBridge Gen.G01 Model.Quantize Proofs.QuantizeFloat Proofs.QuantizeFloatExt Model.RenderFloat.
Open Scope R_scope.

(** * 1. Rounding facts *)
Lemma rnd_0 : rnd 0 = 0.
Proof. apply round_0; auto with typeclass_instances. Qed.

Lemma rnd_ge_0 z : 0 <= z -> 0 <= rnd z.
Proof. intros H. apply round_ge_generic; auto with typeclass_instances. apply generic_format_0. Qed.

Lemma rnd_ge_bpow e z : (-1074 <= e)%Z -> bpow radix2 e <= z -> bpow radix2 e <= rnd z.
Proof.
  intros He H. apply round_ge_generic; auto with typeclass_instances.
  apply generic_format_bpow. unfold FLT_exp, emax, prec. lia.
Qed.

Lemma rnd_le_bpow e z : (-1074 <= e)%Z -> z <= bpow radix2 e -> rnd z <= bpow radix2 e.
Proof.
  intros He H. apply round_le_generic; auto with typeclass_instances.
  apply generic_format_bpow. unfold FLT_exp, emax, prec. lia.
Qed.

(** relative error [u53] for zero and for everything at least 2^-10 (normal range) *)
Lemma rnd_rel z : z = 0 \/ bpow radix2 (-10) <= z -> Rabs (rnd z - z) <= u53 * z.
Proof.
  intros [->|Hz].
  - rewrite rnd_0, Rminus_0_r, Rabs_R0. lra.
  - pose proof (bpow_gt_0 radix2 (-10)).
    pose proof (relative_error_N_FLT radix2 (3 - emax - prec) prec ltac:(unfold prec; lia)
                  (fun n => negb (Z.even n)) z) as RR.
    rewrite (Rabs_pos_eq z) in RR by lra. apply RR.
    apply Rle_trans with (bpow radix2 (-10)); [|exact Hz]. apply bpow_le. unfold emax, prec. lia.
Qed.

Lemma rnd_rel_itv z : z = 0 \/ bpow radix2 (-10) <= z ->
  z * (1 - u53) <= rnd z <= z * (1 + u53).
Proof. intros H. pose proof (rnd_rel z H) as R. apply Rabs_le_inv in R. lra. Qed.

Lemma B10 : bpow radix2 (-10) = / 1024.
Proof. cbn. lra. Qed.

Lemma B3 : bpow radix2 3 = 8.
Proof. cbn. lra. Qed.

Lemma u53_bpow : 8 * u53 = bpow radix2 (-50).
Proof. symmetry. exact u53_val. Qed.

(** * 2. The real-number core: [n*sg + s0*sg] with three roundings, then times [x ~ 1/sg] *)
Lemma render_time_close (sg x : R) (n s0 : Z) :
  0 < x -> 1 - 4 * u53 <= sg * x <= 1 + 4 * u53 ->
  bpow radix2 (-10) <= sg <= 8 ->
  (0 <= n)%Z -> (0 <= s0)%Z -> (n + s0 <= 2 ^ 31)%Z ->
  let t := rnd (rnd (IZR n * sg) + rnd (IZR s0 * sg)) in
  Rabs (t * x - IZR (n + s0)) <= bpow radix2 (-19) /\ 0 <= t <= bpow radix2 35.
Proof.
  intros X0 [W0 W1] [S0 S1] Hn Hs HN t.
  pose proof u53_small as [U0 U1]. rewrite B10 in S0.
  assert (Nn : 0 <= IZR n) by (apply IZR_le; lia).
  assert (Ns : 0 <= IZR s0) by (apply IZR_le; lia).
  assert (NN : IZR (n + s0) <= bpow radix2 31).
  { change (bpow radix2 31) with (IZR (2 ^ 31)). apply IZR_le. exact HN. }
  assert (Z01 : forall m : Z, (0 <= m)%Z -> IZR m * sg = 0 \/ bpow radix2 (-10) <= IZR m * sg).
  { intros m Hm. destruct (Z.eq_dec m 0) as [->|Hm0]; [left; lra|right].
    assert (1 <= IZR m) by (apply IZR_le; lia). rewrite B10. nra. }
  set (a := IZR n * sg) in *. set (b := IZR s0 * sg) in *.
  assert (A0 : 0 <= a) by (unfold a; apply Rmult_le_pos; lra).
  assert (B0 : 0 <= b) by (unfold b; apply Rmult_le_pos; lra).
  pose proof (rnd_rel_itv a (Z01 n Hn)) as Ra. pose proof (rnd_rel_itv b (Z01 s0 Hs)) as Rb.
  pose proof (rnd_ge_0 a A0) as Ra0. pose proof (rnd_ge_0 b B0) as Rb0.
  set (s := rnd a + rnd b) in *.
  assert (Hs01 : s = 0 \/ bpow radix2 (-10) <= s).
  { destruct (Z01 n Hn) as [Ea|Ea]; destruct (Z01 s0 Hs) as [Eb|Eb]; fold a in Ea; fold b in Eb.
    - left. unfold s. rewrite Ea, Eb, rnd_0. lra.
    - right. pose proof (rnd_ge_bpow (-10) b ltac:(lia) Eb). unfold s. lra.
    - right. pose proof (rnd_ge_bpow (-10) a ltac:(lia) Ea). unfold s. lra.
    - right. pose proof (rnd_ge_bpow (-10) a ltac:(lia) Ea). unfold s. lra. }
  pose proof (rnd_rel_itv s Hs01) as Rt. fold t in Rt.
  set (A := a + b) in *.
  assert (EA : A = IZR (n + s0) * sg) by (unfold A, a, b; rewrite plus_IZR; ring).
  set (N := IZR (n + s0)) in *.
  assert (N0 : 0 <= N) by (unfold N; rewrite plus_IZR; lra).
  assert (AA0 : 0 <= A) by (unfold A; lra).
  assert (Sl : A * (1 - u53) <= s) by (unfold s, A; lra).
  assert (Su : s <= A * (1 + u53)) by (unfold s, A; lra).
  assert (S00 : 0 <= s) by (unfold s; lra).
  assert (K2 : (1 + u53) * (1 + u53) <= 1 + 3 * u53) by nra.
  assert (K1 : 1 - 2 * u53 <= (1 - u53) * (1 - u53)) by nra.
  assert (Tu : t <= A * (1 + 3 * u53)).
  { apply Rle_trans with (s * (1 + u53)); [lra|].
    apply Rle_trans with (A * (1 + u53) * (1 + u53)).
    - apply Rmult_le_compat_r; lra.
    - rewrite Rmult_assoc. apply Rmult_le_compat_l; lra. }
  assert (Tl : A * (1 - 2 * u53) <= t).
  { apply Rle_trans with (s * (1 - u53)); [|lra].
    apply Rle_trans with (A * (1 - u53) * (1 - u53)).
    - rewrite Rmult_assoc. apply Rmult_le_compat_l; lra.
    - apply Rmult_le_compat_r; lra. }
  (* times x *)
  set (w := sg * x) in *.
  assert (EAx : forall c, A * c * x = N * (w * c)) by (intros c; rewrite EA; unfold w; ring).
  assert (TXu : t * x <= N * (1 + 8 * u53)).
  { apply Rle_trans with (A * (1 + 3 * u53) * x).
    - apply Rmult_le_compat_r; lra.
    - rewrite EAx. apply Rmult_le_compat_l; [lra|]. nra. }
  assert (TXl : N * (1 - 8 * u53) <= t * x).
  { apply Rle_trans with (A * (1 - 2 * u53) * x).
    - rewrite EAx. apply Rmult_le_compat_l; [lra|]. nra.
    - apply Rmult_le_compat_r; lra. }
  assert (E19 : 8 * u53 * N <= bpow radix2 (-19)).
  { rewrite u53_bpow. replace (-19)%Z with (-50 + 31)%Z by lia. rewrite bpow_plus.
    apply Rmult_le_compat_l; [apply bpow_ge_0|exact NN]. }
  split; [apply Rabs_le; lra|]. split.
  - apply rnd_ge_0. exact S00.
  - apply Rle_trans with (A * (1 + 3 * u53)); [exact Tu|].
    assert (A <= bpow radix2 31 * 8).
    { rewrite EA. apply Rmult_le_compat; lra. }
    replace 35%Z with (31 + 4)%Z by lia. rewrite bpow_plus.
    replace (bpow radix2 4) with 16 by (cbn; lra).
    pose proof (bpow_gt_0 radix2 31). nra.
Qed.

(** margin: a position within 2^-19 of the integer N <= 2^31 is far from the half-step boundaries *)
Lemma margin_ok (P : R) (N : Z) (c : R) :
  Rabs (P - IZR N) <= bpow radix2 (-19) -> (0 <= N <= 2 ^ 31)%Z -> 0 < c <= bpow radix2 (-49) ->
  Zfloor (P + / 2) = N /\ IZR N + c * (P + 1) < P + / 2 < IZR N + 1 - c * (P + 1).
Proof.
  intros HP HN [C0 C1].
  assert (B19 : bpow radix2 (-19) <= / 1024).
  { rewrite <- B10. apply bpow_le. lia. }
  assert (NN : 0 <= IZR N <= bpow radix2 31).
  { split. apply IZR_le; lia. change (bpow radix2 31) with (IZR (2 ^ 31)). apply IZR_le. lia. }
  apply Rabs_le_inv in HP.
  assert (D : c * (P + 1) <= / 1024).
  { apply Rle_trans with (bpow radix2 (-49) * bpow radix2 32).
    - apply Rmult_le_compat; try lra.
      replace 32%Z with (31 + 1)%Z by lia. rewrite bpow_double.
      pose proof (bpow_le radix2 1 31 ltac:(lia)) as B1. replace (bpow radix2 1) with 2 in B1 by (cbn; lra). lra.
    - rewrite <- bpow_plus, <- B10. apply bpow_le. lia. }
  assert (D0 : 0 <= c * (P + 1)) by (apply Rmult_le_pos; lra).
  split; [|lra]. apply Zfloor_imp. rewrite plus_IZR. lra.
Qed.

(** * 3. The three [seconds_per_step] values *)
Lemma inv_itv q lo hi c : 0 < lo -> lo <= q <= hi -> 0 < c -> c / hi <= c / q <= c / lo.
Proof.
  intros L [Q0 Q1] C. unfold Rdiv. split; apply Rmult_le_compat_l; try lra; apply Rinv_le_contravar; lra.
Qed.

Lemma sigma_rel_R qpm spq : fin qpm -> 10 <= R_of qpm <= 480 -> (1 <= spq <= 96)%Z ->
  fin (sigma_rel qpm spq) /\ bpow radix2 (-10) <= R_of (sigma_rel qpm spq) <= 8 /\
  1 - 4 * u53 <= R_of (sigma_rel qpm spq) * (IZR spq * R_of qpm / 60) <= 1 + 4 * u53.
Proof.
  intros Fq [Q0 Q1] Hs.
  destruct (f_of_Z_R spq ltac:(lia)) as [Es Fs]. destruct sixty_R as [E60 F60].
  pose proof u53_small as [U0 U1].
  assert (S0 : 1 <= IZR spq <= 96) by (split; apply IZR_le; lia).
  unfold sigma_rel.
  set (q := R_of qpm) in *. set (y := 60 / q).
  assert (Y : / 8 <= y <= 6).
  { pose proof (inv_itv q 10 480 60 ltac:(lra) (conj Q0 Q1) ltac:(lra)). unfold y. lra. }
  destruct (div_R 60%float qpm 3 F60 Fq ltac:(fold q; lra) ltac:(lia)) as [Ed Fd].
  { rewrite E60. fold q. fold y. rewrite Rabs_pos_eq, B3 by lra. lra. }
  rewrite E60 in Ed. fold q in Ed. fold y in Ed.
  assert (Y10 : bpow radix2 (-10) <= y) by (rewrite B10; lra).
  pose proof (rnd_rel_itv y (or_intror Y10)) as Ry.
  assert (RY : / 8 <= rnd y <= 8).
  { split.
    - replace (/ 8) with (bpow radix2 (-3)) by (cbn; lra). apply rnd_ge_bpow. lia. cbn; lra.
    - rewrite <- B3. apply rnd_le_bpow. lia. rewrite B3. lra. }
  set (z := rnd y / IZR spq).
  assert (Z : / 768 <= z <= 8).
  { unfold z. split.
    - apply Rle_trans with (/ 8 / 96); [lra|].
      apply Rle_trans with (/ 8 / IZR spq).
      + pose proof (inv_itv (IZR spq) 1 96 (/ 8) ltac:(lra) S0 ltac:(lra)). lra.
      + unfold Rdiv. apply Rmult_le_compat_r; [|lra]. apply Rlt_le, Rinv_0_lt_compat. lra.
    - apply Rle_trans with (8 / IZR spq).
      + unfold Rdiv. apply Rmult_le_compat_r; [|lra]. apply Rlt_le, Rinv_0_lt_compat. lra.
      + pose proof (inv_itv (IZR spq) 1 96 8 ltac:(lra) S0 ltac:(lra)). lra. }
  destruct (div_R (60 / qpm)%float (f_of_Z spq) 3 Fd Fs ltac:(rewrite Es; lra) ltac:(lia)) as [Ez Fz].
  { rewrite Ed, Es. fold z. rewrite Rabs_pos_eq, B3 by lra. lra. }
  rewrite Ed, Es in Ez. fold z in Ez.
  assert (Z10 : bpow radix2 (-10) <= z) by (rewrite B10; lra).
  pose proof (rnd_rel_itv z (or_intror Z10)) as Rz.
  split; [exact Fz|]. rewrite Ez. split.
  - split. apply rnd_ge_bpow. lia. exact Z10. rewrite <- B3. apply rnd_le_bpow. lia. rewrite B3. lra.
  - set (x := IZR spq * q / 60).
    assert (X0 : 0 < x) by (unfold x; nra).
    set (c := q / 60). assert (C0 : 0 < c) by (unfold c; lra).
    assert (YC : y * c = 1) by (unfold y, c; field; lra).
    assert (ZX : z * x = rnd y * c) by (unfold z, x, c; field; lra).
    assert (W1 : 1 - u53 <= z * x <= 1 + u53).
    { rewrite ZX. split.
      - replace (1 - u53) with (y * (1 - u53) * c) by (rewrite (Rmult_comm y), Rmult_assoc, YC; ring).
        apply Rmult_le_compat_r; lra.
      - replace (1 + u53) with (y * (1 + u53) * c) by (rewrite (Rmult_comm y), Rmult_assoc, YC; ring).
        apply Rmult_le_compat_r; lra. }
    assert (L : z * (1 - u53) * x <= rnd z * x <= z * (1 + u53) * x).
    { split; apply Rmult_le_compat_r; lra. }
    replace (z * (1 - u53) * x) with (z * x * (1 - u53)) in L by ring.
    replace (z * (1 + u53) * x) with (z * x * (1 + u53)) in L by ring.
    nra.
Qed.

Lemma sigma_metric_R qpm spq : fin qpm -> 10 <= R_of qpm <= 480 -> (1 <= spq <= 96)%Z ->
  fin (sigma_metric qpm spq) /\ bpow radix2 (-10) <= R_of (sigma_metric qpm spq) <= 8 /\
  1 - 4 * u53 <= R_of (sigma_metric qpm spq) * (IZR spq * R_of qpm / 60) <= 1 + 4 * u53.
Proof.
  intros Fq [Q0 Q1] Hs.
  destruct (f_of_Z_R spq ltac:(lia)) as [Es Fs]. destruct sixty_R as [E60 F60].
  pose proof u53_small as [U0 U1].
  assert (S0 : 1 <= IZR spq <= 96) by (split; apply IZR_le; lia).
  unfold sigma_metric.
  set (q := R_of qpm) in *. set (y := IZR spq * q).
  assert (Y : 10 <= y <= 46080) by (unfold y; nra).
  destruct (mul_R (f_of_Z spq) qpm 16 Fs Fq ltac:(lia)) as [Em Fm].
  { rewrite Es. fold q. fold y. rewrite Rabs_pos_eq by lra.
    replace (bpow radix2 16) with 65536 by (cbn; lra). lra. }
  rewrite Es in Em. fold q in Em. fold y in Em.
  assert (Y10 : bpow radix2 (-10) <= y) by (rewrite B10; lra).
  pose proof (rnd_rel_itv y (or_intror Y10)) as Ry.
  assert (RY : 8 <= rnd y <= 46080).
  { split.
    - rewrite <- B3. apply rnd_ge_bpow. lia. rewrite B3. lra.
    - apply round_le_generic; auto with typeclass_instances.
      apply (format_IZR_small 46080). cbn; lia. lra. }
  set (z := 60 / rnd y).
  assert (Z : / 768 <= z <= 8).
  { pose proof (inv_itv (rnd y) 8 46080 60 ltac:(lra) RY ltac:(lra)). unfold z. lra. }
  destruct (div_R 60%float (f_of_Z spq * qpm)%float 3 F60 Fm ltac:(rewrite Em; lra) ltac:(lia)) as [Ez Fz].
  { rewrite E60, Em. fold z. rewrite Rabs_pos_eq, B3 by lra. lra. }
  rewrite E60, Em in Ez. fold z in Ez.
  assert (Z10 : bpow radix2 (-10) <= z) by (rewrite B10; lra).
  pose proof (rnd_rel_itv z (or_intror Z10)) as Rz.
  split; [exact Fz|]. rewrite Ez. split.
  - split. apply rnd_ge_bpow. lia. exact Z10. rewrite <- B3. apply rnd_le_bpow. lia. rewrite B3. lra.
  - set (x := y / 60). replace (IZR spq * q / 60) with x by (unfold x, y; reflexivity).
    assert (X0 : 0 < x) by (unfold x; lra).
    assert (ZX : z * x * rnd y = y) by (unfold z, x; field; lra).
    (* z x = y / rnd y  in  [1/(1+u), 1/(1-u)] *)
    assert (W1 : 1 - u53 <= z * x <= 1 + 2 * u53).
    { assert (0 < z * x) by (apply Rmult_lt_0_compat; lra).
      split.
      - apply Rmult_le_reg_r with (rnd y); [lra|]. rewrite ZX. nra.
      - apply Rmult_le_reg_r with (rnd y); [lra|]. rewrite ZX.
        apply Rle_trans with ((1 + 2 * u53) * (y * (1 - u53))).
        + replace ((1 + 2 * u53) * (y * (1 - u53))) with (y * ((1 + 2 * u53) * (1 - u53))) by ring.
          replace y with (y * 1) at 1 by ring. apply Rmult_le_compat_l; [lra|]. nra.
        + apply Rmult_le_compat_l; lra. }
    assert (L : z * (1 - u53) * x <= rnd z * x <= z * (1 + u53) * x).
    { split; apply Rmult_le_compat_r; lra. }
    replace (z * (1 - u53) * x) with (z * x * (1 - u53)) in L by ring.
    replace (z * (1 + u53) * x) with (z * x * (1 + u53)) in L by ring.
    nra.
Qed.

Lemma one_R : R_of 1%float = 1 /\ fin 1%float.
Proof.
  split; [|reflexivity]. rewrite R_of_SF.
  replace (Prim2SF 1%float) with (S754_finite false 4503599627370496 (-52)) by (vm_compute; reflexivity).
  unfold SF2R, F2R. cbn -[IZR]. lra.
Qed.

Lemma sigma_abs_R sps : (1 <= sps <= 1000)%Z ->
  fin (sigma_abs sps) /\ bpow radix2 (-10) <= R_of (sigma_abs sps) <= 8 /\
  1 - 4 * u53 <= R_of (sigma_abs sps) * IZR sps <= 1 + 4 * u53.
Proof.
  intros Hs.
  destruct (f_of_Z_R sps ltac:(lia)) as [Es Fs]. destruct one_R as [E1 F1].
  pose proof u53_small as [U0 U1].
  assert (S0 : 1 <= IZR sps <= 1000) by (split; apply IZR_le; lia).
  unfold sigma_abs.
  set (z := 1 / IZR sps).
  assert (Z : / 1000 <= z <= 1).
  { pose proof (inv_itv (IZR sps) 1 1000 1 ltac:(lra) S0 ltac:(lra)). unfold z. lra. }
  destruct (div_R 1%float (f_of_Z sps) 3 F1 Fs ltac:(rewrite Es; lra) ltac:(lia)) as [Ez Fz].
  { rewrite E1, Es. fold z. rewrite Rabs_pos_eq, B3 by lra. lra. }
  rewrite E1, Es in Ez. fold z in Ez.
  assert (Z10 : bpow radix2 (-10) <= z) by (rewrite B10; lra).
  pose proof (rnd_rel_itv z (or_intror Z10)) as Rz.
  split; [exact Fz|]. rewrite Ez. split.
  - split. apply rnd_ge_bpow. lia. exact Z10. rewrite <- B3. apply rnd_le_bpow. lia. rewrite B3. lra.
  - assert (ZX : z * IZR sps = 1) by (unfold z; field; lra).
    assert (L : z * (1 - u53) * IZR sps <= rnd z * IZR sps <= z * (1 + u53) * IZR sps).
    { split; apply Rmult_le_compat_r; lra. }
    replace (z * (1 - u53) * IZR sps) with (z * IZR sps * (1 - u53)) in L by ring.
    replace (z * (1 + u53) * IZR sps) with (z * IZR sps * (1 + u53)) in L by ring.
    rewrite ZX in L. lra.
Qed.

(** * 4. [step_time] as a real expression *)
Lemma step_time_R sg n s0 : fin sg -> bpow radix2 (-10) <= R_of sg <= 8 ->
  (0 <= n)%Z -> (0 <= s0)%Z -> (n + s0 <= 2 ^ 31)%Z ->
  R_of (step_time sg n s0) = rnd (rnd (IZR n * R_of sg) + rnd (IZR s0 * R_of sg)) /\
  fin (step_time sg n s0).
Proof.
  intros Fsg [G0 G1] Hn Hs HN. rewrite B10 in G0.
  assert (PB : forall m : Z, (0 <= m <= 2 ^ 31)%Z -> 0 <= IZR m * R_of sg <= bpow radix2 34).
  { intros m Hm.
    assert (0 <= IZR m <= bpow radix2 31).
    { split. apply IZR_le; lia. change (bpow radix2 31) with (IZR (2 ^ 31)). apply IZR_le. lia. }
    split. apply Rmult_le_pos; lra.
    replace 34%Z with (31 + 3)%Z by lia. rewrite bpow_plus, B3. apply Rmult_le_compat; lra. }
  destruct (f_of_Z_R n ltac:(lia)) as [En Fn]. destruct (f_of_Z_R s0 ltac:(lia)) as [Es Fs].
  unfold step_time.
  destruct (mul_R (f_of_Z n) sg 34 Fn Fsg ltac:(lia)) as [Ea Fa].
  { rewrite En. rewrite Rabs_pos_eq; apply PB; lia. }
  destruct (mul_R (f_of_Z s0) sg 34 Fs Fsg ltac:(lia)) as [Eb Fb].
  { rewrite Es. rewrite Rabs_pos_eq; apply PB; lia. }
  rewrite En in Ea. rewrite Es in Eb.
  destruct (add_R (f_of_Z n * sg)%float (f_of_Z s0 * sg)%float 35 Fa Fb ltac:(lia)) as [Et Ft].
  { rewrite Ea, Eb.
    pose proof (PB n ltac:(lia)) as [P0 P1]. pose proof (PB s0 ltac:(lia)) as [P2 P3].
    pose proof (rnd_ge_0 _ P0). pose proof (rnd_ge_0 _ P2).
    pose proof (rnd_le_bpow 34 _ ltac:(lia) P1). pose proof (rnd_le_bpow 34 _ ltac:(lia) P3).
    rewrite Rabs_pos_eq by lra. replace 35%Z with (34 + 1)%Z by lia. rewrite bpow_double. lra. }
  rewrite Ea, Eb in Et. split; assumption.
Qed.

(** * 5. Round trips *)
Lemma B35_40 : bpow radix2 35 <= bpow radix2 40.
Proof. apply bpow_le. lia. Qed.

Lemma rt_tempo (sg qpm : PrimFloat.float) spq n s0 :
  fin qpm -> 10 <= R_of qpm <= 480 -> (1 <= spq <= 96)%Z ->
  fin sg -> bpow radix2 (-10) <= R_of sg <= 8 ->
  1 - 4 * u53 <= R_of sg * (IZR spq * R_of qpm / 60) <= 1 + 4 * u53 ->
  (0 <= n)%Z -> (0 <= s0)%Z -> (n + s0 <= 2 ^ 31)%Z ->
  q2s (step_time sg n s0) (sps_rel spq qpm) = (n + s0)%Z.
Proof.
  intros Fq Hq Hs Fsg Bsg Wsg Hn Hs0 HN.
  destruct (step_time_R sg n s0 Fsg Bsg Hn Hs0 HN) as [Et Ft].
  set (x := IZR spq * R_of qpm / 60) in *.
  assert (X0 : 0 < x).
  { unfold x. assert (1 <= IZR spq) by (apply (IZR_le 1); lia). nra. }
  pose proof (render_time_close (R_of sg) x n s0 X0 Wsg Bsg Hn Hs0 HN) as [C [T0 T1]].
  cbv zeta in C, T0, T1. rewrite <- Et in C, T0, T1.
  set (t := step_time sg n s0) in *.
  destruct (margin_ok (R_of t * x) (n + s0) (bpow radix2 (-49)) C ltac:(lia)) as [Hfl M].
  { split. apply bpow_gt_0. apply Rle_refl. }
  rewrite <- Hfl. apply q2s_rel_nearest; try assumption; try lia; try lra.
  - pose proof B35_40. lra.
  - fold x. rewrite Hfl. exact M.
Qed.

Theorem step_time_roundtrip_rel : forall qpm spq n s0,
  fin qpm -> 10 <= R_of qpm <= 480 -> (1 <= spq <= 96)%Z ->
  (0 <= n)%Z -> (0 <= s0)%Z -> (n + s0 <= 2 ^ 31)%Z ->
  rt_rel qpm spq n s0 = (n + s0)%Z.
Proof.
  intros qpm spq n s0 Fq Hq Hs Hn Hs0 HN.
  destruct (sigma_rel_R qpm spq Fq Hq Hs) as (Fsg & Bsg & Wsg).
  unfold rt_rel. apply rt_tempo; assumption.
Qed.

Theorem step_time_roundtrip_metric : forall qpm spq n s0,
  fin qpm -> 10 <= R_of qpm <= 480 -> (1 <= spq <= 96)%Z ->
  (0 <= n)%Z -> (0 <= s0)%Z -> (n + s0 <= 2 ^ 31)%Z ->
  rt_metric qpm spq n s0 = (n + s0)%Z.
Proof.
  intros qpm spq n s0 Fq Hq Hs Hn Hs0 HN.
  destruct (sigma_metric_R qpm spq Fq Hq Hs) as (Fsg & Bsg & Wsg).
  unfold rt_metric. apply rt_tempo; assumption.
Qed.

Theorem step_time_roundtrip_abs : forall sps n s0,
  (1 <= sps <= 1000)%Z ->
  (0 <= n)%Z -> (0 <= s0)%Z -> (n + s0 <= 2 ^ 31)%Z ->
  rt_abs sps n s0 = (n + s0)%Z.
Proof.
  intros sps n s0 Hs Hn Hs0 HN.
  destruct (sigma_abs_R sps Hs) as (Fsg & Bsg & Wsg).
  destruct (sps_abs_R sps ltac:(lia)) as (Ex & Fx & _).
  set (sg := sigma_abs sps) in *.
  destruct (step_time_R sg n s0 Fsg Bsg Hn Hs0 HN) as [Et Ft].
  assert (X0 : 0 < IZR sps) by (apply (IZR_lt 0); lia).
  pose proof (render_time_close (R_of sg) (IZR sps) n s0 X0 Wsg Bsg Hn Hs0 HN) as [C [T0 T1]].
  cbv zeta in C, T0, T1. rewrite <- Et in C, T0, T1.
  unfold rt_abs. fold sg. set (t := step_time sg n s0) in *.
  destruct (margin_ok (R_of t * IZR sps) (n + s0) (bpow radix2 (-50)) C ltac:(lia)) as [Hfl M].
  { split. apply bpow_gt_0. apply bpow_le. lia. }
  assert (P60 : 0 <= R_of t * R_of (sps_abs sps) <= bpow radix2 60).
  { rewrite Ex. split. apply Rmult_le_pos; lra.
    apply Rabs_le_inv in C.
    assert (IZR (n + s0) <= bpow radix2 31).
    { change (bpow radix2 31) with (IZR (2 ^ 31)). apply IZR_le. lia. }
    pose proof (bpow_le radix2 (31 + 1) 60 ltac:(lia)) as B. rewrite bpow_double in B.
    pose proof (bpow_ge_1 31 ltac:(lia)).
    assert (bpow radix2 (-19) <= 1) by (change 1 with (bpow radix2 0); apply bpow_le; lia).
    lra. }
  pose proof (q2s_nearest_local t (sps_abs sps) Ft Fx P60) as Q. cbv zeta in Q.
  rewrite Ex, Hfl in Q. apply Q. exact M.
Qed.

(** * 6. Step times are finite, non-negative, below 2^35 and strictly increasing in the step *)
Lemma step_time_range sg x n s0 :
  fin sg -> bpow radix2 (-10) <= R_of sg <= 8 -> 0 < x ->
  1 - 4 * u53 <= R_of sg * x <= 1 + 4 * u53 ->
  (0 <= n)%Z -> (0 <= s0)%Z -> (n + s0 <= 2 ^ 31)%Z ->
  fin (step_time sg n s0) /\ 0 <= R_of (step_time sg n s0) <= bpow radix2 40.
Proof.
  intros Fsg Bsg X0 Wsg Hn Hs0 HN.
  destruct (step_time_R sg n s0 Fsg Bsg Hn Hs0 HN) as [Et Ft].
  pose proof (render_time_close (R_of sg) x n s0 X0 Wsg Bsg Hn Hs0 HN) as [_ [T0 T1]].
  cbv zeta in T0, T1. rewrite <- Et in T0, T1. pose proof B35_40. split; [exact Ft|lra].
Qed.

Lemma strict_from_roundtrip sg s x n1 n2 s0 :
  fin sg -> bpow radix2 (-10) <= R_of sg <= 8 -> 0 < x ->
  1 - 4 * u53 <= R_of sg * x <= 1 + 4 * u53 ->
  fin s -> 0 <= R_of s <= bpow radix2 20 ->
  (0 <= n1 < n2)%Z -> (0 <= s0)%Z -> (n2 + s0 <= 2 ^ 31)%Z ->
  q2s (step_time sg n1 s0) s = (n1 + s0)%Z -> q2s (step_time sg n2 s0) s = (n2 + s0)%Z ->
  R_of (step_time sg n1 s0) < R_of (step_time sg n2 s0).
Proof.
  intros Fsg Bsg X0 Wsg Fs Bs Hn Hs0 HN Q1 Q2.
  destruct (step_time_range sg x n1 s0 Fsg Bsg X0 Wsg ltac:(lia) Hs0 ltac:(lia)) as [F1 R1].
  destruct (step_time_range sg x n2 s0 Fsg Bsg X0 Wsg ltac:(lia) Hs0 ltac:(lia)) as [F2 R2].
  apply Rnot_le_lt. intros Hle.
  pose proof (q2s_mono _ _ s F2 F1 Fs (conj (proj1 R2) Hle) (proj2 R1) Bs) as M.
  rewrite Q1, Q2 in M. lia.
Qed.

Theorem step_time_strict_rel : forall qpm spq n1 n2 s0,
  fin qpm -> 10 <= R_of qpm <= 480 -> (1 <= spq <= 96)%Z ->
  (0 <= n1 < n2)%Z -> (0 <= s0)%Z -> (n2 + s0 <= 2 ^ 31)%Z ->
  R_of (step_time (sigma_rel qpm spq) n1 s0) < R_of (step_time (sigma_rel qpm spq) n2 s0).
Proof.
  intros qpm spq n1 n2 s0 Fq Hq Hs Hn Hs0 HN.
  destruct (sigma_rel_R qpm spq Fq Hq Hs) as (Fsg & Bsg & Wsg).
  destruct (sps_rel_R spq qpm ltac:(lia) Fq ltac:(lra)) as (Fx & [X0 X1] & _).
  assert (XX : 0 < IZR spq * R_of qpm / 60).
  { assert (1 <= IZR spq) by (apply (IZR_le 1); lia). nra. }
  apply (strict_from_roundtrip _ (sps_rel spq qpm) _ n1 n2 s0 Fsg Bsg XX Wsg Fx ltac:(lra) Hn Hs0 HN).
  - apply (step_time_roundtrip_rel qpm spq n1 s0); try assumption; lia.
  - apply (step_time_roundtrip_rel qpm spq n2 s0); try assumption; lia.
Qed.

Theorem step_time_strict_metric : forall qpm spq n1 n2 s0,
  fin qpm -> 10 <= R_of qpm <= 480 -> (1 <= spq <= 96)%Z ->
  (0 <= n1 < n2)%Z -> (0 <= s0)%Z -> (n2 + s0 <= 2 ^ 31)%Z ->
  R_of (step_time (sigma_metric qpm spq) n1 s0) < R_of (step_time (sigma_metric qpm spq) n2 s0).
Proof.
  intros qpm spq n1 n2 s0 Fq Hq Hs Hn Hs0 HN.
  destruct (sigma_metric_R qpm spq Fq Hq Hs) as (Fsg & Bsg & Wsg).
  destruct (sps_rel_R spq qpm ltac:(lia) Fq ltac:(lra)) as (Fx & [X0 X1] & _).
  assert (XX : 0 < IZR spq * R_of qpm / 60).
  { assert (1 <= IZR spq) by (apply (IZR_le 1); lia). nra. }
  apply (strict_from_roundtrip _ (sps_rel spq qpm) _ n1 n2 s0 Fsg Bsg XX Wsg Fx ltac:(lra) Hn Hs0 HN).
  - apply (step_time_roundtrip_metric qpm spq n1 s0); try assumption; lia.
  - apply (step_time_roundtrip_metric qpm spq n2 s0); try assumption; lia.
Qed.

Theorem step_time_strict_abs : forall sps n1 n2 s0,
  (1 <= sps <= 1000)%Z ->
  (0 <= n1 < n2)%Z -> (0 <= s0)%Z -> (n2 + s0 <= 2 ^ 31)%Z ->
  R_of (step_time (sigma_abs sps) n1 s0) < R_of (step_time (sigma_abs sps) n2 s0).
Proof.
  intros sps n1 n2 s0 Hs Hn Hs0 HN.
  destruct (sigma_abs_R sps Hs) as (Fsg & Bsg & Wsg).
  destruct (sps_abs_R sps ltac:(lia)) as (Ex & Fx & Bx).
  assert (XX : 0 < IZR sps) by (apply (IZR_lt 0); lia).
  apply (strict_from_roundtrip _ (sps_abs sps) _ n1 n2 s0 Fsg Bsg XX Wsg Fx Bx Hn Hs0 HN).
  - apply (step_time_roundtrip_abs sps n1 s0); try assumption; lia.
  - apply (step_time_roundtrip_abs sps n2 s0); try assumption; lia.
Qed.

(** * 7. Concrete instances (bit-exact evaluation), showing the hypotheses are satisfiable and the
    statements hold on them by computation: 97.3 qpm, 12 steps per quarter, step 1000003 of a
    sequence starting at step 96; the last admissible step at 31 steps per second. *)
Example step_time_roundtrip_nonvacuous :
  let qpm := 0x1.8533333333333p+6%float in
  fin qpm /\
  rt_rel qpm 12 1000003 96 = 1000099%Z /\
  rt_metric qpm 12 1000003 96 = 1000099%Z /\
  rt_abs 31 (2 ^ 31 - 31) 31 = (2 ^ 31)%Z /\
  PrimFloat.ltb (step_time (sigma_rel qpm 12) 1000002 96) (step_time (sigma_rel qpm 12) 1000003 96) = true.
Proof. vm_compute. repeat split. Qed.
