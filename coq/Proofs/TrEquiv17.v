(** Proofs/TrEquiv17.v — PerformanceEvent._check_event (the attrs validator) re-translated from its SOURCE on every
    run (Gen/Tr.v) accepts exactly the events the hand-written model [Perf.ev_valid] of Model/EventsPoly.v accepts. *)
From Coq Require Import ZArith Bool.
From NS Require Import Base.TrTac Gen.G17 Gen.Tr Model.EventsPoly.
Local Open Scope Z_scope.

Lemma tr_performance_event_validate_eq t v a b :
  tr_performance_event_validate t v a b = if Perf.ev_valid (t, v) then Some tt else None.
Proof.
  unfold tr_performance_event_validate, Perf.ev_valid, EV_NOTE_ON, EV_NOTE_OFF, EV_TIME_SHIFT, EV_DURATION,
         EV_VELOCITY, PERF_MIN_PITCH, PERF_MAX_PITCH, MAX_NUM_VELOCITY_BINS.
  first [ solve [ destruct ((t =? 1) || (t =? 2));
                  [ destruct ((0 <=? v) && (v <=? 127)); reflexivity
                  | destruct (t =? 3); [destruct (0 <=? v); reflexivity|];
                    destruct (t =? 5); [destruct (1 <=? v); reflexivity|];
                    destruct (t =? 4); [destruct ((1 <=? v) && (v <=? 127)); reflexivity|]; reflexivity ] ]
        | tr_solve ].
Qed.
