(** Proofs/AbcPitch.v — C04: the pitch of every note as a function of the token
    history (explicit accidental > accidental set earlier in the same bar on the
    same letter > key signature in force), octave marks, MIDI range. *)
From Coq Require Import ZArith QArith List Bool Lia.
From NS Require Import Gen.G04 Model.Abc Proofs.AbcKeys.
Import ListNotations.
Local Open Scope Z_scope.

(** ** Frame lemmas: which steps touch the accidental tables *)
Lemma add_tempo_frame : forall s u r s', add_tempo s u r = Ok s' ->
  bacc s' = bacc s /\ kacc s' = kacc s /\ notes s' = notes s /\ cur s' = cur s.
Proof.
  intros s u r s' H. unfold add_tempo in H.
  destruct (match u with Some x => Some x | None => unit_len s end); [|discriminate].
  injection H as <-. repeat split.
Qed.

Lemma parse_field_bacc : forall s f s', parse_field s f = Ok s' -> bacc s' = bacc s.
Proof.
  intros s f s' H. destruct f as [|n|m|n d|q|t m e ea| | |]; cbn [parse_field] in H; try discriminate.
  - now injection H as <-.
  - now injection H as <-.
  - destruct m; try discriminate; now injection H as <-.
  - destruct (d =? 0); [discriminate|]. now injection H as <-.
  - destruct q as [beats rate|rate|].
    + destruct (sum_beats beats 0%Q); cbn [bind] in H; [|discriminate].
      destruct (in_header s); [now injection H as <-|]. now apply add_tempo_frame in H.
    + destruct (in_header s); [now injection H as <-|]. now apply add_tempo_frame in H.
    + now injection H as <-.
  - destruct (parse_key t m e ea) as [[[a pk] pm]|]; cbn [bind] in H; [|discriminate].
    now injection H as <-.
Qed.

Lemma set_values_frame : forall s s', set_values_from_header s = Ok s' ->
  bacc s' = bacc s /\ kacc s' = kacc s.
Proof.
  intros s s' H. unfold set_values_from_header in H.
  destruct (truthy_q (unit_len s)).
  - cbn [bind] in H. destruct (truthy_z (htempo_rate s)); [|now injection H as <-].
    destruct (htempo_rate s); [|now injection H as <-].
    apply add_tempo_frame in H. tauto.
  - destruct (default_unit s) as [u|]; cbn [bind] in H; [|discriminate].
    destruct (truthy_z (htempo_rate (set_unit s (Some u)))); [|now injection H as <-].
    destruct (htempo_rate (set_unit s (Some u))); [|now injection H as <-].
    apply add_tempo_frame in H. cbn in H. tauto.
Qed.

Lemma add_section_frame : forall s t s1 new, add_section s t = (s1, new) ->
  bacc s1 = bacc s /\ kacc s1 = kacc s.
Proof.
  intros s t s1 new H. unfold add_section in H.
  destruct (sects s) as [|[t0 i0] r] eqn:E.
  - destruct (qltb 0%Q t); cbn in H.
    + destruct (qeqb 0%Q t); injection H as <- <-; split; reflexivity.
    + rewrite E in H. injection H as <- <-; split; reflexivity.
  - cbn in H. rewrite E in H. destruct (qeqb t0 t); injection H as <- <-; split; reflexivity.
Qed.

Lemma add_group_prev_frame : forall s n s', add_group_prev s n = Ok s' ->
  bacc s' = bacc s /\ kacc s' = kacc s.
Proof.
  intros s n s' H. unfold add_group_prev in H.
  destruct (sects s) as [|x [|[t i] r]]; try discriminate. injection H as <-. split; reflexivity.
Qed.

Lemma repeat_common_frame : forall s b f s', repeat_common s b f = Ok s' ->
  bacc s' = bacc s /\ kacc s' = kacc s.
Proof.
  intros s b f s' H. unfold repeat_common in H.
  destruct (match expected s with Some e => _ | None => false end); [discriminate|].
  destruct (add_section s (cur s)) as [s1 new] eqn:E. apply add_section_frame in E. destruct E as [E1 E2].
  destruct b as [b|].
  - destruct (qzero (cur s)); [discriminate|].
    destruct (add_group_prev s1 b) as [s2|] eqn:G; cbn [bind] in H; [|discriminate].
    apply add_group_prev_frame in G. injection H as <-. cbn. destruct G; split; congruence.
  - destruct new.
    + destruct (qltb 0%Q (cur s)).
      * destruct (add_group_prev s1 1) as [s2|] eqn:G; cbn [bind] in H; [|discriminate].
        apply add_group_prev_frame in G. injection H as <-. cbn. destruct G; split; congruence.
      * cbn [bind] in H. injection H as <-. cbn. split; congruence.
    + cbn [bind] in H. injection H as <-. cbn. split; congruence.
Qed.

Lemma step_bar_frame : forall s lc bl rc s', step_bar s lc bl rc = Ok s' ->
  bacc s' = [] /\ kacc s' = kacc s.
Proof.
  intros s lc bl rc s' H. unfold step_bar in H.
  destruct ((0 <? lc) || (0 <? rc)).
  - apply repeat_common_frame in H. cbn in H. exact H.
  - destruct (2 <=? bl); [|injection H as <-; split; reflexivity].
    cbn [expected set_bacc] in H. destruct (expected s); [injection H as <-; split; reflexivity|].
    cbn [cur set_bacc] in H.
    destruct (qltb 0%Q (cur s)); [|injection H as <-; split; reflexivity].
    destruct (add_section (set_bacc s []) (cur s)) as [s1 new] eqn:E.
    apply add_section_frame in E. cbn in E. destruct E as [E1 E2].
    destruct new; [|injection H as <-; split; assumption].
    apply add_group_prev_frame in H. destruct H; split; congruence.
Qed.

Lemma step_colons_frame : forall s n s', step_colons s n = Ok s' ->
  bacc s' = [] /\ kacc s' = kacc s.
Proof.
  intros s n s' H. unfold step_colons in H.
  destruct (negb (n mod 2 =? 0)); [discriminate|].
  apply repeat_common_frame in H. cbn in H. exact H.
Qed.

Lemma apply_broken_frame : forall s br s', apply_broken s br = Ok s' ->
  bacc s' = bacc s /\ kacc s' = kacc s /\ cur s' = cur s /\
  exists n2 n1 rest n2' n1', notes s = n2 :: n1 :: rest /\ notes s' = n2' :: n1' :: rest /\
     n_pitch n2' = n_pitch n2 /\ n_pitch n1' = n_pitch n1.
Proof.
  intros s br s' H. unfold apply_broken in H.
  destruct (notes s) as [|n2 [|n1 rest]] eqn:E; try discriminate.
  destruct (negb _); [discriminate|].
  destruct (fst br); injection H as <-; cbn; repeat split; do 5 eexists; repeat split.
Qed.

(** ** The history functions (most recent item first) *)
Fixpoint bar_hist (h : list item) (name : Z) : option Z :=
  match h with
  | [] => None
  | ITok (TBar _ _ _) :: _ => None
  | ITok (TColons _) :: _ => None
  | ITok (TNote a l _ _) :: r =>
      match eacc_val a with
      | Some c => if upper_c l =? name then Some c else bar_hist r name
      | None => bar_hist r name
      end
  | _ :: r => bar_hist r name
  end.

Definition key_of_field (f : field) : option amap :=
  match f with
  | FK t m e ea => match parse_key t m e ea with Ok (a, _, _) => Some a | Err _ => None end
  | _ => None
  end.

Fixpoint key_hist (h : list item) : amap :=
  match h with
  | [] => sig_to_accidentals 0
  | IField f :: r => match key_of_field f with Some a => a | None => key_hist r end
  | ITok (TInline f) :: r => match key_of_field f with Some a => a | None => key_hist r end
  | _ :: r => key_hist r
  end.

Lemma parse_field_kacc : forall s f s', parse_field s f = Ok s' ->
  kacc s' = match key_of_field f with Some a => a | None => kacc s end.
Proof.
  intros s f s' H. destruct f as [|n|m|n d|q|t m e ea| | |]; cbn [parse_field key_of_field] in *; try discriminate.
  - now injection H as <-.
  - now injection H as <-.
  - destruct m; try discriminate; now injection H as <-.
  - destruct (d =? 0); [discriminate|]. now injection H as <-.
  - destruct q as [beats rate|rate|].
    + destruct (sum_beats beats 0%Q); cbn [bind] in H; [|discriminate].
      destruct (in_header s); [now injection H as <-|]. apply add_tempo_frame in H. tauto.
    + destruct (in_header s); [now injection H as <-|]. apply add_tempo_frame in H. tauto.
    + now injection H as <-.
  - destruct (parse_key t m e ea) as [[[a pk] pm]|]; cbn [bind] in H; [|discriminate].
    now injection H as <-.
Qed.

Lemma note_pitch_bacc : forall k b a l octs p b', note_pitch k b a l octs = Ok (p, b') ->
  forall name, aget name b' =
    match eacc_val a with
    | Some c => if upper_c l =? name then Some c else aget name b
    | None => aget name b
    end.
Proof.
  intros k b a l octs p b' H name. unfold note_pitch in H.
  destruct (assoc_z l ABC_NOTE_TO_MIDI) as [base|]; [|discriminate].
  destruct a; cbn [acc_change bind eacc_val] in *; try discriminate.
  - destruct (aget (upper_c l) b).
    + destruct (_ || _); [discriminate|]. now injection H as _ <-.
    + destruct (_ || _); [discriminate|]. now injection H as _ <-.
  - destruct (_ || _); [discriminate|]. injection H as _ <-.
    unfold aget, aset. cbn [assoc_z]. now rewrite (Z.eqb_sym name).
  - destruct (_ || _); [discriminate|]. injection H as _ <-.
    unfold aget, aset. cbn [assoc_z]. now rewrite (Z.eqb_sym name).
  - destruct (_ || _); [discriminate|]. injection H as _ <-.
    unfold aget, aset. cbn [assoc_z]. now rewrite (Z.eqb_sym name).
Qed.

Lemma step_note_frame : forall s a l octs len s', step_note s a l octs len = Ok s' ->
  kacc s' = kacc s /\
  exists p b', note_pitch (kacc s) (bacc s) a l octs = Ok (p, b') /\ bacc s' = b' /\
     exists n rest, notes s' = n :: rest /\ n_pitch n = p.
Proof.
  intros s a l octs len s' H. unfold step_note in H.
  destruct (note_pitch (kacc s) (bacc s) a l octs) as [[p b']|] eqn:E; cbn [bind] in H; [|discriminate].
  destruct (unit_len s) as [u|]; [|discriminate].
  destruct (note_length u len) as [ln|]; cbn [bind] in H; [|discriminate].
  destruct (qzero (cur_qpm s)); [discriminate|].
  destruct (broken s) as [br|].
  - match type of H with context [apply_broken ?S br] => destruct (apply_broken S br) as [s2|] eqn:B end;
      cbn [bind] in H; [|discriminate].
    injection H as <-. apply apply_broken_frame in B. cbn in B.
    destruct B as [B1 [B2 [_ [n2 [n1 [rest [n2' [n1' [N [N' [P2 _]]]]]]]]]]].
    cbn. split; [assumption|]. exists p, b'. split; [reflexivity|]. split; [assumption|].
    exists n2', (n1' :: rest). split; [assumption|]. injection N as <- _. exact P2.
  - injection H as <-. cbn. split; [reflexivity|]. exists p, b'. repeat split.
    eexists _, _. split; reflexivity.
Qed.

Lemma step_item_hist : forall s i s' h,
  step_item s i = Ok s' ->
  (forall name, aget name (bacc s) = bar_hist h name) -> kacc s = key_hist h ->
  (forall name, aget name (bacc s') = bar_hist (i :: h) name) /\ kacc s' = key_hist (i :: h).
Proof.
  intros s i s' h H HB HK. destruct i as [f| |t]; cbn [step_item] in H.
  - pose proof (parse_field_bacc _ _ _ H) as B. pose proof (parse_field_kacc _ _ _ H) as K.
    cbn [bar_hist key_hist]. split; [intros; rewrite B; apply HB|]. rewrite K, HK. reflexivity.
  - cbn [bar_hist key_hist].
    destruct (in_header s).
    + destruct (set_values_from_header s) as [s1|] eqn:E; cbn [bind] in H; [|discriminate].
      injection H as <-. apply set_values_frame in E. cbn. destruct E as [E1 E2].
      split; [intros; rewrite E1; apply HB|congruence].
    + cbn [bind] in H. injection H as <-. cbn. split; assumption.
  - destruct t as [a l octs len|lc bl rc|n|gt k|f| |u]; cbn [step_token] in H.
    + apply step_note_frame in H. destruct H as [K [p [b' [NP [B _]]]]].
      cbn [bar_hist key_hist]. split; [|congruence].
      intros name. rewrite B, (note_pitch_bacc _ _ _ _ _ _ _ NP name).
      destruct (eacc_val a); [destruct (upper_c l =? name); [reflexivity|]|]; apply HB.
    + apply step_bar_frame in H. destruct H as [B K]. cbn [bar_hist key_hist].
      split; [intros; rewrite B; reflexivity|congruence].
    + apply step_colons_frame in H. destruct H as [B K]. cbn [bar_hist key_hist].
      split; [intros; rewrite B; reflexivity|congruence].
    + destruct (broken s); [discriminate|]. injection H as <-. cbn. split; assumption.
    + pose proof (parse_field_bacc _ _ _ H) as B. pose proof (parse_field_kacc _ _ _ H) as K.
      cbn [bar_hist key_hist]. split; [intros; rewrite B; apply HB|]. rewrite K, HK. reflexivity.
    + injection H as <-. cbn. split; assumption.
    + destruct u; discriminate.
Qed.

Lemma run_items_hist : forall is s s' h,
  run_items s is = Ok s' ->
  (forall name, aget name (bacc s) = bar_hist h name) -> kacc s = key_hist h ->
  (forall name, aget name (bacc s') = bar_hist (rev is ++ h) name) /\ kacc s' = key_hist (rev is ++ h).
Proof.
  induction is as [|i r IH]; intros s s' h H HB HK; cbn [run_items] in H.
  - injection H as <-. cbn. split; assumption.
  - destruct (step_item s i) as [s1|] eqn:E; cbn [bind] in H; [|discriminate].
    destruct (step_item_hist _ _ _ _ E HB HK) as [B1 K1].
    specialize (IH _ _ _ H B1 K1). cbn [rev]. rewrite <- app_assoc. exact IH.
Qed.

(** ** Octave marks *)
Fixpoint count_b (b : bool) (l : list bool) : Z :=
  match l with [] => 0 | x :: r => (if Bool.eqb x b then 1 else 0) + count_b b r end.

Lemma oct_shift_count : forall octs, oct_shift octs = 12 * (count_b true octs - count_b false octs).
Proof.
  unfold oct_shift.
  assert (G : forall octs z, fold_left (fun z (o : bool) => if o then z + 12 else z - 12) octs z
                             = z + 12 * (count_b true octs - count_b false octs)).
  { induction octs as [|o r IH]; intros z; cbn [fold_left count_b]; [lia|].
    rewrite IH. destruct o; cbn [Bool.eqb]; lia. }
  intros. rewrite G. lia.
Qed.

(** ** The base pitch table *)
Definition base_spec (c : Z) : Z :=
  60 + letter_pc (upper_c c) + (if (97 <=? c) then 12 else 0).

Lemma base_table_ok :
  forallb (fun cv => (snd cv =? base_spec (fst cv)) && existsb (Z.eqb (upper_c (fst cv))) letters) ABC_NOTE_TO_MIDI
  && forallb (fun c => match assoc_z c ABC_NOTE_TO_MIDI with Some _ => true | None => false end)
       [67; 68; 69; 70; 71; 65; 66; 99; 100; 101; 102; 103; 97; 98] = true.
Proof. vm_compute. reflexivity. Qed.

Lemma assoc_z_in : forall (k : Z) (t : list (Z * Z)) v, assoc_z k t = Some v -> In (k, v) t.
Proof.
  induction t as [|[k' v'] r IH]; intros v H; cbn [assoc_z] in H; [discriminate|].
  destruct (k =? k') eqn:E.
  - apply Z.eqb_eq in E. injection H as <-. subst. now left.
  - right. now apply IH.
Qed.

Lemma base_pitch_rule : forall l base, assoc_z l ABC_NOTE_TO_MIDI = Some base ->
  base = base_spec l /\ In (upper_c l) letters.
Proof.
  intros l base H. apply assoc_z_in in H.
  pose proof base_table_ok as T. apply andb_prop in T. destruct T as [T _].
  rewrite forallb_forall in T. specialize (T _ H). cbn [fst snd] in T.
  apply andb_prop in T. destruct T as [T1 T2]. apply Z.eqb_eq in T1. split; [assumption|].
  apply existsb_exists in T2. destruct T2 as [x [I E]]. apply Z.eqb_eq in E. now subst.
Qed.

(** ** The key accidentals in force always cover the seven letters *)
Definition total_map (m : amap) : Prop := forall c, In c letters -> exists v, aget c m = Some v.

Lemma aset_total : forall k v m, total_map m -> total_map (aset k v m).
Proof.
  intros k v m T c Hc. unfold aget, aset. cbn [assoc_z]. destruct (c =? k); [eauto|]. now apply T.
Qed.

Lemma fold_aset_total : forall (l : list Z) v m, total_map m ->
  total_map (fold_left (fun m c => aset c v m) l m).
Proof. induction l as [|c r IH]; intros v m T; cbn [fold_left]; [assumption|]. apply IH. now apply aset_total. Qed.

Lemma sig_total : forall sig, total_map (sig_to_accidentals sig).
Proof.
  intros sig. unfold sig_to_accidentals.
  assert (B : total_map (map (fun c => (c, 0)) letters)).
  { intros c Hc. cbn in Hc. unfold aget.
    repeat (destruct Hc as [<-|Hc]; [cbn; eauto|]). contradiction. }
  destruct (0 <? sig); [now apply fold_aset_total|]. destruct (sig <? 0); [now apply fold_aset_total|]. assumption.
Qed.

Lemma key_explicit_total : forall ea m m', total_map m -> key_explicit ea m = Ok m' -> total_map m'.
Proof.
  induction ea as [|[a c] r IH]; intros m m' T H; cbn [key_explicit] in H.
  - now injection H as <-.
  - destruct a; try discriminate; eapply IH; try exact H; try assumption; now apply aset_total.
Qed.

Lemma key_hist_total : forall h, total_map (key_hist h).
Proof.
  induction h as [|i r IH]; cbn [key_hist]; [apply sig_total|].
  assert (G : forall f, total_map (match key_of_field f with Some a => a | None => key_hist r end)).
  { intros f. destruct f; cbn [key_of_field]; try assumption.
    destruct (parse_key tonic mode exp eacc) as [[[a pk] pm]|] eqn:E; [|assumption].
    unfold parse_key in E.
    destruct (assoc_s _ KEY_TO_SIG) as [sig|]; [|discriminate].
    destruct (assoc_s _ KEY_TO_PROTO_KEY) as [pk0|]; [|discriminate].
    destruct (proto_mode _) as [pm0|]; cbn [bind] in E; [|discriminate].
    destruct (key_explicit eacc _) as [a0|] eqn:K; cbn [bind] in E; [|discriminate].
    injection E as <- _ _. eapply key_explicit_total; [|exact K]. apply sig_total. }
  destruct i as [f| |t]; [apply G|assumption|]. destruct t; try assumption. apply G.
Qed.

(** ** The pitch rule *)
(* the accidental applied to a note written [a][l] after history [h]; None = rejected *)
Definition acc_in_force (h : list item) (a : acc) (l : Z) : option Z :=
  match a with
  | ADSharp | ADFlat => None
  | _ =>
      Some (match eacc_val a with
            | Some c => c
            | None =>
                match bar_hist h (upper_c l) with
                | Some c => c
                | None => match aget (upper_c l) (key_hist h) with Some c => c | None => 0 end
                end
            end)
  end.

Lemma st0_hist : (forall name, aget name (bacc st0) = bar_hist [] name) /\ kacc st0 = key_hist [].
Proof. split; reflexivity. Qed.

Lemma note_pitch_spec : forall k b a l octs base,
  assoc_z l ABC_NOTE_TO_MIDI = Some base ->
  note_pitch k b a l octs =
    match a with
    | ADSharp | ADFlat => Err EParse
    | _ =>
        let d := match eacc_val a with
                 | Some c => c
                 | None => match aget (upper_c l) b with
                           | Some c => c
                           | None => match aget (upper_c l) k with Some c => c | None => 0 end
                           end
                 end in
        let p := base + d + oct_shift octs in
        if (p <? MIN_MIDI_PITCH) || (MAX_MIDI_PITCH <? p) then Err EParse
        else Ok (p, match eacc_val a with Some c => aset (upper_c l) c b | None => b end)
    end.
Proof.
  intros k b a l octs base B. unfold note_pitch. rewrite B.
  destruct a; cbn [acc_change bind eacc_val]; try reflexivity.
  destruct (aget (upper_c l) b); reflexivity.
Qed.

Lemma pitch_rule : forall pre s a l octs len base,
  run_items st0 pre = Ok s ->
  assoc_z l ABC_NOTE_TO_MIDI = Some base ->
  match acc_in_force (rev pre) a l with
  | None => step_item s (ITok (TNote a l octs len)) = Err EParse
  | Some d =>
      let p := base + d + 12 * (count_b true octs - count_b false octs) in
      if (p <? MIN_MIDI_PITCH) || (MAX_MIDI_PITCH <? p)
      then step_item s (ITok (TNote a l octs len)) = Err EParse
      else forall s', step_item s (ITok (TNote a l octs len)) = Ok s' ->
           exists n rest, notes s' = n :: rest /\ n_pitch n = p
  end.
Proof.
  intros pre s a l octs len base R B.
  destruct st0_hist as [H0 K0].
  destruct (run_items_hist _ _ _ [] R H0 K0) as [HB HK]. rewrite app_nil_r in HB, HK.
  cbn [step_item step_token].
  pose proof (note_pitch_spec (kacc s) (bacc s) a l octs base B) as NPS.
  rewrite HB, HK in NPS. rewrite oct_shift_count in NPS.
  assert (E : forall e, note_pitch (kacc s) (bacc s) a l octs = Err e ->
              step_note s a l octs len = Err e).
  { intros e X. unfold step_note. rewrite X. reflexivity. }
  unfold acc_in_force.
  rewrite HK in E.
  destruct a; try (apply E; exact NPS); cbv zeta in *.
  all: match goal with |- context [if ?c then _ else _] => destruct c eqn:RNG end.
  all: try (apply E; exact NPS).
  all: intros s' H; apply step_note_frame in H; destruct H as [_ [p [b' [NP [_ [n [rest [N P]]]]]]]];
    exists n, rest; (split; [assumption|]); rewrite P; rewrite HK, NPS in NP; now injection NP as <- _.
Qed.
