(** Proofs/TrEquivF20.v — the sample-count arithmetic of audio_io.crop_samples and repeat_samples_to_duration,
    re-translated from the SOURCE on every run into PrimFloat terms (Gen/TrF.v; `len(samples)` is a parameter),
    equals the hand-written model of Model/Audio.v (crop_bounds, num_repeats), error cases included:
    [None] on the translated side is exactly an [Err] on the model side. *)
From Coq Require Import ZArith Bool Floats List.
From NS Require Import Base.FloatBridge Base.TrTac Base.TrTacF Gen.TrF Model.Audio.
Local Open Scope Z_scope.

Definition opt_of_res {A} (r : res A) : option A := match r with Ok a => Some a | Err _ => None end.

(** crop_samples returns samples[lo:hi]; the translation is the pair (lo, hi) of that slice, whatever the locals
    holding the bounds are called.  The model's (begin, count) gives the slice (begin, begin + count). *)
Definition slice_of_bounds (r : option (Z * Z)) : option (Z * Z) :=
  match r with Some (a, n) => Some (a, a + n) | None => None end.

Lemma trf_crop_bounds_eq rate b t :
  slice_of_bounds (opt_of_res (crop_bounds rate b t)) = trf_crop_slice rate b t.
Proof.
  unfold crop_bounds, trf_crop_slice, py_int, slice_of_bounds.
  first [ solve [ destruct (finb (b * f_of_Z rate)%float); [|reflexivity]; cbn zeta;
                  destruct (finb (t * f_of_Z rate)%float); reflexivity ]
        | unfold opt_of_res; trf_solve ].
Qed.

(** The only place where the two sides are not literally the same term: the model tests [rate =? 0] on the
    integer, Python's int/int true division raises when the divisor is 0, which the translation reads on the
    converted float.  They agree whenever conversion maps exactly the integer 0 to the float 0 — checked here
    for the five sample rates of the property's quantifier and 0. *)
Definition rate_zero_agrees (rate : Z) : bool := Bool.eqb (PrimFloat.eqb (f_of_Z rate) 0%float) (rate =? 0).

Lemma quantifier_rates_agree :
  forallb rate_zero_agrees (0 :: 8000 :: 16000 :: 22050 :: 44100 :: 48000 :: nil) = true.
Proof. vm_compute. reflexivity. Qed.

Lemma trf_num_repeats_eq len rate d : rate_zero_agrees rate = true ->
  opt_of_res (num_repeats len rate d) = trf_num_repeats len rate d.
Proof.
  intros H. unfold rate_zero_agrees in H. apply Bool.eqb_prop in H.
  unfold num_repeats, trf_num_repeats, seq_duration. rewrite H.
  first [ solve [ destruct (rate =? 0); [reflexivity|]; cbn zeta;
                  destruct (PrimFloat.eqb (f_of_Z len / f_of_Z rate) 0)%float; [reflexivity|];
                  destruct (finb (d / (f_of_Z len / f_of_Z rate))%float); reflexivity ]
        | unfold opt_of_res; destruct (rate =? 0) eqn:?; trf_solve ].
Qed.
