(** Proofs/RenderSamples.v — ties between regenerated data (Gen/G06.v, re-read from /repo on every run) and the
    C06 models:
    - the constants the reused C07 models take from Gen/G07.v (regenerated only when C07 is checked) are the ones
      /repo has now;
    - the float model of [to_sequence]'s time arithmetic (Model/RenderFloat.v) reproduces, bit for bit, the times
      the REAL to_sequence produced for the sample table (three seconds_per_step formulas, steps up to 2^31,
      start steps up to 2^20, non-integer tempos). *)
From Coq Require Import ZArith List Bool Floats.
From NS Require Import Base.FloatBridge Gen.G01 Gen.G06 Gen.G07 Model.RenderFloat.
Import ListNotations.
Local Open Scope Z_scope.

Lemma consts_agree :
  [C6_MELODY_NOTE_OFF; C6_MELODY_NO_EVENT; C6_MIN_MIDI_PITCH; C6_MAX_MIDI_PITCH; C6_MIN_MIDI_VELOCITY;
   C6_MAX_MIDI_VELOCITY; C6_EV_NOTE_ON; C6_EV_NOTE_OFF; C6_EV_TIME_SHIFT; C6_EV_VELOCITY; C6_EV_DURATION;
   C6_CHORD_SYMBOL]
  = [MELODY_NOTE_OFF; MELODY_NO_EVENT; MIN_MIDI_PITCH; MAX_MIDI_PITCH; MIN_MIDI_VELOCITY;
     MAX_MIDI_VELOCITY; EV_NOTE_ON; EV_NOTE_OFF; EV_TIME_SHIFT; EV_VELOCITY; EV_DURATION; CHORD_SYMBOL]
  /\ C6_NO_CHORD = NO_CHORD
  /\ (C6_QUANTIZE_CUTOFF_M, C6_QUANTIZE_CUTOFF_E) = (QUANTIZE_CUTOFF_M, QUANTIZE_CUTOFF_E).
Proof. repeat split; reflexivity. Qed.

Lemma float_samples_ok : forallb sample_ok float_samples = true /\ (150 <=? Z.of_nat (length float_samples)) = true.
Proof. split; vm_compute; reflexivity. Qed.
