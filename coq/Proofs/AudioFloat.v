(** Proofs/AudioFloat.v — C20: the binary64 length arithmetic of
    repeat_samples_to_duration and crop_samples, through Flocq.

    Main result [repeat_lengths]: for 1 <= len <= 2^32 samples, any integer
    rate 1..2^18 (all five rates of the property) and any finite duration
    0 <= d <= 2^31 s, the model's
        k = ceil(fl(d / fl(len / rate)))      n = trunc(fl(d * rate))
    satisfy 0 <= n <= k * len, i.e. the concatenated copies always cover the
    requested sample count (three relative errors of 2^-53 against one whole
    sample: needs n * 3 * 2^-53 < 1).  [repeat_premise_unbounded_refuted]
    shows the size bound is needed. *)
From Coq Require Import ZArith Reals Floats Lia Lra Psatz.
From Flocq Require Import Core Relative BinarySingleNaN PrimFloat.
From NS Require Import Base.FloatBridge Model.Audio Proofs.Audio.
Local Open Scope R_scope.

Lemma fmt_IZR z : (Z.abs z < 2^53)%Z -> generic_format radix2 fexp (IZR z).
Proof.
  intros H. apply generic_format_FLT. exists (Float radix2 z 0).
  - unfold F2R. simpl. lra.
  - simpl. unfold prec. exact H.
  - simpl. unfold emax, prec. lia.
Qed.

Lemma f_of_Z_R z : (0 <= z < 2^53)%Z -> R_of (f_of_Z z) = IZR z /\ fin (f_of_Z z).
Proof.
  intros Hz. unfold f_of_Z, f_of_me.
  destruct (Z.ltb_spec z 0) as [H|_]; [lia|].
  rewrite Z.abs_eq by lia.
  set (y := of_uint63 (Uint63.of_Z z)).
  assert (Hy : B2R (Prim2B y) = IZR z /\ is_finite (Prim2B y) = true).
  { unfold y. rewrite of_int63_equiv.
    assert (E : Uint63.to_Z (Uint63.of_Z z) = z).
    { rewrite Uint63.of_Z_spec. apply Z.mod_small. unfold Uint63.wB. simpl. lia. }
    rewrite E.
    generalize (binary_normalize_correct prec emax Hprec Hmax mode_NE z 0 false).
    cbv zeta. replace (F2R (Float radix2 z 0)) with (IZR z) by (unfold F2R; simpl; lra).
    rewrite round_generic; auto with typeclass_instances; [|apply fmt_IZR; lia].
    rewrite Rlt_bool_true.
    - intros (H1 & H2 & _). split; assumption.
    - rewrite <- abs_IZR. apply Rlt_le_trans with (IZR (2^53)). apply IZR_lt; lia.
      change (IZR (2^53)) with (bpow radix2 53). apply bpow_le. unfold emax. lia. }
  destruct Hy as [Hy1 Hy2].
  unfold R_of, fin. rewrite ldexp_equiv.
  generalize (Bldexp_correct prec emax Hprec Hmax mode_NE (Prim2B y) 0).
  simpl bpow. rewrite Rmult_1_r.
  rewrite round_generic; auto with typeclass_instances; [|apply generic_format_B2R].
  rewrite Rlt_bool_true.
  - intros (H1 & H2 & _). rewrite H1, H2. split; assumption.
  - apply abs_B2R_lt_emax.
Qed.
Lemma rnd_ge_0 x : 0 <= x -> 0 <= rnd x.
Proof. intros H. apply round_ge_generic; auto with typeclass_instances. apply generic_format_0. Qed.

Lemma fmt_bpow e : (-1074 <= e)%Z -> generic_format radix2 fexp (bpow radix2 e).
Proof. intros H. apply generic_format_bpow. unfold FLT_exp, emax, prec. lia. Qed.

Lemma rnd_le_bpow x e : (-1074 <= e)%Z -> x <= bpow radix2 e -> rnd x <= bpow radix2 e.
Proof. intros He H. apply round_le_generic; auto with typeclass_instances. apply fmt_bpow; lia. Qed.

Lemma rnd_ge_bpow x e : (-1074 <= e)%Z -> bpow radix2 e <= x -> bpow radix2 e <= rnd x.
Proof. intros He H. apply round_ge_generic; auto with typeclass_instances. apply fmt_bpow; lia. Qed.

Lemma rel_err x : bpow radix2 (-1022) <= Rabs x ->
  exists eps, Rabs eps <= bpow radix2 (-53) /\ rnd x = x * (1 + eps).
Proof.
  intros H.
  destruct (relative_error_N_FLT_ex radix2 (3 - emax - prec) prec prec53 (fun x => negb (Z.even x)) x) as (eps & He & Hr).
  - unfold emax, prec. simpl Z.add. simpl Z.sub. exact H.
  - exists eps. split; [|exact Hr].
    replace (bpow radix2 (-53)) with (/2 * bpow radix2 (- prec + 1)). exact He.
    unfold prec. simpl. lra.
Qed.

Lemma trunc_floor x : 0 <= R_of x -> IZR (trunc x) <= R_of x < IZR (trunc x) + 1.
Proof.
  intros H. rewrite trunc_Ztrunc, Ztrunc_floor by exact H.
  split. apply Zfloor_lb. apply Zfloor_ub.
Qed.

Lemma trunc_nonneg x : 0 <= R_of x -> (0 <= trunc x)%Z.
Proof.
  intros H. rewrite trunc_Ztrunc, Ztrunc_floor by exact H.
  apply Zfloor_lub. exact H.
Qed.

Lemma fceil_ge q : fin q -> 0 <= R_of q < bpow radix2 53 ->
  R_of q <= IZR (fceil q) /\ (0 <= fceil q)%Z.
Proof.
  intros Fq [H0 H1]. unfold fceil.
  pose proof (trunc_floor q H0) as [Hlo Hhi].
  pose proof (trunc_nonneg q H0) as Hnn.
  assert (Ht : (0 <= trunc q < 2^53)%Z).
  { split; [exact Hnn|]. apply lt_IZR. apply Rle_lt_trans with (R_of q); [exact Hlo|].
    change (IZR (2^53)) with (bpow radix2 53). exact H1. }
  destruct (f_of_Z_R (trunc q) Ht) as [Et Ft].
  rewrite (ltb_R _ _ Ft Fq), Et.
  destruct (Rlt_bool_spec (IZR (trunc q)) (R_of q)) as [H|H].
  - split; [rewrite plus_IZR; lra | lia].
  - split; [lra | lia].
Qed.

Lemma eqb_R x y : fin x -> fin y -> PrimFloat.eqb x y = Req_bool (R_of x) (R_of y).
Proof. intros Fx Fy. rewrite eqb_equiv. apply Beqb_correct; assumption. Qed.

Lemma zero_R : R_of 0%float = 0 /\ fin 0%float.
Proof. split; [|reflexivity]. rewrite R_of_SF.
  replace (Prim2SF 0%float) with (S754_zero false) by (vm_compute; reflexivity). reflexivity. Qed.

Lemma p31_R : R_of 0x1p31%float = bpow radix2 31 /\ fin 0x1p31%float.
Proof. split; [|reflexivity]. rewrite R_of_SF.
  replace (Prim2SF 0x1p31%float) with (S754_finite false 4503599627370496 (-21)) by (vm_compute; reflexivity).
  unfold SF2R, F2R. cbn -[IZR]. lra. Qed.

(** The real-number core: with three relative errors of at most 2^-53 the
    rounded quotient times len exceeds the rounded product minus one. *)
Lemma repeat_core L R D s Q P e1 e2 e3 :
  1 <= L -> 1 <= R -> 0 <= D -> D * R <= bpow radix2 49 ->
  Rabs e1 <= bpow radix2 (-53) -> Rabs e2 <= bpow radix2 (-53) -> Rabs e3 <= bpow radix2 (-53) ->
  s = L / R * (1 + e1) -> Q = D / s * (1 + e2) -> P = D * R * (1 + e3) ->
  P - 1 < Q * L.
Proof.
  intros HL HR HD HX H1 H2 H3 Es EQ EP.
  assert (U : bpow radix2 (-53) = / 9007199254740992) by (simpl; lra).
  assert (B49 : bpow radix2 49 = 562949953421312) by (simpl; lra).
  rewrite U in *. rewrite B49 in *.
  apply Rabs_le_inv in H1, H2, H3.
  set (X := D * R) in *.
  assert (HX0 : 0 <= X) by (unfold X; nra).
  assert (Hs : Q * L * (1 + e1) = X * (1 + e2)).
  { rewrite EQ, Es. unfold X. field. split; [lra|]. split; lra. }
  assert (Hp : 0 < 1 + e1) by lra.
  apply Rmult_lt_reg_r with (1 + e1); [exact Hp|]. rewrite Hs, EP. fold X.
  assert (Hc : (1 + e3) * (1 + e1) - (1 + e2) <= 4 / 9007199254740992) by nra.
  assert (X * ((1 + e3) * (1 + e1) - (1 + e2)) <= 562949953421312 * (4 / 9007199254740992)).
  { destruct (Rle_lt_dec 0 ((1 + e3) * (1 + e1) - (1 + e2))).
    - apply Rmult_le_compat; lra.
    - nra. }
  nra.
Qed.

Local Open Scope Z_scope.
Definition len_ok (len : Z) : bool := (1 <=? len) && (len <=? 2^32).
Definition rate_ok (rate : Z) : bool := (1 <=? rate) && (rate <=? 2^18).
Definition dur_ok (d : PrimFloat.float) : bool := finb d && PrimFloat.leb 0 d && PrimFloat.leb d 0x1p31.
Local Open Scope R_scope.

Lemma bpow_IZR e : (0 <= e)%Z -> bpow radix2 e = IZR (2 ^ e).
Proof. intros H. rewrite <- (IZR_Zpower radix2 e H). reflexivity. Qed.

Theorem repeat_lengths len rate d :
  len_ok len = true -> rate_ok rate = true -> dur_ok d = true ->
  exists k n, num_repeats len rate d = Ok k /\ crop_bounds rate 0%float d = Ok (0%Z, n) /\
              (0 <= n <= k * len)%Z /\ n = trunc (d * f_of_Z rate)%float.
Proof.
  unfold len_ok, rate_ok, dur_ok. intros Hlen Hrate Hd.
  apply andb_prop in Hlen as [Hl1 Hl2]. apply andb_prop in Hrate as [Hr1 Hr2].
  apply andb_prop in Hd as [Hd Hd2]. apply andb_prop in Hd as [Fd Hd1].
  apply Z.leb_le in Hl1, Hl2, Hr1, Hr2.
  change (finb d = true) with (fin d) in Fd.
  destruct zero_R as [E0 F0]. destruct p31_R as [E31 F31].
  rewrite (leb_R _ _ F0 Fd), E0 in Hd1. revert Hd1. case Rle_bool_spec; [intros HD0 _ | discriminate].
  rewrite (leb_R _ _ Fd F31), E31 in Hd2. revert Hd2. case Rle_bool_spec; [intros HD1 _ | discriminate].
  destruct (f_of_Z_R len ltac:(lia)) as [EL FL]. destruct (f_of_Z_R rate ltac:(lia)) as [ER FR].
  set (D := R_of d) in *. set (L := IZR len) in *. set (R := IZR rate) in *.
  assert (HL : 1 <= L <= bpow radix2 32).
  { unfold L. rewrite bpow_IZR by lia. split; apply IZR_le; lia. }
  assert (HR : 1 <= R <= bpow radix2 18).
  { unfold R. rewrite bpow_IZR by lia. split; apply IZR_le; lia. }
  assert (B18 : bpow radix2 18 = 262144) by (simpl; lra).
  assert (B32 : bpow radix2 32 = 4294967296) by (simpl; lra).
  assert (B31 : bpow radix2 31 = 2147483648) by (simpl; lra).
  assert (B49 : bpow radix2 49 = 562949953421312) by (simpl; lra).
  assert (Bm18 : bpow radix2 (-18) = / 262144) by (simpl; lra).
  (* sd = fl(len / rate) *)
  assert (HLR : bpow radix2 (-18) <= L / R <= bpow radix2 32).
  { rewrite Bm18, B32. rewrite B18, B32 in *. split.
    - apply Rmult_le_reg_r with R; [lra|]. unfold Rdiv. rewrite Rmult_assoc, Rinv_l by lra. nra.
    - apply Rmult_le_reg_r with R; [lra|]. unfold Rdiv. rewrite Rmult_assoc, Rinv_l by lra. nra. }
  assert (HLRpos : 0 < L / R). { rewrite Bm18 in HLR. lra. }
  destruct (div_R (f_of_Z len) (f_of_Z rate) 32 FL FR ltac:(rewrite ER; fold R; lra) ltac:(lia)) as [Es Fs].
  { rewrite EL, ER. fold L R. rewrite Rabs_pos_eq by lra. tauto. }
  rewrite EL, ER in Es. fold L R in Es. fold (seq_duration len rate) in Es, Fs.
  set (sd := seq_duration len rate) in *. set (s := R_of sd) in *.
  assert (Hs : bpow radix2 (-18) <= s <= bpow radix2 32).
  { rewrite Es. split; [apply rnd_ge_bpow | apply rnd_le_bpow]; try lia; tauto. }
  assert (Hspos : 0 < s). { rewrite Bm18 in Hs. lra. }
  (* q = fl(d / sd) *)
  assert (HDs : 0 <= D / s <= bpow radix2 49).
  { split. apply Rmult_le_pos; [lra|]. apply Rlt_le, Rinv_0_lt_compat; lra.
    apply Rmult_le_reg_r with s; [lra|]. unfold Rdiv. rewrite Rmult_assoc, Rinv_l by lra.
    rewrite B49, B31, Bm18 in *. nra. }
  destruct (div_R d sd 49 Fd Fs ltac:(fold s; lra) ltac:(lia)) as [Eq Fq].
  { fold D s. rewrite Rabs_pos_eq by tauto. tauto. }
  fold D s in Eq. set (q := (d / sd)%float) in *. set (Q := R_of q) in *.
  assert (HQ : 0 <= Q <= bpow radix2 49).
  { rewrite Eq. split; [apply rnd_ge_0 | apply rnd_le_bpow; try lia]; tauto. }
  destruct (fceil_ge q Fq) as [Hk Hk0].
  { fold Q. split; [tauto|]. apply Rle_lt_trans with (bpow radix2 49); [tauto|]. apply bpow_lt. lia. }
  fold Q in Hk.
  (* p = fl(d * rate), and 0 * rate *)
  assert (HX : 0 <= D * R <= bpow radix2 49).
  { split; [nra|]. rewrite B49, B31, B18 in *. nra. }
  destruct (mul_R d (f_of_Z rate) 49 Fd FR ltac:(lia)) as [Ep Fp].
  { rewrite ER. fold D R. rewrite Rabs_pos_eq by tauto. tauto. }
  rewrite ER in Ep. fold D R in Ep. set (p := (d * f_of_Z rate)%float) in *. set (P := R_of p) in *.
  assert (HP : 0 <= P <= bpow radix2 49).
  { rewrite Ep. split; [apply rnd_ge_0 | apply rnd_le_bpow; try lia]; tauto. }
  destruct (mul_R 0%float (f_of_Z rate) 0 F0 FR ltac:(lia)) as [Ez Fz].
  { rewrite E0, Rmult_0_l, Rabs_R0. simpl. lra. }
  rewrite E0, Rmult_0_l, round_0 in Ez by auto with typeclass_instances.
  assert (Tz : trunc (0 * f_of_Z rate)%float = 0%Z).
  { rewrite trunc_Ztrunc, Ez. apply Ztrunc_IZR. }
  (* assemble the model's computations *)
  exists (fceil q), (trunc p).
  split.
  { unfold num_repeats. destruct (Z.eqb_spec rate 0) as [H|_]; [lia|].
    fold sd. rewrite (eqb_R _ _ Fs F0), E0. fold s.
    rewrite Req_bool_false by lra. fold q.
    change (finb q) with (is_finite (Prim2B q)). rewrite Fq. reflexivity. }
  split.
  { rewrite (crop_bounds_ok rate 0%float d Fz Fp). rewrite Tz. reflexivity. }
  split; [|reflexivity].
  pose proof (trunc_floor p ltac:(fold P; tauto)) as [Hn1 Hn2]. fold P in Hn1, Hn2.
  pose proof (trunc_nonneg p ltac:(fold P; tauto)) as Hn0.
  split; [exact Hn0|].
  destruct (Rlt_le_dec (D * R) (/2)) as [Hsmall|Hbig].
  - (* fewer than half a sample requested: n = 0 *)
    assert (P <= bpow radix2 (-1)). { rewrite Ep. apply rnd_le_bpow; [lia|]. simpl. lra. }
    assert (trunc p = 0)%Z. { apply Z.le_antisymm; [|exact Hn0]. apply Zlt_succ_le. apply lt_IZR. simpl in *. lra. }
    nia.
  - (* normal range: three relative errors *)
    assert (HD19 : / 524288 <= D). { rewrite B18 in HR. apply Rmult_le_reg_r with R; [lra|]. nra. }
    destruct (rel_err (L / R)) as (e1 & He1 & Ee1).
    { rewrite Rabs_pos_eq by lra. apply Rle_trans with (bpow radix2 (-18)); [apply bpow_le; lia | tauto]. }
    destruct (rel_err (D / s)) as (e2 & He2 & Ee2).
    { rewrite Rabs_pos_eq by tauto. apply Rle_trans with (bpow radix2 (-51)); [apply bpow_le; lia|].
      replace (bpow radix2 (-51)) with (/ 524288 * / 4294967296) by (simpl; lra).
      assert (Hinv : / 4294967296 <= / s) by (apply Rinv_le; [lra | rewrite <- B32; tauto]).
      unfold Rdiv. apply Rmult_le_compat; lra. }
    destruct (rel_err (D * R)) as (e3 & He3 & Ee3).
    { rewrite Rabs_pos_eq by tauto. apply Rle_trans with (bpow radix2 (-1)); [apply bpow_le; lia|]. simpl. lra. }
    pose proof (repeat_core L R D s Q P e1 e2 e3 ltac:(tauto) ltac:(tauto) HD0 ltac:(tauto) He1 He2 He3
                  ltac:(rewrite Es; exact Ee1) ltac:(rewrite Eq; exact Ee2) ltac:(rewrite Ep; exact Ee3)) as Hcore.
    apply Znot_gt_le. intros Hgt.
    assert (IZR (fceil q) * L + 1 <= IZR (trunc p)).
    { unfold L. rewrite <- mult_IZR, <- plus_IZR. apply IZR_le. lia. }
    assert (Q * L <= IZR (fceil q) * L). { apply Rmult_le_compat_r; lra. }
    lra.
Qed.

(** * repeat_samples_to_duration, full statement *)
Theorem repeat_spec {A : Type} (x : list A) rate d :
  len_ok (zlen x) = true -> rate_ok rate = true -> dur_ok d = true ->
  exists out, repeat_to_duration x rate d = Ok out /\
    zlen out = trunc (d * f_of_Z rate)%float /\
    forall i, (0 <= i < zlen out)%Z -> znth out i = znth x (i mod zlen x).
Proof.
  intros Hl Hr Hd.
  destruct (repeat_lengths (zlen x) rate d Hl Hr Hd) as (k & n & Hk & Hb & Hn & En).
  assert (Hpos : (0 < zlen x)%Z).
  { unfold len_ok in Hl. apply andb_prop in Hl as [H _]. apply Z.leb_le in H. lia. }
  destruct (repeat_spec_given_lengths x rate d k n Hpos Hk Hb Hn) as (out & Ho & Hlen & Hnth).
  exists out. split; [exact Ho|]. split; [congruence|]. intros i Hi. apply Hnth. lia.
Qed.

(** The copies always cover the request in the domain above, but NOT for
    arbitrary finite durations: beyond 2^52 requested samples the rounded
    quotient can fall short (8000 Hz, 139 samples, ~20000 years of audio). *)
Lemma repeat_premise_unbounded_refuted :
  exists len rate d k n, len_ok len = true /\ rate = 8000%Z /\ finb d = true /\ PrimFloat.leb 0 d = true /\
    num_repeats len rate d = Ok k /\ crop_bounds rate 0%float d = Ok (0%Z, n) /\ (k * len < n)%Z.
Proof.
  exists 139%Z, 8000%Z, (f_of_me 5197014989242929 (-13)), 36512301801673%Z, 5075209950432548%Z.
  vm_compute. repeat split; reflexivity.
Qed.

(** * The sample counts as real-number expressions *)
Lemma m31_R : R_of (-0x1p31)%float = - bpow radix2 31 /\ fin (-0x1p31)%float.
Proof. split; [|reflexivity]. rewrite R_of_SF.
  replace (Prim2SF (-0x1p31)%float) with (S754_finite true 4503599627370496 (-21)) by (vm_compute; reflexivity).
  unfold SF2R, F2R. cbn -[IZR]. lra. Qed.

Definition time_ok (t : PrimFloat.float) : bool :=
  finb t && PrimFloat.leb (-0x1p31) t && PrimFloat.leb t 0x1p31.

(** [int(t * rate)] is the truncation of the correctly rounded real product. *)
Lemma int_mul_real t rate : rate_ok rate = true -> time_ok t = true ->
  finb (t * f_of_Z rate)%float = true /\
  trunc (t * f_of_Z rate)%float = Ztrunc (rnd (R_of t * IZR rate)).
Proof.
  unfold rate_ok, time_ok. intros Hr Ht.
  apply andb_prop in Hr as [Hr1 Hr2]. apply Z.leb_le in Hr1, Hr2.
  apply andb_prop in Ht as [Ht Ht2]. apply andb_prop in Ht as [Ft Ht1].
  change (finb t = true) with (fin t) in Ft.
  destruct m31_R as [Em Fm]. destruct p31_R as [Ep Fp].
  rewrite (leb_R _ _ Fm Ft), Em in Ht1. revert Ht1. case Rle_bool_spec; [intros H1 _ | discriminate].
  rewrite (leb_R _ _ Ft Fp), Ep in Ht2. revert Ht2. case Rle_bool_spec; [intros H2 _ | discriminate].
  destruct (f_of_Z_R rate ltac:(lia)) as [ER FR].
  assert (HR : 1 <= IZR rate <= bpow radix2 18).
  { rewrite bpow_IZR by lia. split; apply IZR_le; lia. }
  destruct (mul_R t (f_of_Z rate) 49 Ft FR ltac:(lia)) as [E F].
  { rewrite ER. replace (bpow radix2 49) with (bpow radix2 31 * bpow radix2 18) by (rewrite <- bpow_plus; reflexivity).
    rewrite Rabs_mult. apply Rmult_le_compat; try apply Rabs_pos.
    - apply Rabs_le. lra.
    - rewrite Rabs_pos_eq by lra. tauto. }
  split; [exact F|]. rewrite trunc_Ztrunc, E, ER. reflexivity.
Qed.

Theorem crop_bounds_total rate b t : rate_ok rate = true -> time_ok b = true -> time_ok t = true ->
  crop_bounds rate b t = Ok (Ztrunc (rnd (R_of b * IZR rate)), Ztrunc (rnd (R_of t * IZR rate))).
Proof.
  intros Hr Hb Ht.
  destruct (int_mul_real b rate Hr Hb) as [F1 E1]. destruct (int_mul_real t rate Hr Ht) as [F2 E2].
  rewrite (crop_bounds_ok rate b t F1 F2), E1, E2. reflexivity.
Qed.
