(** Proofs/AbcKeys.v — C04: soundness of the key tables of abc_parser.ABCTune
    (SIG_TO_KEYS, KEY_TO_SIG, KEY_TO_PROTO_KEY as regenerated from the module on
    every run) by complete enumeration in the kernel: 15 signatures x 7 modes x
    every accepted spelling of the mode. *)
From Coq Require Import ZArith QArith List Bool Lia.
From NS Require Import Gen.G04 Model.Abc.
Import ListNotations.
Local Open Scope Z_scope.

(** ** The music-theory side, independent of the module's tables *)

(* position of a letter on the line of fifths F C G D A E B *)
Definition fifths_idx (c : Z) : Z :=
  if c =? 70 then 0 else if c =? 67 then 1 else if c =? 71 then 2 else if c =? 68 then 3
  else if c =? 65 then 4 else if c =? 69 then 5 else 6.

(* accidental a signature of [sig] sharps (negative: flats) gives to a letter *)
Definition spec_acc (sig c : Z) : Z :=
  if fifths_idx c <? sig then 1 else if 7 + sig <=? fifths_idx c then -1 else 0.

Definition letter_pc (c : Z) : Z :=
  if c =? 67 then 0 else if c =? 68 then 2 else if c =? 69 then 4 else if c =? 70 then 5
  else if c =? 71 then 7 else if c =? 65 then 9 else 11.

(* pitch class of a tonic written as letter + optional '#' (35) or 'b' (98) *)
Definition tonic_pc (t : list Z) : Z :=
  match t with
  | [c] => letter_pc c
  | [c; a] => (letter_pc c + (if a =? 35 then 1 else -1)) mod 12
  | _ => -1
  end.

(* a key as written in SIG_TO_KEYS: tonic, mode suffix *)
Definition key_split (k : list Z) : list Z * list Z :=
  match k with
  | c :: a :: r => if (a =? 35) || (a =? 98) then ([c; a], r) else ([c], a :: r)
  | _ => (k, [])
  end.

Record mode_info := mkMode {
  mi_suffix : list Z;            (* as written in the table, lower-cased *)
  mi_enum : Z;                   (* KeySignature.Mode *)
  mi_semitones : Z;              (* tonic above the tonic of the major key with the same signature *)
  mi_names : list (list Z) }.    (* every accepted name / abbreviation, lower case *)

Definition modes : list mode_info :=
  [ mkMode [] MODE_MAJOR 0
      [[]; [109;97;106]; [109;97;106;111;114]; [105;111;110]; [105;111;110;105;97;110]];
    mkMode [109] MODE_MINOR 9
      [[109]; [109;105;110]; [109;105;110;111;114]; [97;101;111]; [97;101;111;108;105;97;110]];
    mkMode [109;105;120] MODE_MIXOLYDIAN 7 [[109;105;120]; [109;105;120;111;108;121;100;105;97;110]];
    mkMode [100;111;114] MODE_DORIAN 2 [[100;111;114]; [100;111;114;105;97;110]];
    mkMode [112;104;114] MODE_PHRYGIAN 4 [[112;104;114]; [112;104;114;121;103;105;97;110]];
    mkMode [108;121;100] MODE_LYDIAN 5 [[108;121;100]; [108;121;100;105;97;110]];
    mkMode [108;111;99] MODE_LOCRIAN 11 [[108;111;99]; [108;111;99;114;105;97;110]] ].

Definition cap_s (s : list Z) : list Z :=
  match s with c :: r => upper_c c :: r | [] => [] end.
Definition upper_s (s : list Z) : list Z := map upper_c s.

(* lower case, Capitalised, UPPER CASE *)
Definition spellings (m : mode_info) : list (list Z) :=
  flat_map (fun n => [n; cap_s n; upper_s n]) (mi_names m).

Definition mode_of_suffix (sfx : list Z) : option mode_info :=
  find (fun m => str_eqb (lower_s sfx) (mi_suffix m)) modes.

(** ** The check of one (signature, key, spelling) *)
Definition key_ok (sig : Z) (key sp : list Z) (m : mode_info) : bool :=
  let '(tonic, _) := key_split key in
  match parse_key tonic sp false [] with
  | Ok (a, pk, pm) =>
      forallb (fun c => match aget c a with Some v => v =? spec_acc sig c | None => false end) letters
      && (pk =? tonic_pc tonic) && (pk =? (7 * sig + mi_semitones m) mod 12) && (pm =? mi_enum m)
  | Err _ => false
  end.

Definition row_ok (row : Z * list (list Z)) : bool :=
  let '(sig, keys) := row in
  (-7 <=? sig) && (sig <=? 7) &&
  forallb (fun key =>
    match mode_of_suffix (snd (key_split key)) with
    | Some m => forallb (fun sp => key_ok sig key sp m) (spellings m)
    | None => false
    end) keys.

(* the table has every signature -7..7, each with one key per mode *)
Definition table_complete : bool :=
  forallb (fun s => existsb (fun row =>
     (fst row =? s) &&
     forallb (fun m => existsb (fun key => str_eqb (lower_s (snd (key_split key))) (mi_suffix m)) (snd row)) modes)
     SIG_TO_KEYS)
  [-7; -6; -5; -4; -3; -2; -1; 0; 1; 2; 3; 4; 5; 6; 7].

Lemma table_rows_ok : forallb row_ok SIG_TO_KEYS = true.
Proof. vm_compute. reflexivity. Qed.

Lemma table_is_complete : table_complete = true.
Proof. vm_compute. reflexivity. Qed.

Lemma key_table_sound :
  forall sig keys key m sp,
    In (sig, keys) SIG_TO_KEYS -> In key keys ->
    mode_of_suffix (snd (key_split key)) = Some m -> In sp (spellings m) ->
    exists a pk pm,
      parse_key (fst (key_split key)) sp false [] = Ok (a, pk, pm) /\
      (forall c, In c letters -> aget c a = Some (spec_acc sig c)) /\
      pk = tonic_pc (fst (key_split key)) /\
      pk = (7 * sig + mi_semitones m) mod 12 /\
      pm = mi_enum m /\ -7 <= sig <= 7.
Proof.
  intros sig keys key m sp Hrow Hkey Hm Hsp.
  pose proof table_rows_ok as H.
  rewrite forallb_forall in H. specialize (H _ Hrow). unfold row_ok in H.
  apply andb_prop in H. destruct H as [Hs H].
  apply andb_prop in Hs. destruct Hs as [Hs1 Hs2].
  rewrite forallb_forall in H. specialize (H _ Hkey). rewrite Hm in H.
  rewrite forallb_forall in H. specialize (H _ Hsp). unfold key_ok in H.
  destruct (key_split key) as [tonic sfx] eqn:Hk. cbn [fst].
  destruct (parse_key tonic sp false []) as [[[a pk] pm]|] eqn:Hp; [|discriminate].
  exists a, pk, pm. split; [reflexivity|].
  apply andb_prop in H. destruct H as [H H4].
  apply andb_prop in H. destruct H as [H H3].
  apply andb_prop in H. destruct H as [H1 H2].
  rewrite forallb_forall in H1.
  repeat split.
  - intros c Hc. specialize (H1 _ Hc). destruct (aget c a); [|discriminate].
    apply Z.eqb_eq in H1. now subst.
  - now apply Z.eqb_eq.
  - now apply Z.eqb_eq.
  - now apply Z.eqb_eq.
  - now apply Z.leb_le.
  - now apply Z.leb_le.
Qed.

(* every key of the table has a mode the enumeration covers *)
Lemma key_table_modes_known :
  forall sig keys key, In (sig, keys) SIG_TO_KEYS -> In key keys ->
    exists m, mode_of_suffix (snd (key_split key)) = Some m.
Proof.
  intros sig keys key Hrow Hkey.
  pose proof table_rows_ok as H.
  rewrite forallb_forall in H. specialize (H _ Hrow). unfold row_ok in H.
  apply andb_prop in H. destruct H as [_ H].
  rewrite forallb_forall in H. specialize (H _ Hkey).
  destruct (mode_of_suffix (snd (key_split key))) as [m|]; [now exists m|discriminate].
Qed.

(** ** Explicit accidentals ("K:D Phr ^f", "K:D exp _b _e ^f") *)
Definition eacc_single (a : acc) : bool :=
  match a with ADSharp | ADFlat => false | _ => true end.

Definition eacc_val (a : acc) : option Z :=
  match a with ASharp => Some 1 | AFlat => Some (-1) | ANat => Some 0 | _ => None end.

(* the last explicit setting of a letter, if any *)
Fixpoint last_explicit (eacc : list (acc * Z)) (name : Z) (found : option Z) : option Z :=
  match eacc with
  | [] => found
  | (a, c) :: r =>
      last_explicit r name
        (match eacc_val a with
         | Some v => if upper_c c =? name then Some v else found
         | None => found
         end)
  end.

Lemma key_explicit_spec : forall eacc m,
  forallb (fun p => eacc_single (fst p)) eacc = true ->
  exists m', key_explicit eacc m = Ok m' /\
    forall name, aget name m' =
      match last_explicit eacc name None with Some v => Some v | None => aget name m end.
Proof.
  induction eacc as [|[a c] r IH]; intros m Hs.
  - exists m. split; [reflexivity|]. intros; reflexivity.
  - cbn [forallb fst] in Hs. apply andb_prop in Hs. destruct Hs as [Ha Hr].
    assert (G : forall found name,
      last_explicit r name found =
      match last_explicit r name None with Some v => Some v | None => found end).
    { clear. induction r as [|[a c] r IH]; intros found name; cbn [last_explicit].
      - reflexivity.
      - rewrite IH. symmetry. rewrite IH.
        destruct (last_explicit r name None); [reflexivity|].
        destruct (eacc_val a); [destruct (upper_c c =? name)|]; reflexivity. }
    destruct a; cbn [eacc_single] in Ha; try discriminate; cbn [key_explicit last_explicit eacc_val].
    + destruct (IH m Hr) as [m' [E S]]. exists m'. split; [exact E|]. exact S.
    + destruct (IH (aset (upper_c c) 1 m) Hr) as [m' [E S]]. exists m'. split; [exact E|].
      intros name. rewrite S. rewrite (G (if upper_c c =? name then Some 1 else None)).
      destruct (last_explicit r name None); [reflexivity|].
      unfold aget, aset. cbn [assoc_z]. rewrite (Z.eqb_sym name). destruct (upper_c c =? name); reflexivity.
    + destruct (IH (aset (upper_c c) (-1) m) Hr) as [m' [E S]]. exists m'. split; [exact E|].
      intros name. rewrite S. rewrite (G (if upper_c c =? name then Some (-1) else None)).
      destruct (last_explicit r name None); [reflexivity|].
      unfold aget, aset. cbn [assoc_z]. rewrite (Z.eqb_sym name). destruct (upper_c c =? name); reflexivity.
    + destruct (IH (aset (upper_c c) 0 m) Hr) as [m' [E S]]. exists m'. split; [exact E|].
      intros name. rewrite S. rewrite (G (if upper_c c =? name then Some 0 else None)).
      destruct (last_explicit r name None); [reflexivity|].
      unfold aget, aset. cbn [assoc_z]. rewrite (Z.eqb_sym name). destruct (upper_c c =? name); reflexivity.
Qed.

(* a key with modifiers: same signature lookup, accidentals = signature (or none
   with 'exp') overridden by the explicit ones; double accidentals are rejected *)
Lemma parse_key_explicit : forall tonic mode exp eacc a pk pm,
  parse_key tonic mode false [] = Ok (a, pk, pm) ->
  forallb (fun p => eacc_single (fst p)) eacc = true ->
  exists a', parse_key tonic mode exp eacc = Ok (a', pk, pm) /\
    forall name, aget name a' =
      match last_explicit eacc name None with
      | Some v => Some v
      | None => if exp then aget name (sig_to_accidentals 0) else aget name a
      end.
Proof.
  intros tonic mode exp eacc a pk pm H Hs. unfold parse_key in *.
  destruct (assoc_s (lower_s (tonic ++ norm_mode mode)) KEY_TO_SIG) as [sig|]; [|discriminate].
  destruct (assoc_s (lower_s tonic) KEY_TO_PROTO_KEY) as [pk0|]; [|discriminate].
  destruct (proto_mode (norm_mode mode)) as [pm0|]; [|discriminate].
  cbn [bind key_explicit] in H. injection H as <- <- <-.
  cbn [bind].
  destruct (key_explicit_spec eacc (sig_to_accidentals (if exp then 0 else sig)) Hs) as [m' [E S]].
  rewrite E. exists m'. split; [reflexivity|].
  intros name. rewrite S. destruct (last_explicit eacc name None); [reflexivity|].
  destruct exp; reflexivity.
Qed.

Lemma parse_key_double_rejected : forall tonic mode exp eacc a pk pm,
  parse_key tonic mode false [] = Ok (a, pk, pm) ->
  forallb (fun p => eacc_single (fst p)) eacc = false ->
  parse_key tonic mode exp eacc = Err EParse.
Proof.
  intros tonic mode exp eacc a pk pm H Hs. unfold parse_key in *.
  destruct (assoc_s (lower_s (tonic ++ norm_mode mode)) KEY_TO_SIG) as [sig|]; [|discriminate].
  destruct (assoc_s (lower_s tonic) KEY_TO_PROTO_KEY) as [pk0|]; [|discriminate].
  destruct (proto_mode (norm_mode mode)) as [pm0|]; [|discriminate].
  cbn [bind].
  assert (G : forall m, key_explicit eacc m = Err EParse).
  { induction eacc as [|[x c] r IH]; [discriminate|].
    cbn [forallb fst] in Hs. intros m.
    destruct x; cbn [eacc_single andb] in Hs; cbn [key_explicit]; try reflexivity; now apply IH. }
  now rewrite G.
Qed.
