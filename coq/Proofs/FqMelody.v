(** Proofs/FqMelody.v — melody_steps: Melody.from_quantized_sequence against its step-for-step
    specification (accepted notes, onset / note-off / no-event, first bar, gap, padding). *)
From Coq Require Import ZArith List Bool Lia ZifyBool Permutation Sorted.
From NS Require Import Base.NoteSeq Gen.G07 Model.FqCommon Model.FqMelody Model.FqSpec Proofs.FqCommon.
Import ListNotations.
Local Open Scope Z_scope.

Lemma mel_consts :
  MELODY_NOTE_OFF < MIN_MIDI_PITCH /\ MELODY_NO_EVENT < MIN_MIDI_PITCH /\ MELODY_NO_EVENT <> MELODY_NOTE_OFF.
Proof. repeat split; try reflexivity. discriminate. Qed.

Lemma no_eq_off : (MELODY_NO_EVENT =? MELODY_NOTE_OFF) = false. Proof. reflexivity. Qed.
Lemma no_is_pitch : (MIN_MIDI_PITCH <=? MELODY_NO_EVENT) = false. Proof. reflexivity. Qed.
Lemma off_is_pitch : (MIN_MIDI_PITCH <=? MELODY_NOTE_OFF) = false. Proof. reflexivity. Qed.

Definition NO := MELODY_NO_EVENT.
Definition OFF := MELODY_NOTE_OFF.

(** the events of one note: pitch, NO_EVENT ..., NOTE_OFF *)
Definition note_tail (b : note) : list Z :=
  n_pitch b :: zrepeat NO (n_qend b - n_qstart b - 1) ++ [OFF].

Definition shape (mss : Z) (b : note) (evs : list Z) : Prop :=
  exists pre, evs = pre ++ note_tail b /\ len pre = n_qstart b - mss.

Definition note_ok (mss : Z) (n : note) : Prop :=
  MIN_MIDI_PITCH <= n_pitch n /\ n_qstart n < n_qend n /\ mss <= n_qstart n.

Lemma rev_zrepeat {A} (x : A) n : rev (zrepeat x n) = zrepeat x n.
Proof.
  unfold zrepeat. induction (Z.to_nat n) as [|k IH]; [reflexivity|].
  cbn [repeat rev]. rewrite IH. clear. induction k; cbn; [reflexivity|]. now rewrite IHk.
Qed.

Lemma mel_scan_repeat k : forall r i lo,
  0 <= k -> mel_scan (zrepeat NO k ++ r) i lo = mel_scan r (i - k) lo.
Proof.
  intros r i lo Hk. unfold zrepeat. rewrite <- (Z2Nat.id k) at 2 by exact Hk.
  revert i. induction (Z.to_nat k) as [|n IH]; intros i; [cbn; f_equal; lia|].
  cbn [repeat app mel_scan]. unfold NO. rewrite no_eq_off, no_is_pitch.
  fold NO. rewrite IH. f_equal. lia.
Qed.

Lemma last_on_off_shape mss b evs :
  note_ok mss b -> shape mss b evs ->
  mel_last_on_off evs = Some (n_qstart b - mss, n_qend b - mss).
Proof.
  intros (Hp & Hlt & _) (pre & -> & Hpre). unfold mel_last_on_off, note_tail.
  rewrite !rev_app_distr. cbn [rev app]. rewrite rev_app_distr. cbn [rev app]. rewrite rev_zrepeat.
  rewrite <- !app_assoc. cbn [app mel_scan]. unfold OFF.
  rewrite Z.eqb_refl, off_is_pitch.
  rewrite mel_scan_repeat by lia. cbn [mel_scan].
  replace (MIN_MIDI_PITCH <=? n_pitch b) with true by lia.
  destruct (n_pitch b =? MELODY_NOTE_OFF) eqn:E; [pose proof mel_consts; lia|].
  f_equal. f_equal; len_simpl; lia.
Qed.

Lemma sustained_off l : mel_sustained (rev (l ++ [OFF])) = false.
Proof. rewrite rev_app_distr. reflexivity. Qed.

Lemma shape_ends_off mss b evs : shape mss b evs -> exists l, evs = l ++ [OFF].
Proof.
  intros (pre & -> & _). unfold note_tail. exists (pre ++ n_pitch b :: zrepeat NO (n_qend b - n_qstart b - 1)).
  rewrite <- app_assoc. reflexivity.
Qed.

Lemma len_mel_set_length n evs : 0 <= n -> len (mel_set_length n evs) = n.
Proof.
  intros Hn. unfold mel_set_length. pose proof (len_nonneg evs).
  destruct (len evs <? n) eqn:E.
  - destruct (mel_sustained (rev evs)); rewrite len_app; [rewrite len_cons|]; rewrite len_zrepeat; lia.
  - rewrite len_zfirstn. lia.
Qed.

(** not sustained: identical to the generic set_length *)
Lemma znth_mel_set_length n i evs :
  mel_sustained (rev evs) = false -> 0 <= i < n ->
  znth NO i (mel_set_length n evs) = znth NO i evs.
Proof.
  intros Hs Hi. unfold mel_set_length. rewrite Hs. destruct (len evs <? n) eqn:E.
  - destruct (Z_lt_le_dec i (len evs)).
    + now rewrite znth_app_l by lia.
    + rewrite znth_app_r by lia. rewrite znth_zrepeat by lia. now rewrite znth_overflow by lia.
  - now apply znth_zfirstn.
Qed.

(** the Ok branch of _add_note *)
Definition add' (mss : Z) (evs : list Z) (b : note) : list Z :=
  zfirstn (n_qstart b - mss) (mel_set_length (n_qend b - mss + 1) evs) ++ note_tail b.

Lemma add_note_ok mss b evs :
  note_ok mss b ->
  mel_add_note (n_pitch b) (n_qstart b - mss) (n_qend b - mss) evs = Ok (add' mss evs b)
  /\ shape mss b (add' mss evs b).
Proof.
  intros (Hp & Hlt & Hm). unfold mel_add_note, add', note_tail.
  replace (n_qend b - mss <=? n_qstart b - mss) with false by lia.
  replace (n_qend b - mss - (n_qstart b - mss) - 1) with (n_qend b - n_qstart b - 1) by lia.
  split; [reflexivity|]. eexists. split; [reflexivity|].
  rewrite len_zfirstn, len_mel_set_length by lia. lia.
Qed.

(** * the loop in terms of the last accepted note *)
Fixpoint sloop (ignore_poly : bool) (G mss : Z) (ns : list note) (evs : list Z) (b : note)
  : res (list Z) :=
  match ns with
  | [] => Ok evs
  | n :: r =>
      if n_qstart n =? n_qstart b then
        if ignore_poly then sloop ignore_poly G mss r evs b else Err E_POLY
      else if n_qstart n <? n_qstart b then Err E_POLY
      else if G <=? n_qstart n - n_qend b then Ok evs
      else sloop ignore_poly G mss r (add' mss evs n) n
  end.

Lemma mel_loop_sloop ig G mss : forall ns evs b,
  Forall (note_ok mss) ns -> note_ok mss b -> shape mss b evs ->
  mel_loop ig G mss ns evs = sloop ig G mss ns evs b.
Proof.
  induction ns as [|n r IH]; intros evs b Hns Hb Hsh; cbn [mel_loop sloop]; [reflexivity|].
  inversion Hns as [|? ? Hn Hr]; subst.
  assert (Hne : exists e l, evs = e :: l).
  { destruct Hsh as (pre & -> & _). unfold note_tail. destruct pre; cbn; eauto. }
  destruct Hne as (e & l & Hevs). rewrite Hevs. rewrite <- Hevs.
  rewrite (last_on_off_shape mss b evs Hb Hsh).
  replace (n_qstart n - mss - (n_qstart b - mss) =? 0) with (n_qstart n =? n_qstart b) by lia.
  replace (n_qstart n - mss - (n_qstart b - mss) <? 0) with (n_qstart n <? n_qstart b) by lia.
  replace (n_qstart n - mss - (n_qend b - mss)) with (n_qstart n - n_qend b) by lia.
  destruct (n_qstart n =? n_qstart b); [destruct ig; [now apply IH|reflexivity]|].
  destruct (n_qstart n <? n_qstart b); [reflexivity|].
  destruct (G <=? n_qstart n - n_qend b); [reflexivity|].
  destruct (add_note_ok mss n evs Hn) as (-> & Hsh'). cbn [bind]. now apply IH.
Qed.

(** * the loop over a start-sorted candidate list = folding [add'] over the accepted notes *)
Fixpoint nondecr (prev : Z) (ns : list note) : Prop :=
  match ns with [] => True | n :: r => prev <= n_qstart n /\ nondecr (n_qstart n) r end.

Lemma sloop_spec ig G mss : forall ns evs b,
  nondecr (n_qstart b) ns ->
  sloop ig G mss ns evs b
  = if negb ig && mel_dup G b ns then Err E_POLY
    else Ok (fold_left (add' mss) (mel_cut G b (mel_heads_from (n_qstart b) ns)) evs).
Proof.
  induction ns as [|n r IH]; intros evs b Hnd; cbn [sloop mel_dup mel_heads_from mel_cut fold_left].
  - now rewrite andb_false_r.
  - destruct Hnd as (Hle & Hnd).
    destruct (n_qstart n =? n_qstart b) eqn:E1.
    + assert (n_qstart n = n_qstart b) as Heq by lia. rewrite Heq in Hnd.
      destruct ig; cbn [negb andb]; [|reflexivity]. rewrite (IH evs b Hnd). reflexivity.
    + replace (n_qstart n <? n_qstart b) with false by lia.
      cbn [mel_cut]. destruct (G <=? n_qstart n - n_qend b) eqn:E2.
      * now rewrite andb_false_r.
      * rewrite (IH (add' mss evs n) n Hnd). reflexivity.
Qed.

Definition qlt (a b : note) : Prop := n_qstart a < n_qstart b.

Lemma heads_sorted : forall ns prev,
  nondecr prev ns ->
  StronglySorted qlt (mel_heads_from prev ns) /\ Forall (fun n => prev < n_qstart n) (mel_heads_from prev ns)
  /\ (forall x, In x (mel_heads_from prev ns) -> In x ns).
Proof.
  induction ns as [|a r IH]; intros prev Hnd; cbn [mel_heads_from].
  - repeat split; try constructor. intros x [].
  - destruct Hnd as (Hle & Hnd). destruct (n_qstart a =? prev) eqn:E.
    + assert (n_qstart a = prev) as Heq by lia. rewrite Heq in Hnd. destruct (IH prev Hnd) as (H1 & H2 & H3).
      repeat split; auto. intros x Hx. right. now apply H3.
    + destruct (IH _ Hnd) as (H1 & H2 & H3). split; [|split].
      * constructor; [exact H1|]. eapply Forall_impl; [|exact H2]. intros x Hx. exact Hx.
      * constructor; [lia|]. eapply Forall_impl; [|exact H2]. intros x Hx. cbn beta in Hx. lia.
      * intros x [<-|Hx]; [now left|right; now apply H3].
Qed.

Lemma mel_cut_prefix G : forall l b, exists rest, l = mel_cut G b l ++ rest.
Proof.
  induction l as [|a r IH]; intros b; cbn [mel_cut]; [now exists []|].
  destruct (G <=? n_qstart a - n_qend b); [now eexists|].
  destruct (IH a) as (rest & Hr). exists rest. cbn [app]. now rewrite <- Hr.
Qed.

Lemma sorted_nondecr l : forall prev,
  StronglySorted (fun a b => mel_le a b = true) l -> (forall n, In n l -> prev <= n_qstart n) -> nondecr prev l.
Proof.
  induction l as [|a r IH]; intros prev Hs Hp; cbn [nondecr]; [exact I|].
  inversion Hs as [|? ? Hs' Hf]; subst. split; [apply Hp; now left|].
  apply IH; [exact Hs'|]. intros n Hn. rewrite Forall_forall in Hf. specialize (Hf n Hn).
  unfold mel_le in Hf. lia.
Qed.

(** * pointwise reading of the folded events *)
Definition U (mss : Z) (A : list note) : list Z := fold_left (add' mss) A [].

Lemma U_snoc mss A b : U mss (A ++ [b]) = add' mss (U mss A) b.
Proof. unfold U. now rewrite fold_left_app. Qed.

Lemma current_snoc A b x :
  mel_current (A ++ [b]) x = if n_qstart b <=? x then Some b else mel_current A x.
Proof. unfold mel_current. now rewrite fold_left_app. Qed.

Lemma len_note_tail b : n_qstart b < n_qend b -> len (note_tail b) = n_qend b - n_qstart b + 1.
Proof. intros H. unfold note_tail. len_simpl. lia. Qed.

Lemma znth_note_tail b j : n_qstart b < n_qend b -> 0 <= j <= n_qend b - n_qstart b ->
  znth NO j (note_tail b) =
  if j =? 0 then n_pitch b else if j =? n_qend b - n_qstart b then OFF else NO.
Proof.
  intros Hlt Hj. unfold note_tail. destruct (j =? 0) eqn:E0.
  - replace j with 0 by lia. apply znth_cons_0.
  - rewrite znth_cons_S by lia. destruct (j =? n_qend b - n_qstart b) eqn:E1.
    + rewrite znth_app_r by (rewrite len_zrepeat; lia). rewrite len_zrepeat.
      replace (j - 1 - Z.max 0 (n_qend b - n_qstart b - 1)) with 0 by lia. apply znth_cons_0.
    + rewrite znth_app_l by (rewrite len_zrepeat; lia). apply znth_zrepeat. lia.
Qed.

Lemma add'_nth mss evs b i :
  note_ok mss b -> mel_sustained (rev evs) = false -> 0 <= i <= n_qend b - mss ->
  znth NO i (add' mss evs b) =
  if i <? n_qstart b - mss then znth NO i evs
  else if i =? n_qstart b - mss then n_pitch b
  else if i =? n_qend b - mss then OFF else NO.
Proof.
  intros (Hp & Hlt & Hm) Hs Hi. unfold add'.
  assert (Hl : len (zfirstn (n_qstart b - mss) (mel_set_length (n_qend b - mss + 1) evs)) = n_qstart b - mss).
  { rewrite len_zfirstn, len_mel_set_length by lia. lia. }
  destruct (i <? n_qstart b - mss) eqn:E.
  - rewrite znth_app_l by lia. rewrite znth_zfirstn by lia. apply znth_mel_set_length; [exact Hs|lia].
  - rewrite znth_app_r by lia. rewrite Hl. rewrite znth_note_tail by lia.
    replace (i - (n_qstart b - mss) =? 0) with (i =? n_qstart b - mss) by lia.
    replace (i - (n_qstart b - mss) =? n_qend b - n_qstart b) with (i =? n_qend b - mss) by lia.
    reflexivity.
Qed.

Lemma shape_len mss b evs : n_qstart b < n_qend b -> shape mss b evs -> len evs = n_qend b - mss + 1.
Proof. intros Hlt (pre & -> & Hpre). rewrite len_app, len_note_tail by exact Hlt. lia. Qed.

Lemma shape_not_sustained mss b evs : shape mss b evs -> mel_sustained (rev evs) = false.
Proof. intros H. destruct (shape_ends_off _ _ _ H) as (l & ->). apply sustained_off. Qed.

Lemma U_spec mss : forall A b,
  StronglySorted qlt (A ++ [b]) -> Forall (note_ok mss) (A ++ [b]) ->
  shape mss b (U mss (A ++ [b])) /\
  forall i, 0 <= i <= n_qend b - mss -> znth NO i (U mss (A ++ [b])) = mel_event_at (A ++ [b]) (mss + i).
Proof.
  induction A as [|c A' IH] using rev_ind; intros b Hs Hok.
  - cbn [app] in *. inversion Hok as [|? ? Hb _]; subst.
    change (U mss [b]) with (add' mss [] b).
    split; [apply (add_note_ok mss b [] Hb)|].
    intros i Hi. rewrite add'_nth by (auto; reflexivity).
    unfold mel_event_at, mel_current. cbn [fold_left]. destruct Hb as (Hp & Hlt & Hm).
    destruct (i <? n_qstart b - mss) eqn:E.
    + replace (n_qstart b <=? mss + i) with false by lia. now rewrite znth_overflow by (rewrite len_nil; lia).
    + replace (n_qstart b <=? mss + i) with true by lia.
      replace (n_qstart b =? mss + i) with (i =? n_qstart b - mss) by lia.
      replace (n_qend b =? mss + i) with (i =? n_qend b - mss) by lia. reflexivity.
  - destruct (StronglySorted_app_inv _ _ _ Hs) as (Hs' & _ & Hcross).
    apply Forall_app in Hok. destruct Hok as (Hok' & Hb). inversion Hb as [|? ? Hb' _]; subst.
    destruct (IH c Hs' Hok') as (Hshape & Hnth).
    assert (Hc : note_ok mss c) by (apply Forall_app in Hok'; destruct Hok' as (_ & Hc); now inversion Hc).
    assert (Hcb : n_qstart c < n_qstart b) by (apply (Hcross c b); [apply in_or_app; right; now left|now left]).
    rewrite U_snoc. split; [apply (add_note_ok mss b _ Hb')|].
    intros i Hi. rewrite add'_nth by (auto; eapply shape_not_sustained; eassumption).
    unfold mel_event_at. rewrite current_snoc. destruct Hb' as (Hp & Hlt & Hm). destruct Hc as (Hcp & Hclt & Hcm).
    destruct (i <? n_qstart b - mss) eqn:E.
    + replace (n_qstart b <=? mss + i) with false by lia.
      destruct (Z_le_gt_dec i (n_qend c - mss)) as [Hle|Hgt].
      * rewrite Hnth by lia. reflexivity.
      * rewrite znth_overflow by (rewrite (shape_len mss c _ Hclt Hshape); lia).
        rewrite current_snoc. replace (n_qstart c <=? mss + i) with true by lia.
        replace (n_qstart c =? mss + i) with false by lia.
        replace (n_qend c =? mss + i) with false by lia. reflexivity.
    + replace (n_qstart b <=? mss + i) with true by lia.
      replace (n_qstart b =? mss + i) with (i =? n_qstart b - mss) by lia.
      replace (n_qend b =? mss + i) with (i =? n_qend b - mss) by lia. reflexivity.
Qed.

(** * assembling the whole call *)
Lemma mel_le_total a b : mel_le a b = true \/ mel_le b a = true.
Proof. unfold mel_le. lia. Qed.
Lemma mel_le_trans a b c : mel_le a b = true -> mel_le b c = true -> mel_le a c = true.
Proof. unfold mel_le. lia. Qed.

Lemma mel_candidates_sorted p ns : StronglySorted (fun a b => mel_le a b = true) (mel_candidates p ns).
Proof. apply isort_sorted; [apply mel_le_total|apply mel_le_trans]. Qed.

Lemma fold_left_cons_init {A B} (f : A -> B -> A) a l x : fold_left f l (f a x) = fold_left f (x :: l) a.
Proof. reflexivity. Qed.

Lemma mel_loop_top ig G mss first rest :
  Forall (note_ok mss) (first :: rest) -> nondecr (n_qstart first) rest ->
  mel_loop ig G mss (first :: rest) []
  = if negb ig && mel_dup G first rest then Err E_POLY
    else Ok (U mss (first :: mel_cut G first (mel_heads_from (n_qstart first) rest))).
Proof.
  intros Hok Hnd. inversion Hok as [|? ? Hf Hr]; subst. cbn [mel_loop].
  destruct (add_note_ok mss first [] Hf) as (-> & Hsh). cbn [bind].
  rewrite (mel_loop_sloop ig G mss rest _ first Hr Hf Hsh).
  rewrite sloop_spec by exact Hnd. reflexivity.
Qed.

Lemma sustained_body pre q k :
  MIN_MIDI_PITCH <= q -> mel_sustained (rev (pre ++ q :: zrepeat NO k)) = true.
Proof.
  intros Hq. rewrite rev_app_distr. cbn [rev]. rewrite rev_zrepeat, <- app_assoc. cbn [app].
  unfold zrepeat. induction (Z.to_nat k) as [|n IH]; cbn [repeat app mel_sustained].
  - pose proof mel_consts. destruct (q =? MELODY_NOTE_OFF) eqn:E1; [lia|].
    destruct (q =? MELODY_NO_EVENT) eqn:E2; [lia|reflexivity].
  - unfold NO at 1. rewrite no_eq_off, Z.eqb_refl. exact IH.
Qed.

Lemma mel_strip_shape pre q k : mel_strip (pre ++ q :: zrepeat NO k ++ [OFF]) = pre ++ q :: zrepeat NO k.
Proof.
  unfold mel_strip.
  replace (pre ++ q :: zrepeat NO k ++ [OFF]) with ((pre ++ q :: zrepeat NO k) ++ [OFF])
    by (rewrite <- app_assoc; reflexivity).
  rewrite rev_app_distr. cbn [rev app]. unfold OFF. rewrite Z.eqb_refl. apply rev_involutive.
Qed.

(** events of the finished melody: [body] = the unstripped events minus the final NOTE_OFF *)
Lemma final_events body n L :
  len body = L -> L <= n -> mel_sustained (rev body) = true ->
  len (mel_set_length n body) = n /\
  forall i, 0 <= i < n ->
    znth NO i (mel_set_length n body) = if i <? L then znth NO i body else if i =? L then OFF else NO.
Proof.
  intros HL Hn Hs. pose proof (len_nonneg body). split; [apply len_mel_set_length; lia|].
  intros i Hi. unfold mel_set_length. rewrite Hs. destruct (len body <? n) eqn:E.
  - destruct (i <? L) eqn:E1; [now rewrite znth_app_l by lia|].
    rewrite znth_app_r by lia. destruct (i =? L) eqn:E2.
    + replace (i - len body) with 0 by lia. apply znth_cons_0.
    + rewrite znth_cons_S by lia. apply znth_zrepeat. lia.
  - replace (i <? L) with true by lia. apply znth_zfirstn. lia.
Qed.

Definition mel_wf_note (n : note) : Prop := MIN_MIDI_PITCH <= n_pitch n /\ n_qstart n < n_qend n.

Lemma mel_from_quantized_cases p s spb :
  steps_per_bar s = Ok spb -> 0 < spb -> Forall mel_wf_note (s_notes s) ->
  let cs := mel_candidates p (s_notes s) in
  let G := mp_gap_bars p * spb in
  let acc := mel_accepted G cs in
  match cs with
  | [] => mel_from_quantized p s = Ok (mkMelResult [] 0 0 spb (s_spq s))
  | first :: rest =>
      let mss := bar_start (n_qstart first) (mp_search_start p) spb in
      let L := n_qend (last acc first) - mss in
      if negb (mp_ignore_poly p) && mel_dup G first rest then mel_from_quantized p s = Err E_POLY
      else exists r, mel_from_quantized p s = Ok r /\
        me_spb r = spb /\ me_spq r = s_spq s /\ me_start r = mss /\
        len (me_events r) = (if mp_pad_end p then pad_len L spb else L) /\
        me_end r = mss + len (me_events r) /\
        forall i, 0 <= i < len (me_events r) -> znth NO i (me_events r) = mel_spec_event acc mss L i
  end.
Proof.
  intros Hspb Hpos Hwf cs G acc. unfold mel_from_quantized. rewrite Hspb. cbn [bind]. fold cs.
  pose proof (mel_candidates_sorted p (s_notes s)) as Hsorted. fold cs in Hsorted.
  assert (Hcs_in : forall n, In n cs -> In n (s_notes s)).
  { intros n Hn. unfold cs, mel_candidates in Hn. apply isort_In, filter_In in Hn. tauto. }
  destruct cs as [|first rest] eqn:Ecs; [reflexivity|].
  set (mss := bar_start (n_qstart first) (mp_search_start p) spb).
  inversion Hsorted as [|? ? Hs' Hf]; subst.
  assert (Hge : forall n, In n rest -> n_qstart first <= n_qstart n).
  { intros n Hn. rewrite Forall_forall in Hf. specialize (Hf n Hn). unfold mel_le in Hf. lia. }
  assert (Hmss : mss <= n_qstart first) by (pose proof (bar_start_spec (n_qstart first) (mp_search_start p) spb Hpos); unfold mss; lia).
  assert (Hok : Forall (note_ok mss) (first :: rest)).
  { apply Forall_forall. intros n Hn. rewrite Forall_forall in Hwf. destruct (Hwf n (Hcs_in n Hn)) as (H1 & H2).
    split; [exact H1|]. split; [exact H2|]. destruct Hn as [<-|Hn]; [lia|]. specialize (Hge n Hn). lia. }
  pose proof (sorted_nondecr rest (n_qstart first) Hs' Hge) as Hnd.
  rewrite (mel_loop_top _ G mss first rest Hok Hnd).
  destruct (negb (mp_ignore_poly p) && mel_dup G first rest); [reflexivity|]. cbn [bind].
  (* the accepted notes *)
  assert (Hacc : acc = first :: mel_cut G first (mel_heads_from (n_qstart first) rest)) by reflexivity.
  rewrite <- Hacc.
  destruct (heads_sorted rest (n_qstart first) Hnd) as (Hh1 & Hh2 & Hh3).
  destruct (mel_cut_prefix G (mel_heads_from (n_qstart first) rest) first) as (rest' & Hpre).
  assert (Hacc_sorted : StronglySorted qlt acc).
  { rewrite Hacc. rewrite Hpre in Hh1, Hh2. apply StronglySorted_app_inv in Hh1. destruct Hh1 as (Hc & _ & _).
    constructor; [exact Hc|]. apply Forall_app in Hh2. destruct Hh2 as (Hh2 & _).
    eapply Forall_impl; [|exact Hh2]. intros x Hx. exact Hx. }
  assert (Hacc_ok : Forall (note_ok mss) acc).
  { rewrite Hacc. inversion Hok as [|? ? Hfo Hro]; subst. constructor; [exact Hfo|].
    apply Forall_forall. intros x Hx. rewrite Forall_forall in Hro. apply Hro, Hh3. rewrite Hpre.
    apply in_or_app. now left. }
  assert (Hne : acc <> []) by (rewrite Hacc; discriminate).
  destruct (exists_last Hne) as (A & b & HAb).
  assert (Hlast : last acc first = b) by (rewrite HAb; apply last_last).
  rewrite Hlast. rewrite HAb in Hacc_sorted, Hacc_ok.
  destruct (U_spec mss A b Hacc_sorted Hacc_ok) as (Hshape & Hnth).
  assert (Hb : note_ok mss b) by (apply Forall_app in Hacc_ok; destruct Hacc_ok as (_ & Hb); now inversion Hb).
  destruct Hb as (Hbp & Hblt & Hbm).
  rewrite <- HAb in Hshape, Hnth.
  destruct Hshape as (pre & HU & Hpre_len). unfold note_tail in HU.
  set (k := n_qend b - n_qstart b - 1) in *.
  rewrite HU.
  destruct (pre ++ n_pitch b :: zrepeat NO k ++ [OFF]) as [|e0 l0] eqn:Enonempty.
  { destruct pre; discriminate. }
  rewrite <- Enonempty. rewrite mel_strip_shape.
  set (body := pre ++ n_pitch b :: zrepeat NO k).
  set (L := n_qend b - mss).
  assert (HLbody : len body = L) by (unfold body, L, k; len_simpl; lia).
  set (n := if mp_pad_end p then pad_len (len body) spb else len body).
  assert (HnL : L <= n).
  { unfold n. rewrite HLbody. destruct (mp_pad_end p); [|lia]. pose proof (pad_len_spec L spb Hpos). lia. }
  destruct (final_events body n L HLbody HnL (sustained_body pre (n_pitch b) k Hbp)) as (Hflen & Hfnth).
  eexists. split; [reflexivity|]. cbn [me_spb me_spq me_start me_end me_events].
  split; [reflexivity|]. split; [reflexivity|]. split; [reflexivity|].
  split; [rewrite Hflen; unfold n; now rewrite HLbody|]. split; [now rewrite Hflen|].
  intros i Hi. rewrite Hflen in Hi. rewrite Hfnth by exact Hi. unfold mel_spec_event.
  destruct (i <? L) eqn:E; [|reflexivity].
  rewrite <- Hnth by (unfold L in E; lia). rewrite HU, <- Enonempty.
  replace (pre ++ n_pitch b :: zrepeat NO k ++ [OFF]) with (body ++ [OFF])
    by (unfold body; rewrite <- app_assoc; reflexivity).
  now rewrite znth_app_l by lia.
Qed.

(** * polyphony: [mel_dup] is the declarative [mel_poly] *)
Lemma nondecr_In prev ns n : nondecr prev ns -> In n ns -> prev <= n_qstart n.
Proof.
  revert prev; induction ns as [|a r IH]; intros prev; cbn [nondecr In]; [intros _ []|].
  intros (H1 & H2) [<-|Hn]; [exact H1|]. specialize (IH _ H2 Hn). lia.
Qed.

Lemma mel_dup_iff G : forall ns b,
  nondecr (n_qstart b) ns ->
  (mel_dup G b ns = true <->
   mel_poly (b :: ns) (b :: mel_cut G b (mel_heads_from (n_qstart b) ns))).
Proof.
  induction ns as [|n0 r IH]; intros b Hnd; cbn [mel_dup mel_heads_from mel_cut].
  - split; [discriminate|]. intros (l1 & a & l2 & n & l3 & Heq & _).
    apply (f_equal (@length note)) in Heq. rewrite !app_length in Heq. cbn [length] in Heq.
    rewrite app_length in Heq. cbn [length] in Heq. lia.
  - destruct Hnd as (Hle & Hnd). destruct (n_qstart n0 =? n_qstart b) eqn:E1.
    + split; [|reflexivity]. intros _. exists [], b, [], n0, r. cbn [app]. repeat split; [lia|now left].
    + cbn [mel_cut]. destruct (G <=? n_qstart n0 - n_qend b) eqn:E2.
      * split; [discriminate|]. intros (l1 & a & l2 & n & l3 & Heq & Hq & [<-|[]]).
        destruct l1 as [|x l1']; cbn [app] in Heq.
        -- injection Heq as Heq.
           assert (Hn : In n (n0 :: r)) by (rewrite Heq; apply in_or_app; right; now left).
           pose proof (nondecr_In (n_qstart n0) r n Hnd). destruct Hn as [<-|Hn]; [lia|]. specialize (H Hn). lia.
        -- injection Heq as _ Heq.
           assert (Hb : In b (n0 :: r)) by (rewrite Heq; apply in_or_app; right; now left).
           pose proof (nondecr_In (n_qstart n0) r b Hnd). destruct Hb as [<-|Hb]; [lia|]. specialize (H Hb). lia.
      * rewrite (IH n0 Hnd). split.
        -- intros (l1 & a & l2 & n & l3 & Heq & Hq & Ha).
           exists (b :: l1), a, l2, n, l3. cbn [app]. rewrite Heq. repeat split; auto. now right.
        -- intros (l1 & a & l2 & n & l3 & Heq & Hq & Ha).
           assert (Hrest : forall x, In x (n0 :: r) -> n_qstart b < n_qstart x).
           { intros x [<-|Hx]; [lia|]. pose proof (nondecr_In _ _ _ Hnd Hx). lia. }
           destruct l1 as [|x l1']; cbn [app] in Heq; injection Heq as Hx Heq.
           ++ subst a. assert (Hn : In n (n0 :: r)) by (rewrite Heq; apply in_or_app; right; now left).
              specialize (Hrest n Hn). lia.
           ++ subst x. exists l1', a, l2, n, l3. split; [exact Heq|]. split; [exact Hq|].
              destruct Ha as [<-|Ha]; [|exact Ha].
              assert (Hb : In b (n0 :: r)) by (rewrite Heq; apply in_or_app; right; now left).
              specialize (Hrest b Hb). lia.
Qed.

(** every accepted note is the highest candidate of its start step *)
Lemma heads_highest : forall ns prev,
  StronglySorted (fun a b => mel_le a b = true) ns -> (forall n, In n ns -> prev <= n_qstart n) ->
  forall a n, In a (mel_heads_from prev ns) -> In n ns -> n_qstart n = n_qstart a -> n_pitch n <= n_pitch a.
Proof.
  induction ns as [|a0 r IH]; intros prev Hs Hp a n Ha Hn Hq; [destruct Hn|].
  inversion Hs as [|? ? Hs' Hf]; subst. rewrite Forall_forall in Hf.
  assert (Hr : forall x, In x r -> n_qstart a0 <= n_qstart x).
  { intros x Hx. specialize (Hf x Hx). unfold mel_le in Hf. lia. }
  cbn [mel_heads_from] in Ha. destruct (n_qstart a0 =? prev) eqn:E.
  - assert (Hnd : nondecr prev r).
    { apply sorted_nondecr; [exact Hs'|]. intros x Hx. specialize (Hr x Hx). lia. }
    destruct (heads_sorted r prev Hnd) as (_ & Hgt & _). rewrite Forall_forall in Hgt. specialize (Hgt a Ha).
    destruct Hn as [<-|Hn]; [lia|]. apply (IH prev Hs'); auto. intros x Hx. specialize (Hr x Hx). lia.
  - destruct Ha as [<-|Ha].
    + destruct Hn as [<-|Hn]; [lia|]. specialize (Hf n Hn). unfold mel_le in Hf. lia.
    + assert (Hnd : nondecr (n_qstart a0) r) by (apply sorted_nondecr; [exact Hs'|exact Hr]).
      destruct (heads_sorted r _ Hnd) as (_ & Hgt & _). rewrite Forall_forall in Hgt. specialize (Hgt a Ha).
      destruct Hn as [<-|Hn]; [lia|]. apply (IH (n_qstart a0) Hs' Hr a n Ha Hn Hq).
Qed.

(** ** melody_steps and the error exit *)
Theorem melody_steps p s spb r :
  steps_per_bar s = Ok spb -> 0 < spb -> Forall mel_wf_note (s_notes s) ->
  mel_from_quantized p s = Ok r ->
  let cs := mel_candidates p (s_notes s) in
  let acc := mel_accepted (mp_gap_bars p * spb) cs in
  me_spb r = spb /\ me_spq r = s_spq s /\
  match cs with
  | [] => me_events r = [] /\ me_start r = 0 /\ me_end r = 0
  | first :: _ =>
      let mss := bar_start (n_qstart first) (mp_search_start p) spb in
      let L := n_qend (last acc first) - mss in
      me_start r = mss /\
      len (me_events r) = (if mp_pad_end p then pad_len L spb else L) /\
      me_end r = mss + len (me_events r) /\
      (forall i, 0 <= i < len (me_events r) ->
         znth MELODY_NO_EVENT i (me_events r) = mel_spec_event acc mss L i) /\
      (mp_ignore_poly p = false -> ~ mel_poly cs acc)
  end.
Proof.
  intros Hspb Hpos Hwf Hr cs acc.
  pose proof (mel_from_quantized_cases p s spb Hspb Hpos Hwf) as H. cbv zeta in H. fold cs in H.
  pose proof (mel_candidates_sorted p (s_notes s)) as Hsorted. fold cs in Hsorted.
  destruct cs as [|first rest] eqn:Ecs.
  - rewrite Hr in H. apply Ok_inj in H. subst r. cbn. auto.
  - inversion Hsorted as [|? ? Hs' Hf]; subst.
    assert (Hnd : nondecr (n_qstart first) rest).
    { apply sorted_nondecr; [exact Hs'|]. intros n Hn. rewrite Forall_forall in Hf. specialize (Hf n Hn).
      unfold mel_le in Hf. lia. }
    destruct (negb (mp_ignore_poly p) && mel_dup (mp_gap_bars p * spb) first rest) eqn:Epoly.
    + rewrite Hr in H. discriminate.
    + destruct H as (r' & Hr' & H1 & H2 & H3 & H4 & H5 & H6). rewrite Hr in Hr'. apply Ok_inj in Hr'. subst r'.
      repeat (split; [assumption|]).
      intros Hig Hpoly. rewrite Hig in Epoly. cbn [negb andb] in Epoly.
      apply (mel_dup_iff _ rest first Hnd) in Hpoly. congruence.
Qed.

Theorem melody_errors p s spb code :
  steps_per_bar s = Ok spb -> 0 < spb -> Forall mel_wf_note (s_notes s) ->
  mel_from_quantized p s = Err code ->
  let cs := mel_candidates p (s_notes s) in
  code = E_POLY /\ mp_ignore_poly p = false /\ mel_poly cs (mel_accepted (mp_gap_bars p * spb) cs).
Proof.
  intros Hspb Hpos Hwf Hr cs.
  pose proof (mel_from_quantized_cases p s spb Hspb Hpos Hwf) as H. cbv zeta in H. fold cs in H.
  pose proof (mel_candidates_sorted p (s_notes s)) as Hsorted. fold cs in Hsorted.
  destruct cs as [|first rest] eqn:Ecs; [rewrite Hr in H; discriminate|].
  inversion Hsorted as [|? ? Hs' Hf]; subst.
  assert (Hnd : nondecr (n_qstart first) rest).
  { apply sorted_nondecr; [exact Hs'|]. intros n Hn. rewrite Forall_forall in Hf. specialize (Hf n Hn).
    unfold mel_le in Hf. lia. }
  destruct (negb (mp_ignore_poly p) && mel_dup (mp_gap_bars p * spb) first rest) eqn:Epoly.
  - rewrite Hr in H. injection H as ->. apply andb_true_iff in Epoly. destruct Epoly as (E1 & E2).
    split; [reflexivity|]. split; [now destruct (mp_ignore_poly p)|].
    now apply (mel_dup_iff _ rest first Hnd).
  - destruct H as (r' & Hr' & _). rewrite Hr in Hr'. discriminate.
Qed.

Theorem melody_polyphony_reported p s spb :
  steps_per_bar s = Ok spb -> 0 < spb -> Forall mel_wf_note (s_notes s) ->
  let cs := mel_candidates p (s_notes s) in
  mp_ignore_poly p = false -> mel_poly cs (mel_accepted (mp_gap_bars p * spb) cs) ->
  mel_from_quantized p s = Err E_POLY.
Proof.
  intros Hspb Hpos Hwf cs Hig Hpoly.
  pose proof (mel_from_quantized_cases p s spb Hspb Hpos Hwf) as H. cbv zeta in H. fold cs in H.
  pose proof (mel_candidates_sorted p (s_notes s)) as Hsorted. fold cs in Hsorted.
  destruct cs as [|first rest] eqn:Ecs.
  - destruct Hpoly as (l1 & a & l2 & n & l3 & Heq & _). destruct l1; discriminate.
  - inversion Hsorted as [|? ? Hs' Hf]; subst.
    assert (Hnd : nondecr (n_qstart first) rest).
    { apply sorted_nondecr; [exact Hs'|]. intros n Hn. rewrite Forall_forall in Hf. specialize (Hf n Hn).
      unfold mel_le in Hf. lia. }
    apply (mel_dup_iff _ rest first Hnd) in Hpoly. rewrite Hig, Hpoly in H. exact H.
Qed.

(** the candidates, and why "accepted" means "highest note starting there" *)
Theorem melody_candidates_spec p ns :
  let cs := mel_candidates p ns in
  Permutation cs (filter (mel_keep p) ns) /\
  StronglySorted (fun a b => n_qstart a < n_qstart b \/ (n_qstart a = n_qstart b /\ n_pitch b <= n_pitch a)) cs /\
  forall G a n, In a (mel_accepted G cs) -> In n cs -> n_qstart n = n_qstart a -> n_pitch n <= n_pitch a.
Proof.
  intros cs. split; [apply isort_perm|]. pose proof (mel_candidates_sorted p ns) as Hs. fold cs in Hs. split.
  - clear - Hs. induction Hs as [|x l Hs IH Hf]; constructor; [exact IH|].
    eapply Forall_impl; [|exact Hf]. intros y Hy. unfold mel_le in Hy. lia.
  - intros G a n Ha Hn Hq. unfold mel_accepted, mel_heads in Ha.
    destruct cs as [|first rest] eqn:Ecs; [destruct Ha|].
    inversion Hs as [|? ? Hs' Hf]; subst. rewrite Forall_forall in Hf.
    assert (Hr : forall x, In x rest -> n_qstart first <= n_qstart x).
    { intros x Hx. specialize (Hf x Hx). unfold mel_le in Hf. lia. }
    assert (Hnd : nondecr (n_qstart first) rest) by (apply sorted_nondecr; assumption).
    destruct Ha as [<-|Ha].
    + destruct Hn as [<-|Hn]; [lia|]. specialize (Hf n Hn). unfold mel_le in Hf. lia.
    + destruct (mel_cut_prefix G (mel_heads_from (n_qstart first) rest) first) as (rest' & Hpre).
      assert (Ha' : In a (mel_heads_from (n_qstart first) rest)) by (rewrite Hpre; apply in_or_app; now left).
      destruct (heads_sorted rest _ Hnd) as (_ & Hgt & _). rewrite Forall_forall in Hgt. specialize (Hgt a Ha').
      destruct Hn as [<-|Hn]; [lia|].
      apply (heads_highest rest (n_qstart first) Hs' Hr a n Ha' Hn Hq).
Qed.
