(** Proofs/SustainSpecA.v — C14, pure lemmas for the specification theorem:
    characterisation of the folds in [spec_end], the pedal flag as a function
    of the processed prefix of the sorted event list, the closing time. *)
From Coq Require Import ZArith List Bool Lia ZifyBool Permutation.
From NS Require Import Base.NoteSeq Gen.G14 Model.Sustain Proofs.Sustain Proofs.SustainFrame Proofs.SustainMono.
Import ListNotations.
Local Open Scope Z_scope.
Ltac Zify.zify_post_hook ::= Z.to_euclidean_division_equations.

(** * Minimum of the selected values of a list *)
Section FoldMin.
  Context {A : Type} (P : A -> bool) (f : A -> Z).
  Definition fmin (l : list A) (init : option Z) : option Z :=
    fold_left (fun acc x => if P x then min_opt acc (f x) else acc) l init.

  Lemma fmin_none : forall l init, fmin l init = None <-> init = None /\ forall x, In x l -> P x = false.
  Proof.
    unfold fmin. induction l; intros; cbn [fold_left].
    - split; [intros ->; split; [reflexivity | intros x []] | tauto].
    - rewrite IHl. destruct (P a) eqn:E.
      + split.
        * intros [H _]. destruct init; discriminate.
        * intros [_ H]. rewrite (H a (or_introl eq_refl)) in E. discriminate.
      + split.
        * intros [H1 H2]. split; [exact H1|]. intros x [<-|Hx]; auto.
        * intros [H1 H2]. split; [exact H1|]. intros x Hx. apply H2. right. exact Hx.
  Qed.

  Lemma fmin_some : forall l init v, fmin l init = Some v ->
    (init = Some v \/ exists x, In x l /\ P x = true /\ f x = v) /\
    (forall iv, init = Some iv -> v <= iv) /\
    (forall x, In x l -> P x = true -> v <= f x).
  Proof.
    unfold fmin. induction l; intros init v H; cbn [fold_left] in H.
    - subst init. split; [left; reflexivity|]. split; [intros iv E; inversion E; lia | intros x []].
    - apply IHl in H. destruct H as [H1 [H2 H3]]. destruct (P a) eqn:E.
      + split; [|split].
        * destruct H1 as [H1|[x [X1 [X2 X3]]]].
          -- destruct init as [iv|]; cbn [min_opt] in H1; inversion H1.
             ++ destruct (Z.min_spec iv (f a)) as [[_ M]|[_ M]]; rewrite M.
                ** left. reflexivity.
                ** right. exists a. split; [left; reflexivity | auto].
             ++ right. exists a. split; [left; reflexivity | auto].
          -- right. exists x. split; [right; exact X1 | auto].
        * intros iv ->. cbn [min_opt] in H2. specialize (H2 _ eq_refl). lia.
        * intros x [<-|Hx] Px; [|apply H3; assumption].
          destruct init as [iv|]; cbn [min_opt] in H2; specialize (H2 _ eq_refl); lia.
      + split; [|split].
        * destruct H1 as [H1|[x [X1 X2]]]; [left; exact H1 | right; exists x; split; [right; exact X1 | exact X2]].
        * exact H2.
        * intros x [<-|Hx] Px; [congruence | apply H3; assumption].
  Qed.
End FoldMin.

(** * [spec_end] by cases *)
Definition rel_cand (pe : list cc) (e : Z) (c : cc) : Prop :=
  In c pe /\ is_on c = false /\ e < cc_time c.
Definition res_cand (ns : list note) (k : nat) (n : note) (j : nat) (m : note) : Prop :=
  nth_error ns j = Some m /\ j <> k /\ n_drum m = false /\ n_instr m = n_instr n /\
  n_pitch m = n_pitch n /\ n_end n <= n_start m.

Definition relP (e : Z) (c : cc) : bool := negb (is_on c) && (e <? cc_time c).
Definition resP (k : nat) (n : note) (p : nat * note) : bool :=
  negb (Nat.eqb (fst p) k) && negb (n_drum (snd p)) && (n_instr (snd p) =? n_instr n) &&
  (n_pitch (snd p) =? n_pitch n) && (n_end n <=? n_start (snd p)).

Lemma first_release_fmin : forall e pe, first_release e pe = fmin (relP e) cc_time pe None.
Proof. reflexivity. Qed.
Lemma first_restrike_fmin : forall k n ns,
  first_restrike k n ns = fmin (resP k n) (fun p => n_start (snd p)) (indexed ns) None.
Proof. reflexivity. Qed.

Lemma relP_iff : forall pe e c, In c pe -> (relP e c = true <-> rel_cand pe e c).
Proof. unfold relP, rel_cand; intros. destruct (is_on c); cbn [negb andb]; split; intros; try lia; intuition (try congruence; lia). Qed.

Lemma resP_iff : forall ns k n j m, (In (j, m) (indexed ns) /\ resP k n (j, m) = true) <-> res_cand ns k n j m.
Proof.
  unfold resP, res_cand; intros. cbn [fst snd]. rewrite In_indexed.
  rewrite !andb_true_iff, !negb_true_iff, Nat.eqb_neq, !Z.eqb_eq, Z.leb_le. tauto.
Qed.

Lemma spec_end_drum : forall ctl ns ccs k n, n_drum n = true -> spec_end ctl ns ccs k n = n_end n.
Proof. intros. unfold spec_end. rewrite H. reflexivity. Qed.

Lemma spec_end_up : forall ctl ns ccs k n, n_drum n = false ->
  pedal_down (n_end n) (pedal_events ctl (n_instr n) ccs) = false -> spec_end ctl ns ccs k n = n_end n.
Proof. intros. unfold spec_end. rewrite H, H0. reflexivity. Qed.

Lemma spec_end_at : forall ctl ns ccs k n t, n_drum n = false ->
  pedal_down (n_end n) (pedal_events ctl (n_instr n) ccs) = true ->
  ((exists c, rel_cand (pedal_events ctl (n_instr n) ccs) (n_end n) c /\ cc_time c = t) \/
   (exists j m, res_cand ns k n j m /\ n_start m = t)) ->
  (forall c, rel_cand (pedal_events ctl (n_instr n) ccs) (n_end n) c -> t <= cc_time c) ->
  (forall j m, res_cand ns k n j m -> t <= n_start m) ->
  spec_end ctl ns ccs k n = t.
Proof.
  intros ctl ns ccs k n t Dn PD Cand LB1 LB2. unfold spec_end. rewrite Dn, PD.
  set (pe := pedal_events ctl (n_instr n) ccs) in *.
  rewrite first_release_fmin, first_restrike_fmin.
  destruct (fmin (relP (n_end n)) cc_time pe None) as [r|] eqn:R;
  destruct (fmin (resP k n) (fun p => n_start (snd p)) (indexed ns) None) as [s|] eqn:S; cbn [opt_min].
  - apply fmin_some in R. apply fmin_some in S.
    destruct R as [[R1|[c [C1 [C2 C3]]]] [_ R3]]; [discriminate|].
    destruct S as [[S1|[[j m] [M1 [M2 M3]]]] [_ S3]]; [discriminate|]. cbn [snd] in M3.
    assert (t <= r) by (rewrite <- C3; apply LB1; apply (relP_iff pe); assumption).
    assert (t <= s) by (rewrite <- M3; apply (LB2 j m); apply resP_iff; split; assumption).
    destruct Cand as [[c' [A B]]|[j' [m' [A B]]]].
    + assert (r <= t) by (rewrite <- B; apply R3; [apply A | apply (relP_iff pe); [apply A | exact A]]). lia.
    + assert (s <= t).
      { rewrite <- B. apply resP_iff in A. destruct A as [A1 A2].
        apply (S3 (j', m') A1 A2). }
      lia.
  - apply fmin_some in R. apply (proj1 (fmin_none _ _ _ _)) in S. destruct S as [_ S].
    destruct R as [[R1|[c [C1 [C2 C3]]]] [_ R3]]; [discriminate|].
    assert (t <= r) by (rewrite <- C3; apply LB1; apply (relP_iff pe); assumption).
    destruct Cand as [[c' [A B]]|[j' [m' [A B]]]].
    + assert (r <= t) by (rewrite <- B; apply R3; [apply A | apply (relP_iff pe); [apply A | exact A]]). lia.
    + apply resP_iff in A. destruct A as [A1 A2]. rewrite (S _ A1) in A2. discriminate.
  - apply fmin_some in S. apply (proj1 (fmin_none _ _ _ _)) in R. destruct R as [_ R].
    destruct S as [[S1|[[j m] [M1 [M2 M3]]]] [_ S3]]; [discriminate|]. cbn [snd] in M3.
    assert (t <= s) by (rewrite <- M3; apply (LB2 j m); apply resP_iff; split; assumption).
    destruct Cand as [[c' [A B]]|[j' [m' [A B]]]].
    + pose proof (proj2 (relP_iff pe _ c' (proj1 A)) A) as Q. rewrite (R _ (proj1 A)) in Q. discriminate.
    + assert (s <= t).
      { rewrite <- B. apply resP_iff in A. destruct A as [A1 A2]. apply (S3 (j', m') A1 A2). }
      lia.
  - apply (proj1 (fmin_none _ _ _ _)) in R. apply (proj1 (fmin_none _ _ _ _)) in S.
    destruct R as [_ R], S as [_ S].
    destruct Cand as [[c' [A B]]|[j' [m' [A B]]]].
    + pose proof (proj2 (relP_iff pe _ c' (proj1 A)) A) as Q. rewrite (R _ (proj1 A)) in Q. discriminate.
    + apply resP_iff in A. destruct A as [A1 A2]. rewrite (S _ A1) in A2. discriminate.
Qed.

Lemma spec_end_last : forall ctl ns ccs k n, n_drum n = false ->
  pedal_down (n_end n) (pedal_events ctl (n_instr n) ccs) = true ->
  (forall c, ~ rel_cand (pedal_events ctl (n_instr n) ccs) (n_end n) c) ->
  (forall j m, ~ res_cand ns k n j m) ->
  spec_end ctl ns ccs k n = max_event_time ctl ns ccs.
Proof.
  intros ctl ns ccs k n Dn PD N1 N2. unfold spec_end. rewrite Dn, PD.
  set (pe := pedal_events ctl (n_instr n) ccs) in *.
  rewrite first_release_fmin, first_restrike_fmin.
  assert (fmin (relP (n_end n)) cc_time pe None = None) as ->.
  { apply fmin_none. split; [reflexivity|]. intros c Hc. destruct (relP (n_end n) c) eqn:E; auto.
    exfalso. apply (N1 c). apply (relP_iff pe); assumption. }
  assert (fmin (resP k n) (fun p => n_start (snd p)) (indexed ns) None = None) as ->.
  { apply fmin_none. split; [reflexivity|]. intros [j m] Hp. destruct (resP k n (j, m)) eqn:E; auto.
    exfalso. apply (N2 j m). apply resP_iff. split; assumption. }
  reflexivity.
Qed.

(** * [pedal_down] declaratively *)
Definition lt_step (t : Z) (acc : option Z) (c : cc) : option Z :=
  if cc_time c <=? t then match acc with None => Some (cc_time c) | Some m => Some (Z.max m (cc_time c)) end
  else acc.

Lemma latest_gen_none : forall t pe init, fold_left (lt_step t) pe init = None <->
  init = None /\ forall c, In c pe -> t < cc_time c.
Proof.
  induction pe; intros; cbn [fold_left].
  - split; [intros ->; split; [reflexivity | intros c []] | tauto].
  - rewrite IHpe. unfold lt_step. destruct (cc_time a <=? t) eqn:E.
    + split.
      * intros [H _]. destruct init; discriminate.
      * intros [_ H]. specialize (H a (or_introl eq_refl)). lia.
    + split.
      * intros [H1 H2]. split; [exact H1|]. intros c [<-|Hc]; [lia | auto].
      * intros [H1 H2]. split; [exact H1|]. intros c Hc. apply H2. right. exact Hc.
Qed.

Lemma latest_gen_some : forall t pe init m, fold_left (lt_step t) pe init = Some m ->
  (init = Some m \/ exists c, In c pe /\ cc_time c = m /\ m <= t) /\
  (forall iv, init = Some iv -> iv <= m) /\
  (forall c, In c pe -> cc_time c <= t -> cc_time c <= m).
Proof.
  induction pe; intros init m H; cbn [fold_left] in H.
  - subst init. split; [left; reflexivity|]. split; [intros iv E; inversion E; lia | intros c []].
  - apply IHpe in H. destruct H as [H1 [H2 H3]]. unfold lt_step in H1, H2. destruct (cc_time a <=? t) eqn:E.
    + split; [|split].
      * destruct H1 as [H1|[c [C1 C2]]]; [|right; exists c; split; [right; exact C1 | exact C2]].
        destruct init as [iv|]; inversion H1.
        -- destruct (Z.max_spec iv (cc_time a)) as [[_ M]|[_ M]]; rewrite M.
           ++ right. exists a. split; [left; reflexivity | split; [reflexivity | lia]].
           ++ left. reflexivity.
        -- right. exists a. split; [left; reflexivity | split; [reflexivity | lia]].
      * intros iv ->. specialize (H2 _ eq_refl). lia.
      * intros c [<-|Hc] Tc; [|apply H3; assumption].
        destruct init as [iv|]; specialize (H2 _ eq_refl); lia.
    + split; [|split].
      * destruct H1 as [H1|[c [C1 C2]]]; [left; exact H1 | right; exists c; split; [right; exact C1 | exact C2]].
      * exact H2.
      * intros c [<-|Hc] Tc; [lia | apply H3; assumption].
Qed.

Lemma latest_time_fold : forall t pe, latest_time t pe = fold_left (lt_step t) pe None.
Proof. reflexivity. Qed.

Lemma pedal_down_iff : forall t pe, pedal_down t pe = true <->
  exists c, In c pe /\ cc_time c <= t /\
    (forall c', In c' pe -> cc_time c' <= t -> cc_time c' <= cc_time c) /\
    (forall c', In c' pe -> cc_time c' = cc_time c -> is_on c' = true).
Proof.
  intros. unfold pedal_down. rewrite latest_time_fold.
  destruct (fold_left (lt_step t) pe None) as [m|] eqn:L.
  - apply latest_gen_some in L. destruct L as [[L1|[c [C1 [C2 C3]]]] [_ L3]]; [discriminate|].
    rewrite negb_true_iff. split.
    + intros H. exists c. subst m. repeat split; auto.
      intros c' Hc' Tc'. destruct (is_on c') eqn:O; auto.
      assert (existsb (fun c0 => (cc_time c0 =? cc_time c) && negb (is_on c0)) pe = true) as X.
      { apply existsb_exists. exists c'. split; [exact Hc'|]. rewrite O. cbn. lia. }
      congruence.
    + intros [c0 [D1 [D2 [D3 D4]]]].
      assert (cc_time c0 = m) by (pose proof (L3 c0 D1 D2); pose proof (D3 c C1 ltac:(lia)); lia).
      destruct (existsb _ pe) eqn:X; auto. apply existsb_exists in X. destruct X as [c' [X1 X2]].
      rewrite (D4 c' X1 ltac:(lia)) in X2. cbn in X2. lia.
  - apply latest_gen_none in L. destruct L as [_ L]. split; [discriminate|].
    intros [c [C1 [C2 _]]]. specialize (L c C1). lia.
Qed.

(** * The pedal flag after a processed prefix *)
Definition lp_step (i : Z) (b : bool) (e : event) : bool :=
  match e_kind e with
  | KSusOn => if e_instr e =? i then true else b
  | KSusOff => if e_instr e =? i then false else b
  | _ => b
  end.
Definition last_pedal (i : Z) (l : list event) : bool := fold_left (lp_step i) l false.

Lemma last_pedal_snoc : forall i l e, last_pedal i (l ++ [e]) = lp_step i (last_pedal i l) e.
Proof. intros. unfold last_pedal. rewrite fold_left_app. reflexivity. Qed.

Definition is_pedal (i : Z) (e : event) : Prop :=
  (e_kind e = KSusOn \/ e_kind e = KSusOff) /\ e_instr e = i.

Lemma sorted_snoc : forall l e, sorted (l ++ [e]) -> sorted l /\ Forall (fun x => ev_lt e x = false) l.
Proof.
  induction l; intros e H; cbn [app] in H; [split; constructor|].
  inversion H as [|a' l' F S]; subst. destruct (IHl e S) as [S1 S2].
  split.
  - constructor; [|exact S1]. rewrite Forall_forall in *. intros x Hx. apply F. apply in_or_app. left. exact Hx.
  - constructor; [|exact S2]. rewrite Forall_forall in F. apply F. apply in_or_app. right. left. reflexivity.
Qed.

(** In a sorted prefix the flag is up iff the greatest pedal event of the instrument is a press. *)
Lemma last_pedal_sorted : forall i l, sorted l ->
  (last_pedal i l = true <->
   exists x, In x l /\ e_kind x = KSusOn /\ e_instr x = i /\
             forall y, In y l -> is_pedal i y -> ev_lt x y = false).
Proof.
  intros i l. induction l as [|e l IH] using rev_ind; intros S.
  - cbn. split; [discriminate | intros [x [[] _]]].
  - apply sorted_snoc in S. destruct S as [S F]. rewrite Forall_forall in F.
    rewrite last_pedal_snoc. specialize (IH S). pose proof code_order as CO.
    unfold lp_step. destruct (e_kind e) eqn:K.
    + destruct (e_instr e =? i) eqn:E.
      * split; [intros _|reflexivity]. exists e. split; [apply in_or_app; right; left; reflexivity|].
        split; [exact K|]. split; [lia|]. intros y Hy _. apply in_app_iff in Hy.
        destruct Hy as [Hy|[<-|[]]]; [apply F; exact Hy | unfold ev_lt; lia].
      * rewrite IH. split.
        -- intros [x [X1 [X2 [X3 X4]]]]. exists x. split; [apply in_or_app; left; exact X1|].
           repeat split; auto. intros y Hy Py. apply in_app_iff in Hy.
           destruct Hy as [Hy|[<-|[]]]; [apply X4; assumption|]. destruct Py as [_ Py]. lia.
        -- intros [x [X1 [X2 [X3 X4]]]]. apply in_app_iff in X1. destruct X1 as [X1|[<-|[]]]; [|lia].
           exists x. repeat split; auto. intros y Hy Py. apply X4; [apply in_or_app; left; exact Hy | exact Py].
    + destruct (e_instr e =? i) eqn:E.
      * split; [discriminate|]. intros [x [X1 [X2 [X3 X4]]]]. exfalso.
        apply in_app_iff in X1. destruct X1 as [X1|[<-|[]]]; [|congruence].
        assert (ev_lt x e = false) as A.
        { apply X4; [apply in_or_app; right; left; reflexivity|]. split; [right; exact K | lia]. }
        pose proof (F x X1) as B. unfold ev_lt in A, B. rewrite K, X2 in *. cbn [kind_code] in *. lia.
      * rewrite IH. split.
        -- intros [x [X1 [X2 [X3 X4]]]]. exists x. split; [apply in_or_app; left; exact X1|].
           repeat split; auto. intros y Hy Py. apply in_app_iff in Hy.
           destruct Hy as [Hy|[<-|[]]]; [apply X4; assumption|]. destruct Py as [_ Py]. lia.
        -- intros [x [X1 [X2 [X3 X4]]]]. apply in_app_iff in X1. destruct X1 as [X1|[<-|[]]]; [|congruence].
           exists x. repeat split; auto. intros y Hy Py. apply X4; [apply in_or_app; left; exact Hy | exact Py].
    + rewrite IH. split.
      * intros [x [X1 [X2 [X3 X4]]]]. exists x. split; [apply in_or_app; left; exact X1|].
        repeat split; auto. intros y Hy Py. apply in_app_iff in Hy.
        destruct Hy as [Hy|[<-|[]]]; [apply X4; assumption|]. destruct Py as [[Py|Py] _]; congruence.
      * intros [x [X1 [X2 [X3 X4]]]]. apply in_app_iff in X1. destruct X1 as [X1|[<-|[]]]; [|congruence].
        exists x. repeat split; auto. intros y Hy Py. apply X4; [apply in_or_app; left; exact Hy | exact Py].
    + rewrite IH. split.
      * intros [x [X1 [X2 [X3 X4]]]]. exists x. split; [apply in_or_app; left; exact X1|].
        repeat split; auto. intros y Hy Py. apply in_app_iff in Hy.
        destruct Hy as [Hy|[<-|[]]]; [apply X4; assumption|]. destruct Py as [[Py|Py] _]; congruence.
      * intros [x [X1 [X2 [X3 X4]]]]. apply in_app_iff in X1. destruct X1 as [X1|[<-|[]]]; [|congruence].
        exists x. repeat split; auto. intros y Hy Py. apply X4; [apply in_or_app; left; exact Hy | exact Py].
Qed.

(** * Pedal events of the sorted list are exactly the pedal control changes *)
Definition ev_of_cc (c : cc) : event :=
  mkEv (cc_time c) (if 64 <=? cc_val c then KSusOn else KSusOff) O (cc_instr c).

Lemma cc_in_events : forall ctl ns ccs i c, In c (pedal_events ctl i ccs) ->
  In (ev_of_cc c) (sorted_events ctl ns ccs) /\ is_pedal i (ev_of_cc c).
Proof.
  intros. unfold pedal_events in H. apply filter_In in H. destruct H as [H1 H2]. split.
  - eapply Permutation_in; [symmetry; apply sort_events_perm|]. unfold build_events.
    rewrite !in_app_iff. right. right. unfold cc_events. apply in_map_iff. exists c. split; [reflexivity|].
    apply filter_In. split; [exact H1 | lia].
  - unfold is_pedal, ev_of_cc. cbn [e_kind e_instr]. split; [destruct (64 <=? cc_val c); auto | lia].
Qed.

Lemma pedal_event_from_cc : forall ctl ns ccs i x, In x (sorted_events ctl ns ccs) -> is_pedal i x ->
  exists c, In c (pedal_events ctl i ccs) /\ x = ev_of_cc c.
Proof.
  intros ctl ns ccs i x H [K I]. apply (Permutation_in _ (sort_events_perm _)) in H.
  unfold build_events in H. rewrite !in_app_iff in H. destruct H as [H|[H|H]].
  - apply note_events_In in H. destruct H as [n [_ [_ E]]]. rewrite E in K. cbn in K. destruct K; discriminate.
  - apply note_events_In in H. destruct H as [n [_ [_ E]]]. rewrite E in K. cbn in K. destruct K; discriminate.
  - unfold cc_events in H. apply in_map_iff in H. destruct H as [c [E H]]. apply filter_In in H.
    exists c. split; [|symmetry; exact E]. unfold pedal_events. apply filter_In. split; [apply H|].
    rewrite <- E in I. cbn [e_instr] in I. destruct H as [_ H]. lia.
Qed.

Lemma sorted_split : forall a e b, sorted (a ++ e :: b) ->
  sorted a /\ Forall (fun x => ev_lt e x = false) a /\ Forall (fun y => ev_lt y e = false) b.
Proof.
  induction a; intros e b H; cbn [app] in H.
  - inversion H; subst. split; [constructor|]. split; [constructor | assumption].
  - inversion H as [|a' l' F S]; subst. destruct (IHa e b S) as [S1 [S2 S3]].
    rewrite Forall_forall in F. split; [|split].
    + constructor; [|exact S1]. apply Forall_forall. intros x Hx. apply F. apply in_or_app. left. exact Hx.
    + constructor; [|exact S2]. apply F. apply in_or_app. right. left. reflexivity.
    + exact S3.
Qed.

(** When a note event is being processed, the pedal flag of every instrument
    is the declarative pedal state at the time of that event. *)
Lemma pedal_at_note_event : forall ctl ns ccs i done e rest,
  sorted_events ctl ns ccs = done ++ e :: rest ->
  (e_kind e = KNoteOn \/ e_kind e = KNoteOff) ->
  last_pedal i done = pedal_down (e_time e) (pedal_events ctl i ccs).
Proof.
  intros ctl ns ccs i done e rest E K.
  pose proof (sort_events_sorted (build_events ctl ns ccs)) as S. fold (sorted_events ctl ns ccs) in S.
  rewrite E in S. apply sorted_split in S. destruct S as [S1 [S2 S3]].
  rewrite Forall_forall in S2, S3. pose proof code_order as CO.
  assert (INDONE : forall c, In c (pedal_events ctl i ccs) -> cc_time c <= e_time e -> In (ev_of_cc c) done).
  { intros c Hc Tc. destruct (cc_in_events ctl ns ccs i c Hc) as [A [[B|B] _]]; rewrite E in A;
      apply in_app_iff in A; destruct A as [A|[A|A]]; auto; exfalso.
    - rewrite A in K. destruct K; congruence.
    - specialize (S3 _ A). unfold ev_lt in S3. rewrite B in S3. cbn [ev_of_cc e_time] in S3.
      destruct K as [K|K]; rewrite K in S3; cbn [kind_code] in S3; lia.
    - rewrite A in K. destruct K; congruence.
    - specialize (S3 _ A). unfold ev_lt in S3. rewrite B in S3. cbn [ev_of_cc e_time] in S3.
      destruct K as [K|K]; rewrite K in S3; cbn [kind_code] in S3; lia. }
  apply eq_true_iff_eq. rewrite (last_pedal_sorted i done S1), pedal_down_iff. split.
  - intros [x [X1 [X2 [X3 X4]]]].
    destruct (pedal_event_from_cc ctl ns ccs i x) as [c [C1 C2]].
    { rewrite E. apply in_or_app. left. exact X1. } { split; auto. }
    exists c. split; [exact C1|].
    assert (TX : e_time x <= e_time e) by (specialize (S2 _ X1); unfold ev_lt in S2; lia).
    assert (Tc : cc_time c = e_time x) by (rewrite C2; reflexivity).
    split; [lia|]. split.
    + intros c' Hc' Tc'. pose proof (INDONE c' Hc' Tc') as D.
      specialize (X4 _ D (proj2 (cc_in_events ctl ns ccs i c' Hc'))). unfold ev_lt in X4.
      cbn [ev_of_cc e_time] in X4. lia.
    + intros c' Hc' Tc'. pose proof (INDONE c' Hc' ltac:(lia)) as D.
      specialize (X4 _ D (proj2 (cc_in_events ctl ns ccs i c' Hc'))). unfold ev_lt in X4.
      rewrite X2 in X4. cbn [ev_of_cc e_time e_kind] in X4. unfold is_on.
      destruct (64 <=? cc_val c'); [reflexivity|]. cbn [kind_code] in X4. lia.
  - intros [c [C1 [C2 [C3 C4]]]]. exists (ev_of_cc c).
    pose proof (C4 c C1 eq_refl) as ON. unfold is_on in ON.
    split; [apply INDONE; assumption|]. split; [cbn; rewrite ON; reflexivity|].
    split; [apply (cc_in_events ctl ns ccs i c C1)|].
    intros y Hy Py. destruct (pedal_event_from_cc ctl ns ccs i y) as [c' [D1 D2]].
    { rewrite E. apply in_or_app. left. exact Hy. } { exact Py. }
    assert (Ty : cc_time c' <= e_time e).
    { specialize (S2 _ Hy). unfold ev_lt in S2. rewrite D2 in S2. cbn [ev_of_cc e_time] in S2. lia. }
    specialize (C3 c' D1 Ty). subst y. unfold ev_lt. cbn [ev_of_cc e_time e_kind]. rewrite ON.
    destruct (Z.eq_dec (cc_time c') (cc_time c)) as [Q|Q]; [|lia].
    specialize (C4 c' D1 Q). unfold is_on in C4. rewrite C4. lia.
Qed.

(** * The closing time is the greatest event time *)
Lemma fold_max_spec : forall r t, In (fold_left Z.max r t) (t :: r) /\ forall x, In x (t :: r) -> x <= fold_left Z.max r t.
Proof.
  induction r; intros; cbn [fold_left].
  - split; [left; reflexivity | intros x [<-|[]]; lia].
  - destruct (IHr (Z.max t a)) as [A B]. split.
    + destruct A as [A|A]; [|right; right; exact A].
      rewrite <- A. destruct (Z.max_spec t a) as [[_ M]|[_ M]]; rewrite M; [right; left | left]; reflexivity.
    + intros x [<-|[<-|Hx]]; [| |apply B; right; exact Hx].
      * etransitivity; [|apply B; left; reflexivity]. lia.
      * etransitivity; [|apply B; left; reflexivity]. lia.
Qed.

Lemma last_In : forall (l : list Z) d, l <> [] -> In (last l d) l.
Proof.
  induction l; intros; [congruence|]. destruct l; [left; reflexivity|].
  right. apply IHl. discriminate.
Qed.

Lemma max_event_time_last : forall ctl ns ccs,
  max_event_time ctl ns ccs = last_time (sorted_events ctl ns ccs).
Proof.
  intros. unfold max_event_time.
  pose proof (sort_events_perm (build_events ctl ns ccs)) as Pm. fold (sorted_events ctl ns ccs) in Pm.
  pose proof (sort_events_sorted (build_events ctl ns ccs)) as S. fold (sorted_events ctl ns ccs) in S.
  destruct (map e_time (build_events ctl ns ccs)) as [|t r] eqn:B.
  - destruct (build_events ctl ns ccs); [|discriminate]. apply Permutation_sym, Permutation_nil in Pm. rewrite Pm. reflexivity.
  - destruct (fold_max_spec r t) as [M1 M2]. rewrite <- B in M1, M2.
    set (M := fold_left Z.max r t) in *.
    assert (L1 : In (last_time (sorted_events ctl ns ccs)) (map e_time (sorted_events ctl ns ccs))).
    { unfold last_time. apply last_In. intros C. apply map_eq_nil in C. rewrite C in Pm.
      apply Permutation_nil in Pm. rewrite Pm in B. discriminate. }
    apply in_map_iff in L1. destruct L1 as [x [X1 X2]].
    apply in_map_iff in M1. destruct M1 as [y [Y1 Y2]].
    assert (last_time (sorted_events ctl ns ccs) <= M).
    { rewrite <- X1. apply M2. apply in_map. eapply Permutation_in; [exact Pm | exact X2]. }
    assert (M <= last_time (sorted_events ctl ns ccs)).
    { rewrite <- Y1. apply last_time_max; [exact S|]. eapply Permutation_in; [symmetry; exact Pm | exact Y2]. }
    lia.
Qed.

(** * Indexing *)
Lemma nth_error_combine_seq : forall {A} (l : list A) a j,
  nth_error (combine (List.seq a (length l)) l) j = option_map (fun x => ((a + j)%nat, x)) (nth_error l j).
Proof.
  induction l; intros; cbn [length List.seq combine]; [destruct j; reflexivity|].
  destruct j; cbn [nth_error option_map].
  - rewrite Nat.add_0_r. reflexivity.
  - rewrite IHl. replace (S a0 + j)%nat with (a0 + S j)%nat by lia. reflexivity.
Qed.

Lemma nth_error_indexed : forall {A} (l : list A) j,
  nth_error (indexed l) j = option_map (fun x => (j, x)) (nth_error l j).
Proof. intros. unfold indexed. rewrite nth_error_combine_seq. reflexivity. Qed.

Lemma list_eq_nth_error : forall {A} (l l' : list A), (forall j, nth_error l j = nth_error l' j) -> l = l'.
Proof.
  induction l; intros [|b l'] H; auto; try (specialize (H O); discriminate).
  pose proof (H O) as H0. cbn in H0. inversion H0; subst. f_equal. apply IHl. intros j. apply (H (S j)).
Qed.
