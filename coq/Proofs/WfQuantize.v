(** Proofs/WfQuantize.v — C11 for quantize_note_sequence_absolute and
    quantize_note_sequence (model: Model/Quantize.v, C01, imported read-only).

    In that model times are float CODES (order-preserving integer images of binary64
    values, code 0 = time 0.0), so [wf] on the shared record — integer comparisons of
    codes — is exactly the float well-formedness of the real sequence
    ([C01_code_order_iff], [C01_code_zero_is_time_zero]).

    Two layers, like the C01 development: a statement for EVERY step function [q]
    (closed under the global context), and its instances for the bit-exact step functions
    of the two entry points (FloatAxioms + Reals axioms, through q2s monotonicity). *)
From Coq Require Import ZArith List Bool Reals Floats Lia Lra ZifyBool.
From Flocq Require Import Core BinarySingleNaN PrimFloat.
From NS Require Import Base.Sx Base.NoteSeq Base.FloatBridge Model.Wf Proofs.WfBase Gen.G01 Model.Quantize
     Proofs.Quantize Proofs.QuantizeFloat Proofs.QuantizeFloatExt Proofs.QuantizeTop.
Import ListNotations.
Local Open Scope Z_scope.

(** * For every step function *)

(** quantization writes only quantized fields: times, hence [wf], are untouched *)
Lemma wf_result_of : forall q spq sps tps tss s,
  wf s -> Forall (fun t => 0 <= tp_time t) tps -> Forall (fun t => 0 <= ts_time t) tss ->
  wf (result_of q spq sps tps tss s).
Proof.
  intros q spq sps tps tss s (W0 & Wn & W1 & W2 & W3 & W4 & W5 & W6 & W7) Tp Ts.
  apply wf_intro; cbn [result_of s_total s_notes s_tempos s_tsigs s_ksigs s_texts s_ccs s_bends s_sects]; auto.
  - apply Forall_map_iff. eapply Forall_impl; [|exact Wn]. intros n H. destruct n; exact H.
  - apply Forall_map_iff. eapply Forall_impl; [|exact W4]. intros t H. exact H.
  - apply Forall_map_iff. eapply Forall_impl; [|exact W5]. intros t H. exact H.
Qed.

Lemma seq_neg_false : forall q s, seq_neg q s = false ->
  (forall n, In n (s_notes s) -> 0 <= q (n_start n)) /\
  (forall c, In c (s_ccs s) -> 0 <= q (cc_time c)) /\
  (forall t, In t (s_texts s) -> 0 <= q (tx_time t)).
Proof.
  intros q s H. pose proof (seq_neg_true_iff q s) as T.
  assert (N : ~ seq_neg q s = true) by congruence.
  repeat split; intros x Hx.
  - destruct (Z_lt_le_dec (q (n_start x)) 0) as [L|L]; [|exact L]. exfalso. apply N, T. left. exists x. auto.
  - destruct (Z_lt_le_dec (q (cc_time x)) 0) as [L|L]; [|exact L]. exfalso. apply N, T. right. left. exists x. auto.
  - destruct (Z_lt_le_dec (q (tx_time x)) 0) as [L|L]; [|exact L]. exfalso. apply N, T. right. right. exists x. auto.
Qed.

(** the quantized half of well-formedness, for any step function that does not put a
    note's end before its start *)
Lemma qwf_result_of : forall q spq sps tps tss s,
  seq_neg q s = false -> (forall n, In n (s_notes s) -> q (n_start n) <= q (n_end n)) ->
  qwf (result_of q spq sps tps tss s).
Proof.
  intros q spq sps tps tss s Neg Mono. destruct (seq_neg_false q s Neg) as (Nn & Nc & Nt).
  destruct (result_total_covers q spq sps tps tss s) as (_ & Cov & _).
  unfold qwf. repeat split.
  - apply Forall_forall. intros n' Hn'. pose proof (Cov n' Hn') as C.
    cbn [result_of s_notes] in Hn'. apply in_map_iff in Hn'. destruct Hn' as (n & <- & Hn).
    pose proof (qend_min_length q n (Mono n Hn)). specialize (Nn n Hn).
    unfold qnote in *. destruct n; cbn in *. lia.
  - cbn [result_of s_ccs]. apply Forall_map_iff. apply Forall_forall. intros c Hc. cbn. auto.
  - cbn [result_of s_texts]. apply Forall_map_iff. apply Forall_forall. intros t Ht. cbn. auto.
Qed.

Lemma inv_result_of : forall q spq sps tps tss s,
  s_notes (result_of q spq sps tps tss s) = map (qnote q) (s_notes s).
Proof. reflexivity. Qed.

Lemma qnote_same_but_qsteps : forall q n, same_but_qsteps n (qnote q n).
Proof. intros q n. unfold same_but_qsteps, qnote. destruct n; reflexivity. Qed.

(** * The two entry points (bit-exact step functions) *)

(** the note times are codes of finite floats of magnitude at most 2^40 s *)
Definition code_in_range (c : Z) : Prop := code_ok c /\ time_ok c.
Definition times_in_range (s : seq) : Prop :=
  Forall (fun n => code_in_range (n_start n) /\ code_in_range (n_end n)) (s_notes s).

Lemma qstep_mono_codes : forall sps s, sps_ok sps -> wf s -> times_in_range s ->
  forall n, In n (s_notes s) -> qstep sps (n_start n) <= qstep sps (n_end n).
Proof.
  intros sps s Hs W R n Hn. unfold times_in_range in R. rewrite Forall_forall in R.
  destruct (R n Hn) as [[C1 T1] [C2 T2]].
  pose proof (wf_notes _ W) as Wn. rewrite Forall_forall in Wn. destruct (Wn n Hn) as (_ & B & _).
  apply qstep_mono; auto. apply code_order_iff; auto.
Qed.

Lemma wf_quantize_abs : forall sps s s',
  0 <= sps <= 2 ^ 20 -> wf s -> times_in_range s -> quantize_abs sps s = Ok s' -> wf s' /\ qwf s'.
Proof.
  intros sps s s' Hs W R H. destruct (quantize_abs_ok _ _ _ H) as [Neg ->].
  destruct (sps_abs_R sps Hs) as (_ & F & B).
  split.
  - apply wf_result_of; auto; apply W.
  - apply qwf_result_of; [exact Neg|]. unfold abs_q. apply (qstep_mono_codes _ s); auto. split; assumption.
Qed.

Lemma inv_quantize_abs : forall sps s s', quantize_abs sps s = Ok s' ->
  s_notes s' = map (qnote (abs_q sps)) (s_notes s).
Proof. intros sps s s' H. destruct (quantize_abs_ok _ _ _ H) as [_ ->]. reflexivity. Qed.

(** a tempo in the range the C01 float theorems cover: finite, 1..1024 qpm *)
Definition qpm_in_range (c : Z) : Prop := fin (fdec c) /\ (1 <= R_of (fdec c) <= 1024)%R.

(** the default tempo regenerated from constants.DEFAULT_QUARTERS_PER_MINUTE is in that range *)
Lemma default_qpm_in_range : qpm_in_range DEFAULT_QPM_CODE.
Proof.
  assert (E : R_of (fdec DEFAULT_QPM_CODE) = 120%R).
  { rewrite R_of_SF.
    replace (Prim2SF (fdec DEFAULT_QPM_CODE)) with (S754_finite false 8444249301319680 (-46))
      by (vm_compute; reflexivity).
    unfold SF2R, F2R. cbn -[IZR]. lra. }
  split; [reflexivity|]. rewrite E. lra.
Qed.

Lemma wf_quantize_rel : forall spq s s',
  1 <= spq <= 1024 -> wf s -> times_in_range s ->
  (forall t, In t (s_tempos s) -> qpm_in_range (tp_qpm t)) ->
  quantize_rel spq s = Ok s' -> wf s' /\ qwf s'.
Proof.
  intros spq s s' Hs W R Hq H.
  destruct (quantize_rel_ok _ _ _ H) as (num & den & qpm & _ & _ & _ & _ & _ & Qd & Qa & _ & Neg & ->).
  assert (Qr : qpm_in_range qpm).
  { destruct (s_tempos s) as [|t0 l] eqn:E; [rewrite (Qd eq_refl); apply default_qpm_in_range|].
    rewrite <- (Qa t0 (or_introl eq_refl)). apply Hq. now left. }
  destruct Qr as [Fq Bq]. destruct (sps_rel_R spq (fdec qpm) Hs Fq Bq) as (F & B & _).
  split.
  - apply wf_result_of; auto; repeat constructor; cbn; lia.
  - apply qwf_result_of; [exact Neg|]. unfold rel_q. apply (qstep_mono_codes _ s); auto.
    split; [exact F|]. lra.
Qed.

Lemma inv_quantize_rel : forall spq s s', quantize_rel spq s = Ok s' ->
  exists qpm, s_notes s' = map (qnote (rel_q spq qpm)) (s_notes s).
Proof.
  intros spq s s' H.
  destruct (quantize_rel_ok _ _ _ H) as (num & den & qpm & _ & _ & _ & _ & _ & _ & _ & _ & _ & ->).
  exists qpm. reflexivity.
Qed.
