(** Proofs/WfTranspose.v — C11 for transpose_note_sequence: corollaries of the C10
    development (Model/Transpose.v, Proofs/Transpose.v), imported read-only. *)
From Coq Require Import ZArith List Bool Lia ZifyBool.
From NS Require Import Base.Sx Base.NoteSeq Model.Wf Proofs.WfBase
     Gen.G10 Model.ChordTranspose Model.Transpose Proofs.TransposeChord Proofs.Transpose.
Import ListNotations.
Local Open Scope Z_scope.

Lemma wf_transpose : forall s k lo hi tc r deleted,
  wf s -> transpose_ns s k lo hi tc = Some (r, deleted) -> wf r.
Proof.
  intros s k lo hi tc r deleted [W0 W] H. split.
  - apply (transpose_ns_total_le _ _ _ _ _ _ _ H W0). intros n Hn.
    destruct W as (Wn & _). rewrite Forall_forall in Wn. apply (Wn n Hn).
  - eapply transpose_ns_wf; eauto.
Qed.

(** every returned note is a kept input note, moved by k semitones if it is pitched *)
Lemma inv_transpose : forall s k lo hi tc r deleted,
  transpose_ns s k lo hi tc = Some (r, deleted) ->
  s_notes r = map (note_shift k) (filter (note_keep k lo hi) (s_notes s)).
Proof. intros s k lo hi tc r deleted H. apply (transpose_ns_ok _ _ _ _ _ _ _ H). Qed.

(** the failure the runtime monitor found for seeded change C11-2 is excluded by the model:
    a drum note is never dropped from the total_time computation *)
Lemma transpose_total_covers_drums : forall s k lo hi tc r deleted n,
  transpose_ns s k lo hi tc = Some (r, deleted) -> In n (s_notes s) -> n_drum n = true ->
  In n (s_notes r) /\ n_end n <= s_total r.
Proof.
  intros s k lo hi tc r deleted n H Hn Hd.
  destruct (transpose_ns_ok _ _ _ _ _ _ _ H) as (N & _ & _ & _ & _ & _ & _ & _ & _ & _ & _ & _ & _ & _ & _ & _ & _ & Cov & _).
  assert (I : In n (s_notes r)).
  { rewrite N. apply in_map_iff. exists n. split.
    - unfold note_shift. rewrite Hd. reflexivity.
    - apply filter_In. split; [exact Hn|]. unfold note_keep. rewrite Hd. reflexivity. }
  split; [exact I|]. apply Cov. exact I.
Qed.
