(** Proofs/EncDec.v — Python list helpers, [encode], the generation loop, the
    generic round trip, the one-hot wrappers and the conditional wrapper (C08). *)
From Coq Require Import ZArith List Bool Lia ZifyBool.
From NS Require Import Model.EncDec.
Import ListNotations.
Local Open Scope Z_scope.
Ltac Zify.zify_post_hook ::= Z.to_euclidean_division_equations.

(** * zlen, py_nth, py_set, zeros, zrange *)
Lemma zlen_nonneg {A} (l : list A) : 0 <= zlen l.
Proof. unfold zlen; lia. Qed.

Lemma zlen_nil {A} : zlen (@nil A) = 0.
Proof. reflexivity. Qed.

Lemma zlen_cons {A} (x : A) l : zlen (x :: l) = 1 + zlen l.
Proof. unfold zlen; cbn [length]; lia. Qed.

Lemma zlen_app {A} (l1 l2 : list A) : zlen (l1 ++ l2) = zlen l1 + zlen l2.
Proof. unfold zlen; rewrite app_length; lia. Qed.

Lemma zlen_map {A B} (f : A -> B) l : zlen (map f l) = zlen l.
Proof. unfold zlen; now rewrite map_length. Qed.

Lemma zlen_firstn {A} (l : list A) p : 0 <= p <= zlen l -> zlen (firstn (Z.to_nat p) l) = p.
Proof. unfold zlen; intros; rewrite firstn_length; lia. Qed.

Lemma py_nth_pos {A} (l : list A) i : 0 <= i -> py_nth l i = nth_error l (Z.to_nat i).
Proof.
  intros; unfold py_nth. destruct (i <? 0) eqn:?; [lia|]. now destruct (i <? 0) eqn:?; [lia|].
Qed.

Lemma py_nth_neg {A} (l : list A) d :
  1 <= d <= zlen l -> py_nth l (- d) = nth_error l (Z.to_nat (zlen l - d)).
Proof.
  intros; unfold py_nth. destruct (- d <? 0) eqn:?; [|lia].
  destruct (- d + zlen l <? 0) eqn:?; [lia|]. f_equal; lia.
Qed.

Lemma py_nth_some {A} (l : list A) i dflt :
  0 <= i < zlen l -> py_nth l i = Some (nth (Z.to_nat i) l dflt).
Proof.
  intros; rewrite py_nth_pos by lia. apply nth_error_nth'. unfold zlen in *; lia.
Qed.

Lemma py_nth_none {A} (l : list A) i : zlen l <= i -> py_nth l i = None.
Proof.
  intros; pose proof (zlen_nonneg l). rewrite py_nth_pos by lia. apply nth_error_None. unfold zlen in *; lia.
Qed.

Lemma py_nth_lt {A} (l : list A) i x : py_nth l i = Some x -> - zlen l <= i < zlen l.
Proof.
  unfold py_nth; intros H.
  destruct (i <? 0) eqn:?.
  - destruct (i + zlen l <? 0) eqn:?; [discriminate|]. lia.
  - destruct (i <? 0) eqn:?; [lia|].
    assert (nth_error l (Z.to_nat i) <> None) as Hn by congruence.
    apply nth_error_Some in Hn. unfold zlen; lia.
Qed.

Lemma nth_error_firstn {A} (l : list A) n i : (i < n)%nat -> nth_error (firstn n l) i = nth_error l i.
Proof.
  revert n i; induction l as [|x l IH]; intros n i Hi.
  - now rewrite firstn_nil.
  - destruct n; [lia|]. destruct i; cbn; [reflexivity|]. apply IH; lia.
Qed.

Lemma upd_length {A} k (v : A) l : length (upd k v l) = length l.
Proof. revert k; induction l; intros [|k]; cbn; auto. Qed.

Lemma nth_upd_same {A} k (v : A) l d : (k < length l)%nat -> nth k (upd k v l) d = v.
Proof. revert k; induction l; intros [|k] H; cbn in *; try lia; auto. apply IHl; lia. Qed.

Lemma nth_upd_other {A} k j (v : A) l d : k <> j -> nth j (upd k v l) d = nth j l d.
Proof. revert k j; induction l; intros [|k] [|j] H; cbn; auto; try congruence. Qed.

Lemma py_set_length {A} (l l' : list A) i v : py_set l i v = Some l' -> zlen l' = zlen l.
Proof.
  unfold py_set; intros H. destruct (_ || _); inversion H; subst.
  unfold zlen; now rewrite upd_length.
Qed.

Lemma py_set_pos {A} (l : list A) i v :
  0 <= i < zlen l -> py_set l i v = Some (upd (Z.to_nat i) v l).
Proof.
  intros; unfold py_set. destruct (i <? 0) eqn:?; [lia|].
  destruct ((i <? 0) || (zlen l <=? i)) eqn:?; [lia|reflexivity].
Qed.

Lemma py_set_in_range {A} (l l' : list A) i v : py_set l i v = Some l' -> - zlen l <= i < zlen l.
Proof.
  unfold py_set; intros H. destruct (i <? 0) eqn:?; destruct (_ || _) eqn:?; try discriminate; lia.
Qed.

Lemma zeros_length m : zlen (zeros m) = Z.max 0 m.
Proof. unfold zlen, zeros; rewrite repeat_length; lia. Qed.

Lemma zeros_nth m k : nth k (zeros m) 0 = 0.
Proof.
  unfold zeros. generalize (Z.to_nat m) as n. intros n; revert k; induction n; intros [|k]; cbn; auto.
Qed.

Lemma zrange_length m : length (zrange m) = Z.to_nat m.
Proof. unfold zrange; now rewrite map_length, seq_length. Qed.

Lemma zrange_nth m k : (k < Z.to_nat m)%nat -> nth k (zrange m) 0 = Z.of_nat k.
Proof.
  intros; unfold zrange. change 0 with (Z.of_nat 0) at 1. rewrite map_nth, seq_nth by lia. lia.
Qed.

Lemma zrange_nth_error m k : (k < Z.to_nat m)%nat -> nth_error (zrange m) k = Some (Z.of_nat k).
Proof.
  intros. rewrite (nth_error_nth' _ 0) by (rewrite zrange_length; lia). now rewrite zrange_nth.
Qed.

Lemma zrange_in m i : In i (zrange m) <-> 0 <= i < m.
Proof.
  unfold zrange; rewrite in_map_iff; split.
  - intros (k & <- & Hk); apply in_seq in Hk; lia.
  - intros; exists (Z.to_nat i); split; [lia|]. apply in_seq; lia.
Qed.

Lemma zrange_succ m : 0 <= m -> zrange (m + 1) = zrange m ++ [m].
Proof.
  intros; unfold zrange. replace (Z.to_nat (m + 1)) with (S (Z.to_nat m)) by lia.
  rewrite seq_S, map_app; cbn. do 2 f_equal; lia.
Qed.

(** * opt_all *)
Lemma opt_all_some {A} (l : list (option A)) xs :
  opt_all l = Some xs -> l = map Some xs.
Proof.
  revert xs; induction l as [|o l IH]; intros xs H; cbn in H.
  - now inversion H.
  - destruct o as [x|]; cbn in H; [|discriminate].
    destruct (opt_all l) as [ys|]; cbn in H; [|discriminate].
    inversion H; subst; cbn; f_equal; auto.
Qed.

Lemma opt_all_map_some {A} (xs : list A) : opt_all (map Some xs) = Some xs.
Proof. induction xs; cbn; [reflexivity|]. now rewrite IHxs. Qed.

Lemma opt_all_none {A} (l : list (option A)) :
  opt_all l = None <-> In None l.
Proof.
  induction l as [|o l IH]; cbn.
  - split; [discriminate|tauto].
  - destruct o as [x|]; cbn.
    + destruct (opt_all l) as [ys|]; cbn.
      * split; [discriminate|]. intros [H|H]; [discriminate|]. apply IH in H. discriminate.
      * split; [intros _; right; apply IH; reflexivity|intros _; reflexivity].
    + split; auto.
Qed.

(** * encode: len-1 aligned (input, label) pairs, and it fails exactly when a call fails *)
Section Encode.
  Context {L : Type}.
  Variable inp : Z -> option (list Z).
  Variable lab : Z -> option L.

  Lemma encode_with_aligned len ins labs :
    encode_with inp lab len = Some (ins, labs) ->
    zlen ins = Z.max 0 (len - 1) /\ zlen labs = Z.max 0 (len - 1) /\
    forall i, 0 <= i < len - 1 ->
      inp i = nth_error ins (Z.to_nat i) /\ lab (i + 1) = nth_error labs (Z.to_nat i).
  Proof.
    unfold encode_with; intros H.
    destruct (opt_all _) as [ps|] eqn:Hps; cbn in H; [|discriminate].
    inversion H; subst; clear H.
    apply opt_all_some in Hps.
    assert (Hlen : length ps = Z.to_nat (len - 1)).
    { apply (f_equal (@length _)) in Hps. now rewrite !map_length, zrange_length in Hps. }
    split; [unfold zlen; rewrite map_length; lia|].
    split; [unfold zlen; rewrite map_length; lia|].
    intros i Hi.
    apply (f_equal (fun l => nth_error l (Z.to_nat i))) in Hps.
    rewrite !nth_error_map, zrange_nth_error in Hps by lia. cbn in Hps.
    rewrite Z2Nat.id in Hps by lia. rewrite !nth_error_map.
    destruct (inp i) as [x|]; cbn in Hps; [|destruct (nth_error ps _); discriminate].
    destruct (lab (i + 1)) as [l|]; cbn in Hps; [|destruct (nth_error ps _); discriminate].
    destruct (nth_error ps _) as [[x' l']|]; cbn in *; [|discriminate].
    inversion Hps; subst. split; reflexivity.
  Qed.

  Lemma encode_with_none len :
    encode_with inp lab len = None <->
    exists i, 0 <= i < len - 1 /\ (inp i = None \/ lab (i + 1) = None).
  Proof.
    unfold encode_with. split.
    - intros H. destruct (opt_all _) eqn:Hps; [discriminate|].
      apply opt_all_none, in_map_iff in Hps. destruct Hps as (i & Hi & Hin).
      apply zrange_in in Hin. exists i; split; [lia|].
      destruct (inp i); [|now left]. destruct (lab (i + 1)); [discriminate|now right].
    - intros (i & Hi & Hf).
      assert (In None (map (fun i => x <- inp i;; l <- lab (i + 1);; Some (x, l)) (zrange (len - 1)))) as Hin.
      { apply in_map_iff; exists i; split; [|apply zrange_in; lia].
        destruct Hf as [-> | Hl]; [reflexivity|]. rewrite Hl. now destruct (inp i). }
      apply opt_all_none in Hin. now rewrite Hin.
  Qed.
End Encode.

Theorem encode_aligned {E L} (ed : encdec E L) es ins labs :
  encode ed es = Some (ins, labs) ->
  zlen ins = Z.max 0 (zlen es - 1) /\ zlen labs = Z.max 0 (zlen es - 1) /\
  forall i, 0 <= i < zlen es - 1 ->
    ed_input ed es i = nth_error ins (Z.to_nat i) /\ ed_label ed es (i + 1) = nth_error labs (Z.to_nat i).
Proof. apply encode_with_aligned. Qed.

Theorem encode_fails_iff {E L} (ed : encdec E L) es :
  encode ed es = None <->
  exists i, 0 <= i < zlen es - 1 /\ (ed_input ed es i = None \/ ed_label ed es (i + 1) = None).
Proof. apply encode_with_none. Qed.

(** * The generation loop *)
Section Generate.
  Context {E L : Type}.
  Variable dec : L -> list E -> option E.

  Lemma generate_extends ls : forall evs out,
    generate dec ls evs = Some out ->
    length out = (length evs + length ls)%nat /\ firstn (length evs) out = evs.
  Proof.
    induction ls as [|l ls IH]; intros evs out H; cbn in H.
    - inversion H; subst. rewrite firstn_all; split; [cbn; lia|reflexivity].
    - destruct (dec l evs) as [e|] eqn:He; cbn in H; [|discriminate].
      apply IH in H. destruct H as [Hl Hf]. rewrite app_length in *; cbn in *. split; [lia|].
      apply (f_equal (firstn (length evs))) in Hf.
      rewrite firstn_firstn, firstn_app, Nat.sub_diag, firstn_all in Hf. cbn in Hf.
      rewrite app_nil_r in Hf. now replace (Nat.min (length evs) (length evs + 1)) with (length evs) in Hf by lia.
  Qed.

  (* total whenever every label is one the decoder accepts against every history *)
  Lemma generate_total (good : L -> Prop) :
    (forall l evs, good l -> dec l evs <> None) ->
    forall ls evs, Forall good ls -> generate dec ls evs <> None.
  Proof.
    intros Hd ls; induction ls as [|l ls IH]; intros evs Hg; cbn; [discriminate|].
    inversion Hg; subst. destruct (dec l evs) eqn:He; [cbn; now apply IH|]. now apply Hd in He.
  Qed.

  (* every event of the generated sequence is the decoder's answer against the prefix before it *)
  Lemma generate_step ls : forall evs out,
    generate dec ls evs = Some out ->
    forall j, (j < length ls)%nat ->
      exists l e, nth_error ls j = Some l /\ nth_error out (length evs + j) = Some e /\
                  dec l (firstn (length evs + j) out) = Some e.
  Proof.
    induction ls as [|l ls IH]; intros evs out H j Hj; cbn in *; [lia|].
    destruct (dec l evs) as [e|] eqn:He; cbn in H; [|discriminate].
    pose proof (generate_extends _ _ _ H) as [Hlen Hpre].
    rewrite app_length in Hlen, Hpre; cbn in Hlen, Hpre.
    destruct j as [|j].
    - exists l, e. split; [reflexivity|]. rewrite Nat.add_0_r.
      assert (firstn (length evs) out = evs) as Hev.
      { apply (f_equal (firstn (length evs))) in Hpre.
        rewrite firstn_firstn, firstn_app, Nat.sub_diag, firstn_all in Hpre. cbn in Hpre.
        rewrite app_nil_r in Hpre. now replace (Nat.min (length evs) (length evs + 1)) with (length evs) in Hpre by lia. }
      split; [|now rewrite Hev].
      apply (f_equal (fun x => nth_error x (length evs))) in Hpre.
      rewrite nth_error_firstn in Hpre by lia. rewrite Hpre.
      rewrite nth_error_app2, Nat.sub_diag by lia. reflexivity.
    - destruct (IH _ _ H j ltac:(lia)) as (l' & e' & Hl & Ho & Hd).
      rewrite app_length in Ho, Hd; cbn in Ho, Hd.
      exists l', e'. replace (length evs + S j)%nat with (length evs + 1 + j)%nat by lia. auto.
  Qed.

  (** Decoding the labels reconstructs the sequence: if the label at every
      position of [rest] decodes, against the events before it, to the event
      there, the loop started from [evs] rebuilds [evs ++ rest]. *)
  Lemma generate_roundtrip rest : forall evs ls,
    length ls = length rest ->
    (forall j, (j < length rest)%nat ->
       exists l e, nth_error ls j = Some l /\ nth_error rest j = Some e /\
                   dec l (evs ++ firstn j rest) = Some e) ->
    generate dec ls evs = Some (evs ++ rest).
  Proof.
    induction rest as [|e rest IH]; intros evs ls Hlen H.
    - destruct ls; [|discriminate]. cbn. now rewrite app_nil_r.
    - destruct ls as [|l ls]; [discriminate|]. cbn.
      destruct (H 0%nat ltac:(cbn; lia)) as (l0 & e0 & Hl & He & Hd). cbn in Hl, He, Hd.
      inversion Hl; inversion He; subst. rewrite app_nil_r in Hd. rewrite Hd; cbn.
      replace (evs ++ e0 :: rest) with ((evs ++ [e0]) ++ rest) by now rewrite <- app_assoc.
      apply IH; [cbn in Hlen; lia|].
      intros j Hj. destruct (H (S j) ltac:(cbn; lia)) as (l' & e' & Hl' & He' & Hd').
      cbn in Hl', He', Hd'. exists l', e'. now rewrite <- app_assoc.
  Qed.
End Generate.

(** The generic statement of C08's title: for an encoder whose label at every
    position 1 <= p < len decodes against events[:p] to events[p], the labels
    returned by [encode] drive the generation loop from [events[:1]] back to
    the whole sequence. *)
Theorem roundtrip_generic {E L} (ed : encdec E L) (es : list E) ins labs :
  encode ed es = Some (ins, labs) ->
  (forall p, 1 <= p < zlen es ->
     exists l e, ed_label ed es p = Some l /\ nth_error es (Z.to_nat p) = Some e /\
                 ed_decode ed l (firstn (Z.to_nat p) es) = Some e) ->
  generate (ed_decode ed) labs (firstn 1 es) = Some es.
Proof.
  intros Henc Hdec. apply encode_aligned in Henc. destruct Henc as (_ & Hll & Hal).
  destruct es as [|e0 rest].
  - cbn in *. destruct labs; [reflexivity|]. rewrite zlen_cons in Hll. pose proof (zlen_nonneg labs). lia.
  - cbn [firstn]. change (Some (e0 :: rest)) with (Some ([e0] ++ rest)). rewrite zlen_cons in *.
    pose proof (zlen_nonneg rest).
    apply generate_roundtrip; [unfold zlen in *; lia|].
    intros j Hj.
    destruct (Hdec (Z.of_nat j + 1)) as (l & e & Hl & He & Hd); [unfold zlen in *; lia|].
    replace (Z.to_nat (Z.of_nat j + 1)) with (S j) in * by lia.
    cbn in He, Hd. exists l, e. repeat split; auto.
    destruct (Hal (Z.of_nat j)) as [_ Hlab]; [unfold zlen in *; lia|].
    rewrite Nat2Z.id in Hlab. congruence.
Qed.

(** * OneHotEventSequenceEncoderDecoder / OneHotIndexEventSequenceEncoderDecoder *)
Definition count1 (v : list Z) : Z := zlen (filter (Z.eqb 1) v).
Definition is_one_hot (v : list Z) : Prop := count1 v = 1 /\ Forall (fun x => x = 0 \/ x = 1) v.

Lemma filter1_repeat0 m : filter (Z.eqb 1) (repeat 0 m) = [].
Proof. induction m; cbn; auto. Qed.

Lemma Forall01_repeat0 m : Forall (fun x => x = 0 \/ x = 1) (repeat 0 m).
Proof. induction m; cbn; constructor; auto. Qed.

Lemma upd_zeros_one_hot m c : (c < m)%nat -> is_one_hot (upd c 1 (repeat 0 m)).
Proof.
  revert c; induction m as [|m IH]; intros c Hc; [lia|].
  destruct c as [|c]; cbn [repeat upd].
  - split.
    + unfold count1. cbn [filter]. change (1 =? 1) with true. cbv iota.
      now rewrite filter1_repeat0.
    + constructor; [now right|apply Forall01_repeat0].
  - destruct (IH c ltac:(lia)) as [Hc1 Hf]. split.
    + unfold count1 in *. cbn [filter]. change (1 =? 0) with false. cbv iota. exact Hc1.
    + constructor; [now left|exact Hf].
Qed.

Lemma py_set_zeros_one_hot m c v :
  py_set (zeros m) c 1 = Some v -> 0 <= c -> is_one_hot v /\ zlen v = m /\ nth (Z.to_nat c) v 0 = 1.
Proof.
  intros H Hc. pose proof (py_set_in_range _ _ _ _ H) as Hr. rewrite zeros_length in Hr.
  rewrite py_set_pos in H by (rewrite zeros_length; lia). inversion H; subst; clear H.
  unfold zeros. split; [apply upd_zeros_one_hot; lia|]. split.
  - unfold zlen; rewrite upd_length, repeat_length; lia.
  - apply nth_upd_same. rewrite repeat_length; lia.
Qed.

Section OneHotSeq.
  Variable E : Type.
  Variable n : Z.
  Variable enc : E -> option Z.
  Variable dec : Z -> option E.
  (* the wrapped OneHotEncoding is a bijection onto [0, n) on the events of interest (C09) *)
  Variable valid : E -> Prop.
  Hypothesis enc_ok : forall e, valid e -> exists c, enc e = Some c /\ 0 <= c < n /\ dec c = Some e.

  Theorem onehot_decode_label es p e :
    nth_error es (Z.to_nat p) = Some e -> 0 <= p -> valid e ->
    exists l, ohs_label E enc es p = Some l /\ 0 <= l < n /\
              ohs_decode E dec l (firstn (Z.to_nat p) es) = Some e.
  Proof.
    intros He Hp Hv. destruct (enc_ok e Hv) as (c & Hc & Hr & Hd).
    exists c. unfold ohs_label, ohs_decode. rewrite py_nth_pos, He by lia. cbn. auto.
  Qed.

  Theorem onehot_input_shape es p e :
    nth_error es (Z.to_nat p) = Some e -> 0 <= p -> valid e ->
    exists v c, ohs_input E n enc es p = Some v /\ enc e = Some c /\
                zlen v = n /\ is_one_hot v /\ nth (Z.to_nat c) v 0 = 1.
  Proof.
    intros He Hp Hv. destruct (enc_ok e Hv) as (c & Hc & Hr & Hd).
    unfold ohs_input. rewrite py_nth_pos, He by lia. cbn. rewrite Hc; cbn.
    assert (py_set (zeros n) c 1 = Some (upd (Z.to_nat c) 1 (zeros n))) as Hs
      by (apply py_set_pos; rewrite zeros_length; lia).
    rewrite Hs. eexists _, c. split; [reflexivity|]. split; [reflexivity|].
    destruct (py_set_zeros_one_hot n c _ Hs) as (H1 & H2 & H3); [lia|]. auto.
  Qed.

  Theorem onehot_index_input es p e :
    nth_error es (Z.to_nat p) = Some e -> 0 <= p -> valid e ->
    exists c, ohi_input E enc es p = Some [c] /\ ohs_label E enc es p = Some c /\ 0 <= c < n.
  Proof.
    intros He Hp Hv. destruct (enc_ok e Hv) as (c & Hc & Hr & Hd).
    exists c. unfold ohi_input, ohs_label. rewrite py_nth_pos, He by lia. cbn. rewrite Hc. auto.
  Qed.

  Variable steps : E -> Z.
  (* the wrapped decoder accepts every class index *)
  Hypothesis dec_total : forall c, 0 <= c < n -> dec c <> None.

  Theorem onehot_generation_total ls evs :
    Forall (fun l => 0 <= l < n) ls ->
    (exists out, generate (ohs_decode E dec) ls evs = Some out /\
                 length out = (length evs + length ls)%nat) /\
    (exists g, generate (ohs_decode E dec) ls [] = Some g /\ length g = length ls /\
               steps_by_generation (ohs_decode E dec) steps ls = Some (zsum (map steps g))).
  Proof.
    intros Hg.
    assert (Ht : forall evs0, generate (ohs_decode E dec) ls evs0 <> None).
    { intros evs0. apply (generate_total _ (fun l => 0 <= l < n)); auto.
      intros l0 evs1 Hl0. now apply dec_total. }
    split.
    - destruct (generate (ohs_decode E dec) ls evs) as [out|] eqn:Hgen; [|now apply Ht in Hgen].
      exists out. split; [reflexivity|]. now apply generate_extends in Hgen.
    - destruct (generate (ohs_decode E dec) ls []) as [g|] eqn:Hgen; [|now apply Ht in Hgen].
      exists g. split; [reflexivity|]. split; [now apply generate_extends in Hgen|].
      unfold steps_by_generation. now rewrite Hgen.
  Qed.
End OneHotSeq.

(** * ConditionalEventSequenceEncoderDecoder *)
Section Conditional.
  Context {C LC T LT : Type}.
  Variable ctl : encdec C LC.
  Variable tgt : encdec T LT.

  (* input = control input at p+1 ++ target input at p; sizes add *)
  Theorem conditional_input cs ts p a b :
    ed_input ctl cs (p + 1) = Some a -> ed_input tgt ts p = Some b ->
    zlen a = ed_input_size ctl -> zlen b = ed_input_size tgt ->
    cond_input ctl tgt cs ts p = Some (a ++ b) /\ zlen (a ++ b) = cond_input_size ctl tgt.
  Proof.
    intros Ha Hb Hla Hlb. unfold cond_input, cond_input_size. rewrite Ha, Hb; cbn.
    rewrite zlen_app. split; [reflexivity|lia].
  Qed.

  Theorem conditional_input_fails cs ts p :
    cond_input ctl tgt cs ts p = None <-> ed_input ctl cs (p + 1) = None \/ ed_input tgt ts p = None.
  Proof.
    unfold cond_input. destruct (ed_input ctl cs (p + 1)); cbn; [|tauto].
    destruct (ed_input tgt ts p); cbn; split; intros; try tauto; try discriminate.
    destruct H; discriminate.
  Qed.

  (* encode: rejects unequal lengths, otherwise len-1 aligned pairs whose labels are the target's *)
  Theorem conditional_encode_aligned cs ts ins labs :
    cond_encode ctl tgt cs ts = Some (ins, labs) ->
    zlen cs = zlen ts /\
    zlen ins = Z.max 0 (zlen ts - 1) /\ zlen labs = Z.max 0 (zlen ts - 1) /\
    forall i, 0 <= i < zlen ts - 1 ->
      cond_input ctl tgt cs ts i = nth_error ins (Z.to_nat i) /\
      ed_label tgt ts (i + 1) = nth_error labs (Z.to_nat i).
  Proof.
    unfold cond_encode. destruct (zlen cs =? zlen ts) eqn:Hl; cbn; [|discriminate].
    intros H. split; [lia|]. now apply encode_with_aligned in H.
  Qed.

  Theorem conditional_encode_rejects cs ts :
    zlen cs <> zlen ts -> cond_encode ctl tgt cs ts = None.
  Proof. unfold cond_encode. intros H. destruct (zlen cs =? zlen ts) eqn:Hl; [lia|reflexivity]. Qed.

  (* the round trip is the target's: labels of a conditional encode regenerate the target sequence *)
  Theorem conditional_roundtrip cs ts ins labs :
    cond_encode ctl tgt cs ts = Some (ins, labs) ->
    (forall p, 1 <= p < zlen ts ->
       exists l e, ed_label tgt ts p = Some l /\ nth_error ts (Z.to_nat p) = Some e /\
                   ed_decode tgt l (firstn (Z.to_nat p) ts) = Some e) ->
    generate (cond_decode tgt) labs (firstn 1 ts) = Some ts.
  Proof.
    intros Henc Hdec. apply conditional_encode_aligned in Henc. destruct Henc as (_ & _ & Hll & Hal).
    destruct ts as [|e0 rest].
    - cbn in *. destruct labs; [reflexivity|]. rewrite zlen_cons in Hll. pose proof (zlen_nonneg labs). lia.
    - cbn [firstn]. change (Some (e0 :: rest)) with (Some ([e0] ++ rest)). rewrite zlen_cons in *.
      pose proof (zlen_nonneg rest).
      apply generate_roundtrip; [unfold zlen in *; lia|].
      intros j Hj.
      destruct (Hdec (Z.of_nat j + 1)) as (l & e & Hl & He & Hd); [unfold zlen in *; lia|].
      replace (Z.to_nat (Z.of_nat j + 1)) with (S j) in * by lia.
      cbn in He, Hd. exists l, e. repeat split; auto.
      destruct (Hal (Z.of_nat j)) as [_ Hlab]; [unfold zlen in *; lia|].
      rewrite Nat2Z.id in Hlab. congruence.
  Qed.
End Conditional.
