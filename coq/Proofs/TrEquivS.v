(** Proofs/TrEquivS.v — SimpleEventSequence.append and SimpleEventSequence.set_length, re-translated from their
    SOURCE on every run (Gen/TrS.v, harness/vt/pytr.py: stateful-method mode, the method maps (events, attributes
    read, arguments) to (new events, assigned attributes)), equal the hand-written state-machine model of
    Model/Events.v for every state and every argument. *)
From Coq Require Import ZArith Bool List Lia.
From NS Require Import Base.TrTac Model.Events Gen.TrS.
Import ListNotations.
Local Open Scope Z_scope.

Section Base.
  (* the base class: no pad override, every event valid, no cleaning, default fill, no post-pass *)
  Let bappend := append Z (fun _ => true).
  Let bset := base_set_length Z.

  Lemma trs_append_eq (s : st Z) (e : Z) :
    trs_append (events s) (stop s) e =
    Some (events (fst (bappend s e)), stop (fst (bappend s e))).
  Proof. first [ reflexivity | unfold trs_append, bappend, append; cbn [events stop start fst]; tr_solve ]. Qed.

  Lemma trs_append_frame (s : st Z) (e : Z) :
    let s' := fst (bappend s e) in
    start s' = start s /\ spb s' = spb s /\ spq s' = spq s /\ pad s' = pad s /\ snd (bappend s e) = Done.
  Proof. cbn. repeat split. Qed.

  Lemma trs_set_length_eq (s : st Z) (n : Z) (fl : bool) :
    trs_set_length (events s) (stop s) (pad s) (start s) n fl =
    Some (events (bset s n fl), stop (bset s n fl), start (bset s n fl)).
  Proof.
    unfold trs_set_length, bset, base_set_length.
    first [ solve [ rewrite Z.gtb_ltb; destruct (zlen (events s) <? n), fl; reflexivity ]
          | destruct fl; cbn [events stop start]; tr_solve ].
  Qed.

  Lemma trs_set_length_frame (s : st Z) (n : Z) (fl : bool) :
    spb (bset s n fl) = spb s /\ spq (bset s n fl) = spq s /\ pad (bset s n fl) = pad s.
  Proof. unfold bset, base_set_length. destruct fl; repeat split. Qed.
End Base.
