(** Proofs/TrCode18.v — two clauses of C18 stated DIRECTLY on the Gallina re-translated from the source of the nested
    frames_from_times of sequence_to_pianoroll on every run (Gen/TrF.v): every note fills at least one frame, and its
    first frame is int(start * fps) or the frame after it (the latter only with a positive minimum occupancy). *)
From Coq Require Import ZArith Bool Floats Lia.
From NS Require Import Base.FloatBridge Base.TrTac Base.TrTacF Gen.TrF.
Local Open Scope Z_scope.

Theorem code_frames_at_least_one fps occ s e a b :
  trf_frames_from_times fps occ s e = Some (a, b) -> a < b.
Proof.
  unfold trf_frames_from_times. cbv zeta. tr_split; intros H; try discriminate H; injection H as <- <-; lia.
Qed.

Theorem code_frames_start fps occ s e a b :
  trf_frames_from_times fps occ s e = Some (a, b) ->
  a = trunc (s * fps)%float \/ (a = trunc (s * fps)%float + 1 /\ PrimFloat.ltb 0 occ = true).
Proof.
  unfold trf_frames_from_times. cbv zeta.
  change (0x0.0p+0)%float with 0%float.
  destruct (PrimFloat.ltb 0 occ) eqn:Hocc; cbn [andb];
    tr_split; intros H; try discriminate H; injection H as <- <-; auto.
Qed.
