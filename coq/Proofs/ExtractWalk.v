(** Proofs/ExtractWalk.v — the walks of Model/Extract.v compute, piece by piece,
    the declarative filter/map/last specification. *)
From Coq Require Import ZArith List Bool Lia ZifyBool Permutation Sorted.
From NS Require Import Base.NoteSeq Model.Extract Proofs.ExtractSort.
Import ListNotations.
Local Open Scope Z_scope.

Definition zsorted (l : list Z) : Prop := StronglySorted Z.le l.

(** * intervals *)
Lemma intervals_cons2 : forall a b r, intervals (a :: b :: r) = (a, b) :: intervals (b :: r).
Proof. reflexivity. Qed.

Lemma intervals_length : forall b r, length (intervals (b :: r)) = length r.
Proof.
  intros b r. revert b. induction r as [|c r IH]; intros b; [reflexivity|].
  rewrite intervals_cons2. cbn [length]. now rewrite IH.
Qed.

Lemma intervals_fst_ge : forall b r, zsorted (b :: r) ->
  Forall (fun pq => b <= fst pq) (intervals (b :: r)).
Proof.
  intros b r. revert b. induction r as [|c r IH]; intros b S; [constructor|].
  rewrite intervals_cons2. inversion S; subst. inversion H2; subst.
  constructor; [cbn; lia|].
  eapply Forall_impl; [|apply IH; assumption]. cbn. intros; lia.
Qed.

Lemma intervals_le : forall l, zsorted l -> Forall (fun pq => fst pq <= snd pq) (intervals l).
Proof.
  induction l as [|a [|b r] IH]; intros S; try constructor.
  - inversion S; subst. inversion H2; subst. cbn; lia.
  - apply IH. now inversion S.
Qed.

Lemma map_const_repeat {X Y} (c : Y) : forall (l : list X), map (fun _ => c) l = repeat c (length l).
Proof. induction l; cbn; congruence. Qed.

Lemma map_repeat {X Y} (f : X -> Y) (c : X) : forall n, map f (repeat c n) = repeat (f c) n.
Proof. induction n; cbn; congruence. Qed.

(** * The [>=] walk (notes, beats) *)
Section GeWalk.
Context {A : Type} (time : A -> Z) (place : Z -> Z -> A -> A).

Definition ge_spec (p q : Z) (l : list A) : list A :=
  map (place p q) (filter (fun n => in_piece p q (time n)) l).

Lemma ge_walk_nil : forall a b r,
  ge_walk time place a (b :: r) [] = [] :: repeat [] (length r).
Proof. reflexivity. Qed.

Lemma ge_walk_cons : forall a b r n l,
  ge_walk time place a (b :: r) (n :: l) =
  if time n >=? b then [] :: ge_walk time place b r (n :: l)
  else cons_hd (place a b n) (ge_walk time place a (b :: r) l).
Proof. reflexivity. Qed.

Lemma ge_spec_skip : forall p q n l, time n < p -> ge_spec p q (n :: l) = ge_spec p q l.
Proof.
  intros. unfold ge_spec. cbn [filter]. unfold in_piece at 1.
  destruct (p <=? time n) eqn:E; [lia|]. reflexivity.
Qed.

Lemma ge_spec_all_ge : forall p q l, Forall (fun n => p <= time n) l ->
  ge_spec p q l = map (place p q) (filter (fun n => time n <? q) l).
Proof.
  intros p q l F. unfold ge_spec. f_equal. apply filter_ext_in. intros n Hn.
  rewrite Forall_forall in F. specialize (F n Hn). unfold in_piece.
  destruct (p <=? time n) eqn:E; [reflexivity|lia].
Qed.

Lemma ge_walk_spec : forall rest a l,
  zsorted (a :: rest) -> sorted_by time l -> Forall (fun n => a <= time n) l ->
  ge_walk time place a rest l =
  match rest with
  | [] => []
  | b :: _ => map (place a b) (filter (fun n => time n <? b) l)
              :: map (fun pq => ge_spec (fst pq) (snd pq) l) (intervals rest)
  end.
Proof.
  induction rest as [|b r IHr]; intros a l Sz Sl Fa; [reflexivity|].
  induction l as [|n l IHl].
  - rewrite ge_walk_nil. cbn [filter map]. f_equal.
    unfold ge_spec. cbn [filter map]. rewrite map_const_repeat, intervals_length. reflexivity.
  - rewrite ge_walk_cons.
    assert (Szb : zsorted (b :: r)) by (inversion Sz; assumption).
    assert (Hab : a <= b) by (inversion Sz; subst; match goal with H : Forall _ (b :: r) |- _ => inversion H; assumption end).
    assert (Sl' : sorted_by time l) by (inversion Sl; assumption).
    assert (Hnl : Forall (fun y => time n <= time y) l) by (inversion Sl; assumption).
    assert (Han : a <= time n) by (inversion Fa; assumption).
    assert (Fa' : Forall (fun n => a <= time n) l) by (inversion Fa; assumption).
    destruct (time n >=? b) eqn:E.
    + (* advance: every remaining event is at or after b *)
      assert (Fb : Forall (fun m => b <= time m) (n :: l)).
      { constructor; [lia|]. eapply Forall_impl; [|exact Hnl]. cbn; intros; lia. }
      rewrite IHr; [|assumption|assumption|assumption].
      rewrite filter_none
        by (eapply Forall_impl; [|exact Fb]; cbn; intros; lia).
      cbn [map]. f_equal.
      destruct r as [|b2 r2]; [reflexivity|].
      rewrite intervals_cons2. cbn [map fst snd]. f_equal.
      symmetry. apply ge_spec_all_ge. exact Fb.
    + rewrite IHl; [|assumption|assumption].
      cbn [cons_hd filter]. assert (E2 : (time n <? b) = true) by lia. rewrite E2. cbn [map].
      f_equal. apply map_ext_in. intros [p q] Hpq. cbn [fst snd].
      symmetry. apply ge_spec_skip.
      pose proof (intervals_fst_ge b r Szb) as G. rewrite Forall_forall in G.
      specialize (G _ Hpq). cbn in G. lia.
Qed.

Lemma ge_spec_filter_ge : forall t0 p q l0, t0 <= p ->
  ge_spec p q (filter (fun n => negb (time n <? t0)) l0) = ge_spec p q l0.
Proof.
  intros t0 p q l0 Hp. unfold ge_spec. f_equal. induction l0 as [|n r0 IH]; [reflexivity|].
  cbn [filter]. destruct (time n <? t0) eqn:E; cbn [negb filter].
  - unfold in_piece at 2. destruct (p <=? time n) eqn:E2; [lia|]. cbn [andb]. exact IH.
  - destruct (in_piece p q (time n)); [f_equal|]; exact IH.
Qed.

(** the virtual container of index -1 and the [continue] filter *)
Lemma ge_pieces_spec : forall ts evs,
  zsorted ts ->
  tl (ge_walk time place 0 ts (filter (fun n => negb (time n <? tsn ts 0)) (sort_by time evs))) =
  map (fun pq => ge_spec (fst pq) (snd pq) (sort_by time evs)) (intervals ts).
Proof.
  intros [|t0 rest] evs Sz; [reflexivity|].
  unfold tsn. cbn [nth].
  set (l0 := sort_by time evs).
  set (l := filter (fun n => negb (time n <? t0)) l0).
  assert (Sl : sorted_by time l) by (apply sorted_by_filter, sort_by_sorted).
  assert (Fl : Forall (fun n => t0 <= time n) l).
  { rewrite Forall_forall. intros n Hn. apply filter_In in Hn. lia. }
  assert (V : tl (ge_walk time place 0 (t0 :: rest) l) = ge_walk time place t0 rest l).
  { destruct l as [|n l'].
    - rewrite ge_walk_nil. cbn [tl]. destruct rest; reflexivity.
    - rewrite ge_walk_cons. inversion Fl; subst.
      destruct (time n >=? t0) eqn:E; [reflexivity|lia]. }
  rewrite V, ge_walk_spec by assumption.
  destruct rest as [|b r]; [reflexivity|].
  rewrite intervals_cons2. cbn [map fst snd].
  assert (K : forall p q, t0 <= p -> ge_spec p q l = ge_spec p q l0).
  { intros p q Hp. unfold l. now apply ge_spec_filter_ge. }
  f_equal.
  - rewrite <- ge_spec_all_ge by exact Fl. apply K. lia.
  - apply map_ext_in. intros [p q] Hpq. cbn [fst snd]. apply K.
    inversion Sz; subst.
    pose proof (intervals_fst_ge b r H1) as G. rewrite Forall_forall in G.
    specialize (G _ Hpq). cbn in G. inversion H2; subst. lia.
Qed.

End GeWalk.

(** * The [>] walks with carried state *)
Section StateWalk.
Context {A : Type} (kf : A -> key) (time : A -> Z) (set_time : A -> Z -> A).
Hypothesis Htime : forall e x, time (set_time e x) = x.
Hypothesis Hkf : forall e x, kf (set_time e x) = kf e.

Definition zero (e : A) : A := set_time e 0.
Definition shift (a : Z) (e : A) : A := set_time e (time e - a).
Definition last_or (prev : option A) (l : list A) : option A :=
  match last_opt l with Some x => Some x | None => prev end.

(** what container [[p, q)] receives when the walk still has [l] to process and
    [prev] is the carried event *)
Definition spec_future (p q : Z) (prev : option A) (l : list A) : list A :=
  map zero (opt_list (last_or prev (filter (fun e => time e <=? p) l)))
  ++ map (shift p) (filter (fun e => strictly_inside p q (time e)) l).

Definition walk_spec (a : Z) (rest : list Z) (prev : option A) (l : list A) : list (list A) :=
  match rest with
  | [] => []
  | b :: _ => map (shift a) (filter (fun e => time e <? b) l)
              :: map (fun pq => spec_future (fst pq) (snd pq) prev l) (intervals rest)
  end.

Definition wk (kk : key) (l : list A) : list A := filter (fun e => key_eqb (kf e) kk) l.

Definition lookup (d : list (key * A)) (kk : key) : option A :=
  match find (fun p => key_eqb (fst p) kk) d with Some p => Some (snd p) | None => None end.

Definition dict_ok (d : list (key * A)) : Prop :=
  NoDup (map fst d) /\ Forall (fun p => kf (snd p) = fst p) d.

Definition carry_of (d : list (key * A)) : list A := map (fun p => set_time (snd p) 0) d.

Lemma key_eqb_eq : forall a b : key, key_eqb a b = true <-> a = b.
Proof.
  intros [a1 a2] [b1 b2]. unfold key_eqb. cbn [fst snd]. split.
  - intros H. f_equal; lia.
  - intros H. inversion H; subst. lia.
Qed.

Lemma key_eqb_refl : forall a, key_eqb a a = true.
Proof. intros. now apply key_eqb_eq. Qed.

Lemma key_eqb_neq : forall a b : key, key_eqb a b = false <-> a <> b.
Proof.
  intros a b. split.
  - intros H E. apply key_eqb_eq in E. congruence.
  - intros H. destruct (key_eqb a b) eqn:E; [|reflexivity]. apply key_eqb_eq in E. contradiction.
Qed.

(** ** the dict *)
Lemma lookup_dict_set : forall d k v kk,
  lookup (dict_set d k v) kk = if key_eqb k kk then Some v else lookup d kk.
Proof.
  unfold lookup. induction d as [|[k' v'] r IH]; intros k v kk.
  - cbn. destruct (key_eqb k kk); reflexivity.
  - cbn [dict_set]. destruct (key_eqb k' k) eqn:E.
    + apply key_eqb_eq in E. subst k'. cbn [find fst snd].
      destruct (key_eqb k kk); reflexivity.
    + cbn [find fst snd]. destruct (key_eqb k' kk) eqn:E2.
      * apply key_eqb_eq in E2. subst k'.
        destruct (key_eqb k kk) eqn:E3; [|reflexivity].
        apply key_eqb_eq in E3. subst. rewrite key_eqb_refl in E. discriminate.
      * apply IH.
Qed.

Lemma dict_set_keys : forall (d : list (key * A)) k v x,
  In x (map fst (dict_set d k v)) <-> x = k \/ In x (map fst d).
Proof.
  induction d as [|[k' v'] r IH]; intros k v x.
  - cbn. intuition.
  - cbn [dict_set]. destruct (key_eqb k' k) eqn:E.
    + apply key_eqb_eq in E. subst. cbn. intuition.
    + cbn [map fst In]. rewrite IH. intuition.
Qed.

Lemma dict_ok_set : forall d e, dict_ok d -> dict_ok (dict_set d (kf e) e).
Proof.
  unfold dict_ok. induction d as [|[k' v'] r IH]; intros e [N F].
  - cbn. split; [repeat constructor; auto|repeat constructor].
  - inversion N; subst. inversion F; subst. cbn [dict_set].
    destruct (key_eqb k' (kf e)) eqn:E.
    + apply key_eqb_eq in E. subst. cbn [map fst]. split; [assumption|].
      constructor; [reflexivity|assumption].
    + destruct (IH e (conj H2 H4)) as [N' F']. cbn [map fst]. split.
      * constructor; [|assumption]. rewrite dict_set_keys. intros [->|H]; [|contradiction].
        rewrite key_eqb_refl in E. discriminate.
      * constructor; assumption.
Qed.

Lemma wk_carry : forall d kk, dict_ok d -> wk kk (carry_of d) = map zero (opt_list (lookup d kk)).
Proof.
  unfold dict_ok, wk, carry_of, lookup. induction d as [|[k v] r IH]; intros kk [N F]; [reflexivity|].
  inversion N; subst. inversion F; subst. cbn [fst snd] in *.
  cbn [map filter find fst snd]. rewrite Hkf, H3.
  destruct (key_eqb k kk) eqn:E.
  - apply key_eqb_eq in E. subst kk. cbn [opt_list map]. f_equal.
    apply filter_none. rewrite Forall_forall. intros x Hx. apply in_map_iff in Hx.
    destruct Hx as [[k' v'] [<- Hin]]. cbn [snd]. rewrite Hkf.
    rewrite Forall_forall in H4. specialize (H4 _ Hin). cbn [fst snd] in H4. rewrite H4.
    apply key_eqb_neq. intros ->. apply H1. apply in_map_iff. now exists (k, v').
  - apply IH. split; assumption.
Qed.

(** ** unfolding equations of the walks *)
Lemma dict_walk_nil : forall t0 a b r d,
  dict_walk kf time set_time t0 a (b :: r) d [] = [] :: repeat (carry_of d) (length r).
Proof. reflexivity. Qed.

Lemma dict_walk_cons : forall t0 a b r d e l,
  dict_walk kf time set_time t0 a (b :: r) d (e :: l) =
  if time e <=? t0 then dict_walk kf time set_time t0 a (b :: r) (dict_set d (kf e) e) l
  else if time e >? b then [] :: prepend (carry_of d) (dict_walk kf time set_time t0 b r d (e :: l))
  else let rr := dict_walk kf time set_time t0 a (b :: r) (dict_set d (kf e) e) l in
       if time e <? b then cons_hd (set_time e (time e - a)) rr else rr.
Proof. reflexivity. Qed.

(** ** facts about the specification *)
Lemma spec_future_nil : forall p q prev, spec_future p q prev [] = map zero (opt_list prev).
Proof. intros. unfold spec_future, last_or. cbn. now rewrite app_nil_r. Qed.

Lemma spec_future_absorb : forall p q prev e l, time e <= p ->
  spec_future p q prev (e :: l) = spec_future p q (Some e) l.
Proof.
  intros p q prev e l H. unfold spec_future. cbn [filter].
  assert (E1 : (time e <=? p) = true) by lia. rewrite E1.
  unfold strictly_inside at 1. assert (E2 : (p <? time e) = false) by lia. rewrite E2. cbn [andb].
  f_equal. f_equal. f_equal. unfold last_or. rewrite last_opt_cons.
  destruct (last_opt _); reflexivity.
Qed.

Lemma spec_future_after : forall p q prev l, Forall (fun e => p < time e) l ->
  spec_future p q prev l = map zero (opt_list prev) ++ map (shift p) (filter (fun e => time e <? q) l).
Proof.
  intros p q prev l F. unfold spec_future. f_equal.
  - rewrite filter_none; [reflexivity|]. eapply Forall_impl; [|exact F]. cbn; intros; lia.
  - f_equal. apply filter_ext_in. intros e He. rewrite Forall_forall in F. specialize (F e He).
    unfold strictly_inside. destruct (p <? time e) eqn:E; [reflexivity|lia].
Qed.

(** advancing into the piece that starts at [b] *)
Lemma prepend_walk_spec : forall b r prev l, Forall (fun e => b < time e) l ->
  prepend (map zero (opt_list prev)) (walk_spec b r prev l) =
  map (fun pq => spec_future (fst pq) (snd pq) prev l) (intervals (b :: r)).
Proof.
  intros b [|b2 r2] prev l F; [reflexivity|].
  unfold walk_spec. rewrite intervals_cons2. cbn [prepend map fst snd]. f_equal.
  symmetry. now apply spec_future_after.
Qed.

Lemma map_wk_prepend : forall kk c r, map (wk kk) (prepend c r) = prepend (wk kk c) (map (wk kk) r).
Proof. intros kk c [|p r]; [reflexivity|]. cbn [prepend map]. unfold wk. now rewrite filter_app. Qed.

Lemma map_wk_cons_hd : forall kk x r,
  map (wk kk) (cons_hd x r) = if key_eqb (kf x) kk then cons_hd x (map (wk kk) r) else map (wk kk) r.
Proof.
  intros kk x [|p r]; [destruct (key_eqb _ _); reflexivity|].
  cbn [cons_hd map]. unfold wk at 1. cbn [filter].
  destruct (key_eqb (kf x) kk); reflexivity.
Qed.

Lemma sorted_cons_gt : forall b e l, sorted_by time (e :: l) -> b < time e ->
  Forall (fun x => b < time x) (e :: l).
Proof.
  intros b e l S H. inversion S; subst. constructor; [assumption|].
  eapply Forall_impl; [|exact H3]. cbn; intros; lia.
Qed.

(** ** the pedal walk, one (instrument, control number) at a time *)
Lemma dict_walk_spec : forall t0 rest a d l kk,
  zsorted (a :: rest) -> sorted_by time l -> t0 <= a -> Forall (fun e => a < time e) l -> dict_ok d ->
  map (wk kk) (dict_walk kf time set_time t0 a rest d l) = walk_spec a rest (lookup d kk) (wk kk l).
Proof.
  intros t0. induction rest as [|b r IHr]; intros a d l kk Sz Sl Ht Fa Ok; [reflexivity|].
  revert d Ok. induction l as [|e l IHl]; intros d Ok.
  - rewrite dict_walk_nil. cbn [map]. rewrite map_repeat, wk_carry by assumption.
    unfold walk_spec, wk. cbn [filter map]. f_equal.
    rewrite (map_ext _ (fun _ => map zero (opt_list (lookup d kk)))) by (intros; apply spec_future_nil).
    now rewrite map_const_repeat, intervals_length.
  - rewrite dict_walk_cons.
    assert (Szb : zsorted (b :: r)) by (inversion Sz; assumption).
    assert (Hab : a <= b) by (inversion Sz; subst; match goal with H : Forall _ (b :: r) |- _ => inversion H; assumption end).
    assert (Sl' : sorted_by time l) by (inversion Sl; assumption).
    assert (Hae : a < time e) by (inversion Fa; assumption).
    assert (Fa' : Forall (fun e => a < time e) l) by (inversion Fa; assumption).
    destruct (time e <=? t0) eqn:E0; [lia|].
    destruct (time e >? b) eqn:E1.
    + (* subsequence_index += 1 *)
      cbn [map]. rewrite map_wk_prepend, wk_carry by assumption.
      assert (Fb : Forall (fun x => b < time x) (e :: l)) by (apply sorted_cons_gt; [assumption|lia]).
      rewrite IHr; [|assumption|assumption|lia|assumption|assumption].
      assert (Fbk : Forall (fun x => b < time x) (wk kk (e :: l))).
      { rewrite Forall_forall in *. intros x Hx. apply filter_In in Hx. apply Fb. tauto. }
      rewrite prepend_walk_spec by assumption.
      unfold walk_spec. f_equal. rewrite filter_none; [reflexivity|].
      eapply Forall_impl; [|exact Fbk]. cbn; intros; lia.
    + cbv zeta.
      assert (IH : map (wk kk) (dict_walk kf time set_time t0 a (b :: r) (dict_set d (kf e) e) l) =
                   walk_spec a (b :: r) (lookup (dict_set d (kf e) e) kk) (wk kk l)).
      { apply IHl; [assumption|assumption|now apply dict_ok_set]. }
      rewrite lookup_dict_set in IH.
      assert (G : Forall (fun pq => time e <= fst pq) (intervals (b :: r))).
      { eapply Forall_impl; [|apply intervals_fst_ge; assumption]. cbn; intros; lia. }
      unfold wk at 2. cbn [filter]. fold (wk kk l).
      destruct (key_eqb (kf e) kk) eqn:Ek.
      * assert (W : walk_spec a (b :: r) (lookup d kk) (e :: wk kk l) =
                    (if time e <? b then cons_hd (shift a e) else fun x => x)
                      (walk_spec a (b :: r) (Some e) (wk kk l))).
        { unfold walk_spec. cbn [filter].
          rewrite (map_ext_in _ (fun pq => spec_future (fst pq) (snd pq) (Some e) (wk kk l))).
          - destruct (time e <? b); reflexivity.
          - intros pq Hpq. apply spec_future_absorb. rewrite Forall_forall in G. now apply G. }
        rewrite W, <- IH. destruct (time e <? b); [|reflexivity].
        rewrite map_wk_cons_hd, Hkf, Ek. reflexivity.
      * rewrite <- IH. destruct (time e <? b); [|reflexivity].
        rewrite map_wk_cons_hd, Hkf, Ek. reflexivity.
Qed.

(** the virtual container of index -1: events at or before [split_times[0]] only update the dict *)
Lemma dict_pieces_spec : forall ts d l kk,
  zsorted ts -> sorted_by time l -> dict_ok d ->
  map (wk kk) (tl (dict_walk kf time set_time (tsn ts 0) 0 ts d l)) =
  map (fun pq => spec_future (fst pq) (snd pq) (lookup d kk) (wk kk l)) (intervals ts).
Proof.
  intros [|t0 rest] d l kk Sz Sl Ok; [reflexivity|].
  unfold tsn. cbn [nth]. revert d Ok. induction l as [|e l IHl]; intros d Ok.
  - rewrite dict_walk_nil. cbn [tl]. rewrite map_repeat, wk_carry by assumption.
    unfold wk. cbn [filter].
    rewrite (map_ext _ (fun _ => map zero (opt_list (lookup d kk)))) by (intros; apply spec_future_nil).
    now rewrite map_const_repeat, intervals_length.
  - rewrite dict_walk_cons. inversion Sl; subst.
    destruct (time e <=? t0) eqn:E0.
    + rewrite IHl; [|assumption|now apply dict_ok_set]. rewrite lookup_dict_set.
      unfold wk at 2. cbn [filter]. fold (wk kk l).
      destruct (key_eqb (kf e) kk); [|reflexivity].
      apply map_ext_in. intros pq Hpq. symmetry. apply spec_future_absorb.
      pose proof (intervals_fst_ge t0 rest Sz) as G. rewrite Forall_forall in G.
      specialize (G _ Hpq). cbn in G. lia.
    + assert (E1 : (time e >? t0) = true) by lia. rewrite E1. cbn [tl].
      rewrite map_wk_prepend, wk_carry by assumption.
      assert (Fb : Forall (fun x => t0 < time x) (e :: l)) by (apply sorted_cons_gt; [assumption|lia]).
      inversion Sz; subst.
      rewrite dict_walk_spec; [|assumption|assumption|lia|assumption|assumption].
      apply prepend_walk_spec.
      rewrite Forall_forall in *. intros x Hx. apply filter_In in Hx. apply Fb. tauto.
Qed.

End StateWalk.
