(** Proofs/Transpose.v — transpose_note_sequence refines its declarative
    specification; Melody.transpose folds into the range keeping pitch classes;
    squash / LeadSheet agree; _clamp_transpose is safe (C10). *)
From Coq Require Import ZArith List Bool Lia ZifyBool.
From NS Require Import Base.NoteSeq Gen.G10 Model.ChordTranspose Model.Transpose Proofs.TransposeChord.
Import ListNotations.
Local Open Scope Z_scope.
Ltac Zify.zify_post_hook ::= Z.to_euclidean_division_equations.

(** * Declarative specification of transpose_note_sequence *)

(* a note survives iff it is a drum or its new pitch is inside the allowed range *)
Definition note_keep (k lo hi : Z) (n : note) : bool :=
  n_drum n || ((lo <=? n_pitch n + k) && (n_pitch n + k <=? hi)).

(* drums are returned as they are; pitched notes move by k and lose their pitch name *)
Definition note_shift (k : Z) (n : note) : note :=
  if n_drum n then n else note_transposed k n.

Definition max_end (l : list note) : Z := fold_right (fun n m => Z.max (n_end n) m) 0 l.

Definition transpose_ns_decl (s : seq) (k lo hi : Z) (tc : bool) : option (seq * Z) :=
  let kept := filter (note_keep k lo hi) (s_notes s) in
  match (if tc then map_opt (text_transposed k) (s_texts s) else Some (texts_without_chords (s_texts s))) with
  | None => None
  | Some txs =>
      Some (mkSeq (map (note_shift k) kept) (s_tempos s) (s_tsigs s) (map (ksig_transposed k) (s_ksigs s)) txs
                  (s_ccs s) (s_bends s) (s_sects s) (max_end kept) (s_qsteps s) (s_spq s) (s_sps s)
                  (s_sub s) (s_tpq s) (s_rest s),
            Z.of_nat (length (s_notes s)) - Z.of_nat (length kept))
  end.

Lemma fold_max_end l : forall e, 0 <= e ->
  fold_left (fun m n => Z.max m (n_end n)) l e = Z.max e (max_end l).
Proof.
  induction l as [|n r IH]; cbn [fold_left max_end fold_right]; intros e He.
  - lia.
  - rewrite IH by lia. fold (max_end r). lia.
Qed.

Lemma max_end_nonneg l : 0 <= max_end l.
Proof. induction l as [|n r IH]; cbn [max_end fold_right]; [lia|]. fold (max_end r). lia. Qed.

Lemma notes_pass_spec k lo hi ns : forall acc d e, 0 <= e ->
  notes_pass k lo hi ns acc d e =
  (rev acc ++ map (note_shift k) (filter (note_keep k lo hi) ns),
   d + (Z.of_nat (length ns) - Z.of_nat (length (filter (note_keep k lo hi) ns))),
   Z.max e (max_end (filter (note_keep k lo hi) ns))).
Proof.
  induction ns as [|n r IH]; intros acc d e He; cbn [notes_pass filter map length].
  - rewrite app_nil_r. cbn [max_end fold_right]. f_equal; [f_equal|]; lia.
  - assert (((lo <=? n_pitch n + k) && (n_pitch n + k <=? hi)) || n_drum n = note_keep k lo hi n) as Hk
      by (unfold note_keep; apply orb_comm).
    rewrite Hk. destruct (note_keep k lo hi n) eqn:E.
    + rewrite IH by lia. cbn [rev map length max_end fold_right]. fold (max_end (filter (note_keep k lo hi) r)).
      rewrite <- app_assoc. cbn [app]. unfold note_shift at 2.
      destruct (n_drum n); cbn [negb]; (f_equal; [f_equal|]); try lia; reflexivity.
    + rewrite IH by lia. f_equal. f_equal. lia.
Qed.

(** transpose_ns_spec: the pass-by-pass model equals the filter/map specification,
    for every sequence, every k, every range (also empty ones) and both settings
    of transpose_chords. *)
Theorem transpose_ns_spec s k lo hi tc :
  transpose_ns s k lo hi tc = transpose_ns_decl s k lo hi tc.
Proof.
  unfold transpose_ns, transpose_ns_decl.
  rewrite notes_pass_spec by lia. cbn [rev app].
  pose proof (max_end_nonneg (filter (note_keep k lo hi) (s_notes s))) as Hm.
  rewrite Z.max_r by exact Hm.
  destruct (if tc then map_opt (text_transposed k) (s_texts s) else Some (texts_without_chords (s_texts s)));
    [|reflexivity].
  reflexivity.
Qed.

(** ** What the specification says, clause by clause *)

(* a drum is returned untouched *)
Lemma note_shift_drum k n : n_drum n = true -> note_shift k n = n.
Proof. unfold note_shift. intros ->. reflexivity. Qed.

(* a pitched note moves by exactly k; velocity, times, instrument, program, drum flag, quantized steps stay *)
Lemma note_shift_pitched k n : n_drum n = false ->
  n_pitch (note_shift k n) = n_pitch n + k /\ n_vel (note_shift k n) = n_vel n /\
  n_start (note_shift k n) = n_start n /\ n_end (note_shift k n) = n_end n /\
  n_instr (note_shift k n) = n_instr n /\ n_prog (note_shift k n) = n_prog n /\
  n_drum (note_shift k n) = false /\ n_qstart (note_shift k n) = n_qstart n /\ n_qend (note_shift k n) = n_qend n.
Proof. unfold note_shift. intros H. rewrite H. cbn. repeat split. exact H. Qed.

Lemma note_shift_times k n :
  n_start (note_shift k n) = n_start n /\ n_end (note_shift k n) = n_end n /\ n_vel (note_shift k n) = n_vel n /\
  n_drum (note_shift k n) = n_drum n.
Proof. unfold note_shift. destruct (n_drum n) eqn:E; cbn; auto. Qed.

(* filter-then-shift is the same as shift-then-filter with the test on the new pitch *)
Definition note_in_range (lo hi : Z) (n : note) : bool :=
  n_drum n || ((lo <=? n_pitch n) && (n_pitch n <=? hi)).

Lemma shift_filter_commute k lo hi l :
  map (note_shift k) (filter (note_keep k lo hi) l) = filter (note_in_range lo hi) (map (note_shift k) l).
Proof.
  induction l as [|n r IH]; [reflexivity|]. cbn [map filter].
  assert (note_in_range lo hi (note_shift k n) = note_keep k lo hi n) as ->.
  { unfold note_in_range, note_keep, note_shift. destruct (n_drum n) eqn:E; cbn; rewrite ?E; reflexivity. }
  destruct (note_keep k lo hi n); cbn [map]; rewrite IH; reflexivity.
Qed.

(* the deleted count is the number of pitched notes whose new pitch leaves the range *)
Definition note_gone (k lo hi : Z) (n : note) : bool :=
  negb (n_drum n) && ((n_pitch n + k <? lo) || (hi <? n_pitch n + k)).

Lemma deleted_count k lo hi l :
  Z.of_nat (length l) - Z.of_nat (length (filter (note_keep k lo hi) l)) =
  Z.of_nat (length (filter (note_gone k lo hi) l)).
Proof.
  induction l as [|n r IH]; [reflexivity|]. cbn [filter length].
  assert (note_gone k lo hi n = negb (note_keep k lo hi n)) as ->.
  { unfold note_gone, note_keep. destruct (n_drum n); cbn; lia. }
  destruct (note_keep k lo hi n); cbn [negb length]; lia.
Qed.

Lemma max_end_covers l n : In n l -> n_end n <= max_end l.
Proof.
  induction l as [|m r IH]; [intros []|]. cbn [max_end fold_right]. fold (max_end r).
  intros [<-|H]; [lia|]. specialize (IH H). lia.
Qed.

Lemma max_end_bound l b : 0 <= b -> (forall n, In n l -> n_end n <= b) -> max_end l <= b.
Proof.
  intros Hb. induction l as [|m r IH]; cbn [max_end fold_right]; intros H; [lia|]. fold (max_end r).
  assert (n_end m <= b) by (apply H; left; reflexivity).
  assert (max_end r <= b) by (apply IH; intros; apply H; right; assumption). lia.
Qed.

Lemma max_end_shift k l : max_end (map (note_shift k) l) = max_end l.
Proof.
  induction l as [|n r IH]; [reflexivity|]. cbn [map max_end fold_right].
  fold (max_end (map (note_shift k) r)). fold (max_end r).
  rewrite IH. destruct (note_shift_times k n) as (_ & -> & _). reflexivity.
Qed.

(** The property statement for a successful call. *)
Theorem transpose_ns_ok s k lo hi tc r deleted :
  transpose_ns s k lo hi tc = Some (r, deleted) ->
  (* notes: exactly the survivors, each shifted, in order *)
  s_notes r = map (note_shift k) (filter (note_keep k lo hi) (s_notes s)) /\
  s_notes r = filter (note_in_range lo hi) (map (note_shift k) (s_notes s)) /\
  (* the count of deleted notes *)
  deleted = Z.of_nat (length (s_notes s)) - Z.of_nat (length (s_notes r)) /\
  deleted = Z.of_nat (length (filter (note_gone k lo hi) (s_notes s))) /\
  (* keys *)
  s_ksigs r = map (ksig_transposed k) (s_ksigs s) /\
  (* everything else is untouched *)
  s_tempos r = s_tempos s /\ s_tsigs r = s_tsigs s /\ s_ccs r = s_ccs s /\ s_bends r = s_bends s /\
  s_sects r = s_sects s /\ s_qsteps r = s_qsteps s /\ s_spq r = s_spq s /\ s_sps r = s_sps s /\
  s_sub r = s_sub s /\ s_tpq r = s_tpq s /\ s_rest r = s_rest s /\
  (* total_time is the latest end among the returned notes (0 if none) *)
  s_total r = max_end (s_notes r) /\ (forall n, In n (s_notes r) -> n_end n <= s_total r) /\
  (* annotations *)
  (if tc then map_opt (text_transposed k) (s_texts s) = Some (s_texts r)
   else s_texts r = texts_without_chords (s_texts s)).
Proof.
  rewrite transpose_ns_spec. unfold transpose_ns_decl.
  destruct (if tc then map_opt (text_transposed k) (s_texts s) else Some (texts_without_chords (s_texts s)))
    as [txs|] eqn:Et; [|discriminate].
  intros H. inversion H; subst; clear H. cbn [s_notes s_ksigs s_tempos s_tsigs s_ccs s_bends s_sects s_qsteps s_spq
    s_sps s_sub s_tpq s_rest s_total s_texts].
  rewrite map_length, max_end_shift.
  repeat split; try reflexivity.
  - apply shift_filter_commute.
  - apply deleted_count.
  - intros n Hn. rewrite <- (max_end_shift k). apply max_end_covers. exact Hn.
  - destruct tc; [exact Et|]. inversion Et. reflexivity.
Qed.

(* if the input's total_time covered its notes, the output's is not larger *)
Theorem transpose_ns_total_le s k lo hi tc r deleted :
  transpose_ns s k lo hi tc = Some (r, deleted) ->
  0 <= s_total s -> (forall n, In n (s_notes s) -> n_end n <= s_total s) ->
  0 <= s_total r <= s_total s.
Proof.
  intros H Hp Hc. destruct (transpose_ns_ok _ _ _ _ _ _ _ H) as (Hn & _ & _ & _ & _ & _ & _ & _ & _ & _ & _ & _ & _ & _ & _ & _ & Ht & _).
  rewrite Ht, Hn, max_end_shift. split; [apply max_end_nonneg|].
  apply max_end_bound; [exact Hp|]. intros n Hin. apply Hc. apply filter_In in Hin. tauto.
Qed.

(* annotations when transpose_chords = True *)
Definition text_related (k : Z) (t t' : text) : Prop :=
  tx_time t' = tx_time t /\ tx_qstep t' = tx_qstep t /\ tx_type t' = tx_type t /\
  if tx_type t =? CHORD_SYMBOL then figure_related k (tx_text t) (tx_text t') else tx_text t' = tx_text t.

Lemma text_transposed_related k t t' : text_transposed k t = Some t' -> text_related k t t'.
Proof.
  unfold text_transposed, text_related.
  destruct (tx_type t =? CHORD_SYMBOL) eqn:Ety; cbn [andb].
  - unfold figure_related. destruct (is_no_chord (tx_text t)) eqn:En; cbn [negb].
    + intros H. inversion H; subst. auto.
    + pose proof (transpose_figure_spec (tx_text t) k) as S.
      destruct (chord_of_code (tx_text t)) as [c|] eqn:Ec.
      * destruct S as (c' & H1 & H2 & H3). rewrite H2. intros H. inversion H; subst. cbn. eauto 10.
      * rewrite S. discriminate.
  - intros H. inversion H; subst. auto.
Qed.

Theorem transpose_ns_texts s k lo hi r deleted :
  transpose_ns s k lo hi true = Some (r, deleted) -> Forall2 (text_related k) (s_texts s) (s_texts r).
Proof.
  intros H. destruct (transpose_ns_ok _ _ _ _ _ _ _ H) as (_ & _ & _ & _ & _ & _ & _ & _ & _ & _ & _ & _ & _ & _ & _ & _ & _ & _ & Ht).
  revert Ht. apply map_opt_Forall2. apply text_transposed_related.
Qed.

(* the call raises ChordSymbolError exactly when chords are transposed and some chord annotation
   other than NO_CHORD is not a figure of the grammar *)
Theorem transpose_ns_error s k lo hi tc :
  transpose_ns s k lo hi tc = None <->
  tc = true /\ exists t, In t (s_texts s) /\ tx_type t = CHORD_SYMBOL /\ is_no_chord (tx_text t) = false /\
                         chord_of_code (tx_text t) = None.
Proof.
  rewrite transpose_ns_spec. unfold transpose_ns_decl. destruct tc.
  - destruct (map_opt (text_transposed k) (s_texts s)) as [txs|] eqn:E.
    + split; [discriminate|]. intros (_ & t & Hin & Hty & Hn & Hc).
      assert (map_opt (text_transposed k) (s_texts s) = None) as E2.
      { apply map_opt_none. exists t. split; [exact Hin|]. unfold text_transposed.
        rewrite Hty, Z.eqb_refl, Hn. cbn [andb negb].
        pose proof (transpose_figure_spec (tx_text t) k) as S. rewrite Hc in S. rewrite S. reflexivity. }
      congruence.
    + split; [|reflexivity]. intros _. split; [reflexivity|].
      apply map_opt_none in E. destruct E as (t & Hin & Hf). exists t. split; [exact Hin|].
      unfold text_transposed in Hf.
      destruct (tx_type t =? CHORD_SYMBOL) eqn:Ety; cbn [andb] in Hf; [|discriminate].
      destruct (is_no_chord (tx_text t)) eqn:En; cbn [negb] in Hf; [discriminate|].
      split; [lia|]. split; [reflexivity|].
      pose proof (transpose_figure_spec (tx_text t) k) as S.
      destruct (chord_of_code (tx_text t)); [|reflexivity].
      destruct S as (c' & _ & H2 & _). rewrite H2 in Hf. discriminate.
  - split; [discriminate|]. intros [H _]. discriminate.
Qed.

(* keys *)
Lemma ksig_transposed_spec k s :
  ks_key (ksig_transposed k s) = (ks_key s + k) mod 12 /\ ks_time (ksig_transposed k s) = ks_time s /\
  ks_mode (ksig_transposed k s) = ks_mode s /\ 0 <= ks_key (ksig_transposed k s) < 12.
Proof. cbn. repeat split; try apply Z.mod_pos_bound; lia. Qed.

(** * _clamp_transpose *)
Theorem clamp_safe amount ns_min ns_max lo hi :
  lo <= ns_min -> ns_min <= ns_max -> ns_max <= hi ->
  let r := clamp_transpose amount ns_min ns_max lo hi in
  lo <= ns_min + r /\ ns_max + r <= hi /\ Z.min 0 amount <= r <= Z.max 0 amount /\
  (lo <= ns_min + amount -> ns_max + amount <= hi -> r = amount).
Proof. unfold clamp_transpose. intros. destruct (amount <? 0) eqn:E; lia. Qed.

Lemma clamp_monotone a b ns_min ns_max lo hi :
  lo <= ns_min -> ns_max <= hi -> a <= b ->
  clamp_transpose a ns_min ns_max lo hi <= clamp_transpose b ns_min ns_max lo hi.
Proof. unfold clamp_transpose. intros. destruct (a <? 0) eqn:E1, (b <? 0) eqn:E2; lia. Qed.

Lemma filter_all {A} (f : A -> bool) l : (forall x, In x l -> f x = true) -> filter f l = l.
Proof.
  induction l as [|x r IH]; [reflexivity|]. intros H. cbn [filter].
  rewrite (H x) by (left; reflexivity). rewrite IH; [reflexivity|]. intros; apply H; right; assumption.
Qed.

(* transposing by the clamped amount deletes nothing *)
Theorem clamp_no_delete s amount ns_min ns_max lo hi tc r deleted :
  lo <= ns_min -> ns_max <= hi ->
  (forall n, In n (s_notes s) -> n_drum n = false -> ns_min <= n_pitch n <= ns_max) ->
  transpose_ns s (clamp_transpose amount ns_min ns_max lo hi) lo hi tc = Some (r, deleted) ->
  deleted = 0 /\ length (s_notes r) = length (s_notes s) /\
  forall n, In n (s_notes r) -> n_drum n = false -> lo <= n_pitch n <= hi.
Proof.
  intros Hlo Hhi Hall H.
  destruct (transpose_ns_ok _ _ _ _ _ _ _ H) as (Hn & Hn2 & Hd & _).
  set (k := clamp_transpose amount ns_min ns_max lo hi) in *.
  assert (filter (note_keep k lo hi) (s_notes s) = s_notes s) as Hf.
  { apply filter_all. intros n Hin. unfold note_keep. destruct (n_drum n) eqn:Ed; [reflexivity|].
    specialize (Hall n Hin Ed). cbn [orb].
    destruct (Z_le_gt_dec ns_min ns_max) as [Hle|Hgt]; [|lia].
    pose proof (clamp_safe amount ns_min ns_max lo hi Hlo Hle Hhi) as Hc. cbn zeta in Hc. fold k in Hc. lia. }
  rewrite Hf in Hn. split; [|split].
  - rewrite Hd, Hn, map_length. lia.
  - rewrite Hn, map_length. reflexivity.
  - intros n Hin Hdr. rewrite Hn2 in Hin. apply filter_In in Hin. destruct Hin as [_ Hr].
    unfold note_in_range in Hr. rewrite Hdr in Hr. cbn [orb] in Hr. lia.
Qed.

(** * Melody.transpose *)
Ltac mel_unfold := unfold mel_event, MIN_MIDI_PITCH, NOTES_PER_OCTAVE in *.

(* special events (negative) are untouched, whatever the arguments *)
Lemma mel_event_special k lo hi e : e < 0 -> mel_event k lo hi e = e.
Proof. mel_unfold. intros H. destruct (0 <=? e) eqn:E; [lia|reflexivity]. Qed.

(* a pitch lands in [lo, hi) with pitch class (e + k) mod 12 whenever the range spans an octave;
   if e + k is already in the range it is returned as is *)
Lemma mel_event_fold k lo hi e : 0 <= e -> hi - lo >= 12 ->
  lo <= mel_event k lo hi e < hi /\ (mel_event k lo hi e) mod 12 = (e + k) mod 12 /\
  (lo <= e + k < hi -> mel_event k lo hi e = e + k).
Proof.
  mel_unfold. intros He Hr.
  destruct (0 <=? e) eqn:E0; [|lia].
  destruct (e + k <? lo) eqn:E1; [|destruct (hi <=? e + k) eqn:E2]; repeat split; lia.
Qed.

(* the pitch class is (e + k) mod 12 even when the range is too narrow to hold the result *)
Lemma mel_event_pc k lo hi e : 0 <= e -> (mel_event k lo hi e) mod 12 = (e + k) mod 12.
Proof.
  mel_unfold. intros He. destruct (0 <=? e) eqn:E0; [|lia].
  destruct (e + k <? lo) eqn:E1; [|destruct (hi <=? e + k) eqn:E2]; lia.
Qed.

Definition mel_related (k lo hi b e : Z) : Prop :=
  (b < 0 -> e = b) /\
  (0 <= b -> e mod 12 = (b + k) mod 12 /\ (lo <= b + k < hi -> e = b + k) /\ (hi - lo >= 12 -> lo <= e < hi)).

Lemma Forall2_map_r {A B} (R : A -> B -> Prop) (f : A -> B) l : (forall x, R x (f x)) -> Forall2 R l (map f l).
Proof. intros H. induction l; cbn; constructor; auto. Qed.

(** melody_transpose_fold *)
Theorem melody_transpose_fold k lo hi evs :
  length (mel_transpose k lo hi evs) = length evs /\
  Forall2 (mel_related k lo hi) evs (mel_transpose k lo hi evs).
Proof.
  unfold mel_transpose. split; [apply map_length|]. apply Forall2_map_r. intros b. unfold mel_related. split.
  - apply mel_event_special.
  - intros Hb. split; [apply mel_event_pc; exact Hb|]. split.
    + intros Hr. mel_unfold. destruct (0 <=? b) eqn:E0; [|lia].
      destruct (b + k <? lo) eqn:E1; [lia|]. destruct (hi <=? b + k) eqn:E2; [lia|]. reflexivity.
    + intros Hr. apply mel_event_fold; assumption.
Qed.

(* k then -k, and +12, are the identity on pitch classes, and notes stay notes *)
Theorem melody_roundtrip k lo hi evs :
  0 <= lo -> hi - lo >= 12 ->
  Forall2 (fun b e => (b < 0 -> e = b) /\ (0 <= b -> 0 <= e /\ e mod 12 = b mod 12 /\ lo <= e < hi))
          evs (mel_transpose (- k) lo hi (mel_transpose k lo hi evs)).
Proof.
  intros Hlo Hr. unfold mel_transpose. rewrite map_map. apply Forall2_map_r. intros b. split.
  - intros Hb. rewrite !mel_event_special; [reflexivity|lia|].
    rewrite mel_event_special by lia. lia.
  - intros Hb. destruct (mel_event_fold k lo hi b Hb Hr) as (H1 & H2 & _).
    assert (0 <= mel_event k lo hi b) as H0 by lia.
    destruct (mel_event_fold (- k) lo hi _ H0 Hr) as (H3 & H4 & _).
    split; [lia|]. split; [|exact H3]. rewrite H4. lia.
Qed.

Theorem melody_octave lo hi evs :
  hi - lo >= 12 ->
  Forall2 (fun b e => (b < 0 -> e = b) /\ (0 <= b -> e mod 12 = b mod 12 /\ lo <= e < hi))
          evs (mel_transpose 12 lo hi evs).
Proof.
  intros Hr. unfold mel_transpose. apply Forall2_map_r. intros b. split.
  - apply mel_event_special.
  - intros Hb. destruct (mel_event_fold 12 lo hi b Hb Hr) as (H1 & H2 & _). split; [rewrite H2; lia|exact H1].
Qed.

(* with a negative min_note a folded pitch can collide with the special events *)
Example melody_negative_min_collides : mel_transpose (-62) (-2) 12 [60] = [MELODY_NO_EVENT].
Proof. reflexivity. Qed.

(** * Melody.squash *)
Lemma argmax_from_range l : forall i bi b, 0 <= bi < i -> 0 <= argmax_from l i bi b < i + Z.of_nat (length l).
Proof.
  induction l as [|x r IH]; cbn [argmax_from length]; intros i bi b H; [lia|].
  destruct (b <? x); [specialize (IH (i + 1) i x)|specialize (IH (i + 1) bi b)]; lia.
Qed.

Lemma major_key_range evs : 0 <= major_key evs < 12.
Proof.
  unfold major_key, key_histogram, iota12. cbn [map argmax].
  match goal with |- context [argmax_from ?l 1 0 ?x] => pose proof (argmax_from_range l 1 0 x) as H; cbn [length] in H end.
  lia.
Qed.

(** squash transposes by an amount congruent to the key difference (the octave is
    chosen by the centre heuristic) and then folds exactly like Melody.transpose;
    a melody without notes is left alone and 0 is returned. *)
Theorem squash_spec lo hi key evs :
  let has_notes := existsb (fun e => (MIN_MIDI_PITCH <=? e) && (e <=? MAX_MIDI_PITCH)) evs in
  let '(amount, evs') := mel_squash lo hi key evs in
  match key with
  | None => amount = 0 /\ evs' = mel_transpose 0 lo hi evs
  | Some to_key =>
      if has_notes
      then evs' = mel_transpose amount lo hi evs /\ (amount - (to_key - major_key evs)) mod 12 = 0
      else amount = 0 /\ evs' = evs
  end.
Proof.
  cbn zeta. unfold mel_squash. destruct key as [to_key|]; [|split; reflexivity].
  set (p := fun e0 : Z => (MIN_MIDI_PITCH <=? e0) && (e0 <=? MAX_MIDI_PITCH)).
  destruct (filter p evs) as [|x f] eqn:Ef.
  - assert (existsb p evs = false) as ->.
    { destruct (existsb p evs) eqn:Ex; [|reflexivity]. apply existsb_exists in Ex. destruct Ex as (y & Hy & Hp).
      assert (In y (filter p evs)) as Hin by (apply filter_In; auto). rewrite Ef in Hin. destruct Hin. }
    split; reflexivity.
  - assert (existsb p evs = true) as ->.
    { apply existsb_exists. exists x. assert (In x (filter p evs)) as Hin by (rewrite Ef; left; reflexivity).
      apply filter_In in Hin. exact Hin. }
    split; [reflexivity|]. unfold NOTES_PER_OCTAVE. lia.
Qed.

Lemma round_half_even_spec n d : 0 < d ->
  let r := round_half_even n d in 2 * Z.abs (n - r * d) <= d.
Proof.
  intros Hd. unfold round_half_even. cbn zeta.
  destruct (2 * (n mod d) <? d) eqn:E1; [|destruct (d <? 2 * (n mod d)) eqn:E2; [|destruct (Z.even (n / d))]];
    pose proof (Z.div_mod n d ltac:(lia)); pose proof (Z.mod_pos_bound n d Hd); nia.
Qed.

(** * LeadSheet *)
Theorem ls_transpose_spec k lo hi mel chords :
  match ls_transpose k lo hi mel chords with
  | Some (mel', cs) =>
      mel' = mel_transpose k lo hi mel /\ Forall2 (mel_related k lo hi) mel mel' /\
      Forall2 (figure_related k) chords cs
  | None => exists t, In t chords /\ is_no_chord t = false /\ chord_of_code t = None
  end.
Proof.
  unfold ls_transpose. destruct (prog_transpose k chords) as [cs|] eqn:E.
  - split; [reflexivity|]. split; [apply melody_transpose_fold|]. apply prog_transpose_related. exact E.
  - apply prog_transpose_error in E. exact E.
Qed.

(* melody and chords are moved by the same amount, which squash returns *)
Theorem ls_squash_spec lo hi key mel chords :
  match ls_squash lo hi key mel chords with
  | Some (amount, mel', cs) =>
      (amount, mel') = mel_squash lo hi (Some key) mel /\ Forall2 (figure_related amount) chords cs
  | None => exists t, In t chords /\ is_no_chord t = false /\ chord_of_code t = None
  end.
Proof.
  unfold ls_squash. destruct (mel_squash lo hi (Some key) mel) as [amount mel'].
  destruct (prog_transpose amount chords) as [cs|] eqn:E.
  - split; [reflexivity|]. apply prog_transpose_related. exact E.
  - apply prog_transpose_error in E. exact E.
Qed.

(** * Extensions *)

(* squash centres the melody: before folding, the transposed melody's centre is within half an
   octave of the target centre (centres doubled: 2 * 6 semitones = 12) *)
Theorem squash_centered lo hi to_key evs x rest :
  filter (fun e => (MIN_MIDI_PITCH <=? e) && (e <=? MAX_MIDI_PITCH)) evs = x :: rest ->
  let amount := fst (mel_squash lo hi (Some to_key) evs) in
  let melody_center2 := zmin_list x rest + zmax_list x rest in
  Z.abs ((lo + hi - 1) - (melody_center2 + 2 * amount)) <= 12.
Proof.
  intros Hf. unfold mel_squash. rewrite Hf. cbn [fst]. unfold NOTES_PER_OCTAVE.
  set (kd := to_key - major_key evs).
  set (cd2 := lo + hi - 1 - (zmin_list x rest + zmax_list x rest + 2 * kd)).
  pose proof (round_half_even_spec cd2 24 ltac:(lia)) as H. cbn zeta in H.
  change (2 * 12) with 24. lia.
Qed.

(* C11: a well-formed sequence stays well-formed *)
Lemma Forall_filter {A} (P : A -> Prop) f l : Forall P l -> Forall P (filter f l).
Proof.
  intros H. apply Forall_forall. intros x Hx. apply filter_In in Hx.
  rewrite Forall_forall in H. apply H. tauto.
Qed.

Lemma Forall2_Forall_r {A B} (R : A -> B -> Prop) (P : A -> Prop) (Q : B -> Prop) l l' :
  (forall x y, R x y -> P x -> Q y) -> Forall2 R l l' -> Forall P l -> Forall Q l'.
Proof.
  intros H F. induction F; intros Hl; constructor; inversion Hl; subst; eauto.
Qed.

Theorem transpose_ns_wf s k lo hi tc r deleted :
  seq_wf s -> transpose_ns s k lo hi tc = Some (r, deleted) -> seq_wf r.
Proof.
  intros (Wn & Wt & Wts & Wk & Wx & Wc & Wb & Ws) H.
  destruct (transpose_ns_ok _ _ _ _ _ _ _ H)
    as (Hn & _ & _ & _ & Hk & Hte & Hts & Hc & Hb & Hs & _ & _ & _ & _ & _ & _ & Htot & Hcov & Htx).
  unfold seq_wf. rewrite Hte, Hts, Hc, Hb, Hs, Hk. repeat split; try assumption.
  - apply Forall_forall. intros n Hin. pose proof (Hcov n Hin) as Hend.
    rewrite Hn in Hin. apply in_map_iff in Hin. destruct Hin as (m & <- & Hm). apply filter_In in Hm.
    rewrite Forall_forall in Wn. destruct (Wn m (proj1 Hm)) as (W1 & W2 & _).
    destruct (note_shift_times k m) as (E1 & E2 & _).
    unfold note_wf. rewrite E1, E2 in *. repeat split; assumption.
  - apply Forall_forall. intros x Hx. apply in_map_iff in Hx. destruct Hx as (y & <- & Hy).
    rewrite Forall_forall in Wk. cbn. apply Wk. exact Hy.
  - destruct tc.
    + pose proof (map_opt_Forall2 _ _ (text_transposed_related k) _ _ Htx) as F2.
      revert Wx. apply (Forall2_Forall_r _ _ _ _ _ (fun x y (R : text_related k x y) (P : 0 <= tx_time x) =>
        eq_ind_r (fun t => 0 <= t) P (proj1 R)) F2).
    + rewrite Htx. apply Forall_filter. exact Wx.
Qed.
