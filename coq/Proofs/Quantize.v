(** Proofs/Quantize.v — sequence layer of C01: what _quantize_notes,
    quantize_note_sequence_absolute and quantize_note_sequence write, what they
    leave alone, and what they reject.  Everything here holds for EVERY step
    function [q] (so it is independent of floating point); the float layer is
    in Proofs/QuantizeFloat.v. *)
From Coq Require Import ZArith List Bool Lia ZifyBool.
From NS Require Import Base.Sx Base.NoteSeq Base.FloatBridge Gen.G01 Model.Quantize.
Import ListNotations.
Local Open Scope Z_scope.

(** * Declarative specification of the three loops *)

Definition qend (q : Z -> Z) (n : note) : Z :=
  if q (n_end n) =? q (n_start n) then q (n_end n) + 1 else q (n_end n).
Definition qnote (q : Z -> Z) (n : note) : note := note_with_qsteps n (q (n_start n)) (qend q n).
Definition note_neg (q : Z -> Z) (n : note) : bool := (q (n_start n) <? 0) || (qend q n <? 0).
Definition qcc (q : Z -> Z) (c : cc) : cc := cc_with_qstep c (q (cc_time c)).
Definition qtext (q : Z -> Z) (t : text) : text := text_with_qstep t (q (tx_time t)).
Definition cc_neg (q : Z -> Z) (c : cc) : bool := q (cc_time c) <? 0.
Definition text_neg (q : Z -> Z) (t : text) : bool := q (tx_time t) <? 0.

(** running maximum of the quantized note ends, starting from [t0] *)
Definition max_end (q : Z -> Z) (ns : list note) (t0 : Z) : Z :=
  fold_left (fun t n => Z.max t (qend q n)) ns t0.

Definition seq_neg (q : Z -> Z) (s : seq) : bool :=
  existsb (note_neg q) (s_notes s) || existsb (cc_neg q) (s_ccs s) || existsb (text_neg q) (s_texts s).

(** the sequence _quantize_notes leaves behind when it does not raise *)
Definition quantized (q : Z -> Z) (s : seq) : seq :=
  mkSeq (map (qnote q) (s_notes s)) (s_tempos s) (s_tsigs s) (s_ksigs s)
        (map (qtext q) (s_texts s)) (map (qcc q) (s_ccs s)) (s_bends s) (s_sects s)
        (s_total s) (max_end q (s_notes s) (s_qsteps s)) (s_spq s) (s_sps s) (s_sub s) (s_tpq s) (s_rest s).

Lemma max_end_cons q n r t : max_end q (n :: r) t = max_end q r (Z.max t (qend q n)).
Proof. reflexivity. Qed.

Lemma qnotes_loop_spec q ns : forall t,
  qnotes_loop q ns t =
  if existsb (note_neg q) ns then None else Some (map (qnote q) ns, max_end q ns t).
Proof.
  induction ns as [|n r IH]; intros t; [reflexivity|].
  rewrite max_end_cons. cbn [qnotes_loop existsb map].
  unfold note_neg at 1, qend at 1.
  destruct (q (n_end n) =? q (n_start n)) eqn:E.
  - destruct ((q (n_start n) <? 0) || (q (n_end n) + 1 <? 0)) eqn:N; cbn [orb]; [reflexivity|].
    rewrite IH.
    replace (if q (n_end n) + 1 >? t then q (n_end n) + 1 else t) with (Z.max t (qend q n))
      by (unfold qend; rewrite E; destruct (q (n_end n) + 1 >? t) eqn:?; lia).
    destruct (existsb (note_neg q) r); [reflexivity|].
    unfold qnote at 2, qend at 2. rewrite E. reflexivity.
  - destruct ((q (n_start n) <? 0) || (q (n_end n) <? 0)) eqn:N; cbn [orb]; [reflexivity|].
    rewrite IH.
    replace (if q (n_end n) >? t then q (n_end n) else t) with (Z.max t (qend q n))
      by (unfold qend; rewrite E; destruct (q (n_end n) >? t) eqn:?; lia).
    destruct (existsb (note_neg q) r); [reflexivity|].
    unfold qnote at 2, qend at 2. rewrite E. reflexivity.
Qed.

Lemma qccs_loop_spec q l :
  qccs_loop q l = if existsb (cc_neg q) l then None else Some (map (qcc q) l).
Proof.
  induction l as [|c r IH]; cbn [qccs_loop existsb map]; [reflexivity|].
  unfold cc_neg at 1. destruct (q (cc_time c) <? 0); cbn [orb]; [reflexivity|].
  rewrite IH. destruct (existsb (cc_neg q) r); reflexivity.
Qed.

Lemma qtexts_loop_spec q l :
  qtexts_loop q l = if existsb (text_neg q) l then None else Some (map (qtext q) l).
Proof.
  induction l as [|c r IH]; cbn [qtexts_loop existsb map]; [reflexivity|].
  unfold text_neg at 1. destruct (q (tx_time c) <? 0); cbn [orb]; [reflexivity|].
  rewrite IH. destruct (existsb (text_neg q) r); reflexivity.
Qed.

(** _quantize_notes: complete functional specification *)
Theorem quantize_notes_eq q s :
  quantize_notes q s = if seq_neg q s then Err NegativeTime else Ok (quantized q s).
Proof.
  unfold quantize_notes, seq_neg, quantized.
  rewrite qnotes_loop_spec, qccs_loop_spec, qtexts_loop_spec.
  destruct (existsb (note_neg q) (s_notes s)); cbn [orb]; [reflexivity|].
  destruct (existsb (cc_neg q) (s_ccs s)); cbn [orb]; [reflexivity|].
  destruct (existsb (text_neg q) (s_texts s)); reflexivity.
Qed.

(** * The running maximum *)
Lemma max_end_lb q ns : forall t, t <= max_end q ns t.
Proof.
  induction ns as [|n r IH]; intros t; [cbn; lia|].
  rewrite max_end_cons. specialize (IH (Z.max t (qend q n))). lia.
Qed.

Lemma max_end_ge q ns : forall t n, In n ns -> qend q n <= max_end q ns t.
Proof.
  induction ns as [|m r IH]; intros t n H; [destruct H|].
  rewrite max_end_cons. destruct H as [->|H].
  - pose proof (max_end_lb q r (Z.max t (qend q n))). lia.
  - apply IH, H.
Qed.

Lemma max_end_attained q ns : forall t,
  max_end q ns t = t \/ exists n, In n ns /\ max_end q ns t = qend q n.
Proof.
  induction ns as [|m r IH]; intros t; [left; reflexivity|].
  rewrite max_end_cons. destruct (IH (Z.max t (qend q m))) as [E|(n & Hn & E)].
  - destruct (Z.max_spec t (qend q m)) as [[_ M]|[_ M]].
    + right. exists m. split; [left; reflexivity|]. rewrite E. exact M.
    + left. rewrite E. exact M.
  - right. exists n. split; [right; exact Hn|exact E].
Qed.

(** every note at least one step long, given that its end does not quantize before its start *)
Lemma qend_min_length q n : q (n_start n) <= q (n_end n) -> q (n_start n) + 1 <= qend q n.
Proof. unfold qend. destruct (q (n_end n) =? q (n_start n)) eqn:?; lia. Qed.

Lemma qend_cases q n :
  (q (n_end n) = q (n_start n) /\ qend q n = q (n_start n) + 1) \/
  (q (n_end n) <> q (n_start n) /\ qend q n = q (n_end n)).
Proof. unfold qend. destruct (q (n_end n) =? q (n_start n)) eqn:?; [left|right]; lia. Qed.

(** frame for one note / event: only the quantized fields are written *)
Lemma qnote_frame q n :
  let n' := qnote q n in
  n_pitch n' = n_pitch n /\ n_vel n' = n_vel n /\ n_start n' = n_start n /\ n_end n' = n_end n /\
  n_instr n' = n_instr n /\ n_prog n' = n_prog n /\ n_drum n' = n_drum n /\ n_rest n' = n_rest n /\
  n_qstart n' = q (n_start n) /\ n_qend n' = qend q n.
Proof. cbn. repeat split; reflexivity. Qed.

Lemma qcc_frame q c :
  let c' := qcc q c in
  cc_time c' = cc_time c /\ cc_num c' = cc_num c /\ cc_val c' = cc_val c /\ cc_instr c' = cc_instr c /\
  cc_prog c' = cc_prog c /\ cc_drum c' = cc_drum c /\ cc_qstep c' = q (cc_time c).
Proof. cbn. repeat split; reflexivity. Qed.

Lemma qtext_frame q t :
  let t' := qtext q t in
  tx_time t' = tx_time t /\ tx_text t' = tx_text t /\ tx_type t' = tx_type t /\ tx_qstep t' = q (tx_time t).
Proof. cbn. repeat split; reflexivity. Qed.

(** * Absolute quantization *)
Definition abs_q (sps : Z) : Z -> Z := qstep (sps_abs sps).

Theorem quantize_abs_eq sps s :
  quantize_abs sps s =
  if seq_neg (abs_q sps) s then Err NegativeTime
  else Ok (quantized (abs_q sps) (with_quant s 0 sps (abs_q sps (s_total s)))).
Proof. unfold quantize_abs. rewrite quantize_notes_eq. reflexivity. Qed.

(** the shape of every successful result, for any step function and any (spq, sps, tempos, tsigs) written *)
Definition result_of (q : Z -> Z) (spq sps : Z) (tps : list tempo) (tss : list tsig) (s : seq) : seq :=
  mkSeq (map (qnote q) (s_notes s)) tps tss (s_ksigs s)
        (map (qtext q) (s_texts s)) (map (qcc q) (s_ccs s)) (s_bends s) (s_sects s)
        (s_total s) (max_end q (s_notes s) (q (s_total s))) spq sps (s_sub s) (s_tpq s) (s_rest s).

Theorem quantize_abs_ok sps s s' :
  quantize_abs sps s = Ok s' ->
  seq_neg (abs_q sps) s = false /\
  s' = result_of (abs_q sps) 0 sps (s_tempos s) (s_tsigs s) s.
Proof.
  rewrite quantize_abs_eq. destruct (seq_neg (abs_q sps) s); [discriminate|].
  intros H. injection H as <-. split; reflexivity.
Qed.

Theorem quantize_abs_err sps s e :
  quantize_abs sps s = Err e -> e = NegativeTime /\ seq_neg (abs_q sps) s = true.
Proof.
  rewrite quantize_abs_eq. destruct (seq_neg (abs_q sps) s); [|discriminate].
  intros H. injection H as <-. split; reflexivity.
Qed.

(** total_quantized_steps covers the quantized total_time and every note end, and is one of them *)
Theorem result_total_covers q spq sps tps tss s :
  let s' := result_of q spq sps tps tss s in
  q (s_total s) <= s_qsteps s' /\
  (forall n', In n' (s_notes s') -> n_qend n' <= s_qsteps s') /\
  (s_qsteps s' = q (s_total s) \/ exists n', In n' (s_notes s') /\ s_qsteps s' = n_qend n').
Proof.
  cbn. split; [apply max_end_lb|]. split.
  - intros n' H. apply in_map_iff in H. destruct H as (n & <- & Hn). cbn. apply max_end_ge, Hn.
  - destruct (max_end_attained q (s_notes s) (q (s_total s))) as [E|(n & Hn & E)]; [left; exact E|].
    right. exists (qnote q n). split; [apply in_map, Hn|exact E].
Qed.

(** which inputs are rejected by the note/event pass: exactly those with a negative step *)
Lemma seq_neg_true_iff q s :
  seq_neg q s = true <->
  (exists n, In n (s_notes s) /\ (q (n_start n) < 0 \/ qend q n < 0)) \/
  (exists c, In c (s_ccs s) /\ q (cc_time c) < 0) \/
  (exists t, In t (s_texts s) /\ q (tx_time t) < 0).
Proof.
  unfold seq_neg. rewrite !orb_true_iff, !existsb_exists. unfold note_neg, cc_neg, text_neg.
  split.
  - intros [[(n & Hn & H)|(c & Hc & H)]|(t & Ht & H)].
    + left. exists n. split; [exact Hn|]. apply orb_true_iff in H. destruct H as [H|H]; lia.
    + right; left. exists c. split; [exact Hc|lia].
    + right; right. exists t. split; [exact Ht|lia].
  - intros [(n & Hn & H)|[(c & Hc & H)|(t & Ht & H)]].
    + left; left. exists n. split; [exact Hn|]. apply orb_true_iff. destruct H; [left|right]; lia.
    + left; right. exists c. split; [exact Hc|lia].
    + right. exists t. split; [exact Ht|lia].
Qed.

(** a negative quantized end forces a negative quantized start or end time *)
Lemma qend_neg q n : qend q n < 0 -> q (n_end n) < 0.
Proof. unfold qend. destruct (q (n_end n) =? q (n_start n)) eqn:?; lia. Qed.

(** * Stable sort by time *)
Lemma insert_before_In {A} (key : A -> Z) x l y :
  In y (insert_before key x l) <-> y = x \/ In y l.
Proof.
  induction l as [|z r IH]; cbn [insert_before In]; [intuition|].
  destruct (key x <=? key z); cbn [In]; [intuition|]. rewrite IH. intuition.
Qed.

Lemma sort_by_In {A} (key : A -> Z) l y : In y (sort_by key l) <-> In y l.
Proof.
  induction l as [|x r IH]; cbn [sort_by In]; [tauto|].
  rewrite insert_before_In, IH. intuition.
Qed.

Lemma sort_by_length {A} (key : A -> Z) l : length (sort_by key l) = length l.
Proof.
  induction l as [|x r IH]; [reflexivity|]. cbn [sort_by length]. rewrite <- IH.
  generalize (sort_by key r). intros m. induction m as [|z m IHm]; cbn [insert_before length]; [reflexivity|].
  destruct (key x <=? key z); cbn [length]; [reflexivity|]. rewrite IHm. reflexivity.
Qed.

(** the head of the sorted list has the minimal key *)
Lemma sort_by_hd_min {A} (key : A -> Z) l f r :
  sort_by key l = f :: r -> forall y, In y l -> key f <= key y.
Proof.
  revert f r. induction l as [|x l' IH]; intros f r E y Hy; [destruct Hy|].
  cbn [sort_by] in E. destruct (sort_by key l') as [|f' r'] eqn:S.
  - cbn in E. injection E as <- <-. assert (l' = []) as ->.
    { pose proof (sort_by_length key l') as L. rewrite S in L. destruct l'; [reflexivity|discriminate]. }
    destruct Hy as [->|[]]. lia.
  - cbn [insert_before] in E. specialize (IH f' r' eq_refl).
    destruct (key x <=? key f') eqn:C.
    + injection E as <- <-. destruct Hy as [->|Hy]; [lia|]. specialize (IH y Hy). lia.
    + injection E as <- _. destruct Hy as [->|Hy]; [lia|]. apply IH, Hy.
Qed.

Lemma sort_by_sorted {A} (key : A -> Z) l :
  forall i j, (i < j < length l)%nat -> forall d,
  key (nth i (sort_by key l) d) <= key (nth j (sort_by key l) d).
Proof.
  induction l as [|x l' IH]; intros i j H d; [cbn in H; lia|].
  cbn [sort_by]. rewrite <- (sort_by_length key l') in IH. cbn [length] in H.
  rewrite <- (sort_by_length key l') in H. revert IH i j H.
  generalize (sort_by key l'). intros m. induction m as [|z m IHm]; intros S i j H.
  - cbn in H. lia.
  - cbn [insert_before]. destruct (key x <=? key z) eqn:C.
    + destruct i as [|i]; destruct j as [|j]; try lia; cbn [nth].
      * destruct j as [|j]; cbn [nth]; [lia|].
        specialize (S 0%nat (Datatypes.S j) ltac:(cbn [length] in *; lia) d). cbn [nth] in S. lia.
      * apply (S i j). cbn [length] in *. lia.
    + destruct i as [|i]; destruct j as [|j]; try lia; cbn [nth].
      * (* z against something in insert_before x m *)
        assert (Hin : In (nth j (insert_before key x m) d) (insert_before key x m)).
        { apply nth_In. clear -H. cbn [length] in H.
          assert (L : length (insert_before key x m) = Datatypes.S (length m)).
          { clear. induction m as [|w m IHm]; cbn [insert_before length]; [reflexivity|].
            destruct (key x <=? key w); cbn [length]; [reflexivity|]. rewrite IHm. reflexivity. }
          lia. }
        apply insert_before_In in Hin. destruct Hin as [->|Hin]; [lia|].
        apply In_nth with (d := d) in Hin. destruct Hin as (k & Hk & <-).
        specialize (S 0%nat (Datatypes.S k) ltac:(cbn [length]; lia) d). cbn [nth] in S. exact S.
      * apply IHm.
        -- intros i' j' H' d'. specialize (S (Datatypes.S i') (Datatypes.S j') ltac:(cbn [length]; lia) d').
           cbn [nth] in S. exact S.
        -- cbn [length] in H. lia.
Qed.

(** * Time-signature and tempo validation (repaired code: [legacy = false]) *)

Lemma tsig_same_refl t : tsig_same t t = true.
Proof. unfold tsig_same. rewrite !Z.eqb_refl. reflexivity. Qed.
Lemma tsig_same_sym a b : tsig_same a b = tsig_same b a.
Proof. unfold tsig_same. rewrite (Z.eqb_sym (ts_num a)), (Z.eqb_sym (ts_den a)). reflexivity. Qed.
Lemma tsig_same_trans a b c : tsig_same a b = true -> tsig_same b c = true -> tsig_same a c = true.
Proof. unfold tsig_same. intros H1 H2. lia. Qed.
Lemma tsig_same_eq a b : tsig_same a b = true <-> ts_num a = ts_num b /\ ts_den a = ts_den b.
Proof. unfold tsig_same. lia. Qed.

Definition tsig_default (t : tsig) : bool := (ts_num t =? 4) && (ts_den t =? 4).

(** (a) any two stored time signatures with different values: rejected, in every storage order *)
Theorem check_tsigs_rejects_change tss t1 t2 :
  In t1 tss -> In t2 tss -> tsig_same t1 t2 = false ->
  check_tsigs false tss = Err MultipleTimeSig.
Proof.
  intros H1 H2 D. unfold check_tsigs. destruct tss as [|s0 r0] eqn:Etss; [destruct H1|]. rewrite <- Etss in *.
  destruct (sort_by ts_time tss) as [|f later] eqn:S.
  { pose proof (sort_by_length ts_time tss) as L. rewrite S, Etss in L. discriminate. }
  destruct (negb (ts_time f =? 0) && negb ((ts_num f =? 4) && (ts_den f =? 4))); [reflexivity|].
  destruct (forallb (fun t => tsig_same t f) later) eqn:F; [|reflexivity].
  exfalso. rewrite forallb_forall in F.
  assert (A : forall t, In t tss -> tsig_same t f = true).
  { intros t Ht. apply (sort_by_In ts_time) in Ht. rewrite S in Ht. destruct Ht as [<-|Ht].
    apply tsig_same_refl. apply F, Ht. }
  pose proof (A t1 H1) as A1. pose proof (A t2 H2) as A2.
  rewrite tsig_same_sym in A2. rewrite (tsig_same_trans _ _ _ A1 A2) in D. discriminate.
Qed.

(** (b) the time-first entry is not 4/4 and not at time 0: implicit change, rejected *)
Theorem check_tsigs_rejects_implicit tss t :
  In t tss -> (forall u, In u tss -> ts_time t <= ts_time u) ->
  ts_time t <> 0 -> tsig_default t = false ->
  check_tsigs false tss = Err MultipleTimeSig.
Proof.
  intros Ht Hmin Hz Hd.
  destruct (forallb (fun u => tsig_same u t) tss) eqn:All.
  2:{ (* some entry differs from t: rejected as a change *)
      assert (exists u, In u tss /\ tsig_same u t = false) as (u & Hu & D).
      { clear -All. induction tss as [|x r IH]; [discriminate|]. cbn [forallb] in All.
        destruct (tsig_same x t) eqn:E.
        - destruct (IH All) as (u & Hu & D). exists u. split; [right; exact Hu|exact D].
        - exists x. split; [left; reflexivity|exact E]. }
      apply (check_tsigs_rejects_change tss u t Hu Ht D). }
  rewrite forallb_forall in All.
  unfold check_tsigs. destruct tss as [|s0 r0] eqn:Etss; [destruct Ht|]. rewrite <- Etss in *.
  destruct (sort_by ts_time tss) as [|f later] eqn:S.
  { pose proof (sort_by_length ts_time tss) as L. rewrite S, Etss in L. discriminate. }
  assert (Hf : In f tss). { apply (sort_by_In ts_time). rewrite S. left. reflexivity. }
  pose proof (sort_by_hd_min ts_time tss f later S t Ht) as M1.
  pose proof (Hmin f Hf) as M2.
  pose proof (All f Hf) as Sf. apply tsig_same_eq in Sf. unfold tsig_default in Hd.
  replace (negb (ts_time f =? 0) && negb ((ts_num f =? 4) && (ts_den f =? 4))) with true; [reflexivity|].
  destruct Sf as [-> ->]. rewrite Hd. lia.
Qed.

(** (c) otherwise accepted: all entries have one value v, and the time-first entry is at 0 or v = 4/4;
    the result is the single entry v at time 0 *)
Theorem check_tsigs_accepts tss t :
  In t tss -> (forall u, In u tss -> ts_time t <= ts_time u) ->
  (forall u, In u tss -> tsig_same u t = true) ->
  ts_time t = 0 \/ tsig_default t = true ->
  check_tsigs false tss = Ok [mkTsig 0 (ts_num t) (ts_den t)].
Proof.
  intros Ht Hmin All Hok.
  unfold check_tsigs. destruct tss as [|s0 r0] eqn:Etss; [destruct Ht|]. rewrite <- Etss in *.
  assert (H0 : In s0 tss) by (rewrite Etss; left; reflexivity).
  destruct (sort_by ts_time tss) as [|f later] eqn:S.
  { pose proof (sort_by_length ts_time tss) as L. rewrite S, Etss in L. discriminate. }
  assert (Hf : In f tss). { apply (sort_by_In ts_time). rewrite S. left. reflexivity. }
  pose proof (sort_by_hd_min ts_time tss f later S t Ht) as M1.
  pose proof (Hmin f Hf) as M2.
  pose proof (All f Hf) as Sf. apply tsig_same_eq in Sf.
  pose proof (All s0 H0) as S0. apply tsig_same_eq in S0. unfold tsig_default in Hok.
  replace (negb (ts_time f =? 0) && negb ((ts_num f =? 4) && (ts_den f =? 4))) with false.
  2:{ destruct Sf as [-> ->]. destruct Hok as [Hok|Hok]; [|rewrite Hok]; lia. }
  replace (forallb (fun u => tsig_same u f) later) with true.
  2:{ symmetry. apply forallb_forall. intros u Hu.
      assert (In u tss) as Hu' by (apply (sort_by_In ts_time); rewrite S; right; exact Hu).
      apply tsig_same_trans with t; [apply All, Hu'|]. rewrite tsig_same_sym. apply All, Hf. }
  destruct S0 as [-> ->]. reflexivity.
Qed.

Theorem check_tsigs_empty legacy : check_tsigs legacy [] = Ok [mkTsig 0 4 4].
Proof. reflexivity. Qed.

(** the only error this block raises *)
Theorem check_tsigs_err legacy tss e : check_tsigs legacy tss = Err e -> e = MultipleTimeSig.
Proof.
  unfold check_tsigs. destruct tss as [|s0 r0]; [discriminate|].
  destruct (sort_by ts_time (s0 :: r0)) as [|f later]; [discriminate|].
  destruct (negb (ts_time f =? 0) && negb ((ts_num f =? 4) && (ts_den f =? 4))); [congruence|].
  destruct (forallb _ later); [discriminate|congruence].
Qed.

(** tempos: same three cases *)
Theorem check_tempos_rejects_change tps t1 t2 :
  In t1 tps -> In t2 tps -> tp_qpm t1 <> tp_qpm t2 ->
  check_tempos false tps = Err MultipleTempo.
Proof.
  intros H1 H2 D. unfold check_tempos. destruct tps as [|s0 r0] eqn:Etps; [destruct H1|]. rewrite <- Etps in *.
  destruct (sort_by tp_time tps) as [|f later] eqn:S.
  { pose proof (sort_by_length tp_time tps) as L. rewrite S, Etps in L. discriminate. }
  destruct (negb (tp_time f =? 0) && negb (tp_qpm f =? DEFAULT_QPM_CODE)); [reflexivity|].
  destruct (forallb (fun t => tp_qpm t =? tp_qpm f) later) eqn:F; [|reflexivity].
  exfalso. rewrite forallb_forall in F.
  assert (A : forall t, In t tps -> tp_qpm t = tp_qpm f).
  { intros t Ht. apply (sort_by_In tp_time) in Ht. rewrite S in Ht. destruct Ht as [<-|Ht]; [reflexivity|].
    specialize (F t Ht). lia. }
  rewrite (A t1 H1), (A t2 H2) in D. apply D. reflexivity.
Qed.

Theorem check_tempos_rejects_implicit tps t :
  In t tps -> (forall u, In u tps -> tp_time t <= tp_time u) ->
  tp_time t <> 0 -> tp_qpm t <> DEFAULT_QPM_CODE ->
  check_tempos false tps = Err MultipleTempo.
Proof.
  intros Ht Hmin Hz Hd.
  destruct (forallb (fun u => tp_qpm u =? tp_qpm t) tps) eqn:All.
  2:{ assert (exists u, In u tps /\ tp_qpm u <> tp_qpm t) as (u & Hu & D).
      { clear -All. induction tps as [|x r IH]; [discriminate|]. cbn [forallb] in All.
        destruct (tp_qpm x =? tp_qpm t) eqn:E.
        - destruct (IH All) as (u & Hu & D). exists u. split; [right; exact Hu|exact D].
        - exists x. split; [left; reflexivity|lia]. }
      apply (check_tempos_rejects_change tps u t Hu Ht D). }
  rewrite forallb_forall in All.
  unfold check_tempos. destruct tps as [|s0 r0] eqn:Etps; [destruct Ht|]. rewrite <- Etps in *.
  destruct (sort_by tp_time tps) as [|f later] eqn:S.
  { pose proof (sort_by_length tp_time tps) as L. rewrite S, Etps in L. discriminate. }
  assert (Hf : In f tps). { apply (sort_by_In tp_time). rewrite S. left. reflexivity. }
  pose proof (sort_by_hd_min tp_time tps f later S t Ht) as M1.
  pose proof (Hmin f Hf) as M2.
  pose proof (All f Hf) as Sf.
  replace (negb (tp_time f =? 0) && negb (tp_qpm f =? DEFAULT_QPM_CODE)) with true; [reflexivity|]. lia.
Qed.

Theorem check_tempos_accepts tps t :
  In t tps -> (forall u, In u tps -> tp_time t <= tp_time u) ->
  (forall u, In u tps -> tp_qpm u = tp_qpm t) ->
  tp_time t = 0 \/ tp_qpm t = DEFAULT_QPM_CODE ->
  check_tempos false tps = Ok [mkTempo 0 (tp_qpm t)].
Proof.
  intros Ht Hmin All Hok.
  unfold check_tempos. destruct tps as [|s0 r0] eqn:Etps; [destruct Ht|]. rewrite <- Etps in *.
  assert (H0 : In s0 tps) by (rewrite Etps; left; reflexivity).
  destruct (sort_by tp_time tps) as [|f later] eqn:S.
  { pose proof (sort_by_length tp_time tps) as L. rewrite S, Etps in L. discriminate. }
  assert (Hf : In f tps). { apply (sort_by_In tp_time). rewrite S. left. reflexivity. }
  pose proof (sort_by_hd_min tp_time tps f later S t Ht) as M1.
  pose proof (Hmin f Hf) as M2.
  pose proof (All f Hf) as Sf. pose proof (All s0 H0) as S0.
  replace (negb (tp_time f =? 0) && negb (tp_qpm f =? DEFAULT_QPM_CODE)) with false by lia.
  replace (forallb (fun u => tp_qpm u =? tp_qpm f) later) with true.
  2:{ symmetry. apply forallb_forall. intros u Hu.
      assert (In u tps) as Hu' by (apply (sort_by_In tp_time); rewrite S; right; exact Hu).
      specialize (All u Hu'). lia. }
  rewrite S0. reflexivity.
Qed.

Theorem check_tempos_empty legacy : check_tempos legacy [] = Ok [mkTempo 0 DEFAULT_QPM_CODE].
Proof. reflexivity. Qed.

Theorem check_tempos_err legacy tps e : check_tempos legacy tps = Err e -> e = MultipleTempo.
Proof.
  unfold check_tempos. destruct tps as [|s0 r0]; [discriminate|].
  destruct (sort_by tp_time (s0 :: r0)) as [|f later]; [discriminate|].
  destruct (negb (tp_time f =? 0) && negb (tp_qpm f =? DEFAULT_QPM_CODE)); [congruence|].
  destruct (forallb _ later); [discriminate|congruence].
Qed.

(** what a successful validation returns: one entry at time 0 carrying the value of EVERY stored
    entry (or the default when there is none) *)
Theorem check_tsigs_ok tss out :
  check_tsigs false tss = Ok out ->
  exists num den, out = [mkTsig 0 num den] /\
    (tss = [] -> num = 4 /\ den = 4) /\
    (forall t, In t tss -> ts_num t = num /\ ts_den t = den) /\
    (forall t, In t tss -> (forall u, In u tss -> ts_time t <= ts_time u) ->
                ts_time t = 0 \/ (num = 4 /\ den = 4)).
Proof.
  intros H. destruct tss as [|s0 r0] eqn:Etss.
  { cbn in H. injection H as <-. exists 4, 4. split; [reflexivity|]. split; [intros _; split; reflexivity|].
    split; intros t []. }
  rewrite <- Etss in *.
  assert (H0 : In s0 tss) by (rewrite Etss; left; reflexivity).
  (* all equal to s0, else rejected *)
  assert (All : forall t, In t tss -> tsig_same t s0 = true).
  { intros t Ht. destruct (tsig_same t s0) eqn:D; [reflexivity|].
    rewrite (check_tsigs_rejects_change tss t s0 Ht H0 D) in H. discriminate. }
  exists (ts_num s0), (ts_den s0).
  assert (Himp : forall t, In t tss -> (forall u, In u tss -> ts_time t <= ts_time u) ->
                 ts_time t = 0 \/ (ts_num s0 = 4 /\ ts_den s0 = 4)).
  { intros t Ht Hmin. destruct (Z.eq_dec (ts_time t) 0) as [Z0|Z0]; [left; exact Z0|right].
    destruct (tsig_default t) eqn:D.
    - pose proof (All t Ht) as E. apply tsig_same_eq in E. unfold tsig_default in D. lia.
    - rewrite (check_tsigs_rejects_implicit tss t Ht Hmin Z0 D) in H. discriminate. }
  split; [|split; [|split]].
  - (* the value returned *)
    unfold check_tsigs in H. rewrite Etss in H. cbv beta iota in H. rewrite <- Etss in H.
    destruct (sort_by ts_time tss) as [|f later] eqn:S.
    + pose proof (sort_by_length ts_time tss) as L. rewrite S, Etss in L. discriminate.
    + destruct (negb (ts_time f =? 0) && negb ((ts_num f =? 4) && (ts_den f =? 4))); [discriminate|].
      destruct (forallb _ later); [|discriminate]. injection H as <-. reflexivity.
  - intros E. rewrite E in Etss. discriminate.
  - intros t Ht. apply tsig_same_eq. apply All, Ht.
  - exact Himp.
Qed.

Theorem check_tempos_ok tps out :
  check_tempos false tps = Ok out ->
  exists qpm, out = [mkTempo 0 qpm] /\
    (tps = [] -> qpm = DEFAULT_QPM_CODE) /\
    (forall t, In t tps -> tp_qpm t = qpm) /\
    (forall t, In t tps -> (forall u, In u tps -> tp_time t <= tp_time u) ->
                tp_time t = 0 \/ qpm = DEFAULT_QPM_CODE).
Proof.
  intros H. destruct tps as [|s0 r0] eqn:Etps.
  { cbn in H. injection H as <-. exists DEFAULT_QPM_CODE. split; [reflexivity|]. split; [reflexivity|].
    split; intros t []. }
  rewrite <- Etps in *.
  assert (H0 : In s0 tps) by (rewrite Etps; left; reflexivity).
  assert (All : forall t, In t tps -> tp_qpm t = tp_qpm s0).
  { intros t Ht. destruct (Z.eq_dec (tp_qpm t) (tp_qpm s0)) as [E|D]; [exact E|].
    rewrite (check_tempos_rejects_change tps t s0 Ht H0 D) in H. discriminate. }
  exists (tp_qpm s0).
  split; [|split; [|split]].
  - unfold check_tempos in H. rewrite Etps in H. cbv beta iota in H. rewrite <- Etps in H.
    destruct (sort_by tp_time tps) as [|f later] eqn:S.
    + pose proof (sort_by_length tp_time tps) as L. rewrite S, Etps in L. discriminate.
    + destruct (negb (tp_time f =? 0) && negb (tp_qpm f =? DEFAULT_QPM_CODE)); [discriminate|].
      destruct (forallb _ later); [|discriminate]. injection H as <-. reflexivity.
  - intros E. rewrite E in Etps. discriminate.
  - exact All.
  - intros t Ht Hmin. destruct (Z.eq_dec (tp_time t) 0) as [Z0|Z0]; [left; exact Z0|right].
    destruct (Z.eq_dec (tp_qpm s0) DEFAULT_QPM_CODE) as [E|D]; [exact E|].
    rewrite <- (All t Ht) in D.
    rewrite (check_tempos_rejects_implicit tps t Ht Hmin Z0 D) in H. discriminate.
Qed.

(** * The defect repaired by notes/C01-fix-1.diff, recorded on the legacy model:
    a tempo change (resp. time-signature change) stored out of time order is accepted. *)
Theorem check_tempos_legacy_refuted :
  exists tps t1 t2 out, In t1 tps /\ In t2 tps /\ tp_qpm t1 <> tp_qpm t2 /\
                        check_tempos true tps = Ok out.
Proof.
  exists [mkTempo 5 60; mkTempo 0 DEFAULT_QPM_CODE], (mkTempo 5 60), (mkTempo 0 DEFAULT_QPM_CODE),
         [mkTempo 0 60].
  split; [left; reflexivity|]. split; [right; left; reflexivity|]. split; [vm_compute; discriminate|].
  vm_compute. reflexivity.
Qed.

Theorem check_tsigs_legacy_refuted :
  exists tss t1 t2 out, In t1 tss /\ In t2 tss /\ tsig_same t1 t2 = false /\
                        check_tsigs true tss = Ok out.
Proof.
  exists [mkTsig 5 3 4; mkTsig 0 4 4], (mkTsig 5 3 4), (mkTsig 0 4 4), [mkTsig 0 3 4].
  split; [left; reflexivity|]. split; [right; left; reflexivity|]. split; reflexivity.
Qed.

(** * Relative quantization: the decision list in code order *)
Definition rel_q (spq qpm : Z) : Z -> Z := qstep (sps_rel spq (fdec qpm)).

Theorem quantize_rel_eq spq s :
  quantize_rel spq s =
  match check_tsigs false (s_tsigs s) with
  | Err e => Err e
  | Ok tss =>
      if negb (check_tsig_value (hd_tsig tss)) then Err BadTimeSig
      else match check_tempos false (s_tempos s) with
           | Err e => Err e
           | Ok tps =>
               let q := rel_q spq (tp_qpm (hd_tempo tps)) in
               if seq_neg q s then Err NegativeTime
               else Ok (result_of q spq 0 tps tss s)
           end
  end.
Proof.
  unfold quantize_rel, quantize_rel_gen.
  destruct (check_tsigs false (s_tsigs s)) as [tss|e]; [|reflexivity].
  destruct (negb (check_tsig_value (hd_tsig tss))); [reflexivity|].
  destruct (check_tempos false (s_tempos s)) as [tps|e]; [|reflexivity].
  cbv zeta. rewrite quantize_notes_eq. reflexivity.
Qed.

(** success: the shape of the result and everything that must have held of the input *)
Theorem quantize_rel_ok spq s s' :
  quantize_rel spq s = Ok s' ->
  exists num den qpm,
    (s_tsigs s = [] -> num = 4 /\ den = 4) /\
    (forall t, In t (s_tsigs s) -> ts_num t = num /\ ts_den t = den) /\
    (forall t, In t (s_tsigs s) -> (forall u, In u (s_tsigs s) -> ts_time t <= ts_time u) ->
               ts_time t = 0 \/ (num = 4 /\ den = 4)) /\
    is_pow2 den = true /\ num <> 0 /\
    (s_tempos s = [] -> qpm = DEFAULT_QPM_CODE) /\
    (forall t, In t (s_tempos s) -> tp_qpm t = qpm) /\
    (forall t, In t (s_tempos s) -> (forall u, In u (s_tempos s) -> tp_time t <= tp_time u) ->
               tp_time t = 0 \/ qpm = DEFAULT_QPM_CODE) /\
    seq_neg (rel_q spq qpm) s = false /\
    s' = result_of (rel_q spq qpm) spq 0 [mkTempo 0 qpm] [mkTsig 0 num den] s.
Proof.
  rewrite quantize_rel_eq.
  destruct (check_tsigs false (s_tsigs s)) as [tss|e] eqn:Ets; [|discriminate].
  destruct (check_tsigs_ok _ _ Ets) as (num & den & -> & T1 & T2 & T3).
  destruct (negb (check_tsig_value (hd_tsig [mkTsig 0 num den]))) eqn:V; [discriminate|].
  destruct (check_tempos false (s_tempos s)) as [tps|e] eqn:Etp; [|discriminate].
  destruct (check_tempos_ok _ _ Etp) as (qpm & -> & P1 & P2 & P3).
  cbn [hd_tempo hd tp_qpm]. cbv zeta.
  destruct (seq_neg (rel_q spq qpm) s) eqn:N; [discriminate|].
  intros H. injection H as <-.
  exists num, den, qpm. unfold check_tsig_value in V. cbn [hd_tsig hd ts_den ts_num] in V.
  repeat split; try assumption; try reflexivity; try (apply T2; assumption); try lia.
  - apply (proj1 (T1 H)). - apply (proj2 (T1 H)).
Qed.

(** every error is one of the four documented ones, raised for its documented reason *)
Theorem quantize_rel_err spq s e :
  quantize_rel spq s = Err e ->
  match e with
  | MultipleTimeSig => check_tsigs false (s_tsigs s) = Err MultipleTimeSig
  | BadTimeSig => exists num den, check_tsigs false (s_tsigs s) = Ok [mkTsig 0 num den] /\
                                  (is_pow2 den = false \/ num = 0)
  | MultipleTempo => check_tempos false (s_tempos s) = Err MultipleTempo
  | NegativeTime => exists qpm, check_tempos false (s_tempos s) = Ok [mkTempo 0 qpm] /\
                                seq_neg (rel_q spq qpm) s = true
  end.
Proof.
  rewrite quantize_rel_eq.
  destruct (check_tsigs false (s_tsigs s)) as [tss|e1] eqn:Ets.
  2:{ intros H. injection H as <-. pose proof (check_tsigs_err _ _ _ Ets) as ->. reflexivity. }
  destruct (check_tsigs_ok _ _ Ets) as (num & den & -> & _).
  destruct (negb (check_tsig_value (hd_tsig [mkTsig 0 num den]))) eqn:V.
  { intros H. injection H as <-. exists num, den. split; [reflexivity|].
    unfold check_tsig_value in V. cbn [hd_tsig hd ts_den ts_num] in V.
    destruct (is_pow2 den); [right|left]; lia. }
  destruct (check_tempos false (s_tempos s)) as [tps|e1] eqn:Etp.
  2:{ intros H. injection H as <-. pose proof (check_tempos_err _ _ _ Etp) as ->. reflexivity. }
  destruct (check_tempos_ok _ _ Etp) as (qpm & -> & _).
  cbn [hd_tempo hd tp_qpm]. cbv zeta.
  destruct (seq_neg (rel_q spq qpm) s) eqn:N; [|discriminate].
  intros H. injection H as <-. exists qpm. split; [reflexivity|exact N].
Qed.

(** the rejection clause, top level: a tempo change anywhere in the stored list is never quantized *)
Theorem quantize_rel_rejects_tempo_change spq s t1 t2 :
  In t1 (s_tempos s) -> In t2 (s_tempos s) -> tp_qpm t1 <> tp_qpm t2 ->
  exists e, quantize_rel spq s = Err e /\ (e = MultipleTempo \/ e = MultipleTimeSig \/ e = BadTimeSig).
Proof.
  intros H1 H2 D. rewrite quantize_rel_eq.
  destruct (check_tsigs false (s_tsigs s)) as [tss|e1] eqn:Ets.
  2:{ exists e1. split; [reflexivity|]. rewrite (check_tsigs_err _ _ _ Ets). auto. }
  destruct (negb (check_tsig_value (hd_tsig tss))); [exists BadTimeSig; auto|].
  rewrite (check_tempos_rejects_change _ _ _ H1 H2 D). exists MultipleTempo. auto.
Qed.

Theorem quantize_rel_rejects_tsig_change spq s t1 t2 :
  In t1 (s_tsigs s) -> In t2 (s_tsigs s) -> tsig_same t1 t2 = false ->
  quantize_rel spq s = Err MultipleTimeSig.
Proof.
  intros H1 H2 D. rewrite quantize_rel_eq, (check_tsigs_rejects_change _ _ _ H1 H2 D). reflexivity.
Qed.

(** a single valid time signature: the tempo verdict is the verdict *)
Theorem quantize_rel_tempo_change_exact spq s t1 t2 num den :
  check_tsigs false (s_tsigs s) = Ok [mkTsig 0 num den] -> is_pow2 den = true -> num <> 0 ->
  In t1 (s_tempos s) -> In t2 (s_tempos s) -> tp_qpm t1 <> tp_qpm t2 ->
  quantize_rel spq s = Err MultipleTempo.
Proof.
  intros Ets Hp Hn H1 H2 D. rewrite quantize_rel_eq, Ets.
  unfold check_tsig_value. cbn [hd_tsig hd ts_den ts_num]. rewrite Hp.
  replace (negb (true && negb (num =? 0))) with false by lia.
  rewrite (check_tempos_rejects_change _ _ _ H1 H2 D). reflexivity.
Qed.

(** bad time signatures *)
Theorem quantize_rel_rejects_bad_tsig spq s t :
  In t (s_tsigs s) -> (ts_num t = 0 \/ is_pow2 (ts_den t) = false) ->
  exists e, quantize_rel spq s = Err e /\ (e = BadTimeSig \/ e = MultipleTimeSig).
Proof.
  intros Ht Hbad. rewrite quantize_rel_eq.
  destruct (check_tsigs false (s_tsigs s)) as [tss|e1] eqn:Ets.
  2:{ exists e1. split; [reflexivity|]. rewrite (check_tsigs_err _ _ _ Ets). auto. }
  destruct (check_tsigs_ok _ _ Ets) as (num & den & -> & _ & T2 & _).
  destruct (T2 t Ht) as [En Ed]. unfold check_tsig_value. cbn [hd_tsig hd ts_den ts_num].
  exists BadTimeSig. split; [|auto].
  replace (negb (is_pow2 den && negb (num =? 0))) with true; [reflexivity|].
  rewrite <- En, <- Ed. destruct Hbad as [-> | ->]; [|reflexivity].
  rewrite Z.eqb_refl. destruct (is_pow2 (ts_den t)); reflexivity.
Qed.

(** is_pow2 is what it says on the whole of Z *)
Lemma is_pow2_spec_pos k : 0 <= k -> is_pow2 (2 ^ k) = true.
Proof.
  intros Hk. unfold is_pow2. assert (0 < 2 ^ k) by (apply Z.pow_pos_nonneg; lia).
  replace (0 <? 2 ^ k) with true by lia. cbn [andb].
  apply Z.eqb_eq. apply Z.bits_inj'. intros n Hn. rewrite Z.land_spec, Z.bits_0.
  destruct (Z.eq_dec n k) as [->|Hne].
  - replace (2 ^ k - 1) with (Z.ones k) by (rewrite Z.ones_equiv; lia).
    rewrite Z.ones_spec_high by lia. apply andb_false_r.
  - rewrite Z.pow2_bits_false by lia. reflexivity.
Qed.

Lemma is_pow2_nonpos x : x <= 0 -> is_pow2 x = false.
Proof. intros H. unfold is_pow2. replace (0 <? x) with false by lia. reflexivity. Qed.

Lemma is_pow2_true x : is_pow2 x = true -> exists k, 0 <= k /\ x = 2 ^ k.
Proof.
  unfold is_pow2. intros H. apply andb_true_iff in H. destruct H as [Hp Hl].
  apply Z.ltb_lt in Hp. apply Z.eqb_eq in Hl.
  exists (Z.log2 x). split; [apply Z.log2_nonneg|].
  (* x = 2^log2 x + r with 0 <= r < 2^log2 x; if r > 0 then bit log2 x of x-1 is still set *)
  destruct (Z.log2_spec x Hp) as [Lo Hi].
  destruct (Z.eq_dec x (2 ^ Z.log2 x)) as [E|NE]; [exact E|exfalso].
  assert (B1 : Z.testbit x (Z.log2 x) = true) by (apply Z.bit_log2; lia).
  assert (B2 : Z.testbit (x - 1) (Z.log2 x) = true).
  { assert (Hx1 : 0 < x - 1) by (pose proof (Z.pow_pos_nonneg 2 (Z.log2 x) ltac:(lia) (Z.log2_nonneg x)); lia).
    assert (Z.log2 (x - 1) = Z.log2 x) as <-.
    { apply Z.log2_unique; [apply Z.log2_nonneg|]. lia. }
    apply Z.bit_log2. lia. }
  assert (B : Z.testbit (Z.land x (x - 1)) (Z.log2 x) = true) by (rewrite Z.land_spec, B1, B2; reflexivity).
  rewrite Hl, Z.bits_0 in B. discriminate.
Qed.
