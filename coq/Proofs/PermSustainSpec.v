(** Proofs/PermSustainSpec.v — C12 for apply_sustain_control_changes, part 1:
    the declarative specification [spec_end] / [spec_notes] of C14 (which the model is
    now proved to refine, [sustain_refines_spec]) does not depend on the storage order
    of the notes or of the control changes.

    [spec_end ctl ns ccs k n] mentions the storage index k only to say "another note";
    inside the quantifier (no_clash) "another note of this pitch and instrument" is
    "a note of this pitch and instrument with another start", which gives the
    index-free form [spec_end_v].  Every ingredient (pedal state at the end, first
    release after it, first re-strike, time of the last event) is a min / max / exists
    over a multiset. *)
From Coq Require Import ZArith List Bool Lia ZifyBool Permutation Sorted.
From NS Require Import Base.NoteSeq Model.PermDefs Proofs.PermTools.
From NS Require Import Gen.G14 Model.Sustain Proofs.Sustain Proofs.SustainFrame Proofs.SustainMono
  Proofs.SustainSpecA.
Import ListNotations.
Local Open Scope Z_scope.

(** * a selected minimum depends only on the set of selected values *)
Lemma fmin_ext_set {A B} (P : A -> bool) (f : A -> Z) (P' : B -> bool) (f' : B -> Z) l l' :
  (forall v, (exists x, In x l /\ P x = true /\ f x = v) <-> (exists y, In y l' /\ P' y = true /\ f' y = v)) ->
  fmin P f l None = fmin P' f' l' None.
Proof.
  intros H.
  destruct (fmin P f l None) as [v|] eqn:E1, (fmin P' f' l' None) as [v'|] eqn:E2; try reflexivity.
  - apply fmin_some in E1, E2.
    destruct E1 as [[X|(x & X1 & X2 & X3)] [_ L1]]; [discriminate|].
    destruct E2 as [[Y|(y & Y1 & Y2 & Y3)] [_ L2]]; [discriminate|].
    f_equal.
    assert (v' <= v).
    { destruct (proj1 (H v)) as (y0 & A1 & A2 & A3); [exists x; auto|]. rewrite <- A3. now apply L2. }
    assert (v <= v').
    { destruct (proj2 (H v')) as (x0 & A1 & A2 & A3); [exists y; auto|]. rewrite <- A3. now apply L1. }
    lia.
  - apply fmin_some in E1. apply (proj1 (fmin_none _ _ _ _)) in E2. destruct E2 as [_ E2].
    destruct E1 as [[X|(x & X1 & X2 & X3)] _]; [discriminate|].
    destruct (proj1 (H v)) as (y0 & A1 & A2 & A3); [exists x; auto|]. rewrite (E2 _ A1) in A2. discriminate.
  - apply fmin_some in E2. apply (proj1 (fmin_none _ _ _ _)) in E1. destruct E1 as [_ E1].
    destruct E2 as [[X|(y & X1 & X2 & X3)] _]; [discriminate|].
    destruct (proj2 (H v')) as (x0 & A1 & A2 & A3); [exists y; auto|]. rewrite (E1 _ A1) in A2. discriminate.
Qed.

Lemma fmin_perm {A} (P : A -> bool) (f : A -> Z) l l' : Permutation l l' -> fmin P f l None = fmin P f l' None.
Proof.
  intros Pm. apply fmin_ext_set. intros v. split; intros (x & X1 & X2); exists x; (split; [|exact X2]).
  - eapply Permutation_in; [exact Pm|exact X1].
  - eapply Permutation_in; [symmetry; exact Pm|exact X1].
Qed.

(** * the pedal state *)
Lemma pedal_down_perm t pe pe' : Permutation pe pe' -> pedal_down t pe = pedal_down t pe'.
Proof.
  intros Pm.
  assert (Hin : forall c, In c pe <-> In c pe') by (intros c; split; apply Permutation_in; [|symmetry]; exact Pm).
  apply eq_true_iff_eq. rewrite !pedal_down_iff.
  split; intros (c & C1 & C2 & C3 & C4); exists c.
  - split; [now apply Hin|]. split; [exact C2|]. split; intros c' Hc'; [apply C3|apply C4]; now apply Hin.
  - split; [now apply Hin|]. split; [exact C2|]. split; intros c' Hc'; [apply C3|apply C4]; now apply Hin.
Qed.

Lemma pedal_events_perm ctl i ccs ccs' : Permutation ccs ccs' ->
  Permutation (pedal_events ctl i ccs) (pedal_events ctl i ccs').
Proof. intros. unfold pedal_events. now apply perm_filter. Qed.

(** * the time of the last event *)
Definition zmaxl (l : list Z) : Z := match l with [] => 0 | t :: r => fold_left Z.max r t end.

Lemma zmaxl_perm l l' : Permutation l l' -> zmaxl l = zmaxl l'.
Proof.
  intros Pm. destruct l as [|t r], l' as [|t' r']; cbn [zmaxl].
  - reflexivity.
  - apply Permutation_nil in Pm. discriminate.
  - apply Permutation_sym, Permutation_nil in Pm. discriminate.
  - destruct (fold_max_spec r t) as [A B]. destruct (fold_max_spec r' t') as [A' B'].
    assert (fold_left Z.max r t <= fold_left Z.max r' t')
      by (apply B'; eapply Permutation_in; [exact Pm|exact A]).
    assert (fold_left Z.max r' t' <= fold_left Z.max r t)
      by (apply B; eapply Permutation_in; [symmetry; exact Pm|exact A']).
    lia.
Qed.

Lemma map_filter_combine_seq {A B} (g : A -> bool) (h : A -> B) (l : list A) : forall a,
  map (fun p : nat * A => h (snd p)) (filter (fun p => g (snd p)) (combine (List.seq a (length l)) l))
  = map h (filter g l).
Proof.
  induction l as [|x r IH]; intros a; cbn [length List.seq combine filter map]; [reflexivity|].
  cbn [snd]. destruct (g x); cbn [map snd]; now rewrite IH.
Qed.

Lemma note_events_times kd tm ns :
  map e_time (note_events kd tm ns) = map tm (filter (fun n => negb (n_drum n)) ns).
Proof.
  unfold note_events, indexed. rewrite map_map. cbn [e_time].
  apply (map_filter_combine_seq (fun n => negb (n_drum n)) tm ns 0%nat).
Qed.

Lemma event_times_perm ctl ns ns' ccs ccs' : Permutation ns ns' -> Permutation ccs ccs' ->
  Permutation (map e_time (build_events ctl ns ccs)) (map e_time (build_events ctl ns' ccs')).
Proof.
  intros Pn Pc. unfold build_events. rewrite !map_app, !note_events_times.
  repeat apply Permutation_app.
  - now apply Permutation_map, perm_filter.
  - now apply Permutation_map, perm_filter.
  - unfold cc_events. rewrite !map_map. cbn [e_time]. now apply Permutation_map, perm_filter.
Qed.

Lemma max_event_time_perm ctl ns ns' ccs ccs' : Permutation ns ns' -> Permutation ccs ccs' ->
  max_event_time ctl ns ccs = max_event_time ctl ns' ccs'.
Proof.
  intros Pn Pc. change (zmaxl (map e_time (build_events ctl ns ccs)) = zmaxl (map e_time (build_events ctl ns' ccs'))).
  now apply zmaxl_perm, event_times_perm.
Qed.

(** * the index-free specification *)
Definition resQ (n m : note) : bool :=
  negb (n_start m =? n_start n) && negb (n_drum m) && (n_instr m =? n_instr n) &&
  (n_pitch m =? n_pitch n) && (n_end n <=? n_start m).

Definition spec_end_v (ctl : Z) (ns : list note) (ccs : list cc) (n : note) : Z :=
  if n_drum n then n_end n
  else
    let pe := pedal_events ctl (n_instr n) ccs in
    if pedal_down (n_end n) pe then
      match opt_min (fmin (relP (n_end n)) cc_time pe None) (fmin (resQ n) n_start ns None) with
      | Some t => t
      | None => max_event_time ctl ns ccs
      end
    else n_end n.

Lemma restrike_index_free ns k n : no_clash ns = true -> nth_error ns k = Some n -> n_drum n = false ->
  first_restrike k n ns = fmin (resQ n) n_start ns None.
Proof.
  intros Hnc Nk Dn. rewrite first_restrike_fmin. apply fmin_ext_set. intros v. split.
  - intros ([j m] & X1 & X2 & X3). cbn [snd] in X3. exists m.
    apply In_indexed in X1. split; [eapply nth_error_In; exact X1|]. split; [|exact X3].
    unfold resP in X2. cbn [fst snd] in X2. unfold resQ.
    assert (j <> k) by (intros ->; rewrite Nat.eqb_refl in X2; discriminate).
    pose proof (no_clash_nth ns j k m n Hnc X1 Nk H) as C. unfold clash in C. rewrite Dn in C.
    destruct (n_drum m); cbn [negb andb] in *; [rewrite andb_false_r in X2; discriminate|].
    destruct (Nat.eqb j k); cbn [negb andb] in X2; [discriminate|]. lia.
  - intros (m & X1 & X2 & X3). apply In_nth_error in X1 as [j Nj]. exists (j, m).
    split; [now apply In_indexed|]. split; [|exact X3].
    unfold resP. cbn [fst snd]. unfold resQ in X2.
    assert (j <> k) as Hjk.
    { intros ->. rewrite Nk in Nj. inversion Nj; subst. rewrite Z.eqb_refl in X2. discriminate. }
    apply Nat.eqb_neq in Hjk. rewrite Hjk. cbn [negb andb].
    destruct (n_start m =? n_start n); cbn [negb andb] in X2; [discriminate|exact X2].
Qed.

Lemma spec_end_index_free ctl ns ccs k n : no_clash ns = true -> nth_error ns k = Some n ->
  spec_end ctl ns ccs k n = spec_end_v ctl ns ccs n.
Proof.
  intros Hnc Nk. unfold spec_end, spec_end_v. destruct (n_drum n) eqn:Dn; [reflexivity|].
  rewrite (restrike_index_free ns k n Hnc Nk Dn), first_release_fmin. reflexivity.
Qed.

Lemma spec_end_v_perm ctl ns ns' ccs ccs' n : Permutation ns ns' -> Permutation ccs ccs' ->
  spec_end_v ctl ns ccs n = spec_end_v ctl ns' ccs' n.
Proof.
  intros Pn Pc. unfold spec_end_v. destruct (n_drum n); [reflexivity|].
  pose proof (pedal_events_perm ctl (n_instr n) _ _ Pc) as Pp.
  rewrite <- (pedal_down_perm _ _ _ Pp), <- (fmin_perm _ _ _ _ Pp), <- (fmin_perm (resQ n) n_start _ _ Pn),
    <- (max_event_time_perm ctl _ _ _ _ Pn Pc). reflexivity.
Qed.

Lemma map_snd_indexed {A} (l : list A) : map snd (indexed l) = l.
Proof.
  unfold indexed. generalize 0%nat. induction l as [|x r IH]; intros a; cbn; [reflexivity|]. now rewrite IH.
Qed.

Lemma spec_notes_index_free ctl ns ccs : no_clash ns = true ->
  spec_notes ctl ns ccs = map (fun n => set_end n (spec_end_v ctl ns ccs n)) ns.
Proof.
  intros Hnc. unfold spec_notes.
  transitivity (map (fun n => set_end n (spec_end_v ctl ns ccs n)) (map snd (indexed ns)));
    [|now rewrite map_snd_indexed].
  rewrite map_map. apply map_ext_in.
  intros [k n] Hin. cbn [fst snd]. apply In_indexed in Hin. now rewrite (spec_end_index_free ctl ns ccs k n Hnc Hin).
Qed.

(** The specified notes, new end times included, are the same multiset for every storage order
    of the notes and of the control changes. *)
Theorem spec_notes_perm ctl ns ns' ccs ccs' : no_clash ns = true -> no_clash ns' = true ->
  Permutation ns ns' -> Permutation ccs ccs' ->
  Permutation (spec_notes ctl ns ccs) (spec_notes ctl ns' ccs').
Proof.
  intros H H' Pn Pc. rewrite (spec_notes_index_free ctl ns ccs H), (spec_notes_index_free ctl ns' ccs' H').
  rewrite (map_ext _ _ (fun n => f_equal (set_end n) (eq_sym (spec_end_v_perm ctl ns ns' ccs ccs' n Pn Pc)))).
  now apply Permutation_map.
Qed.
