(** Proofs/FqPerfRound.v — perf_notes_roundtrip: decoding the events extracted by
    Performance / MetricPerformance gives back exactly the extracted notes (as a multiset),
    whenever no two notes of one pitch overlap. *)
From Coq Require Import ZArith List Bool Lia ZifyBool Permutation Sorted.
From NS Require Import Base.NoteSeq Gen.G07 Model.FqCommon Model.FqPerformance Model.FqSpec
  Proofs.FqCommon Proofs.FqPerformance.
Import ListNotations.
Local Open Scope Z_scope.
Ltac Zify.zify_post_hook ::= Z.to_euclidean_division_equations.

Definition entry : Type := (Z * Z * Z)%type.

(** * Stage A: the decoder run on the emitted event stream = a decoder run on the timed tuples *)
Fixpoint tdecode (start nb dv : Z) (tes : list tev) (cur : Z) (op : list entry) : list snote :=
  match tes with
  | [] =>
      map (fun x : entry => let '(q, s, v) := x in (q, s + start, cur - start + start, v))
          (filter (fun x : entry => let '(q, s, v) := x in negb (cur - start =? s)) op)
  | t :: r =>
      let cur' := if cur <? te_step t then te_step t else cur in
      if te_off t then
        match take_first (n_pitch (te_note t)) op with
        | None => tdecode start nb dv r cur' op
        | Some ((q, s, v), op') =>
            if cur' - start =? s then tdecode start nb dv r cur' op'
            else (q, s + start, cur' - start + start, v) :: tdecode start nb dv r cur' op'
        end
      else tdecode start nb dv r cur'
                   (op ++ [(n_pitch (te_note t), cur' - start, pf_vel_rep nb dv (n_vel (te_note t)))])
  end.

Lemma dec_on nb start v r step vel op :
  pf_decode nb start ((EV_NOTE_ON, v) :: r) step vel op = pf_decode nb start r step vel (op ++ [(v, step, vel)]).
Proof. reflexivity. Qed.

Lemma dec_off nb start v r step vel op :
  pf_decode nb start ((EV_NOTE_OFF, v) :: r) step vel op =
  match take_first v op with
  | None => pf_decode nb start r step vel op
  | Some ((q, s, w), op') =>
      if step =? s then pf_decode nb start r step vel op'
      else (q, s + start, step + start, w) :: pf_decode nb start r step vel op'
  end.
Proof. reflexivity. Qed.

Lemma dec_shift nb start v r step vel op :
  pf_decode nb start ((EV_TIME_SHIFT, v) :: r) step vel op = pf_decode nb start r (step + v) vel op.
Proof. reflexivity. Qed.

Lemma dec_vel nb start v r step vel op :
  pf_decode nb start ((EV_VELOCITY, v) :: r) step vel op = pf_decode nb start r step (bin_to_vel v nb) op.
Proof. reflexivity. Qed.

Lemma dec_shifts nb start ms d r step vel op :
  1 <= ms -> 0 < d ->
  pf_decode nb start (pf_shifts ms d ++ r) step vel op = pf_decode nb start r (step + d) vel op.
Proof.
  intros Hms Hd. unfold pf_shifts.
  assert (Hk : 0 <= (d - 1) / ms) by (apply Z.div_pos; lia).
  set (k := (d - 1) / ms) in *.
  rewrite <- app_assoc. cbn [app].
  assert (Hrep : forall n step', pf_decode nb start (repeat (EV_TIME_SHIFT, ms) n ++ (EV_TIME_SHIFT, d - k * ms) :: r) step' vel op
                            = pf_decode nb start r (step' + Z.of_nat n * ms + (d - k * ms)) vel op).
  { induction n as [|n IH]; intros step'; cbn [repeat app].
    - rewrite dec_shift. f_equal. lia.
    - rewrite dec_shift, IH. f_equal. lia. }
  unfold zrepeat. rewrite Hrep. f_equal. rewrite Z2Nat.id by exact Hk. lia.
Qed.

Definition vel_inv (nb dv vbin vel : Z) : Prop :=
  (nb = 0 /\ vel = dv) \/ (nb <> 0 /\ (vbin = 0 \/ vel = bin_to_vel vbin nb)).

Lemma vel_to_bin_pos v nb : 1 <= nb -> MIN_MIDI_VELOCITY <= v -> 1 <= vel_to_bin v nb.
Proof.
  intros Hnb Hv. unfold vel_to_bin, bin_size, vel_range.
  assert (0 < (MAX_MIDI_VELOCITY - MIN_MIDI_VELOCITY + 1 + nb - 1) / nb).
  { apply Z.div_str_pos. assert (0 <= MAX_MIDI_VELOCITY - MIN_MIDI_VELOCITY) by (cbv; discriminate). lia. }
  assert (0 <= (v - MIN_MIDI_VELOCITY) / ((MAX_MIDI_VELOCITY - MIN_MIDI_VELOCITY + 1 + nb - 1) / nb))
    by (apply Z.div_pos; lia).
  lia.
Qed.

Lemma stageA start nb ms dv : 1 <= ms -> (nb = 0 \/ 1 <= nb) ->
  forall tes cur vbin vel op,
  Forall (fun t => MIN_MIDI_VELOCITY <= n_vel (te_note t)) tes ->
  vel_inv nb dv vbin vel ->
  pf_decode nb start (pf_loop nb ms tes cur vbin) (cur - start) vel op = tdecode start nb dv tes cur op.
Proof.
  intros Hms Hnb. induction tes as [|t r IH]; intros cur vbin vel op Hv Hinv.
  - reflexivity.
  - inversion Hv as [|? ? Hvt Hvr]; subst. cbn [pf_loop tdecode].
    set (b := vel_to_bin (n_vel (te_note t)) nb).
    set (change := negb (nb =? 0) && negb (te_off t) && negb (b =? vbin)).
    set (cur' := if cur <? te_step t then te_step t else cur).
    (* the shifts *)
    assert (Hsh : forall rest, pf_decode nb start ((if cur <? te_step t then pf_shifts ms (te_step t - cur) else []) ++ rest)
                                         (cur - start) vel op
                               = pf_decode nb start rest (cur' - start) vel op).
    { intros rest. unfold cur'. destruct (cur <? te_step t) eqn:E; [|reflexivity].
      rewrite dec_shifts by lia. f_equal. lia. }
    rewrite Hsh.
    destruct (te_off t) eqn:Eoff.
    + (* NOTE_OFF: no velocity event *)
      assert (change = false) as -> by (unfold change; destruct (nb =? 0); reflexivity).
      cbn [app]. rewrite dec_off.
      destruct (take_first (n_pitch (te_note t)) op) as [[[[q s] w] op']|].
      * destruct (cur' - start =? s); [|f_equal]; now apply IH.
      * now apply IH.
    + (* NOTE_ON *)
      assert (Hvel : exists vel', vel_inv nb dv (if change then b else vbin) vel' /\
                pf_vel_rep nb dv (n_vel (te_note t)) = vel' /\
                forall rest step o, pf_decode nb start ((if change then [(EV_VELOCITY, b) : pevent] else []) ++ rest) step vel o
                                    = pf_decode nb start rest step vel' o).
      { unfold pf_vel_rep, change. cbn [negb andb]. rewrite andb_true_r.
        destruct Hinv as [(Hz & Hvd)|(Hnz & Hvb)].
        - subst nb. cbn [Z.eqb negb andb]. exists vel. split; [left; auto|]. split; [auto|]. intros; reflexivity.
        - replace (nb =? 0) with false by lia. cbn [negb andb].
          fold b. destruct (b =? vbin) eqn:Eb; cbn [negb].
          + assert (b = vbin) by lia. exists vel. split; [right; auto|]. split; [|reflexivity].
            destruct Hvb as [Hvb|Hvb]; [|subst; auto].
            exfalso. pose proof (vel_to_bin_pos (n_vel (te_note t)) nb ltac:(lia) Hvt). fold b in H0. lia.
          + exists (bin_to_vel b nb). split; [right; split; [exact Hnz|now right]|]. split; [reflexivity|].
            intros rest step o. cbn [app]. now rewrite dec_vel. }
      destruct Hvel as (vel' & Hinv' & Hrep & Hdec).
      rewrite Hdec. cbn [app]. rewrite dec_on, Hrep. now apply IH.
Qed.

(** * Stage B: FIFO matching on the sorted tuple list pairs every onset with its own offset *)
Lemma take_first_split p (l1 : list entry) x l2 :
  (forall y, In y l1 -> fst (fst y) <> p) -> fst (fst x) = p ->
  take_first p (l1 ++ x :: l2) = Some (x, l1 ++ l2).
Proof.
  induction l1 as [|[[q s] v] l1 IH]; intros Hl1 Hx; cbn [app take_first].
  - destruct x as [[q s] v]. cbn in Hx. subst q. now rewrite Z.eqb_refl.
  - assert (q <> p) by (apply (Hl1 (q, s, v)); now left).
    replace (q =? p) with false by lia.
    rewrite IH; [reflexivity| |exact Hx]. intros y Hy. apply Hl1. now right.
Qed.

Lemma StronglySorted_snoc {A} (R : A -> A -> Prop) l x :
  StronglySorted R l -> (forall y, In y l -> R y x) -> StronglySorted R (l ++ [x]).
Proof.
  induction 1 as [|a l Hs IH Hf]; intros Hx; cbn [app].
  - constructor; constructor.
  - constructor; [apply IH; intros y Hy; apply Hx; now right|].
    apply Forall_app. split; [exact Hf|]. constructor; [apply Hx; now left|constructor].
Qed.

Lemma StronglySorted_remove {A} (R : A -> A -> Prop) l1 x l2 :
  StronglySorted R (l1 ++ x :: l2) -> StronglySorted R (l1 ++ l2).
Proof.
  induction l1 as [|a l1 IH]; cbn [app]; intros H; inversion H as [|? ? Hs Hf]; subst; [exact Hs|].
  constructor; [now apply IH|]. rewrite Forall_forall in *. intros y Hy. apply Hf.
  apply in_app_or in Hy. apply in_or_app. destruct Hy; [now left|right; now right].
Qed.

Section StageB.
  Variable sel : list note.
  Variables start nb dv : Z.
  Hypothesis Hlen : forall n, In n sel -> n_qstart n < n_qend n.
  Hypothesis Hno : no_pitch_overlap sel.

  Definition valid (t : tev) : Prop :=
    0 <= te_idx t /\ nth_error sel (Z.to_nat (te_idx t)) = Some (te_note t) /\
    te_step t = (if te_off t then n_qend (te_note t) else n_qstart (te_note t)).

  Definition tlt (a b : tev) : Prop :=
    te_step a < te_step b \/
    (te_step a = te_step b /\
     (te_idx a < te_idx b \/ (te_idx a = te_idx b /\ te_off a = false /\ te_off b = true))).

  Lemma tlt_irrefl a : ~ tlt a a.
  Proof. unfold tlt. intros [H|(_ & [H|(_ & H1 & H2)])]; try lia. congruence. Qed.

  Lemma valid_eta t : valid t -> t = if te_off t then off_of (te_idx t) (te_note t) else on_of (te_idx t) (te_note t).
  Proof. destruct t as [s i o n]. unfold valid. cbn. intros (_ & _ & ->). destruct o; reflexivity. Qed.

  Lemma valid_same_idx x y : valid x -> valid y -> te_idx x = te_idx y -> te_note x = te_note y.
  Proof. intros (_ & Hx & _) (_ & Hy & _) Heq. rewrite Heq in Hx. congruence. Qed.

  Lemma valid_len t : valid t -> n_qstart (te_note t) < n_qend (te_note t).
  Proof. intros (_ & Hx & _). apply Hlen. eapply nth_error_In; eassumption. Qed.

  Lemma valid_disjoint x y :
    valid x -> valid y -> te_idx x <> te_idx y -> n_pitch (te_note x) = n_pitch (te_note y) ->
    n_qend (te_note x) <= n_qstart (te_note y) \/ n_qend (te_note y) <= n_qstart (te_note x).
  Proof.
    intros (Hx0 & Hx & _) (Hy0 & Hy & _) Hne Hp. destruct Hno as (Hnd & Hdis).
    apply Hdis; [eapply nth_error_In; eassumption|eapply nth_error_In; eassumption| |exact Hp].
    intros Heq. rewrite NoDup_nth_error in Hnd.
    assert (Z.to_nat (te_idx x) = Z.to_nat (te_idx y)); [|lia].
    apply Hnd; [apply nth_error_Some; congruence|congruence].
  Qed.

  Definition entry_of (o : tev) : entry :=
    (n_pitch (te_note o), te_step o - start, pf_vel_rep nb dv (n_vel (te_note o))).
  Definition note_of (t : tev) : snote := pf_note_proj nb dv (te_note t).

  Lemma stageB : forall R O cur,
    StronglySorted tlt R -> StronglySorted tlt O ->
    Forall valid R -> Forall valid O -> Forall (fun o => te_off o = false) O ->
    (forall o, In o O -> In (off_of (te_idx o) (te_note o)) R /\ forall t, In t R -> tlt o t) ->
    (forall t, In t R -> te_off t = true ->
       (exists o, In o O /\ t = off_of (te_idx o) (te_note o)) \/ In (on_of (te_idx t) (te_note t)) R) ->
    (forall t, In t R -> te_off t = false -> In (off_of (te_idx t) (te_note t)) R) ->
    (forall t, In t R -> cur <= te_step t) ->
    tdecode start nb dv R cur (map entry_of O) = map note_of (filter te_off R).
  Proof.
    induction R as [|t R' IH]; intros O cur HsR HsO HvR HvO HoffO Hc He Hg Hcur.
    - destruct O as [|o O']; [reflexivity|]. destruct (Hc o (or_introl eq_refl)) as ([] & _).
    - inversion HsR as [|? ? HsR' HfR]; subst. rewrite Forall_forall in HfR.
      inversion HvR as [|? ? Hvt HvR']; subst.
      assert (Hcur' : (if cur <? te_step t then te_step t else cur) = te_step t).
      { specialize (Hcur t (or_introl eq_refl)). destruct (cur <? te_step t) eqn:E; lia. }
      assert (Hnext : forall u, In u R' -> te_step t <= te_step u).
      { intros u Hu. specialize (HfR u Hu). unfold tlt in HfR. lia. }
      cbn [tdecode filter]. rewrite Hcur'. destruct (te_off t) eqn:Eoff.
      + (* an offset: its onset is open and is the first open entry of its pitch *)
        destruct (He t (or_introl eq_refl) Eoff) as [(o & HoO & Hto)|Hon].
        2:{ exfalso. destruct Hon as [Hon|Hon].
            - apply (f_equal te_off) in Hon. cbn in Hon. congruence.
            - specialize (HfR _ Hon). pose proof (valid_len t Hvt). destruct Hvt as (_ & _ & Hst).
              rewrite Eoff in Hst. unfold tlt in HfR. cbn in HfR. lia. }
        destruct (in_split o O HoO) as (O1 & O2 & HO). subst O.
        assert (Hvo : valid o) by (rewrite Forall_forall in HvO; now apply HvO).
        assert (Hoo : te_off o = false) by (rewrite Forall_forall in HoffO; now apply HoffO).
        assert (Hidx : te_idx t = te_idx o /\ te_note t = te_note o) by (rewrite Hto; split; reflexivity).
        destruct Hidx as (Hti & Htn).
        destruct (StronglySorted_app_inv _ _ _ HsO) as (_ & _ & Hcross).
        assert (Hfirst : forall y, In y (map entry_of O1) -> fst (fst y) <> n_pitch (te_note t)).
        { intros y Hy Hp. apply in_map_iff in Hy. destruct Hy as (o' & <- & Ho'). cbn [entry_of fst] in Hp.
          assert (Ho'O : In o' (O1 ++ o :: O2)) by (apply in_or_app; now left).
          assert (Hvo' : valid o') by (rewrite Forall_forall in HvO; now apply HvO).
          assert (Hoo' : te_off o' = false) by (rewrite Forall_forall in HoffO; now apply HoffO).
          pose proof (Hcross o' o Ho' (or_introl eq_refl)) as Hlt.
          destruct (Z.eq_dec (te_idx o') (te_idx o)) as [Heq|Hneq].
          - (* the same note: the same tuple *)
            pose proof (valid_same_idx _ _ Hvo' Hvo Heq) as Hnote.
            assert (o' = o).
            { rewrite (valid_eta o' Hvo'), (valid_eta o Hvo), Hoo, Hoo', Heq, Hnote. reflexivity. }
            subst o'. exact (tlt_irrefl _ Hlt).
          - destruct (Hc o' Ho'O) as (Hoff' & _).
            assert (Hoff'R : In (off_of (te_idx o') (te_note o')) R').
            { destruct Hoff' as [Heq|H]; [|exact H]. rewrite Hto in Heq.
              apply (f_equal te_idx) in Heq. cbn in Heq. congruence. }
            specialize (HfR _ Hoff'R).
            rewrite Htn in Hp.
            destruct (valid_disjoint o' o Hvo' Hvo Hneq Hp) as [Hd|Hd];
              pose proof (valid_len o Hvo); pose proof (valid_len o' Hvo');
              destruct Hvo as (_ & _ & Hso); destruct Hvo' as (_ & _ & Hso');
              rewrite Hoo in Hso; rewrite Hoo' in Hso';
              rewrite Hto in HfR; unfold tlt in HfR, Hlt; cbn in HfR; lia. }
        rewrite map_app. cbn [map].
        rewrite (take_first_split _ _ (entry_of o) _ Hfirst) by (cbn; now rewrite Htn).
        unfold entry_of at 1.
        assert (Hsteps : te_step t = n_qend (te_note o) /\ te_step o = n_qstart (te_note o)).
        { destruct Hvo as (_ & _ & Hso). rewrite Hoo in Hso. rewrite Hto. cbn. auto. }
        destruct Hsteps as (Hst & Hso). pose proof (valid_len o Hvo) as Hl.
        replace (te_step t - start =? te_step o - start) with false by lia.
        rewrite <- map_app. cbn [map]. apply (f_equal2 (@cons snote)).
        * unfold note_of, pf_note_proj. rewrite Htn.
          replace (te_step o - start + start) with (n_qstart (te_note o)) by lia.
          replace (te_step t - start + start) with (n_qend (te_note o)) by lia. reflexivity.
        * apply IH; auto.
          -- eapply StronglySorted_remove; exact HsO.
          -- rewrite Forall_forall in *. intros x Hx. apply HvO. apply in_app_or in Hx. apply in_or_app.
             destruct Hx; [now left|right; now right].
          -- rewrite Forall_forall in *. intros x Hx. apply HoffO. apply in_app_or in Hx. apply in_or_app.
             destruct Hx; [now left|right; now right].
          -- intros o' Ho'.
             assert (Ho'O : In o' (O1 ++ o :: O2)).
             { apply in_app_or in Ho'. apply in_or_app. destruct Ho'; [now left|right; now right]. }
             destruct (Hc o' Ho'O) as (Hoff' & Hlt'). split; [|intros u Hu; apply Hlt'; now right].
             destruct Hoff' as [Heq|H]; [|exact H]. exfalso.
             (* off_of o' = t = off_of o: o' = o, impossible in a strictly sorted list *)
             rewrite Hto in Heq. injection Heq as _ Hi Hn.
             assert (Hvo' : valid o') by (rewrite Forall_forall in HvO; now apply HvO).
             assert (Hoo' : te_off o' = false) by (rewrite Forall_forall in HoffO; now apply HoffO).
             assert (o' = o).
             { rewrite (valid_eta o' Hvo'), (valid_eta o Hvo), Hoo, Hoo'. congruence. }
             subst o'. apply in_app_or in Ho'. destruct Ho' as [H1|H2].
             ++ exact (tlt_irrefl _ (Hcross o o H1 (or_introl eq_refl))).
             ++ apply StronglySorted_app_inv in HsO. destruct HsO as (_ & Hs2 & _).
                inversion Hs2 as [|? ? _ Hf2]; subst. rewrite Forall_forall in Hf2.
                exact (tlt_irrefl _ (Hf2 o H2)).
          -- intros u Hu Huoff. destruct (He u (or_intror Hu) Huoff) as [(o'' & Ho'' & Hu'')|Hon].
             ++ left. exists o''. split; [|exact Hu''].
                apply in_app_or in Ho''. apply in_or_app. destruct Ho'' as [H|[H|H]]; [now left| |now right].
                exfalso. subst o''. rewrite <- Hto in Hu''. subst u. exact (tlt_irrefl _ (HfR t Hu)).
             ++ right. destruct Hon as [Heq|H]; [|exact H].
                apply (f_equal te_off) in Heq. cbn in Heq. congruence.
          -- intros u Hu Huoff. destruct (Hg u (or_intror Hu) Huoff) as [Heq|H]; [|exact H].
             exfalso. rewrite Hto in Heq. injection Heq as _ Hi Hn.
             assert (Hvu : valid u) by (rewrite Forall_forall in HvR'; now apply HvR').
             assert (u = o).
             { rewrite (valid_eta u Hvu), (valid_eta o Hvo), Hoo, Huoff. congruence. }
             subst u. destruct (Hc o HoO) as (_ & Hlt). exact (tlt_irrefl _ (Hlt o (or_intror Hu))).
      + (* an onset: it becomes the last open entry *)
        replace (map entry_of O ++ [(n_pitch (te_note t), te_step t - start, pf_vel_rep nb dv (n_vel (te_note t)))])
          with (map entry_of (O ++ [t])) by (rewrite map_app; reflexivity).
        apply IH; auto.
        * apply StronglySorted_snoc; [exact HsO|]. intros y Hy. destruct (Hc y Hy) as (_ & Hlt). apply Hlt. now left.
        * apply Forall_app. split; [exact HvO|]. constructor; [exact Hvt|constructor].
        * apply Forall_app. split; [exact HoffO|]. constructor; [exact Eoff|constructor].
        * intros o Ho. apply in_app_or in Ho. destruct Ho as [Ho|[<-|[]]].
          -- destruct (Hc o Ho) as (Hoff & Hlt). split; [|intros u Hu; apply Hlt; now right].
             destruct Hoff as [Heq|H]; [|exact H]. apply (f_equal te_off) in Heq. cbn in Heq. congruence.
          -- split; [|intros u Hu; now apply HfR].
             destruct (Hg t (or_introl eq_refl) Eoff) as [Heq|H]; [|exact H].
             apply (f_equal te_off) in Heq. cbn in Heq. congruence.
        * intros u Hu Huoff. destruct (He u (or_intror Hu) Huoff) as [(o & Ho & Huo)|Hon].
          -- left. exists o. split; [apply in_or_app; now left|exact Huo].
          -- destruct Hon as [Heq|H]; [|right; exact H].
             left. exists t. split; [apply in_or_app; right; now left|].
             assert (Hvu : valid u) by (rewrite Forall_forall in HvR'; now apply HvR').
             pose proof (valid_eta u Hvu) as Hu'. rewrite Huoff in Hu'. rewrite Hu', Heq. reflexivity.
        * intros u Hu Huoff. destruct (Hg u (or_intror Hu) Huoff) as [Heq|H]; [|exact H].
          apply (f_equal te_off) in Heq. cbn in Heq. congruence.
  Qed.
End StageB.

(** * putting the two stages together *)
Lemma perm_filter {A} (f : A -> bool) l l' : Permutation l l' -> Permutation (filter f l) (filter f l').
Proof.
  induction 1 as [|x l l' Hp IH|x y l|l l' l'' H1 IH1 H2 IH2]; cbn [filter].
  - constructor.
  - destruct (f x); [now constructor|assumption].
  - destruct (f x), (f y); try reflexivity. apply perm_swap.
  - etransitivity; eassumption.
Qed.

Lemma nodup_app {A} (l1 l2 : list A) :
  NoDup l1 -> NoDup l2 -> (forall x, In x l1 -> ~ In x l2) -> NoDup (l1 ++ l2).
Proof.
  induction 1 as [|x l1 Hx Hnd IH]; intros H2 Hdis; cbn [app]; [exact H2|].
  constructor.
  - intros Hin. apply in_app_or in Hin. destruct Hin as [Hin|Hin]; [now apply Hx|].
    apply (Hdis x); [now left|exact Hin].
  - apply IH; [exact H2|]. intros y Hy. apply Hdis. now right.
Qed.

Lemma enum_fst_ge {A} (l : list A) : forall k y, In y (enum_from k l) -> k <= fst y.
Proof.
  induction l as [|x l IH]; intros k y; cbn [enum_from In]; [intros []|].
  intros [<-|H]; [cbn; lia|]. specialize (IH _ _ H). lia.
Qed.

Lemma nodup_enum {A} (c : bool) (l : list A) : forall k,
  NoDup (map (fun x => (fst x, c)) (enum_from k l)).
Proof.
  induction l as [|x l IH]; intros k; cbn [enum_from map]; constructor; [|apply IH].
  intros Hin. apply in_map_iff in Hin. destruct Hin as (y & Hy & Hin). cbn in Hy.
  pose proof (enum_fst_ge _ _ _ Hin). injection Hy as Hy. lia.
Qed.

Lemma map_snd_enum {A B} (f : A -> B) (l : list A) : forall k,
  map (fun x => f (snd x)) (enum_from k l) = map f l.
Proof. induction l as [|x l IH]; intros k; cbn [enum_from map snd]; [reflexivity|]. now rewrite IH. Qed.

Definition ik (t : tev) : Z * bool := (te_idx t, te_off t).

Lemma sorted_strict L :
  StronglySorted (fun a b => tev_le a b = true) L -> NoDup (map ik L) -> StronglySorted tlt L.
Proof.
  induction 1 as [|a l Hs IH Hf]; intros Hnd; [constructor|].
  cbn [map] in Hnd. inversion Hnd as [|? ? Hn Hr]; subst. constructor; [now apply IH|].
  rewrite Forall_forall in *. intros b Hb. specialize (Hf b Hb).
  assert (Hne : ik a <> ik b) by (intros Heq; apply Hn; rewrite Heq; now apply in_map).
  unfold ik in Hne. unfold tev_le in Hf. unfold tlt.
  destruct (te_off a) eqn:Ea, (te_off b) eqn:Eb; cbn [implb] in Hf;
    destruct (Z.eq_dec (te_idx a) (te_idx b)) as [Hi|Hi]; try (rewrite Hi in Hne; congruence); lia.
Qed.

Lemma no_pitch_overlap_perm l l' : Permutation l l' -> no_pitch_overlap l -> no_pitch_overlap l'.
Proof.
  intros Hp (Hnd & Hdis). split; [eapply Permutation_NoDup; eassumption|].
  intros a b Ha Hb. apply Hdis; eapply Permutation_in; try (symmetry; eassumption); assumption.
Qed.

(** ** perf_notes_roundtrip *)
Theorem perf_notes_roundtrip p dv ns :
  1 <= fp_max_shift p -> (fp_bins p = 0 \/ 1 <= fp_bins p) ->
  Forall (fun n => n_qstart n < n_qend n /\ MIN_MIDI_VELOCITY <= n_vel n) ns ->
  no_pitch_overlap (pf_selected p ns) ->
  Permutation (pf_to_step_notes p dv (pf_from_quantized p ns))
              (map (pf_note_proj (fp_bins p) dv) (pf_selected p ns)).
Proof.
  intros Hms Hnb Hwf Hno. unfold pf_to_step_notes, pf_from_quantized.
  set (sel := pf_sorted_notes (fp_start p) (fp_instrument p) ns).
  set (start := fp_start p). set (nb := fp_bins p).
  assert (Hperm : Permutation sel (pf_selected p ns)) by apply isort_perm.
  assert (Hsel_in : forall n, In n sel -> In n ns /\ start <= n_qstart n).
  { intros n Hn. eapply Permutation_in in Hn; [|exact Hperm]. apply filter_In in Hn. destruct Hn as (Hn & Hk).
    unfold pf_keep in Hk. split; [exact Hn|]. unfold start. lia. }
  rewrite Forall_forall in Hwf.
  assert (Hlen : forall n, In n sel -> n_qstart n < n_qend n) by (intros n Hn; apply Hwf, Hsel_in, Hn).
  assert (Hno' : no_pitch_overlap sel) by (eapply no_pitch_overlap_perm; [symmetry; exact Hperm|exact Hno]).
  set (tes := pf_note_events sel).
  assert (Hvalid : Forall (valid sel) tes).
  { apply Forall_forall. intros t Ht. apply In_note_events in Ht.
    destruct Ht as (i & n & Hi & Hn & [-> | ->]); unfold valid; cbn; auto. }
  assert (Hvel : Forall (fun t => MIN_MIDI_VELOCITY <= n_vel (te_note t)) tes).
  { apply Forall_forall. intros t Ht. apply In_note_events in Ht.
    destruct Ht as (i & n & Hi & Hn & Hcase); apply nth_error_In in Hn;
      destruct (Hwf n (proj1 (Hsel_in n Hn))) as (_ & Hv); destruct Hcase as [-> | ->]; exact Hv. }
  assert (Hinv : vel_inv nb dv 0 dv)
    by (unfold vel_inv; destruct Hnb as [H|H]; [left; auto|right; split; [unfold nb; lia|now left]]).
  pose proof (stageA start nb (fp_max_shift p) dv Hms Hnb tes start 0 dv [] Hvel Hinv) as HA.
  replace (start - start) with 0 in HA by lia. fold tes. rewrite HA.
  pose proof (stageB sel start nb dv Hlen Hno' tes [] start) as HB. cbn [map] in HB.
  etransitivity; [apply Permutation_refl'; apply HB; clear HB|clear HB].
  10:{ (* the offsets, in any order, are the selected notes *)
    unfold tes, pf_note_events.
    rewrite (Permutation_map _ (perm_filter te_off _ _ (isort_perm tev_le _))).
    rewrite filter_app.
    set (e := enum_from 0 sel).
    assert (Hon : filter te_off (map (fun x : Z * note => mkTev (n_qstart (snd x)) (fst x) false (snd x)) e) = []).
    { induction e as [|x e' IHe]; cbn; auto. }
    assert (Hoff : filter te_off (map (fun x : Z * note => mkTev (n_qend (snd x)) (fst x) true (snd x)) e)
                   = map (fun x : Z * note => mkTev (n_qend (snd x)) (fst x) true (snd x)) e).
    { induction e as [|x e' IHe]; cbn; [reflexivity|]. now rewrite IHe. }
    rewrite Hon, Hoff. cbn [app]. rewrite map_map. unfold note_of. cbn [te_note].
    unfold e. rewrite (map_snd_enum (pf_note_proj nb dv) sel 0).
    apply Permutation_map. exact Hperm. }
  - apply sorted_strict; [apply note_events_sorted|].
    eapply Permutation_NoDup; [apply Permutation_map; symmetry; apply isort_perm|].
    rewrite map_app, !map_map. cbn [ik te_idx te_off].
    apply nodup_app; [apply (nodup_enum false)|apply (nodup_enum true)|].
    intros x Hx Hx'. apply in_map_iff in Hx. apply in_map_iff in Hx'.
    destruct Hx as (y & <- & _). destruct Hx' as (z & Hz & _). discriminate.
  - constructor.
  - exact Hvalid.
  - constructor.
  - constructor.
  - intros o [].
  - intros t Ht Hoff. right. apply In_note_events in Ht. destruct Ht as (i & n & Hi & Hn & [-> | ->]); [discriminate|].
    cbn [te_idx te_note off_of]. apply In_note_events. exists i, n. auto.
  - intros t Ht Hoff. apply In_note_events in Ht. destruct Ht as (i & n & Hi & Hn & [-> | ->]); [|discriminate].
    cbn [te_idx te_note on_of]. apply In_note_events. exists i, n. auto.
  - intros t Ht. apply In_note_events in Ht. destruct Ht as (i & n & Hi & Hn & Hcase).
    apply nth_error_In in Hn. pose proof (Hlen n Hn). destruct (Hsel_in n Hn) as (_ & Hs).
    destruct Hcase as [-> | ->]; cbn; lia.
Qed.
