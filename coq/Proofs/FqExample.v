(** Proofs/FqExample.v — a concrete quantized sequence for the non-vacuity example of Props/C07.v. *)
From Coq Require Import ZArith List Bool Lia Permutation Sorted.
From NS Require Import Base.NoteSeq Gen.G07 Model.FqCommon Model.FqMelody Model.FqDrums Model.FqChords
  Model.FqPianoroll Model.FqPerformance Model.FqSpec Proofs.FqCommon Proofs.FqMelody.
Import ListNotations.
Local Open Scope Z_scope.

Definition ex_notes : list note :=
  [ mkNote 36 100 0 1 0 0 true 0 1 0;
    mkNote 60 100 40 44 0 0 false 40 44 0;
    mkNote 60 90 44 46 0 0 false 44 46 0;
    mkNote 64 100 44 45 1 0 false 44 45 0 ].
Definition ex_seq : seq :=
  mkSeq ex_notes [] [mkTsig 0 4 4] [] [mkText 0 2 [67] CHORD_SYMBOL] [] [] [] 46 46 4 0 (0, 0) 220 0.

Lemma c07_nonvacuous :
  steps_per_bar ex_seq = Ok 16 /\
  Forall mel_wf_note ex_notes /\
  Forall (fun n => n_qstart n < n_qend n /\ MIN_MIDI_VELOCITY <= n_vel n) ex_notes /\
  no_pitch_overlap (pf_selected (mkPfParams 0 8 3 None) ex_notes) /\
  (exists r, mel_from_quantized (mkMelParams 0 0 1 false false true) ex_seq = Ok r /\
             me_start r = 32 /\ me_events r = [-2; -2; -2; -2; -2; -2; -2; -2; 60; -2; -2; -2; 60; -2]) /\
  (exists r, pr_from_quantized (mkPrParams 40 21 108 true) ex_seq = Ok r /\
             pe_events r = [[39]; [39]; [39]; []; [39; 43]; [39]]) /\
  (exists r, dr_from_quantized (mkDrParams 0 1 false false) ex_seq = Ok r /\ de_events r = [[36]]) /\
  (exists r, ch_from_quantized ex_seq 0 4 = Ok r /\ ce_events r = [NO_CHORD; NO_CHORD; [67]; [67]]) /\
  sum_shifts (pf_from_quantized (mkPfParams 0 8 3 None) ex_notes) = 46.
Proof.
  split; [reflexivity|].
  split; [repeat constructor; cbv; discriminate|].
  split; [repeat constructor; cbv; discriminate|].
  split.
  { split.
    - repeat constructor; cbn; intuition discriminate.
    - intros a b Ha Hb Hne Hp. cbn in Ha, Hb.
      repeat (destruct Ha as [<-|Ha]; [repeat (destruct Hb as [<-|Hb]; [first [congruence | cbn in *; lia | cbn in Hp; discriminate]|]); try destruct Hb|]);
        destruct Ha. }
  split; [eexists; split; [reflexivity|split; reflexivity]|].
  split; [eexists; split; reflexivity|].
  split; [eexists; split; reflexivity|].
  split; [eexists; split; reflexivity|].
  reflexivity.
Qed.
