(** Proofs/WfTime.v — C11, the operations modelled in Model/TimeOps.v (C13) and
    merge_sequences (Model/WfOps.v): well-formedness is preserved and no note is invented.
    The models and the C13 lemmas are imported read-only. *)
From Coq Require Import ZArith List Bool Lia ZifyBool Permutation.
From NS Require Import Base.Sx Base.NoteSeq Model.Wf Proofs.WfBase
     Model.TimeOps Proofs.TimeOps Proofs.TimeOpsTidy Proofs.TimeOpsConcat Proofs.TimeOpsAdjust.
From NS Require Model.WfOps.
From NS Require Gen.G02 Model.Extract Proofs.TimeOpsExtract Proofs.WfExtract.   (* used qualified *)
Import ListNotations.
Local Open Scope Z_scope.
Ltac Zify.zify_post_hook ::= Z.to_euclidean_division_equations.

(** * A monotone, sign-preserving time map applied to every field *)
Lemma note_t_wf : forall f tot n,
  (forall a b, a <= b -> f a <= f b) -> (forall a, 0 <= a -> 0 <= f a) ->
  note_wf tot n -> note_wf (f tot) (note_t f n).
Proof.
  intros f tot n M P (A & B & C). unfold note_wf, note_t, note_with_times; cbn.
  repeat split; auto.
Qed.

Lemma moved_wf : forall f s r,
  (forall a b, a <= b -> f a <= f b) -> (forall a, 0 <= a -> 0 <= f a) ->
  moved f s r -> s_total r = f (s_total s) -> wf s -> wf r.
Proof.
  intros f s r M P (Hn & Ht & Hts & Hk & Hx & Hc & Hb & Hs) Htot (W0 & Wn & W1 & W2 & W3 & W4 & W5 & W6 & W7).
  apply wf_intro.
  - rewrite Htot. auto.
  - rewrite Hn, Htot. apply Forall_map_iff. eapply Forall_impl; [|exact Wn]. intros n Hnn. apply note_t_wf; auto.
  - assert (F : Forall (fun t => 0 <= t) (map tp_time (s_tempos r))).
    { rewrite Ht. apply Forall_map_iff. eapply Forall_impl; [|exact W1]. cbv beta. auto. }
    apply (proj1 (Forall_map_iff (fun t => 0 <= t) tp_time (s_tempos r))). exact F.
  - rewrite Hts. apply Forall_map_iff. eapply Forall_impl; [|exact W2]. cbn. auto.
  - rewrite Hk. apply Forall_map_iff. eapply Forall_impl; [|exact W3]. cbn. auto.
  - rewrite Hx. apply Forall_map_iff. eapply Forall_impl; [|exact W4]. cbn. auto.
  - rewrite Hc. apply Forall_map_iff. eapply Forall_impl; [|exact W5]. cbn. auto.
  - rewrite Hb. apply Forall_map_iff. eapply Forall_impl; [|exact W6]. cbn. auto.
  - rewrite Hs. apply Forall_map_iff. eapply Forall_impl; [|exact W7]. cbn. auto.
Qed.

(** * shift_sequence_times *)
Lemma shift_ok_inv : forall d s r, shift d s = Ok r -> 0 < d /\ is_quantized s = false.
Proof.
  intros d s r H. unfold shift in H. destruct (d <=? 0) eqn:E; [discriminate|].
  destruct (is_quantized s); [discriminate|]. split; [lia|reflexivity].
Qed.

Lemma wf_shift : forall d s r, wf s -> shift d s = Ok r -> wf r.
Proof.
  intros d s r W H. destruct (shift_ok_inv _ _ _ H) as [Hd Hq].
  destruct (shift_spec d s Hd Hq) as (r' & E & Mv & _ & Tot & _). rewrite H in E. injection E as <-.
  apply (moved_wf (fun t => t + d) s r); auto; intros; lia.
Qed.

Lemma inv_shift : forall d s r, shift d s = Ok r ->
  s_notes r = map (note_t (fun t => t + d)) (s_notes s).
Proof.
  intros d s r H. destruct (shift_ok_inv _ _ _ H) as [Hd Hq].
  destruct (shift_spec d s Hd Hq) as (r' & E & Mv & _). rewrite H in E. injection E as <-. apply Mv.
Qed.

(** * stretch_note_sequence *)
Lemma wf_stretch : forall fn fd s r, 0 < fn -> 0 < fd -> wf s -> stretch fn fd s = Ok r -> wf r.
Proof.
  intros fn fd s r Hn Hd W H.
  assert (Hq : is_quantized s = false).
  { unfold stretch in H. destruct (is_quantized s); [discriminate|reflexivity]. }
  destruct (stretch_spec fn fd s Hn Hd Hq) as (r' & E & Mv & _ & Tot & _). rewrite H in E. injection E as <-.
  apply (moved_wf (mulf fn fd) s r); auto.
  - intros. apply mulf_monotone; lia.
  - intros. apply mulf_nonneg; lia.
Qed.

Lemma inv_stretch : forall fn fd s r, 0 < fn -> 0 < fd -> stretch fn fd s = Ok r ->
  s_notes r = map (note_t (mulf fn fd)) (s_notes s).
Proof.
  intros fn fd s r Hn Hd H.
  assert (Hq : is_quantized s = false).
  { unfold stretch in H. destruct (is_quantized s); [discriminate|reflexivity]. }
  destruct (stretch_spec fn fd s Hn Hd Hq) as (r' & E & Mv & _). rewrite H in E. injection E as <-. apply Mv.
Qed.

(** * remove_redundant_data *)
Lemma subseq_In : forall {A} (l1 l2 : list A), subseq l1 l2 -> forall x, In x l1 -> In x l2.
Proof.
  induction 1; intros y Hy; [contradiction| right; auto |].
  destruct Hy as [<-|Hy]; [now left | right; auto].
Qed.

Lemma tidy_In : forall {A} (key : A -> Z) (same : A -> A -> bool) l x,
  In x (dedup same (sort_by key l)) -> In x l.
Proof.
  intros A key same l x H. apply (sort_by_In key). eapply subseq_In; [apply dedup_subseq | exact H].
Qed.

Lemma wf_remove_redundant : forall s, wf s -> wf (remove_redundant s).
Proof.
  intros s (W0 & Wn & W1 & W2 & W3 & W4 & W5 & W6 & W7). apply wf_intro; cbn; auto.
  - eapply Forall_incl; [|exact W1]. intros x. apply tidy_In.
  - eapply Forall_incl; [|exact W2]. intros x. apply tidy_In.
  - eapply Forall_incl; [|exact W3]. intros x. apply tidy_In.
Qed.

Lemma inv_remove_redundant : forall s, s_notes (remove_redundant s) = s_notes s.
Proof. reflexivity. Qed.

(** * concatenate_sequences *)
Lemma dur_of_ge_total : forall p, piece_ok p -> 0 <= s_total (fst p) <= dur_of p.
Proof.
  intros [s od] (_ & T & D). unfold dur_of. cbn [fst snd] in *. destruct od; lia.
Qed.

Lemma offset_nonneg : forall ps i, Forall piece_ok ps -> 0 <= offset ps i.
Proof.
  unfold offset. induction ps as [|p ps IH]; intros [|i] F; cbn; try lia.
  inversion F; subst. pose proof (dur_of_ge_total p H1). specialize (IH i H2). lia.
Qed.

Lemma end_time_bound : forall ps cur last,
  Forall piece_ok ps -> last <= cur ->
  last <= end_time ps cur last /\
  forall i p, nth_error ps i = Some p -> cur + offset ps i + s_total (fst p) <= end_time ps cur last.
Proof.
  induction ps as [|p ps IH]; intros cur last F L; cbn [end_time].
  - split; [lia|]. intros [|i] q H; discriminate.
  - inversion F; subst. pose proof (dur_of_ge_total p H1) as D.
    destruct (IH (cur + dur_of p) (cur + s_total (fst p)) H2 ltac:(lia)) as [A B].
    split; [lia|]. intros [|i] q Hq; cbn [nth_error] in Hq.
    + injection Hq as <-. unfold offset; cbn. lia.
    + specialize (B i q Hq). unfold offset in *. cbn [firstn map fold_right]. lia.
Qed.

Lemma placed_nonneg : forall {A} (get : seq -> list A) mv (time : A -> Z) ps,
  (forall f e, time (mv f e) = f (time e)) ->
  Forall piece_ok ps -> Forall (fun p => Forall (fun e => 0 <= time e) (get (fst p))) ps ->
  Forall (fun e => 0 <= time e) (placed get mv ps 0).
Proof.
  intros A get mv time ps Hmv F W. apply Forall_forall. intros e He.
  apply placed_In in He. destruct He as (i & p & e0 & off & Hn & Hin & -> & ->).
  rewrite Hmv. pose proof (offset_nonneg ps i F).
  rewrite Forall_forall in W. specialize (W p (nth_error_In _ _ Hn)). rewrite Forall_forall in W.
  specialize (W e0 Hin). lia.
Qed.

Lemma Forall_wf_field : forall {A} (get : seq -> list A) (time : A -> Z) (ps : list (seq * option Z)),
  (forall s, wf s -> Forall (fun e => 0 <= time e) (get s)) ->
  Forall (fun p => wf (fst p)) ps -> Forall (fun p => Forall (fun e => 0 <= time e) (get (fst p))) ps.
Proof. intros A get time ps H F. eapply Forall_impl; [|exact F]. cbv beta. intros p Hp. auto. Qed.

Lemma concat_pairs_piece_ok_wf : forall ps r,
  Forall piece_ok ps -> Forall (fun p => wf (fst p)) ps -> concat_pairs ps = Ok r -> wf r.
Proof.
  intros ps r F W H.
  destruct (concat_pairs_spec ps F) as (r' & E & Hn & Ht & Hts & Hk & Hx & Hc & Hb & Hs & Htot & _).
  rewrite H in E. injection E as <-.
  destruct (end_time_bound ps 0 0 F ltac:(lia)) as [T0 TB].
  apply wf_intro.
  - rewrite Htot. exact T0.
  - rewrite Hn, Htot. apply Forall_forall. intros e He.
    apply placed_In in He. destruct He as (i & p & e0 & off & Hi & Hin & -> & ->).
    pose proof (offset_nonneg ps i F). specialize (TB i p Hi).
    rewrite Forall_forall in W. pose proof (wf_notes _ (W p (nth_error_In _ _ Hi))) as Wn.
    rewrite Forall_forall in Wn. destruct (Wn e0 Hin) as (A & B & C).
    unfold note_wf, note_t, note_with_times; cbn. lia.
  - rewrite Ht. eapply Forall_incl; [intros x; apply tidy_In|].
    apply (placed_nonneg s_tempos tempo_t tp_time); auto.
    apply Forall_wf_field; auto. intros s Ws. apply Ws.
  - rewrite Hts. eapply Forall_incl; [intros x; apply tidy_In|].
    apply (placed_nonneg s_tsigs tsig_t ts_time); auto.
    apply Forall_wf_field; auto. intros s Ws. apply Ws.
  - rewrite Hk. eapply Forall_incl; [intros x; apply tidy_In|].
    apply (placed_nonneg s_ksigs ksig_t ks_time); auto.
    apply Forall_wf_field; auto. intros s Ws. apply Ws.
  - rewrite Hx. apply (placed_nonneg s_texts text_t tx_time); auto.
    apply Forall_wf_field; auto. intros s Ws. apply Ws.
  - rewrite Hc. apply (placed_nonneg s_ccs cc_t cc_time); auto.
    apply Forall_wf_field; auto. intros s Ws. apply Ws.
  - rewrite Hb. apply (placed_nonneg s_bends bend_t pb_time); auto.
    apply Forall_wf_field; auto. intros s Ws. apply Ws.
  - rewrite Hs. apply (placed_nonneg s_sects sect_t sa_time); auto.
    apply Forall_wf_field; auto. intros s Ws. apply Ws.
Qed.

(** success implies that no explicit duration was too short (the ValueError branch) *)
Lemma concat_pairs_ok_piece_ok : forall ps r,
  Forall (fun p => wf (fst p) /\ is_quantized (fst p) = false) ps -> concat_pairs ps = Ok r ->
  Forall piece_ok ps.
Proof.
  intros ps r F H.
  assert (Q : Forall (fun p => is_quantized (fst p) = false) ps)
    by (eapply Forall_impl; [|exact F]; cbv beta; tauto).
  destruct (existsb too_short ps) eqn:E.
  - rewrite (concat_pairs_short ps Q E) in H. discriminate.
  - rewrite Forall_forall in *. intros p Hp. destruct (F p Hp) as [Wp Qp].
    split; [exact Qp|]. split; [apply wf_total; exact Wp|].
    assert (T : too_short p = false).
    { destruct (too_short p) eqn:T; [|reflexivity].
      assert (existsb too_short ps = true) by (apply existsb_exists; exists p; auto). congruence. }
    unfold too_short in T. destruct (snd p); [lia|trivial].
Qed.

Lemma wf_concat_pairs : forall ps r,
  Forall (fun p => wf (fst p) /\ is_quantized (fst p) = false) ps -> concat_pairs ps = Ok r -> wf r.
Proof.
  intros ps r F H. apply (concat_pairs_piece_ok_wf ps r); auto.
  - eapply concat_pairs_ok_piece_ok; eauto.
  - eapply Forall_impl; [|exact F]. cbv beta. tauto.
Qed.

Lemma pair_durations_fst : forall ss ds ps, pair_durations ss ds = Some ps ->
  forall p, In p ps -> In (fst p) ss.
Proof.
  intros ss ds ps H p Hp. unfold pair_durations in H. destruct ds as [|d ds].
  - injection H as <-. apply in_map_iff in Hp. destruct Hp as (s & <- & Hs). exact Hs.
  - destruct (Nat.eqb _ _); [|discriminate]. injection H as <-.
    destruct p as [s od]. apply in_combine_l in Hp. exact Hp.
Qed.

Lemma wf_concatenate : forall ss ds r,
  Forall wf ss -> Forall (fun s => is_quantized s = false) ss -> concatenate ss ds = Ok r -> wf r.
Proof.
  intros ss ds r W Q H. unfold concatenate in H. destruct (pair_durations ss ds) as [ps|] eqn:E; [|discriminate].
  apply (wf_concat_pairs ps r); [|exact H].
  rewrite Forall_forall in *. intros p Hp. pose proof (pair_durations_fst _ _ _ E p Hp). auto.
Qed.

Lemma inv_concat_pairs : forall ps r,
  Forall (fun p => wf (fst p) /\ is_quantized (fst p) = false) ps -> concat_pairs ps = Ok r ->
  came_from (fun n n' => exists off, 0 <= off /\ n' = note_t (fun t => t + off) n)
            (all_notes (map fst ps)) (s_notes r).
Proof.
  intros ps r F H. pose proof (concat_pairs_ok_piece_ok ps r F H) as P.
  destruct (concat_pairs_spec ps P) as (r' & E & Hn & _). rewrite H in E. injection E as <-.
  intros n' Hn'. rewrite Hn in Hn'. apply placed_In in Hn'.
  destruct Hn' as (i & p & e0 & off & Hi & Hin & -> & ->).
  exists e0. split.
  - unfold all_notes. apply in_flat_map. exists (fst p). split; [|exact Hin].
    apply in_map. eapply nth_error_In; eauto.
  - exists (0 + offset ps i). split; [|reflexivity]. pose proof (offset_nonneg ps i P). lia.
Qed.

Lemma inv_concatenate : forall ss ds r,
  Forall wf ss -> Forall (fun s => is_quantized s = false) ss -> concatenate ss ds = Ok r ->
  came_from (fun n n' => exists off, 0 <= off /\ n' = note_t (fun t => t + off) n) (all_notes ss) (s_notes r).
Proof.
  intros ss ds r W Q H. unfold concatenate in H. destruct (pair_durations ss ds) as [ps|] eqn:E; [|discriminate].
  assert (F : Forall (fun p => wf (fst p) /\ is_quantized (fst p) = false) ps).
  { rewrite Forall_forall in *. intros p Hp. pose proof (pair_durations_fst _ _ _ E p Hp). auto. }
  intros n' Hn'. destruct (inv_concat_pairs ps r F H n' Hn') as (n & Hn & R). exists n. split; [|exact R].
  unfold all_notes in *. apply in_flat_map in Hn. destruct Hn as (s & Hs & Hns).
  apply in_flat_map. exists s. split; [|exact Hns].
  apply in_map_iff in Hs. destruct Hs as (p & <- & Hp). eapply pair_durations_fst; eauto.
Qed.

(** * repeat_sequence_to_duration: the window cut *)
Lemma max_end_ge : forall l m, m <= fold_left (fun m n => Z.max m (n_end n)) l m /\
  Forall (fun n => n_end n <= fold_left (fun m n => Z.max m (n_end n)) l m) l.
Proof.
  induction l as [|x r IH]; intros m; cbn [fold_left]; [split; [lia|constructor]|].
  destruct (IH (Z.max m (n_end x))) as [A B]. split; [lia|]. constructor; [lia|exact B].
Qed.

Lemma window_state_nonneg : forall {A} (time : A -> Z) (retime : (Z -> Z) -> A -> A) d l,
  (forall f e, time (retime f e) = f (time e)) ->
  Forall (fun e => 0 <= time e) (window_state time retime d l).
Proof.
  intros A time retime d l Hr. unfold window_state. apply Forall_app. split.
  - destruct (rev _); constructor; [|constructor]. rewrite Hr. lia.
  - apply Forall_forall. intros e He. apply filter_In in He. lia.
Qed.

Lemma wf_clear_sub : forall p, wf p -> wf (clear_sub p).
Proof. intros p (W0 & Wn & W1 & W2 & W3 & W4 & W5 & W6 & W7). apply wf_intro; cbn; auto. Qed.

(** The window cut is C02's extract_subsequence(c, 0, d) ([C13_window_is_extract], pedal
    control changes included), so its result is well-formed by the C02 corollary. *)
Lemma wf_window : forall d c r, wf c -> window d c = Ok r -> wf r.
Proof.
  intros d c r W H. rewrite TimeOpsExtract.window_is_extract in H.
  destruct (Extract.extract_subsequence G02.DEFAULT_PRESERVE c 0 d) as [p|e] eqn:E;
    cbn [TimeOpsExtract.of_xres] in H; [|discriminate].
  injection H as <-. apply wf_clear_sub. eapply WfExtract.wf_extract_subsequence; eauto.
Qed.

Lemma wf_repeat : forall s d osd r,
  wf s -> is_quantized s = false -> repeat_to_duration s d osd = Ok r -> wf r.
Proof.
  intros s d osd r W Q H. unfold repeat_to_duration in H.
  destruct (repeat_pairs s d osd) as [ps|] eqn:E; [|discriminate].
  destruct (concat_pairs ps) as [c|] eqn:C; [|discriminate].
  assert (F : Forall (fun p => wf (fst p) /\ is_quantized (fst p) = false) ps).
  { rewrite repeat_pairs_eq in E. destruct (eff_dur s osd =? 0); [discriminate|]. injection E as <-.
    apply Forall_forall. intros p Hp. apply List.repeat_spec in Hp. subst p. cbn. auto. }
  pose proof (wf_concat_pairs ps c F C) as Wc.
  exact (wf_window d c r Wc H).
Qed.

Lemma inv_repeat : forall s d osd r,
  wf s -> is_quantized s = false -> repeat_to_duration s d osd = Ok r ->
  came_from (fun n n' => exists off, 0 <= off /\
               n' = note_with_times n (n_start n + off) (Z.min (n_end n + off) d) /\ 0 <= n_start n + off < d)
            (s_notes s) (s_notes r).
Proof.
  intros s d osd r W Q H. unfold repeat_to_duration in H.
  destruct (repeat_pairs s d osd) as [ps|] eqn:E; [|discriminate].
  destruct (concat_pairs ps) as [c|] eqn:C; [|discriminate].
  assert (Eps : forall p, In p ps -> fst p = s).
  { rewrite repeat_pairs_eq in E. destruct (eff_dur s osd =? 0); [discriminate|]. injection E as <-.
    intros p Hp. apply List.repeat_spec in Hp. subst p. reflexivity. }
  assert (F : Forall (fun p => wf (fst p) /\ is_quantized (fst p) = false) ps).
  { apply Forall_forall. intros p Hp. rewrite (Eps p Hp). auto. }
  pose proof (inv_concat_pairs ps c F C) as I.
  unfold window in H. destruct (is_quantized c); [discriminate|]. destruct (d <? 0); [discriminate|].
  destruct (s_total c <=? 0); [discriminate|]. injection H as <-. cbn [s_notes].
  intros n' Hn'. apply window_notes_In in Hn'. destruct Hn' as (m & Hm & Hr & ->).
  destruct (I m Hm) as (n & Hn & off & Hoff & ->). exists n. split.
  - unfold all_notes in Hn. apply in_flat_map in Hn. destruct Hn as (s0 & Hs0 & Hn).
    apply in_map_iff in Hs0. destruct Hs0 as (p & <- & Hp). rewrite (Eps p Hp) in Hn. exact Hn.
  - exists off. destruct n; unfold note_t, note_with_times in *; cbn in *. repeat split; auto; lia.
Qed.

(** * adjust_notesequence_times: whatever the time function, an accepted result is well-formed *)
Definition adj_note_ok (f : Z -> Z) (src : list note) (tot : Z) (n' : note) : Prop :=
  0 <= n_start n' /\ n_start n' <= n_end n' /\ n_end n' <= tot /\
  exists n, In n src /\ n' = note_with_times n (f (n_start n)) (n_end n').

Lemma adjust_notes_inv : forall f md src l acc tot sk ns tot' sk',
  (forall n, In n l -> In n src) -> 0 <= tot -> Forall (adj_note_ok f src tot) acc ->
  adjust_notes f md l acc tot sk = Ok (ns, tot', sk') ->
  0 <= tot' /\ Forall (adj_note_ok f src tot') ns.
Proof.
  intros f md src. induction l as [|n r IH]; intros acc tot sk ns tot' sk' Hsrc H0 Hacc H; cbn [adjust_notes] in H.
  - injection H as <- <- <-. split; [exact H0|]. apply Forall_forall. intros x Hx. apply in_rev in Hx.
    rewrite Forall_forall in Hacc. auto.
  - assert (Hr : forall m, In m r -> In m src) by (intros; apply Hsrc; now right).
    destruct ((f (n_start n) =? f (n_end n)) && negb (match md with Some m => negb (m =? 0) | None => false end)) eqn:E1.
    + eapply IH; eauto.
    + set (en := if f (n_start n) =? f (n_end n)
                 then f (n_end n) + match md with Some m => m | None => 0 end else f (n_end n)) in *.
      destruct (en <? f (n_start n)) eqn:E2; [discriminate|].
      destruct (f (n_start n) <? 0) eqn:E3; [discriminate|].
      destruct (en <? 0) eqn:E4; [discriminate|].
      eapply IH; [exact Hr| |  |exact H]; [lia|].
      constructor.
      * unfold adj_note_ok. destruct n; unfold note_with_times; cbn in *. repeat split; try lia.
        eexists. split; [apply Hsrc; left; reflexivity|]. reflexivity.
      * eapply Forall_impl; [|exact Hacc]. intros x (A & B & C & D). unfold adj_note_ok. repeat split; auto; lia.
Qed.

Lemma any_neg_false : forall {A} f (time : A -> Z) l, any_neg f time l = false ->
  Forall (fun e => 0 <= f (time e)) l.
Proof.
  intros A f time l H. apply Forall_forall. intros e He. unfold any_neg in H.
  destruct (f (time e) <? 0) eqn:E; [|lia].
  assert (existsb (fun e => f (time e) <? 0) l = true) by (apply existsb_exists; exists e; auto). congruence.
Qed.

Lemma adjust_ok_inv : forall f md s r k, adjust f md s = Ok (r, k) ->
  0 <= s_total r /\ Forall (adj_note_ok f (s_notes s) (s_total r)) (s_notes r) /\
  s_tempos r = [] /\ s_tsigs r = map (tsig_t f) (s_tsigs s) /\ s_ksigs r = map (ksig_t f) (s_ksigs s) /\
  s_texts r = map (text_t f) (s_texts s) /\ s_ccs r = map (cc_t f) (s_ccs s) /\
  s_bends r = map (bend_t f) (s_bends s) /\ s_sects r = map (sect_t f) (s_sects s) /\
  Forall (fun e => 0 <= f (ts_time e)) (s_tsigs s) /\ Forall (fun e => 0 <= f (ks_time e)) (s_ksigs s) /\
  Forall (fun e => 0 <= f (tx_time e)) (s_texts s) /\ Forall (fun e => 0 <= f (cc_time e)) (s_ccs s) /\
  Forall (fun e => 0 <= f (pb_time e)) (s_bends s) /\ Forall (fun e => 0 <= f (sa_time e)) (s_sects s).
Proof.
  intros f md s r k H. unfold adjust in H.
  destruct (adjust_notes f md (s_notes s) [] 0 0) as [[[ns tot] sk]|] eqn:E; [|discriminate].
  destruct (any_neg f cc_time (s_ccs s)) eqn:A1; [discriminate|].
  destruct (any_neg f pb_time (s_bends s)) eqn:A2; [discriminate|].
  destruct (any_neg f ts_time (s_tsigs s)) eqn:A3; [discriminate|].
  destruct (any_neg f ks_time (s_ksigs s)) eqn:A4; [discriminate|].
  destruct (any_neg f tx_time (s_texts s)) eqn:A5; [discriminate|].
  destruct (any_neg f sa_time (s_sects s)) eqn:A6; [discriminate|].
  cbn [orb] in H. injection H as <- <-.
  destruct (adjust_notes_inv f md (s_notes s) _ _ _ _ _ _ _ (fun n Hn => Hn) (Z.le_refl 0) (Forall_nil _) E) as [T N].
  cbn [s_total s_notes s_tempos s_tsigs s_ksigs s_texts s_ccs s_bends s_sects].
  repeat split; auto using any_neg_false.
Qed.

Lemma wf_adjust : forall f md s r k, adjust f md s = Ok (r, k) -> wf r.
Proof.
  intros f md s r k H.
  destruct (adjust_ok_inv _ _ _ _ _ H) as (T & N & E1 & E2 & E3 & E4 & E5 & E6 & E7 & F2 & F3 & F4 & F5 & F6 & F7).
  apply wf_intro; auto.
  - eapply Forall_impl; [|exact N]. intros n (A & B & C & _). unfold note_wf. auto.
  - rewrite E1. constructor.
  - rewrite E2. apply Forall_map_iff. exact F2.
  - rewrite E3. apply Forall_map_iff. exact F3.
  - rewrite E4. apply Forall_map_iff. exact F4.
  - rewrite E5. apply Forall_map_iff. exact F5.
  - rewrite E6. apply Forall_map_iff. exact F6.
  - rewrite E7. apply Forall_map_iff. exact F7.
Qed.

Lemma inv_adjust : forall f md s r k, adjust f md s = Ok (r, k) ->
  came_from (fun n n' => same_but_times n n' /\ n_start n' = f (n_start n)) (s_notes s) (s_notes r).
Proof.
  intros f md s r k H. destruct (adjust_ok_inv _ _ _ _ _ H) as (_ & N & _).
  intros n' Hn'. rewrite Forall_forall in N. destruct (N n' Hn') as (_ & _ & _ & n & Hn & E).
  exists n. split; [exact Hn|]. unfold same_but_times. rewrite E at 1. destruct n; unfold note_with_times; cbn.
  rewrite E. cbn. split; reflexivity.
Qed.

(** * rectify_beats *)
Lemma rectify_ok_inv : forall bpm s r xs S, rectify bpm s = Ok (r, xs, S) ->
  exists a k, adjust (rect_fun xs S) None s = Ok (a, k) /\ xs = rect_beats s /\ S = prod (deltas xs) /\
    r = mkSeq (s_notes a) [mkTempo 0 bpm] [] (s_ksigs a) (s_texts a) (s_ccs a) (s_bends a)
              (s_sects a) (s_total a) (s_qsteps a) (s_spq a) (s_sps a) (s_sub a) (s_tpq a) (s_rest a).
Proof.
  intros bpm s r xs S H. unfold rectify in H. destruct (is_quantized s); [discriminate|].
  destruct (beat_times s); [discriminate|]. destruct (bpm =? 0); [discriminate|].
  destruct (adjust _ None s) as [[a k]|] eqn:E; [|discriminate]. injection H as <- <- <-.
  exists a, k. repeat split; auto.
Qed.

Lemma wf_rectify : forall bpm s r xs S, rectify bpm s = Ok (r, xs, S) -> wf r.
Proof.
  intros bpm s r xs S H. destruct (rectify_ok_inv _ _ _ _ _ H) as (a & k & Ha & _ & _ & ->).
  pose proof (wf_adjust _ _ _ _ _ Ha) as (W0 & Wn & W1 & W2 & W3 & W4 & W5 & W6 & W7).
  apply wf_intro; cbn; auto. constructor; [cbn; lia|constructor].
Qed.

Lemma inv_rectify : forall bpm s r xs S, rectify bpm s = Ok (r, xs, S) ->
  came_from (fun n n' => same_but_times n n' /\ n_start n' = rect_fun xs S (n_start n)) (s_notes s) (s_notes r).
Proof.
  intros bpm s r xs S H. destruct (rectify_ok_inv _ _ _ _ _ H) as (a & k & Ha & _ & _ & ->).
  cbn [s_notes]. exact (inv_adjust _ _ _ _ _ Ha).
Qed.

(** * merge_sequences (Model/WfOps.v) *)
Lemma merge_all_fields : forall ss acc,
  let m := fold_left merge ss acc in
  s_notes m = s_notes acc ++ flat_map s_notes ss /\
  s_tempos m = s_tempos acc ++ flat_map s_tempos ss /\
  s_tsigs m = s_tsigs acc ++ flat_map s_tsigs ss /\
  s_ksigs m = s_ksigs acc ++ flat_map s_ksigs ss /\
  s_texts m = s_texts acc ++ flat_map s_texts ss /\
  s_ccs m = s_ccs acc ++ flat_map s_ccs ss /\
  s_bends m = s_bends acc ++ flat_map s_bends ss /\
  s_sects m = s_sects acc ++ flat_map s_sects ss.
Proof.
  induction ss as [|s ss IH]; intros acc; cbn [fold_left flat_map].
  - rewrite !app_nil_r. repeat split; reflexivity.
  - destruct (IH (merge acc s)) as (A1 & A2 & A3 & A4 & A5 & A6 & A7 & A8). cbv zeta.
    rewrite A1, A2, A3, A4, A5, A6, A7, A8. cbn [merge s_notes s_tempos s_tsigs s_ksigs s_texts s_ccs s_bends s_sects].
    rewrite <- !app_assoc. repeat split; reflexivity.
Qed.

Lemma max_total_ge : forall ss m,
  m <= fold_left (fun m s => Z.max m (s_total s)) ss m /\
  forall s, In s ss -> s_total s <= fold_left (fun m s => Z.max m (s_total s)) ss m.
Proof.
  induction ss as [|x r IH]; intros m; cbn [fold_left]; [split; [lia|intros ? []]|].
  destruct (IH (Z.max m (s_total x))) as [A B]. split; [lia|]. intros s [<-|Hs]; [lia|auto].
Qed.

Lemma Forall_flat_map : forall {A B} (P : B -> Prop) (g : A -> list B) l,
  Forall (fun x => Forall P (g x)) l -> Forall P (flat_map g l).
Proof.
  intros A B P g l H. apply Forall_forall. intros y Hy. apply in_flat_map in Hy. destruct Hy as (x & Hx & Hy).
  rewrite Forall_forall in H. specialize (H x Hx). rewrite Forall_forall in H. auto.
Qed.

Lemma wf_merge_sequences : forall ss, Forall wf ss -> wf (WfOps.merge_sequences ss).
Proof.
  intros ss W. unfold WfOps.merge_sequences. apply wf_remove_redundant.
  destruct (merge_all_fields ss empty_seq) as (A1 & A2 & A3 & A4 & A5 & A6 & A7 & A8). cbv zeta in *.
  destruct (max_total_ge ss 0) as [M0 MB].
  apply wf_intro; cbn [clear_sub WfOps.with_total WfOps.merge_all WfOps.max_total
                       s_total s_notes s_tempos s_tsigs s_ksigs s_texts s_ccs s_bends s_sects];
    unfold WfOps.merge_all, WfOps.max_total.
  - exact M0.
  - rewrite A1. cbn [empty_seq s_notes app]. apply Forall_forall. intros n Hn.
    apply in_flat_map in Hn. destruct Hn as (s & Hs & Hn). rewrite Forall_forall in W.
    pose proof (wf_notes _ (W s Hs)) as Wn. rewrite Forall_forall in Wn. destruct (Wn n Hn) as (A & B & C).
    specialize (MB s Hs). unfold note_wf. lia.
  - rewrite A2. cbn [empty_seq s_tempos app]. apply Forall_flat_map. eapply Forall_impl; [|exact W]. intros s Ws. apply Ws.
  - rewrite A3. cbn [empty_seq s_tsigs app]. apply Forall_flat_map. eapply Forall_impl; [|exact W]. intros s Ws. apply Ws.
  - rewrite A4. cbn [empty_seq s_ksigs app]. apply Forall_flat_map. eapply Forall_impl; [|exact W]. intros s Ws. apply Ws.
  - rewrite A5. cbn [empty_seq s_texts app]. apply Forall_flat_map. eapply Forall_impl; [|exact W]. intros s Ws. apply Ws.
  - rewrite A6. cbn [empty_seq s_ccs app]. apply Forall_flat_map. eapply Forall_impl; [|exact W]. intros s Ws. apply Ws.
  - rewrite A7. cbn [empty_seq s_bends app]. apply Forall_flat_map. eapply Forall_impl; [|exact W]. intros s Ws. apply Ws.
  - rewrite A8. cbn [empty_seq s_sects app]. apply Forall_flat_map. eapply Forall_impl; [|exact W]. intros s Ws. apply Ws.
Qed.

Lemma inv_merge_sequences : forall ss, s_notes (WfOps.merge_sequences ss) = all_notes ss.
Proof.
  intros ss. unfold WfOps.merge_sequences, WfOps.merge_all, all_notes.
  cbn [remove_redundant clear_sub WfOps.with_total s_notes].
  destruct (merge_all_fields ss empty_seq) as (A1 & _). cbv zeta in A1. rewrite A1. reflexivity.
Qed.
