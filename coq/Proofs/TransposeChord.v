(** Proofs/TransposeChord.v — the pitch-class walk is a homomorphism onto Z/12 and
    chord-symbol transposition moves root, bass and every pitch class by k (C10). *)
From Coq Require Import ZArith List Bool Lia ZifyBool.
From NS Require Import Gen.G10 Model.ChordTranspose.
Import ListNotations.
Local Open Scope Z_scope.
Ltac Zify.zify_post_hook ::= Z.to_euclidean_division_equations.

(** * The seven step letters *)
Definition all_steps : list step := [SA; SB; SC; SD; SE; SF; SG].

Lemma all_steps_complete s : In s all_steps.
Proof. destruct s; cbn; tauto. Qed.

Lemma step_of_idx_idx s : step_of_idx (step_idx s) = s.
Proof. destruct s; reflexivity. Qed.

Lemma step_idx_range s : 0 <= step_idx s < 7.
Proof. destruct s; cbn; lia. Qed.

Lemma step_idx_of_idx i : 0 <= i < 7 -> step_idx (step_of_idx i) = i.
Proof.
  intros H. assert (i = 0 \/ i = 1 \/ i = 2 \/ i = 3 \/ i = 4 \/ i = 5 \/ i = 6) as D by lia.
  destruct D as [->|[->|[->|[->|[->|[->| ->]]]]]]; reflexivity.
Qed.

(** Table facts, re-checked against the regenerated Gen/G10.v on every run:
    one step up is [_STEPS_ABOVE] semitones up in [_STEPS_MIDI] (mod 12), and
    every entry of [_STEPS_ABOVE] is positive. *)
Definition step_tables_ok (s : step) : bool :=
  ((steps_midi (next_step s)) mod 12 =? (steps_midi s + steps_above s) mod 12) && (1 <=? steps_above s).

Lemma step_tables_all : forallb step_tables_ok all_steps = true.
Proof. vm_compute. reflexivity. Qed.

Lemma step_tables s :
  (steps_midi (next_step s)) mod 12 = (steps_midi s + steps_above s) mod 12 /\ 1 <= steps_above s.
Proof.
  pose proof (proj1 (forallb_forall _ _) step_tables_all s (all_steps_complete s)) as H.
  unfold step_tables_ok in H. apply andb_true_iff in H. destruct H as [H1 H2].
  split; [apply Z.eqb_eq in H1; exact H1 | apply Z.leb_le in H2; exact H2].
Qed.

(** * The walk: complete enumeration of the 7 x 12 (step, amount) pairs *)
Definition amounts12 : list Z := [0; 1; 2; 3; 4; 5; 6; 7; 8; 9; 10; 11].

Definition walk_ok (s : step) (amt : Z) : bool :=
  match tpc_walk TPC_FUEL amt s with
  | None => false
  | Some (a', s') =>
      (0 <=? a') && (a' <? steps_above s') &&
      ((steps_midi s' + a') mod 12 =? (steps_midi s + amt) mod 12)
  end.

Lemma walk_ok_all : forallb (fun s => forallb (walk_ok s) amounts12) all_steps = true.
Proof. vm_compute. reflexivity. Qed.

Lemma amounts12_complete a : 0 <= a < 12 -> In a amounts12.
Proof.
  intros H. unfold amounts12. cbn.
  assert (a = 0 \/ a = 1 \/ a = 2 \/ a = 3 \/ a = 4 \/ a = 5 \/ a = 6 \/ a = 7 \/ a = 8 \/ a = 9 \/ a = 10 \/ a = 11)
    as D by lia.
  intuition auto.
Qed.

(* the loop terminates within the fuel, leaves less than one step, and accounts
   for every semitone it consumed *)
Lemma tpc_walk_spec s amt :
  0 <= amt < 12 ->
  exists a' s', tpc_walk TPC_FUEL amt s = Some (a', s') /\
                0 <= a' < steps_above s' /\
                (steps_midi s' + a') mod 12 = (steps_midi s + amt) mod 12.
Proof.
  intros H.
  pose proof (proj1 (forallb_forall _ _) walk_ok_all s (all_steps_complete s)) as Hs. cbn beta in Hs.
  pose proof (proj1 (forallb_forall _ _) Hs amt (amounts12_complete amt H)) as Ha.
  unfold walk_ok in Ha.
  destruct (tpc_walk TPC_FUEL amt s) as [[a' s']|]; [|discriminate].
  exists a', s'. split; [reflexivity|].
  apply andb_true_iff in Ha. destruct Ha as [Ha H3]. apply andb_true_iff in Ha. destruct Ha as [H1 H2].
  apply Z.leb_le in H1. apply Z.ltb_lt in H2. apply Z.eqb_eq in H3. repeat split; assumption.
Qed.

(** * tpc_hom: for every step letter, every alteration and every k *)
Theorem tpc_hom s alter k :
  exists q, transpose_pc (s, alter) k = Some q /\
            pc_midi q = (pc_midi (s, alter) + k) mod 12.
Proof.
  assert (0 <= k mod 12 < 12) as Hk by (apply Z.mod_pos_bound; lia).
  destruct (tpc_walk_spec s (k mod 12) Hk) as (a' & s' & Hw & Ha & Hm).
  unfold transpose_pc. rewrite Hw.
  destruct (step_tables s') as [Hn Hp].
  unfold pc_midi in *. cbn [fst snd] in *.
  remember (steps_midi s') as M'. remember (steps_midi s) as M.
  remember (steps_midi (next_step s')) as N'. remember (steps_above s') as A.
  destruct (0 <? a') eqn:E1.
  - destruct (0 <=? alter) eqn:E2; eexists; (split; [reflexivity|]); cbn [fst snd];
      rewrite <- ?HeqN'; lia.
  - eexists; split; [reflexivity|]. cbn [fst snd]. rewrite <- HeqM'. lia.
Qed.

Corollary transpose_pc_total p k : exists q, transpose_pc p k = Some q.
Proof. destruct p as [s a]. destruct (tpc_hom s a k) as (q & H & _). eauto. Qed.

Lemma transpose_pc_midi p k q :
  transpose_pc p k = Some q -> pc_midi q = (pc_midi p + k) mod 12.
Proof.
  destruct p as [s a]. intros H. destruct (tpc_hom s a k) as (q' & H1 & H2).
  rewrite H in H1. inversion H1; subst. exact H2.
Qed.

(* only k mod 12 matters (ChordProgression.transpose passes k % 12) *)
Lemma transpose_pc_mod p k : transpose_pc p (k mod 12) = transpose_pc p k.
Proof. destruct p as [s a]. unfold transpose_pc. rewrite Z.mod_mod by lia. reflexivity. Qed.

(* transposing by a multiple of 12 leaves the spelling alone *)
Lemma transpose_pc_zero p k : k mod 12 = 0 -> transpose_pc p k = Some p.
Proof.
  destruct p as [s a]. intros H. unfold transpose_pc. rewrite H.
  destruct (step_tables s) as [_ Hp].
  unfold TPC_FUEL. cbn [tpc_walk].
  destruct (steps_above s <=? 0) eqn:E; [lia|]. reflexivity.
Qed.

(** * Chord symbols *)
Lemma transpose_chord_total c k : exists c', transpose_chord c k = Some c'.
Proof.
  unfold transpose_chord.
  destruct (transpose_pc_total (c_root c) k) as [r ->].
  destruct (c_bass c) as [b|]; [|eauto].
  destruct (transpose_pc_total b k) as [b' ->]. eauto.
Qed.

Lemma transpose_chord_shape c k c' :
  transpose_chord c k = Some c' ->
  transpose_pc (c_root c) k = Some (c_root c') /\
  c_kind c' = c_kind c /\ c_mods c' = c_mods c /\
  match c_bass c, c_bass c' with
  | None, None => True
  | Some b, Some b' => transpose_pc b k = Some b'
  | _, _ => False
  end.
Proof.
  unfold transpose_chord. intros H.
  destruct (transpose_pc (c_root c) k) as [r|] eqn:Er; [|discriminate].
  destruct (c_bass c) as [b|].
  - destruct (transpose_pc b k) as [b'|] eqn:Eb; [|discriminate].
    inversion H; subst; cbn. auto.
  - inversion H; subst; cbn. auto.
Qed.

Lemma chord_degrees_kind_mods c c' :
  c_kind c' = c_kind c -> c_mods c' = c_mods c -> chord_degrees c' = chord_degrees c.
Proof. unfold chord_degrees. intros -> ->. reflexivity. Qed.

Lemma degree_pitch_shift r k p :
  degree_pitch ((r + k) mod 12) p = (degree_pitch r p + k) mod 12.
Proof. unfold degree_pitch. lia. Qed.

Definition shift_pc (k p : Z) : Z := (p + k) mod 12.

(** chord_transpose_hom: transposition never fails on a symbol the grammar
    accepted; root, bass and every pitch class (in dict order, hence also as a
    set) move by k mod 12; kind, modifications and quality are unchanged; the
    pitch / quality queries fail on the transposed symbol iff they fail on the
    original one. *)
Theorem chord_transpose_hom c k :
  exists c', transpose_chord c k = Some c' /\
    chord_root_pc c' = shift_pc k (chord_root_pc c) /\
    chord_bass_pc c' = shift_pc k (chord_bass_pc c) /\
    c_kind c' = c_kind c /\ c_mods c' = c_mods c /\
    (c_bass c' = None <-> c_bass c = None) /\
    chord_pitches c' = option_map (map (shift_pc k)) (chord_pitches c) /\
    chord_quality c' = chord_quality c.
Proof.
  destruct (transpose_chord_total c k) as [c' H]. exists c'. split; [exact H|].
  destruct (transpose_chord_shape c k c' H) as (Hr & Hk & Hm & Hb).
  pose proof (transpose_pc_midi _ _ _ Hr) as Hroot.
  pose proof (chord_degrees_kind_mods c c' Hk Hm) as Hd.
  unfold shift_pc.
  repeat split.
  - unfold chord_root_pc. exact Hroot.
  - unfold chord_bass_pc.
    destruct (c_bass c) as [b|], (c_bass c') as [b'|]; try contradiction.
    + apply transpose_pc_midi. exact Hb.
    + exact Hroot.
  - exact Hk.
  - exact Hm.
  - destruct (c_bass c), (c_bass c'); try contradiction; intros; congruence.
  - destruct (c_bass c), (c_bass c'); try contradiction; intros; congruence.
  - unfold chord_pitches. rewrite Hd. destruct (chord_degrees c) as [d|]; [|reflexivity].
    cbn [option_map]. f_equal. rewrite map_map. apply map_ext. intros p.
    rewrite Hroot. apply degree_pitch_shift.
  - unfold chord_quality. rewrite Hd. reflexivity.
Qed.

(* k then -k, and any multiple of 12, are the identity on root, bass and pitch classes *)
Lemma shift_pc_inv k p : 0 <= p < 12 -> shift_pc (- k) (shift_pc k p) = p.
Proof. unfold shift_pc. lia. Qed.

Lemma pc_midi_range p : 0 <= pc_midi p < 12.
Proof. unfold pc_midi. apply Z.mod_pos_bound. lia. Qed.

Theorem chord_transpose_roundtrip c k :
  exists c1 c2, transpose_chord c k = Some c1 /\ transpose_chord c1 (- k) = Some c2 /\
    chord_root_pc c2 = chord_root_pc c /\ chord_bass_pc c2 = chord_bass_pc c /\
    c_kind c2 = c_kind c /\ c_mods c2 = c_mods c /\
    chord_pitches c2 = chord_pitches c /\ chord_quality c2 = chord_quality c.
Proof.
  destruct (chord_transpose_hom c k) as (c1 & H1 & R1 & B1 & K1 & M1 & _ & P1 & Q1).
  destruct (chord_transpose_hom c1 (- k)) as (c2 & H2 & R2 & B2 & K2 & M2 & _ & P2 & Q2).
  exists c1, c2. repeat split; try assumption; try congruence.
  - rewrite R2, R1. apply shift_pc_inv. apply pc_midi_range.
  - rewrite B2, B1. apply shift_pc_inv. unfold chord_bass_pc. destruct (c_bass c); apply pc_midi_range.
  - rewrite P2, P1. unfold chord_pitches. destruct (chord_degrees c) as [d|]; [|reflexivity].
    cbn [option_map]. f_equal. rewrite !map_map.
    apply map_ext. intros p. apply shift_pc_inv. unfold degree_pitch. apply Z.mod_pos_bound. lia.
Qed.

Theorem chord_transpose_octave c k :
  k mod 12 = 0 -> transpose_chord c k = Some c.
Proof.
  intros H. unfold transpose_chord. rewrite transpose_pc_zero by exact H.
  destruct c as [r kd ms [b|]]; cbn; [rewrite transpose_pc_zero by exact H|]; reflexivity.
Qed.

(** * Figure codes *)
Definition mod_ok (m : Z * Z) : bool := idx_ok (fst m) (Z.of_nat (length DEGREE_MODS)) && (0 <=? snd m).
Definition chord_wf (c : chord) : bool :=
  idx_ok (c_kind c) (Z.of_nat (length KIND_DEGREES)) && forallb mod_ok (c_mods c).

Lemma mods_code_roundtrip ms : forallb mod_ok ms = true -> mods_of_code (code_mods ms) = Some ms.
Proof.
  induction ms as [|[m d] r IH]; [reflexivity|].
  cbn [forallb code_mods mods_of_code]. intros H. apply andb_true_iff in H. destruct H as [H1 H2].
  unfold mod_ok in H1. cbn [fst snd] in H1. rewrite H1. rewrite IH by exact H2. reflexivity.
Qed.

Lemma mods_of_code_ok : forall l ms, mods_of_code l = Some ms -> forallb mod_ok ms = true /\ code_mods ms = l.
Proof.
  fix IH 1. intros l ms. destruct l as [|m [|d r]]; cbn [mods_of_code].
  - intros H. inversion H. split; reflexivity.
  - discriminate.
  - destruct (idx_ok m (Z.of_nat (length DEGREE_MODS)) && (0 <=? d)) eqn:E; [|discriminate].
    destruct (mods_of_code r) as [ms'|] eqn:Er; [|discriminate].
    intros H. inversion H; subst. destruct (IH r ms' Er) as [H1 H2].
    cbn [forallb code_mods]. unfold mod_ok at 1. cbn [fst snd]. rewrite E, H1, H2. split; reflexivity.
Qed.

Lemma idx_ok_step s : idx_ok (step_idx s) 7 = true.
Proof. destruct s; reflexivity. Qed.

Theorem code_roundtrip c : chord_wf c = true -> chord_of_code (code_of_chord c) = Some c.
Proof.
  unfold chord_wf. intros H. apply andb_true_iff in H. destruct H as [Hk Hm].
  destruct c as [[rs ra] kd ms [[bs ba]|]]; unfold code_of_chord, chord_of_code; cbn [fst snd c_root c_kind c_bass c_mods] in *;
    rewrite idx_ok_step, Hk, (mods_code_roundtrip ms Hm); cbn [andb].
  - cbn [Z.eqb Pos.eqb]. rewrite idx_ok_step, !step_of_idx_idx. reflexivity.
  - cbn [Z.eqb andb]. rewrite step_of_idx_idx. reflexivity.
Qed.

Theorem decode_wf t c : chord_of_code t = Some c -> chord_wf c = true /\ code_of_chord c = t.
Proof.
  unfold chord_of_code.
  destruct t as [|rs [|ra [|kd [|hb [|bs [|ba ms]]]]]]; try discriminate.
  destruct (idx_ok rs 7 && idx_ok kd (Z.of_nat (length KIND_DEGREES))) eqn:E; [|discriminate].
  apply andb_true_iff in E. destruct E as [E1 E2].
  destruct (mods_of_code ms) as [mods|] eqn:Em; [|discriminate].
  destruct (mods_of_code_ok ms mods Em) as [Hm Hc].
  assert (0 <= rs < 7) as Hrs by (unfold idx_ok in E1; lia).
  destruct (hb =? 1) eqn:Eh.
  - destruct (idx_ok bs 7) eqn:Eb; [|discriminate].
    assert (0 <= bs < 7) as Hbs by (unfold idx_ok in Eb; lia).
    intros H. inversion H; subst. unfold chord_wf, code_of_chord. cbn [c_kind c_mods c_root c_bass fst snd].
    rewrite E2, Hm, !step_idx_of_idx by assumption. split; [reflexivity|].
    assert (hb = 1) by lia. subst. reflexivity.
  - destruct ((hb =? 0) && (bs =? 0) && (ba =? 0)) eqn:Ez; [|discriminate].
    intros H. inversion H; subst. unfold chord_wf, code_of_chord. cbn [c_kind c_mods c_root c_bass fst snd].
    rewrite E2, Hm, !step_idx_of_idx by assumption. split; [reflexivity|].
    assert (hb = 0 /\ bs = 0 /\ ba = 0) as (-> & -> & ->) by lia. reflexivity.
Qed.

Lemma transpose_chord_wf c k c' : transpose_chord c k = Some c' -> chord_wf c' = chord_wf c.
Proof.
  intros H. destruct (transpose_chord_shape c k c' H) as (_ & Hk & Hm & _).
  unfold chord_wf. rewrite Hk, Hm. reflexivity.
Qed.

(** transpose_figure fails exactly on the codes that do not decode (the figures
    the grammar rejects); otherwise the result decodes to the transposed chord,
    to which [chord_transpose_hom] applies. *)
Theorem transpose_figure_spec t k :
  match chord_of_code t with
  | None => transpose_figure t k = None
  | Some c => exists c', transpose_chord c k = Some c' /\
                         transpose_figure t k = Some (code_of_chord c') /\
                         chord_of_code (code_of_chord c') = Some c'
  end.
Proof.
  unfold transpose_figure. destruct (chord_of_code t) as [c|] eqn:E; [|reflexivity].
  destruct (transpose_chord_total c k) as [c' H]. exists c'. rewrite H. repeat split.
  apply code_roundtrip. rewrite (transpose_chord_wf c k c' H). apply (decode_wf t c E).
Qed.

Lemma transpose_figure_mod t k : transpose_figure t (k mod 12) = transpose_figure t k.
Proof.
  unfold transpose_figure, transpose_chord. destruct (chord_of_code t) as [c|]; [|reflexivity].
  rewrite transpose_pc_mod. destruct (c_bass c) as [b|]; [rewrite transpose_pc_mod|]; reflexivity.
Qed.

(** * Progressions *)
Lemma map_opt_ext {A B} (f g : A -> option B) l : (forall x, f x = g x) -> map_opt f l = map_opt g l.
Proof. intros H. induction l as [|x r IH]; cbn; [reflexivity|]. rewrite H, IH. reflexivity. Qed.

Lemma NPO_12 : NOTES_PER_OCTAVE = 12.
Proof. reflexivity. Qed.

Theorem prog_transpose_spec k evs :
  prog_transpose k evs = map_opt (fun t => transpose_figure_nc t k) evs.
Proof.
  unfold prog_transpose. apply map_opt_ext. intros t. unfold transpose_figure_nc.
  destruct (is_no_chord t); [reflexivity|]. rewrite NPO_12. apply transpose_figure_mod.
Qed.

(* the relation between an event and its transposition *)
Definition figure_related (k : Z) (t t' : list Z) : Prop :=
  if is_no_chord t then t' = t
  else exists c c', chord_of_code t = Some c /\ chord_of_code t' = Some c' /\ transpose_chord c k = Some c'.

Lemma map_opt_Forall2 {A B} (f : A -> option B) (R : A -> B -> Prop) :
  (forall x y, f x = Some y -> R x y) ->
  forall l l', map_opt f l = Some l' -> Forall2 R l l'.
Proof.
  intros H. induction l as [|x r IH]; cbn; intros l' E.
  - inversion E. constructor.
  - destruct (f x) as [y|] eqn:Ex; [|discriminate].
    destruct (map_opt f r) as [ys|] eqn:Er; [|discriminate].
    inversion E; subst. constructor; auto.
Qed.

Lemma map_opt_none {A B} (f : A -> option B) l :
  map_opt f l = None <-> exists x, In x l /\ f x = None.
Proof.
  induction l as [|x r IH]; cbn.
  - split; [discriminate|]. intros (x & [] & _).
  - destruct (f x) as [y|] eqn:Ex.
    + destruct (map_opt f r) as [ys|] eqn:Er.
      * split; [discriminate|]. intros (z & [<-|Hz] & Hf); [congruence|].
        assert (None = None :> option (list B)) as _ by reflexivity.
        destruct IH as [_ IH2]. discriminate IH2. eauto.
      * split; [|reflexivity]. intros _. destruct IH as [IH1 _].
        destruct (IH1 eq_refl) as (z & Hz & Hf). eauto.
    + split; [|reflexivity]. intros _. exists x. auto.
Qed.

Lemma transpose_figure_nc_related t k t' :
  transpose_figure_nc t k = Some t' -> figure_related k t t'.
Proof.
  unfold transpose_figure_nc, figure_related. destruct (is_no_chord t); [congruence|].
  pose proof (transpose_figure_spec t k) as S. destruct (chord_of_code t) as [c|]; [|congruence].
  destruct S as (c' & H1 & H2 & H3). intros E. rewrite H2 in E. inversion E; subst. eauto.
Qed.

Theorem prog_transpose_related k evs evs' :
  prog_transpose k evs = Some evs' -> Forall2 (figure_related k) evs evs'.
Proof.
  rewrite prog_transpose_spec. apply map_opt_Forall2. intros t t'. apply transpose_figure_nc_related.
Qed.

Theorem prog_transpose_error k evs :
  prog_transpose k evs = None <->
  exists t, In t evs /\ is_no_chord t = false /\ chord_of_code t = None.
Proof.
  rewrite prog_transpose_spec, map_opt_none. split.
  - intros (t & Hin & Hf). exists t. split; [exact Hin|]. unfold transpose_figure_nc in Hf.
    destruct (is_no_chord t); [discriminate|]. split; [reflexivity|].
    pose proof (transpose_figure_spec t k) as S. destruct (chord_of_code t); [|reflexivity].
    destruct S as (c' & _ & H2 & _). congruence.
  - intros (t & Hin & Hn & Hc). exists t. split; [exact Hin|]. unfold transpose_figure_nc. rewrite Hn.
    pose proof (transpose_figure_spec t k) as S. rewrite Hc in S. exact S.
Qed.

(** * Non-vacuity witnesses (searched for in the regenerated tables, so that adding or
    reordering chord kinds / modification types does not break them) *)
Ltac search_idx n tac :=
  first [ exists (Z.of_nat n); tac
        | match n with S ?m => search_idx m tac end ].

(* F#m7(b5)/A up 3 is Am7(b5)/C: pitches {6,9,0,4} -> {9,0,3,7}, diminished before and after *)
Lemma chord_example :
  exists kind mi,
    let c := mkChord (SF, 1) kind [(mi, 5)] (Some (SA, 0)) in
    let c' := mkChord (SA, 0) kind [(mi, 5)] (Some (SC, 0)) in
    transpose_chord c 3 = Some c' /\
    chord_pitches c = Some [6; 9; 0; 4] /\ chord_quality c = Some CHORD_QUALITY_DIMINISHED /\
    chord_pitches c' = Some [9; 0; 3; 7] /\ chord_quality c' = Some CHORD_QUALITY_DIMINISHED /\
    chord_of_code (code_of_chord c) = Some c.
Proof.
  search_idx 100%nat ltac:(search_idx 12%nat ltac:(vm_compute; repeat split; reflexivity)).
Qed.

(* adding a degree that is already present is a ChordSymbolError for the pitch query, before and
   after transposition, while transposition itself succeeds *)
Lemma chord_error_example :
  exists kind mi,
    let c := mkChord (SC, 0) kind [(mi, 3)] None in
    chord_of_code (code_of_chord c) = Some c /\ chord_pitches c = None /\
    transpose_chord c 1 = Some (mkChord (SD, -1) kind [(mi, 3)] None) /\
    chord_pitches (mkChord (SD, -1) kind [(mi, 3)] None) = None.
Proof.
  search_idx 100%nat ltac:(search_idx 12%nat ltac:(vm_compute; repeat split; reflexivity)).
Qed.
