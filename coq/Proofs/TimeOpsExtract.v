(** Proofs/TimeOpsExtract.v — the local one-window model [window] of
    Model/TimeOps.v IS C02's model of [extract_subsequence(seq, 0, d)]
    (Model/Extract.v, proved against its declarative specification in
    Proofs/Extract.v), so repeat_sequence_to_duration = extract of the
    concatenation, and C02's "value in effect" theorem applies to its result.
    C02's files are imported read-only and used qualified. *)
From Coq Require Import ZArith List Bool Lia ZifyBool Permutation Sorted.
From NS Require Import Base.Sx Base.NoteSeq Model.TimeOps Proofs.TimeOps Proofs.TimeOpsTidy Proofs.TimeOpsConcat.
From NS Require Gen.G02 Model.Extract Proofs.ExtractSort Proofs.ExtractWalk Proofs.Extract.
Import ListNotations.
Local Open Scope Z_scope.
Module X := NS.Model.Extract.
Module XP := NS.Proofs.Extract.
Module XS := NS.Proofs.ExtractSort.
Module XW := NS.Proofs.ExtractWalk.

(** C02's exceptions as Python classes: quantized -> QuantizationStatusError, everything else ValueError. *)
Definition of_xerr (e : X.xerr) : terr :=
  match e with X.ErrQuantized => EQuant | _ => EValue end.
Definition of_xres (r : X.res seq) : res seq :=
  match r with X.Ok p => Ok (clear_sub p) | X.Err e => Err (of_xerr e) end.

(** The two developments wrote the same stable sort. *)
Lemma insert_by_same : forall {A} (key : A -> Z) x l, X.insert_by key x l = insert_by key x l.
Proof.
  induction l as [|y r IH]; [reflexivity|]. cbn. destruct (key x <=? key y); [reflexivity|].
  rewrite IH. reflexivity.
Qed.
Lemma sort_by_same : forall {A} (key : A -> Z) l, X.sort_by key l = sort_by key l.
Proof.
  induction l as [|x r IH]; [reflexivity|].
  change (sort_by key (x :: r)) with (insert_by key x (sort_by key r)).
  cbn [X.sort_by]. rewrite IH. apply insert_by_same.
Qed.

Lemma last_opt_rev : forall {A} (l : list A),
  X.last_opt l = match rev l with p :: _ => Some p | [] => None end.
Proof.
  intros A l. induction l as [|x r IH] using rev_ind; [reflexivity|].
  rewrite XS.last_opt_app, rev_app_distr. reflexivity.
Qed.

Lemma max_end_same : forall l, X.max_end l = max_end l.
Proof.
  intro l. unfold max_end.
  assert (P : 0 <= X.max_end l) by (induction l; unfold X.max_end in *; cbn in *; lia).
  assert (G : forall a, 0 <= a -> fold_left (fun m n => Z.max m (n_end n)) l a = Z.max a (X.max_end l)).
  { clear P. induction l as [|n r IH]; intros a Ha.
    - unfold X.max_end. cbn. lia.
    - cbn [fold_left]. rewrite IH by lia. change (X.max_end (n :: r)) with (Z.max (n_end n) (X.max_end r)). lia. }
  rewrite G by lia. lia.
Qed.

(** ** the passes on the split vector [0; d] *)
Lemma zsorted_0d : forall d, 0 <= d -> XW.zsorted [0; d].
Proof. intros. repeat constructor. exact H. Qed.

Lemma notes_window : forall d l, X.notes_spec 0 d (X.sort_by n_start l) = window_notes d l.
Proof.
  intros. unfold X.notes_spec, window_notes. rewrite sort_by_same. apply map_ext.
  intro n. unfold X.clipshift. rewrite !Z.sub_0_r. reflexivity.
Qed.

Lemma state_window : forall {A} (time : A -> Z) (set_time : A -> Z -> A) (retime : (Z -> Z) -> A -> A) d evs,
  (forall e, set_time e 0 = retime (fun _ => 0) e) -> (forall e, set_time e (time e - 0) = e) ->
  X.state_spec time set_time 0 d evs = window_state time retime d evs.
Proof.
  intros A time set_time retime d evs H0 Hid. unfold X.state_spec, window_state. rewrite sort_by_same.
  f_equal.
  - rewrite last_opt_rev. destruct (rev _) as [|p r]; cbn; [reflexivity|]. rewrite H0. reflexivity.
  - rewrite (map_ext _ (fun e => e)) by exact Hid. apply map_id.
Qed.

Lemma beats_window : forall d bs,
  X.beats_spec 0 d bs = filter (fun t => (0 <=? tx_time t) && (tx_time t <? d)) (sort_by tx_time bs).
Proof.
  intros. unfold X.beats_spec. rewrite sort_by_same. rewrite (map_ext _ (fun e => e)); [apply map_id|].
  intros []; unfold X.text_with_time; cbn. rewrite Z.sub_0_r. reflexivity.
Qed.

(** ** the whole window *)
Theorem window_is_extract : forall d c,
  window d c = of_xres (X.extract_subsequence G02.DEFAULT_PRESERVE c 0 d).
Proof.
  intros d c. unfold window, X.extract_subsequence, X.extract_subsequences.
  assert (Hq : X.is_quantized c = is_quantized c)
    by (unfold X.is_quantized, is_quantized; rewrite !Z.gtb_ltb; reflexivity).
  rewrite Hq. destruct (is_quantized c); [reflexivity|].
  change (Nat.ltb (length [0; d]) 2) with false. cbv iota.
  assert (Hu : X.unsorted [0; d] = (d <? 0)) by (cbn; rewrite orb_false_r, Z.gtb_ltb; reflexivity).
  rewrite Hu. destruct (d <? 0) eqn:Ed; [reflexivity|].
  assert (Hp : X.past_end (s_total c) [0; d] = (s_total c <=? 0)) by (cbn; rewrite orb_false_r; lia).
  rewrite Hp. destruct (s_total c <=? 0) eqn:Et; [reflexivity|].
  assert (Sz : XW.zsorted [0; d]) by (apply zsorted_0d; lia).
  unfold X.extract_pieces. cbn [length Nat.sub List.seq map of_xres clear_sub
    s_notes s_tempos s_tsigs s_ksigs s_texts s_ccs s_bends s_sects s_total s_qsteps s_spq s_sps s_tpq s_rest].
  rewrite XP.note_pieces_spec, !XP.state_pieces_spec, XP.beat_pieces_spec by exact Sz.
  cbn [X.intervals tl combine map nth fst snd].
  rewrite notes_window, XP.piece_total_max_end, max_end_same.
  rewrite (state_window tp_time X.tempo_with_time tempo_t), (state_window ts_time X.tsig_with_time tsig_t),
    (state_window ks_time X.ksig_with_time ksig_t), (state_window tx_time X.text_with_time text_t), beats_window;
    try reflexivity;
    try (intros []; unfold X.tempo_with_time, X.tsig_with_time, X.ksig_with_time, X.text_with_time; cbn;
         rewrite ?Z.sub_0_r; reflexivity).
Qed.

(** repeat_sequence_to_duration, stated against C02's model of extraction. *)
Theorem repeat_is_extract_of_concat : forall s d osd,
  repeat_to_duration s d osd =
  match repeat_pairs s d osd with
  | Err e => Err e
  | Ok ps => match concat_pairs ps with
             | Err e => Err e
             | Ok c => of_xres (X.extract_subsequence G02.DEFAULT_PRESERVE c 0 d)
             end
  end.
Proof.
  intros. unfold repeat_to_duration. destruct (repeat_pairs s d osd) as [ps|e]; [|reflexivity].
  destruct (concat_pairs ps) as [c|e]; [|reflexivity]. apply window_is_extract.
Qed.

(** Hence C02's carried-state theorem holds for the cut: at every instant of [0, d) the tempo, time
    signature, key, chord symbol and every preserved pedal in effect in the result is the one in effect
    in the concatenation. *)
Theorem window_state_in_effect : forall d c r,
  window d c = Ok r ->
  forall tau, 0 <= tau < d ->
    X.in_effect tp_time X.tempo_with_time (s_tempos r) tau = X.in_effect tp_time X.tempo_with_time (s_tempos c) tau /\
    X.in_effect ts_time X.tsig_with_time (s_tsigs r) tau = X.in_effect ts_time X.tsig_with_time (s_tsigs c) tau /\
    X.in_effect ks_time X.ksig_with_time (s_ksigs r) tau = X.in_effect ks_time X.ksig_with_time (s_ksigs c) tau /\
    X.in_effect tx_time X.text_with_time (X.chords_of r) tau = X.in_effect tx_time X.text_with_time (X.chords_of c) tau /\
    forall kk, X.in_effect cc_time X.cc_with_time (X.with_key kk (s_ccs r)) tau
               = X.in_effect cc_time X.cc_with_time (X.with_key kk (X.pedals_of G02.DEFAULT_PRESERVE c)) tau.
Proof.
  intros d c r H tau Htau. rewrite window_is_extract in H. unfold X.extract_subsequence in H.
  destruct (X.extract_subsequences G02.DEFAULT_PRESERVE c [0; d]) as [ps|e] eqn:E; [|discriminate].
  destruct ps as [|p ps']; [discriminate|]. cbn [of_xres] in H. inversion H; subst r; clear H.
  pose proof (XP.extract_state_in_effect _ _ _ _ E 0%nat 0 d p eq_refl eq_refl tau) as S.
  rewrite Z.sub_0_r, Z.add_0_l in S. exact (S Htau).
Qed.

Theorem repeat_state_in_effect : forall s d osd ps c r,
  repeat_pairs s d osd = Ok ps -> concat_pairs ps = Ok c -> repeat_to_duration s d osd = Ok r ->
  forall tau, 0 <= tau < d ->
    X.in_effect tp_time X.tempo_with_time (s_tempos r) tau = X.in_effect tp_time X.tempo_with_time (s_tempos c) tau /\
    X.in_effect ts_time X.tsig_with_time (s_tsigs r) tau = X.in_effect ts_time X.tsig_with_time (s_tsigs c) tau /\
    X.in_effect ks_time X.ksig_with_time (s_ksigs r) tau = X.in_effect ks_time X.ksig_with_time (s_ksigs c) tau /\
    X.in_effect tx_time X.text_with_time (X.chords_of r) tau = X.in_effect tx_time X.text_with_time (X.chords_of c) tau /\
    forall kk, X.in_effect cc_time X.cc_with_time (X.with_key kk (s_ccs r)) tau
               = X.in_effect cc_time X.cc_with_time (X.with_key kk (X.pedals_of G02.DEFAULT_PRESERVE c)) tau.
Proof.
  intros s d osd ps c r Hp Hc Hr. unfold repeat_to_duration in Hr. rewrite Hp, Hc in Hr.
  exact (window_state_in_effect d c r Hr).
Qed.
