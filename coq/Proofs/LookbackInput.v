(** Proofs/LookbackInput.v — the layout of LookbackEventSequenceEncoderDecoder.events_to_input (C08):
    the in-place passes of the code produce exactly
      one-hot(current event) ++ one-hot(next event of each lookback) ++ counter bits ++ repeat flags,
    a vector of input_size entries; every one-hot block has exactly one 1, counter bits are +-1,
    flags are 0/1 and say whether the current event repeats the one [d] steps back. *)
From Coq Require Import ZArith List Bool Lia ZifyBool.
From NS Require Import Model.EncDec Model.Lookback Proofs.EncDec Proofs.Lookback.
Import ListNotations.
Local Open Scope Z_scope.
Ltac Zify.zify_post_hook ::= Z.to_euclidean_division_equations.

Definition onehot (n c : Z) : list Z := upd (Z.to_nat c) 1 (zeros n).
Definition b2z (b : bool) : Z := if b then 1 else 0.

Lemma zeros_split a b : 0 <= a -> 0 <= b -> zeros (a + b) = zeros a ++ zeros b.
Proof. intros; unfold zeros. rewrite Z2Nat.inj_add by lia. apply repeat_app. Qed.

Lemma upd_app_r {A} (pre l : list A) k x : upd (length pre + k) x (pre ++ l) = pre ++ upd k x l.
Proof. induction pre; cbn [length Nat.add upd app]; [reflexivity|]. now rewrite IHpre. Qed.

Lemma upd_app_l {A} (l1 l2 : list A) k x : (k < length l1)%nat -> upd k x (l1 ++ l2) = upd k x l1 ++ l2.
Proof.
  revert k; induction l1 as [|y l1 IH]; intros [|k] H; cbn [upd app length] in *; try lia; [reflexivity|].
  f_equal. apply IH. lia.
Qed.

(* writing a 1 at offset + c into a still-zero tail turns its first n cells into a one-hot block *)
Lemma set_block pre n M c :
  0 <= c < n -> 0 <= M ->
  py_set (pre ++ zeros (n + M)) (zlen pre + c) 1 = Some (pre ++ onehot n c ++ zeros M).
Proof.
  intros Hc HM. pose proof (zlen_nonneg pre).
  rewrite py_set_pos by (rewrite zlen_app, zeros_length; lia).
  f_equal. replace (Z.to_nat (zlen pre + c)) with (length pre + Z.to_nat c)%nat by (unfold zlen; lia).
  rewrite upd_app_r. f_equal. rewrite zeros_split by lia.
  apply upd_app_l. unfold zeros. rewrite repeat_length. lia.
Qed.

(* writing any value at the offset itself *)
Lemma set_cell pre M x :
  0 <= M -> py_set (pre ++ zeros (1 + M)) (zlen pre) x = Some (pre ++ [x] ++ zeros M).
Proof.
  intros HM. pose proof (zlen_nonneg pre).
  rewrite py_set_pos by (rewrite zlen_app, zeros_length; lia).
  f_equal. replace (Z.to_nat (zlen pre)) with (length pre + 0)%nat by (unfold zlen; lia).
  rewrite upd_app_r. f_equal. rewrite zeros_split by lia. reflexivity.
Qed.

Lemma skip_cell pre M : 0 <= M -> pre ++ zeros (1 + M) = pre ++ [0] ++ zeros M.
Proof. intros. now rewrite zeros_split by lia. Qed.

Lemma onehot_length n c : 0 <= n -> zlen (onehot n c) = n.
Proof. intros. unfold onehot, zlen. rewrite upd_length. fold (zlen (zeros n)). rewrite zeros_length. lia. Qed.

Lemma onehot_is_one_hot n c : 0 <= c < n -> is_one_hot (onehot n c).
Proof. intros. unfold onehot, zeros. apply upd_zeros_one_hot. lia. Qed.

Lemma Forall2_len {A B} (R : A -> B -> Prop) l1 l2 : Forall2 R l1 l2 -> length l1 = length l2.
Proof. induction 1; cbn; auto. Qed.

  Lemma pass_counter_spec m0 is : forall pre M, 0 <= M ->
    lb_pass_counter is m0 (pre ++ zeros (zlen is + M), zlen pre) =
    Some (pre ++ map (counter_bit m0) is ++ zeros M, zlen pre + zlen is).
  Proof.
    induction is as [|i is IH]; intros pre M HM.
    - cbn [lb_pass_counter map app]. rewrite zlen_nil.
      replace (0 + M) with M by lia. replace (zlen pre + 0) with (zlen pre) by lia. reflexivity.
    - cbn [lb_pass_counter fst snd map]. rewrite zlen_cons. pose proof (zlen_nonneg is).
      replace (1 + zlen is + M) with (1 + (zlen is + M)) by lia.
      rewrite set_cell by lia. cbn [bind].
      replace (pre ++ [counter_bit m0 i] ++ zeros (zlen is + M)) with ((pre ++ [counter_bit m0 i]) ++ zeros (zlen is + M))
        by now rewrite <- app_assoc.
      replace (zlen pre + 1) with (zlen (pre ++ [counter_bit m0 i])) by (rewrite zlen_app; reflexivity).
      rewrite IH by lia. rewrite zlen_app. change (zlen [counter_bit m0 i]) with 1. f_equal. f_equal; [|lia].
      now rewrite <- !app_assoc.
  Qed.


Section RepeatFlags.
  Variable E : Type.
  Variable eqb : E -> E -> bool.
  Hypothesis eqb_spec : forall a b, eqb a b = true <-> a = b.

  Lemma pass_repeat_spec es p ds fs : Forall2 (fun d f => lb_repeats E eqb es p d = Some f) ds fs ->
    forall pre M, 0 <= M ->
    lb_pass_repeat E eqb ds es p (pre ++ zeros (zlen ds + M), zlen pre) =
    Some (pre ++ map b2z fs ++ zeros M, zlen pre + zlen ds).
  Proof.
    induction 1 as [|d f ds fs Hf _ IH]; intros pre M HM.
    - cbn [lb_pass_repeat map app]. rewrite zlen_nil.
      replace (0 + M) with M by lia. replace (zlen pre + 0) with (zlen pre) by lia. reflexivity.
    - cbn [lb_pass_repeat fst snd map]. rewrite Hf. cbn [bind]. rewrite zlen_cons. pose proof (zlen_nonneg ds).
      replace (1 + zlen ds + M) with (1 + (zlen ds + M)) by lia.
      assert (Hstep : (if f then py_set (pre ++ zeros (1 + (zlen ds + M))) (zlen pre) 1
                       else Some (pre ++ zeros (1 + (zlen ds + M)))) =
                      Some ((pre ++ [b2z f]) ++ zeros (zlen ds + M))).
      { destruct f; cbn [b2z]; [rewrite set_cell by lia|rewrite skip_cell by lia]; now rewrite <- app_assoc. }
      rewrite Hstep. cbn [bind].
      replace (zlen pre + 1) with (zlen (pre ++ [b2z f])) by (rewrite zlen_app; reflexivity).
      rewrite IH by lia. rewrite zlen_app. change (zlen [b2z f]) with 1. f_equal. f_equal; [|lia].
      now rewrite <- !app_assoc.
  Qed.

  Lemma repeat_flags_exist es p ds :
    Forall (fun d => 1 <= d) ds -> 0 <= p < zlen es ->
    exists fs, Forall2 (fun d f => lb_repeats E eqb es p d = Some f) ds fs /\
               Forall2 (fun d f => f = true <-> lb_match E es p d) ds fs.
  Proof.
    intros Hpos Hp. induction Hpos as [|d ds Hd _ (fs & IH1 & IH2)]; [exists []; split; constructor|].
    assert (exists a, nth_error es (Z.to_nat p) = Some a) as (a & Ha).
    { destruct (nth_error es (Z.to_nat p)) eqn:Hn; [eauto|]. apply nth_error_None in Hn. unfold zlen in *; lia. }
    destruct (p - d <? 0) eqn:Hlt.
    - assert (lb_repeats E eqb es p d = Some false) as H1
        by (unfold lb_repeats; cbv zeta; rewrite Hlt; reflexivity).
      exists (false :: fs). split; constructor; auto. unfold lb_match. split; [discriminate|lia].
    - assert (exists b, nth_error es (Z.to_nat (p - d)) = Some b) as (b & Hb).
      { destruct (nth_error es (Z.to_nat (p - d))) eqn:Hn; [eauto|]. apply nth_error_None in Hn. unfold zlen in *; lia. }
      assert (lb_repeats E eqb es p d = Some (eqb a b)) as H1.
      { unfold lb_repeats; cbv zeta; rewrite Hlt. rewrite !py_nth_pos, Ha, Hb by lia. reflexivity. }
      exists (eqb a b :: fs). split; constructor; auto.
      unfold lb_match. rewrite Ha, Hb. rewrite eqb_spec.
      split; [intros ->; split; [lia|reflexivity]|intros [_ H]; congruence].
  Qed.

End RepeatFlags.

Section LookbackInput.
  Variable E : Type.
  Variable eqb : E -> E -> bool.
  Variable n : Z.
  Variable enc : E -> option Z.
  Variable dflt : E.
  Hypothesis eqb_spec : forall a b, eqb a b = true <-> a = b.
  Hypothesis n_nonneg : 0 <= n.

  (* the event whose class fills the block of lookback d: the one AFTER the repeated position *)
  Definition lb_next_event (es : list E) (p d : Z) : option E :=
    if p - d + 1 <? 0 then Some dflt else py_nth es (p - d + 1).

  Definition next_class (es : list E) (p d c : Z) : Prop :=
    exists ev, lb_next_event es p d = Some ev /\ enc ev = Some c /\ 0 <= c < n.

  Lemma pass_next_spec es p ds cs : Forall2 (next_class es p) ds cs ->
    forall pre M, 0 <= M ->
    lb_pass_next E n enc dflt ds es p (pre ++ zeros (n * zlen ds + M), zlen pre) =
    Some (pre ++ concat (map (onehot n) cs) ++ zeros M, zlen pre + n * zlen ds).
  Proof.
    induction 1 as [|d c ds cs (ev & Hev & Hc & Hr) _ IH]; intros pre M HM.
    - cbn [lb_pass_next map concat app]. rewrite zlen_nil.
      replace (n * 0 + M) with M by lia. replace (zlen pre + n * 0) with (zlen pre) by lia. reflexivity.
    - cbn [lb_pass_next fst snd map concat]. unfold lb_next_event in Hev. rewrite Hev. cbn [bind].
      rewrite Hc. cbn [bind]. rewrite zlen_cons. pose proof (zlen_nonneg ds).
      replace (n * (1 + zlen ds) + M) with (n + (n * zlen ds + M)) by lia.
      rewrite set_block by nia. cbn [bind].
      replace (pre ++ onehot n c ++ zeros (n * zlen ds + M)) with ((pre ++ onehot n c) ++ zeros (n * zlen ds + M))
        by now rewrite <- app_assoc.
      replace (zlen pre + n) with (zlen (pre ++ onehot n c)) by (rewrite zlen_app, onehot_length; lia).
      rewrite IH by lia. rewrite zlen_app, onehot_length by lia. f_equal. f_equal; [|lia].
      now rewrite <- !app_assoc.
  Qed.

  Lemma concat_onehot_length (cs : list Z) : zlen (concat (map (onehot n) cs)) = n * zlen cs.
  Proof.
    induction cs as [|x cs IH]; [unfold zlen; cbn [map concat length]; lia|].
    cbn [map concat]. rewrite zlen_app, zlen_cons, IH, onehot_length by lia. lia.
  Qed.

  Variable valid : E -> Prop.
  Hypothesis enc_ok : forall e, valid e -> exists c, enc e = Some c /\ 0 <= c < n.
  Hypothesis dflt_valid : valid dflt.

  Lemma next_classes_exist es p ds :
    Forall valid es -> Forall (fun d => 1 <= d) ds -> 0 <= p < zlen es ->
    exists cs, Forall2 (next_class es p) ds cs.
  Proof.
    intros Hv Hpos Hp. induction Hpos as [|d ds Hd _ [cs IH]]; [exists []; constructor|].
    assert (exists ev, lb_next_event es p d = Some ev /\ valid ev) as (ev & Hev & Hvev).
    { unfold lb_next_event. destruct (p - d + 1 <? 0) eqn:?; [eauto|].
      rewrite py_nth_pos by lia.
      destruct (nth_error es (Z.to_nat (p - d + 1))) as [ev|] eqn:Hn.
      - exists ev. split; [reflexivity|]. eapply Forall_nth_error; eauto.
      - apply nth_error_None in Hn. unfold zlen in *. lia. }
    destruct (enc_ok ev Hvev) as (c & Hc & Hr).
    exists (c :: cs). constructor; [|exact IH]. exists ev. auto.
  Qed.

  Variable dists : list Z.
  Variable bits : Z.
  Hypothesis dists_pos : Forall (fun d => 1 <= d) dists.
  Hypothesis bits_nonneg : 0 <= bits.

  (** The input vector, in full. *)
  Theorem lookback_input_shape es p a :
    0 <= p -> nth_error es (Z.to_nat p) = Some a -> Forall valid es ->
    exists c cs fs v,
      lb_input E eqb n enc dflt dists bits es p = Some v /\
      v = onehot n c ++ concat (map (onehot n) cs) ++ map (counter_bit (p + 1)) (zrange bits) ++ map b2z fs /\
      zlen v = lb_input_size n dists bits /\
      enc a = Some c /\ 0 <= c < n /\
      Forall2 (next_class es p) dists cs /\
      Forall2 (fun d f => f = true <-> lb_match E es p d) dists fs /\
      (* every one-hot block has exactly one 1; counter bits are +-1; flags are 0/1 *)
      Forall is_one_hot (onehot n c :: map (onehot n) cs) /\
      Forall (fun x => x = 1 \/ x = -1) (map (counter_bit (p + 1)) (zrange bits)) /\
      Forall (fun x => x = 0 \/ x = 1) (map b2z fs).
  Proof.
    intros Hp Ha Hv.
    pose proof (nth_error_zlen _ _ _ Ha) as Hplen. rewrite Z2Nat.id in Hplen by lia.
    assert (valid a) as Hva by (eapply Forall_nth_error; eauto).
    destruct (enc_ok a Hva) as (c & Hc & Hr).
    destruct (next_classes_exist es p dists Hv dists_pos ltac:(lia)) as (cs & Hcs).
    destruct (repeat_flags_exist E eqb eqb_spec es p dists dists_pos ltac:(lia)) as (fs & Hfs1 & Hfs2).
    pose proof (zlen_nonneg dists) as Hk.
    assert (Hlcs : zlen cs = zlen dists).
    { unfold zlen. f_equal. symmetry. eapply Forall2_len; eauto. }
    assert (Hlfs : zlen fs = zlen dists).
    { unfold zlen. f_equal. symmetry. eapply Forall2_len; eauto. }
    assert (Hzr : zlen (zrange bits) = bits) by (unfold zlen; rewrite zrange_length; lia).
    exists c, cs, fs. eexists. split.
    - unfold lb_input. rewrite py_nth_pos, Ha by lia. cbn [bind]. rewrite Hc. cbn [bind].
      unfold lb_input_size, lb_k.
      replace (n + zlen dists * n + bits + zlen dists) with (n + (n * zlen dists + (zlen (zrange bits) + (zlen dists + 0)))) by lia.
      change (zeros (n + (n * zlen dists + (zlen (zrange bits) + (zlen dists + 0)))))
        with ([] ++ zeros (n + (n * zlen dists + (zlen (zrange bits) + (zlen dists + 0))))).
      replace c with (zlen (@nil Z) + c) at 1 by (rewrite zlen_nil; lia).
      rewrite set_block by nia. cbn [bind app].
      change (onehot n c ++ zeros (n * zlen dists + (zlen (zrange bits) + (zlen dists + 0))))
        with (onehot n c ++ zeros (n * zlen dists + (zlen (zrange bits) + (zlen dists + 0)))).
      replace n with (zlen (onehot n c)) at 4 by (apply onehot_length; lia).
      rewrite (pass_next_spec es p dists cs Hcs) by lia. cbn [bind].
      rewrite app_assoc.
      replace (zlen (onehot n c) + n * zlen dists) with (zlen (onehot n c ++ concat (map (onehot n) cs))).
      2:{ rewrite zlen_app, concat_onehot_length, Hlcs. reflexivity. }
      rewrite pass_counter_spec by lia. cbn [bind].
      rewrite app_assoc.
      match goal with |- context [lb_pass_repeat _ _ _ _ _ (?pre ++ _, ?off)] =>
        replace off with (zlen pre) by (rewrite (zlen_app _ (map _ _)), zlen_map; reflexivity) end.
      rewrite (pass_repeat_spec E eqb es p dists fs Hfs1) by lia. cbn [bind fst snd].
      match goal with |- (if ?b then _ else _) = _ => destruct b eqn:Hchk end.
      + rewrite app_nil_r. rewrite <- !app_assoc. reflexivity.
      + exfalso. rewrite !zlen_app, zlen_map, Hzr in Hchk.
        assert (zlen (concat (map (onehot n) cs)) = n * zlen dists) as Hcc.
        { rewrite concat_onehot_length, Hlcs. reflexivity. }
        rewrite Hcc, onehot_length in Hchk by lia. lia.
    - split; [reflexivity|].
      assert (zlen (concat (map (onehot n) cs)) = n * zlen dists) as Hcc.
      { rewrite concat_onehot_length, Hlcs. reflexivity. }
      split.
      { rewrite !zlen_app, !zlen_map, Hcc, onehot_length, Hzr, Hlfs by lia. unfold lb_input_size, lb_k. lia. }
      split; [exact Hc|]. split; [exact Hr|]. split; [exact Hcs|]. split; [exact Hfs2|].
      split.
      { constructor; [now apply onehot_is_one_hot|].
        clear - Hcs. induction Hcs as [|d c' ds cs' (ev & _ & _ & Hr') _ IH]; cbn; constructor; auto.
        now apply onehot_is_one_hot. }
      split.
      { apply Forall_forall. intros x Hx. apply in_map_iff in Hx. destruct Hx as (i & <- & _).
        unfold counter_bit. destruct (_ =? 0); [now right|now left]. }
      { apply Forall_forall. intros x Hx. apply in_map_iff in Hx. destruct Hx as ([|] & <- & _); cbn; auto. }
  Qed.
End LookbackInput.
