(** Proofs/FqDrums.v — drums_steps: DrumTrack.from_quantized_sequence against its step-for-step
    specification, for ALL note lists and parameters. *)
From Coq Require Import ZArith List Bool Lia ZifyBool Permutation Sorted.
From NS Require Import Base.NoteSeq Gen.G07 Model.FqCommon Model.FqDrums Model.FqSpec Proofs.FqCommon.
Import ListNotations.
Local Open Scope Z_scope.

Definition glist := list (Z * list Z).
Definition keys (g : glist) : list Z := map fst g.

Fixpoint lookup (k : Z) (g : glist) : list Z :=
  match g with
  | [] => []
  | (k', ps) :: r => if k' =? k then ps else lookup k r
  end.

(** * grouping *)
Lemma group_add_keys k p g x : In x (keys (dr_group_add k p g)) <-> x = k \/ In x (keys g).
Proof.
  induction g as [|[k' ps] r IH]; cbn [dr_group_add keys map fst In]; [intuition|].
  destruct (k' =? k) eqn:E; cbn [keys map fst In]; [|fold (keys (dr_group_add k p r)); rewrite IH];
    intuition lia.
Qed.

Lemma group_add_nodup k p g : NoDup (keys g) -> NoDup (keys (dr_group_add k p g)).
Proof.
  induction g as [|[k' ps] r IH]; cbn [dr_group_add keys map fst]; intros H.
  - constructor; [intros []|constructor].
  - inversion H as [|? ? Hn Hr]; subst.
    destruct (k' =? k) eqn:E; cbn [keys map fst]; [constructor; assumption|].
    constructor; [|now apply IH].
    fold (keys (dr_group_add k p r)). rewrite group_add_keys. intros [->|Hin]; [lia|now apply Hn].
Qed.

Lemma group_add_lookup k p g x :
  lookup x (dr_group_add k p g) = if x =? k then lookup x g ++ [p] else lookup x g.
Proof.
  induction g as [|[k' ps] r IH]; cbn [dr_group_add lookup].
  - destruct (k =? x) eqn:E, (x =? k) eqn:E'; try lia; reflexivity.
  - destruct (k' =? k) eqn:E; cbn [lookup].
    + destruct (k' =? x) eqn:E1, (x =? k) eqn:E2; try lia; reflexivity.
    + destruct (k' =? x) eqn:E1; [|exact IH].
      destruct (x =? k) eqn:E2; [lia|reflexivity].
Qed.

Lemma dr_groups_snoc l n :
  dr_groups (l ++ [n]) = dr_group_add (n_qstart n) (n_pitch n) (dr_groups l).
Proof. unfold dr_groups. now rewrite fold_left_app. Qed.

Lemma dr_groups_spec ns :
  NoDup (keys (dr_groups ns)) /\
  (forall x, In x (keys (dr_groups ns)) <-> In x (map n_qstart ns)) /\
  (forall x, lookup x (dr_groups ns) = map n_pitch (filter (fun n => n_qstart n =? x) ns)).
Proof.
  induction ns as [|n l (IH1 & IH2 & IH3)] using rev_ind.
  - repeat split; try constructor; intros [].
  - rewrite dr_groups_snoc. split; [now apply group_add_nodup|]. split.
    + intros x. rewrite group_add_keys, IH2, map_app, in_app_iff. cbn [map In]. intuition.
    + intros x. rewrite group_add_lookup, IH3, filter_app, map_app. cbn [filter].
      destruct (x =? n_qstart n) eqn:E, (n_qstart n =? x) eqn:E'; try lia; cbn [map];
        [reflexivity|now rewrite app_nil_r].
Qed.

(** * lookup in key-sorted lists *)
Definition key_lt (a b : Z * list Z) : Prop := fst a < fst b.

Lemma lookup_absent x g : ~ In x (keys g) -> lookup x g = [].
Proof.
  induction g as [|[k ps] r IH]; cbn [lookup keys map fst In]; [reflexivity|].
  intros H. destruct (k =? x) eqn:E; [exfalso; apply H; left; lia|]. apply IH. intuition.
Qed.

Lemma lookup_In x ps g : NoDup (keys g) -> In (x, ps) g -> lookup x g = ps.
Proof.
  induction g as [|[k qs] r IH]; cbn [lookup keys map fst In]; [intros _ []|].
  intros Hnd [Heq|Hin].
  - injection Heq as -> ->. now rewrite Z.eqb_refl.
  - inversion Hnd as [|? ? Hn Hr]; subst.
    destruct (k =? x) eqn:E; [|now apply IH].
    exfalso. apply Hn. replace k with x by lia. change x with (fst (x, ps)). now apply in_map.
Qed.

Lemma lookup_perm x g g' : NoDup (keys g) -> Permutation g g' -> lookup x g = lookup x g'.
Proof.
  intros Hnd Hp.
  assert (Hnd' : NoDup (keys g')) by (eapply Permutation_NoDup; [apply Permutation_map; exact Hp|exact Hnd]).
  destruct (in_dec Z.eq_dec x (keys g)) as [Hin|Hout].
  - unfold keys in Hin. apply in_map_iff in Hin. destruct Hin as ([k ps] & Hk & Hin). cbn in Hk. subst k.
    rewrite (lookup_In x ps g Hnd Hin).
    symmetry. apply lookup_In; [exact Hnd'|]. eapply Permutation_in; eassumption.
  - rewrite (lookup_absent x g Hout). symmetry. apply lookup_absent.
    intros H. apply Hout. eapply Permutation_in; [apply Permutation_map; symmetry; exact Hp|exact H].
Qed.

Lemma sorted_le_nodup_lt (g : glist) :
  StronglySorted (fun a b => dr_key_le a b = true) g -> NoDup (keys g) -> StronglySorted key_lt g.
Proof.
  induction 1 as [|a r Hs IH Hf]; intros Hnd; [constructor|].
  cbn [keys map] in Hnd. inversion Hnd as [|? ? Hn Hr]; subst.
  constructor; [now apply IH|].
  rewrite Forall_forall in *. intros b Hb. specialize (Hf b Hb). unfold dr_key_le in Hf. unfold key_lt.
  assert (fst a <> fst b); [|lia].
  intros Heq. apply Hn. rewrite Heq. now apply in_map.
Qed.

Lemma lookup_above x g : (forall k, In k (keys g) -> x < k) -> lookup x g = [].
Proof. intros H. apply lookup_absent. intros Hin. specialize (H x Hin). lia. Qed.

(** * the loop *)
Fixpoint render (tss cur : Z) (acc : glist) : list (list Z) :=
  match acc with
  | [] => []
  | (k, ps) :: r => zrepeat [] (k - tss - cur) ++ ps :: render tss (k - tss + 1) r
  end.

Fixpoint gcut (G prev : Z) (gs : glist) : glist :=
  match gs with
  | [] => []
  | (k, ps) :: r => if G <=? k - (prev + 1) then [] else (k, ps) :: gcut G k r
  end.

Lemma zfirstn_app_repeat {A} (x : A) (l : list A) n :
  0 <= n -> zfirstn (len l + n) (l ++ zrepeat x (n + 1)) = l ++ zrepeat x n.
Proof.
  intros Hn. unfold zfirstn, zrepeat, len.
  replace (Z.to_nat (Z.of_nat (length l) + n)) with (length l + Z.to_nat n)%nat by lia.
  rewrite firstn_app_2. f_equal.
  replace (Z.to_nat (n + 1)) with (Z.to_nat n + 1)%nat by lia.
  rewrite repeat_app. rewrite firstn_app, repeat_length, Nat.sub_diag. cbn [firstn repeat].
  rewrite app_nil_r. apply firstn_all2. rewrite repeat_length. lia.
Qed.

Lemma dr_put_app si ps evs :
  len evs <= si -> dr_put si ps evs = evs ++ zrepeat [] (si - len evs) ++ [ps].
Proof.
  intros H. unfold dr_put, set_length.
  replace (len evs <? si + 1) with true by lia.
  replace (si + 1 - len evs) with ((si - len evs) + 1) by lia.
  replace si with (len evs + (si - len evs)) at 1 by lia.
  rewrite zfirstn_app_repeat by lia. now rewrite <- app_assoc.
Qed.

(** keys strictly increasing and above [prev] *)
Fixpoint incr (prev : Z) (gs : glist) : Prop :=
  match gs with [] => True | (k, _) :: r => prev < k /\ incr k r end.

Lemma incr_weaken prev prev' gs : prev' <= prev -> incr prev gs -> incr prev' gs.
Proof. destruct gs as [|[k ps] r]; cbn [incr]; [trivial|]. intuition lia. Qed.

Lemma incr_keys prev gs k : incr prev gs -> In k (keys gs) -> prev < k.
Proof.
  revert prev; induction gs as [|[k' ps] r IH]; intros prev; cbn [incr keys map fst In]; [intros _ []|].
  intros (H1 & H2) [<-|Hin]; [exact H1|]. specialize (IH k' H2 Hin). lia.
Qed.

Lemma sorted_incr (gs : glist) prev :
  StronglySorted key_lt gs -> (forall k, In k (keys gs) -> prev < k) -> incr prev gs.
Proof.
  revert prev; induction gs as [|[k ps] r IH]; intros prev Hs Hk; cbn [incr]; [trivial|].
  inversion Hs as [|? ? Hs' Hf]; subst. split; [apply Hk; now left|].
  apply IH; [exact Hs'|]. intros k' Hin. rewrite Forall_forall in Hf.
  unfold keys in Hin. apply in_map_iff in Hin. destruct Hin as (b & <- & Hb). exact (Hf b Hb).
Qed.

Lemma dr_loop_spec G tss gs : forall evs prev,
  evs <> [] -> len evs = prev - tss + 1 -> incr prev gs ->
  dr_loop G tss gs evs (len evs) = evs ++ render tss (len evs) (gcut G prev gs).
Proof.
  induction gs as [|[k ps] r IH]; intros evs prev Hne Hlen Hinc; cbn [dr_loop gcut render].
  - now rewrite app_nil_r.
  - destruct Hinc as (Hk & Hinc).
    assert (Hz : (len evs =? 0) = false) by (destruct evs; [congruence|rewrite len_cons; pose proof (len_nonneg evs); lia]).
    rewrite Hz. cbn [negb andb].
    replace (k - tss - len evs) with (k - (prev + 1)) by lia.
    destruct (G <=? k - (prev + 1)) eqn:EG; cbn [render]; [now rewrite app_nil_r|].
    rewrite dr_put_app by lia.
    set (evs' := evs ++ zrepeat [] (k - tss - len evs) ++ [ps]).
    assert (Hl' : len evs' = k - tss + 1).
    { unfold evs', len, zrepeat in *. rewrite !app_length, repeat_length. cbn [length]. lia. }
    assert (Hne' : evs' <> []) by (unfold evs'; destruct evs; discriminate).
    pose proof (IH evs' k Hne' Hl' Hinc) as Hrec. rewrite Hl' in Hrec. rewrite Hrec.
    unfold evs'. rewrite <- !app_assoc. cbn [app].
    replace (k - (prev + 1)) with (k - tss - len evs) by lia. reflexivity.
Qed.

(** first iteration included *)
Lemma dr_loop_first G tss k0 ps0 r :
  tss <= k0 -> incr k0 r ->
  dr_loop G tss ((k0, ps0) :: r) [] 0 = render tss 0 ((k0, ps0) :: gcut G k0 r).
Proof.
  intros Hk Hinc. cbn [dr_loop render]. rewrite len_nil. cbn [Z.eqb negb andb].
  rewrite dr_put_app by (rewrite len_nil; lia). rewrite len_nil. cbn [app].
  set (evs := zrepeat [] (k0 - tss - 0) ++ [ps0]).
  assert (Hl : len evs = k0 - tss + 1).
  { unfold evs, len, zrepeat. rewrite !app_length, repeat_length. cbn [length]. lia. }
  assert (Hne : evs <> []) by (unfold evs; destruct (zrepeat _ _); discriminate).
  pose proof (dr_loop_spec G tss r evs k0 Hne Hl Hinc) as Hrec. rewrite Hl in Hrec.
  replace (k0 - tss + 1) with (k0 - tss + 1) by reflexivity. rewrite Hrec.
  unfold evs. rewrite <- app_assoc. reflexivity.
Qed.

(** * pointwise reading of [render] *)
Definition last_key (g : glist) : Z := last (keys g) 0.

Lemma last_key_cons k ps a r : last_key ((k, ps) :: a :: r) = last_key (a :: r).
Proof. reflexivity. Qed.

Lemma render_spec tss : forall acc cur,
  0 <= cur -> incr (tss + cur - 1) acc -> acc <> [] ->
  len (render tss cur acc) = last_key acc - tss + 1 - cur /\
  forall i, 0 <= i < last_key acc - tss + 1 - cur ->
    znth [] i (render tss cur acc) = lookup (tss + cur + i) acc.
Proof.
  induction acc as [|[k ps] r IH]; intros cur Hcur Hinc Hne; [congruence|].
  cbn [render incr] in *. destruct Hinc as (Hk & Hinc).
  destruct r as [|a r'].
  - cbn [render]. unfold last_key. cbn [keys map fst last].
    split; [unfold len, zrepeat; rewrite !app_length, repeat_length; cbn [length]; lia|].
    intros i Hi. cbn [lookup].
    destruct (Z_lt_le_dec i (k - tss - cur)).
    + rewrite znth_app_l by (rewrite len_zrepeat; lia). rewrite znth_zrepeat by lia.
      replace (k =? tss + cur + i) with false by lia. reflexivity.
    + rewrite znth_app_r by (rewrite len_zrepeat; lia). rewrite len_zrepeat.
      replace (i - Z.max 0 (k - tss - cur)) with 0 by lia. rewrite znth_cons_0.
      replace (k =? tss + cur + i) with true by lia. reflexivity.
  - destruct (IH (k - tss + 1)) as (IHl & IHn); [lia|eapply incr_weaken; [|exact Hinc]; lia|discriminate|].
    rewrite last_key_cons. rewrite len_app, len_zrepeat, len_cons, IHl. split; [lia|].
    intros i Hi.
    change (lookup (tss + cur + i) ((k, ps) :: a :: r'))
      with (if k =? tss + cur + i then ps else lookup (tss + cur + i) (a :: r')).
    assert (Hlast : k < last_key (a :: r')).
    { clear - Hinc. revert k a Hinc. induction r' as [|b r'' IHr]; intros k [ka pa] Hinc.
      - cbn in *. unfold last_key. cbn. lia.
      - rewrite last_key_cons. cbn [incr] in Hinc. destruct b as [kb pb].
        destruct Hinc as (H1 & H2 & H3). specialize (IHr ka (kb, pb)). cbn [incr] in IHr.
        specialize (IHr (conj H2 H3)). lia. }
    destruct (Z_lt_le_dec i (k - tss - cur)).
    + rewrite znth_app_l by (rewrite len_zrepeat; lia). rewrite znth_zrepeat by lia.
      replace (k =? tss + cur + i) with false by lia.
      symmetry. apply lookup_above. intros k' Hin. pose proof (incr_keys _ _ _ Hinc Hin). lia.
    + rewrite znth_app_r by (rewrite len_zrepeat; lia). rewrite len_zrepeat.
      destruct (Z.eq_dec i (k - tss - cur)) as [->|Hneq].
      * replace (k - tss - cur - Z.max 0 (k - tss - cur)) with 0 by lia. rewrite znth_cons_0.
        replace (k =? tss + cur + (k - tss - cur)) with true by lia. reflexivity.
      * rewrite znth_cons_S by lia. rewrite IHn by lia.
        replace (k =? tss + cur + i) with false by lia. f_equal. lia.
Qed.

(** * the cut is a prefix *)
Lemma gcut_prefix G : forall gs prev, exists rest, gs = gcut G prev gs ++ rest.
Proof.
  induction gs as [|[k ps] r IH]; intros prev; cbn [gcut]; [now exists []|].
  destruct (G <=? k - (prev + 1)); [now eexists|].
  destruct (IH k) as (rest & Hr). exists rest. cbn [app]. now rewrite <- Hr.
Qed.

Lemma gcut_keys G : forall gs prev, keys (gcut G prev gs) = dr_cut G prev (keys gs).
Proof.
  induction gs as [|[k ps] r IH]; intros prev; cbn [gcut keys map fst dr_cut]; [reflexivity|].
  destruct (G <=? k - (prev + 1)); [reflexivity|]. cbn [keys map fst]. f_equal. apply IH.
Qed.

Lemma incr_app_inv prev l1 l2 : incr prev (l1 ++ l2) -> incr prev l1 /\ (l1 <> [] -> incr (last_key l1) l2).
Proof.
  revert prev; induction l1 as [|[k ps] r IH]; intros prev; cbn [app incr]; [intuition congruence|].
  intros (H1 & H2). destruct (IH k H2) as (H3 & H4). split; [now split|]. intros _.
  destruct r as [|a r']; [exact H2|]. rewrite last_key_cons. apply H4. discriminate.
Qed.

Lemma last_key_ge prev l : incr prev l -> l <> [] -> prev < last_key l.
Proof.
  revert prev; induction l as [|[k ps] r IH]; intros prev; [congruence|].
  cbn [incr]. intros (H1 & H2) _. destruct r as [|a r']; [unfold last_key; cbn; exact H1|].
  rewrite last_key_cons. specialize (IH k H2). assert (a :: r' <> []) by discriminate. intuition lia.
Qed.

Lemma lookup_app x l1 l2 : In x (keys l1) -> lookup x (l1 ++ l2) = lookup x l1.
Proof.
  induction l1 as [|[k ps] r IH]; cbn [keys map fst In app lookup]; [intros []|].
  destruct (k =? x) eqn:E; [reflexivity|]. intros [H|H]; [lia|now apply IH].
Qed.

Lemma lookup_app_absent x l1 l2 : ~ In x (keys l1) -> lookup x (l1 ++ l2) = lookup x l2.
Proof.
  induction l1 as [|[k ps] r IH]; cbn [keys map fst In app lookup]; [reflexivity|].
  intros H. destruct (k =? x) eqn:E; [exfalso; apply H; left; lia|]. apply IH. intuition.
Qed.

Lemma lookup_prefix prev x l1 l2 :
  incr prev (l1 ++ l2) -> l1 <> [] ->
  lookup x l1 = if x <=? last_key l1 then lookup x (l1 ++ l2) else [].
Proof.
  intros Hinc Hne. destruct (incr_app_inv _ _ _ Hinc) as (H1 & H2). specialize (H2 Hne).
  destruct (in_dec Z.eq_dec x (keys l1)) as [Hin|Hout].
  - rewrite lookup_app by exact Hin.
    assert (x <= last_key l1); [|now replace (x <=? last_key l1) with true by lia].
    clear - Hin H1. revert prev H1 Hin. induction l1 as [|[k ps] r IH]; intros prev H1 Hin; [destruct Hin|].
    cbn [incr] in H1. destruct H1 as (Ha & Hb). destruct r as [|a r'].
    + unfold last_key. cbn in *. lia.
    + rewrite last_key_cons. cbn [keys map fst In] in Hin. destruct Hin as [<-|Hin].
      * assert (a :: r' <> []) by discriminate. pose proof (last_key_ge _ _ Hb H). lia.
      * eapply IH; eassumption.
  - rewrite (lookup_absent _ _ Hout). destruct (x <=? last_key l1) eqn:E; [|reflexivity].
    rewrite lookup_app_absent by exact Hout. symmetry. apply lookup_above.
    intros k Hk. pose proof (incr_keys _ _ _ H2 Hk). lia.
Qed.

(** * the sorted groups *)
Lemma dr_key_le_total a b : dr_key_le a b = true \/ dr_key_le b a = true.
Proof. unfold dr_key_le. lia. Qed.
Lemma dr_key_le_trans a b c : dr_key_le a b = true -> dr_key_le b c = true -> dr_key_le a c = true.
Proof. unfold dr_key_le. lia. Qed.

Lemma sorted_groups_facts p ns :
  let sg := dr_sorted_groups p ns in
  NoDup (keys sg) /\ StronglySorted key_lt sg /\
  (forall x, In x (keys sg) <-> exists n, In n ns /\ dr_keep p n = true /\ n_qstart n = x) /\
  (forall x, lookup x sg = map n_pitch (filter (fun n => dr_keep p n && (n_qstart n =? x)) ns)).
Proof.
  intros sg. unfold sg, dr_sorted_groups.
  destruct (dr_groups_spec (filter (dr_keep p) ns)) as (Hnd & Hkeys & Hlook).
  pose proof (isort_perm dr_key_le (dr_groups (filter (dr_keep p) ns))) as Hperm.
  assert (Hnd' : NoDup (keys (isort dr_key_le (dr_groups (filter (dr_keep p) ns))))).
  { eapply Permutation_NoDup; [apply Permutation_map; symmetry; exact Hperm|exact Hnd]. }
  split; [exact Hnd'|]. split.
  - apply sorted_le_nodup_lt; [|exact Hnd'].
    apply isort_sorted; [apply dr_key_le_total|apply dr_key_le_trans].
  - split.
    + intros x. split.
      * intros Hin. assert (Hin' : In x (keys (dr_groups (filter (dr_keep p) ns)))).
        { eapply Permutation_in; [apply Permutation_map; exact Hperm|exact Hin]. }
        apply Hkeys, in_map_iff in Hin'. destruct Hin' as (n & Hq & Hn). apply filter_In in Hn.
        exists n. intuition.
      * intros (n & Hn & Hk & Hq).
        eapply Permutation_in; [apply Permutation_map; symmetry; exact Hperm|].
        apply Hkeys, in_map_iff. exists n. split; [exact Hq|]. apply filter_In. now split.
    + intros x. rewrite (lookup_perm x _ _ Hnd' Hperm), Hlook. f_equal.
      clear. induction ns as [|n r IH]; cbn [filter]; [reflexivity|].
      destruct (dr_keep p n) eqn:E; cbn [filter andb]; [|exact IH].
      destruct (n_qstart n =? x); [now rewrite IH|exact IH].
Qed.

(** ** drums_steps *)
Theorem drums_steps p s r spb :
  steps_per_bar s = Ok spb -> 0 < spb ->
  dr_from_quantized p s = Ok r ->
  de_spb r = spb /\ de_spq r = s_spq s /\
  match keys (dr_sorted_groups p (s_notes s)) with
  | [] => de_events r = [] /\ de_start r = 0 /\ de_end r = 0
  | (k0 :: _) as ks =>
      let last_kept := last (dr_kept_steps (dp_gap_bars p * spb) ks) 0 in
      let L := last_kept - de_start r + 1 in
      de_start r = bar_start k0 (dp_search_start p) spb /\
      len (de_events r) = (if dp_pad_end p then pad_len L spb else L) /\
      de_end r = de_start r + len (de_events r) /\
      forall i, 0 <= i < len (de_events r) ->
        znth [] i (de_events r) = dr_spec_event p (s_notes s) last_kept (de_start r + i)
  end.
Proof.
  intros Hspb Hpos. unfold dr_from_quantized. rewrite Hspb. cbn [bind].
  destruct (sorted_groups_facts p (s_notes s)) as (Hnd & Hsorted & _ & Hlook).
  destruct (dr_sorted_groups p (s_notes s)) as [|[k0 ps0] rr] eqn:Esg.
  - intros H. injection H as <-. cbn. auto.
  - set (G := dp_gap_bars p * spb). set (tss := bar_start k0 (dp_search_start p) spb).
    assert (Htss : tss <= k0) by (pose proof (bar_start_spec k0 (dp_search_start p) spb Hpos); unfold tss; lia).
    assert (Hinc : incr k0 rr).
    { inversion Hsorted as [|? ? Hs Hf]; subst. apply sorted_incr; [exact Hs|].
      intros k Hin. unfold keys in Hin. apply in_map_iff in Hin. destruct Hin as (b & <- & Hb).
      rewrite Forall_forall in Hf. exact (Hf b Hb). }
    rewrite dr_loop_first by assumption.
    destruct (gcut_prefix G rr k0) as (rest & Hrest).
    set (acc := (k0, ps0) :: gcut G k0 rr).
    assert (Hincacc : incr (tss + 0 - 1) (acc ++ rest)).
    { unfold acc. cbn [app incr]. rewrite <- Hrest. split; [lia|exact Hinc]. }
    destruct (incr_app_inv _ _ _ Hincacc) as (Hacc & _).
    destruct (render_spec tss acc 0) as (Hlen & Hnth); [lia|exact Hacc|discriminate|].
    assert (Hlast : k0 <= last_key acc).
    { assert (Hx : incr (k0 - 1) acc) by (unfold acc; cbn [incr]; split; [lia|];
        apply (incr_app_inv k0 (gcut G k0 rr) rest); now rewrite <- Hrest).
      assert (acc <> []) by discriminate. pose proof (last_key_ge _ _ Hx H). lia. }
    assert (Hkeys : keys acc = dr_kept_steps G (k0 :: keys rr)).
    { unfold acc. cbn [keys map fst dr_kept_steps]. f_equal. apply gcut_keys. }
    destruct (render tss 0 acc) as [|e evs'] eqn:Erender.
    { rewrite len_nil in Hlen. lia. }
    intros H. apply Ok_inj in H. subst r. cbn [de_spb de_spq de_start de_end de_events keys map fst].
    fold (keys rr). rewrite <- Hkeys. fold (last_key acc).
    set (L := last_key acc - tss + 1) in *.
    set (n := if dp_pad_end p then pad_len (len (e :: evs')) spb else len (e :: evs')).
    assert (HL : len (e :: evs') = L) by (rewrite Hlen; unfold L; lia).
    assert (Hn : L <= n).
    { unfold n. rewrite HL. destruct (dp_pad_end p); [|lia]. pose proof (pad_len_spec L spb Hpos). lia. }
    assert (Hlenres : len (set_length [] n (e :: evs')) = n) by (apply len_set_length; lia).
    split; [reflexivity|]. split; [reflexivity|]. split; [reflexivity|].
    split; [rewrite Hlenres; unfold n; now rewrite HL|]. split; [now rewrite Hlenres|].
    intros i Hi. rewrite Hlenres in Hi. rewrite znth_set_length by lia.
    unfold dr_spec_event.
    destruct (Z_lt_le_dec i L) as [Hlt|Hge].
    + rewrite Hnth by (unfold L in Hlt; lia).
      rewrite (lookup_prefix (tss + 0 - 1) (tss + 0 + i) acc rest Hincacc) by discriminate.
      replace (tss + 0 + i <=? last_key acc) with true by (unfold L in Hlt; lia).
      replace (tss + i <=? last_key acc) with true by (unfold L in Hlt; lia).
      assert (Hsg : acc ++ rest = (k0, ps0) :: rr) by (unfold acc; cbn [app]; now rewrite <- Hrest).
      rewrite Hsg, Hlook. replace (tss + 0 + i) with (tss + i) by lia. reflexivity.
    + rewrite znth_overflow by lia.
      replace (tss + i <=? last_key acc) with false by (unfold L in Hge; lia). reflexivity.
Qed.

(** the hit steps [keys (dr_sorted_groups ...)] are exactly the distinct start steps of the
    accepted drum notes, in ascending order *)
Theorem drums_hit_steps p ns :
  let ks := keys (dr_sorted_groups p ns) in
  StronglySorted Z.lt ks /\
  forall k, In k ks <-> exists n, In n ns /\ dr_keep p n = true /\ n_qstart n = k.
Proof.
  destruct (sorted_groups_facts p ns) as (_ & Hs & Hk & _). split; [|exact Hk].
  clear Hk. induction Hs as [|a l Hs IH Hf]; cbn [keys map]; [constructor|]. constructor; [exact IH|].
  rewrite Forall_forall in *. intros k Hin. apply in_map_iff in Hin. destruct Hin as (b & <- & Hb).
  exact (Hf b Hb).
Qed.

(** the cut: every kept step is closer than the gap to its predecessor, the first dropped one is not *)
Lemma dr_cut_spec G : forall ks prev,
  exists rest, ks = dr_cut G prev ks ++ rest /\
    match rest with [] => True | k :: _ => G <= k - (last (prev :: dr_cut G prev ks) 0 + 1) end.
Proof.
  induction ks as [|k r IH]; intros prev; cbn [dr_cut]; [exists []; split; [reflexivity|exact I]|].
  destruct (G <=? k - (prev + 1)) eqn:E.
  - exists (k :: r). split; [reflexivity|]. cbn [last]. lia.
  - destruct (IH k) as (rest & H1 & H2). exists rest. split; [cbn [app]; now rewrite <- H1|].
    destruct rest; [exact I|]. cbn [last] in *. destruct (dr_cut G k r); exact H2.
Qed.
