(** Proofs/QuantizeFloatExt.v — C01 float layer, extensions:
    (1) the float codes under which times / qpm are stored decode to the float they stand for, the
        integer order on codes is the order on times, and code 0 is the only zero;
    (2) tempo-relative quantization gives the step nearest to the EXACT position t*spq*qpm/60;
    (3) stretch invariance on floats;
    (4) the tempo-relative resolution is the correctly rounded quotient, and exact ties of the exact
        tempo-relative position round up. *)
From Coq Require Import ZArith Reals Floats Lia Lra.
From Flocq Require Import Core BinarySingleNaN PrimFloat Relative Ulp.
From NS Require Import Base.FloatBridge Gen.G01 Model.Quantize Proofs.QuantizeFloat.
Open Scope R_scope.

Lemma format_me (m e : Z) : (Z.abs m < 2 ^ 53)%Z -> (-1074 <= e)%Z ->
  generic_format radix2 fexp (IZR m * bpow radix2 e).
Proof.
  intros Hm He. apply generic_format_FLT. apply (FLT_spec _ _ _ _ (Float radix2 m e)).
  - reflexivity.
  - cbn [Fnum]. unfold prec. exact Hm.
  - cbn [Fexp]. unfold emax, prec. lia.
Qed.

Lemma f_of_me_R (m e : Z) : (Z.abs m < 2 ^ 53)%Z -> (-1074 <= e)%Z ->
  IZR (Z.abs m) * bpow radix2 e < bpow radix2 1024 ->
  R_of (f_of_me m e) = IZR m * bpow radix2 e /\ fin (f_of_me m e).
Proof.
  intros Hm He Hb.
  destruct (of_uint63_R (Z.abs m) ltac:(lia)) as [E F].
  assert (A : R_of (Z.ldexp (of_uint63 (Uint63.of_Z (Z.abs m))) e) = IZR (Z.abs m) * bpow radix2 e /\
              fin (Z.ldexp (of_uint63 (Uint63.of_Z (Z.abs m))) e)).
  { unfold R_of, fin in *. rewrite ldexp_equiv.
    generalize (Bldexp_correct prec emax Hprec Hmax mode_NE (Prim2B (of_uint63 (Uint63.of_Z (Z.abs m)))) e).
    rewrite E.
    change (round radix2 (SpecFloat.fexp prec emax) (round_mode mode_NE) (IZR (Z.abs m) * bpow radix2 e))
      with (rnd (IZR (Z.abs m) * bpow radix2 e)).
    rewrite (round_generic radix2 fexp ZnearestE (IZR (Z.abs m) * bpow radix2 e))
      by (apply format_me; [rewrite Z.abs_involutive; exact Hm|exact He]).
    rewrite Rlt_bool_true.
    - intros (H1 & H2 & _). rewrite F in H2. split; assumption.
    - rewrite Rabs_pos_eq. exact Hb. apply Rmult_le_pos. apply IZR_le; lia. apply bpow_ge_0. }
  destruct A as [EA FA]. unfold f_of_me.
  destruct (m <? 0)%Z eqn:S.
  - unfold R_of, fin in *. rewrite opp_equiv, B2R_Bopp, is_finite_Bopp. split; [|exact FA].
    rewrite EA. rewrite Z.abs_neq by lia. rewrite opp_IZR. ring.
  - split; [|exact FA]. rewrite EA. rewrite Z.abs_eq by lia. reflexivity.
Qed.

(** * The float code: decoded value and order *)
Local Open Scope Z_scope.
Definition B52 : Z := 4503599627370496.
Definition code_ok (c : Z) : Prop := Z.abs c < 2047 * B52.
Definition code_mant (a : Z) : Z := if a / B52 =? 0 then a mod B52 else a mod B52 + B52.
Definition code_exp (a : Z) : Z := if a / B52 =? 0 then -1074 else a / B52 - 1075.
Definition magv (a : Z) : R := (IZR (code_mant a) * bpow radix2 (code_exp a))%R.
Definition code_val (c : Z) : R := if c <? 0 then (- magv (Z.abs c))%R else magv (Z.abs c).

Lemma code_mant_range a : 0 <= a -> 0 <= code_mant a < 2 ^ 53.
Proof.
  intros Ha. unfold code_mant. pose proof (Z.mod_pos_bound a B52 ltac:(unfold B52; lia)) as M.
  change (2 ^ 53) with (2 * B52). destruct (a / B52 =? 0); unfold B52 in *; lia.
Qed.

Lemma magv_nonneg a : 0 <= a -> (0 <= magv a)%R.
Proof.
  intros Ha. unfold magv. apply Rmult_le_pos. apply IZR_le. apply code_mant_range, Ha. apply bpow_ge_0.
Qed.

Lemma fdec_unfold c :
  fdec c = f_of_me ((if c <? 0 then -1 else 1) * code_mant (Z.abs c)) (code_exp (Z.abs c)).
Proof.
  unfold fdec, code_mant, code_exp, B52. cbv zeta.
  destruct (Z.abs c / 4503599627370496 =? 0); reflexivity.
Qed.

Theorem fdec_R c : code_ok c -> R_of (fdec c) = code_val c /\ fin (fdec c).
Proof.
  intros Hc. unfold code_ok in Hc. rewrite fdec_unfold.
  set (a := Z.abs c) in *. assert (Ha : 0 <= a) by (unfold a; lia).
  pose proof (code_mant_range a Ha) as Hm.
  assert (He : -1074 <= code_exp a <= 971).
  { unfold code_exp. destruct (a / B52 =? 0) eqn:E; [lia|].
    assert (a / B52 < 2047) by (apply Z.div_lt_upper_bound; unfold B52 in *; lia).
    assert (0 <= a / B52) by (apply Z.div_pos; unfold B52; lia). lia. }
  set (s := if c <? 0 then -1 else 1).
  assert (Hs : Z.abs (s * code_mant a) = code_mant a) by (unfold s; destruct (c <? 0); lia).
  destruct (f_of_me_R (s * code_mant a) (code_exp a)) as [E F].
  - rewrite Hs. lia.
  - lia.
  - rewrite Hs. apply Rlt_le_trans with (bpow radix2 53 * bpow radix2 (code_exp a))%R.
    + apply Rmult_lt_compat_r. apply bpow_gt_0.
      change (bpow radix2 53) with (IZR (2 ^ 53)). apply IZR_lt. lia.
    + rewrite <- bpow_plus. apply bpow_le. lia.
  - split; [|exact F]. rewrite E. unfold code_val, magv. fold a. unfold s.
    destruct (c <? 0).
    + rewrite mult_IZR. replace (IZR (-1)) with (-1)%R by reflexivity. ring.
    + rewrite mult_IZR. ring.
Qed.

Lemma magv_mono a1 a2 : 0 <= a1 <= a2 -> a2 < 2047 * B52 -> (magv a1 <= magv a2)%R.
Proof.
  intros [H0 H12] Hb. unfold magv, code_mant, code_exp.
  assert (BP : 0 < B52) by (unfold B52; lia).
  pose proof (Z.div_le_mono a1 a2 B52 BP H12) as Hd.
  pose proof (Z.div_pos a1 B52 H0 BP) as Hd0.
  pose proof (Z.mod_pos_bound a1 B52 BP) as M1. pose proof (Z.mod_pos_bound a2 B52 BP) as M2.
  pose proof (Z.div_mod a1 B52 ltac:(lia)) as D1. pose proof (Z.div_mod a2 B52 ltac:(lia)) as D2.
  destruct (Z.eq_dec (a1 / B52) (a2 / B52)) as [Eq|Ne].
  - (* same exponent field *)
    rewrite <- Eq. assert (a1 mod B52 <= a2 mod B52) by nia.
    apply Rmult_le_compat_r. apply bpow_ge_0. apply IZR_le.
    destruct (a1 / B52 =? 0); lia.
  - assert (Lt : a1 / B52 < a2 / B52) by lia.
    replace (a2 / B52 =? 0) with false by lia.
    (* magv a2 >= 2^52 * 2^(eb2-1075) *)
    apply Rle_trans with (IZR B52 * bpow radix2 (a2 / B52 - 1075))%R.
    2:{ apply Rmult_le_compat_r. apply bpow_ge_0. apply IZR_le. lia. }
    change (IZR B52) with (bpow radix2 52).
    destruct (a1 / B52 =? 0) eqn:Z1.
    + apply Rle_trans with (bpow radix2 52 * bpow radix2 (-1074))%R.
      * apply Rmult_le_compat_r. apply bpow_ge_0. change (bpow radix2 52) with (IZR B52). apply IZR_le. lia.
      * apply Rmult_le_compat_l. apply bpow_ge_0. apply bpow_le. lia.
    + apply Rle_trans with (bpow radix2 53 * bpow radix2 (a1 / B52 - 1075))%R.
      * apply Rmult_le_compat_r. apply bpow_ge_0. change (bpow radix2 53) with (IZR (2 * B52)). apply IZR_le. lia.
      * rewrite <- !bpow_plus. apply bpow_le. lia.
Qed.

(** the integer order on codes is the order of the decoded floats *)
Theorem code_val_mono c1 c2 : code_ok c1 -> code_ok c2 -> c1 <= c2 -> (code_val c1 <= code_val c2)%R.
Proof.
  unfold code_ok, code_val. intros H1 H2 H.
  destruct (c1 <? 0) eqn:S1; destruct (c2 <? 0) eqn:S2.
  - apply Ropp_le_contravar. apply magv_mono; lia.
  - pose proof (magv_nonneg (Z.abs c1) ltac:(lia)). pose proof (magv_nonneg (Z.abs c2) ltac:(lia)). lra.
  - lia.
  - apply magv_mono; lia.
Qed.

Theorem fdec_mono c1 c2 : code_ok c1 -> code_ok c2 -> c1 <= c2 -> (R_of (fdec c1) <= R_of (fdec c2))%R.
Proof.
  intros H1 H2 H. rewrite (proj1 (fdec_R c1 H1)), (proj1 (fdec_R c2 H2)). apply code_val_mono; assumption.
Qed.

(** code 0 is time 0.0, and only code 0 decodes to zero: [time != 0] is [code <> 0] *)
Lemma magv_pos a : 0 < a -> a < 2047 * B52 -> (0 < magv a)%R.
Proof.
  intros Ha Hb. unfold magv. apply Rmult_lt_0_compat; [|apply bpow_gt_0].
  apply (IZR_lt 0). unfold code_mant.
  assert (BP : 0 < B52) by (unfold B52; lia).
  pose proof (Z.mod_pos_bound a B52 BP). pose proof (Z.div_mod a B52 ltac:(lia)).
  destruct (a / B52 =? 0) eqn:E; [|lia]. apply Z.eqb_eq in E. rewrite E in *. lia.
Qed.

Theorem code_val_zero_iff c : code_ok c -> (code_val c = 0%R <-> c = 0).
Proof.
  intros Hc. unfold code_ok in Hc. split.
  - intros E. destruct (Z.eq_dec c 0) as [Z0|NZ]; [exact Z0|exfalso].
    pose proof (magv_pos (Z.abs c) ltac:(lia) Hc) as P. unfold code_val in E. destruct (c <? 0); lra.
  - intros ->. unfold code_val, magv, code_mant, code_exp. cbn. lra.
Qed.

Local Close Scope Z_scope.
Local Open Scope R_scope.

Lemma bpow_m51 : 0 < bpow radix2 (-51) <= / 1024 /\ bpow radix2 (-50) = 2 * bpow radix2 (-51) /\
                 bpow radix2 (-49) = 4 * bpow radix2 (-51).
Proof.
  split; [split|split].
  - apply bpow_gt_0.
  - replace (/ 1024) with (bpow radix2 (-10)) by (cbn; lra). apply bpow_le. lia.
  - replace (-50)%Z with (1 + (-51))%Z by lia. rewrite bpow_plus. replace (bpow radix2 1) with 2 by (cbn; lra). ring.
  - replace (-49)%Z with (2 + (-51))%Z by lia. rewrite bpow_plus. replace (bpow radix2 2) with 4 by (cbn; lra). ring.
Qed.

(** tempo-relative quantization: nearest step with respect to the EXACT position
    t * spq * qpm / 60, away from a 2^-49-relative neighbourhood of a half-step boundary *)
Theorem q2s_rel_nearest t spq qpm :
  fin t -> (1 <= spq <= 1024)%Z -> fin qpm -> 1 <= R_of qpm <= 1024 ->
  0 <= R_of t <= bpow radix2 40 ->
  let P := R_of t * (IZR spq * R_of qpm / 60) in
  let k := Zfloor (P + / 2) in
  let D := bpow radix2 (-49) * (P + 1) in
  IZR k + D < P + / 2 < IZR k + 1 - D ->
  q2s t (sps_rel spq qpm) = k.
Proof.
  intros Ft Hs Fq Hq [T0 T1] P k D Hk.
  destruct (sps_rel_R spq qpm Hs Fq Hq) as (Fs & [S0 S1] & Es). cbv zeta in Es.
  set (x := IZR spq * R_of qpm / 60) in *. set (s := sps_rel spq qpm) in *.
  destruct bpow_m51 as ([U0 U1] & U50 & U49). set (U := bpow radix2 (-51)) in *.
  assert (X0 : 0 < x).
  { unfold x. assert (1 <= IZR spq) by (apply (IZR_le 1); lia). apply Rmult_lt_0_compat; [|lra]. nra. }
  assert (P0 : 0 <= P) by (unfold P; apply Rmult_le_pos; lra).
  set (p := R_of t * R_of s).
  assert (A : Rabs (p - P) <= U * P).
  { unfold p, P. fold x. replace (R_of t * R_of s - R_of t * x) with (R_of t * (R_of s - x)) by ring.
    rewrite Rabs_mult, (Rabs_pos_eq (R_of t)) by lra.
    replace (U * (R_of t * x)) with (R_of t * (U * x)) by ring.
    apply Rmult_le_compat_l; lra. }
  apply Rabs_le_inv in A.
  assert (UP0 : 0 <= U * P) by (apply Rmult_le_pos; lra).
  assert (UUP : U * (U * P) <= (U * P) / 1024).
  { replace (U * P / 1024) with (/ 1024 * (U * P)) by field. apply Rmult_le_compat_r; lra. }
  assert (p0 : 0 <= p) by (unfold p; apply Rmult_le_pos; lra).
  assert (pb : p <= bpow radix2 60).
  { unfold p. replace (bpow radix2 60) with (bpow radix2 40 * bpow radix2 20) by (rewrite <- bpow_plus; reflexivity).
    apply Rmult_le_compat; lra. }
  set (d := bpow radix2 (-50) * (p + 1)).
  assert (Dd : d <= D - U * P).
  { unfold d, D. rewrite U50, U49.
    assert (U * p <= U * (P + U * P)) by (apply Rmult_le_compat_l; lra). nra. }
  assert (Hfl : Zfloor (p + / 2) = k).
  { apply Zfloor_imp. rewrite plus_IZR.
    assert (0 < d). { unfold d. apply Rmult_lt_0_compat. apply bpow_gt_0. lra. }
    lra. }
  pose proof (q2s_nearest_local t s Ft Fs (conj p0 pb)) as Q. cbv zeta in Q. fold p in Q. rewrite Hfl in Q.
  apply Q. fold d. lra.
Qed.

Lemma rnd_rel_err z : bpow radix2 (-6) <= z -> Rabs (rnd z - z) <= u53 * z.
Proof.
  intros Hz. pose proof (bpow_gt_0 radix2 (-6)).
  pose proof (relative_error_N_FLT radix2 (3 - emax - prec) prec ltac:(unfold prec; lia)
                (fun n => negb (Z.even n)) z) as RR.
  rewrite (Rabs_pos_eq z) in RR by lra. apply RR.
  apply Rle_trans with (bpow radix2 (-6)); [|exact Hz]. apply bpow_le. unfold emax, prec. lia.
Qed.

Lemma u53_m48 : bpow radix2 (-48) = 32 * u53 /\ bpow radix2 (-49) = 16 * u53.
Proof.
  pose proof u53_val as V. split.
  - replace (-48)%Z with (2 + (-50))%Z by lia. rewrite bpow_plus, V. replace (bpow radix2 2) with 4 by (cbn; lra). ring.
  - replace (-49)%Z with (1 + (-50))%Z by lia. rewrite bpow_plus, V. replace (bpow radix2 1) with 2 by (cbn; lra). ring.
Qed.

(** Stretch invariance on floats: stretching the time by f (one rounding) and dividing the tempo
    by f (one rounding) gives the same step, away from a 2^-48-relative neighbourhood of a
    half-step boundary of the exact position. *)
Theorem stretch_invariance_float t f spq qpm :
  fin t -> fin f -> fin qpm -> (1 <= spq <= 1024)%Z ->
  0 <= R_of t <= bpow radix2 38 -> / 4 <= R_of f <= 4 -> 4 <= R_of qpm <= 256 ->
  let P := R_of t * (IZR spq * R_of qpm / 60) in
  let k := Zfloor (P + / 2) in
  let M := bpow radix2 (-48) * (P + 1) in
  IZR k + M < P + / 2 < IZR k + 1 - M ->
  q2s (t * f)%float (sps_rel spq (qpm / f)%float) = q2s t (sps_rel spq qpm).
Proof.
  intros Ft Ff Fq Hs [T0 T1] [F0 F1] [Q0 Q1] P k M Hk.
  destruct u53_m48 as [U48 U49]. pose proof u53_small as [U0 U1]. pose proof eta_small as [E0 E1].
  assert (B38 : bpow radix2 40 = 4 * bpow radix2 38).
  { replace 40%Z with (2 + 38)%Z by lia. rewrite bpow_plus. replace (bpow radix2 2) with 4 by (cbn; lra). ring. }
  pose proof (bpow_gt_0 radix2 38) as B38p.
  assert (P0 : 0 <= P).
  { unfold P. apply Rmult_le_pos; [lra|]. assert (1 <= IZR spq) by (apply (IZR_le 1); lia).
    apply Rmult_le_pos; [|lra]. apply Rmult_le_pos; lra. }
  (* right-hand side *)
  assert (R : q2s t (sps_rel spq qpm) = k).
  { apply q2s_rel_nearest; try assumption; try lra. fold P. fold k. rewrite U49. unfold M in Hk. rewrite U48 in Hk.
    assert (0 <= u53 * (P + 1)) by (apply Rmult_le_pos; lra). lra. }
  rewrite R.
  (* the stretched time *)
  set (a := R_of t * R_of f).
  assert (A0 : 0 <= a <= bpow radix2 40).
  { unfold a. split. apply Rmult_le_pos; lra. rewrite B38. rewrite (Rmult_comm 4). apply Rmult_le_compat; lra. }
  destruct (mul_R t f 40 Ft Ff ltac:(lia)) as [Ea Fa].
  { fold a. rewrite Rabs_pos_eq; lra. }
  fold a in Ea.
  assert (A1 : 0 <= rnd a <= bpow radix2 40).
  { split. apply round_ge_generic; auto with typeclass_instances. apply generic_format_0. lra.
    apply round_le_generic; auto with typeclass_instances. apply generic_format_bpow. unfold FLT_exp, emax, prec. lia. lra. }
  pose proof (rnd_err a (proj1 A0)) as DA. apply Rabs_le_inv in DA.
  (* the stretched tempo *)
  set (q := R_of qpm / R_of f).
  assert (Q : 1 <= q <= 1024).
  { unfold q. split.
    - apply Rmult_le_reg_r with (R_of f). lra. unfold Rdiv. rewrite Rmult_assoc, Rinv_l by lra. lra.
    - apply Rmult_le_reg_r with (R_of f). lra. unfold Rdiv. rewrite Rmult_assoc, Rinv_l by lra. nra. }
  destruct (div_R qpm f 10 Fq Ff ltac:(lra) ltac:(lia)) as [Eq Fq'].
  { fold q. rewrite Rabs_pos_eq by lra. replace (bpow radix2 10) with 1024 by (cbn; lra). lra. }
  fold q in Eq.
  assert (Q' : 1 <= rnd q <= 1024).
  { split.
    - apply round_ge_generic; auto with typeclass_instances. apply (format_IZR_small 1). cbn; lia. lra.
    - apply round_le_generic; auto with typeclass_instances. apply (format_IZR_small 1024). cbn; lia. lra. }
  assert (DQ : Rabs (rnd q - q) <= u53 * q).
  { apply rnd_rel_err. replace (bpow radix2 (-6)) with (/ 64) by (cbn; lra). lra. }
  apply Rabs_le_inv in DQ.
  (* exact position of the stretched pair *)
  set (c := IZR spq / 60).
  assert (C : / 60 <= c <= 1024 / 60).
  { unfold c. assert (1 <= IZR spq <= 1024) by (split; [apply (IZR_le 1)|apply (IZR_le _ 1024)]; lia). lra. }
  assert (EP : P = c * (a * q)).
  { unfold P, c, a, q. field. lra. }
  set (P' := R_of (t * f)%float * (IZR spq * R_of (qpm / f)%float / 60)).
  assert (EP' : P' = c * (rnd a * rnd q)).
  { unfold P', c. rewrite Ea, Eq. field. }
  assert (AQ : 0 <= a * q) by (apply Rmult_le_pos; lra).
  (* |P' - P| <= 3 u (P + 1) *)
  assert (Dd : Rabs (P' - P) <= 3 * u53 * (P + 1)).
  { rewrite EP', EP.
    replace (c * (rnd a * rnd q) - c * (a * q)) with (c * ((rnd a - a) * rnd q + a * (rnd q - q))) by ring.
    assert (H1 : Rabs ((rnd a - a) * rnd q + a * (rnd q - q)) <= (u53 * a + eta) * (q + u53 * q) + a * (u53 * q)).
    { eapply Rle_trans. apply Rabs_triang. apply Rplus_le_compat.
      - rewrite Rabs_mult. apply Rmult_le_compat; try apply Rabs_pos.
        apply Rabs_le; lra. rewrite Rabs_pos_eq by lra. lra.
      - rewrite Rabs_mult, (Rabs_pos_eq a) by lra. apply Rmult_le_compat_l. lra. apply Rabs_le; lra. }
    rewrite Rabs_mult, (Rabs_pos_eq c) by lra.
    eapply Rle_trans. apply Rmult_le_compat_l. lra. exact H1.
    (* c ((u a + eta)(q + u q) + a u q) = (2u + u^2) c a q + c eta q (1+u) *)
    assert (UAQ : 0 <= u53 * (a * q)) by (apply Rmult_le_pos; lra).
    assert (T1' : c * (eta * (q + u53 * q)) <= u53).
    { assert (q + u53 * q <= 2048) by nra.
      assert (eta * (q + u53 * q) <= eta * 2048) by (apply Rmult_le_compat_l; lra).
      assert (c * (eta * (q + u53 * q)) <= (1024 / 60) * (eta * 2048)).
      { apply Rmult_le_compat; try lra. apply Rmult_le_pos; [lra|nra]. }
      (* eta <= 2^-1075, far below u/2^20; use eta <= u53/4 is too weak: need a sharper bound *)
      assert (eta * 2048 * (1024 / 60) <= u53).
      { unfold eta, u53. replace (3 - emax - prec)%Z with (-1074)%Z by (unfold emax, prec; lia).
        replace (- prec + 1)%Z with (-52)%Z by (unfold prec; lia).
        pose proof (bpow_le radix2 (-1074) (-52 + -16) ltac:(lia)) as Hb. rewrite bpow_plus in Hb.
        replace (bpow radix2 (-16)) with (/ 65536) in Hb by (cbn; lra).
        pose proof (bpow_gt_0 radix2 (-52)). pose proof (bpow_gt_0 radix2 (-1074)). nra. }
      lra. }
    replace (c * ((u53 * a + eta) * (q + u53 * q) + a * (u53 * q)))
      with ((2 * u53 + u53 * u53) * (c * (a * q)) + c * (eta * (q + u53 * q))) by ring.
    rewrite <- EP.
    assert (u53 * u53 * P <= u53 * P).
    { rewrite Rmult_assoc. replace (u53 * P) with (1 * (u53 * P)) at 2 by ring.
      apply Rmult_le_compat_r. apply Rmult_le_pos; lra. lra. }
    nra. }
  apply Rabs_le_inv in Dd.
  assert (P'0 : 0 <= P').
  { rewrite EP'. apply Rmult_le_pos. lra. apply Rmult_le_pos; lra. }
  assert (UP : 0 <= u53 * (P + 1)) by (apply Rmult_le_pos; lra).
  (* apply the relative theorem to the stretched pair *)
  assert (L : q2s (t * f)%float (sps_rel spq (qpm / f)%float) = Zfloor (P' + / 2) /\ Zfloor (P' + / 2) = k).
  { unfold M in Hk. rewrite U48 in Hk.
    assert (Hfl : Zfloor (P' + / 2) = k).
    { apply Zfloor_imp. rewrite plus_IZR. lra. }
    split; [|exact Hfl].
    apply q2s_rel_nearest; try assumption.
    - rewrite Eq. exact Q'.
    - rewrite Ea. exact A1.
    - fold P'. rewrite Hfl, U49.
      assert (u53 * (P' + 1) <= u53 * (P + 1) + u53 * (3 * u53 * (P + 1))).
      { replace (u53 * (P + 1) + u53 * (3 * u53 * (P + 1))) with (u53 * ((P + 1) + 3 * u53 * (P + 1))) by ring.
        apply Rmult_le_compat_l; lra. }
      assert (u53 * (3 * u53 * (P + 1)) <= / 16 * (u53 * (P + 1))).
      { replace (u53 * (3 * u53 * (P + 1))) with ((3 * u53) * (u53 * (P + 1))) by ring.
        apply Rmult_le_compat_r; lra. }
      lra. }
  destruct L as [L1 L2]. rewrite L1. exact L2.
Qed.

(** the hypotheses of [stretch_invariance_float] are satisfiable: 1 s, stretched by 2, 4 steps per
    quarter at 60 qpm (position: step 4 exactly) *)
Example stretch_invariance_float_nonvacuous :
  let t := f_of_Z 1 in let f := f_of_Z 2 in let qpm := f_of_Z 60 in let spq := 4%Z in
  fin t /\ fin f /\ fin qpm /\ (1 <= spq <= 1024)%Z /\
  0 <= R_of t <= bpow radix2 38 /\ / 4 <= R_of f <= 4 /\ 4 <= R_of qpm <= 256 /\
  (let P := R_of t * (IZR spq * R_of qpm / 60) in
   let k := Zfloor (P + / 2) in
   let M := bpow radix2 (-48) * (P + 1) in
   IZR k + M < P + / 2 < IZR k + 1 - M) /\
  q2s (t * f)%float (sps_rel spq (qpm / f)%float) = 4%Z.
Proof.
  cbv zeta.
  destruct (f_of_Z_R 1 ltac:(lia)) as [E1 F1]. destruct (f_of_Z_R 2 ltac:(lia)) as [E2 F2].
  destruct (f_of_Z_R 60 ltac:(lia)) as [E3 F3].
  rewrite E1, E2, E3.
  assert (B38 : 1 <= bpow radix2 38) by (apply bpow_ge_1; lia).
  assert (B48 : 0 < bpow radix2 (-48) <= / 1024).
  { split. apply bpow_gt_0. replace (/ 1024) with (bpow radix2 (-10)) by (cbn; lra). apply bpow_le. lia. }
  replace (1 * (4 * 60 / 60)) with 4 by field.
  assert (K : Zfloor (4 + / 2) = 4%Z) by (apply Zfloor_imp; rewrite plus_IZR; lra).
  rewrite K.
  repeat split; try assumption; try lia; try lra.

Qed.

(** * Codes: strict order, hence the integer comparison of codes IS the float comparison *)
Local Close Scope R_scope.
Local Open Scope Z_scope.
Lemma magv_strict a1 a2 : 0 <= a1 < a2 -> a2 < 2047 * B52 -> (magv a1 < magv a2)%R.
Proof.
  intros [H0 H12] Hb. unfold magv, code_mant, code_exp.
  assert (BP : 0 < B52) by (unfold B52; lia).
  pose proof (Z.div_le_mono a1 a2 B52 BP ltac:(lia)) as Hd.
  pose proof (Z.div_pos a1 B52 H0 BP) as Hd0.
  pose proof (Z.mod_pos_bound a1 B52 BP) as M1. pose proof (Z.mod_pos_bound a2 B52 BP) as M2.
  pose proof (Z.div_mod a1 B52 ltac:(lia)) as D1. pose proof (Z.div_mod a2 B52 ltac:(lia)) as D2.
  destruct (Z.eq_dec (a1 / B52) (a2 / B52)) as [Eq|Ne].
  - rewrite <- Eq. assert (a1 mod B52 < a2 mod B52) by nia.
    apply Rmult_lt_compat_r. apply bpow_gt_0. apply IZR_lt.
    destruct (a1 / B52 =? 0); lia.
  - assert (Lt : a1 / B52 < a2 / B52) by lia.
    replace (a2 / B52 =? 0) with false by lia.
    apply Rlt_le_trans with (IZR B52 * bpow radix2 (a2 / B52 - 1075))%R.
    2:{ apply Rmult_le_compat_r. apply bpow_ge_0. apply IZR_le. lia. }
    change (IZR B52) with (bpow radix2 52).
    destruct (a1 / B52 =? 0) eqn:Z1.
    + apply Rlt_le_trans with (bpow radix2 52 * bpow radix2 (-1074))%R.
      * apply Rmult_lt_compat_r. apply bpow_gt_0. change (bpow radix2 52) with (IZR B52). apply IZR_lt. lia.
      * apply Rmult_le_compat_l. apply bpow_ge_0. apply bpow_le. lia.
    + apply Rlt_le_trans with (bpow radix2 53 * bpow radix2 (a1 / B52 - 1075))%R.
      * apply Rmult_lt_compat_r. apply bpow_gt_0. change (bpow radix2 53) with (IZR (2 * B52)). apply IZR_lt. lia.
      * rewrite <- !bpow_plus. apply bpow_le. lia.
Qed.

Theorem code_val_strict c1 c2 : code_ok c1 -> code_ok c2 -> c1 < c2 -> (code_val c1 < code_val c2)%R.
Proof.
  unfold code_ok, code_val. intros H1 H2 H.
  destruct (c1 <? 0) eqn:S1; destruct (c2 <? 0) eqn:S2.
  - apply Ropp_lt_contravar. apply magv_strict; lia.
  - pose proof (magv_pos (Z.abs c1) ltac:(lia) H1). pose proof (magv_nonneg (Z.abs c2) ltac:(lia)). lra.
  - lia.
  - apply magv_strict; lia.
Qed.

(** Python's float comparison of two times is the integer comparison of their codes *)
Theorem code_order_iff c1 c2 : code_ok c1 -> code_ok c2 ->
  (c1 <= c2 <-> (R_of (fdec c1) <= R_of (fdec c2))%R).
Proof.
  intros H1 H2. rewrite (proj1 (fdec_R c1 H1)), (proj1 (fdec_R c2 H2)). split.
  - apply code_val_mono; assumption.
  - intros L. destruct (Z_le_gt_dec c1 c2) as [Hle|Hgt]; [exact Hle|exfalso].
    pose proof (code_val_strict c2 c1 H2 H1 ltac:(lia)). lra.
Qed.

Theorem code_eq_iff c1 c2 : code_ok c1 -> code_ok c2 ->
  (c1 = c2 <-> R_of (fdec c1) = R_of (fdec c2)).
Proof.
  intros H1 H2. split; [intros ->; reflexivity|]. intros E.
  pose proof (proj2 (code_order_iff c1 c2 H1 H2) ltac:(rewrite E; apply Rle_refl)).
  pose proof (proj2 (code_order_iff c2 c1 H2 H1) ltac:(rewrite E; apply Rle_refl)). lia.
Qed.

(** * Tempo-relative quantization: correctly rounded resolution, exact ties *)
Local Close Scope Z_scope.
Local Open Scope R_scope.
(** when the int * float product is exact, steps_per_quarter * qpm / 60.0 is the CORRECTLY ROUNDED
    value of the exact quotient (one rounding) *)
Theorem sps_rel_correctly_rounded (spq : Z) (qpm : PrimFloat.float) :
  (1 <= spq <= 1024)%Z -> fin qpm -> 1 <= R_of qpm <= 1024 ->
  generic_format radix2 fexp (IZR spq * R_of qpm) ->
  R_of (sps_rel spq qpm) = rnd (IZR spq * R_of qpm / 60) /\ fin (sps_rel spq qpm).
Proof.
  intros Hs Fq [Q0 Q1] G.
  destruct (f_of_Z_R spq ltac:(lia)) as [Es Fs]. destruct sixty_R as [E60 F60].
  assert (S0 : 1 <= IZR spq <= 1024) by (split; [apply (IZR_le 1)|apply (IZR_le _ 1024)]; lia).
  assert (P0 : 1 <= IZR spq * R_of qpm <= 1024 * 1024) by nra.
  unfold sps_rel.
  destruct (mul_R (f_of_Z spq) qpm 20 Fs Fq ltac:(lia)) as [Em Fm].
  { rewrite Es, Rabs_pos_eq by lra. replace (bpow radix2 20) with (1024 * 1024) by (cbn; lra). lra. }
  rewrite Es in Em. rewrite round_generic in Em by (auto with typeclass_instances).
  destruct (div_R (f_of_Z spq * qpm)%float 60%float 20 Fm F60) as [Ed Fd].
  { rewrite E60. lra. } { lia. }
  { rewrite Em, E60, Rabs_pos_eq by (apply Rmult_le_pos; lra).
    replace (bpow radix2 20) with (1024 * 1024) by (cbn; lra). lra. }
  rewrite Em, E60 in Ed. split; assumption.
Qed.

(** Exact ties of the tempo-relative position round up.
    x = spq*qpm/60 exact; t*x = k + 1/2 exactly.  The one unavoidable rounding of x moves the
    product by at most t*ulp(x)/2; as long as that is less than half the gap below k + 1/2 the
    float product is k + 1/2 or above, and the result is k + 1. *)
Theorem q2s_rel_tie_up t spq qpm k :
  fin t -> (1 <= spq <= 1024)%Z -> fin qpm -> 1 <= R_of qpm <= 1024 ->
  generic_format radix2 fexp (IZR spq * R_of qpm) ->
  0 <= R_of t <= bpow radix2 40 -> (0 <= k < 2 ^ 40)%Z ->
  let x := IZR spq * R_of qpm / 60 in
  let y := IZR k + / 2 in
  R_of t * x = y ->
  R_of t * ulp radix2 fexp x < y - pred radix2 fexp y ->
  q2s t (sps_rel spq qpm) = (k + 1)%Z.
Proof.
  intros Ft Hs Fq Hq G [T0 T1] Hk x y Exy Hgap.
  destruct (sps_rel_correctly_rounded spq qpm Hs Fq Hq G) as [Es Fs]. fold x in Es.
  destruct (sps_rel_R spq qpm Hs Fq Hq) as (_ & [S0 S1] & Er). cbv zeta in Er. fold x in Er.
  set (s := sps_rel spq qpm) in *.
  assert (X0 : 0 < x).
  { unfold x. assert (1 <= IZR spq) by (apply (IZR_le 1); lia). apply Rmult_lt_0_compat; [|lra]. nra. }
  assert (K0 : 0 <= IZR k < bpow radix2 40).
  { split. apply IZR_le; lia. change (bpow radix2 40) with (IZR (2 ^ 40)). apply IZR_lt; lia. }
  assert (Y0 : / 2 <= y) by (unfold y; lra).
  set (z := R_of t * R_of s).
  (* half-ulp error of the resolution *)
  pose proof (error_le_half_ulp radix2 fexp (fun n => negb (Z.even n)) x) as Eu. rewrite <- Es in Eu.
  apply Rabs_le_inv in Eu.
  assert (Z1 : (y + pred radix2 fexp y) / 2 < z).
  { unfold z. replace (R_of t * R_of s) with (y + R_of t * (R_of s - x)) by (rewrite <- Exy; ring).
    assert (- (R_of t * (/ 2 * ulp radix2 fexp x)) <= R_of t * (R_of s - x)).
    { replace (- (R_of t * (/ 2 * ulp radix2 fexp x))) with (R_of t * - (/ 2 * ulp radix2 fexp x)) by ring.
      apply Rmult_le_compat_l; lra. }
    lra. }
  assert (Fy : generic_format radix2 fexp y).
  { unfold y. replace (IZR k + / 2) with (IZR (2 * k + 1) * / 2) by (rewrite plus_IZR, mult_IZR; lra).
    apply format_half_int. lia. }
  pose proof (round_N_ge_midp radix2 fexp (fun n => negb (Z.even n)) y z Fy Z1) as L1.
  (* upper side: the relative error bound *)
  destruct bpow_m51 as ([U0 U1] & U50 & _). set (U := bpow radix2 (-51)) in *.
  apply Rabs_le_inv in Er.
  assert (Z2 : z <= y + U * y).
  { unfold z. replace (y + U * y) with (R_of t * (x + U * x)) by (rewrite <- Exy; ring).
    apply Rmult_le_compat_l; lra. }
  assert (Z0 : 0 <= z) by (unfold z; apply Rmult_le_pos; lra).
  assert (B40 : bpow radix2 40 * bpow radix2 20 = bpow radix2 60) by (rewrite <- bpow_plus; reflexivity).
  assert (Zb : z <= bpow radix2 60).
  { unfold z. rewrite <- B40. apply Rmult_le_compat; lra. }
  rewrite (q2s_R t s Ft Fs) by (fold z; rewrite Rabs_pos_eq; lra). fold z.
  pose proof (q2s_value_close z Z0) as C. rewrite U50 in C. apply Rabs_lt_inv in C.
  set (v := rnd (rnd z + / 2)) in *.
  assert (V1 : IZR (k + 1) <= v).
  { unfold v. apply round_ge_generic; auto with typeclass_instances.
    apply format_IZR_small. lia. rewrite plus_IZR. unfold y in L1. lra. }
  (* U * y is tiny: y < 2^41, U = 2^-51 *)
  assert (UY : U * y <= / 512).
  { assert (y <= bpow radix2 41).
    { unfold y. replace 41%Z with (40 + 1)%Z by lia. rewrite bpow_double. pose proof (bpow_ge_1 40 ltac:(lia)). lra. }
    apply Rle_trans with (U * bpow radix2 41). apply Rmult_le_compat_l; lra.
    unfold U. rewrite <- bpow_plus. replace (/ 512) with (bpow radix2 (-9)) by (cbn; lra). apply bpow_le. lia. }
  assert (UZ : U * z <= / 256).
  { apply Rle_trans with (U * (y + U * y)). apply Rmult_le_compat_l; lra.
    assert (U * (U * y) <= U * y). { replace (U * y) with (1 * (U * y)) at 2 by ring. apply Rmult_le_compat_r; [|lra]. apply Rmult_le_pos; lra. }
    lra. }
  assert (V2 : v < IZR (k + 1) + 1).
  { rewrite plus_IZR. unfold y in *. lra. }
  assert (V0 : 0 <= v) by (rewrite plus_IZR in V1; lra).
  rewrite Ztrunc_floor by exact V0. apply Zfloor_imp. rewrite (plus_IZR (k + 1)). lra.
Qed.

(** the case of an exactly representable resolution: no caveat at all *)
Theorem q2s_rel_tie_up_exact t spq qpm k :
  fin t -> (1 <= spq <= 1024)%Z -> fin qpm -> 1 <= R_of qpm <= 1024 ->
  generic_format radix2 fexp (IZR spq * R_of qpm) ->
  generic_format radix2 fexp (IZR spq * R_of qpm / 60) ->
  (0 <= k < 2 ^ 51)%Z ->
  R_of t * (IZR spq * R_of qpm / 60) = IZR k + / 2 ->
  q2s t (sps_rel spq qpm) = (k + 1)%Z.
Proof.
  intros Ft Hs Fq Hq G Gx Hk E.
  destruct (sps_rel_correctly_rounded spq qpm Hs Fq Hq G) as [Es Fs].
  rewrite round_generic in Es by (auto with typeclass_instances).
  apply q2s_tie_up; try assumption. rewrite Es. exact E.
Qed.

(** the hypotheses of [q2s_rel_tie_up] are satisfiable with a NON-representable resolution:
    3 steps per quarter at 72 qpm (3.6 steps per second), t = 3.75 s = exactly 13.5 steps -> step 14 *)
Example q2s_rel_tie_up_nonvacuous :
  let t := fdec 4615626668101337088 in let qpm := f_of_Z 72 in let spq := 3%Z in let k := 13%Z in
  fin t /\ fin qpm /\ 1 <= R_of qpm <= 1024 /\
  generic_format radix2 fexp (IZR spq * R_of qpm) /\
  0 <= R_of t <= bpow radix2 40 /\
  R_of t * (IZR spq * R_of qpm / 60) = IZR k + / 2 /\
  R_of t * ulp radix2 fexp (IZR spq * R_of qpm / 60) < (IZR k + / 2) - pred radix2 fexp (IZR k + / 2) /\
  q2s t (sps_rel spq qpm) = 14%Z.
Proof.
  cbv zeta.
  destruct (f_of_Z_R 72 ltac:(lia)) as [Eq Fq].
  assert (Et : R_of (fdec 4615626668101337088) = 15 / 4).
  { rewrite R_of_SF.
    replace (Prim2SF (fdec 4615626668101337088)) with (S754_finite false 8444249301319680 (-51))
      by (vm_compute; reflexivity).
    unfold SF2R, F2R. cbn -[IZR]. lra. }
  rewrite Eq, Et.
  assert (B40 : 1024 <= bpow radix2 40).
  { replace 1024 with (bpow radix2 10) by (cbn; lra). apply bpow_le. lia. }
  assert (Ux : ulp radix2 fexp (3 * 72 / 60) = bpow radix2 (-51)).
  { rewrite ulp_neq_0 by lra. unfold cexp. rewrite (mag_unique radix2 _ 2).
    - reflexivity.
    - rewrite Rabs_pos_eq by lra. cbn. lra. }
  assert (Uy : ulp radix2 fexp (13 + / 2) = bpow radix2 (-49)).
  { rewrite ulp_neq_0 by lra. unfold cexp. rewrite (mag_unique radix2 _ 4).
    - reflexivity.
    - rewrite Rabs_pos_eq by lra. cbn. lra. }
  assert (Py : pred radix2 fexp (13 + / 2) = 13 + / 2 - bpow radix2 (-49)).
  { rewrite pred_eq_pos by lra. unfold pred_pos. rewrite (mag_unique radix2 _ 4).
    - rewrite Req_bool_false. rewrite Uy. reflexivity. cbn. lra.
    - rewrite Rabs_pos_eq by lra. cbn. lra. }
  split; [reflexivity|]. split; [exact Fq|]. split; [lra|].
  split. { replace (3 * 72) with (IZR 216) by lra. apply format_IZR_small. cbn. lia. }
  split; [lra|]. split; [lra|]. split.
  - rewrite Ux, Py. replace (-49)%Z with (2 + (-51))%Z by lia. rewrite bpow_plus.
    replace (bpow radix2 2) with 4 by (cbn; lra). pose proof (bpow_gt_0 radix2 (-51)). lra.
  - vm_compute. reflexivity.
Qed.
