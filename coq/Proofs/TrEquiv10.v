(** Proofs/TrEquiv10.v — sequences_lib._clamp_transpose re-translated from its source on every run
    (Gen/Tr.v) equals the hand-written model Model/Transpose.clamp_transpose for all arguments. *)
From Coq Require Import ZArith Bool Lia.
From NS Require Import Base.TrTac Gen.Tr Model.Transpose.
Local Open Scope Z_scope.

Lemma tr_clamp_transpose_eq a ns_min ns_max lo hi :
  tr_clamp_transpose a ns_min ns_max lo hi = Some (clamp_transpose a ns_min ns_max lo hi).
Proof.
  unfold tr_clamp_transpose, clamp_transpose. first [ solve [destruct (a <? 0); reflexivity] | tr_solve ].
Qed.

(** Melody.transpose is `for i in range(len(self)): <body on self._events[i]>`; the translation of that body
    (the per-event function) equals the hand-written [mel_event] for every event and every argument. *)
From NS Require Import Gen.G10.
Lemma tr_melody_transpose_event_eq k lo hi e :
  tr_melody_transpose_event k lo hi e = Some (mel_event k lo hi e).
Proof.
  unfold tr_melody_transpose_event, mel_event, MIN_MIDI_PITCH, NOTES_PER_OCTAVE.
  first [ solve [ rewrite Z.geb_leb; destruct (0 <=? e); [|reflexivity]; cbn zeta;
                  destruct (e + k <? lo); [reflexivity|]; rewrite Z.geb_leb; destruct (hi <=? e + k); reflexivity ]
        | tr_solve ].
Qed.
