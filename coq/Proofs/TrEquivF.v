(** Proofs/TrEquivF.v — quantize_to_step and steps_per_quarter_to_steps_per_second re-translated from their
    SOURCE on every run into PrimFloat terms (Gen/TrF.v) are equal, for all arguments (bit for bit: these are
    equalities of primitive-float terms), to the hand-written binary64 model of Model/Quantize.v that the C01 and
    C06 float theorems are about. *)
From Coq Require Import ZArith Bool Floats.
From NS Require Import Base.FloatBridge Base.TrTac Base.TrTacF Gen.G01 Gen.TrF Model.Quantize.
Local Open Scope Z_scope.

Lemma one_is_one : f_of_Z 1 = 1%float.
Proof. reflexivity. Qed.

(** int() of a non-finite float raises (OverflowError / ValueError): the translation returns None there. *)
Lemma trf_quantize_to_step_eq t sps :
  trf_quantize_to_step t sps cutoff =
  if finb (t * sps + one_minus_cutoff)%float then Some (q2s t sps) else None.
Proof.
  unfold trf_quantize_to_step, q2s, one_minus_cutoff.
  first [ solve [cbn zeta; rewrite one_is_one; reflexivity] | trf_solve ].
Qed.

Lemma trf_quantize_to_step_finite t sps :
  finb (t * sps + one_minus_cutoff)%float = true ->
  trf_quantize_to_step t sps cutoff = Some (q2s t sps).
Proof. intros H. rewrite trf_quantize_to_step_eq, H. reflexivity. Qed.

Lemma trf_sps_eq spq qpm :
  trf_steps_per_quarter_to_steps_per_second spq qpm = Some (sps_rel spq qpm).
Proof.
  unfold trf_steps_per_quarter_to_steps_per_second, sps_rel. reflexivity.
Qed.
