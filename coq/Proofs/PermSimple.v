(** Proofs/PermSimple.v — C12 for the operations that are per-element maps plus a
    verdict: transpose (C10 model), stretch and shift (C13 model), absolute and
    tempo-relative quantization (C01 model). *)
From Coq Require Import ZArith List Bool Lia Permutation Sorted.
From NS Require Import Base.NoteSeq Model.PermDefs Proofs.PermTools.
From NS Require Import Gen.G10 Model.ChordTranspose Model.Transpose Proofs.TransposeChord Proofs.Transpose.
From NS Require Model.TimeOps.
From NS Require Model.Quantize Proofs.Quantize.
Import ListNotations.
Local Open Scope Z_scope.

(** * map_opt (first failure raises) over a permutation *)
Lemma opt_rel_perm_trans {B} (a b c : option (list B)) :
  opt_rel (@Permutation B) a b -> opt_rel (@Permutation B) b c -> opt_rel (@Permutation B) a c.
Proof.
  destruct a, b, c; cbn; try tauto. intros; etransitivity; eassumption.
Qed.

Lemma map_opt_perm {A B} (f : A -> option B) l l' :
  Permutation l l' -> opt_rel (@Permutation B) (map_opt f l) (map_opt f l').
Proof.
  induction 1 as [|x l l' _ IH|x y l|l l' l'' _ IH1 _ IH2]; cbn [map_opt].
  - cbn. constructor.
  - destruct (f x); [|exact I].
    destruct (map_opt f l), (map_opt f l'); cbn in *; try tauto. now constructor.
  - destruct (f x), (f y); cbn; try exact I; destruct (map_opt f l); cbn; try exact I.
    apply perm_swap.
  - eapply opt_rel_perm_trans; eassumption.
Qed.

(** * transpose_note_sequence *)
Definition transpose_rel (a b : seq * Z) : Prop := seq_perm (fst a) (fst b) /\ snd a = snd b.

Theorem perm_transpose s s' k lo hi tc : seq_perm s s' ->
  opt_rel transpose_rel (transpose_ns s k lo hi tc) (transpose_ns s' k lo hi tc).
Proof.
  intros P. rewrite !transpose_ns_spec. unfold transpose_ns_decl.
  destruct P as [Pn Ptp Pts Pks Ptx Pcc Pbd Psc Etot Eqs Espq Esps Esub Etpq Erest].
  assert (Ht : opt_rel (@Permutation text)
            (if tc then map_opt (text_transposed k) (s_texts s) else Some (texts_without_chords (s_texts s)))
            (if tc then map_opt (text_transposed k) (s_texts s') else Some (texts_without_chords (s_texts s')))).
  { destruct tc; [now apply map_opt_perm|]. cbn. unfold texts_without_chords. now apply perm_filter. }
  destruct (if tc then map_opt (text_transposed k) (s_texts s) else Some (texts_without_chords (s_texts s))) as [t1|];
  destruct (if tc then map_opt (text_transposed k) (s_texts s') else Some (texts_without_chords (s_texts s'))) as [t2|];
    cbn in Ht; try tauto; cbn [opt_rel].
  assert (Pk : Permutation (filter (note_keep k lo hi) (s_notes s)) (filter (note_keep k lo hi) (s_notes s')))
    by now apply perm_filter.
  split; cbn [fst snd].
  - constructor; cbn [s_notes s_tempos s_tsigs s_ksigs s_texts s_ccs s_bends s_sects s_total s_qsteps s_spq
                      s_sps s_sub s_tpq s_rest]; try assumption.
    + now apply Permutation_map.
    + now apply Permutation_map.
    + unfold max_end. now apply perm_fold_right_max.
  - rewrite (Permutation_length Pn), (Permutation_length Pk). reflexivity.
Qed.

(** * stretch_note_sequence, shift_sequence_times *)
Module T := NS.Model.TimeOps.

Definition timeops_rel (a b : T.res seq) : Prop :=
  match a, b with
  | T.Ok x, T.Ok y => seq_perm x y
  | T.Err e, T.Err e' => e = e'
  | _, _ => False
  end.

Lemma is_quantized_perm s s' : seq_perm s s' -> T.is_quantized s = T.is_quantized s'.
Proof. intros []. unfold T.is_quantized. congruence. Qed.

Theorem perm_stretch fn fd s s' : seq_perm s s' -> timeops_rel (T.stretch fn fd s) (T.stretch fn fd s').
Proof.
  intros P. unfold T.stretch. rewrite <- (is_quantized_perm _ _ P).
  destruct (T.is_quantized s); [reflexivity|].
  destruct (fn =? fd); [exact P|].
  destruct P. constructor; cbn [s_notes s_tempos s_tsigs s_ksigs s_texts s_ccs s_bends s_sects s_total s_qsteps s_spq
                      s_sps s_sub s_tpq s_rest]; try (apply Permutation_map; assumption); congruence.
Qed.

Theorem perm_shift d s s' : seq_perm s s' -> timeops_rel (T.shift d s) (T.shift d s').
Proof.
  intros P. unfold T.shift. destruct (d <=? 0); [reflexivity|].
  rewrite <- (is_quantized_perm _ _ P).
  destruct (T.is_quantized s); [reflexivity|].
  destruct P. constructor; cbn [s_notes s_tempos s_tsigs s_ksigs s_texts s_ccs s_bends s_sects s_total s_qsteps s_spq
                      s_sps s_sub s_tpq s_rest]; try (apply Permutation_map; assumption); congruence.
Qed.

(** * quantization *)
Module Q := NS.Model.Quantize.
Module QP := NS.Proofs.Quantize.

Definition quantize_rel_res (a b : Q.res seq) : Prop :=
  match a, b with
  | Q.Ok x, Q.Ok y => seq_perm x y
  | Q.Err e, Q.Err e' => e = e'
  | _, _ => False
  end.

Lemma perm_fold_left_max {A} (g : A -> Z) l l' : Permutation l l' -> forall t0,
  fold_left (fun t n => Z.max t (g n)) l t0 = fold_left (fun t n => Z.max t (g n)) l' t0.
Proof.
  induction 1 as [|x l l' _ IH|x y l|l l' l'' _ IH1 _ IH2]; intros t0; cbn [fold_left].
  - reflexivity.
  - apply IH.
  - f_equal. lia.
  - now rewrite IH1.
Qed.

Lemma seq_neg_perm q s s' : seq_perm s s' -> QP.seq_neg q s = QP.seq_neg q s'.
Proof.
  intros []. unfold QP.seq_neg.
  rewrite (perm_existsb _ _ _ sp_notes), (perm_existsb _ _ _ sp_ccs), (perm_existsb _ _ _ sp_texts). reflexivity.
Qed.

Lemma result_of_perm q spq sps tps tss s s' : seq_perm s s' ->
  seq_perm (QP.result_of q spq sps tps tss s) (QP.result_of q spq sps tps tss s').
Proof.
  intros []. unfold QP.result_of.
  constructor; cbn [s_notes s_tempos s_tsigs s_ksigs s_texts s_ccs s_bends s_sects s_total s_qsteps s_spq
                      s_sps s_sub s_tpq s_rest]; try (apply Permutation_map; assumption); try reflexivity;
    try assumption.
  rewrite sp_total. unfold QP.max_end. now apply perm_fold_left_max.
Qed.

(** _quantize_notes for any step function *)
Theorem perm_quantize_notes q s s' : seq_perm s s' ->
  quantize_rel_res (Q.quantize_notes q s) (Q.quantize_notes q s').
Proof.
  intros P. rewrite !QP.quantize_notes_eq, <- (seq_neg_perm q _ _ P).
  destruct (QP.seq_neg q s); [reflexivity|]. cbn.
  destruct P. unfold QP.quantized.
  constructor; cbn [s_notes s_tempos s_tsigs s_ksigs s_texts s_ccs s_bends s_sects s_total s_qsteps s_spq
                      s_sps s_sub s_tpq s_rest]; try (apply Permutation_map; assumption); try assumption.
  rewrite sp_qsteps. unfold QP.max_end. now apply perm_fold_left_max.
Qed.

Theorem perm_quantize_abs sps s s' : seq_perm s s' ->
  quantize_rel_res (Q.quantize_abs sps s) (Q.quantize_abs sps s').
Proof.
  intros P. rewrite !QP.quantize_abs_eq, <- (seq_neg_perm _ _ _ P).
  destruct (QP.seq_neg (QP.abs_q sps) s); [reflexivity|]. cbn.
  change (seq_perm (QP.result_of (QP.abs_q sps) 0 sps (s_tempos s) (s_tsigs s) s)
                   (QP.result_of (QP.abs_q sps) 0 sps (s_tempos s') (s_tsigs s') s')).
  pose proof (result_of_perm (QP.abs_q sps) 0 sps (s_tempos s) (s_tsigs s) _ _ P) as R.
  destruct P. destruct R. unfold QP.result_of in *.
  constructor; cbn [s_notes s_tempos s_tsigs s_ksigs s_texts s_ccs s_bends s_sects s_total s_qsteps s_spq
                      s_sps s_sub s_tpq s_rest] in *; assumption.
Qed.

(** the model's stable sort is [ksort] *)
Lemma q_insert_before_ksort {A} (key : A -> Z) x l : Q.insert_before key x l = kinsert key x l.
Proof. induction l as [|y r IH]; cbn; [reflexivity|]. now rewrite IH. Qed.
Lemma q_sort_by_ksort {A} (key : A -> Z) l : Q.sort_by key l = ksort key l.
Proof. induction l as [|x r IH]; cbn; [reflexivity|]. now rewrite IH, q_insert_before_ksort. Qed.

(** the validation blocks in a form that mentions the stored list only through its sort *)
Lemma check_tsigs_canon tss :
  Q.check_tsigs false tss =
  match ksort ts_time tss with
  | [] => Q.Ok [mkTsig 0 4 4]
  | first :: later =>
      if negb (ts_time first =? 0) && negb ((ts_num first =? 4) && (ts_den first =? 4))
      then Q.Err Q.MultipleTimeSig
      else if forallb (fun t => Q.tsig_same t first) later
           then Q.Ok [mkTsig 0 (ts_num first) (ts_den first)]
           else Q.Err Q.MultipleTimeSig
  end.
Proof.
  unfold Q.check_tsigs. rewrite q_sort_by_ksort.
  destruct tss as [|st0 rest]; [reflexivity|].
  destruct (ksort ts_time (st0 :: rest)) as [|first later] eqn:E; [reflexivity|].
  destruct (negb (ts_time first =? 0) && negb ((ts_num first =? 4) && (ts_den first =? 4))); [reflexivity|].
  destruct (forallb (fun t => Q.tsig_same t first) later) eqn:F; [|reflexivity].
  assert (Hin : In st0 (first :: later)).
  { rewrite <- E. eapply Permutation_in; [symmetry; apply ksort_perm|now left]. }
  assert (Q.tsig_same st0 first = true) as S.
  { destruct Hin as [->|Hin]; [apply QP.tsig_same_refl|].
    rewrite forallb_forall in F. now apply F. }
  apply QP.tsig_same_eq in S as [-> ->]. reflexivity.
Qed.

Lemma check_tempos_canon tps :
  Q.check_tempos false tps =
  match ksort tp_time tps with
  | [] => Q.Ok [mkTempo 0 Gen.G01.DEFAULT_QPM_CODE]
  | first :: later =>
      if negb (tp_time first =? 0) && negb (tp_qpm first =? Gen.G01.DEFAULT_QPM_CODE)
      then Q.Err Q.MultipleTempo
      else if forallb (fun t => tp_qpm t =? tp_qpm first) later
           then Q.Ok [mkTempo 0 (tp_qpm first)]
           else Q.Err Q.MultipleTempo
  end.
Proof.
  unfold Q.check_tempos. rewrite q_sort_by_ksort.
  destruct tps as [|st0 rest]; [reflexivity|].
  destruct (ksort tp_time (st0 :: rest)) as [|first later] eqn:E; [reflexivity|].
  destruct (negb (tp_time first =? 0) && negb (tp_qpm first =? Gen.G01.DEFAULT_QPM_CODE)); [reflexivity|].
  destruct (forallb (fun t => tp_qpm t =? tp_qpm first) later) eqn:F; [|reflexivity].
  assert (Hin : In st0 (first :: later)).
  { rewrite <- E. eapply Permutation_in; [symmetry; apply ksort_perm|now left]. }
  assert (tp_qpm st0 = tp_qpm first) as ->; [|reflexivity].
  destruct Hin as [->|Hin]; [reflexivity|].
  rewrite forallb_forall in F. apply Z.eqb_eq. now apply F.
Qed.

(** the verdict and the normalised entry do not depend on the storage order *)
Theorem perm_check_tsigs tss tss' : Permutation tss tss' -> distinct_on ts_time tss ->
  Q.check_tsigs false tss = Q.check_tsigs false tss'.
Proof. intros P D. rewrite !check_tsigs_canon, (ksort_perm_invariant ts_time _ _ P D). reflexivity. Qed.

Theorem perm_check_tempos tps tps' : Permutation tps tps' -> distinct_on tp_time tps ->
  Q.check_tempos false tps = Q.check_tempos false tps'.
Proof. intros P D. rewrite !check_tempos_canon, (ksort_perm_invariant tp_time _ _ P D). reflexivity. Qed.

Theorem perm_quantize_rel spq s s' : seq_perm s s' ->
  distinct_on tp_time (s_tempos s) -> distinct_on ts_time (s_tsigs s) ->
  quantize_rel_res (Q.quantize_rel spq s) (Q.quantize_rel spq s').
Proof.
  intros P Dtp Dts. rewrite !QP.quantize_rel_eq.
  rewrite <- (perm_check_tsigs _ _ (sp_tsigs _ _ P) Dts), <- (perm_check_tempos _ _ (sp_tempos _ _ P) Dtp).
  destruct (Q.check_tsigs false (s_tsigs s)) as [tss|e]; [|reflexivity].
  destruct (negb (Q.check_tsig_value (Q.hd_tsig tss))); [reflexivity|].
  destruct (Q.check_tempos false (s_tempos s)) as [tps|e]; [|reflexivity].
  cbv zeta. rewrite <- (seq_neg_perm _ _ _ P).
  destruct (QP.seq_neg _ s); [reflexivity|]. cbn. now apply result_of_perm.
Qed.
