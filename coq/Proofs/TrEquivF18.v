(** Proofs/TrEquivF18.v — the nested function frames_from_times of sequence_to_pianoroll, re-translated from
    its SOURCE on every run into PrimFloat terms (Gen/TrF.v; its free variables frames_per_second and
    min_frame_occupancy_for_label are parameters), equals the hand-written model Model/FramesRoll.frames_from_times
    for all arguments, bit for bit. *)
From Coq Require Import ZArith Bool Floats.
From NS Require Import Base.FloatBridge Base.TrTac Base.TrTacF Gen.TrF Model.FramesRoll.
Local Open Scope Z_scope.

(** int() / math.ceil of a non-finite product raises: the translation returns None there. *)
Lemma trf_frames_from_times_eq fps occ s e :
  finb (s * fps)%float = true -> finb (e * fps)%float = true ->
  trf_frames_from_times fps occ s e = Some (frames_from_times fps occ s e).
Proof.
  intros Fs Fe.
  unfold trf_frames_from_times, frames_from_times, sframe, eframe, gt0, fz, one, zero.
  first [ solve [
    rewrite Fs; cbn zeta;
    destruct (PrimFloat.ltb 0 occ && PrimFloat.ltb (f_of_Z (trunc (s * fps) + 1) - s * fps) occ)%float eqn:A;
    [ rewrite Fe; cbn zeta;
      destruct (PrimFloat.ltb 0 occ && PrimFloat.ltb (e * fps - f_of_Z (trunc (s * fps) + 1) - f_of_Z 1) occ)%float eqn:B;
        cbn zeta; change (f_of_Z 1) with 1%float in *; rewrite ?A, ?B; reflexivity
    | rewrite Fe; cbn zeta;
      destruct (PrimFloat.ltb 0 occ && PrimFloat.ltb (e * fps - f_of_Z (trunc (s * fps)) - f_of_Z 1) occ)%float eqn:B;
        cbn zeta; change (f_of_Z 1) with 1%float in *; rewrite ?A, ?B; reflexivity ] ]
  | trf_solve ].
Qed.

Lemma trf_frames_from_times_raises fps occ s e :
  finb (s * fps)%float = false -> trf_frames_from_times fps occ s e = None.
Proof. intros Fs. unfold trf_frames_from_times. first [ solve [rewrite Fs; reflexivity] | trf_solve ]. Qed.
