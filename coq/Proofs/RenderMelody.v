(** Proofs/RenderMelody.v — C06 for melodies at step level:
    [roundtrip_steps_melody]: rendering a canonical melody and extracting it again gives it back;
    [extraction_canonical_melody]: everything extraction returns is canonical. *)
From Coq Require Import ZArith List Bool Lia ZifyBool Permutation Sorted.
From NS Require Import Base.NoteSeq Gen.G07 Model.FqCommon Model.FqMelody Model.FqSpec
  Proofs.FqCommon Proofs.FqMelody Model.RenderCommon Model.RenderMelody.
Import ListNotations.
Local Open Scope Z_scope.
Ltac Zify.zify_post_hook ::= Z.to_euclidean_division_equations.

(** * generic list facts *)
Lemma list_ext {A} (d : A) : forall l1 l2,
  len l1 = len l2 -> (forall i, 0 <= i < len l1 -> znth d i l1 = znth d i l2) -> l1 = l2.
Proof.
  induction l1 as [|x r IH]; intros [|y r2] Hl Hn.
  - reflexivity.
  - rewrite len_nil, len_cons in Hl. pose proof (len_nonneg r2). lia.
  - rewrite len_nil, len_cons in Hl. pose proof (len_nonneg r). lia.
  - rewrite !len_cons in Hl. pose proof (len_nonneg r). f_equal.
    + specialize (Hn 0). rewrite !znth_cons_0 in Hn. apply Hn. rewrite len_cons. lia.
    + apply IH; [lia|]. intros i Hi. specialize (Hn (i + 1)).
      rewrite !znth_cons_S in Hn by lia. replace (i + 1 - 1) with i in Hn by lia.
      apply Hn. rewrite len_cons. lia.
Qed.

Lemma zfirstn_all {A} (l : list A) : zfirstn (len l) l = l.
Proof. unfold zfirstn, len. rewrite Nat2Z.id. apply firstn_all. Qed.

Lemma zrepeat_0 {A} (x : A) n : n <= 0 -> zrepeat x n = [].
Proof. intros H. unfold zrepeat. replace (Z.to_nat n) with O by lia. reflexivity. Qed.

Lemma zrepeat_snoc {A} (x : A) n : 0 <= n -> zrepeat x (n + 1) = zrepeat x n ++ [x].
Proof.
  intros H. unfold zrepeat. replace (Z.to_nat (n + 1)) with (S (Z.to_nat n)) by lia.
  induction (Z.to_nat n) as [|k IH]; [reflexivity|].
  cbn [repeat app] in *. now rewrite IH.
Qed.

(** * [norm n l]: [l] cut or padded with NO_EVENT to length [n] *)
Definition norm (n : Z) (l : list Z) : list Z := set_length NO n l.

Lemma len_norm n l : 0 <= n -> len (norm n l) = n.
Proof. apply len_set_length. Qed.

Lemma znth_norm n i l : 0 <= i < n -> znth NO i (norm n l) = znth NO i l.
Proof. apply znth_set_length. Qed.

Lemma norm_ge n l : len l <= n -> norm n l = l ++ zrepeat NO (n - len l).
Proof.
  intros H. unfold norm, set_length. destruct (len l <? n) eqn:E; [reflexivity|].
  assert (n = len l) as -> by lia. rewrite zfirstn_all, zrepeat_0 by lia. now rewrite app_nil_r.
Qed.

Lemma norm_exact l x : norm (len l) (l ++ x) = l.
Proof.
  pose proof (len_nonneg l). apply (list_ext NO).
  - now rewrite len_norm.
  - intros i Hi. rewrite len_norm in Hi by lia. rewrite znth_norm by lia. now apply znth_app_l.
Qed.

Lemma norm_self l : norm (len l) l = l.
Proof. rewrite <- (app_nil_r l) at 2. apply norm_exact. Qed.

Lemma norm_snoc n l : len l <= n -> norm (n + 1) l = norm n l ++ [NO].
Proof.
  intros H. pose proof (len_nonneg l). rewrite !norm_ge by lia.
  replace (n + 1 - len l) with (n - len l + 1) by lia. rewrite zrepeat_snoc by lia.
  now rewrite app_assoc.
Qed.

Lemma norm_app_r n l1 l2 : len l1 <= n -> norm n (l1 ++ l2) = l1 ++ norm (n - len l1) l2.
Proof.
  intros H. pose proof (len_nonneg l1). apply (list_ext NO).
  - rewrite len_app, !len_norm by lia. lia.
  - intros i Hi. rewrite len_norm in Hi by lia. rewrite znth_norm by lia.
    destruct (Z_lt_le_dec i (len l1)).
    + now rewrite !znth_app_l by lia.
    + rewrite !znth_app_r by lia. now rewrite znth_norm by lia.
Qed.

(** * [add'] on an event list that is not sustained *)
Lemma add'_norm mss evs b :
  mel_sustained (rev evs) = false -> mss <= n_qstart b < n_qend b ->
  add' mss evs b = norm (n_qstart b - mss) evs ++ note_tail b.
Proof.
  intros Hs Hb. unfold add'. f_equal. apply (list_ext NO).
  - rewrite len_zfirstn, len_mel_set_length, len_norm by lia. lia.
  - intros i Hi. rewrite len_zfirstn, len_mel_set_length in Hi by lia.
    rewrite znth_zfirstn by lia. rewrite znth_mel_set_length by (auto; lia).
    now rewrite znth_norm by lia.
Qed.

Lemma U_closed mss A : Forall (note_ok mss) A -> mel_sustained (rev (U mss A)) = false.
Proof.
  destruct A as [|x A0] using rev_ind; [reflexivity|].
  intros H. apply Forall_app in H. destruct H as (_ & Hb). inversion Hb as [|? ? Hb' _]; subst.
  rewrite U_snoc. eapply shape_not_sustained. apply (add_note_ok mss x _ Hb').
Qed.

Lemma U_snoc_norm mss A b :
  Forall (note_ok mss) A -> mss <= n_qstart b < n_qend b ->
  U mss (A ++ [b]) = norm (n_qstart b - mss) (U mss A) ++ note_tail b.
Proof. intros HA Hb. rewrite U_snoc. apply add'_norm; [now apply U_closed|exact Hb]. Qed.

(** the finished melody *)
Lemma final_norm body n :
  mel_sustained (rev body) = true -> len body <= n ->
  mel_set_length n body = norm n (body ++ [OFF]).
Proof.
  intros Hs Hn. unfold mel_set_length. rewrite Hs. destruct (len body <? n) eqn:E.
  - rewrite norm_ge by (rewrite len_app, len_cons, len_nil; lia).
    rewrite <- app_assoc. cbn [app]. do 3 f_equal. rewrite len_app, len_cons, len_nil. lia.
  - assert (n = len body) as -> by lia. now rewrite zfirstn_all, norm_exact.
Qed.

(** * the extraction reduced to [U] over the accepted notes *)
Lemma mel_fq_struct p s spb first rest :
  steps_per_bar s = Ok spb -> 0 < spb -> Forall mel_wf_note (s_notes s) ->
  mel_candidates p (s_notes s) = first :: rest ->
  let G := mp_gap_bars p * spb in
  let mss := bar_start (n_qstart first) (mp_search_start p) spb in
  let acc := first :: mel_cut G first (mel_heads_from (n_qstart first) rest) in
  StronglySorted qlt acc /\ Forall (note_ok mss) acc /\ (forall x, In x acc -> In x (first :: rest)) /\
  exists body A b, acc = A ++ [b] /\ U mss acc = body ++ [OFF] /\ mel_sustained (rev body) = true /\
    len body = n_qend b - mss /\
    mel_from_quantized p s =
      if negb (mp_ignore_poly p) && mel_dup G first rest then Err E_POLY
      else let n := if mp_pad_end p then pad_len (len body) spb else len body in
           Ok (mkMelResult (mel_set_length n body) mss (mss + n) spb (s_spq s)).
Proof.
  intros Hspb Hpos Hwf Ecs G mss acc. unfold mel_from_quantized. rewrite Hspb. cbn [bind].
  pose proof (mel_candidates_sorted p (s_notes s)) as Hsorted.
  assert (Hcs_in : forall n, In n (first :: rest) -> In n (s_notes s)).
  { intros n Hn. rewrite <- Ecs in Hn. unfold mel_candidates in Hn. apply isort_In, filter_In in Hn. tauto. }
  rewrite Ecs in *. fold mss.
  inversion Hsorted as [|? ? Hs' Hf]; subst.
  assert (Hge : forall n, In n rest -> n_qstart first <= n_qstart n).
  { intros n Hn. rewrite Forall_forall in Hf. specialize (Hf n Hn). unfold mel_le in Hf. lia. }
  assert (Hmss : mss <= n_qstart first)
    by (pose proof (bar_start_spec (n_qstart first) (mp_search_start p) spb Hpos); unfold mss; lia).
  assert (Hok : Forall (note_ok mss) (first :: rest)).
  { apply Forall_forall. intros n Hn. rewrite Forall_forall in Hwf. destruct (Hwf n (Hcs_in n Hn)) as (H1 & H2).
    split; [exact H1|]. split; [exact H2|]. destruct Hn as [<-|Hn]; [lia|]. specialize (Hge n Hn). lia. }
  pose proof (sorted_nondecr rest (n_qstart first) Hs' Hge) as Hnd.
  rewrite (mel_loop_top _ G mss first rest Hok Hnd). fold acc.
  destruct (heads_sorted rest (n_qstart first) Hnd) as (Hh1 & Hh2 & Hh3).
  destruct (mel_cut_prefix G (mel_heads_from (n_qstart first) rest) first) as (rest' & Hpre).
  assert (Hacc_sorted : StronglySorted qlt acc).
  { unfold acc. rewrite Hpre in Hh1, Hh2. apply StronglySorted_app_inv in Hh1. destruct Hh1 as (Hc & _ & _).
    constructor; [exact Hc|]. apply Forall_app in Hh2. destruct Hh2 as (Hh2 & _).
    eapply Forall_impl; [|exact Hh2]. intros x Hx. exact Hx. }
  assert (Hacc_in : forall x, In x acc -> In x (first :: rest)).
  { intros x [<-|Hx]; [now left|]. right. apply Hh3. rewrite Hpre. apply in_or_app. now left. }
  assert (Hacc_ok : Forall (note_ok mss) acc).
  { apply Forall_forall. intros x Hx. rewrite Forall_forall in Hok. now apply Hok, Hacc_in. }
  split; [exact Hacc_sorted|]. split; [exact Hacc_ok|]. split; [exact Hacc_in|].
  assert (Hne : acc <> []) by (unfold acc; discriminate).
  destruct (exists_last Hne) as (A & b & HAb).
  assert (Hb : note_ok mss b).
  { rewrite HAb in Hacc_ok. apply Forall_app in Hacc_ok. destruct Hacc_ok as (_ & Hb). now inversion Hb. }
  assert (Hshape : shape mss b (U mss acc)).
  { rewrite HAb, U_snoc. apply (add_note_ok mss b _ Hb). }
  destruct Hb as (Hbp & Hblt & Hbm).
  destruct Hshape as (pre & HU & Hpre_len). unfold note_tail in HU.
  set (k := n_qend b - n_qstart b - 1) in *.
  exists (pre ++ n_pitch b :: zrepeat NO k), A, b.
  split; [exact HAb|].
  split; [rewrite HU, <- app_assoc; reflexivity|].
  split; [now apply sustained_body|].
  split; [unfold k; len_simpl; lia|].
  destruct (negb (mp_ignore_poly p) && mel_dup G first rest); [reflexivity|]. cbn [bind].
  rewrite HU.
  destruct (pre ++ n_pitch b :: zrepeat NO k ++ [OFF]) as [|e0 l0] eqn:Enonempty.
  { destruct pre; discriminate. }
  rewrite <- Enonempty. rewrite mel_strip_shape. reflexivity.
Qed.

(** * the canonical scan *)
Lemma valid_NO : valid_mel_event NO = true. Proof. reflexivity. Qed.
Lemma is_pitch_NO : is_pitch NO = false. Proof. reflexivity. Qed.
Lemma NO_eqb_OFF : (NO =? MELODY_NOTE_OFF) = false. Proof. reflexivity. Qed.
Lemma valid_OFF : valid_mel_event OFF = true. Proof. reflexivity. Qed.
Lemma is_pitch_OFF : is_pitch OFF = false. Proof. reflexivity. Qed.
Lemma OFF_eqb_OFF : (OFF =? MELODY_NOTE_OFF) = true. Proof. reflexivity. Qed.

Lemma is_pitch_valid e : is_pitch e = true -> valid_mel_event e = true.
Proof. intros H. unfold valid_mel_event. rewrite H. apply orb_true_r. Qed.

Lemma is_pitch_ge e : is_pitch e = true -> MIN_MIDI_PITCH <= e.
Proof. unfold is_pitch. lia. Qed.

Section Scan.
  Variables spb G : Z.

  Lemma scan_app : forall l1 l2 i st,
    mel_scan_canon spb G (l1 ++ l2) i st =
    match mel_scan_canon spb G l1 i st with
    | Some st1 => mel_scan_canon spb G l2 (i + len l1) st1
    | None => None
    end.
  Proof.
    induction l1 as [|e r IH]; intros l2 i st.
    - cbn [app mel_scan_canon]. rewrite len_nil. now replace (i + 0) with i by lia.
    - cbn [app mel_scan_canon]. rewrite len_cons. replace (i + (1 + len r)) with (i + 1 + len r) by lia.
      destruct (negb (valid_mel_event e)); [reflexivity|].
      destruct (is_pitch e).
      { destruct st; [destruct (i <? spb)|destruct (0 <? G)|destruct (i - j <? G)]; try reflexivity; apply IH. }
      destruct (e =? MELODY_NOTE_OFF).
      { destruct st; try reflexivity; apply IH. }
      apply IH.
  Qed.

  Lemma scan_NOs k : forall i st, mel_scan_canon spb G (zrepeat NO k) i st = Some st.
  Proof.
    unfold zrepeat. induction (Z.to_nat k) as [|m IH]; intros i st; [reflexivity|].
    cbn [repeat mel_scan_canon]. rewrite valid_NO, is_pitch_NO, NO_eqb_OFF. cbn [negb]. apply IH.
  Qed.

  Lemma norm_tail_short b m : n_qstart b < n_qend b -> 1 <= m <= n_qend b - n_qstart b ->
    norm m (note_tail b) = n_pitch b :: zrepeat NO (m - 1).
  Proof.
    intros Hlt Hm. apply (list_ext NO).
    - rewrite len_norm, len_cons, len_zrepeat by lia. lia.
    - intros i Hi. rewrite len_norm in Hi by lia. rewrite znth_norm by lia.
      rewrite znth_note_tail by lia. destruct (i =? 0) eqn:E0.
      + replace i with 0 by lia. now rewrite znth_cons_0.
      + rewrite znth_cons_S by lia. rewrite znth_zrepeat by lia.
        destruct (i =? n_qend b - n_qstart b) eqn:E1; [lia|reflexivity].
  Qed.

  Lemma scan_tail b m i st :
    is_pitch (n_pitch b) = true -> n_qstart b < n_qend b -> 1 <= m ->
    match st with MLead => i < spb | MOn => 0 < G | MOff j => i - j < G end ->
    mel_scan_canon spb G (norm m (note_tail b)) i st
    = Some (if m <=? n_qend b - n_qstart b then MOn else MOff (i + (n_qend b - n_qstart b))).
  Proof.
    intros Hp Hlt Hm Hst.
    assert (Hfirst : forall r, mel_scan_canon spb G (n_pitch b :: r) i st = mel_scan_canon spb G r (i + 1) MOn).
    { intros r. cbn [mel_scan_canon]. rewrite (is_pitch_valid _ Hp), Hp. cbn [negb].
      destruct st; [replace (i <? spb) with true by lia|replace (0 <? G) with true by lia
                   |replace (i - j <? G) with true by lia]; reflexivity. }
    destruct (m <=? n_qend b - n_qstart b) eqn:E.
    - rewrite norm_tail_short by lia. rewrite Hfirst. apply scan_NOs.
    - rewrite norm_ge by (rewrite len_note_tail; lia). unfold note_tail. cbn [app]. rewrite Hfirst.
      rewrite <- app_assoc, scan_app, scan_NOs. cbn [app mel_scan_canon].
      rewrite valid_OFF, is_pitch_OFF, OFF_eqb_OFF. cbn [negb]. rewrite scan_NOs.
      rewrite len_zrepeat. do 2 f_equal. lia.
  Qed.

  Variable mss : Z.

  Definition nok (n : note) : Prop :=
    is_pitch (n_pitch n) = true /\ n_qstart n < n_qend n /\ mss <= n_qstart n.

  (** consecutive notes: strictly increasing starts, gap below G *)
  Definition links (A : list note) : Prop :=
    forall l1 a b l2, A = l1 ++ a :: b :: l2 -> n_qstart a < n_qstart b /\ n_qstart b - n_qend a < G.

  Definition firstbar (A : list note) : Prop := forall f r, A = f :: r -> n_qstart f < mss + spb.

  Lemma nok_note_ok A : Forall nok A -> Forall (note_ok mss) A.
  Proof.
    apply Forall_impl. intros n (H1 & H2 & H3). split; [now apply is_pitch_ge|]. split; assumption.
  Qed.

  Lemma links_snoc_inv A b : links (A ++ [b]) -> links A.
  Proof.
    intros H l1 x y l2 E. apply (H l1 x y (l2 ++ [b])). rewrite E, <- app_assoc. reflexivity.
  Qed.

  Lemma firstbar_snoc_inv A a b : firstbar ((A ++ [a]) ++ [b]) -> firstbar (A ++ [a]).
  Proof.
    intros H f r E. apply (H f (r ++ [b])). rewrite E. reflexivity.
  Qed.

  Lemma scan_U : 0 < G -> forall A b,
    Forall nok (A ++ [b]) -> links (A ++ [b]) -> firstbar (A ++ [b]) ->
    forall n, n_qstart b - mss < n ->
    mel_scan_canon spb G (norm n (U mss (A ++ [b]))) 0 MLead
    = Some (if n <=? n_qend b - mss then MOn else MOff (n_qend b - mss)).
  Proof.
    intros HG. induction A as [|a A' IH] using rev_ind; intros b Hok Hl Hf n Hn;
      apply Forall_app in Hok; destruct Hok as (HokA & Hb); inversion Hb as [|? ? (Hbp & Hblt & Hbm) _]; subst;
      rewrite U_snoc_norm by (try apply nok_note_ok; auto; lia);
      rewrite norm_app_r by (rewrite len_norm; lia); rewrite scan_app, !len_norm by lia.
    - change (U mss []) with (@nil Z). rewrite norm_ge by (rewrite len_nil; lia). cbn [app]. rewrite scan_NOs.
      rewrite scan_tail; auto; try lia.
      + destruct (n - (n_qstart b - mss) <=? n_qend b - n_qstart b) eqn:E1, (n <=? n_qend b - mss) eqn:E2;
          try lia; try reflexivity. do 2 f_equal. lia.
      + specialize (Hf b [] eq_refl). lia.
    - assert (Hab : n_qstart a < n_qstart b /\ n_qstart b - n_qend a < G).
      { apply (Hl A' a b []). now rewrite <- app_assoc. }
      rewrite (IH a HokA (links_snoc_inv _ _ Hl) (firstbar_snoc_inv _ _ _ Hf)) by lia.
      rewrite scan_tail; auto; try lia.
      + destruct (n - (n_qstart b - mss) <=? n_qend b - n_qstart b) eqn:E1, (n <=? n_qend b - mss) eqn:E2;
          try lia; try reflexivity. do 2 f_equal. lia.
      + destruct (n_qstart b - mss <=? n_qend a - mss); lia.
  Qed.

  Lemma cut_gaps : forall l b l1 x y l2,
    b :: mel_cut G b l = l1 ++ x :: y :: l2 -> n_qstart y - n_qend x < G.
  Proof.
    induction l as [|c r IH]; intros b l1 x y l2 E; cbn [mel_cut] in E.
    - destruct l1 as [|? [|? ?]]; discriminate.
    - destruct (G <=? n_qstart c - n_qend b) eqn:EG.
      + destruct l1 as [|? [|? ?]]; discriminate.
      + destruct l1 as [|z l1']; cbn [app] in E.
        * injection E as -> -> _. lia.
        * injection E as _ E. now apply (IH c l1' x y l2).
  Qed.

  Lemma sorted_links A :
    StronglySorted qlt A ->
    (forall l1 x y l2, A = l1 ++ x :: y :: l2 -> n_qstart y - n_qend x < G) -> links A.
  Proof.
    intros Hs Hg l1 a b l2 E. split; [|now apply (Hg l1 a b l2)].
    rewrite E in Hs. apply StronglySorted_app_inv in Hs. destruct Hs as (_ & Hs & _).
    inversion Hs as [|? ? _ Hf]; subst. inversion Hf; subst. assumption.
  Qed.
End Scan.

Theorem extraction_canonical_melody : forall p s spb r,
  steps_per_bar s = Ok spb -> 0 < spb -> 0 < mp_gap_bars p -> 0 <= mp_search_start p ->
  Forall (fun n => MIN_MIDI_PITCH <= n_pitch n <= MAX_MIDI_PITCH /\ n_qstart n < n_qend n) (s_notes s) ->
  mel_from_quantized p s = Ok r ->
  canonical_melody spb (mp_search_start p) (mp_gap_bars p) (mp_pad_end p) (me_start r) (me_events r) = true
  /\ me_end r = me_start r + len (me_events r).
Proof.
  intros p s spb r Hspb Hpos Hgap Hss Hwf Hr.
  assert (Hwf' : Forall mel_wf_note (s_notes s)).
  { eapply Forall_impl; [|exact Hwf]. intros n Hn. cbn beta in Hn. unfold mel_wf_note. lia. }
  destruct (mel_candidates p (s_notes s)) as [|first rest] eqn:Ecs.
  - unfold mel_from_quantized in Hr. rewrite Hspb in Hr. cbn [bind] in Hr. rewrite Ecs in Hr.
    apply Ok_inj in Hr. subst r. split; reflexivity.
  - destruct (mel_fq_struct p s spb first rest Hspb Hpos Hwf' Ecs)
      as (Hsorted & Hok & Hin & body & A & b & HAb & HU & Hsus & Hlen & Hfq).
    set (G := mp_gap_bars p * spb) in *.
    set (mss := bar_start (n_qstart first) (mp_search_start p) spb) in *.
    set (acc := first :: mel_cut G first (mel_heads_from (n_qstart first) rest)) in *.
    rewrite Hfq in Hr. destruct (negb (mp_ignore_poly p) && mel_dup G first rest); [discriminate|].
    apply Ok_inj in Hr. subst r. cbv zeta. cbn [me_start me_events me_end].
    set (n := if mp_pad_end p then pad_len (len body) spb else len body).
    assert (HG : 0 < G) by (unfold G; lia).
    pose proof (pad_len_spec (len body) spb Hpos) as Hpad.
    pose proof (bar_start_spec (n_qstart first) (mp_search_start p) spb Hpos) as Hbar. fold mss in Hbar.
    assert (Hn : len body <= n) by (unfold n; destruct (mp_pad_end p); lia).
    assert (Hcs_in : forall x, In x (first :: rest) -> In x (s_notes s) /\ mel_keep p x = true).
    { intros x Hx. rewrite <- Ecs in Hx. unfold mel_candidates in Hx. now apply isort_In, filter_In in Hx. }
    assert (Hfirst : mp_search_start p <= n_qstart first).
    { destruct (Hcs_in first (or_introl eq_refl)) as (_ & Hk). unfold mel_keep in Hk. lia. }
    assert (Hnok : Forall (nok mss) acc).
    { apply Forall_forall. intros x Hx. rewrite Forall_forall in Hok, Hwf.
      destruct (Hok x Hx) as (_ & H2 & H3). destruct (Hcs_in x (Hin x Hx)) as (Hx' & _).
      specialize (Hwf x Hx'). cbn beta in Hwf. split; [unfold is_pitch; lia|]. split; assumption. }
    assert (Hlinks : links G acc).
    { apply sorted_links; [exact Hsorted|]. apply cut_gaps. }
    assert (Hfb : firstbar spb mss acc).
    { intros f r E. unfold acc in E. injection E as <- _. lia. }
    assert (Hb : nok mss b).
    { rewrite HAb in Hnok. apply Forall_app in Hnok. destruct Hnok as (_ & Hb). now inversion Hb. }
    destruct Hb as (_ & Hblt & Hbm).
    rewrite final_norm by assumption. rewrite <- HU. rewrite HAb in *.
    split; [|rewrite len_norm by lia; reflexivity].
    unfold canonical_melody.
    destruct (norm n (U mss (A ++ [b]))) as [|e0 l0] eqn:Eev.
    { apply (f_equal len) in Eev. rewrite len_norm, len_nil in Eev by lia. lia. }
    rewrite <- Eev. fold G.
    rewrite (scan_U spb G mss HG A b Hnok Hlinks Hfb n) by lia.
    rewrite len_norm by lia.
    assert (Hmod : (mss - mp_search_start p) mod spb = 0) by apply Hbar.
    assert (Hmss : mp_search_start p <= mss).
    { unfold mss, bar_start.
      pose proof (Z.mod_le (n_qstart first - mp_search_start p) spb). lia. }
    replace (0 <? spb) with true by lia. replace (0 <=? mss) with true by lia.
    replace (mp_search_start p <=? mss) with true by lia. rewrite Hmod. cbn [andb Z.eqb].
    destruct (n <=? n_qend b - mss) eqn:E; unfold n in *; destruct (mp_pad_end p); try lia.
    rewrite Hlen. lia.
Qed.

(** * rendering a canonical melody *)
Lemma filter_id {A} (f : A -> bool) l : Forall (fun x => f x = true) l -> filter f l = l.
Proof. induction 1 as [|x r Hx _ IH]; cbn [filter]; [reflexivity|]. now rewrite Hx, IH. Qed.

Lemma bar_start_eq x ss spb s0 :
  0 < spb -> (s0 - ss) mod spb = 0 -> s0 <= x < s0 + spb -> bar_start x ss spb = s0.
Proof.
  intros Hpos Hmod Hx. unfold bar_start.
  assert (E : x - ss = (x - s0) + ((s0 - ss) / spb) * spb).
  { pose proof (Z_div_mod_eq_full (s0 - ss) spb). lia. }
  rewrite E. rewrite Z_mod_plus_full, Z.mod_small by lia. lia.
Qed.

Lemma pad_len_id n spb : 0 < spb -> n mod spb = 0 -> pad_len n spb = n.
Proof. intros Hpos H. unfold pad_len. rewrite Z.mod_opp_l_z by lia. lia. Qed.

Section Render.
  Variables v i pr s0 spb G : Z.

  Definition good (n : note) : Prop :=
    n_instr n = i /\ n_vel n = v /\ n_drum n = false /\ nok s0 n.

  Definition closeL (cur : option (Z * Z)) (step : Z) : list note :=
    match cur with Some (p, s) => [rnote p v i pr false s step] | None => [] end.

  Definition link (A : list note) (s : Z) : Prop :=
    (A = [] -> s < s0 + spb) /\ (forall A0 a, A = A0 ++ [a] -> n_qstart a < s /\ s - n_qend a < G).

  Definition lastend (A : list note) (x : Z) : Prop := exists A0 a, A = A0 ++ [a] /\ n_qend a = x.

  (** [pre] = the events consumed so far, [A] = the notes closed so far, [cur] = the sustained note *)
  Definition Inv (pre : list Z) (A : list note) (cur : option (Z * Z)) (st : mel_st) : Prop :=
    Forall good A /\ links G A /\ firstbar spb s0 A /\
    match cur with
    | None => pre = norm (len pre) (U s0 A) /\
              match st with
              | MLead => A = []
              | MOff j => 0 <= j < len pre /\ len (U s0 A) = j + 1 /\ lastend A (s0 + j)
              | MOn => False
              end
    | Some (p, s) => st = MOn /\ is_pitch p = true /\ s0 <= s < s0 + len pre /\ link A s /\
                     pre = norm (s - s0) (U s0 A) ++ p :: zrepeat NO (len pre - (s - s0) - 1)
    end.

  Lemma good_note_ok A : Forall good A -> Forall (note_ok s0) A.
  Proof.
    intros H. apply nok_note_ok. eapply Forall_impl; [|exact H]. intros n (_ & _ & _ & Hn). exact Hn.
  Qed.

  Lemma links_snoc A b : links G A -> link A (n_qstart b) -> links G (A ++ [b]).
  Proof.
    intros HA (_ & Hl) l1 x y l2 E.
    induction l2 as [|z l2' _] using rev_ind.
    - replace (l1 ++ [x; y]) with ((l1 ++ [x]) ++ [y]) in E by (rewrite <- app_assoc; reflexivity).
      apply app_inj_tail in E. destruct E as (-> & ->). apply (Hl l1 x eq_refl).
    - replace (l1 ++ x :: y :: l2' ++ [z]) with ((l1 ++ x :: y :: l2') ++ [z]) in E
        by (rewrite <- app_assoc; reflexivity).
      apply app_inj_tail in E. destruct E as (E & _). apply (HA l1 x y l2' E).
  Qed.

  Lemma firstbar_snoc A b : firstbar spb s0 A -> link A (n_qstart b) -> firstbar spb s0 (A ++ [b]).
  Proof.
    intros HA (Hl & _) f r E. destruct A as [|a A']; cbn [app] in E; injection E as <- _.
    - specialize (Hl eq_refl). lia.
    - apply (HA a A' eq_refl).
  Qed.

  Lemma close_inv pre A p s :
    Inv pre A (Some (p, s)) MOn ->
    let b := rnote p v i pr false s (s0 + len pre) in
    Forall good (A ++ [b]) /\ links G (A ++ [b]) /\ firstbar spb s0 (A ++ [b]) /\
    U s0 (A ++ [b]) = pre ++ [OFF] /\ lastend (A ++ [b]) (s0 + len pre).
  Proof.
    intros (Hg & Hl & Hf & _ & Hp & Hs & Hlk & Hpre) b.
    assert (Hb : good b).
    { unfold good, nok, b, rnote. cbn [n_instr n_vel n_drum n_pitch n_qstart n_qend].
      repeat split; auto; lia. }
    split; [apply Forall_app; split; [assumption|constructor; [assumption|constructor]]|].
    split; [apply links_snoc; assumption|].
    split; [apply firstbar_snoc; assumption|].
    split; [|exists A, b; split; reflexivity].
    rewrite U_snoc_norm by (try apply good_note_ok; auto; unfold b, rnote; cbn [n_qstart n_qend]; lia).
    unfold note_tail, b, rnote. cbn [n_qstart n_qend n_pitch].
    set (k := len pre) in *. rewrite Hpre.
    replace (s0 + k - s - 1) with (k - (s - s0) - 1) by lia. rewrite <- app_assoc. reflexivity.
  Qed.

  Lemma render_acc : forall es pre A cur st st',
    Inv pre A cur st ->
    mel_scan_canon spb G es (len pre) st = Some st' ->
    exists A' cur',
      A ++ mel_render v i pr es (s0 + len pre) cur = A' ++ closeL cur' (s0 + len pre + len es) /\
      Inv (pre ++ es) A' cur' st'.
  Proof.
    induction es as [|e r IH]; intros pre A cur st st' HI Hscan.
    - cbn [mel_scan_canon] in Hscan. injection Hscan as <-. exists A, cur.
      rewrite len_nil, Z.add_0_r, app_nil_r. split; [|exact HI]. destruct cur as [[p s]|]; reflexivity.
    - cbn [mel_scan_canon] in Hscan. cbn [mel_render].
      destruct (valid_mel_event e) eqn:Hv; cbn [negb] in Hscan; [|discriminate].
      pose proof (len_nonneg pre) as Hpre0.
      assert (Hlen : len (pre ++ [e]) = len pre + 1) by (rewrite len_app, len_cons, len_nil; lia).
      assert (Hnext : forall A1 cur1 st1, Inv (pre ++ [e]) A1 cur1 st1 ->
                mel_scan_canon spb G r (len pre + 1) st1 = Some st' ->
                exists A' cur',
                  A1 ++ mel_render v i pr r (s0 + len pre + 1) cur1
                  = A' ++ closeL cur' (s0 + len pre + len (e :: r)) /\
                  Inv (pre ++ e :: r) A' cur' st').
      { intros A1 cur1 st1 HI1 Hs1. rewrite <- Hlen in Hs1.
        destruct (IH (pre ++ [e]) A1 cur1 st1 st' HI1 Hs1) as (A' & cur' & E & HI').
        exists A', cur'. rewrite <- app_assoc in HI'. cbn [app] in HI'. split; [|exact HI'].
        rewrite len_cons. rewrite Hlen in E.
        replace (s0 + len pre + (1 + len r)) with (s0 + (len pre + 1) + len r) by lia.
        replace (s0 + len pre + 1) with (s0 + (len pre + 1)) by lia. exact E. }
      destruct (is_pitch e) eqn:Hp.
      + (* a pitch *)
        destruct cur as [[p s]|].
        * pose proof HI as (_ & _ & _ & -> & _ & Hs & _ & _).
          destruct (0 <? G) eqn:HG; [|discriminate].
          destruct (close_inv pre A p s HI) as (Hg' & Hl' & Hf' & HU' & Hle').
          rewrite app_assoc. apply (Hnext _ (Some (e, s0 + len pre)) MOn); [|exact Hscan].
          split; [exact Hg'|]. split; [exact Hl'|]. split; [exact Hf'|]. split; [reflexivity|].
          split; [exact Hp|]. split; [lia|]. split.
          -- split; [intros E; destruct A; discriminate|]. intros A0 a E.
             apply app_inj_tail in E. destruct E as (_ & <-). unfold rnote. cbn [n_qstart n_qend]. lia.
          -- rewrite HU', Hlen. replace (s0 + len pre - s0) with (len pre) by lia.
             rewrite norm_exact. rewrite zrepeat_0 by lia. reflexivity.
        * destruct HI as (Hg & Hl & Hf & Hpre & Hst). cbn [app].
          assert (Hc : link A (s0 + len pre) /\ mel_scan_canon spb G r (len pre + 1) MOn = Some st').
          { destruct st as [| |j].
            - subst A. destruct (len pre <? spb) eqn:E; [|discriminate]. split; [|exact Hscan].
              split; [intros _; lia|]. intros A0 a E0. destruct A0; discriminate.
            - destruct Hst.
            - destruct Hst as (Hj & HlenU & (A1 & a1 & HA1 & Hend)).
              destruct (len pre - j <? G) eqn:E; [|discriminate]. split; [|exact Hscan].
              split; [intros ->; destruct A1; discriminate|]. intros A0 a E0.
              rewrite HA1 in E0. apply app_inj_tail in E0. destruct E0 as (_ & <-).
              rewrite HA1 in Hg. apply Forall_app in Hg. destruct Hg as (_ & Hg).
              inversion Hg as [|? ? (_ & _ & _ & _ & Hlt & _) _]; subst. lia. }
          destruct Hc as (Hlk & Hscan').
          apply (Hnext A (Some (e, s0 + len pre)) MOn); [|exact Hscan'].
          split; [exact Hg|]. split; [exact Hl|]. split; [exact Hf|]. split; [reflexivity|].
          split; [exact Hp|]. split; [lia|]. split; [exact Hlk|].
          rewrite Hlen. replace (s0 + len pre - s0) with (len pre) by lia.
          rewrite zrepeat_0 by lia. rewrite <- Hpre. reflexivity.
      + destruct (e =? MELODY_NOTE_OFF) eqn:Hoff.
        * (* NOTE_OFF *)
          assert (e = OFF) by (unfold OFF; lia). subst e.
          destruct cur as [[p s]|].
          -- pose proof HI as (_ & _ & _ & -> & _ & Hs & _ & _).
             destruct (close_inv pre A p s HI) as (Hg' & Hl' & Hf' & HU' & Hle').
             rewrite app_assoc. apply (Hnext _ None (MOff (len pre))); [|exact Hscan].
             split; [exact Hg'|]. split; [exact Hl'|]. split; [exact Hf'|].
             rewrite HU'. split; [now rewrite norm_self|].
             split; [lia|]. split; [exact Hlen|exact Hle'].
          -- destruct HI as (_ & _ & _ & _ & Hst). destruct st; try discriminate. destruct Hst.
        * (* NO_EVENT *)
          assert (e = NO).
          { unfold valid_mel_event in Hv. rewrite Hp, Hoff in Hv. unfold NO. lia. }
          subst e. apply (Hnext A cur st); [|exact Hscan].
          destruct cur as [[p s]|].
          -- destruct HI as (Hg & Hl & Hf & Hst & Hp' & Hs & Hlk & Hpre).
             split; [exact Hg|]. split; [exact Hl|]. split; [exact Hf|]. split; [exact Hst|].
             split; [exact Hp'|]. split; [lia|]. split; [exact Hlk|].
             rewrite Hlen. replace (len pre + 1 - (s - s0) - 1) with (len pre - (s - s0) - 1 + 1) by lia.
             rewrite zrepeat_snoc by lia. rewrite Hpre at 1. rewrite <- app_assoc. reflexivity.
          -- destruct HI as (Hg & Hl & Hf & Hpre & Hst).
             split; [exact Hg|]. split; [exact Hl|]. split; [exact Hf|].
             assert (HlenU : len (U s0 A) <= len pre).
             { destruct st as [| |j]; [subst A; cbn; lia|destruct Hst|lia]. }
             split.
             ++ rewrite Hlen, norm_snoc by exact HlenU. rewrite <- Hpre. reflexivity.
             ++ destruct st as [| |j]; [exact Hst|exact Hst|]. rewrite Hlen.
                destruct Hst as (Hj & H1 & H2). split; [lia|]. split; assumption.
  Qed.

  (** consequences of [links] for the extraction passes *)
  Lemma links_cons_inv f b r : links G (f :: b :: r) ->
    (n_qstart f < n_qstart b /\ n_qstart b - n_qend f < G) /\ links G (b :: r).
  Proof.
    intros H. split; [apply (H [] f b r eq_refl)|].
    intros l1 x y l2 E. apply (H (f :: l1) x y l2). cbn [app]. now rewrite E.
  Qed.

  Lemma links_heads : forall rest first, links G (first :: rest) ->
    mel_heads_from (n_qstart first) rest = rest.
  Proof.
    induction rest as [|b r IH]; intros first H; cbn [mel_heads_from]; [reflexivity|].
    destruct (links_cons_inv _ _ _ H) as ((H1 & H2) & H3).
    replace (n_qstart b =? n_qstart first) with false by lia. now rewrite IH.
  Qed.

  Lemma links_cut : forall rest first, links G (first :: rest) -> mel_cut G first rest = rest.
  Proof.
    induction rest as [|b r IH]; intros first H; cbn [mel_cut]; [reflexivity|].
    destruct (links_cons_inv _ _ _ H) as ((H1 & H2) & H3).
    replace (G <=? n_qstart b - n_qend first) with false by lia. now rewrite IH.
  Qed.

  Lemma links_dup : forall rest first, links G (first :: rest) -> mel_dup G first rest = false.
  Proof.
    induction rest as [|b r IH]; intros first H; cbn [mel_dup]; [reflexivity|].
    destruct (links_cons_inv _ _ _ H) as ((H1 & H2) & H3).
    replace (n_qstart b =? n_qstart first) with false by lia.
    replace (G <=? n_qstart b - n_qend first) with false by lia. now apply IH.
  Qed.

  Lemma isort_sorted_id : forall rest first, links G (first :: rest) ->
    isort mel_le (first :: rest) = first :: rest.
  Proof.
    induction rest as [|b r IH]; intros first H; [reflexivity|].
    destruct (links_cons_inv _ _ _ H) as ((H1 & H2) & H3).
    change (isort mel_le (first :: b :: r)) with (insert mel_le first (isort mel_le (b :: r))).
    rewrite IH by exact H3. cbn [insert].
    replace (mel_le first b) with true by (unfold mel_le; lia). reflexivity.
  Qed.
End Render.

Theorem roundtrip_steps_melody : forall s spb p v i pr s0 es,
  s_notes s = mel_to_step_notes v i pr s0 es ->
  steps_per_bar s = Ok spb ->
  mp_instrument p = i -> v <> 0 ->
  canonical_melody spb (mp_search_start p) (mp_gap_bars p) (mp_pad_end p) s0 es = true ->
  mel_from_quantized p s = Ok (mkMelResult es s0 (s0 + len es) spb (s_spq s)).
Proof.
  intros s spb p v i pr s0 es Hnotes Hspb Hi Hv Hcan.
  destruct es as [|e0 r0].
  - cbn [canonical_melody] in Hcan. assert (s0 = 0) by lia. subst s0.
    unfold mel_from_quantized. rewrite Hspb. cbn [bind]. rewrite Hnotes. reflexivity.
  - unfold canonical_melody in Hcan. set (es := e0 :: r0) in *. set (G := mp_gap_bars p * spb) in *.
    apply andb_true_iff in Hcan. destruct Hcan as (Hb & Hm).
    assert (Hpos : 0 < spb) by lia. assert (Hs0 : 0 <= s0) by lia.
    assert (Hss : mp_search_start p <= s0) by lia.
    assert (Hmod : (s0 - mp_search_start p) mod spb = 0) by lia. clear Hb.
    destruct (mel_scan_canon spb G es 0 MLead) as [st'|] eqn:Hscan; [|discriminate].
    assert (HI0 : Inv v i s0 spb G [] [] None MLead).
    { split; [constructor|]. split; [intros l1 a b l2 E; destruct l1; discriminate|].
      split; [intros f r E; discriminate|]. split; reflexivity. }
    destruct (render_acc v i pr s0 spb G es [] [] None MLead st' HI0 Hscan) as (A' & cur' & E & HI).
    cbn [app] in E, HI. rewrite len_nil, !Z.add_0_r in E.
    unfold mel_to_step_notes in Hnotes. rewrite E in Hnotes. clear E HI0.
    set (V := A' ++ closeL v i pr cur' (s0 + len es)) in *.
    assert (HV : Forall (good v i s0) V /\ links G V /\ firstbar spb s0 V /\ V <> [] /\
                 match st' with
                 | MOn => U s0 V = es ++ [OFF]
                 | MOff j => j < len es /\ len (U s0 V) = j + 1 /\ es = norm (len es) (U s0 V)
                 | MLead => False
                 end).
    { destruct st' as [| |j]; [discriminate| |].
      - destruct cur' as [[q t]|]; [|destruct HI as (_ & _ & _ & _ & [])].
        destruct (close_inv v i pr s0 spb G es A' q t HI) as (H1 & H2 & H3 & H4 & _).
        unfold V, closeL. repeat (split; [assumption|]). split; [|exact H4].
        intros E. destruct A'; discriminate.
      - destruct cur' as [[q t]|]; [destruct HI as (_ & _ & _ & HI & _); discriminate|].
        destruct HI as (H1 & H2 & H3 & H4 & H5 & H6 & (A0 & a & H7 & _)).
        unfold V, closeL. rewrite app_nil_r. repeat (split; [assumption|]).
        split; [rewrite H7; intros E; destruct A0; discriminate|]. split; [lia|]. split; assumption. }
    destruct HV as (Hg & Hl & Hf & Hne & Hev). clearbody V. clear HI.
    destruct V as [|first rest]; [contradiction|].
    assert (Hcs : mel_candidates p (s_notes s) = first :: rest).
    { unfold mel_candidates. rewrite Hnotes, filter_id; [now apply (isort_sorted_id G)|].
      eapply Forall_impl; [|exact Hg]. intros n (H1 & H2 & H3 & _ & _ & H4). unfold mel_keep.
      rewrite H3, andb_false_r. cbn [negb]. lia. }
    assert (Hwf : Forall mel_wf_note (s_notes s)).
    { rewrite Hnotes. eapply Forall_impl; [|exact Hg]. intros n (_ & _ & _ & H1 & H2 & _).
      split; [now apply is_pitch_ge|exact H2]. }
    assert (Hfirst : s0 <= n_qstart first < s0 + spb).
    { inversion Hg as [|? ? (_ & _ & _ & _ & _ & H1) _]; subst. specialize (Hf first rest eq_refl). lia. }
    pose proof (mel_fq_struct p s spb first rest Hspb Hpos Hwf Hcs) as HS. cbv zeta in HS. fold G in HS.
    rewrite (links_heads G rest first Hl), (links_cut G rest first Hl), (links_dup G rest first Hl) in HS.
    rewrite (bar_start_eq _ _ _ s0 Hpos Hmod Hfirst), andb_false_r in HS.
    destruct HS as (_ & _ & _ & body & A & b & HAb & HU & Hsus & Hlen & Hfq).
    rewrite Hfq.
    assert (Hgoal : (if mp_pad_end p then pad_len (len body) spb else len body) = len es /\
                    mel_set_length (len es) body = es).
    { destruct st' as [| |j]; [destruct Hev| |].
      - rewrite HU in Hev. apply app_inj_tail in Hev. destruct Hev as (-> & _).
        split; [|unfold mel_set_length; replace (len es <? len es) with false by lia; apply zfirstn_all].
        destruct (mp_pad_end p); [|reflexivity]. apply pad_len_id; lia.
      - destruct Hev as (Hj & HlenU & Hes). rewrite HU in HlenU, Hes.
        rewrite len_app, len_cons, len_nil in HlenU. assert (len body = j) as Hbj by lia.
        destruct (mp_pad_end p); [|discriminate]. rewrite Hbj. split; [lia|].
        rewrite final_norm by (auto; lia). now symmetry. }
    destruct Hgoal as (Hn & Hset). rewrite Hn, Hset. reflexivity.
Qed.

Example melody_canonical_example :
  let p := mkMelParams 0 0 1 false false true in
  let es := [60; -2; -2; -2; 62; -2; -1; -2; 64; -2] in
  let s := mel_rseq 4 (mkTsig 0 4 4) 100 0 0 16 es in
  steps_per_bar s = Ok 16 /\
  canonical_melody 16 0 1 false 16 es = true /\
  mel_from_quantized p s = Ok (mkMelResult es 16 26 16 4).
Proof. vm_compute. repeat split. Qed.
