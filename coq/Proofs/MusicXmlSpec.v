(** Proofs/MusicXmlSpec.v — the declarative reading of C05 used by the theorems.

    Everything is a function of the REVERSED PREFIX [r] of the document-order
    token stream that precedes a token (most recent token first), so that
    "X in force" is literally "the most recent declaration of X", and the
    cursor is literally "the sum of the earlier cursor-moving durations of the
    part".  No parser state appears here. *)
From Coq Require Import ZArith QArith List Bool.
From NS Require Import Gen.G05 Model.MusicXml.
Import ListNotations.
Local Open Scope Z_scope.

(** Most recent <divisions> of the document (the parser never resets it). *)
Fixpoint div_at (r : list tok) : Z :=
  match r with [] => INIT_DIVISIONS | TDiv d :: _ => d | _ :: r' => div_at r' end.

(** Tempo in force, parser-state reading: the most recent tempo mark of the
    DOCUMENT (it survives the end of a part — finding F21). *)
Fixpoint qpm_at (r : list tok) : Q :=
  match r with [] => inject_Z INIT_QPM | TTempo q :: _ => norm_qpm q | _ :: r' => qpm_at r' end.

(** Tempo in force, proper reading: the most recent mark of the PART; before
    the part's first mark the default for the first part and [q0] (the tempo at
    time 0 of the score) for every later part. *)
Fixpoint qpm_proper (q0 : Q) (r : list tok) : Q :=
  match r with
  | [] => inject_Z INIT_QPM
  | TTempo q :: _ => norm_qpm q
  | TPart _ _ :: r' => match r' with [] => inject_Z INIT_QPM | _ => q0 end
  | _ :: r' => qpm_proper q0 r'
  end.

(** Most recent <transpose> of the part (reset when a part opens). *)
Fixpoint transp_at (r : list tok) : Z :=
  match r with [] => 0 | TTranspose c :: _ => c | TPart _ _ :: _ => 0 | _ :: r' => transp_at r' end.

Fixpoint part_at (r : list tok) : Z :=
  match r with [] => -1 | TPart _ _ :: r' => part_at r' + 1 | _ :: r' => part_at r' end.
Fixpoint chan_at (r : list tok) : Z :=
  match r with [] => DEFAULT_MIDI_CHANNEL | TPart c _ :: _ => c | _ :: r' => chan_at r' end.
Fixpoint prog_at (r : list tok) : Z :=
  match r with [] => DEFAULT_MIDI_PROGRAM | TPart _ p :: _ => p | _ :: r' => prog_at r' end.

Section Cursor.
  (** [qf] is the tempo-in-force function: [qpm_at] or [qpm_proper q0]. *)
  Variable qf : list tok -> Q.

  (** <duration> d read at the divisions and tempo in force. *)
  Definition secs_at (r : list tok) (d : Z) : Q :=
    (inject_Z d / inject_Z (div_at r) * (60 / qf r))%Q.

  (** What a token adds to the cursor. *)
  Definition delta (t : tok) (r : list tok) : Q :=
    match t with
    | TNote _ false _ _ _ dur _ _ _ _ _ => secs_at r dur
    | TForward d => secs_at r d
    | TBackup d => (- secs_at r d)%Q
    | _ => 0%Q
    end.

  (** The cursor: 0 where the part opens, then the sum of the deltas. *)
  Fixpoint cursor (r : list tok) : Q :=
    match r with
    | [] => 0%Q
    | TPart _ _ :: _ => 0%Q
    | t :: r' => (cursor r' + delta t r')%Q
    end.

  (** (duration, onset) of the most recent <note>; a chord member inherits both
      from the note before it, so they are those of the chord's first member. *)
  Fixpoint prev_at (r : list tok) : option (Z * Q) :=
    match r with
    | [] => None
    | TNote _ chord _ _ _ dur _ _ _ _ _ :: r' =>
        if chord then
          match prev_at r' with
          | Some p => Some p
          | None => Some (dur, cursor r')
          end
        else Some (dur, cursor r')
    | _ :: r' => prev_at r'
    end.

  Definition base_class (stp : Z) : Z := match step_class stp with Some c => c | None => 0 end.
  Definition type_q (ty : Z) : Q := match type_ratio ty with Some q => q | None => 1%Q end.

  (** The note / tempo event a token must produce. *)
  Definition spec_ev (r : list tok) (t : tok) : list ev :=
    match t with
    | TNote rest chord stp alter oct dur voice ty dots ta tn =>
        let hd := if chord then match prev_at r with Some p => p | None => (dur, cursor r) end
                  else (dur, cursor r) in
        let ratio := duration_ratio (type_q ty) dots ta tn in
        [EvNote (part_at r) rest voice (chan_at r) (prog_at r)
                (if rest then 0 else 12 * (oct + 1) + base_class stp + alter + transp_at r)
                (snd hd) (secs_at r (fst hd)) (Qnum ratio) (Z.pos (Qden ratio))]
    | TTempo q => [EvTempo (part_at r) (cursor r) (norm_qpm q)]
    | _ => []
    end.

  Fixpoint spec_from (r : list tok) (ts : list tok) : list ev :=
    match ts with
    | [] => []
    | t :: ts' => spec_ev r t ++ spec_from (t :: r) ts'
    end.
End Cursor.

(** Events compared up to equality of rationals. *)
Definition ev_eq (a b : ev) : Prop :=
  match a, b with
  | EvNote p1 r1 v1 c1 g1 k1 o1 s1 n1 d1, EvNote p2 r2 v2 c2 g2 k2 o2 s2 n2 d2 =>
      p1 = p2 /\ r1 = r2 /\ v1 = v2 /\ c1 = c2 /\ g1 = g2 /\ k1 = k2 /\ (o1 == o2)%Q /\ (s1 == s2)%Q /\ n1 = n2 /\ d1 = d2
  | EvTempo p1 t1 q1, EvTempo p2 t2 q2 => p1 = p2 /\ (t1 == t2)%Q /\ (q1 == q2)%Q
  | EvTime n1 d1 t1, EvTime n2 d2 t2 => n1 = n2 /\ d1 = d2 /\ (t1 == t2)%Q
  | EvKey k1 m1 t1, EvKey k2 m2 t2 => k1 = k2 /\ m1 = m2 /\ (t1 == t2)%Q
  | EvChord t1 f1, EvChord t2 f2 => (t1 == t2)%Q /\ f1 = f2
  | _, _ => False
  end.

Definition ev_eqb (a b : ev) : bool :=
  match a, b with
  | EvNote p1 r1 v1 c1 g1 k1 o1 s1 n1 d1, EvNote p2 r2 v2 c2 g2 k2 o2 s2 n2 d2 =>
      (p1 =? p2) && Bool.eqb r1 r2 && (v1 =? v2) && (c1 =? c2) && (g1 =? g2) && (k1 =? k2) &&
      Qeq_bool o1 o2 && Qeq_bool s1 s2 && (n1 =? n2) && (d1 =? d2)
  | EvTempo p1 t1 q1, EvTempo p2 t2 q2 => (p1 =? p2) && Qeq_bool t1 t2 && Qeq_bool q1 q2
  | EvTime n1 d1 t1, EvTime n2 d2 t2 => (n1 =? n2) && (d1 =? d2) && Qeq_bool t1 t2
  | EvKey k1 m1 t1, EvKey k2 m2 t2 => (k1 =? k2) && (m1 =? m2) && Qeq_bool t1 t2
  | EvChord t1 f1, EvChord t2 f2 => Qeq_bool t1 t2 && str_eqb f1 f2
  | _, _ => false
  end.
Fixpoint evs_eqb (a b : list ev) : bool :=
  match a, b with
  | [], [] => true
  | x :: a', y :: b' => ev_eqb x y && evs_eqb a' b'
  | _, _ => false
  end.

Definition is_nt (e : ev) : bool := match e with EvNote _ _ _ _ _ _ _ _ _ _ | EvTempo _ _ _ => true | _ => false end.
Definition is_key (e : ev) : bool := match e with EvKey _ _ _ => true | _ => false end.
Definition is_time (e : ev) : bool := match e with EvTime _ _ _ => true | _ => false end.
Definition is_chord (e : ev) : bool := match e with EvChord _ _ => true | _ => false end.

(** * Chord symbols: the figure (a function of the <harmony> element and of the
    transposition in force only) at the cursor, moved by <offset> divisions. *)
Definition chord_ev (r : list tok) (t : tok) : list ev :=
  match t with
  | THarmony root kind degs bass offset =>
      match harmony_figure (transp_at r) root kind degs bass with
      | Some fig =>
          [EvChord (match offset with
                    | None => cursor qpm_at r
                    | Some o => (cursor qpm_at r + secs_at qpm_at r o)%Q
                    end) fig]
      | None => []
      end
  | _ => []
  end.
Fixpoint chords_from (r : list tok) (ts : list tok) : list ev :=
  match ts with [] => [] | t :: ts' => chord_ev r t ++ chords_from (t :: r) ts' end.

(** * Keys *)

(** The key signature of the current measure: its most recent <key>, moved by
    every <transpose> that follows it in the measure; reported at the cursor
    time of the <key>. *)
Fixpoint key_at (r : list tok) : option (Z * Z * Q) :=
  match r with
  | [] => None
  | TMeasure :: _ => None
  | TKey f m :: r' => Some (f, if m =? 2 then 1 else 0, cursor qpm_at r')
  | TTranspose c :: r' =>
      match key_at r' with Some (k, m, t) => Some (transpose_key k c, m, t) | None => None end
  | _ :: r' => key_at r'
  end.

Definition key_ev (r : list tok) (t : tok) : list ev :=
  match t with
  | TMeasureEnd => match key_at r with Some (k, m, tm) => [EvKey k m tm] | None => [] end
  | _ => []
  end.
Fixpoint keys_from (r : list tok) (ts : list tok) : list ev :=
  match ts with [] => [] | t :: ts' => key_ev r t ++ keys_from (t :: r) ts' end.

(** * Time signatures *)

(** The <time> of the current measure (the first one; a second raises), at the
    cursor time of its declaration. *)
Fixpoint time_decl_at (r : list tok) : option (Z * Z * Q) :=
  match r with
  | [] => None
  | TMeasure :: _ => None
  | TTime b bt :: r' =>
      match time_decl_at r' with Some x => Some x | None => Some (b, bt, cursor qpm_at r') end
  | _ :: r' => time_decl_at r'
  end.

(** The declared time signature in force: most recent <time> of the document. *)
Fixpoint tsig_at (r : list tok) : option (Z * Z) :=
  match r with
  | [] => None
  | TTime b bt :: r' => match time_decl_at r' with Some _ => tsig_at r' | None => Some (b, bt) end
  | _ :: r' => tsig_at r'
  end.

(** Length of the current measure as the parser counts it: <duration>s of the
    voice-1 notes and rests that are not chord members. *)
Fixpoint mdur_at (r : list tok) : Z :=
  match r with
  | [] => 0
  | TMeasure :: _ => 0
  | TNote _ chord _ _ _ dur voice _ _ _ _ :: r' =>
      if (voice =? 1) && negb chord then mdur_at r' + dur else mdur_at r'
  | _ :: r' => mdur_at r'
  end.

(** A measure is complete when it is exactly as long as the time signature in
    force says and a beat is a whole number of divisions. *)
Definition measure_complete (r : list tok) : bool :=
  match tsig_at r with
  | Some (sn, sd) =>
      (0 <? sd) && (0 <=? sn) && (0 <? div_at r) && ((4 * div_at r) mod sd =? 0) &&
      (mdur_at r * sd =? sn * (4 * div_at r))
  | None => false
  end.

Fixpoint all_complete (r : list tok) (ts : list tok) : bool :=
  match ts with
  | [] => true
  | TMeasureEnd :: ts' => measure_complete r && all_complete (TMeasureEnd :: r) ts'
  | t :: ts' => all_complete (t :: r) ts'
  end.

Definition time_ev (r : list tok) (t : tok) : list ev :=
  match t with
  | TMeasureEnd => match time_decl_at r with Some (b, bt, tm) => [EvTime b bt tm] | None => [] end
  | _ => []
  end.
Fixpoint times_from (r : list tok) (ts : list tok) : list ev :=
  match ts with [] => [] | t :: ts' => time_ev r t ++ times_from (t :: r) ts' end.

(** * The exclusion hypothesis for F21 *)

(** Tempo at time 0 of the score: the last mark of the first part before
    anything moves its cursor, else the default. *)
Fixpoint initial_tempo_acc (q : Q) (ts : list tok) : Q :=
  match ts with
  | [] => q
  | TTempo x :: ts' => initial_tempo_acc (norm_qpm x) ts'
  | TNote _ _ _ _ _ _ _ _ _ _ _ :: _ | TBackup _ :: _ | TForward _ :: _ | TPartEnd :: _ => q
  | _ :: ts' => initial_tempo_acc q ts'
  end.
Definition initial_tempo (ts : list tok) : Q := initial_tempo_acc (inject_Z INIT_QPM) ts.

(** At every later part's opening the parser's tempo state is the tempo at
    time 0 of the score. *)
Fixpoint leak_free_from (q0 : Q) (r : list tok) (ts : list tok) : bool :=
  match ts with
  | [] => true
  | TPart c p :: ts' =>
      (match r with [] => true | _ => Qeq_bool (qpm_at r) q0 end) && leak_free_from q0 (TPart c p :: r) ts'
  | t :: ts' => leak_free_from q0 (t :: r) ts'
  end.
Definition leak_free (ts : list tok) : bool := leak_free_from (initial_tempo ts) [] ts.
(** ... and still is at the end of the document (matters only for the default
    tempo the reader reports when the first part has no mark). *)
Definition leak_free_end (ts : list tok) : bool := Qeq_bool (qpm_at (rev ts)) (initial_tempo ts).
