(** Proofs/TrCode17.v — C17's consistency clause stated DIRECTLY on the Gallina re-translated from the source of
    SimpleEventSequence.append / set_length on every run (Gen/TrS.v): "length, end_step - start_step and the event
    list stay consistent under any edit", for these two methods as they read now. *)
From Coq Require Import ZArith Bool List Lia.
From NS Require Import Model.Events Gen.TrS Proofs.Events Proofs.TrEquivS.
Import ListNotations.
Local Open Scope Z_scope.

Definition mk (ev : list Z) (s0 s1 pd : Z) : st Z := mkst ev s0 s1 0 0 pd.

Theorem code_append_consistent ev s0 s1 e ev' s1' :
  zlen ev = s1 - s0 ->
  trs_append ev s1 e = Some (ev', s1') ->
  ev' = ev ++ [e] /\ zlen ev' = s1' - s0.
Proof.
  intros Hc H. pose proof (trs_append_eq (mk ev s0 s1 0) e) as E. cbn [events stop mk] in E.
  rewrite E in H. injection H as <- <-. cbn [append fst events stop mk]. split; [reflexivity|].
  rewrite zlen_app. change (zlen [e]) with 1. lia.
Qed.

Theorem code_set_length_consistent ev s0 s1 pd n fl ev' s1' s0' :
  0 <= n ->
  trs_set_length ev s1 pd s0 n fl = Some (ev', s1', s0') ->
  zlen ev' = n /\ s1' - s0' = n /\ (if fl then s1' = s1 else s0' = s0).
Proof.
  intros Hn H. pose proof (trs_set_length_eq (mk ev s0 s1 pd) n fl) as E. cbn [events stop pad start mk] in E.
  rewrite E in H. injection H as <- <- <-.
  split; [apply base_set_length_zlen; exact Hn|].
  pose proof (base_set_length_fields Z (mk ev s0 s1 pd) n fl) as F. cbn zeta in F.
  destruct F as (F & _). destruct fl; cbn [stop start mk] in F; lia.
Qed.
