(** Proofs/AbcRepeat.v — C04: the section / section-group bookkeeping of the
    parser (time-comparison based: _add_section de-duplicates on equal times,
    _finalize drops a trailing empty section) produces exactly the notated
    repeat structure, for EVERY sequence of clock advances and bar / repeat
    symbols that is well formed (matching counts, every backward repeat has
    notes since the previous boundary, nothing left open).

    The section logic of the model reads only [cur], [notes], [sects],
    [groups], [expected]; an event is a positive clock advance (any run of
    notes and other tokens between two bar symbols) or a bar symbol, run
    through the model's own [step_bar] / [step_colons] / [finalize]. *)
From Coq Require Import ZArith QArith List Bool Lia Lqa.
From NS Require Import Gen.G04 Model.Abc Proofs.AbcTime.
Import ListNotations.
Local Open Scope Z_scope.

Inductive sev := EAdv (d : Q) | EBar (lc bl rc : Z) | EColons (n : Z).

Definition sstep (s : st) (e : sev) : res st :=
  match e with
  | EAdv d => let t1 := qadd (cur s) d in
              Ok (set_notes (set_cur s t1) (mkN 0 (cur s) t1 :: notes s))
  | EBar lc bl rc => step_bar s lc bl rc
  | EColons n => step_colons s n
  end.

Fixpoint srun (s : st) (evs : list sev) : res st :=
  match evs with
  | [] => Ok s
  | e :: r => match sstep s e with Ok s1 => srun s1 r | Err x => Err x end
  end.

(** ** The notated structure, read off the event list without any clock *)
Record sp := mkSp {
  segs : list Z;          (* play counts of the finished segments, most recent first *)
  has : bool;             (* notes since the last boundary *)
  opn : option Z;         (* count of the open repeat *)
  started : bool;         (* some note so far *)
  anyb : bool }.          (* some boundary symbol took effect *)

Definition sp0 : sp := mkSp [] false None false false.

Definition boundary (p : sp) (c : Z) : sp :=
  mkSp (if has p then c :: segs p else segs p) false (opn p) (started p) true.

Definition sp_repeat (p : sp) (back fwd : option Z) : option sp :=
  let mismatch :=
    match opn p with
    | Some e => match back with Some b => negb (b =? e) | None => true end
    | None => false
    end in
  if mismatch then None
  else
    match back with
    | Some b => if has p then Some (mkSp (b :: segs p) false fwd (started p) true)
                else None                                  (* empty repeat body / start of tune *)
    | None =>
        let q := if started p then boundary p 1 else p in
        Some (mkSp (segs q) (has q) fwd (started q) true)
    end.

Definition sp_step (p : sp) (e : sev) : option sp :=
  match e with
  | EAdv d => if qltb 0%Q d then Some (mkSp (segs p) true (opn p) true (anyb p)) else None
  | EBar lc bl rc =>
      if (0 <? lc) || (0 <? rc) then
        sp_repeat p (if 0 <? lc then Some (lc + 1) else None) (if 0 <? rc then Some (rc + 1) else None)
      else if (2 <=? bl) && (match opn p with None => true | Some _ => false end) && started p
           then Some (boundary p 1) else Some p
  | EColons n => if negb (n mod 2 =? 0) then None
                 else sp_repeat p (Some (n / 2 + 1)) (Some (n / 2 + 1))
  end.

Fixpoint sp_run (p : sp) (evs : list sev) : option sp :=
  match evs with
  | [] => Some p
  | e :: r => match sp_step p e with Some q => sp_run q r | None => None end
  end.

Definition final_segs (p : sp) : list Z := if has p then 1 :: segs p else segs p.

(* ids m, m-1, ..., 0 *)
Fixpoint desc (m : nat) : list Z :=
  match m with O => [0] | S k => Z.of_nat (S k) :: desc k end.

(* (id, count) most recent first: the i-th segment (from 0) has id i *)
Fixpoint gnum (cs : list Z) : list (Z * Z) :=
  match cs with [] => [] | c :: r => (Z.of_nat (length r), c) :: gnum r end.

(** ** Invariant *)
Record Inv (s : st) (p : sp) : Prop := mkInv {
  i_exp : expected s = opn p;
  i_start0 : started p = false -> (cur s == 0)%Q /\ notes s = [] /\ has p = false;
  i_start1 : started p = true ->
             (0 < cur s)%Q /\ exists n r, notes s = n :: r /\ (n_end n == cur s)%Q;
  i_noany : anyb p = false ->
            sects s = [] /\ groups s = [] /\ segs p = [] /\ opn p = None /\ has p = started p;
  i_any : anyb p = true ->
          exists t r, sects s = (t, Z.of_nat (length (segs p))) :: r /\
            map snd (sects s) = desc (length (segs p)) /\
            groups s = gnum (segs p) /\
            (has p = true -> (t < cur s)%Q) /\ (has p = false -> (t == cur s)%Q) /\
            (segs p = [] -> opn p <> None) /\ (segs p <> [] -> started p = true) }.

Ltac prj := cbn [expected cur notes sects groups bacc set_expected set_groups set_sects set_cur
                 set_notes set_bacc segs has opn started anyb boundary] in *.

Lemma inv_bacc : forall s p b, Inv s p -> Inv (set_bacc s b) p.
Proof. intros s p b [A B C D E]. constructor; prj; assumption. Qed.

Lemma has_started : forall s p, Inv s p -> has p = true -> started p = true.
Proof.
  intros s p I H. destruct (started p) eqn:S; [reflexivity|].
  destruct (i_start0 _ _ I S) as [_ [_ X]]. congruence.
Qed.

(** ** _add_section, case by case *)
Definition same_but_sects (s s1 : st) : Prop :=
  cur s1 = cur s /\ notes s1 = notes s /\ groups s1 = groups s /\ expected s1 = expected s.

Lemma add_section_cases : forall s t s1 new, add_section s t = (s1, new) ->
  same_but_sects s s1 /\
  match sects s with
  | [] => if qltb 0%Q t then
            if qeqb 0%Q t then sects s1 = [(0%Q, 0)] /\ new = None
            else sects s1 = [(t, 1); (0%Q, 0)] /\ new = Some 1
          else sects s1 = [(t, 0)] /\ new = Some 0
  | (t0, i) :: r => if qeqb t0 t then sects s1 = sects s /\ new = None
                    else sects s1 = (t, i + 1) :: (t0, i) :: r /\ new = Some (i + 1)
  end.
Proof.
  intros s t s1 new H. unfold add_section in H.
  destruct (sects s) as [|[t0 i0] r] eqn:E.
  - destruct (qltb 0%Q t); prj.
    + destruct (qeqb 0%Q t); injection H as <- <-; (split; [repeat split|]); split; reflexivity.
    + rewrite E in H. injection H as <- <-. split; [repeat split|]. split; reflexivity.
  - prj. rewrite E in H.
    destruct (qeqb t0 t); injection H as <- <-; (split; [repeat split|]); prj; split; try reflexivity; assumption.
Qed.

Lemma pos_facts : forall c, (0 < c)%Q -> qltb 0%Q c = true /\ qzero c = false /\ qeqb 0%Q c = false.
Proof.
  intros c H. split; [now apply qltb_iff|]. split.
  - destruct (qzero c) eqn:Z; [|reflexivity]. apply qzero_iff in Z. lra.
  - destruct (qeqb 0%Q c) eqn:Z; [|reflexivity]. apply qeqb_iff in Z. lra.
Qed.

Lemma zero_facts : forall c, (c == 0)%Q -> qltb 0%Q c = false.
Proof.
  intros c H. destruct (qltb 0%Q c) eqn:Z; [|reflexivity]. apply qltb_iff in Z. lra.
Qed.

Lemma lt_neq : forall t c, (t < c)%Q -> qeqb t c = false.
Proof. intros t c H. destruct (qeqb t c) eqn:Z; [|reflexivity]. apply qeqb_iff in Z. lra. Qed.

Lemma eq_eqb : forall t c, (t == c)%Q -> qeqb t c = true.
Proof. intros. now apply qeqb_iff. Qed.

(** opening a section at the current (positive) time when there are notes since
    the last boundary, and recording the previous section with count [c] *)
Lemma close_segment : forall s p c,
  Inv s p -> has p = true ->
  exists s1 new s2,
    add_section s (cur s) = (s1, Some new) /\ add_group_prev s1 c = Ok s2 /\
    cur s2 = cur s /\ notes s2 = notes s /\ expected s2 = expected s /\
    (exists r, sects s2 = (cur s, Z.of_nat (length (c :: segs p))) :: r) /\
    map snd (sects s2) = desc (length (c :: segs p)) /\
    groups s2 = gnum (c :: segs p).
Proof.
  intros s p c I H.
  pose proof (has_started _ _ I H) as S.
  destruct (i_start1 _ _ I S) as [P _]. destruct (pos_facts _ P) as [P1 [P2 P3]].
  destruct (add_section s (cur s)) as [s1 new] eqn:AS.
  destruct (add_section_cases _ _ _ _ AS) as [[F1 [F2 [F3 F4]]] C].
  destruct (anyb p) eqn:A.
  - destruct (i_any _ _ I A) as [t [r [E1 [E2 [E3 [E4 [E5 [E6 E7]]]]]]]].
    rewrite E1 in C. rewrite (lt_neq _ _ (E4 H)) in C. destruct C as [C1 C2]. subst new.
    exists s1, (Z.of_nat (length (segs p)) + 1).
    unfold add_group_prev. rewrite C1. eexists. split; [reflexivity|]. split; [reflexivity|]. prj.
    repeat split; try assumption.
    + exists ((t, Z.of_nat (length (segs p))) :: r). rewrite C1. f_equal. f_equal. cbn [length]. lia.
    + rewrite C1. rewrite E1 in E2. cbn [map snd] in *. cbn [length desc]. rewrite <- E2. f_equal. lia.
    + rewrite F3, E3. reflexivity.
  - destruct (i_noany _ _ I A) as [E1 [E2 [E3 [E4 E5]]]].
    rewrite E1 in C. rewrite P1, P3 in C. destruct C as [C1 C2]. subst new.
    exists s1, 1. unfold add_group_prev. rewrite C1. eexists. split; [reflexivity|]. split; [reflexivity|]. prj.
    rewrite E3. repeat split; try assumption.
    + exists [(0%Q, 0)]. rewrite C1. reflexivity.
    + rewrite C1. reflexivity.
    + rewrite F3, E2. reflexivity.
Qed.

(** ** Steps *)
Lemma inv_adv : forall s p d, Inv s p -> (0 < d)%Q ->
  Inv (set_notes (set_cur s (qadd (cur s) d)) (mkN 0 (cur s) (qadd (cur s) d) :: notes s))
      (mkSp (segs p) true (opn p) true (anyb p)).
Proof.
  intros s p d I D.
  assert (NN : (0 <= cur s)%Q).
  { destruct (started p) eqn:S.
    - destruct (i_start1 _ _ I S) as [X _]. lra.
    - destruct (i_start0 _ _ I S) as [X _]. lra. }
  constructor; prj.
  - apply (i_exp _ _ I).
  - discriminate.
  - intros _. split; [rewrite qadd_eq; lra|]. eexists _, _. split; [reflexivity|]. reflexivity.
  - intros A. destruct (i_noany _ _ I A) as [E1 [E2 [E3 [E4 E5]]]]. repeat split; assumption.
  - intros A. destruct (i_any _ _ I A) as [t [r [E1 [E2 [E3 [E4 [E5 [E6 E7]]]]]]]].
    exists t, r. repeat split; try assumption.
    + intros _. rewrite qadd_eq. destruct (has p) eqn:H; [specialize (E4 eq_refl)|specialize (E5 eq_refl)]; lra.
    + discriminate.
Qed.

Ltac finish :=
  repeat split; try assumption; try discriminate;
  try (match goal with E : sects _ = ?x |- map snd ?x = _ => rewrite <- E; assumption end);
  try (intro; first [ reflexivity | assumption | contradiction
                    | match goal with E : _ -> (_ == _)%Q |- _ => apply E; assumption end
                    | match goal with X : ?a <> ?a |- _ => now contradiction X end ]).

Lemma inv_repeat : forall s p back fwd p',
  Inv s p -> sp_repeat p back fwd = Some p' ->
  (back = None -> fwd <> None) ->
  exists s', repeat_common s back fwd = Ok s' /\ Inv s' p'.
Proof.
  intros s p back fwd p' I SP FW. unfold sp_repeat in SP. unfold repeat_common.
  rewrite (i_exp _ _ I).
  destruct (match opn p with Some e => _ | None => false end); [discriminate|].
  destruct back as [b|].
  - (* backward repeat: needs notes since the last boundary *)
    destruct (has p) eqn:H; [|discriminate]. injection SP as <-.
    pose proof (has_started _ _ I H) as S.
    destruct (i_start1 _ _ I S) as [P N]. destruct (pos_facts _ P) as [P1 [P2 P3]].
    destruct (close_segment s p b I H) as [s1 [new [s2 [AS [AG [G1 [G2 [G3 [[r G4] [G5 G6]]]]]]]]]].
    rewrite AS, P2, AG. cbn [bind]. eexists. split; [reflexivity|].
    constructor; prj.
    + reflexivity.
    + rewrite S. discriminate.
    + intros _. rewrite G1, G2. split; assumption.
    + discriminate.
    + intros _. exists (cur s), r. rewrite G1. finish.
  - (* forward repeat only *)
    specialize (FW eq_refl).
    destruct (started p) eqn:S.
    + destruct (i_start1 _ _ I S) as [P N]. destruct (pos_facts _ P) as [P1 [P2 P3]].
      destruct (has p) eqn:H.
      * injection SP as <-. unfold boundary. rewrite H. prj.
        destruct (close_segment s p 1 I H) as [s1 [new [s2 [AS [AG [G1 [G2 [G3 [[r G4] [G5 G6]]]]]]]]]].
        rewrite AS, P1, AG. cbn [bind]. eexists. split; [reflexivity|].
        constructor; prj.
        -- reflexivity.
        -- rewrite S. discriminate.
        -- intros _. rewrite G1, G2. split; assumption.
        -- discriminate.
        -- intros _. exists (cur s), r. rewrite G1. finish.
      * injection SP as <-. unfold boundary. rewrite H. prj.
        destruct (anyb p) eqn:A.
        2:{ destruct (i_noany _ _ I A) as [_ [_ [_ [_ X]]]]. congruence. }
        destruct (i_any _ _ I A) as [t [r [E1 [E2 [E3 [E4 [E5 [E6 E7]]]]]]]].
        destruct (add_section s (cur s)) as [s1 new] eqn:AS.
        destruct (add_section_cases _ _ _ _ AS) as [[F1 [F2 [F3 F4]]] C].
        rewrite E1 in C. rewrite (eq_eqb _ _ (E5 H)) in C. destruct C as [C1 C2]. subst new.
        cbn [bind]. eexists. split; [reflexivity|].
        constructor; prj.
        -- reflexivity.
        -- rewrite S. discriminate.
        -- intros _. rewrite F1, F2. split; assumption.
        -- discriminate.
        -- intros _. exists t, r. rewrite C1, F1, F3. finish.
    + destruct (i_start0 _ _ I S) as [Z0 [N0 H0]]. pose proof (zero_facts _ Z0) as Q0.
      injection SP as <-. rewrite H0. prj.
      destruct (add_section s (cur s)) as [s1 new] eqn:AS.
      destruct (add_section_cases _ _ _ _ AS) as [[F1 [F2 [F3 F4]]] C].
      destruct (anyb p) eqn:A.
      * destruct (i_any _ _ I A) as [t [r [E1 [E2 [E3 [E4 [E5 [E6 E7]]]]]]]].
        rewrite E1 in C. rewrite (eq_eqb _ _ (E5 H0)) in C. destruct C as [C1 C2]. subst new.
        cbn [bind]. eexists. split; [reflexivity|].
        constructor; prj.
        -- reflexivity.
        -- intros _. rewrite F1, F2. repeat split; assumption.
        -- rewrite S. discriminate.
        -- discriminate.
        -- intros _. exists t, r. rewrite C1, F1, F3. finish.
      * destruct (i_noany _ _ I A) as [E1 [E2 [E3 [E4 E5]]]].
        rewrite E1, Q0 in C. destruct C as [C1 C2]. subst new. rewrite Q0.
        cbn [bind]. eexists. split; [reflexivity|].
        constructor; prj.
        -- reflexivity.
        -- intros _. rewrite F1, F2. repeat split; assumption.
        -- rewrite S. discriminate.
        -- discriminate.
        -- intros _. exists (cur s), []. rewrite C1, F1, F3, E2, E3. finish.
Qed.

Lemma inv_step : forall s p e p', Inv s p -> sp_step p e = Some p' ->
  exists s', sstep s e = Ok s' /\ Inv s' p'.
Proof.
  intros s p e p' I SP. destruct e as [d|lc bl rc|n]; cbn [sp_step sstep] in *.
  - destruct (qltb 0%Q d) eqn:D; [|discriminate]. injection SP as <-. apply qltb_iff in D.
    eexists. split; [reflexivity|]. now apply inv_adv.
  - unfold step_bar.
    destruct ((0 <? lc) || (0 <? rc)) eqn:R.
    + apply (inv_repeat _ _ _ _ _ (inv_bacc _ _ [] I) SP).
      intros X. destruct (0 <? lc); [discriminate|]. cbn [orb] in R. rewrite R. discriminate.
    + prj. rewrite (i_exp _ _ I).
      destruct (2 <=? bl); cbn [andb] in SP.
      2:{ injection SP as <-. eexists. split; [reflexivity|]. now apply inv_bacc. }
      destruct (opn p) eqn:O; cbn [andb] in SP.
      { injection SP as <-. eexists. split; [reflexivity|]. now apply inv_bacc. }
      destruct (started p) eqn:S.
      2:{ injection SP as <-. destruct (i_start0 _ _ I S) as [Z0 _]. rewrite (zero_facts _ Z0).
          eexists. split; [reflexivity|]. now apply inv_bacc. }
      injection SP as <-.
      destruct (i_start1 _ _ I S) as [P N]. destruct (pos_facts _ P) as [P1 [P2 P3]]. rewrite P1.
      pose proof (inv_bacc _ _ [] I) as I'.
      destruct (has p) eqn:H.
      * destruct (close_segment _ p 1 I' H) as [s1 [new [s2 [AS [AG [G1 [G2 [G3 [[r G4] [G5 G6]]]]]]]]]].
        prj. rewrite AS, AG. eexists. split; [reflexivity|]. unfold boundary. rewrite H.
        constructor; prj.
        -- rewrite G3. now rewrite (i_exp _ _ I).
        -- rewrite S. discriminate.
        -- intros _. rewrite G1, G2. split; assumption.
        -- discriminate.
        -- intros _. exists (cur s), r. rewrite G1. finish.
      * destruct (anyb p) eqn:A.
        2:{ destruct (i_noany _ _ I A) as [_ [_ [_ [_ X]]]]. congruence. }
        destruct (i_any _ _ I' A) as [t [r [E1 [E2 [E3 [E4 [E5 [E6 E7]]]]]]]].
        destruct (add_section (set_bacc s []) (cur s)) as [s1 new] eqn:AS.
        destruct (add_section_cases _ _ _ _ AS) as [[F1 [F2 [F3 F4]]] C]. prj.
        rewrite E1 in C. rewrite (eq_eqb _ _ (E5 H)) in C. destruct C as [C1 C2]. subst new.
        eexists. split; [reflexivity|]. unfold boundary. rewrite H.
        constructor; prj.
        -- rewrite F4. now rewrite (i_exp _ _ I).
        -- rewrite S. discriminate.
        -- intros _. rewrite F1, F2. split; assumption.
        -- discriminate.
        -- intros _. exists t, r. rewrite C1, F1, F3. finish.
  - unfold step_colons. destruct (negb (n mod 2 =? 0)); [discriminate|].
    apply (inv_repeat _ _ _ _ _ (inv_bacc _ _ [] I) SP). discriminate.
Qed.

Lemma inv_run : forall evs s p p', Inv s p -> sp_run p evs = Some p' ->
  exists s', srun s evs = Ok s' /\ Inv s' p'.
Proof.
  induction evs as [|e r IH]; intros s p p' I SP; cbn [sp_run srun] in *.
  - injection SP as <-. eauto.
  - destruct (sp_step p e) as [q|] eqn:E; [|discriminate].
    destruct (inv_step _ _ _ _ I E) as [s1 [S1 I1]]. rewrite S1. eapply IH; eassumption.
Qed.

Lemma inv0 : Inv st0 sp0.
Proof.
  constructor; cbn.
  - reflexivity.
  - intros _. repeat split; reflexivity.
  - discriminate.
  - intros _. repeat split; reflexivity.
  - discriminate.
Qed.

(** ** End of tune *)
Lemma desc_head : forall m, exists r, desc m = Z.of_nat m :: r.
Proof. destruct m; cbn [desc]; eauto. Qed.

Lemma inv_finalize : forall s p, Inv s p -> opn p = None ->
  exists s', finalize s = Ok s' /\
    groups s' = (if anyb p then gnum (final_segs p) else []) /\
    (anyb p = true -> map snd (sects s') = desc (length (final_segs p) - 1)) /\
    (anyb p = false -> sects s' = []).
Proof.
  intros s p I O. unfold finalize. rewrite (i_exp _ _ I), O. cbn [truthy_z].
  destruct (anyb p) eqn:A.
  - destruct (i_any _ _ I A) as [t [r [E1 [E2 [E3 [E4 [E5 [E6 E7]]]]]]]].
    assert (NE : segs p <> []) by (intro X; apply (E6 X); assumption).
    pose proof (E7 NE) as S. destruct (i_start1 _ _ I S) as [P [n [ns [N1 N2]]]].
    destruct (segs p) as [|c cs] eqn:SG; [contradiction|].
    rewrite E1, N1. unfold final_segs. rewrite SG.
    destruct (has p) eqn:H.
    + assert (Q : qeqb t (n_end n) = false).
      { apply lt_neq. rewrite N2. now apply E4. }
      rewrite Q. cbn [bind]. rewrite E1, E3. cbn [gnum].
      assert (NQ : negb (Z.of_nat (length cs) =? Z.of_nat (length (c :: cs))) = true).
      { apply negb_true_iff. apply Z.eqb_neq. cbn [length]. lia. }
      rewrite NQ. eexists. split; [reflexivity|]. prj. split; [|split; [|discriminate]].
      * cbn [gnum length]. reflexivity.
      * intros _. rewrite E2. cbn [length]. f_equal; lia.
    + assert (Q : qeqb t (n_end n) = true).
      { apply eq_eqb. rewrite N2. now apply E5. }
      rewrite Q. cbn [bind]. prj.
      rewrite E1 in E2. cbn [map snd length desc] in E2. injection E2 as E2.
      destruct (desc_head (length cs)) as [r' D]. rewrite D in E2.
      destruct r as [|[t1 i1] r1]; [discriminate|]. cbn [map snd] in E2. injection E2 as -> E2'.
      rewrite E3. cbn [gnum]. rewrite Z.eqb_refl. cbn [negb].
      eexists. split; [reflexivity|]. prj. split; [rewrite E3; reflexivity|]. split; [|discriminate].
      intros _. cbn [map snd length].
      replace (Datatypes.S (length cs) - 1)%nat with (length cs) by lia.
      rewrite D. now f_equal.
  - destruct (i_noany _ _ I A) as [E1 [E2 [E3 [E4 E5]]]].
    rewrite E1. cbn [bind]. rewrite E1. eexists. split; [reflexivity|].
    split; [assumption|]. split; [discriminate|]. intros _. assumption.
Qed.

(** ** The theorem *)
Lemma repeat_expansion : forall evs p,
  sp_run sp0 evs = Some p -> opn p = None ->
  exists s s', srun st0 evs = Ok s /\ finalize s = Ok s' /\
    groups s' = (if anyb p then gnum (final_segs p) else []) /\
    (anyb p = true -> map snd (sects s') = desc (length (final_segs p) - 1)) /\
    (anyb p = false -> sects s' = []).
Proof.
  intros evs p R O.
  destruct (inv_run _ _ _ _ inv0 R) as [s [S I]].
  destruct (inv_finalize _ _ I O) as [s' [F G]].
  exists s, s'. split; [assumption|]. split; assumption.
Qed.

(** the playing order: segment i (from 0) is played c_i times, in order *)
Fixpoint numbered (k : Z) (l : list Z) : list (Z * Z) :=
  match l with [] => [] | c :: r => (k, c) :: numbered (k + 1) r end.

Lemma numbered_app : forall a k c, numbered k (a ++ [c]) = numbered k a ++ [(k + Z.of_nat (length a), c)].
Proof.
  induction a as [|x r IH]; intros k c; cbn [app numbered length].
  - replace (k + Z.of_nat 0) with k by lia. reflexivity.
  - rewrite IH. cbn [app]. replace (k + 1 + Z.of_nat (length r)) with (k + Z.of_nat (S (length r))) by lia.
    reflexivity.
Qed.

Lemma rev_gnum : forall cs, rev (gnum cs) = numbered 0 (rev cs).
Proof.
  induction cs as [|c r IH]; cbn [gnum rev]; [reflexivity|].
  rewrite IH, numbered_app, rev_length. reflexivity.
Qed.

Definition unroll (counts : list Z) : list Z :=
  flat_map (fun ic => repeat (fst ic) (Z.to_nat (snd ic))) (numbered 0 counts).

Lemma expansion_order : forall cs, group_ids (rev (gnum cs)) = unroll (rev cs).
Proof. intros. unfold group_ids, unroll. now rewrite rev_gnum. Qed.

(** ** Between two bar symbols the full parser touches none of the section state:
       every item other than a bar / colons token leaves [sects], [groups] and
       [expected] alone (it can only move the clock and append / adjust notes, and
       [run_items_chain] keeps the last note ending at the clock).  So a run of the
       full machine is a run of the section machine above in which each advance is
       the clock difference across the items between two bar symbols. *)
Definition is_bar_item (i : item) : bool :=
  match i with ITok (TBar _ _ _) | ITok (TColons _) => true | _ => false end.

Definition same_sec (s s' : st) : Prop :=
  sects s' = sects s /\ groups s' = groups s /\ expected s' = expected s.

Lemma add_tempo_sec : forall s u r s', add_tempo s u r = Ok s' -> same_sec s s'.
Proof.
  intros s u r s' H. unfold add_tempo in H.
  destruct (match u with Some x => Some x | None => unit_len s end); [|discriminate].
  injection H as <-. repeat split.
Qed.

Lemma parse_field_sec : forall s f s', parse_field s f = Ok s' -> same_sec s s'.
Proof.
  intros s f s' H. destruct f as [|n|m|n d|q|t m e ea| | |]; cbn [parse_field] in H; try discriminate.
  - injection H as <-; repeat split.
  - injection H as <-; repeat split.
  - destruct m; try discriminate; injection H as <-; repeat split.
  - destruct (d =? 0)%Z; [discriminate|]. injection H as <-; repeat split.
  - destruct q as [beats rate|rate|].
    + destruct (sum_beats beats 0%Q); cbn [bind] in H; [|discriminate].
      destruct (in_header s); [injection H as <-; repeat split|]. now apply add_tempo_sec in H.
    + destruct (in_header s); [injection H as <-; repeat split|]. now apply add_tempo_sec in H.
    + injection H as <-; repeat split.
  - destruct (parse_key t m e ea) as [[[a pk] pm]|]; cbn [bind] in H; [|discriminate].
    injection H as <-; repeat split.
Qed.

Lemma set_values_sec : forall s s', set_values_from_header s = Ok s' -> same_sec s s'.
Proof.
  intros s s' H. unfold set_values_from_header in H.
  destruct (truthy_q (unit_len s)).
  - cbn [bind] in H. destruct (truthy_z (htempo_rate s)); [|injection H as <-; repeat split].
    destruct (htempo_rate s); [|injection H as <-; repeat split].
    now apply add_tempo_sec in H.
  - destruct (default_unit s) as [u|]; cbn [bind] in H; [|discriminate].
    destruct (truthy_z (htempo_rate (set_unit s (Some u)))); [|injection H as <-; repeat split].
    destruct (htempo_rate (set_unit s (Some u))); [|injection H as <-; repeat split].
    apply add_tempo_sec in H. exact H.
Qed.

Lemma step_note_sec : forall s a l octs len s', step_note s a l octs len = Ok s' -> same_sec s s'.
Proof.
  intros s a l octs len s' H. unfold step_note in H.
  destruct (note_pitch (kacc s) (bacc s) a l octs) as [[p b']|]; cbn [bind] in H; [|discriminate].
  destruct (unit_len s) as [u|]; [|discriminate].
  destruct (note_length u len) as [ln|]; cbn [bind] in H; [|discriminate].
  destruct (qzero (cur_qpm s)); [discriminate|].
  destruct (broken s) as [br|].
  - unfold apply_broken in H. cbn [notes set_notes] in H.
    destruct (notes s) as [|n1 rest]; [discriminate|].
    destruct (negb _); [discriminate|].
    destruct (fst br); cbn [bind] in H; injection H as <-; repeat split.
  - injection H as <-. repeat split.
Qed.

Lemma non_bar_items_keep_sections : forall s i s',
  step_item s i = Ok s' -> is_bar_item i = false -> same_sec s s'.
Proof.
  intros s i s' H NB. destruct i as [f| |t]; cbn [step_item] in H.
  - now apply parse_field_sec in H.
  - destruct (in_header s).
    + destruct (set_values_from_header s) as [s1|] eqn:E; cbn [bind] in H; [|discriminate].
      injection H as <-. apply set_values_sec in E. exact E.
    + cbn [bind] in H. injection H as <-. repeat split.
  - destruct t as [a l octs len|lc bl rc|n|gt k|f| |u]; cbn [step_token is_bar_item] in *; try discriminate.
    + now apply step_note_sec in H.
    + destruct (broken s); [discriminate|]. injection H as <-. repeat split.
    + now apply parse_field_sec in H.
    + injection H as <-. repeat split.
    + destruct u; discriminate.
Qed.

(* and the bar tokens are literally the section machine's steps *)
Lemma bar_items_are_section_steps : forall s lc bl rc n,
  step_item s (ITok (TBar lc bl rc)) = sstep s (EBar lc bl rc) /\
  step_item s (ITok (TColons n)) = sstep s (EColons n).
Proof. intros. split; reflexivity. Qed.
