(** Proofs/AbcGrammar.v — C04: the supported subset as a boolean predicate on
    token lists, and the theorem that no tune of the subset (nor a tune of the
    subset with unsupported constructs added) can raise anything but an
    ABCParseError-family exception. *)
From Coq Require Import ZArith QArith List Bool Lia Lqa.
From NS Require Import Gen.G04 Model.Abc Proofs.AbcKeys Proofs.AbcPitch Proofs.AbcTime
                       Proofs.AbcBook Proofs.AbcRepeat.
Import ListNotations.
Local Open Scope Z_scope.

(** ** The grammar *)
Definition key_known (tonic mode : list Z) : bool :=
  match assoc_s (lower_s (tonic ++ norm_mode mode)) KEY_TO_SIG,
        assoc_s (lower_s tonic) KEY_TO_PROTO_KEY with
  | Some _, Some _ => true
  | _, _ => false
  end.

Definition pospair (p : Z * Z) : bool := (0 <? fst p) && (0 <? snd p).

Definition field_ok (f : field) : bool :=
  match f with
  | FM (MFrac n d) => 0 <? d
  | FL n d => (0 <? n) && (0 <? d)
  | FQ (QFrac beats rate) =>
      (match beats with [] => false | _ => true end) && forallb pospair beats && (0 <? rate)
  | FQ (QBare rate) => 0 <? rate
  | FK tonic mode _ _ => key_known tonic mode          (* any key the module's tables know *)
  | _ => true          (* X, T, ..., M:C, M:none; K:none, M:4, P:, V: give ABCParseError-family errors *)
  end.

Definition len_ok (l : lenspec) : bool :=
  match ls_num l, ls_slashes l, ls_den l with
  | None, k, None => 0 <=? k
  | None, k, Some m => (k =? 0) || ((k =? 1) && (0 <? m))
  | Some n, k, None => 0 <=? n
  | Some n, k, Some m => (0 <=? n) && (negb (k =? 1) || (0 <? m))
  end.

Definition token_ok (t : token) : bool :=
  match t with
  | TNote a l octs len =>
      (match assoc_z l ABC_NOTE_TO_MIDI with Some _ => true | None => false end) && len_ok len
  | TBar lc bl rc => true
  | TColons n => 0 <? n
  | TBroken _ k => true
  | TInline f => field_ok f
  | TNop => true
  | TUnsup _ => true
  end.

Definition line_ok (l : line) : bool :=
  match l with LField f => field_ok f | LMusic ts => forallb token_ok ts end.

Definition supported_tune (ls : list line) : bool := forallb line_ok ls.

(* every key of the module's own table, in every spelling, is in the grammar *)
Lemma table_keys_supported : forall sig keys key m sp exp eacc,
  In (sig, keys) SIG_TO_KEYS -> In key keys ->
  mode_of_suffix (snd (key_split key)) = Some m -> In sp (spellings m) ->
  field_ok (FK (fst (key_split key)) sp exp eacc) = true.
Proof.
  intros sig keys key m sp exp eacc H1 H2 H3 H4.
  destruct (key_table_sound _ _ _ _ _ H1 H2 H3 H4) as [a [pk [pm [P _]]]].
  cbn [field_ok]. unfold key_known. unfold parse_key in P.
  destruct (assoc_s _ KEY_TO_SIG); [|discriminate].
  destruct (assoc_s _ KEY_TO_PROTO_KEY); [reflexivity|discriminate].
Qed.

(** ** Invariant *)
Local Open Scope Q_scope.

Record NF (s : st) : Prop := mkNF {
  nf_unit : forall u, unit_len s = Some u -> 0 < u;
  nf_body : in_header s = false -> unit_len s <> None;
  nf_qpm : 0 < cur_qpm s;
  nf_hu : forall u, htempo_unit s = Some u -> 0 < u;
  nf_hr : forall r, htempo_rate s = Some r -> (0 < r)%Z;
  nf_ts : Forall (fun x => (0 < snd x)%Z) (tsigs s);
  nf_cur : 0 <= cur s;
  nf_exp : forall e, expected s = Some e -> (0 < e)%Z;
  nf_single : forall t i, sects s = [(t, i)] -> t == 0;
  nf_empty : notes s = [] -> cur s == 0 /\ (sects s = [] \/ expected s <> None) }.

Definition Good (r : res st) (P : st -> Prop) : Prop :=
  match r with Ok s => P s | Err e => foreign e = false end.

Ltac prjall := cbn [cur kacc bacc unit_len expected in_header htempo_unit htempo_rate notes tempos tsigs
                    ksigs sects groups refnum broken cur_qpm
                    set_cur set_kacc set_bacc set_unit set_expected set_in_header set_htempo set_notes
                    set_tempos set_tsigs set_ksigs set_sects set_groups set_refnum set_broken] in *.

Lemma inject_pos : forall z, (0 < z)%Z -> 0 < inject_Z z.
Proof. intros z H. unfold Qlt, inject_Z. cbn. lia. Qed.

Lemma inject_nonneg : forall z, (0 <= z)%Z -> 0 <= inject_Z z.
Proof. intros z H. unfold Qle, inject_Z. cbn. lia. Qed.

Lemma qfrac_gt0 : forall n d, (0 < n)%Z -> (0 < d)%Z -> 0 < qfrac n d.
Proof.
  intros n d Hn Hd. destruct d as [|p|p]; try lia. unfold qfrac.
  assert (E : Qred (n # p) == n # p) by apply Qred_correct. rewrite E. unfold Qlt. cbn. lia.
Qed.

Lemma qfrac_ge0 : forall n d, (0 <= n)%Z -> (0 < d)%Z -> 0 <= qfrac n d.
Proof.
  intros n d Hn Hd. destruct d as [|p|p]; try lia. unfold qfrac.
  assert (E : Qred (n # p) == n # p) by apply Qred_correct. rewrite E. unfold Qle. cbn. lia.
Qed.

Lemma st0_NF : NF st0.
Proof.
  constructor; cbn.
  - intros u H; discriminate.
  - intros H; discriminate.
  - unfold qz, DEFAULT_QPM. reflexivity.
  - intros u H; discriminate.
  - intros r H; discriminate.
  - constructor.
  - apply Qle_refl.
  - intros e H; discriminate.
  - intros t i H; discriminate.
  - intros _. split; [reflexivity|now left].
Qed.

(** ** Tempo *)
Lemma good_add_tempo : forall s u rate,
  NF s -> (forall x, u = Some x -> 0 < x) -> (u = None -> unit_len s <> None) -> (0 < rate)%Z ->
  exists s', add_tempo s u rate = Ok s' /\ NF s' /\ in_header s' = in_header s /\ unit_len s' = unit_len s.
Proof.
  intros s u rate N HU HN HR. unfold add_tempo.
  assert (X : exists x, (match u with Some x => Some x | None => unit_len s end) = Some x /\ 0 < x).
  { destruct u as [x|]; [exists x; split; [reflexivity|now apply HU]|].
    destruct (unit_len s) as [x|] eqn:E; [|now contradiction (HN eq_refl)].
    exists x. split; [reflexivity|]. now apply (nf_unit _ N). }
  destruct X as [x [E P]]. rewrite E. eexists. split; [reflexivity|]. split; [|split; reflexivity].
  destruct N. constructor; prjall; try assumption.
  rewrite !qmul_eq. apply Qmult_lt_0_compat; [apply Qmult_lt_0_compat; [assumption|reflexivity]|].
  now apply inject_pos.
Qed.

Lemma sum_beats_pos : forall bs acc, 0 <= acc -> forallb pospair bs = true ->
  exists u, sum_beats bs acc = Ok u /\ acc <= u /\ (bs <> [] -> acc < u).
Proof.
  induction bs as [|[n d] r IH]; intros acc A H; cbn [sum_beats].
  - exists acc. split; [reflexivity|]. split; [lra|]. intros X. now contradiction X.
  - cbn [forallb] in H. apply andb_prop in H. destruct H as [H1 H2].
    unfold pospair in H1. cbn [fst snd] in H1. apply andb_prop in H1. destruct H1 as [Hn Hd].
    apply Z.ltb_lt in Hn. apply Z.ltb_lt in Hd.
    replace (d =? 0)%Z with false by (symmetry; apply Z.eqb_neq; lia).
    pose proof (qfrac_gt0 n d Hn Hd) as F.
    assert (A' : 0 <= qadd acc (qfrac n d)) by (rewrite qadd_eq; lra).
    destruct (IH _ A' H2) as [u [E [L _]]]. exists u. split; [assumption|].
    rewrite qadd_eq in L. split; [lra|]. intros _. lra.
Qed.

(** ** Fields *)
Lemma good_parse_field : forall s f, NF s -> field_ok f = true ->
  Good (parse_field s f) (fun s' => NF s' /\ in_header s' = in_header s).
Proof.
  intros s f N F. destruct f as [|n|m|n d|q|t m e ea| | |]; cbn [parse_field Good].
  - split; [assumption|reflexivity].
  - split; [|reflexivity]. destruct N. constructor; prjall; assumption.
  - destruct m as [| | |n d|]; cbn [Good]; try reflexivity; try (split; [|reflexivity]).
    + destruct N. constructor; prjall; try assumption. constructor; [cbn; lia|assumption].
    + destruct N. constructor; prjall; try assumption. constructor; [cbn; lia|assumption].
    + assumption.
    + cbn [field_ok] in F. apply Z.ltb_lt in F.
      destruct N. constructor; prjall; try assumption. constructor; [cbn; lia|assumption].
  - cbn [field_ok] in F. apply andb_prop in F. destruct F as [Fn Fd].
    apply Z.ltb_lt in Fn. apply Z.ltb_lt in Fd.
    replace (d =? 0)%Z with false by (symmetry; apply Z.eqb_neq; lia). cbn [Good].
    split; [|reflexivity]. destruct N. constructor; prjall; try assumption.
    + intros u E. injection E as <-. now apply qfrac_gt0.
    + discriminate.
  - destruct q as [beats rate|rate|]; cbn [field_ok] in F.
    + apply andb_prop in F. destruct F as [F Fr]. apply andb_prop in F. destruct F as [Fb Fp].
      apply Z.ltb_lt in Fr.
      destruct (sum_beats_pos beats 0 ltac:(lra) Fp) as [u [E [_ P]]]. rewrite E. cbn [bind].
      assert (PU : 0 < u) by (apply P; destruct beats; [discriminate|discriminate]).
      destruct (in_header s) eqn:IH.
      * cbn [Good]. split; [|assumption]. destruct N. constructor; prjall; try assumption.
        -- intros x X. injection X as <-. assumption.
        -- intros r X. injection X as <-. assumption.
      * destruct (good_add_tempo s (Some u) rate N) as [s' [A [N' [I' _]]]]; try assumption.
        -- intros x X. injection X as <-. assumption.
        -- discriminate.
        -- rewrite A. cbn [Good]. split; [assumption|]. congruence.
    + apply Z.ltb_lt in F. destruct (in_header s) eqn:IH.
      * cbn [Good]. split; [|assumption]. destruct N. constructor; prjall; try assumption.
        -- discriminate.
        -- intros r X. injection X as <-. assumption.
      * destruct (good_add_tempo s None rate N) as [s' [A [N' [I' _]]]]; try assumption.
        -- discriminate.
        -- intros _. now apply (nf_body _ N).
        -- rewrite A. cbn [Good]. split; [assumption|]. congruence.
    + cbn [Good]. split; [assumption|reflexivity].
  - cbn [field_ok] in F. unfold key_known in F. unfold parse_key.
    destruct (assoc_s _ KEY_TO_SIG) as [sig|]; [|discriminate].
    destruct (assoc_s _ KEY_TO_PROTO_KEY) as [pk|]; [|discriminate].
    destruct (proto_mode (norm_mode m)) as [pm|e0] eqn:PM; cbn [bind Good].
    2:{ unfold proto_mode in PM. repeat (destruct (str_eqb _ _) in PM; [discriminate|]). now injection PM as <-. }
    destruct (key_explicit ea _) as [a|e0] eqn:KE; cbn [bind Good].
    + split; [|reflexivity]. destruct N. constructor; prjall; assumption.
    + clear - KE. revert KE. generalize (sig_to_accidentals (if e then 0%Z else sig)).
      induction ea as [|[x c] r IH]; intros m0 KE; cbn [key_explicit] in KE; [discriminate|].
      destruct x; try (now apply IH in KE); now injection KE as <-.
  - reflexivity.
  - reflexivity.
  - reflexivity.
Qed.

(** ** End of header *)
Lemma good_default_unit : forall s, NF s ->
  match default_unit s with Ok u => 0 < u | Err e => foreign e = false end.
Proof.
  intros s N. unfold default_unit. pose proof (nf_ts _ N) as T.
  destruct (tsigs s) as [|[[t n] d] [|x r]]; try reflexivity.
  inversion T as [|? ? D _]; subst. cbn [snd] in D.
  replace (d =? 0)%Z with false by (symmetry; apply Z.eqb_neq; lia).
  destruct (qltb _ _); reflexivity.
Qed.

Lemma good_set_values : forall s, NF s ->
  Good (set_values_from_header s) (fun s' => NF s' /\ unit_len s' <> None /\ in_header s' = in_header s).
Proof.
  intros s N. unfold set_values_from_header.
  assert (G1 : Good (if truthy_q (unit_len s) then Ok s
                     else do u <- default_unit s; Ok (set_unit s (Some u)))
                    (fun s1 => NF s1 /\ unit_len s1 <> None /\ in_header s1 = in_header s)).
  { destruct (truthy_q (unit_len s)) eqn:TQ.
    - cbn [Good]. split; [assumption|]. split; [|reflexivity].
      unfold truthy_q in TQ. destruct (unit_len s); [discriminate|discriminate].
    - pose proof (good_default_unit s N) as D. destruct (default_unit s) as [u|e]; cbn [bind Good]; [|assumption].
      split; [|split; [discriminate|reflexivity]].
      destruct N. constructor; prjall; try assumption.
      + intros x X. injection X as <-. assumption.
      + discriminate. }
  match type of G1 with Good ?r _ => destruct r as [s1|e] end; cbn [bind Good] in *; [|assumption].
  destruct G1 as [N1 [U1 I1]].
  destruct (truthy_z (htempo_rate s1)) eqn:TZ; [|cbn [Good]; tauto].
  destruct (htempo_rate s1) as [r|] eqn:HR; [|cbn [Good]; tauto].
  destruct (good_add_tempo s1 (htempo_unit s1) r N1) as [s' [A [N' [I' U']]]].
  - intros x X. now apply (nf_hu _ N1).
  - intros _. assumption.
  - now apply (nf_hr _ N1).
  - rewrite A. cbn [Good]. split; [assumption|]. split; congruence.
Qed.

(** ** Notes *)
Lemma qpow2_pos : forall k, (0 <= k)%Z -> 0 < qpow2 k.
Proof. intros k H. unfold qpow2, qz. apply inject_pos. apply Z.pow_pos_nonneg; lia. Qed.

Lemma good_note_length : forall u l, 0 < u -> len_ok l = true ->
  match note_length u l with Ok ln => 0 <= ln | Err e => foreign e = false end.
Proof.
  intros u [num sl den] U H. unfold len_ok in H. unfold note_length. cbn [ls_num ls_slashes ls_den] in *.
  destruct num as [n|]; destruct den as [m|].
  - apply andb_prop in H. destruct H as [Hn Hk]. apply Z.leb_le in Hn.
    destruct sl as [|k|k]; try reflexivity.
    + rewrite qmul_eq. apply Qmult_le_0_compat; [lra|now apply inject_nonneg].
    + destruct k; try reflexivity. cbn [Z.eqb negb orb] in Hk. apply Z.ltb_lt in Hk.
      replace (m =? 0)%Z with false by (symmetry; apply Z.eqb_neq; lia).
      rewrite qmul_eq. apply Qmult_le_0_compat; [lra|now apply qfrac_ge0].
  - apply Z.leb_le in H. destruct sl as [|k|k]; try reflexivity.
    + rewrite qmul_eq. apply Qmult_le_0_compat; [lra|now apply inject_nonneg].
    + destruct k; try reflexivity.
      rewrite qmul_eq. apply Qmult_le_0_compat; [lra|apply qfrac_ge0; lia].
  - destruct sl as [|k|k].
    + lra.
    + cbn [Z.eqb orb] in H. apply andb_prop in H. destruct H as [Hk Hm]. apply Z.ltb_lt in Hm.
      destruct k; try discriminate. cbn [Z.eqb Pos.eqb].
      replace (m =? 0)%Z with false by (symmetry; apply Z.eqb_neq; lia).
      rewrite qdiv_eq. unfold Qdiv. apply Qmult_le_0_compat; [lra|].
      apply Qinv_le_0_compat. apply inject_nonneg. lia.
    + cbn in H. discriminate.
  - destruct sl as [|k|k].
    + lra.
    + rewrite qdiv_eq. unfold Qdiv. apply Qmult_le_0_compat; [lra|].
      apply Qinv_le_0_compat. pose proof (qpow2_pos (Z.pos k) ltac:(lia)). lra.
    + cbn in H. discriminate.
Qed.

Lemma good_note_pitch : forall k b a l octs,
  assoc_z l ABC_NOTE_TO_MIDI <> None ->
  match note_pitch k b a l octs with Ok _ => True | Err e => e = EParse end.
Proof.
  intros k b a l octs H. destruct (assoc_z l ABC_NOTE_TO_MIDI) as [base|] eqn:E; [|now contradiction H].
  rewrite (note_pitch_spec k b a l octs base E).
  destruct a; try reflexivity; cbv zeta; destruct (_ || _); exact I || reflexivity.
Qed.

Lemma seconds_nonneg : forall qpm ln, 0 < qpm -> 0 <= ln -> 0 <= note_seconds qpm ln.
Proof.
  intros qpm ln Q L. unfold note_seconds. rewrite !qmul_eq, qdiv_eq. unfold Qdiv, qz.
  apply Qmult_le_0_compat.
  - apply Qmult_le_0_compat; [apply inject_nonneg; lia|]. apply Qinv_le_0_compat. lra.
  - apply Qmult_le_0_compat; [assumption|apply inject_nonneg; lia].
Qed.

Lemma good_apply_broken : forall s br, NF s -> notes s <> [] ->
  Good (apply_broken s br) (fun s' => NF s' /\ in_header s' = in_header s /\ notes s' <> [] /\ broken s' = broken s).
Proof.
  intros s br N NE. unfold apply_broken.
  destruct (notes s) as [|n2 [|n1 rest]] eqn:E; try reflexivity.
  destruct (negb _); [reflexivity|].
  destruct (fst br); cbn [Good]; (split; [|split; [reflexivity|split; [discriminate|reflexivity]]]);
    destruct N; constructor; prjall; try assumption; discriminate.
Qed.

Lemma good_step_note : forall s a l octs len,
  NF s -> in_header s = false ->
  assoc_z l ABC_NOTE_TO_MIDI <> None -> len_ok len = true ->
  Good (step_note s a l octs len) (fun s' => NF s' /\ in_header s' = false).
Proof.
  intros s a l octs len N IH HL HLen. unfold step_note.
  pose proof (good_note_pitch (kacc s) (bacc s) a l octs HL) as GP.
  destruct (note_pitch (kacc s) (bacc s) a l octs) as [[p b']|e]; cbn [bind Good]; [|now subst e].
  destruct (unit_len s) as [u|] eqn:U; [|now contradiction (nf_body _ N IH)].
  pose proof (good_note_length u len (nf_unit _ N u U) HLen) as GL.
  destruct (note_length u len) as [ln|e]; cbn [bind Good]; [|assumption].
  pose proof (nf_qpm _ N) as Q.
  destruct (qzero (cur_qpm s)) eqn:Z; [apply qzero_iff in Z; lra|].
  pose proof (seconds_nonneg _ _ Q GL) as SN.
  match goal with |- context [set_notes ?A ?B] => set (s1 := set_notes A B) end.
  assert (N1 : NF s1).
  { subst s1. destruct N. constructor; prjall; try assumption.
    - rewrite qadd_eq. lra.
    - discriminate. }
  assert (I1 : in_header s1 = false) by (subst s1; prjall; assumption).
  destruct (broken s) as [br|].
  - pose proof (good_apply_broken s1 br N1 ltac:(subst s1; prjall; discriminate)) as GB.
    destruct (apply_broken s1 br) as [s2|e]; cbn [bind Good] in *; [|assumption].
    destruct GB as [N2 [I2 [NE2 _]]]. split; [|prjall; congruence].
    destruct N2. constructor; prjall; assumption.
  - cbn [Good]. split; assumption.
Qed.

(** ** Bars *)
Definition frame_sec (s s' : st) : Prop :=
  unit_len s' = unit_len s /\ in_header s' = in_header s /\ tempos s' = tempos s /\
  htempo_unit s' = htempo_unit s /\ htempo_rate s' = htempo_rate s /\ tsigs s' = tsigs s /\
  cur s' = cur s /\ notes s' = notes s.

Lemma frame_sec_refl : forall s, frame_sec s s.
Proof. intros; repeat split. Qed.

Lemma frame_sec_trans : forall a b c, frame_sec a b -> frame_sec b c -> frame_sec a c.
Proof.
  intros a b c [A1 [A2 [A3 [A4 [A5 [A6 [A7 A8]]]]]]] [B1 [B2 [B3 [B4 [B5 [B6 [B7 B8]]]]]]].
  repeat split; congruence.
Qed.

Lemma NF_sec_update : forall s s', NF s -> frame_sec s s' ->
  (forall e, expected s' = Some e -> (0 < e)%Z) ->
  (forall t i, sects s' = [(t, i)] -> t == 0) ->
  (notes s = [] -> sects s' = [] \/ expected s' <> None) ->
  NF s'.
Proof.
  intros s s' N [A1 [A2 [A3 [A4 [A5 [A6 [A7 A8]]]]]]] HE HS HN.
  destruct N. constructor; try assumption.
  - rewrite A1. assumption.
  - rewrite A1, A2. assumption.
  - unfold cur_qpm in *. rewrite A3. assumption.
  - rewrite A4. assumption.
  - rewrite A5. assumption.
  - rewrite A6. assumption.
  - rewrite A7. assumption.
  - rewrite A8, A7. intros X. destruct (nf_empty0 X) as [Z _]. split; [assumption|]. now apply HN.
Qed.

Lemma add_section_frame2 : forall s t s1 new, add_section s t = (s1, new) -> frame_sec s s1.
Proof.
  intros s t s1 new AS. unfold add_section in AS. destruct (sects s) as [|[t0 i0] r0] eqn:E; prjall.
  - destruct (qltb 0 t); prjall.
    + destruct (qeqb 0 t); injection AS as <- _; repeat split.
    + rewrite E in AS. injection AS as <- _; repeat split.
  - rewrite E in AS. destruct (qeqb t0 t); injection AS as <- _; repeat split.
Qed.

Lemma add_group_prev_ok : forall s n, (exists a b r, sects s = a :: b :: r) ->
  exists s', add_group_prev s n = Ok s' /\ frame_sec s s' /\ sects s' = sects s /\ expected s' = expected s.
Proof.
  intros s n [[ta ia] [[t i] [r E]]]. unfold add_group_prev. rewrite E.
  eexists. split; [reflexivity|]. split; [repeat split|]. split; prjall; [now rewrite E|reflexivity].
Qed.

(* after _add_section at a positive clock the section list has two entries, unless the
   clock equals the time of a lone first section (which is at time 0: impossible) *)
Lemma two_sections : forall s s1 new, NF s -> 0 < cur s -> add_section s (cur s) = (s1, new) ->
  (exists a b r, sects s1 = a :: b :: r) /\
  (forall t i, sects s1 = [(t, i)] -> t == 0).
Proof.
  intros s s1 new N P AS. destruct (pos_facts _ P) as [P1 [P2 P3]].
  destruct (add_section_cases _ _ _ _ AS) as [_ C].
  destruct (sects s) as [|[t0 i0] r0] eqn:E.
  - rewrite P1, P3 in C. destruct C as [C _]. rewrite C. split; [eauto|discriminate].
  - destruct (qeqb t0 (cur s)) eqn:Q; destruct C as [C _]; rewrite C.
    + destruct r0 as [|b r1].
      * apply qeqb_iff in Q. pose proof (nf_single _ N t0 i0 E). lra.
      * split; [eauto|discriminate].
    + split; [eauto|discriminate].
Qed.

Lemma single_after_add_section : forall s s1 new, NF s -> add_section s (cur s) = (s1, new) ->
  forall t i, sects s1 = [(t, i)] -> t == 0.
Proof.
  intros s s1 new N AS t i E.
  destruct (add_section_cases _ _ _ _ AS) as [_ C].
  destruct (sects s) as [|[t0 i0] r0] eqn:SS.
  - destruct (qltb 0 (cur s)) eqn:LT.
    + destruct (qeqb 0 (cur s)); destruct C as [C _]; rewrite C in E; [injection E as <- _; reflexivity|discriminate].
    + destruct C as [C _]. rewrite C in E. injection E as <- _.
      pose proof (nf_cur _ N). destruct (Qlt_le_dec 0 (cur s)) as [L|L]; [apply qltb_iff in L; congruence|lra].
  - destruct (qeqb t0 (cur s)); destruct C as [C _]; rewrite C in E.
    + injection E as E1 E2 E3. subst. now apply (nf_single _ N _ _ SS).
    + discriminate.
Qed.

Lemma good_repeat_common : forall s back fwd, NF s ->
  (forall e, fwd = Some e -> (0 < e)%Z) -> (back = None -> fwd <> None) ->
  Good (repeat_common s back fwd) (fun s' => NF s' /\ in_header s' = in_header s).
Proof.
  intros s back fwd N HF HB. unfold repeat_common.
  destruct (match expected s with Some e => _ | None => false end); [reflexivity|].
  destruct (add_section s (cur s)) as [s1 new] eqn:AS.
  pose proof (add_section_frame2 _ _ _ _ AS) as F1.
  pose proof (single_after_add_section _ _ _ N AS) as SG.
  assert (FIN : forall s2, frame_sec s s2 -> sects s2 = sects s1 ->
                 (notes s = [] -> back = None) ->
                 NF (set_expected s2 fwd) /\ in_header (set_expected s2 fwd) = in_header s).
  { intros s2 F2 E2 NB. split; [|prjall; now destruct F2 as [_ [X _]]].
    apply (NF_sec_update s); try assumption.
    - prjall. rewrite E2. assumption.
    - intros X. right. prjall. apply HB. now apply NB. }
  destruct back as [b|].
  - destruct (qzero (cur s)) eqn:Z; [reflexivity|].
    assert (P : 0 < cur s).
    { pose proof (nf_cur _ N). destruct (Qlt_le_dec 0 (cur s)) as [L|L]; [assumption|].
      assert (cur s == 0) by lra. apply qzero_iff in H0. congruence. }
    destruct (two_sections _ _ _ N P AS) as [T2 _].
    destruct (add_group_prev_ok s1 b T2) as [s2 [G [F2 [E2 X2]]]]. rewrite G. cbn [bind Good].
    apply FIN; [eapply frame_sec_trans; eassumption|assumption|].
    intros NE. destruct (nf_empty _ N NE) as [Z0 _]. lra.
  - destruct new as [nid|].
    + destruct (qltb 0 (cur s)) eqn:LT.
      * apply qltb_iff in LT. destruct (two_sections _ _ _ N LT AS) as [T2 _].
        destruct (add_group_prev_ok s1 1%Z T2) as [s2 [G [F2 [E2 X2]]]]. rewrite G. cbn [bind Good].
        apply FIN; [eapply frame_sec_trans; eassumption|assumption|reflexivity].
      * cbn [bind Good]. apply FIN; [assumption|reflexivity|reflexivity].
    + cbn [bind Good]. apply FIN; [assumption|reflexivity|reflexivity].
Qed.

Lemma NF_set_bacc : forall s b, NF s -> NF (set_bacc s b).
Proof. intros s b N. destruct N. constructor; prjall; assumption. Qed.

Lemma good_step_bar : forall s lc bl rc, NF s ->
  Good (step_bar s lc bl rc) (fun s' => NF s' /\ in_header s' = in_header s).
Proof.
  intros s lc bl rc N. unfold step_bar. pose proof (NF_set_bacc s [] N) as N'.
  destruct ((0 <? lc)%Z || (0 <? rc)%Z) eqn:R.
  - apply (good_repeat_common (set_bacc s []) _ _ N').
    + intros e E. destruct (0 <? rc)%Z eqn:RC; [|discriminate]. injection E as <-. apply Z.ltb_lt in RC. lia.
    + intros X. destruct (0 <? lc)%Z; [discriminate|]. cbn [orb] in R. rewrite R. discriminate.
  - destruct (2 <=? bl)%Z; [|cbn [Good]; split; [assumption|reflexivity]].
    prjall. destruct (expected s) eqn:EX; [cbn [Good]; split; [assumption|reflexivity]|].
    destruct (qltb 0 (cur s)) eqn:LT; [|cbn [Good]; split; [assumption|reflexivity]].
    apply qltb_iff in LT.
    destruct (add_section (set_bacc s []) (cur s)) as [s1 new] eqn:AS.
    pose proof (add_section_frame2 _ _ _ _ AS) as F1.
    destruct (add_section_cases _ _ _ _ AS) as [[_ [_ [_ X4]]] _].
    destruct (two_sections (set_bacc s []) _ _ N' LT AS) as [T2 SG].
    assert (FIN : forall s2, frame_sec (set_bacc s []) s2 -> sects s2 = sects s1 -> expected s2 = expected s1 ->
                  NF s2 /\ in_header s2 = in_header s).
    { intros s2 F2 E2 X2. split; [|now destruct F2 as [_ [X _]]].
      apply (NF_sec_update (set_bacc s [])); try assumption.
      - rewrite X2, X4. prjall. rewrite EX. discriminate.
      - rewrite E2. assumption.
      - prjall. intros NE. destruct (nf_empty _ N NE) as [Z0 _]. lra. }
    destruct new as [nid|].
    + destruct (add_group_prev_ok s1 1%Z T2) as [s2 [G [F2 [E2 X2]]]]. rewrite G. cbn [Good].
      apply FIN; [eapply frame_sec_trans; eassumption|assumption|assumption].
    + cbn [Good]. apply FIN; [assumption|reflexivity|reflexivity].
Qed.

Lemma good_step_colons : forall s n, NF s -> (0 < n)%Z ->
  Good (step_colons s n) (fun s' => NF s' /\ in_header s' = in_header s).
Proof.
  intros s n N P. unfold step_colons. destruct (negb (n mod 2 =? 0)%Z); [reflexivity|].
  apply (good_repeat_common (set_bacc s []) _ _ (NF_set_bacc s [] N)).
  - intros e E. injection E as <-. assert (0 <= n / 2)%Z by (apply Z.div_pos; lia). lia.
  - discriminate.
Qed.

(** ** Items, lines, tunes *)
Lemma good_step_token : forall s t, NF s -> in_header s = false -> token_ok t = true ->
  Good (step_token s t) (fun s' => NF s' /\ in_header s' = false).
Proof.
  intros s t N IH OK. destruct t as [a l octs len|lc bl rc|n|gt k|f| |u]; cbn [step_token token_ok] in *.
  - apply andb_prop in OK. destruct OK as [O1 O2].
    apply good_step_note; try assumption. destruct (assoc_z l ABC_NOTE_TO_MIDI); [discriminate|discriminate].
  - pose proof (good_step_bar s lc bl rc N) as G. destruct (step_bar s lc bl rc); cbn [Good] in *; [|assumption].
    destruct G; split; congruence.
  - apply Z.ltb_lt in OK. pose proof (good_step_colons s n N OK) as G.
    destruct (step_colons s n); cbn [Good] in *; [|assumption]. destruct G; split; congruence.
  - destruct (broken s); [reflexivity|]. cbn [Good]. split; [|prjall; assumption].
    destruct N. constructor; prjall; assumption.
  - pose proof (good_parse_field s f N OK) as G. destruct (parse_field s f); cbn [Good] in *; [|assumption].
    destruct G; split; congruence.
  - cbn [Good]. split; assumption.
  - destruct u; reflexivity.
Qed.

Lemma good_tokens : forall ts s, NF s -> in_header s = false -> forallb token_ok ts = true ->
  Good (run_items s (map ITok ts)) (fun s' => NF s' /\ in_header s' = false).
Proof.
  induction ts as [|t r IH]; intros s N H OK; cbn [map run_items].
  - cbn [Good]. split; assumption.
  - cbn [forallb] in OK. apply andb_prop in OK. destruct OK as [O1 O2].
    cbn [step_item]. pose proof (good_step_token s t N H O1) as G.
    destruct (step_token s t) as [s1|e]; cbn [bind Good] in *; [|assumption].
    destruct G as [N1 H1]. now apply IH.
Qed.

Lemma good_line : forall l s, NF s -> line_ok l = true ->
  Good (run_items s (flatten_line l)) NF.
Proof.
  intros l s N OK. destruct l as [f|ts]; cbn [flatten_line line_ok] in *.
  - cbn [run_items step_item]. pose proof (good_parse_field s f N OK) as G.
    destruct (parse_field s f); cbn [bind Good run_items] in *; [tauto|assumption].
  - destruct ts as [|t r]; [exact N|].
    change (ILine :: map ITok (t :: r)) with ([ILine] ++ map ITok (t :: r)).
    cbn [app run_items step_item].
    assert (G1 : Good (if in_header s then do s' <- set_values_from_header s; Ok (set_in_header s' false) else Ok s)
                      (fun s1 => NF s1 /\ in_header s1 = false)).
    { destruct (in_header s) eqn:IH.
      - pose proof (good_set_values s N) as G. destruct (set_values_from_header s) as [s'|e]; cbn [bind Good] in *; [|assumption].
        destruct G as [N' [U' _]]. split; [|reflexivity].
        destruct N'. constructor; prjall; try assumption. intros _. assumption.
      - cbn [Good]. split; assumption. }
    match type of G1 with Good ?r _ => destruct r as [s1|e] end; cbn [bind Good] in *; [|assumption].
    destruct G1 as [N1 H1].
    assert (N2 : NF (set_broken s1 None)) by (destruct N1; constructor; prjall; assumption).
    pose proof (good_tokens (t :: r) (set_broken s1 None) N2 H1 OK) as G.
    match type of G with Good ?x _ => destruct x end; cbn [Good] in *; tauto.
Qed.

Lemma good_lines : forall ls s, NF s -> forallb line_ok ls = true ->
  Good (run_items s (flatten ls)) NF.
Proof.
  induction ls as [|l r IH]; intros s N OK; cbn [flatten flat_map].
  - exact N.
  - cbn [forallb] in OK. apply andb_prop in OK. destruct OK as [O1 O2].
    rewrite run_items_app. pose proof (good_line l s N O1) as G.
    destruct (run_items s (flatten_line l)) as [s1|e]; cbn [Good] in *; [|assumption].
    now apply IH.
Qed.

Lemma good_finalize : forall s, NF s ->
  match finalize s with Ok _ => True | Err e => foreign e = false end.
Proof.
  intros s N. unfold finalize.
  destruct (truthy_z (expected s)) eqn:T; [reflexivity|].
  assert (EX : expected s = None).
  { destruct (expected s) as [e|] eqn:E; [|reflexivity]. pose proof (nf_exp _ N e E).
    unfold truthy_z in T. apply negb_false_iff in T. apply Z.eqb_eq in T. lia. }
  destruct (sects s) as [|[t i] rest] eqn:SS; cbn [bind].
  - rewrite SS. exact I.
  - destruct (notes s) as [|n ns] eqn:NN.
    + destruct (nf_empty _ N NN) as [_ [X|X]]; congruence.
    + destruct (qeqb t (n_end n)); cbn [bind].
      * destruct (sects (set_sects s rest)) as [|[t1 i1] r1]; [exact I|].
        destruct (groups (set_sects s rest)) as [|[g c] gr]; [exact I|]. destruct (negb _); exact I.
      * rewrite SS. destruct (groups s) as [|[g c] gr]; [exact I|]. destruct (negb _); exact I.
Qed.

(** ** The theorem *)
Lemma supported_no_foreign : forall ls, supported_tune ls = true ->
  match parse_tune ls with Ok _ => True | Err e => foreign e = false end.
Proof.
  intros ls OK. unfold parse_tune, parse_items.
  pose proof (good_lines ls st0 st0_NF OK) as G.
  destruct (run_items st0 (flatten ls)) as [s1|e]; cbn [bind Good] in *; [|assumption].
  assert (G2 : Good (if in_header s1 then set_values_from_header s1 else Ok s1) NF).
  { destruct (in_header s1).
    - pose proof (good_set_values s1 G) as X. destruct (set_values_from_header s1); cbn [Good] in *; tauto.
    - exact G. }
  match type of G2 with Good ?x _ => destruct x as [s2|e] end; cbn [bind Good] in *; [|assumption].
  pose proof (good_finalize s2 G2) as F. destruct (finalize s2); cbn [bind]; [exact I|assumption].
Qed.

Lemma supported_app : forall a b, supported_tune (a ++ b) = supported_tune a && supported_tune b.
Proof. intros. unfold supported_tune. apply forallb_app. Qed.

(* a tunebook whose file header and tunes are all in the grammar never loses a tune to
   a foreign exception: the hypothesis of the isolation theorems holds *)
Lemma supported_book_no_foreign : forall h ts,
  supported_tune h = true -> forallb supported_tune ts = true -> no_foreign_in h ts.
Proof.
  intros h ts H T t e I P. rewrite forallb_forall in T. specialize (T _ I).
  pose proof (supported_no_foreign (h ++ t)) as S. rewrite supported_app, H, T in S.
  specialize (S eq_refl). rewrite P in S. exact S.
Qed.
