(** Proofs/Audio.v — C20: the list-level specifications of crop, repeat and
    stereo (the PCM enumeration is in Proofs/AudioPcm.v).  The binary64 length arithmetic is in
    Proofs/AudioFloat.v. *)
From Coq Require Import ZArith List Bool Lia ZifyBool PrimFloat FloatOps SpecFloat.
From NS Require Import Base.FloatBridge Model.Audio.
Import ListNotations.
Local Open Scope Z_scope.
Ltac Zify.zify_post_hook ::= Z.to_euclidean_division_equations.

(** * Indexing by Z *)
Definition znth {A : Type} (l : list A) (i : Z) : option A :=
  if i <? 0 then None else nth_error l (Z.to_nat i).
Definition zlen {A : Type} (l : list A) : Z := Z.of_nat (length l).

Lemma nth_error_skipn {A} (l : list A) : forall n i, nth_error (skipn n l) i = nth_error l (n + i).
Proof.
  induction l as [|a l IH]; intros n i.
  - rewrite skipn_nil. destruct i, n; reflexivity.
  - destruct n; [reflexivity|]. cbn. apply IH.
Qed.

Lemma nth_error_firstn {A} (l : list A) : forall n i,
  nth_error (firstn n l) i = if (i <? n)%nat then nth_error l i else None.
Proof.
  induction l as [|a l IH]; intros n i.
  - rewrite firstn_nil. destruct i; destruct (_ <? _)%nat; reflexivity.
  - destruct n; [destruct i; reflexivity|]. destruct i; [reflexivity|].
    cbn [firstn nth_error]. rewrite IH. reflexivity.
Qed.

(** * Python slicing with non-negative bounds *)
Lemma py_slice_nonneg {A} (l : list A) a n : 0 <= a -> 0 <= n ->
  py_slice l a (a + n) = firstn (Z.to_nat n) (skipn (Z.to_nat a) l).
Proof.
  intros Ha Hn. unfold py_slice, slice_norm.
  set (len := Z.of_nat (length l)).
  destruct (a <? 0) eqn:E1; [lia|]. destruct (a + n <? 0) eqn:E2; [lia|].
  destruct (Z_le_gt_dec len a) as [H|H].
  - (* starts at or past the end: both sides empty *)
    rewrite (skipn_all2 (n := Z.to_nat (Z.min a len))) by (unfold len in *; lia).
    rewrite (skipn_all2 (n := Z.to_nat a)) by (unfold len in *; lia).
    rewrite !firstn_nil. reflexivity.
  - replace (Z.min a len) with a by lia.
    destruct (Z_le_gt_dec (a + n) len) as [H2|H2].
    + replace (Z.min (a + n) len - a) with n by lia. reflexivity.
    + replace (Z.min (a + n) len - a) with (len - a) by lia.
      rewrite !firstn_all2; [reflexivity | |]; rewrite skipn_length; unfold len in *; lia.
Qed.

Lemma slice_znth {A} (l : list A) a n i : 0 <= a -> 0 <= n -> 0 <= i ->
  znth (py_slice l a (a + n)) i = if i <? n then znth l (a + i) else None.
Proof.
  intros Ha Hn Hi. rewrite py_slice_nonneg by assumption. unfold znth.
  destruct (i <? 0) eqn:E0; [lia|]. destruct (a + i <? 0) eqn:E1; [lia|].
  rewrite nth_error_firstn, nth_error_skipn.
  destruct (i <? n) eqn:E2.
  - destruct (Nat.ltb_spec (Z.to_nat i) (Z.to_nat n)); [|lia].
    f_equal. lia.
  - destruct (Nat.ltb_spec (Z.to_nat i) (Z.to_nat n)); [lia|reflexivity].
Qed.

Lemma slice_len {A} (l : list A) a n : 0 <= a -> 0 <= n ->
  zlen (py_slice l a (a + n)) = Z.max 0 (Z.min (a + n) (zlen l) - a).
Proof.
  intros Ha Hn. rewrite py_slice_nonneg by assumption. unfold zlen.
  rewrite firstn_length, skipn_length. lia.
Qed.

(** * crop_samples *)
Lemma crop_bounds_inv rate b t a n : crop_bounds rate b t = Ok (a, n) ->
  finb (b * f_of_Z rate)%float = true /\ finb (t * f_of_Z rate)%float = true /\
  a = trunc (b * f_of_Z rate)%float /\ n = trunc (t * f_of_Z rate)%float.
Proof.
  unfold crop_bounds, py_int.
  destruct (finb (b * f_of_Z rate)%float); [|discriminate].
  destruct (finb (t * f_of_Z rate)%float); [|discriminate].
  intros H. inversion H. auto.
Qed.

Lemma crop_bounds_ok rate b t :
  finb (b * f_of_Z rate)%float = true -> finb (t * f_of_Z rate)%float = true ->
  crop_bounds rate b t = Ok (trunc (b * f_of_Z rate)%float, trunc (t * f_of_Z rate)%float).
Proof. intros H1 H2. unfold crop_bounds, py_int. rewrite H1, H2. reflexivity. Qed.

(** The result is exactly the samples with index in [a, a+n) /\ [0, len), in
    order, where a = int(fl(begin*rate)) and n = int(fl(length*rate)). *)
Theorem crop_spec {A} (x : list A) rate b t a n :
  crop_bounds rate b t = Ok (a, n) -> 0 <= a -> 0 <= n ->
  exists out, crop x rate b t = Ok out /\
    zlen out = Z.max 0 (Z.min (a + n) (zlen x) - a) /\
    forall i, 0 <= i -> znth out i = if i <? n then znth x (a + i) else None.
Proof.
  intros Hb Ha Hn. unfold crop. rewrite Hb. eexists. split; [reflexivity|]. split.
  - apply slice_len; assumption.
  - intros i Hi. apply slice_znth; assumption.
Qed.

(** crop fails only with OverflowError, exactly when a product is infinite. *)
Theorem crop_error {A} (x : list A) rate b t c : crop x rate b t = Err c ->
  c = E_OVERFLOW /\ (finb (b * f_of_Z rate)%float = false \/ finb (t * f_of_Z rate)%float = false).
Proof.
  unfold crop, crop_bounds, py_int.
  destruct (finb (b * f_of_Z rate)%float); [|intros H; inversion H; auto].
  destruct (finb (t * f_of_Z rate)%float); [discriminate|intros H; inversion H; auto].
Qed.

(** Python's wrap-around for a negative offset is what the code does; the
    property's reading (indices that exist in [a, a+n)) is false there. *)
Lemma crop_negative_begin_wraps :
  exists (x : list Z) rate b t a n, crop_bounds rate b t = Ok (a, n) /\ a < 0 /\ 0 < a + n /\
    crop x rate b t = Ok [] /\ znth x 0 <> None.
Proof.
  exists [10; 11; 12; 13; 14; 15; 16; 17], 8000, (f_of_me (-1) (-12)), (f_of_me 3 (-12)), (-1), 5.
  vm_compute. repeat split; try reflexivity; discriminate.
Qed.

(** * tile *)
Lemma tile_S {A} (x : list A) k : 0 <= k -> tile x (k + 1) = x ++ tile x k.
Proof.
  intros Hk. unfold tile. replace (Z.to_nat (k + 1)) with (S (Z.to_nat k)) by lia. reflexivity.
Qed.

Lemma tile_len {A} (x : list A) k : 0 <= k -> zlen (tile x k) = k * zlen x.
Proof.
  intros Hk. unfold tile, zlen. rewrite <- (Z2Nat.id k) at 2 by assumption.
  induction (Z.to_nat k) as [|m IH]; [reflexivity|].
  cbn [List.repeat concat]. rewrite app_length. lia.
Qed.

Lemma tile_znth {A} (x : list A) k i : 0 <= k -> 0 <= i < k * zlen x ->
  znth (tile x k) i = znth x (i mod zlen x).
Proof.
  intros Hk. revert i. pattern k. apply natlike_ind; [| |exact Hk].
  - intros i Hi. lia.
  - intros m Hm IH i Hi. unfold Z.succ. rewrite tile_S by assumption.
    assert (Hl : 0 < zlen x) by (unfold zlen in *; nia).
    unfold znth. destruct (i <? 0) eqn:E0; [lia|].
    destruct (i mod zlen x <? 0) eqn:E1; [lia|].
    destruct (Z_lt_ge_dec i (zlen x)) as [H|H].
    + rewrite nth_error_app1 by (unfold zlen in *; lia).
      rewrite Z.mod_small by lia. reflexivity.
    + rewrite nth_error_app2 by (unfold zlen in *; lia).
      specialize (IH (i - zlen x) ltac:(nia)). unfold znth in IH.
      destruct (i - zlen x <? 0) eqn:E2; [lia|].
      destruct ((i - zlen x) mod zlen x <? 0) eqn:E3; [lia|].
      replace (Z.to_nat i - length x)%nat with (Z.to_nat (i - zlen x)) by (unfold zlen; lia).
      rewrite IH. f_equal.
      replace i with ((i - zlen x) + 1 * zlen x) at 2 by lia. rewrite Z.mod_add by lia. reflexivity.
Qed.

(** * repeat_samples_to_duration, given the length arithmetic *)
(** [k] copies are concatenated and [n = int(fl(duration*rate))] samples are
    requested; IF the copies cover the request ([n <= k*len], proved for float
    arithmetic in Proofs/AudioFloat.v) the result has exactly [n] samples and
    sample [i] is [x[i mod len]]. *)
Theorem repeat_spec_given_lengths {A} (x : list A) rate d k n :
  0 < zlen x ->
  num_repeats (zlen x) rate d = Ok k ->
  crop_bounds rate 0%float d = Ok (0, n) ->
  0 <= n <= k * zlen x ->
  exists out, repeat_to_duration x rate d = Ok out /\
    zlen out = n /\ forall i, 0 <= i < n -> znth out i = znth x (i mod zlen x).
Proof.
  intros Hl Hk Hb Hn. unfold repeat_to_duration. fold (zlen x). rewrite Hk.
  destruct (k =? 0) eqn:E0.
  - exists []. split; [reflexivity|]. split; [unfold zlen; cbn; lia | intros i Hi; lia].
  - destruct (k <? 0) eqn:E1; [nia|].
    destruct (crop_spec (tile x k) rate 0%float d 0 n Hb ltac:(lia) ltac:(lia)) as (out & Ho & Hlen & Hnth).
    exists out. split; [exact Ho|]. split.
    + rewrite Hlen, tile_len by lia. lia.
    + intros i Hi. rewrite Hnth by lia. destruct (i <? n) eqn:E2; [|lia].
      cbn [Z.add]. apply tile_znth; lia.
Qed.

(** Which inputs are rejected, and how. *)
Theorem repeat_error {A} (x : list A) rate d c : repeat_to_duration x rate d = Err c ->
  (c = E_ZERODIV /\ (rate = 0 \/ PrimFloat.eqb (seq_duration (zlen x) rate) 0%float = true)) \/
  (c = E_OVERFLOW /\ (finb (d / seq_duration (zlen x) rate)%float = false \/
                      finb (0 * f_of_Z rate)%float = false \/
                      finb (d * f_of_Z rate)%float = false)) \/
  (c = E_CONCAT_EMPTY /\ exists k, num_repeats (zlen x) rate d = Ok k /\ k < 0).
Proof.
  unfold repeat_to_duration. fold (zlen x).
  destruct (num_repeats (zlen x) rate d) as [k|c'] eqn:Hk.
  - destruct (k =? 0) eqn:E0; [discriminate|].
    destruct (k <? 0) eqn:E1.
    + intros H. inversion H. right. right. split; [reflexivity|]. exists k. split; [reflexivity|lia].
    + intros H. apply crop_error in H. destruct H as [-> [H|H]]; right; left; auto.
  - intros H. inversion H. subst c'. clear H. revert Hk. unfold num_repeats.
    destruct (rate =? 0) eqn:Er.
    + intros H. inversion H. left. split; [reflexivity|left; lia].
    + destruct (PrimFloat.eqb (seq_duration (zlen x) rate) 0%float) eqn:Es.
      * intros H. inversion H. left. auto.
      * destruct (finb (d / seq_duration (zlen x) rate)%float) eqn:Ef; [discriminate|].
        intros H. inversion H. right. left. auto.
Qed.

(** The unrepaired code (no C20-fix-1) rejects duration 0 although
    int(0*rate) = 0 samples are requested. *)
Lemma repeat_zero_unfixed_refuted :
  exists (x : list Z) rate d, x <> [] /\ crop_bounds rate 0%float d = Ok (0, 0) /\
    repeat_to_duration_unfixed x rate d = Err E_CONCAT_EMPTY /\
    repeat_to_duration x rate d = Ok [].
Proof. exists [1; 2; 3], 16000, 0%float. vm_compute. repeat split; congruence. Qed.

(** * make_stereo *)
Lemma pad_len m l : (length l <= m)%nat -> length (pad_to m l) = m.
Proof. intros H. unfold pad_to. rewrite app_length, repeat_length. lia. Qed.

Lemma pad_nth m l i : (i < m)%nat -> (length l <= m)%nat ->
  nth_error (pad_to m l) i = Some (nth i l 0).
Proof.
  intros Hi Hl. unfold pad_to. destruct (Nat.lt_ge_cases i (length l)) as [H|H].
  - rewrite nth_error_app1 by assumption. apply nth_error_nth'. assumption.
  - rewrite nth_error_app2 by assumption. rewrite nth_overflow by assumption.
    apply nth_error_repeat. lia.
Qed.

Lemma nth_error_combine {A B} (l : list A) : forall (r : list B) i,
  nth_error (combine l r) i =
  match nth_error l i, nth_error r i with Some a, Some b => Some (a, b) | _, _ => None end.
Proof.
  induction l as [|a l IH]; intros r i.
  - destruct i; reflexivity.
  - destruct r as [|b r].
    + destruct i; cbn; [reflexivity|]. destruct (nth_error l i); reflexivity.
    + destruct i; [reflexivity|]. cbn. apply IH.
Qed.

(** Same dtype: the result has max(len l, len r) rows; row i is
    (l[i] or 0, r[i] or 0): both channels in order, the shorter padded with zeros. *)
Theorem stereo_spec d l r :
  exists out, make_stereo d d l r = Ok out /\
    length out = Nat.max (length l) (length r) /\
    forall i, (i < Nat.max (length l) (length r))%nat ->
      nth_error out i = Some (nth i l 0, nth i r 0).
Proof.
  unfold make_stereo. rewrite Z.eqb_refl. eexists. split; [reflexivity|]. split.
  - rewrite combine_length, !pad_len by lia. lia.
  - intros i Hi. rewrite nth_error_combine, !pad_nth by lia. reflexivity.
Qed.

(** [nth i l 0] is the sample when it exists and 0 only as padding *)
Lemma stereo_pad_is_padding (l : list Z) i : (length l <= i)%nat -> nth i l 0 = 0.
Proof. apply nth_overflow. Qed.
Lemma stereo_sample_kept (l : list Z) i v : nth_error l i = Some v -> nth i l 0 = v.
Proof. intros H. apply nth_error_nth. exact H. Qed.

Theorem stereo_dtype_mismatch dl dr l r : dl <> dr -> make_stereo dl dr l r = Err E_DTYPE.
Proof. intros H. unfold make_stereo. destruct (dl =? dr) eqn:E; [lia|reflexivity]. Qed.
