(** Proofs/FqChords.v — chords_steps: ChordProgression.from_quantized_sequence against the
    "chord in force" specification, and the exact conditions of its two error exits. *)
From Coq Require Import ZArith List Bool Lia ZifyBool Permutation Sorted.
From NS Require Import Base.NoteSeq Gen.G07 Model.FqCommon Model.FqChords Model.FqSpec Proofs.FqCommon.
Import ListNotations.
Local Open Scope Z_scope.

Lemma zs_eqb_eq a b : zs_eqb a b = true <-> a = b.
Proof.
  revert b; induction a as [|x a IH]; intros [|y b]; cbn [zs_eqb]; try (split; [discriminate|congruence]).
  - tauto.
  - rewrite andb_true_iff, IH, Z.eqb_eq. split; [intros []; congruence|intros H; injection H; auto].
Qed.

Lemma ch_le_total a b : ch_le a b = true \/ ch_le b a = true.
Proof. unfold ch_le. lia. Qed.
Lemma ch_le_trans a b c : ch_le a b = true -> ch_le b c = true -> ch_le a c = true.
Proof. unfold ch_le. lia. Qed.

Definition lstep (P : list text) : option Z := fold_left (fun _ c => Some (tx_qstep c)) P None.
Definition ltext (P : list text) : list Z := fold_left (fun _ c => tx_text c) P NO_CHORD.

Lemma lstep_snoc P c : lstep (P ++ [c]) = Some (tx_qstep c).
Proof. unfold lstep. now rewrite fold_left_app. Qed.
Lemma ltext_snoc P c : ltext (P ++ [c]) = tx_text c.
Proof. unfold ltext. now rewrite fold_left_app. Qed.
Lemma F_snoc P c s : ch_in_force (P ++ [c]) s = if tx_qstep c <=? s then tx_text c else ch_in_force P s.
Proof. unfold ch_in_force. now rewrite fold_left_app. Qed.

Lemma F_all_le P s : (forall c, In c P -> tx_qstep c <= s) -> ch_in_force P s = ltext P.
Proof.
  induction P as [|c P IH] using rev_ind; intros H; [reflexivity|].
  rewrite F_snoc, ltext_snoc.
  replace (tx_qstep c <=? s) with true; [reflexivity|].
  symmetry. apply Z.leb_le. apply H, in_or_app. right. now left.
Qed.

Lemma F_app_gt P R s : (forall c, In c R -> s < tx_qstep c) -> ch_in_force (P ++ R) s = ch_in_force P s.
Proof.
  induction R as [|c R IH] using rev_ind; intros H; [now rewrite app_nil_r|].
  rewrite app_assoc, F_snoc.
  replace (tx_qstep c <=? s) with false.
  - apply IH. intros c' Hc'. apply H, in_or_app. now left.
  - symmetry. apply Z.leb_gt. apply H, in_or_app. right. now left.
Qed.

Lemma ch_add_append fig ei evs :
  len evs < ei -> ch_add fig (len evs) ei evs = Ok (evs ++ zrepeat fig (ei - len evs)).
Proof.
  intros H. unfold ch_add. replace (ei <=? len evs) with false by lia.
  f_equal. f_equal. unfold set_length. replace (len evs <? ei) with true by lia.
  unfold zfirstn, len. rewrite Nat2Z.id. rewrite firstn_app, Nat.sub_diag, firstn_all. cbn [firstn].
  now rewrite app_nil_r.
Qed.

Definition Inv (a : Z) (P : list text) (prev : option Z) (fig : list Z) (evs : list (list Z)) : Prop :=
  prev = lstep P /\ fig = ltext P /\
  (forall c ps, In c P -> prev = Some ps -> tx_qstep c <= ps) /\
  len evs = (match prev with None => 0 | Some ps => Z.max 0 (ps - a) end) /\
  (forall i, 0 <= i < len evs -> znth NO_CHORD i evs = ch_in_force P (a + i)) /\
  (forall c ps, In c P -> prev = Some ps -> tx_qstep c = ps -> a <= ps -> tx_text c = fig) /\
  (forall c1 c2, In c1 P -> In c2 P -> tx_qstep c1 = tx_qstep c2 -> a <= tx_qstep c1 ->
                 tx_text c1 = tx_text c2).

Lemma Inv_nil a : Inv a [] None NO_CHORD [].
Proof.
  unfold Inv. split; [reflexivity|]. split; [reflexivity|]. split; [intros c ps []|].
  split; [reflexivity|]. split; [intros i Hi; unfold len in Hi; cbn in Hi; lia|].
  split; [intros c ps []|intros c1 c2 []].
Qed.

Lemma start_index_len a prev (evs : list (list Z)) :
  len evs = (match prev with None => 0 | Some ps => Z.max 0 (ps - a) end) ->
  ch_start_index prev a = len evs.
Proof. intros ->. unfold ch_start_index. destruct prev; lia. Qed.

(** the loop preserves the invariant; [P] = chords already processed, [R] = still to come *)
Lemma ch_loop_inv a b : forall R P prev fig evs,
  StronglySorted (fun x y => ch_le x y = true) (P ++ R) ->
  (forall c, In c P -> tx_qstep c < b) ->
  Inv a P prev fig evs ->
  match ch_loop a b R prev fig evs with
  | Ok (prev', fig', evs') =>
      exists P' R', P ++ R = P' ++ R' /\ (forall c, In c P' -> tx_qstep c < b) /\
                    (forall c, In c R' -> b <= tx_qstep c) /\ Inv a P' prev' fig' evs'
  | Err code => code = E_COINCIDENT /\ ch_clash (P ++ R) a b
  end.
Proof.
  induction R as [|c R IH]; intros P prev fig evs Hsorted HP HInv; cbn [ch_loop].
  - exists P, []. split; [reflexivity|]. split; [exact HP|]. split; [intros c []|exact HInv].
  - destruct (StronglySorted_app_inv _ _ _ Hsorted) as (_ & HsR & Hcross).
    set (q := tx_qstep c).
    assert (Hq : forall x, In x P -> tx_qstep x <= q).
    { intros x Hx. specialize (Hcross x c Hx (or_introl eq_refl)). unfold ch_le in Hcross. unfold q. lia. }
    destruct (b <=? q) eqn:Eb.
    { exists P, (c :: R). split; [reflexivity|]. split; [exact HP|]. split; [|exact HInv].
      intros x [<-|Hx]; [fold q; lia|].
      inversion HsR as [|? ? _ Hf]; subst. rewrite Forall_forall in Hf. specialize (Hf x Hx).
      unfold ch_le in Hf. fold q in Hf. lia. }
    assert (HP' : forall x, In x (P ++ [c]) -> tx_qstep x < b).
    { intros x Hx. apply in_app_or in Hx. destruct Hx as [Hx|[<-|[]]]; [now apply HP|fold q; lia]. }
    assert (Hsorted' : StronglySorted (fun x y => ch_le x y = true) ((P ++ [c]) ++ R))
      by (rewrite <- app_assoc; exact Hsorted).
    assert (Happ : (P ++ [c]) ++ R = P ++ c :: R) by (now rewrite <- app_assoc).
    destruct HInv as (I1 & I2 & I3 & I4 & I5 & I6 & I7).
    (* facts about the previous step *)
    assert (Hps : forall ps, prev = Some ps -> ps <= q).
    { intros ps Hprev. subst prev. destruct P as [|x P'] using rev_ind; [discriminate|].
      rewrite lstep_snoc in Hprev. injection Hprev as <-. apply Hq, in_or_app. right. now left. }
    destruct (q <? a) eqn:Ea.
    { (* before the range *)
      specialize (IH (P ++ [c]) (Some q) (tx_text c) evs Hsorted' HP').
      rewrite Happ in IH. apply IH. unfold Inv.
      rewrite lstep_snoc, ltext_snoc. repeat split; auto.
      - intros x ps Hx Hps'. injection Hps' as <-. apply in_app_or in Hx.
        destruct Hx as [Hx|[<-|[]]]; [now apply Hq|fold q; lia].
      - rewrite I4. destruct prev as [ps|]; [specialize (Hps ps eq_refl)|]; lia.
      - intros i Hi. rewrite F_snoc. fold q.
        assert (len evs = 0) by (rewrite I4; destruct prev as [ps|]; [specialize (Hps ps eq_refl)|]; lia). lia.
      - intros x ps Hx Hps' Hxq Ha. injection Hps' as <-. lia.
      - intros c1 c2 H1 H2 Heq Ha. apply in_app_or in H1. apply in_app_or in H2.
        destruct H1 as [H1|[<-|[]]], H2 as [H2|[<-|[]]]; try (fold q in *; lia); try reflexivity.
        + now apply I7.
        + specialize (Hq c1 H1). fold q in Heq. lia.
        + specialize (Hq c2 H2). fold q in Ha. lia. }
    destruct (match prev with Some ps => q =? ps | None => false end) eqn:Esame.
    { (* coincident with the previous chord *)
      destruct prev as [ps|]; [|discriminate]. assert (ps = q) by lia. subst ps.
      destruct (zs_eqb (tx_text c) fig) eqn:Eeq.
      - apply zs_eqb_eq in Eeq.
        specialize (IH (P ++ [c]) (Some q) fig evs Hsorted' HP').
        rewrite Happ in IH. apply IH. unfold Inv.
        rewrite lstep_snoc, ltext_snoc. repeat split; auto.
        + intros x ps Hx Hps'. injection Hps' as <-. apply in_app_or in Hx.
          destruct Hx as [Hx|[<-|[]]]; [now apply Hq|fold q; lia].
        + intros i Hi. rewrite F_snoc. fold q. rewrite I4 in Hi.
          replace (q <=? a + i) with false by lia. apply I5. rewrite I4. lia.
        + intros x ps Hx Hps' Hxq Ha. injection Hps' as <-. apply in_app_or in Hx.
          destruct Hx as [Hx|[<-|[]]]; [now apply (I6 x q)|exact Eeq].
        + intros c1 c2 H1 H2 Heq' Ha. apply in_app_or in H1. apply in_app_or in H2.
          destruct H1 as [H1|[<-|[]]], H2 as [H2|[<-|[]]]; try reflexivity.
          * now apply I7.
          * rewrite Eeq. apply (I6 c1 q); [exact H1|reflexivity|fold q in Heq'; lia|lia].
          * rewrite Eeq. symmetry. apply (I6 c2 q); [exact H2|reflexivity|fold q in Heq'; lia|lia].
      - split; [reflexivity|].
        (* the last processed chord has step q and figure fig *)
        destruct P as [|x P'] using rev_ind; [discriminate|]. clear IHP'.
        rewrite lstep_snoc in I1. injection I1 as I1. rewrite ltext_snoc in I2.
        exists c, x. repeat split.
        + apply in_or_app. right. now left.
        + apply in_or_app. left. apply in_or_app. right. now left.
        + fold q. lia.
        + fold q. lia.
        + fold q. lia.
        + intros Heq. rewrite Heq, <- I2 in Eeq.
          assert (zs_eqb fig fig = true) by now apply zs_eqb_eq. congruence. }
    assert (Hlt : forall ps, prev = Some ps -> ps < q).
    { intros ps Hprev. specialize (Hps ps Hprev). rewrite Hprev in Esame. lia. }
    assert (HInv' : forall evs',
      len evs' = Z.max 0 (q - a) ->
      (forall i, 0 <= i < len evs' -> znth NO_CHORD i evs' = ch_in_force P (a + i)) ->
      Inv a (P ++ [c]) (Some q) (tx_text c) evs').
    { intros evs' Hl Hn. unfold Inv. rewrite lstep_snoc, ltext_snoc. repeat split; auto.
      - intros x ps Hx Hps'. injection Hps' as <-. apply in_app_or in Hx.
        destruct Hx as [Hx|[<-|[]]]; [now apply Hq|fold q; lia].
      - intros i Hi. rewrite F_snoc. fold q. replace (q <=? a + i) with false by lia. now apply Hn.
      - intros x ps Hx Hps' Hxq Ha. injection Hps' as <-. apply in_app_or in Hx.
        destruct Hx as [Hx|[<-|[]]]; [|reflexivity].
        exfalso. destruct P as [|y P'] using rev_ind; [destruct Hx|]. clear IHP'.
        rewrite lstep_snoc in I1. specialize (Hlt _ I1).
        specialize (I3 x _ Hx I1). lia.
      - intros c1 c2 H1 H2 Heq' Ha. apply in_app_or in H1. apply in_app_or in H2.
        destruct H1 as [H1|[<-|[]]], H2 as [H2|[<-|[]]]; try reflexivity.
        + now apply I7.
        + exfalso. destruct P as [|y P'] using rev_ind; [destruct H1|]. clear IHP'.
          rewrite lstep_snoc in I1. specialize (Hlt _ I1). specialize (I3 c1 _ H1 I1). fold q in Heq'. lia.
        + exfalso. destruct P as [|y P'] using rev_ind; [destruct H2|]. clear IHP'.
          rewrite lstep_snoc in I1. specialize (Hlt _ I1). specialize (I3 c2 _ H2 I1). fold q in Heq'. lia. }
    destruct (a <? q) eqn:Eaq.
    + (* add the previous chord up to q *)
      rewrite (start_index_len a prev evs I4).
      assert (Hlen : len evs < q - a).
      { rewrite I4. destruct prev as [ps|]; [specialize (Hlt ps eq_refl)|]; lia. }
      rewrite ch_add_append by exact Hlen. cbn [bind].
      specialize (IH (P ++ [c]) (Some q) (tx_text c) (evs ++ zrepeat fig (q - a - len evs)) Hsorted' HP').
      rewrite Happ in IH. apply IH. apply HInv'.
      * rewrite len_app, len_zrepeat. lia.
      * intros i Hi. rewrite len_app, len_zrepeat in Hi.
        destruct (Z_lt_le_dec i (len evs)).
        -- rewrite znth_app_l by lia. apply I5. lia.
        -- rewrite znth_app_r by lia. rewrite znth_zrepeat by lia.
           rewrite I2. symmetry. apply F_all_le. intros x Hx.
           destruct prev as [ps|].
           ++ specialize (I3 x ps Hx eq_refl). rewrite I4 in *. lia.
           ++ destruct P as [|y P'] using rev_ind; [destruct Hx|]. rewrite lstep_snoc in I1. discriminate.
    + (* q = a: nothing to add yet *)
      specialize (IH (P ++ [c]) (Some q) (tx_text c) evs Hsorted' HP').
      rewrite Happ in IH. apply IH. apply HInv'.
      * rewrite I4. destruct prev as [ps|]; [specialize (Hlt ps eq_refl)|]; lia.
      * intros i Hi. apply I5. exact Hi.
Qed.

Lemma lstep_some P ps : lstep P = Some ps -> exists c, In c P /\ tx_qstep c = ps.
Proof.
  destruct P as [|c P'] using rev_ind; [discriminate|]. rewrite lstep_snoc. intros H. injection H as <-.
  exists c. split; [apply in_or_app; right; now left|reflexivity].
Qed.

Lemma lstep_none P : lstep P = None -> P = [].
Proof. destruct P as [|c P'] using rev_ind; [reflexivity|]. rewrite lstep_snoc. discriminate. Qed.

Lemma ch_sorted_sorted ts : StronglySorted (fun x y => ch_le x y = true) (ch_sorted ts).
Proof. apply isort_sorted; [apply ch_le_total|apply ch_le_trans]. Qed.

(** what the whole call does, in one statement *)
Lemma ch_from_quantized_cases s a b spb :
  steps_per_bar s = Ok spb ->
  let cs := ch_sorted (s_texts s) in
  match ch_from_quantized s a b with
  | Ok r =>
      a < b /\ ce_start r = a /\ ce_end r = b /\ ce_spb r = spb /\ ce_spq r = s_spq s /\
      len (ce_events r) = b - a /\
      (forall i, 0 <= i < b - a -> znth NO_CHORD i (ce_events r) = ch_in_force cs (a + i)) /\
      ~ ch_clash cs a b
  | Err code =>
      (code = E_COINCIDENT /\ ch_clash cs a b) \/ (code = E_BADCHORD /\ b <= a /\ ~ ch_clash cs a b)
  end.
Proof.
  intros Hspb cs. unfold ch_from_quantized. rewrite Hspb. cbn [bind]. fold cs.
  pose proof (ch_loop_inv a b cs [] None NO_CHORD [] (ch_sorted_sorted _) (fun c H => match H with end)
                          (Inv_nil a)) as Hloop.
  cbn [app] in Hloop.
  destruct (ch_loop a b cs None NO_CHORD []) as [[[prev fig] evs]|code]; cbn [bind].
  2:{ left. exact Hloop. }
  destruct Hloop as (P' & R' & Hsplit & HP' & HR' & HInv).
  destruct HInv as (I1 & I2 & I3 & I4 & I5 & I6 & I7).
  assert (Hnoclash : ~ ch_clash cs a b).
  { intros (c1 & c2 & H1 & H2 & Heq & Hrange & Hne). apply Hne.
    rewrite Hsplit in H1, H2. apply in_app_or in H1. apply in_app_or in H2.
    destruct H1 as [H1|H1]; [|specialize (HR' _ H1); lia].
    destruct H2 as [H2|H2]; [|specialize (HR' _ H2); lia].
    apply I7; auto. lia. }
  assert (Hprev : (match prev with None => true | Some ps => ps <? b end) = true).
  { destruct prev as [ps|]; [|reflexivity]. symmetry in I1. destruct (lstep_some _ _ I1) as (c & Hc & <-).
    specialize (HP' c Hc). lia. }
  rewrite Hprev. rewrite (start_index_len a prev evs I4).
  destruct (Z_lt_le_dec (len evs) (b - a)) as [Hlt|Hge].
  - rewrite ch_add_append by exact Hlt. cbn [bind ce_start ce_end ce_spb ce_spq ce_events].
    assert (Hab : a < b) by (pose proof (len_nonneg evs); lia).
    split; [exact Hab|]. do 4 (split; [reflexivity|]).
    split; [rewrite len_app, len_zrepeat; lia|]. split; [|exact Hnoclash].
    intros i Hi. rewrite Hsplit. rewrite F_app_gt by (intros c Hc; specialize (HR' c Hc); lia).
    destruct (Z_lt_le_dec i (len evs)).
    + rewrite znth_app_l by lia. apply I5. lia.
    + rewrite znth_app_r by lia. rewrite znth_zrepeat by lia. rewrite I2. symmetry. apply F_all_le.
      intros c Hc. destruct prev as [ps|].
      * specialize (I3 c ps Hc eq_refl). lia.
      * symmetry in I1. apply lstep_none in I1. subst P'. destruct Hc.
  - unfold ch_add. replace (b - a <=? len evs) with true by lia. cbn [bind].
    right. split; [reflexivity|]. split; [|exact Hnoclash].
    rewrite I4 in Hge. destruct prev as [ps|]; [|lia].
    symmetry in I1. destruct (lstep_some _ _ I1) as (c & Hc & <-). specialize (HP' c Hc). lia.
Qed.

(** ** chords_steps *)
Theorem chords_steps s a b spb r :
  steps_per_bar s = Ok spb -> ch_from_quantized s a b = Ok r ->
  let cs := ch_sorted (s_texts s) in
  a < b /\ ce_start r = a /\ ce_end r = b /\ ce_spb r = spb /\ ce_spq r = s_spq s /\
  len (ce_events r) = b - a /\
  (forall i, 0 <= i < b - a -> znth NO_CHORD i (ce_events r) = ch_in_force cs (a + i)) /\
  ~ ch_clash cs a b.
Proof.
  intros Hspb Hr. pose proof (ch_from_quantized_cases s a b spb Hspb) as H. rewrite Hr in H. exact H.
Qed.

Theorem chords_errors s a b spb code :
  steps_per_bar s = Ok spb -> ch_from_quantized s a b = Err code ->
  let cs := ch_sorted (s_texts s) in
  (code = E_COINCIDENT /\ ch_clash cs a b) \/ (code = E_BADCHORD /\ b <= a /\ ~ ch_clash cs a b).
Proof.
  intros Hspb Hr. pose proof (ch_from_quantized_cases s a b spb Hspb) as H. rewrite Hr in H. exact H.
Qed.

(** a clash is always reported; an empty range without clash is BadChordError *)
Theorem chords_clash_reported s a b spb :
  steps_per_bar s = Ok spb -> ch_clash (ch_sorted (s_texts s)) a b ->
  ch_from_quantized s a b = Err E_COINCIDENT.
Proof.
  intros Hspb Hc. pose proof (ch_from_quantized_cases s a b spb Hspb) as H.
  destruct (ch_from_quantized s a b) as [r|code].
  - destruct H as (_ & _ & _ & _ & _ & _ & _ & Hn). contradiction.
  - destruct H as [(-> & _)|(_ & _ & Hn)]; [reflexivity|contradiction].
Qed.

(** the sorted chord list is the chord annotations, in step order *)
Theorem chords_sorted_spec ts :
  Permutation (ch_sorted ts) (filter (fun a => tx_type a =? CHORD_SYMBOL) ts) /\
  StronglySorted (fun x y => tx_qstep x <= tx_qstep y) (ch_sorted ts).
Proof.
  split; [apply isort_perm|].
  pose proof (ch_sorted_sorted ts) as H. induction H as [|x l Hs IH Hf]; constructor; [exact IH|].
  eapply Forall_impl; [|exact Hf]. intros y Hy. unfold ch_le in Hy. lia.
Qed.
