(** Proofs/FramesRollFloat.v — floating-point facts about the frame arithmetic
    of sequence_to_pianoroll / pianoroll_to_note_sequence (C18):
    [frames_from_times] basics and monotonicity, exactness of the frame grid
    for power-of-two frame rates, and the refutation witness for 100 fps (F14). *)
From Coq Require Import ZArith Reals Floats Lia Lra List Bool.
From Flocq Require Import Core BinarySingleNaN PrimFloat.
From NS Require Import Base.FloatBridge Model.FramesRoll.
Import ListNotations.
Local Open Scope R_scope.

(** * Integers as floats *)
Lemma fmt_scaled m e : (Z.abs m < 2 ^ 53)%Z -> (-1074 <= e)%Z ->
  generic_format radix2 fexp (IZR m * bpow radix2 e).
Proof.
  intros Hm He. apply generic_format_FLT.
  apply (FLT_spec radix2 (3 - emax - prec) prec _ (Float radix2 m e)).
  - reflexivity.
  - exact Hm.
  - cbn [Fexp]. unfold emax, prec. lia.
Qed.

Lemma fmt_IZR m : (Z.abs m < 2 ^ 53)%Z -> generic_format radix2 fexp (IZR m).
Proof.
  intros Hm. replace (IZR m) with (IZR m * bpow radix2 0) by (cbn; lra).
  apply fmt_scaled; [assumption|lia].
Qed.

Lemma IZR_abs_lt_bpow m e : (0 <= e)%Z -> (Z.abs m < 2 ^ e)%Z -> Rabs (IZR m) < bpow radix2 e.
Proof.
  intros He H. rewrite <- abs_IZR. rewrite <- (IZR_Zpower radix2 e) by assumption.
  apply IZR_lt. exact H.
Qed.

Lemma rnd_B2R (x : binary_float prec emax) : rnd (B2R x) = B2R x.
Proof. apply round_generic; auto with typeclass_instances. apply generic_format_B2R. Qed.

Lemma fz_abs_R z : (0 <= z < 2 ^ 53)%Z ->
  let a := Z.ldexp (of_uint63 (Uint63.of_Z z)) 0 in R_of a = IZR z /\ fin a.
Proof.
  intros Hz a. unfold R_of, fin, a.
  rewrite ldexp_equiv. rewrite of_int63_equiv.
  rewrite Uint63.of_Z_spec.
  assert (Hmod : (z mod Uint63.wB = z)%Z).
  { apply Z.mod_small. unfold Uint63.wB, Uint63.size. change (2 ^ Z.of_nat 63)%Z with (2 ^ 63)%Z. lia. }
  rewrite Hmod.
  assert (Habs : (Z.abs z < 2 ^ 53)%Z) by lia.
  pose proof (binary_normalize_correct prec emax Hprec Hmax mode_NE z 0 false) as Hn.
  cbv zeta in Hn. change (SpecFloat.fexp prec emax) with (FLT_exp (3 - emax - prec) prec) in Hn.
  assert (HF : F2R (Float radix2 z 0) = IZR z) by (unfold F2R; cbn; lra).
  rewrite HF in Hn.
  assert (Hr : round radix2 fexp (round_mode mode_NE) (IZR z) = IZR z).
  { apply round_generic; auto with typeclass_instances. apply fmt_IZR. exact Habs. }
  rewrite Hr in Hn.
  rewrite Rlt_bool_true in Hn.
  2:{ apply Rlt_trans with (bpow radix2 53); [apply IZR_abs_lt_bpow; [lia|exact Habs]|apply bpow_lt; unfold emax; lia]. }
  destruct Hn as (Hn1 & Hn2 & _).
  set (u := binary_normalize prec emax Hprec Hmax mode_NE z 0 false) in *.
  pose proof (Bldexp_correct prec emax Hprec Hmax mode_NE u 0) as Hl.
  change (SpecFloat.fexp prec emax) with (FLT_exp (3 - emax - prec) prec) in Hl.
  rewrite Hn1 in Hl. cbn [bpow] in Hl. rewrite Rmult_1_r in Hl. rewrite Hr in Hl.
  rewrite Rlt_bool_true in Hl.
  2:{ apply Rlt_trans with (bpow radix2 53); [apply IZR_abs_lt_bpow; [lia|exact Habs]|apply bpow_lt; unfold emax; lia]. }
  destruct Hl as (Hl1 & Hl2 & _). split; [exact Hl1|]. rewrite Hl2. exact Hn2.
Qed.

Lemma fz_R z : (Z.abs z < 2 ^ 53)%Z -> R_of (fz z) = IZR z /\ fin (fz z).
Proof.
  intros Hz. unfold fz, f_of_Z, f_of_me.
  destruct (z <? 0)%Z eqn:E.
  - apply Z.ltb_lt in E.
    destruct (fz_abs_R (Z.abs z)) as [H1 H2]; [lia|]. cbv zeta in H1, H2.
    unfold R_of, fin in *. rewrite opp_equiv. rewrite B2R_Bopp, is_finite_Bopp.
    split; [|exact H2]. rewrite H1. rewrite <- opp_IZR. f_equal. lia.
  - apply Z.ltb_ge in E.
    replace (Z.abs z) with z by lia. apply fz_abs_R. lia.
Qed.

Lemma one_R : R_of one = 1 /\ fin one.
Proof.
  unfold R_of, fin. rewrite one_equiv, Prim2B_B2Prim. split; [apply Bone_correct|apply is_finite_Bone].
Qed.

Lemma zero_R : R_of zero = 0 /\ fin zero.
Proof. unfold R_of, fin. rewrite zero_equiv, Prim2B_B2Prim. split; reflexivity. Qed.

Lemma f1000_fz : f1000 = fz 1000.
Proof. vm_compute. reflexivity. Qed.

Lemma f1000_R : R_of f1000 = 1000 /\ fin f1000.
Proof. rewrite f1000_fz. apply fz_R. cbn. lia. Qed.

Lemma R_of_fmt x : generic_format radix2 fexp (R_of x).
Proof. apply generic_format_B2R. Qed.

(** * trunc / fceil of a float that is an integer *)
Lemma trunc_of_IZR x z : R_of x = IZR z -> trunc x = z.
Proof. intros H. rewrite trunc_Ztrunc, H. apply Ztrunc_IZR. Qed.

Lemma fceil_of_IZR x z : fin x -> (Z.abs z < 2 ^ 53)%Z -> R_of x = IZR z -> fceil x = z.
Proof.
  intros Fx Hz H. unfold fceil. rewrite (trunc_of_IZR x z H).
  destruct (fz_R z Hz) as [Hr Hf]. fold (fz z).
  rewrite ltb_R by assumption. rewrite Hr, H.
  rewrite Rlt_bool_false by lra. reflexivity.
Qed.

(** * Power-of-two frame rates: the grid is exact *)
Section Pow2.
Variable fps : PrimFloat.float.
Variable k : Z.
Hypothesis Ffps : fin fps.
Hypothesis Rfps : R_of fps = bpow radix2 k.
Hypothesis Hk : (-64 <= k <= 64)%Z.

Lemma frame_len_pow2 : R_of (frame_len fps) = bpow radix2 (- k) /\ fin (frame_len fps).
Proof.
  unfold frame_len. destruct one_R as [H1 F1].
  assert (Hne : R_of fps <> 0) by (rewrite Rfps; apply Rgt_not_eq, bpow_gt_0).
  assert (Hq : R_of one / R_of fps = bpow radix2 (- k)).
  { rewrite H1, Rfps, bpow_opp. unfold Rdiv. lra. }
  destruct (div_R one fps (- k) F1 Ffps Hne) as [Hd Fd]; [lia| |].
  - rewrite Hq. rewrite Rabs_pos_eq by apply bpow_ge_0. lra.
  - split; [|exact Fd]. rewrite Hd, Hq. apply round_generic; auto with typeclass_instances.
    apply generic_format_bpow. unfold FLT_exp, emax, prec. lia.
Qed.

Lemma ftime_pow2 a : (0 <= a < 2 ^ 53)%Z ->
  R_of (ftime fps a) = IZR a * bpow radix2 (- k) /\ fin (ftime fps a).
Proof.
  intros Ha. unfold ftime.
  destruct (fz_R a) as [Hz Fz]; [lia|]. destruct frame_len_pow2 as [Hl Fl].
  destruct (mul_R (fz a) (frame_len fps) (53 - k) Fz Fl) as [Hm Fm]; [lia| |].
  - rewrite Hz, Hl. rewrite Rabs_mult. rewrite (Rabs_pos_eq (bpow _ _)) by apply bpow_ge_0.
    replace (53 - k)%Z with (53 + - k)%Z by lia. rewrite bpow_plus.
    apply Rmult_le_compat_r; [apply bpow_ge_0|]. apply Rlt_le. apply IZR_abs_lt_bpow; lia.
  - split; [|exact Fm]. rewrite Hm, Hz, Hl. apply round_generic; auto with typeclass_instances.
    apply fmt_scaled; lia.
Qed.

Lemma ftime_fps_pow2 a : (0 <= a < 2 ^ 53)%Z ->
  R_of (ftime fps a * fps) = IZR a /\ fin (ftime fps a * fps).
Proof.
  intros Ha. destruct (ftime_pow2 a Ha) as [Ht Ft].
  assert (Hp : R_of (ftime fps a) * R_of fps = IZR a).
  { rewrite Ht, Rfps, Rmult_assoc, <- bpow_plus. replace (- k + k)%Z with 0%Z by lia. cbn. lra. }
  destruct (mul_R (ftime fps a) fps 53 Ft Ffps) as [Hm Fm]; [lia| |].
  - rewrite Hp. apply Rlt_le. apply IZR_abs_lt_bpow; lia.
  - split; [|exact Fm]. rewrite Hm, Hp. apply round_generic; auto with typeclass_instances.
    apply fmt_IZR. lia.
Qed.

Lemma frame_exact_pow2 a : (0 <= a < 2 ^ 53)%Z -> frame_exact fps a = true.
Proof.
  intros Ha. destruct (ftime_fps_pow2 a Ha) as [Hx Fx].
  unfold frame_exact, sframe, eframe.
  rewrite (trunc_of_IZR _ a Hx). rewrite (fceil_of_IZR _ a Fx) by (assumption || lia).
  rewrite Z.eqb_refl. reflexivity.
Qed.

(* a decoded note of positive length survives the 0 ms minimum duration *)
Lemma kept_pow2 a b : (0 <= a <= b)%Z -> (b < 2 ^ 53)%Z ->
  PrimFloat.leb zero ((ftime fps b - ftime fps a) * f1000) = true.
Proof.
  intros Hab Hb.
  destruct (ftime_pow2 a) as [Ha' Fa]; [lia|]. destruct (ftime_pow2 b) as [Hb' Fb]; [lia|].
  assert (Hd : R_of (ftime fps b) - R_of (ftime fps a) = IZR (b - a) * bpow radix2 (- k)).
  { rewrite Ha', Hb', minus_IZR. lra. }
  destruct (sub_R (ftime fps b) (ftime fps a) (53 - k) Fb Fa) as [Hs Fs]; [lia| |].
  - rewrite Hd. rewrite Rabs_mult. rewrite (Rabs_pos_eq (bpow _ _)) by apply bpow_ge_0.
    replace (53 - k)%Z with (53 + - k)%Z by lia. rewrite bpow_plus.
    apply Rmult_le_compat_r; [apply bpow_ge_0|]. apply Rlt_le. apply IZR_abs_lt_bpow; lia.
  - assert (Hs' : R_of (ftime fps b - ftime fps a) = IZR (b - a) * bpow radix2 (- k)).
    { rewrite Hs, Hd. apply round_generic; auto with typeclass_instances. apply fmt_scaled; lia. }
    destruct f1000_R as [Ht Ft].
    assert (Hnn : 0 <= IZR (b - a) * bpow radix2 (- k) * 1000).
    { apply Rmult_le_pos; [|lra]. apply Rmult_le_pos; [apply IZR_le; lia|apply bpow_ge_0]. }
    destruct (mul_R (ftime fps b - ftime fps a) f1000 (63 - k) Fs Ft) as [Hm Fm]; [lia| |].
    + rewrite Hs', Ht. rewrite Rabs_pos_eq by exact Hnn.
      replace (63 - k)%Z with (53 + - k + 10)%Z by lia. rewrite !bpow_plus.
      apply Rmult_le_compat; [apply Rmult_le_pos; [apply IZR_le; lia|apply bpow_ge_0]|lra| |].
      * apply Rmult_le_compat_r; [apply bpow_ge_0|].
        rewrite <- (Rabs_pos_eq (IZR (b - a))) by (apply IZR_le; lia).
        apply Rlt_le. apply IZR_abs_lt_bpow; lia.
      * cbn. lra.
    + destruct zero_R as [Hz Fz]. rewrite leb_R by assumption.
      rewrite Hz, Hm, Hs', Ht. apply Rle_bool_true.
      apply round_ge_generic; auto with typeclass_instances. apply generic_format_0.
Qed.

(* the re-encoded roll is not shorter than the original *)
Lemma rows_pow2 T : (0 <= T < 2 ^ 52)%Z ->
  roll_rows fps (fz (T + 1) * frame_len fps)%float = (T + 2)%Z.
Proof.
  intros HT. change (fz (T + 1) * frame_len fps)%float with (ftime fps (T + 1)).
  destruct (ftime_fps_pow2 (T + 1)) as [Hx Fx]; [lia|].
  destruct one_R as [H1 F1]. unfold roll_rows.
  destruct (add_R (ftime fps (T + 1) * fps) one 53 Fx F1) as [Ha Fa]; [lia| |].
  - rewrite Hx, H1, <- plus_IZR. apply Rlt_le. apply IZR_abs_lt_bpow; lia.
  - apply trunc_of_IZR. rewrite Ha, Hx, H1, <- plus_IZR.
    replace (T + 1 + 1)%Z with (T + 2)%Z by lia.
    apply round_generic; auto with typeclass_instances. apply fmt_IZR. lia.
Qed.
End Pow2.

(** * frames_from_times *)
Lemma gt0_zero : gt0 zero = false.
Proof. vm_compute. reflexivity. Qed.

(* occupancy test switched off (min_frame_occupancy_for_label <= 0): floor and ceil, at least one frame *)
Lemma fft_no_occupancy fps occ s e : gt0 occ = false ->
  frames_from_times fps occ s e = (sframe fps s, Z.max (sframe fps s + 1) (eframe fps e)).
Proof. intros H. unfold frames_from_times. rewrite H. reflexivity. Qed.

Lemma fft_bounds fps occ s e :
  let sf := fst (frames_from_times fps occ s e) in
  let ef := snd (frames_from_times fps occ s e) in
  (sframe fps s <= sf <= sframe fps s + 1)%Z /\ (sf + 1 <= ef)%Z /\
  (ef = sf + 1 \/ eframe fps e - 1 <= ef <= eframe fps e)%Z.
Proof.
  unfold frames_from_times. cbn [fst snd].
  destruct (gt0 occ && _)%bool; destruct (gt0 occ && _)%bool; lia.
Qed.

(* int() of a non-negative product is the floor; math.ceil is the ceiling *)
Lemma trunc_floor x : 0 <= R_of x -> trunc x = Zfloor (R_of x).
Proof. intros H. rewrite trunc_Ztrunc. apply Ztrunc_floor. exact H. Qed.

Lemma Ztrunc_abs_lt r e : (0 <= e)%Z -> Rabs r < bpow radix2 e -> (Z.abs (Ztrunc r) < 2 ^ e)%Z.
Proof.
  intros He H. rewrite <- Ztrunc_abs. rewrite Ztrunc_floor by apply Rabs_pos.
  apply lt_IZR. apply Rle_lt_trans with (Rabs r); [apply Zfloor_lb|].
  rewrite <- (IZR_Zpower radix2 e) in H by assumption. exact H.
Qed.

Lemma fceil_Zceil x : fin x -> Rabs (R_of x) < bpow radix2 53 -> fceil x = Zceil (R_of x).
Proof.
  intros Fx Hb. unfold fceil. set (r := R_of x) in *.
  assert (Ht : trunc x = Ztrunc r) by apply trunc_Ztrunc. rewrite Ht.
  assert (Habs : (Z.abs (Ztrunc r) < 2 ^ 53)%Z) by (apply Ztrunc_abs_lt; [lia|exact Hb]).
  destruct (fz_R (Ztrunc r) Habs) as [Hr Hf]. fold (fz (Ztrunc r)).
  rewrite ltb_R by assumption. rewrite Hr. fold r.
  destruct (Rlt_or_le r 0) as [Hneg|Hpos].
  - rewrite Ztrunc_ceil by lra. rewrite Rlt_bool_false; [reflexivity|apply Zceil_ub].
  - rewrite Ztrunc_floor by assumption.
    destruct (Req_dec (IZR (Zfloor r)) r) as [E|E].
    + rewrite Rlt_bool_false by lra. rewrite <- E at 2. rewrite Zceil_IZR. reflexivity.
    + rewrite Rlt_bool_true by (pose proof (Zfloor_lb r); lra).
      rewrite (Zceil_floor_neq r) by exact E. reflexivity.
Qed.

(* frame numbers are monotone in the time (non-negative frame rate, no overflow) *)
Lemma sframe_mono fps s s' : fin fps -> fin s -> fin s' -> 0 <= R_of fps -> R_of s <= R_of s' ->
  Rabs (R_of s * R_of fps) <= bpow radix2 1000 -> Rabs (R_of s' * R_of fps) <= bpow radix2 1000 ->
  (sframe fps s <= sframe fps s')%Z.
Proof.
  intros Ff Fs Fs' Hf Hs Hb Hb'. unfold sframe.
  destruct (mul_R s fps 1000 Fs Ff) as [H1 _]; [lia|exact Hb|].
  destruct (mul_R s' fps 1000 Fs' Ff) as [H2 _]; [lia|exact Hb'|].
  apply trunc_mono. rewrite H1, H2. apply round_le; auto with typeclass_instances.
  apply Rmult_le_compat_r; assumption.
Qed.

Lemma eframe_mono fps e e' : fin fps -> fin e -> fin e' -> 0 <= R_of fps -> R_of e <= R_of e' ->
  Rabs (R_of e * R_of fps) <= bpow radix2 52 -> Rabs (R_of e' * R_of fps) <= bpow radix2 52 ->
  (eframe fps e <= eframe fps e')%Z.
Proof.
  intros Ff Fe Fe' Hf He Hb Hb'. unfold eframe.
  destruct (mul_R e fps 52 Fe Ff) as [H1 G1]; [lia|exact Hb|].
  destruct (mul_R e' fps 52 Fe' Ff) as [H2 G2]; [lia|exact Hb'|].
  assert (B1 : Rabs (R_of (e * fps)) < bpow radix2 53).
  { rewrite H1. apply Rle_lt_trans with (bpow radix2 52); [apply rnd_abs_le_bpow; [lia|exact Hb]|apply bpow_lt; lia]. }
  assert (B2 : Rabs (R_of (e' * fps)) < bpow radix2 53).
  { rewrite H2. apply Rle_lt_trans with (bpow radix2 52); [apply rnd_abs_le_bpow; [lia|exact Hb']|apply bpow_lt; lia]. }
  rewrite (fceil_Zceil _ G1 B1), (fceil_Zceil _ G2 B2).
  apply Zceil_le. rewrite H1, H2. apply round_le; auto with typeclass_instances.
  apply Rmult_le_compat_r; assumption.
Qed.

(** * The F14 witnesses: at 100 frames per second frame 29 maps back to frame 28
    and the end frame 7 maps to 8. *)
Definition fps100 : PrimFloat.float := fz 100.

Lemma frame_inexact_100 :
  sframe fps100 (ftime fps100 29) = 28%Z /\ eframe fps100 (ftime fps100 7) = 8%Z /\
  frame_exact fps100 29 = false /\ frame_exact fps100 7 = false.
Proof. vm_compute. repeat split; reflexivity. Qed.
