(** Proofs/Sustain.v — lemmas about Model/Sustain.v (C14), part 1:
    array lemmas, the shape invariant (only end times and liveness change),
    total_time, the rejection clause, sortedness of the event list. *)
From Coq Require Import ZArith List Bool Lia ZifyBool Permutation.
From NS Require Import Base.NoteSeq Gen.G14 Model.Sustain.
Import ListNotations.
Local Open Scope Z_scope.
Ltac Zify.zify_post_hook ::= Z.to_euclidean_division_equations.

(** * Arrays *)
Lemma upd_length : forall cs i f, length (upd cs i f) = length cs.
Proof. induction cs; destruct i; cbn [upd length]; intros; auto. Qed.

Lemma upd_nth_eq : forall cs i f d, (i < length cs)%nat -> nth i (upd cs i f) d = f (nth i cs d).
Proof. induction cs; destruct i; cbn [upd length nth]; intros; try lia; auto. apply IHcs. lia. Qed.

Lemma upd_nth_neq : forall cs i j f d, i <> j -> nth j (upd cs i f) d = nth j cs d.
Proof. induction cs; destruct i, j; cbn [upd nth]; intros; try congruence; auto. Qed.

Lemma upd_nth_ge : forall cs i f, (length cs <= i)%nat -> upd cs i f = cs.
Proof. induction cs; destruct i; cbn [upd length]; intros; try lia; auto. f_equal. apply IHcs. lia. Qed.

Lemma note_eqb_eq : forall a b, note_eqb a b = true <-> a = b.
Proof.
  intros [p1 v1 s1 e1 i1 g1 d1 q1 r1 x1] [p2 v2 s2 e2 i2 g2 d2 q2 r2 x2]; unfold note_eqb; cbn.
  rewrite !andb_true_iff, !Z.eqb_eq, eqb_true_iff. split.
  - intros [[[[[[[[[-> ->] ->] ->] ->] ->] ->] ->] ->] ->]. reflexivity.
  - intros H; inversion H; subst. repeat split; reflexivity.
Qed.

Lemma note_eqb_refl : forall a, note_eqb a a = true.
Proof. intros. apply note_eqb_eq. reflexivity. Qed.

(** What a cell may become: the same note with another end, alive or not. *)
Definition strip (n : note) : note := set_end n 0.
Definition cell_step (c c' : cell) : Prop := strip (c_n c') = strip (c_n c).

Lemma strip_set_end : forall n t, strip (set_end n t) = strip n.
Proof. intros. reflexivity. Qed.

Lemma strip_fields : forall a b, strip a = strip b ->
  n_pitch a = n_pitch b /\ n_vel a = n_vel b /\ n_start a = n_start b /\ n_instr a = n_instr b /\
  n_prog a = n_prog b /\ n_drum a = n_drum b /\ n_qstart a = n_qstart b /\ n_qend a = n_qend b /\ n_rest a = n_rest b.
Proof. intros [] [] H. inversion H. cbn. repeat split; reflexivity. Qed.

Lemma strip_rebuild : forall a b, strip a = strip b -> a = set_end b (n_end a).
Proof. intros [] [] H. inversion H. reflexivity. Qed.

Definition sim (cs cs' : list cell) : Prop := map (fun c => strip (c_n c)) cs' = map (fun c => strip (c_n c)) cs.

Lemma sim_refl : forall cs, sim cs cs. Proof. reflexivity. Qed.
Lemma sim_trans : forall a b c, sim a b -> sim b c -> sim a c.
Proof. unfold sim; intros. congruence. Qed.

Lemma sim_length : forall cs cs', sim cs cs' -> length cs' = length cs.
Proof. unfold sim; intros. apply (f_equal (@length _)) in H. rewrite !map_length in H. exact H. Qed.

Lemma sim_nth : forall cs cs' j, sim cs cs' -> strip (cell_at cs' j) = strip (cell_at cs j).
Proof.
  unfold sim, cell_at; intros.
  pose proof (map_nth (fun c => strip (c_n c)) cs' dummy_cell j) as A.
  pose proof (map_nth (fun c => strip (c_n c)) cs dummy_cell j) as B.
  cbv beta in A, B. rewrite <- A, <- B, H. reflexivity.
Qed.

Lemma sim_upd : forall cs i f, (forall c, strip (c_n (f c)) = strip (c_n c)) -> sim cs (upd cs i f).
Proof.
  unfold sim. induction cs; destruct i; cbn [upd map]; intros; auto.
  - rewrite H. reflexivity.
  - f_equal. apply IHcs. exact H.
Qed.

Lemma sim_set_end_at : forall cs i t, sim cs (set_end_at cs i t).
Proof. intros. apply sim_upd. reflexivity. Qed.

Lemma sim_kill_first : forall v cs, sim cs (kill_first v cs).
Proof.
  unfold sim. induction cs; cbn [kill_first map]; auto.
  destruct (c_alive a && note_eqb (c_n a) v); cbn [map c_n]; congruence.
Qed.

Lemma off_loop_sim : forall i t act cs tot, sim cs (snd (fst (off_loop i t act cs tot))).
Proof.
  induction act; intros; cbn [off_loop]; [apply sim_refl|].
  destruct (n_instr (cell_at cs a) =? i).
  - destruct (n_end (cell_at cs a) <? t).
    + eapply sim_trans; [apply sim_set_end_at | apply IHact].
    + specialize (IHact cs tot). destruct (off_loop i t act cs tot) as [[k c] o]. exact IHact.
  - specialize (IHact cs tot). destruct (off_loop i t act cs tot) as [[k c] o]. exact IHact.
Qed.

Lemma on_loop_sim : forall i p t act cs, sim cs (snd (on_loop i p t act cs)).
Proof.
  induction act; intros; cbn [on_loop]; [apply sim_refl|].
  destruct (n_instr (cell_at cs a) =? i).
  - destruct (n_pitch (cell_at cs a) =? p).
    + eapply sim_trans; [|apply IHact].
      destruct (n_start (cell_at cs a) =? t).
      * eapply sim_trans; [apply sim_set_end_at | apply sim_kill_first].
      * apply sim_set_end_at.
    + specialize (IHact cs). destruct (on_loop i p t act cs) as [k c]. exact IHact.
  - specialize (IHact cs). destruct (on_loop i p t act cs) as [k c]. exact IHact.
Qed.

Lemma step_sim : forall s e, sim (cells s) (cells (step s e)).
Proof.
  intros. unfold step. destruct (e_kind e).
  - apply sim_refl.
  - pose proof (off_loop_sim (e_instr e) (e_time e) (active s) (cells s) (total s)) as H.
    destruct (off_loop _ _ _ _ _) as [[k c] o]. exact H.
  - destruct (is_sus _ _); [|apply sim_refl].
    pose proof (on_loop_sim (e_instr e) (n_pitch (cell_at (cells s) (e_ref e))) (e_time e) (active s) (cells s)) as H.
    destruct (on_loop _ _ _ _ _) as [k c]. exact H.
  - destruct (is_sus _ _); apply sim_refl.
Qed.

Lemma run_events_sim : forall evs s, sim (cells s) (cells (run_events evs s)).
Proof.
  induction evs; intros; cbn; [apply sim_refl|].
  eapply sim_trans; [apply step_sim | apply IHevs].
Qed.

Lemma close_sim : forall t act cs tot, sim cs (fst (close t act cs tot)).
Proof.
  induction act; intros; cbn [close]; [apply sim_refl|].
  eapply sim_trans; [apply sim_set_end_at | apply IHact].
Qed.

Lemma close_orig_sim : forall t act cs tot, sim cs (fst (close_orig t act cs tot)).
Proof.
  induction act; intros; cbn [close_orig]; [apply sim_refl|].
  eapply sim_trans; [apply sim_set_end_at | apply IHact].
Qed.

Lemma sustain_cells_sim : forall ctl ns ccs tot,
  sim (init_cells ns) (fst (sustain_cells ctl ns ccs tot)).
Proof.
  intros. unfold sustain_cells, sustain_cells_gen.
  eapply sim_trans; [|apply close_sim].
  unfold pre_close. apply (run_events_sim _ (init_st ns tot)).
Qed.

Lemma map_eq_Forall2 : forall {A B C} (f : A -> C) (g : B -> C) l l',
  map f l = map g l' -> Forall2 (fun a b => f a = g b) l l'.
Proof.
  induction l; intros [|b l'] H; cbn [map] in H; try discriminate; constructor.
  - apply (f_equal (hd (f a))) in H. exact H.
  - apply IHl. apply (f_equal (@tl _)) in H. exact H.
Qed.

(** T1: every cell of the result is the input note with (possibly) another end. *)
Lemma sustain_shape : forall ctl ns ccs tot,
  let cs := fst (sustain_cells ctl ns ccs tot) in
  Forall2 (fun n c => c_n c = set_end n (n_end (c_n c))) ns cs.
Proof.
  intros. pose proof (sustain_cells_sim ctl ns ccs tot) as H. fold cs in H.
  unfold sim, init_cells in H. rewrite map_map in H. symmetry in H.
  apply map_eq_Forall2 in H. induction H; constructor; auto.
  cbn [c_n] in H. apply strip_rebuild. symmetry. exact H.
Qed.

(** * total_time never shrinks (repaired closing loop) *)
Lemma off_loop_total : forall i t act cs tot, tot <= snd (off_loop i t act cs tot).
Proof.
  induction act; intros; cbn [off_loop]; [cbn; lia|].
  destruct (n_instr (cell_at cs a) =? i).
  - destruct (n_end (cell_at cs a) <? t).
    + etransitivity; [|apply IHact]. destruct (tot <? t) eqn:?; lia.
    + specialize (IHact cs tot). destruct (off_loop i t act cs tot) as [[k c] o]. exact IHact.
  - specialize (IHact cs tot). destruct (off_loop i t act cs tot) as [[k c] o]. exact IHact.
Qed.

Lemma step_total : forall s e, total s <= total (step s e).
Proof.
  intros. unfold step. destruct (e_kind e); cbn [total]; try lia.
  - pose proof (off_loop_total (e_instr e) (e_time e) (active s) (cells s) (total s)) as H.
    destruct (off_loop _ _ _ _ _) as [[k c] o]. exact H.
  - destruct (is_sus _ _); [|cbn; lia]. destruct (on_loop _ _ _ _ _). cbn; lia.
  - destruct (is_sus _ _); cbn; lia.
Qed.

Lemma run_events_total : forall evs s, total s <= total (run_events evs s).
Proof.
  induction evs; intros; cbn; [lia|]. etransitivity; [apply step_total | apply IHevs].
Qed.

Lemma close_total : forall t act cs tot, tot <= snd (close t act cs tot).
Proof.
  induction act; intros; cbn [close]; [cbn; lia|].
  etransitivity; [|apply IHact]. destruct (tot <? t) eqn:?; lia.
Qed.

Lemma sustain_total_monotone : forall ctl ns ccs tot, tot <= snd (sustain_cells ctl ns ccs tot).
Proof.
  intros. unfold sustain_cells, sustain_cells_gen.
  etransitivity; [|apply close_total]. unfold pre_close.
  apply (run_events_total _ (init_st ns tot)).
Qed.

(** * Rejection of quantized input *)
Lemma sustain_quantized_rejected : forall ctl s,
  apply_sustain ctl s = None <-> (0 < s_spq s \/ 0 < s_sps s).
Proof.
  intros. unfold apply_sustain, apply_sustain_gen, is_quantized.
  destruct (0 <? s_spq s) eqn:A; destruct (0 <? s_sps s) eqn:B; cbn [orb];
    try (split; [intros _; lia | reflexivity]).
  destruct (sustain_cells_gen _ _ _ _ _). split; [discriminate | lia].
Qed.

(** * The stable sort: permutation and sortedness *)
Lemma ins_perm : forall x l, Permutation (ins x l) (x :: l).
Proof.
  induction l; cbn [ins]; [reflexivity|].
  destruct (ev_lt a x); [|reflexivity].
  rewrite IHl. apply perm_swap.
Qed.

Lemma sort_events_perm : forall l, Permutation (sort_events l) l.
Proof.
  induction l; cbn; [reflexivity|]. unfold sort_events in *. rewrite ins_perm. constructor. exact IHl.
Qed.

(** [sorted l]: no element is followed (anywhere later) by a strictly smaller one. *)
Inductive sorted : list event -> Prop :=
| sorted_nil : sorted []
| sorted_cons : forall e l, Forall (fun e' => ev_lt e' e = false) l -> sorted l -> sorted (e :: l).

Lemma ev_lt_asym : forall a b, ev_lt a b = true -> ev_lt b a = false.
Proof. unfold ev_lt; intros. lia. Qed.

Lemma ev_nlt_trans : forall a b c, ev_lt b a = false -> ev_lt c b = false -> ev_lt c a = false.
Proof. unfold ev_lt; intros. lia. Qed.

Lemma ins_sorted : forall x l, sorted l -> sorted (ins x l).
Proof.
  induction 1; cbn [ins]; [constructor; [constructor|constructor]|].
  destruct (ev_lt e x) eqn:E.
  - constructor; [|exact IHsorted].
    rewrite Forall_forall in *. intros y Hy.
    apply (Permutation_in _ (ins_perm x l)) in Hy. destruct Hy as [<-|Hy]; [apply ev_lt_asym; exact E | auto].
  - constructor; [|constructor; assumption].
    constructor; [exact E|]. rewrite Forall_forall in *. intros y Hy.
    eapply ev_nlt_trans; [exact E | auto].
Qed.

Lemma sort_events_sorted : forall l, sorted (sort_events l).
Proof. induction l; cbn; [constructor | apply ins_sorted; exact IHl]. Qed.

(** * Events refer to non-drum notes, with the note's own instrument and time *)
Lemma In_combine_seq : forall {A} (l : list A) a i x,
  In (i, x) (combine (List.seq a (length l)) l) <-> (a <= i)%nat /\ nth_error l (i - a) = Some x.
Proof.
  induction l; intros; cbn [length List.seq combine In].
  - split; [tauto|]. intros [_ H]. destruct (i - a)%nat; discriminate.
  - rewrite IHl. split.
    + intros [H|[H1 H2]].
      * inversion H; subst. split; [lia|]. replace (i - i)%nat with O by lia. reflexivity.
      * split; [lia|]. replace (i - a0)%nat with (S (i - S a0)) by lia. exact H2.
    + intros [H1 H2]. destruct (Nat.eq_dec a0 i) as [->|N].
      * left. replace (i - i)%nat with O in H2 by lia. cbn in H2. congruence.
      * right. split; [lia|]. replace (i - a0)%nat with (S (i - S a0)) in H2 by lia. exact H2.
Qed.

Lemma In_indexed : forall {A} (l : list A) i x, In (i, x) (indexed l) <-> nth_error l i = Some x.
Proof.
  intros. unfold indexed. rewrite In_combine_seq. replace (i - 0)%nat with i by lia.
  split; [tauto | intros; split; [lia | assumption]].
Qed.

Definition is_on_ev (e : event) : bool := match e_kind e with KNoteOn => true | _ => false end.
Definition is_off_ev (e : event) : bool := match e_kind e with KNoteOff => true | _ => false end.

(** Well-formedness of one event against the input notes. *)
Definition ev_wf (ns : list note) (e : event) : Prop :=
  match e_kind e with
  | KNoteOn => exists n, nth_error ns (e_ref e) = Some n /\ n_drum n = false /\
                         e_instr e = n_instr n /\ e_time e = n_start n
  | KNoteOff => exists n, nth_error ns (e_ref e) = Some n /\ n_drum n = false /\
                          e_instr e = n_instr n /\ e_time e = n_end n
  | _ => True
  end.

Lemma note_events_In : forall k tm ns e, In e (note_events k tm ns) ->
  exists n, nth_error ns (e_ref e) = Some n /\ n_drum n = false /\
            e = mkEv (tm n) k (e_ref e) (n_instr n).
Proof.
  unfold note_events; intros. apply in_map_iff in H. destruct H as [[i n] [<- H]].
  apply filter_In in H. destruct H as [H D]. apply In_indexed in H. cbn [fst snd] in *.
  exists n. cbn [e_ref]. split; [exact H|]. split; [|reflexivity].
  destruct (n_drum n); [discriminate | reflexivity].
Qed.

Lemma cc_events_kind : forall ctl ccs e, In e (cc_events ctl ccs) -> e_kind e = KSusOn \/ e_kind e = KSusOff.
Proof.
  unfold cc_events; intros. apply in_map_iff in H. destruct H as [c [<- _]]. cbn [e_kind].
  destruct (64 <=? cc_val c); auto.
Qed.

Lemma build_events_wf : forall ctl ns ccs e, In e (build_events ctl ns ccs) -> ev_wf ns e.
Proof.
  unfold build_events; intros. rewrite !in_app_iff in H. destruct H as [H|[H|H]].
  - apply note_events_In in H. destruct H as [n [A [B C]]]. unfold ev_wf. rewrite C. cbn.
    exists n. rewrite C in A. cbn in A. auto.
  - apply note_events_In in H. destruct H as [n [A [B C]]]. unfold ev_wf. rewrite C. cbn.
    exists n. rewrite C in A. cbn in A. auto.
  - apply cc_events_kind in H. unfold ev_wf. destruct H as [-> | ->]; exact I.
Qed.

Lemma sorted_events_wf : forall ctl ns ccs, Forall (ev_wf ns) (sorted_events ctl ns ccs).
Proof.
  intros. apply Forall_forall. intros e H. apply (build_events_wf ctl ns ccs).
  eapply Permutation_in; [apply sort_events_perm | exact H].
Qed.

Lemma cell_at_init : forall ns j n, nth_error ns j = Some n -> cell_at (init_cells ns) j = n.
Proof.
  intros. unfold cell_at, init_cells.
  assert (nth_error (map (fun n => mkCell n true) ns) j = Some (mkCell n true)) as E
    by (rewrite nth_error_map, H; reflexivity).
  rewrite (nth_error_nth _ _ _ E). reflexivity.
Qed.

Lemma nth_init : forall ns j n, nth_error ns j = Some n -> nth j (init_cells ns) dummy_cell = mkCell n true.
Proof.
  intros. unfold init_cells.
  assert (nth_error (map (fun n => mkCell n true) ns) j = Some (mkCell n true)) as E
    by (rewrite nth_error_map, H; reflexivity).
  apply (nth_error_nth _ _ _ E).
Qed.

(** Counting events by the (original) value of the note they refer to. *)
Definition cnt_ev (sel : event -> bool) (cs0 : list cell) (v : note) (l : list event) : nat :=
  length (filter (fun e => sel e && note_eqb (cell_at cs0 (e_ref e)) v) l).

Lemma cnt_ev_perm : forall sel cs0 v l l', Permutation l l' -> cnt_ev sel cs0 v l = cnt_ev sel cs0 v l'.
Proof.
  unfold cnt_ev. induction 1; cbn [filter]; auto.
  - destruct (sel x && _); cbn [length]; congruence.
  - destruct (sel x && _), (sel y && _); reflexivity.
  - congruence.
Qed.

Lemma cnt_ev_app : forall sel cs0 v l l', cnt_ev sel cs0 v (l ++ l') = (cnt_ev sel cs0 v l + cnt_ev sel cs0 v l')%nat.
Proof. unfold cnt_ev; intros. rewrite filter_app, app_length. reflexivity. Qed.

Lemma cnt_ev_none : forall sel cs0 v l, (forall e, In e l -> sel e = false) -> cnt_ev sel cs0 v l = O.
Proof.
  unfold cnt_ev. induction l; intros; cbn [filter]; auto.
  rewrite (H a (or_introl eq_refl)). cbn [andb]. apply IHl. intros; apply H; right; assumption.
Qed.

Lemma cnt_note_events : forall sel cs0 v k tm ns,
  (forall e, e_kind e = k -> sel e = true) ->
  cnt_ev sel cs0 v (note_events k tm ns) =
  length (filter (fun p => note_eqb (cell_at cs0 (fst p)) v) (filter (fun p => negb (n_drum (snd p))) (indexed ns))).
Proof.
  intros. unfold note_events, cnt_ev.
  induction (filter (fun p => negb (n_drum (snd p))) (indexed ns)); cbn [map filter]; auto.
  cbn [e_ref]. rewrite H by reflexivity. cbn [andb].
  destruct (note_eqb _ v); cbn [length]; congruence.
Qed.

Lemma build_events_balanced : forall ctl ns ccs cs0 v,
  cnt_ev is_on_ev cs0 v (build_events ctl ns ccs) = cnt_ev is_off_ev cs0 v (build_events ctl ns ccs).
Proof.
  intros. unfold build_events. rewrite !cnt_ev_app.
  rewrite (cnt_note_events is_on_ev cs0 v KNoteOn n_start ns ltac:(intros e E; unfold is_on_ev; rewrite E; reflexivity)).
  rewrite (cnt_note_events is_off_ev cs0 v KNoteOff n_end ns ltac:(intros e E; unfold is_off_ev; rewrite E; reflexivity)).
  rewrite (cnt_ev_none is_on_ev cs0 v (note_events KNoteOff n_end ns)).
  2:{ intros e H. apply note_events_In in H. destruct H as [n [_ [_ ->]]]. reflexivity. }
  rewrite (cnt_ev_none is_off_ev cs0 v (note_events KNoteOn n_start ns)).
  2:{ intros e H. apply note_events_In in H. destruct H as [n [_ [_ ->]]]. reflexivity. }
  rewrite (cnt_ev_none is_on_ev cs0 v (cc_events ctl ccs)).
  2:{ intros e H. apply cc_events_kind in H. unfold is_on_ev. destruct H as [-> | ->]; reflexivity. }
  rewrite (cnt_ev_none is_off_ev cs0 v (cc_events ctl ccs)).
  2:{ intros e H. apply cc_events_kind in H. unfold is_off_ev. destruct H as [-> | ->]; reflexivity. }
  lia.
Qed.

(** * Loops leave the cells and list entries of other instruments alone *)
Definition iof (cs : list cell) (a : nat) : Z := n_instr (cell_at cs a).

Lemma iof_sim : forall cs cs' a, sim cs cs' -> iof cs' a = iof cs a.
Proof. intros. unfold iof. apply strip_fields. apply sim_nth. exact H. Qed.

Lemma kill_first_nth_neq : forall v cs j,
  c_n (nth j cs dummy_cell) <> v -> nth j (kill_first v cs) dummy_cell = nth j cs dummy_cell.
Proof.
  induction cs; intros; cbn [kill_first]; auto.
  destruct (c_alive a && note_eqb (c_n a) v) eqn:E.
  - destruct j; cbn [nth] in *; auto.
    apply andb_true_iff in E. destruct E as [_ E]. apply note_eqb_eq in E. contradiction.
  - destruct j; cbn [nth] in *; auto.
Qed.

Lemma set_end_at_nth_neq : forall cs a j t, a <> j ->
  nth j (set_end_at cs a t) dummy_cell = nth j cs dummy_cell.
Proof. intros. apply upd_nth_neq. exact H. Qed.

Lemma off_loop_noop : forall i t act cs tot,
  (forall a, In a act -> n_instr (cell_at cs a) = i -> t <= n_end (cell_at cs a)) ->
  off_loop i t act cs tot = (act, cs, tot).
Proof.
  induction act; intros; cbn [off_loop]; auto.
  assert (R : off_loop i t act cs tot = (act, cs, tot))
    by (apply IHact; intros; apply H; [right|]; assumption).
  destruct (n_instr (cell_at cs a) =? i) eqn:E; [|rewrite R; reflexivity].
  destruct (n_end (cell_at cs a) <? t) eqn:F; [|rewrite R; reflexivity].
  specialize (H a (or_introl eq_refl)). lia.
Qed.

Lemma off_loop_other : forall (q : nat -> bool) i t act cs tot,
  (forall a, iof cs a = i -> q a = false) ->
  (forall j, iof cs j <> i ->
     nth j (snd (fst (off_loop i t act cs tot))) dummy_cell = nth j cs dummy_cell) /\
  filter q (fst (fst (off_loop i t act cs tot))) = filter q act.
Proof.
  induction act; intros; cbn [off_loop]; [split; auto|].
  fold (iof cs a). destruct (iof cs a =? i) eqn:E.
  - destruct (n_end (cell_at cs a) <? t).
    + destruct (IHact (set_end_at cs a t) (if tot <? t then t else tot)) as [A B].
      { intros b Hb. apply H. rewrite <- Hb. symmetry. apply iof_sim. apply sim_set_end_at. }
      split.
      * intros j Hj. rewrite A.
        -- apply set_end_at_nth_neq. intros ->. lia.
        -- rewrite (iof_sim cs); [exact Hj | apply sim_set_end_at].
      * rewrite B. cbn [filter]. rewrite H by lia. reflexivity.
    + destruct (IHact cs tot H) as [A B]. destruct (off_loop i t act cs tot) as [[k c] o]. cbn [fst snd] in *.
      split; [exact A|]. cbn [filter]. rewrite B. reflexivity.
  - destruct (IHact cs tot H) as [A B]. destruct (off_loop i t act cs tot) as [[k c] o]. cbn [fst snd] in *.
    split; [exact A|]. cbn [filter]. rewrite B. reflexivity.
Qed.

Lemma on_loop_other : forall (q : nat -> bool) i p t act cs,
  (forall a, iof cs a = i -> q a = false) ->
  (forall j, iof cs j <> i -> nth j (snd (on_loop i p t act cs)) dummy_cell = nth j cs dummy_cell) /\
  filter q (fst (on_loop i p t act cs)) = filter q act.
Proof.
  induction act; intros; cbn [on_loop]; [split; auto|].
  fold (iof cs a). destruct (iof cs a =? i) eqn:E.
  - destruct (n_pitch (cell_at cs a) =? p).
    + set (cs1 := set_end_at cs a t).
      set (cs2 := if n_start (cell_at cs a) =? t then kill_first (cell_at cs1 a) cs1 else cs1).
      assert (S1 : sim cs cs1) by apply sim_set_end_at.
      assert (S2 : sim cs cs2).
      { unfold cs2. destruct (_ =? t); [eapply sim_trans; [exact S1 | apply sim_kill_first] | exact S1]. }
      destruct (IHact cs2) as [A B].
      { intros b Hb. apply H. rewrite <- Hb. symmetry. apply iof_sim. exact S2. }
      split.
      * intros j Hj. rewrite A by (rewrite (iof_sim cs); assumption).
        assert (N1 : nth j cs1 dummy_cell = nth j cs dummy_cell).
        { apply set_end_at_nth_neq. intros ->. lia. }
        unfold cs2. destruct (_ =? t); [|exact N1].
        rewrite kill_first_nth_neq; [exact N1|].
        intros C. apply Hj. transitivity (iof cs1 a); [|rewrite (iof_sim cs) by exact S1; lia].
        rewrite <- (iof_sim cs cs1 j S1). unfold iof, cell_at. rewrite C. reflexivity.
      * rewrite B. cbn [filter]. rewrite H by lia. reflexivity.
    + destruct (IHact cs H) as [A B]. destruct (on_loop i p t act cs) as [k c]. cbn [fst snd] in *.
      split; [exact A|]. cbn [filter]. rewrite B. reflexivity.
  - destruct (IHact cs H) as [A B]. destruct (on_loop i p t act cs) as [k c]. cbn [fst snd] in *.
    split; [exact A|]. cbn [filter]. rewrite B. reflexivity.
Qed.

Lemma close_other : forall t act cs tot j,
  ~ In j act -> nth j (fst (close t act cs tot)) dummy_cell = nth j cs dummy_cell.
Proof.
  induction act; intros; cbn [close]; auto.
  rewrite IHact by (intros C; apply H; right; exact C).
  apply set_end_at_nth_neq. intros ->. apply H. left. reflexivity.
Qed.

Lemma close_nil_total : forall t cs tot, close t [] cs tot = (cs, tot).
Proof. reflexivity. Qed.

Lemma is_sus_off_other : forall i j l, is_sus i l = false -> is_sus i (sus_off j l) = false.
Proof.
  unfold is_sus, sus_off. induction l; cbn [filter existsb]; intros; auto.
  apply orb_false_iff in H. destruct H as [A B].
  destruct (negb (a =? j)); cbn [existsb]; rewrite ?A; auto.
Qed.

(** The event-type constants regenerated from the module are ordered as the
    algorithm needs: pedal down, pedal up, note on, note off. *)
Lemma code_order : SUSTAIN_ON < SUSTAIN_OFF /\ SUSTAIN_OFF < NOTE_ON /\ NOTE_ON < NOTE_OFF.
Proof. unfold SUSTAIN_ON, SUSTAIN_OFF, NOTE_ON, NOTE_OFF. lia. Qed.

Lemma remove_first_eq_other : forall (q : nat -> bool) cs v act,
  (forall a, cell_at cs a = v -> q a = false) ->
  filter q (remove_first_eq cs v act) = filter q act.
Proof.
  induction act; intros; cbn [remove_first_eq]; auto.
  destruct (note_eqb (cell_at cs a) v) eqn:E.
  - apply note_eqb_eq in E. cbn [filter]. rewrite (H a E). reflexivity.
  - cbn [filter]. rewrite IHact by exact H. reflexivity.
Qed.

Lemma nth_Forall2 : forall {A B} (R : A -> B -> Prop) (d : B) l l',
  length l' = length l -> (forall j a, nth_error l j = Some a -> R a (nth j l' d)) -> Forall2 R l l'.
Proof.
  induction l; intros [|b l'] L H; cbn [length] in L; try discriminate; constructor.
  - apply (H O a eq_refl).
  - apply IHl; [lia|]. intros j x Hj. apply (H (S j) x Hj).
Qed.


Lemma ordered_b_nth : forall ns j n, ordered_b ns = true -> nth_error ns j = Some n ->
  n_drum n = false -> n_start n <= n_end n.
Proof.
  unfold ordered_b; intros. rewrite forallb_forall in H. apply nth_error_In in H0.
  specialize (H n H0). rewrite H1 in H. cbn [orb] in H. lia.
Qed.

