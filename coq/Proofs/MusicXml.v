(** Proofs/MusicXml.v — the parser state machine of Model/MusicXml.v refines
    the declarative reading of Proofs/MusicXmlSpec.v. *)
From Coq Require Import ZArith QArith List Bool Lia ZifyBool Setoid Morphisms.
From NS Require Import Gen.G05 Model.MusicXml Proofs.MusicXmlSpec.
Import ListNotations.
Local Open Scope Z_scope.

Arguments Qred : simpl never.
Arguments Qplus : simpl never.
Arguments Qminus : simpl never.
Arguments Qmult : simpl never.
Arguments Qdiv : simpl never.
Arguments Qopp : simpl never.
Arguments Qeq_bool : simpl never.
Arguments Qle_bool : simpl never.
Arguments secs_of : simpl never.
Arguments norm_qpm : simpl never.
Arguments duration_ratio : simpl never.
Arguments type_ratio : simpl never.
Arguments step_class : simpl never.
Arguments transpose_key : simpl never.
Arguments inject_Z : simpl never.
Arguments frac_of : simpl never.

(** * Relations up to equality of rationals *)
Definition prev_rel (a b : option (Z * Q)) : Prop :=
  match a, b with
  | None, None => True
  | Some (d1, t1), Some (d2, t2) => d1 = d2 /\ (t1 == t2)%Q
  | _, _ => False
  end.
Definition sig_rel (a b : option (Z * Z * Q)) : Prop :=
  match a, b with
  | None, None => True
  | Some (x1, y1, t1), Some (x2, y2, t2) => x1 = x2 /\ y1 = y2 /\ (t1 == t2)%Q
  | _, _ => False
  end.

Lemma ev_eq_refl : forall e, ev_eq e e.
Proof. destruct e; cbn; repeat split; reflexivity. Qed.

(** * Fields untouched by the helpers *)
Ltac raise_tac := intros; unfold raise; match goal with |- context [?x =? 0] => destruct (x =? 0) end; reflexivity.
Lemma raise_div s e : s_div (raise s e) = s_div s. Proof. raise_tac. Qed.
Lemma raise_qpm s e : s_qpm (raise s e) = s_qpm s. Proof. raise_tac. Qed.
Lemma raise_tp s e : s_tp (raise s e) = s_tp s. Proof. raise_tac. Qed.
Lemma raise_chan s e : s_chan (raise s e) = s_chan s. Proof. raise_tac. Qed.
Lemma raise_prog s e : s_prog (raise s e) = s_prog s. Proof. raise_tac. Qed.
Lemma raise_prev s e : s_prev (raise s e) = s_prev s. Proof. raise_tac. Qed.
Lemma raise_transp s e : s_transp (raise s e) = s_transp s. Proof. raise_tac. Qed.
Lemma raise_tsig s e : s_tsig (raise s e) = s_tsig s. Proof. raise_tac. Qed.
Lemma raise_part s e : s_part (raise s e) = s_part s. Proof. raise_tac. Qed.
Lemma raise_mstart s e : m_start (raise s e) = m_start s. Proof. raise_tac. Qed.
Lemma raise_mdur s e : m_dur (raise s e) = m_dur s. Proof. raise_tac. Qed.
Lemma raise_mtsig s e : m_tsig (raise s e) = m_tsig s. Proof. raise_tac. Qed.
Lemma raise_mksig s e : m_ksig (raise s e) = m_ksig s. Proof. raise_tac. Qed.
Lemma raise_total s e : s_total (raise s e) = s_total s. Proof. raise_tac. Qed.
Ltac rw_raise := repeat (rewrite ?raise_div, ?raise_qpm, ?raise_tp, ?raise_chan, ?raise_prog, ?raise_prev,
  ?raise_transp, ?raise_tsig, ?raise_part, ?raise_mstart, ?raise_mdur, ?raise_mtsig, ?raise_mksig, ?raise_total).

Ltac fix_tac := intros; unfold fix_time_signature;
  repeat match goal with
  | |- context [match ?x with _ => _ end] => destruct x
  | |- context [if ?x then _ else _] => destruct x
  end; reflexivity.
Lemma fix_div s : s_div (fix_time_signature s) = s_div s. Proof. fix_tac. Qed.
Lemma fix_qpm s : s_qpm (fix_time_signature s) = s_qpm s. Proof. fix_tac. Qed.
Lemma fix_tp s : s_tp (fix_time_signature s) = s_tp s. Proof. fix_tac. Qed.
Lemma fix_chan s : s_chan (fix_time_signature s) = s_chan s. Proof. fix_tac. Qed.
Lemma fix_prog s : s_prog (fix_time_signature s) = s_prog s. Proof. fix_tac. Qed.
Lemma fix_prev s : s_prev (fix_time_signature s) = s_prev s. Proof. fix_tac. Qed.
Lemma fix_transp s : s_transp (fix_time_signature s) = s_transp s. Proof. fix_tac. Qed.
Lemma fix_part s : s_part (fix_time_signature s) = s_part s. Proof. fix_tac. Qed.
Lemma fix_mksig s : m_ksig (fix_time_signature s) = m_ksig s. Proof. fix_tac. Qed.
Lemma fix_mdur s : m_dur (fix_time_signature s) = m_dur s. Proof. fix_tac. Qed.

(** * The cursor invariant: parser state = declarative reading of the prefix *)
Record inv (s : st) (r : list tok) : Prop := mkInv {
  i_div : s_div s = div_at r;
  i_qpm : s_qpm s = qpm_at r;
  i_tp : (s_tp s == cursor qpm_at r)%Q;
  i_transp : s_transp s = transp_at r;
  i_part : s_part s = part_at r;
  i_chan : s_chan s = chan_at r;
  i_prog : s_prog s = prog_at r;
  i_prev : prev_rel (s_prev s) (prev_at qpm_at r);
  i_ksig : sig_rel (m_ksig s) (key_at r) }.

Lemma inv_init : inv init_st [].
Proof. constructor; cbn; try reflexivity; exact I. Qed.

Lemma secs_inv s r d : inv s r -> (Qred (secs_of (s_div s) (s_qpm s) d) == secs_at qpm_at r d)%Q.
Proof. intros H. rewrite Qred_correct, (i_div _ _ H), (i_qpm _ _ H). reflexivity. Qed.

Lemma prev_rel_refl_some d t1 t2 : (t1 == t2)%Q -> prev_rel (Some (d, t1)) (Some (d, t2)).
Proof. intros; cbn; auto. Qed.

Ltac easy_goal Ht :=
  first [assumption | reflexivity | exact I | (rewrite Ht; ring) | (rewrite Ht; reflexivity) | lia].

Lemma step_inv s r t :
  inv s r ->
  inv (fst (step s t)) (t :: r) /\
  Forall2 ev_eq (filter is_nt (snd (step s t))) (spec_ev qpm_at r t) /\
  Forall2 ev_eq (filter is_key (snd (step s t))) (key_ev r t).
Proof.
  intros H. pose proof H as [Hd Hq Ht Htr Hp Hc Hg Hpv Hk].
  destruct t as [c p| | | |d|f m|b bt|c|rest chord stp alter octave dur voice ty dots ta tn|d|d|q|root kind degs bass offset].
  - (* TPart *)
    split; [|split; constructor]. constructor; cbn; try easy_goal Ht.
  - (* TPartEnd *)
    split; [|split; constructor]. cbn [step fst].
    destruct (Qle_bool (s_tp s) (s_total s)); constructor; cbn; try easy_goal Ht.
  - (* TMeasure *)
    split; [|split; constructor]. constructor; cbn; try easy_goal Ht.
  - (* TMeasureEnd *)
    cbn [step fst snd]. split; [|split].
    + constructor; cbn [div_at qpm_at cursor transp_at part_at chan_at prog_at prev_at key_at delta];
        rewrite ?fix_div, ?fix_qpm, ?fix_tp, ?fix_transp, ?fix_part, ?fix_chan, ?fix_prog, ?fix_prev, ?fix_mksig;
        try easy_goal Ht.
    + unfold close_measure_events. cbn [spec_ev].
      destruct (m_tsig (fix_time_signature s)) as [[[? ?] ?]|]; destruct (m_ksig (fix_time_signature s)) as [[[? ?] ?]|];
        cbn; constructor.
    + unfold close_measure_events. cbn [key_ev]. rewrite fix_mksig.
      unfold sig_rel in Hk.
      destruct (m_tsig (fix_time_signature s)) as [[[? ?] ?]|]; destruct (m_ksig s) as [[[k1 m1] t1]|];
        destruct (key_at r) as [[[k2 m2] t2]|]; cbn; try contradiction; try constructor; try constructor;
        cbn; intuition.
  - (* TDiv *)
    split; [|split; constructor]. constructor; cbn; try easy_goal Ht.
  - (* TKey *)
    split; [|split; constructor]. constructor; cbn; try easy_goal Ht.
    repeat split; try reflexivity. exact Ht.
  - (* TTime *)
    cbn [step]. destruct (m_tsig s); cbn [fst snd filter]; (split; [|split; constructor]);
      constructor; cbn; rw_raise; try easy_goal Ht.
  - (* TTranspose *)
    cbn [step fst snd filter]. split; [|split; constructor].
    unfold sig_rel in Hk.
    destruct (m_ksig s) as [[[k1 m1] t1]|] eqn:Ek; destruct (key_at r) as [[[k2 m2] t2]|] eqn:E; try contradiction;
      constructor; cbn; rewrite ?E, ?Ek; try easy_goal Ht.
    destruct Hk as (-> & -> & Hk). repeat split; try reflexivity; assumption.
  - (* TNote *)
    cbn [step fst snd filter is_nt spec_ev key_ev].
    assert (Hsec : forall d, (Qred (secs_of (s_div s) (s_qpm s) d) == secs_at qpm_at r d)%Q)
      by (intro; apply secs_inv; assumption).
    split; [|split; [|constructor]].
    + (* state *)
      remember (if rest then s else match step_class stp with Some _ => s | None => raise s E_CONVERSION end) as s0 eqn:Es0.
      assert (F0 : s_div s0 = s_div s /\ s_qpm s0 = s_qpm s /\ s_tp s0 = s_tp s /\ s_transp s0 = s_transp s /\
                   s_part s0 = s_part s /\ s_chan s0 = s_chan s /\ s_prog s0 = s_prog s /\ m_ksig s0 = m_ksig s).
      { subst s0. destruct rest; [|destruct (step_class stp)]; rw_raise; repeat split; reflexivity. }
      destruct F0 as (F1 & F2 & F3 & F4 & F5 & F6 & F7 & F8). clear Es0.
      unfold prev_rel in Hpv.
      destruct chord.
      * (* chord member *)
        destruct (s_prev s) as [[pd pt]|] eqn:Ep; destruct (prev_at qpm_at r) as [[qd qt]|] eqn:Eq; try contradiction.
        -- destruct Hpv as (-> & Hpt).
           destruct (type_ratio ty); destruct ((voice =? 1) && negb true) eqn:Ev; try discriminate;
             constructor; cbn; rw_raise; cbn; rewrite ?Eq, ?F1, ?F2, ?F3, ?F4, ?F5, ?F6, ?F7, ?F8; try easy_goal Ht;
             try (split; [reflexivity|assumption]).
        -- destruct (type_ratio ty); destruct ((voice =? 1) && negb true) eqn:Ev; try discriminate;
             constructor; cbn; rw_raise; cbn; rewrite ?Eq, ?F1, ?F2, ?F3, ?F4, ?F5, ?F6, ?F7, ?F8; try easy_goal Ht;
             try (split; [reflexivity|assumption]).
      * (* ordinary note *)
        destruct (type_ratio ty); destruct ((voice =? 1) && negb false) eqn:Ev;
          constructor; cbn; rw_raise; cbn; rewrite ?F1, ?F2, ?F3, ?F4, ?F5, ?F6, ?F7, ?F8; try easy_goal Ht;
          try (split; [reflexivity|assumption]);
          try (rewrite Qred_correct, Hsec, Ht; reflexivity).
    + (* event *)
      constructor; [|constructor].
      unfold prev_rel in Hpv. cbn [ev_eq].
      assert (Hpitch : (if rest then 0 else midi_pitch match step_class stp with Some c => c | None => 0 end alter octave + s_transp s)
                       = (if rest then 0 else 12 * (octave + 1) + base_class stp + alter + transp_at r)).
      { destruct rest; [reflexivity|]. unfold midi_pitch, base_class. rewrite Htr. lia. }
      rewrite Hpitch. unfold type_q.
      destruct chord.
      * destruct (s_prev s) as [[pd pt]|] eqn:Ep; destruct (prev_at qpm_at r) as [[qd qt]|] eqn:Eq; try contradiction.
        -- destruct Hpv as (-> & Hpt). cbn [fst snd]. repeat split; auto; try apply Hsec.
        -- cbn [fst snd]. repeat split; auto; try apply Hsec.
      * cbn [fst snd]. repeat split; auto; try apply Hsec.
  - (* TBackup *)
    split; [|split; constructor]. constructor; cbn; try easy_goal Ht.
    pose proof (secs_inv s r d H) as Hs. rewrite Qred_correct. unfold Qminus. rewrite Hs, Ht. reflexivity.
  - (* TForward *)
    split; [|split; constructor]. constructor; cbn; try easy_goal Ht.
    pose proof (secs_inv s r d H) as Hs. rewrite Qred_correct. rewrite Hs, Ht. reflexivity.
  - (* TTempo *)
    cbn [step fst snd filter is_nt is_key spec_ev key_ev]. split; [|split; [|constructor]].
    + constructor; cbn; try easy_goal Ht.
    + constructor; [|constructor]. cbn. repeat split; auto; reflexivity.
  - (* THarmony *)
    cbn [step]. destruct (harmony_figure (s_transp s) root kind degs bass); cbn [fst snd filter is_nt is_key];
      (split; [|split; constructor]); constructor; cbn; rw_raise; try easy_goal Ht.
Qed.

Lemma step_chord s r t :
  inv s r -> Forall2 ev_eq (filter is_chord (snd (step s t))) (chord_ev r t).
Proof.
  intros H. pose proof H as [Hd Hq Ht Htr Hp Hc Hg Hpv Hk].
  destruct t as [c p| | | |d|f m|b bt|c|rest chord stp alter octave dur voice ty dots ta tn|d|d|q|root kind degs bass offset];
    try (cbn; constructor; fail).
  - cbn [step snd]. unfold close_measure_events.
    destruct (m_tsig (fix_time_signature s)) as [[[? ?] ?]|]; destruct (m_ksig (fix_time_signature s)) as [[[? ?] ?]|];
      cbn; constructor.
  - cbn [step]. destruct (m_tsig s); cbn; constructor.
  - cbn [step chord_ev]. rewrite <- Htr.
    destruct (harmony_figure (s_transp s) root kind degs bass); cbn [snd filter is_chord]; [|constructor].
    constructor; [|constructor]. cbn [ev_eq]. split; [|reflexivity].
    destruct offset as [o|]; [|exact Ht].
    pose proof (secs_inv s r o H) as Hs. rewrite Qred_correct, Hs, Ht. reflexivity.
Qed.

(** * The whole token stream *)
Lemma run_toks_cons s t ts :
  run_toks s (t :: ts) =
  (fst (run_toks (fst (step s t)) ts), snd (step s t) ++ snd (run_toks (fst (step s t)) ts)).
Proof. cbn [run_toks]. destruct (step s t) as [s1 e1]. cbn [fst snd]. destruct (run_toks s1 ts) as [s2 e2]. reflexivity. Qed.

Lemma filter_app_ev (f : ev -> bool) a b : filter f (a ++ b) = filter f a ++ filter f b.
Proof. induction a as [|x a IH]; cbn; [reflexivity|]. destruct (f x); cbn; rewrite IH; reflexivity. Qed.

Lemma run_inv ts : forall s r,
  inv s r ->
  inv (fst (run_toks s ts)) (rev ts ++ r) /\
  Forall2 ev_eq (filter is_nt (snd (run_toks s ts))) (spec_from qpm_at r ts) /\
  Forall2 ev_eq (filter is_key (snd (run_toks s ts))) (keys_from r ts) /\
  Forall2 ev_eq (filter is_chord (snd (run_toks s ts))) (chords_from r ts).
Proof.
  induction ts as [|t ts IH]; intros s r H.
  - cbn. repeat split; try constructor; apply H.
  - rewrite run_toks_cons. cbn [fst snd rev spec_from keys_from chords_from].
    destruct (step_inv s r t H) as (H1 & E1 & K1). pose proof (step_chord s r t H) as C1.
    destruct (IH _ _ H1) as (H2 & E2 & K2 & C2).
    rewrite <- app_assoc. cbn [app]. split; [exact H2|].
    rewrite !filter_app_ev. repeat split; apply Forall2_app; assumption.
Qed.

(** mxl_harmony (events): every well-formed <harmony> yields its figure at the
    cursor plus <offset>; a malformed one yields nothing (and raises). *)
Theorem chord_events_refine ts :
  Forall2 ev_eq (filter is_chord (snd (run_toks init_st ts))) (chords_from [] ts).
Proof. apply (run_inv ts init_st [] inv_init). Qed.

(** mxl_cursor_state / mxl_tempo (events) / mxl_key (events): for EVERY token
    stream the note and tempo events are the declarative ones (tempo in force
    read as the parser state), and the key events are the measures' keys. *)
Theorem cursor_state_refines ts :
  Forall2 ev_eq (filter is_nt (snd (run_toks init_st ts))) (spec_from qpm_at [] ts).
Proof. apply (run_inv ts init_st [] inv_init). Qed.

Theorem key_events_refine ts :
  Forall2 ev_eq (filter is_key (snd (run_toks init_st ts))) (keys_from [] ts).
Proof. apply (run_inv ts init_st [] inv_init). Qed.

Theorem final_state_refines ts :
  s_qpm (fst (run_toks init_st ts)) = qpm_at (rev ts) /\ s_div (fst (run_toks init_st ts)) = div_at (rev ts).
Proof.
  destruct (run_inv ts init_st [] inv_init) as (H & _). rewrite app_nil_r in H. split; apply H.
Qed.

(** * Pitch: the formula of the property, for every spelling *)
Definition STEP_TABLE : list Z := [0; 2; 4; 5; 7; 9; 11].
Theorem pitch_formula stp alter octave transp :
  0 <= stp <= 6 ->
  exists pc, step_class stp = Some pc /\ pc = nth (Z.to_nat stp) STEP_TABLE 0 /\
             midi_pitch pc alter octave + transp = 12 * (octave + 1) + pc + alter + transp /\
             base_class stp = pc.
Proof.
  intros H. assert (stp = 0 \/ stp = 1 \/ stp = 2 \/ stp = 3 \/ stp = 4 \/ stp = 5 \/ stp = 6) as C by lia.
  unfold base_class, midi_pitch.
  destruct C as [-> | [-> | [-> | [-> | [-> | [-> | ->]]]]]]; eexists; (split; [reflexivity|]); repeat split; try reflexivity; lia.
Qed.

Theorem pitch_step_rejected stp : ~ (0 <= stp <= 6) -> step_class stp = None.
Proof.
  intros H. unfold step_class. destruct stp as [|p|p]; try reflexivity; [lia|].
  do 3 (destruct p as [p|p|]; try reflexivity; try lia).
Qed.

(** * Keys: the reader's table is 7*fifths mod 12, also after a transposition *)
Definition fifths_dom : list Z := [-7; -6; -5; -4; -3; -2; -1; 0; 1; 2; 3; 4; 5; 6; 7].
Definition twelve : list Z := [0; 1; 2; 3; 4; 5; 6; 7; 8; 9; 10; 11].

Lemma in_fifths f : -7 <= f <= 7 -> In f fifths_dom.
Proof. intros H. unfold fifths_dom. cbn. lia. Qed.
Lemma in_twelve u : 0 <= u < 12 -> In u twelve.
Proof. intros H. unfold twelve. cbn. lia. Qed.

Definition opt_eqb (a : option Z) (b : Z) : bool := match a with Some x => x =? b | None => false end.
Lemma opt_eqb_ok a b : opt_eqb a b = true -> a = Some b.
Proof. destruct a; cbn; [|discriminate]. intros H. f_equal. lia. Qed.

Lemma key_table_enum : forallb (fun f => opt_eqb (proto_key f) ((7 * f) mod 12)) fifths_dom = true.
Proof. vm_compute. reflexivity. Qed.

Theorem key_table f : -7 <= f <= 7 -> proto_key f = Some ((7 * f) mod 12).
Proof.
  intros H. apply opt_eqb_ok.
  exact (proj1 (forallb_forall _ _) key_table_enum f (in_fifths f H)).
Qed.

Definition wrap_key (f u : Z) : Z := if f + u >? 6 then f + u - 12 else f + u.
Lemma key_transposed_enum :
  forallb (fun f => forallb (fun u => opt_eqb (proto_key (wrap_key f u)) ((7 * f + 7 * u) mod 12)) twelve) fifths_dom = true.
Proof. vm_compute. reflexivity. Qed.

Ltac Zify.zify_post_hook ::= Z.to_euclidean_division_equations.

Theorem key_transposed f c :
  -7 <= f <= 7 -> proto_key (transpose_key f c) = Some ((7 * f + c) mod 12).
Proof.
  intros H. unfold transpose_key.
  set (u := (c * -5) mod 12).
  assert (Hu : 0 <= u < 12) by (subst u; apply Z.mod_pos_bound; lia).
  change (proto_key (wrap_key f u) = Some ((7 * f + c) mod 12)).
  pose proof (proj1 (forallb_forall _ _) key_transposed_enum f (in_fifths f H)) as E.
  pose proof (proj1 (forallb_forall _ _) E u (in_twelve u Hu)) as E2. cbv beta in E2.
  apply opt_eqb_ok in E2. rewrite E2. f_equal. subst u. lia.
Qed.

Theorem key_transposed_in_table f c : -7 <= f <= 7 -> -7 <= transpose_key f c <= 6.
Proof. intros H. unfold transpose_key. destruct (_ >? 6) eqn:E; lia. Qed.

(** * Time signatures of complete measures *)
Record tinv (s : st) (r : list tok) : Prop := mkTinv {
  t_tsig : s_tsig s = tsig_at r;
  t_decl : sig_rel (m_tsig s) (time_decl_at r);
  t_mdur : m_dur s = mdur_at r }.

Lemma tinv_init : tinv init_st [].
Proof. constructor; cbn; try reflexivity; exact I. Qed.

Lemma frac_eq n1 d1 n2 d2 :
  0 < d1 -> 0 < d2 -> n1 * d2 = n2 * d1 -> Qeq_bool (frac_of n1 d1) (frac_of n2 d2) = true.
Proof.
  intros H1 H2 E. apply Qeq_bool_iff. unfold frac_of. rewrite !Qred_correct.
  destruct d1 as [|p1|p1]; try lia. destruct d2 as [|p2|p2]; try lia.
  unfold Qeq, Qdiv, Qmult, Qinv, inject_Z. cbn. nia.
Qed.

Lemma fix_complete s sn sd :
  s_tsig s = Some (sn, sd) ->
  0 < sd -> 0 <= sn -> 0 < s_div s -> (4 * s_div s) mod sd = 0 -> m_dur s * sd = sn * (4 * s_div s) ->
  fix_time_signature s = s.
Proof.
  intros E Hsd Hsn Hdv Hmod Hlen. unfold fix_time_signature. rewrite E.
  assert (Hp : (m_dur s <? sn) = false).
  { apply Z.ltb_ge. apply Z.mod_divide in Hmod; [|lia]. destruct Hmod as [k Hk].
    assert (Hk1 : 1 <= k) by nia.
    assert (Hm : m_dur s = sn * k).
    { apply (Z.mul_cancel_r _ _ sd); [lia|]. rewrite Hlen, Hk. ring. }
    rewrite Hm. nia. }
  rewrite Hp.
  rewrite (frac_eq (m_dur s) (s_div s * 4) sn sd) by lia.
  cbn [negb orb andb]. destruct (m_tsig s); reflexivity.
Qed.

Lemma step_tinv s r t :
  inv s r -> tinv s r ->
  (t = TMeasureEnd -> measure_complete r = true) ->
  tinv (fst (step s t)) (t :: r) /\
  Forall2 ev_eq (filter is_time (snd (step s t))) (time_ev r t).
Proof.
  intros H [T1 T2 T3] Hc. pose proof (i_tp _ _ H) as Ht. pose proof (i_div _ _ H) as Hd.
  destruct t as [c p| | | |d|f m|b bt|c|rest chord stp alter octave dur voice ty dots ta tn|d|d|q|root kind degs bass offset].
  - split; [|constructor]. constructor; cbn; assumption.
  - split; [|constructor]. cbn [step fst]. destruct (Qle_bool (s_tp s) (s_total s)); constructor; cbn; assumption.
  - split; [|constructor]. constructor; cbn; try assumption; try reflexivity; exact I.
  - (* TMeasureEnd: complete, so nothing is inserted *)
    specialize (Hc eq_refl). unfold measure_complete in Hc. rewrite <- T1, <- T3, <- Hd in Hc.
    destruct (s_tsig s) as [[sn sd]|] eqn:E; [|discriminate].
    assert (Hfix : fix_time_signature s = s) by (apply (fix_complete s sn sd); auto; lia).
    cbn [step fst snd]. rewrite Hfix. split.
    + constructor; cbn; rewrite ?E; assumption.
    + unfold close_measure_events. cbn [time_ev]. unfold sig_rel in T2.
      destruct (m_tsig s) as [[[b1 c1] t1]|]; destruct (time_decl_at r) as [[[b2 c2] t2]|]; try contradiction;
        destruct (m_ksig s) as [[[? ?] ?]|]; cbn; repeat constructor; intuition.
  - split; [|constructor]. constructor; cbn; assumption.
  - split; [|constructor]. constructor; cbn; assumption.
  - (* TTime *)
    cbn [step]. unfold sig_rel in T2.
    destruct (m_tsig s) as [[[b1 c1] t1]|] eqn:Em; destruct (time_decl_at r) as [[[b2 c2] t2]|] eqn:Ed; try contradiction;
      cbn [fst snd filter]; (split; [|constructor]); constructor; cbn; rw_raise; rewrite ?Ed, ?Em; try assumption; try reflexivity.
    repeat split; try reflexivity. exact Ht.
  - split; [|constructor]. cbn [step fst]. destruct (m_ksig s) as [[[? ?] ?]|]; constructor; cbn; assumption.
  - (* TNote *)
    cbn [step fst snd filter is_time time_ev]. split; [|constructor].
    remember (if rest then s else match step_class stp with Some _ => s | None => raise s E_CONVERSION end) as s0 eqn:Es0.
    assert (F0 : s_tsig s0 = s_tsig s /\ m_tsig s0 = m_tsig s /\ m_dur s0 = m_dur s).
    { subst s0. destruct rest; [|destruct (step_class stp)]; rw_raise; repeat split; reflexivity. }
    destruct F0 as (F1 & F2 & F3). clear Es0.
    destruct chord.
    + destruct (s_prev s) as [[pd pt]|]; destruct (type_ratio ty); destruct ((voice =? 1) && negb true) eqn:Ev;
        try (rewrite andb_false_r in Ev; discriminate);
        constructor; cbn; rw_raise; cbn; rewrite ?Ev, ?F1, ?F2, ?F3; try assumption; rewrite andb_false_r; assumption.
    + destruct (type_ratio ty); destruct ((voice =? 1) && negb false) eqn:Ev;
        constructor; cbn; rw_raise; cbn; rewrite ?Ev, ?F1, ?F2, ?F3; try assumption; cbn [negb] in Ev; rewrite Ev; lia.
  - split; [|constructor]. constructor; cbn; assumption.
  - split; [|constructor]. constructor; cbn; assumption.
  - split; [|constructor]. constructor; cbn; assumption.
  - cbn [step]. destruct (harmony_figure (s_transp s) root kind degs bass); cbn [fst snd filter is_time];
      (split; [|constructor]); constructor; cbn; rw_raise; assumption.
Qed.

Lemma run_tinv ts : forall s r,
  inv s r -> tinv s r -> all_complete r ts = true ->
  Forall2 ev_eq (filter is_time (snd (run_toks s ts))) (times_from r ts).
Proof.
  induction ts as [|t ts IH]; intros s r H T C.
  - constructor.
  - rewrite run_toks_cons. cbn [snd times_from]. rewrite filter_app_ev.
    assert (Hc : t = TMeasureEnd -> measure_complete r = true).
    { intros ->. cbn in C. apply andb_prop in C. apply C. }
    assert (C' : all_complete (t :: r) ts = true).
    { destruct t; cbn in C; try assumption. apply andb_prop in C. apply C. }
    destruct (step_tinv s r t H T Hc) as (T1 & E1).
    destruct (step_inv s r t H) as (H1 & _).
    apply Forall2_app; [assumption|]. apply IH; assumption.
Qed.

(** mxl_time_complete: when every measure is complete the time-signature events
    are exactly the declared <time> elements at the cursor times of their
    declarations — _fix_time_signature inserts nothing. *)
Theorem time_complete ts :
  all_complete [] ts = true ->
  Forall2 ev_eq (filter is_time (snd (run_toks init_st ts))) (times_from [] ts).
Proof. intros C. apply run_tinv; [exact inv_init | exact tinv_init | exact C]. Qed.

(** * Proper tempo in force (F21 excluded by [leak_free]) *)
Section Proper.
  Variable q0 : Q.
  Let qp := qpm_proper q0.

  Fixpoint agree_all (r : list tok) : Prop :=
    (qpm_at r == qp r)%Q /\ match r with [] => True | _ :: r' => agree_all r' end.

  Lemma agree_nil : agree_all [].
  Proof. cbn. split; [reflexivity|exact I]. Qed.

  Lemma agree_here r : agree_all r -> (qpm_at r == qp r)%Q.
  Proof. destruct r; cbn; intros [H _]; exact H. Qed.

  Lemma agree_cons t r :
    agree_all r ->
    (forall c p, t = TPart c p -> r <> [] -> Qeq_bool (qpm_at r) q0 = true) ->
    agree_all (t :: r).
  Proof.
    intros A L. pose proof (agree_here r A) as Ah.
    cbn [agree_all]. split; [|exact A].
    unfold qp in *. destruct t; cbn [qpm_at qpm_proper]; try exact Ah; try reflexivity.
    destruct r as [|x r']; [reflexivity|].
    apply Qeq_bool_iff. apply (L chan prog eq_refl). discriminate.
  Qed.

  Lemma secs_agree r d : agree_all r -> (secs_at qpm_at r d == secs_at qp r d)%Q.
  Proof. intros A. unfold secs_at. rewrite (agree_here r A). reflexivity. Qed.

  Lemma delta_agree t r : agree_all r -> (delta qpm_at t r == delta qp t r)%Q.
  Proof.
    intros A. destruct t; cbn [delta]; try reflexivity.
    - destruct chord; [reflexivity|apply secs_agree; exact A].
    - rewrite (secs_agree r d A). reflexivity.
    - apply secs_agree; exact A.
  Qed.

  Lemma cursor_agree r : agree_all r -> (cursor qpm_at r == cursor qp r)%Q.
  Proof.
    induction r as [|t r IH]; intros A; [reflexivity|].
    destruct A as [_ A]. specialize (IH A). pose proof (delta_agree t r A) as D.
    destruct t; cbn [cursor]; try reflexivity; rewrite IH, D; reflexivity.
  Qed.

  Lemma prev_agree r : agree_all r -> prev_rel (prev_at qpm_at r) (prev_at qp r).
  Proof.
    induction r as [|t r IH]; intros A; [exact I|].
    destruct A as [_ A]. specialize (IH A). pose proof (cursor_agree r A) as C.
    destruct t; cbn [prev_at]; try exact IH.
    destruct chord.
    - unfold prev_rel in *. destruct (prev_at qpm_at r) as [[d1 t1]|]; destruct (prev_at qp r) as [[d2 t2]|];
        try contradiction; [exact IH|]. split; [reflexivity|exact C].
    - cbn. split; [reflexivity|exact C].
  Qed.

  Lemma spec_ev_agree r t : agree_all r -> Forall2 ev_eq (spec_ev qpm_at r t) (spec_ev qp r t).
  Proof.
    intros A. pose proof (cursor_agree r A) as C. pose proof (prev_agree r A) as P.
    destruct t; cbn [spec_ev]; try (constructor; fail); (constructor; [|constructor]).
    - unfold prev_rel in P. cbn [ev_eq].
      destruct chord.
      + destruct (prev_at qpm_at r) as [[d1 t1]|]; destruct (prev_at qp r) as [[d2 t2]|]; try contradiction.
        * destruct P as (-> & P). cbn [fst snd]. repeat split; auto; try (apply secs_agree; exact A).
        * cbn [fst snd]. repeat split; auto; try (apply secs_agree; exact A).
      + cbn [fst snd]. repeat split; auto; try (apply secs_agree; exact A).
    - cbn. repeat split; auto; reflexivity.
  Qed.

  Lemma spec_from_agree ts : forall r,
    agree_all r -> leak_free_from q0 r ts = true ->
    Forall2 ev_eq (spec_from qpm_at r ts) (spec_from qp r ts) /\
    (forall pre post, ts = pre ++ post -> (qpm_at (rev pre ++ r) == qp (rev pre ++ r))%Q).
  Proof.
    induction ts as [|t ts IH]; intros r A L.
    - split; [constructor|]. intros pre post E. destruct pre; [|discriminate]. apply agree_here; exact A.
    - assert (A' : agree_all (t :: r)).
      { apply agree_cons; [exact A|]. intros c p -> Hr. cbn in L. apply andb_prop in L.
        destruct r; [contradiction|]. apply L. }
      assert (L' : leak_free_from q0 (t :: r) ts = true).
      { destruct t; cbn in L; try exact L. apply andb_prop in L. apply L. }
      destruct (IH _ A' L') as (E & Q). split.
      + cbn [spec_from]. apply Forall2_app; [apply spec_ev_agree; exact A|exact E].
      + intros pre post Eq. destruct pre as [|x pre].
        * apply agree_here; exact A.
        * cbn in Eq. injection Eq as -> Eq. cbn [rev]. rewrite <- app_assoc. cbn [app]. apply (Q pre post Eq).
  Qed.
End Proper.

Lemma ev_eq_trans a b c : ev_eq a b -> ev_eq b c -> ev_eq a c.
Proof.
  destruct a, b, c; cbn; try contradiction; intuition; try congruence;
    try (etransitivity; eassumption).
Qed.
Lemma Forall2_ev_trans a : forall b c, Forall2 ev_eq a b -> Forall2 ev_eq b c -> Forall2 ev_eq a c.
Proof.
  induction a; intros b c H1 H2; inversion H1; subst; inversion H2; subst; constructor.
  - eapply ev_eq_trans; eassumption.
  - eapply IHa; eassumption.
Qed.

(** mxl_cursor: when the tempo state does not leak across part boundaries the
    note and tempo events are the declarative ones with the PROPER tempo in
    force (marks of the part itself; the score's initial tempo before them). *)
Theorem cursor_refines ts :
  leak_free ts = true ->
  Forall2 ev_eq (filter is_nt (snd (run_toks init_st ts)))
                (spec_from (qpm_proper (initial_tempo ts)) [] ts).
Proof.
  intros L. eapply Forall2_ev_trans; [apply cursor_state_refines|].
  apply (spec_from_agree (initial_tempo ts) ts []); [apply agree_nil|exact L].
Qed.

Theorem tempo_in_force_proper ts pre post :
  leak_free ts = true -> ts = pre ++ post ->
  (qpm_at (rev pre) == qpm_proper (initial_tempo ts) (rev pre))%Q.
Proof.
  intros L E. pose proof (proj2 (spec_from_agree (initial_tempo ts) ts [] (agree_nil _) L) pre post E) as H.
  rewrite app_nil_r in H. exact H.
Qed.

(** * Reading a measure's key *)
Definition key_neutral (t : tok) : bool :=
  match t with TKey _ _ | TTranspose _ | TMeasure => false | _ => true end.

Lemma key_at_neutral r1 r : forallb key_neutral r1 = true -> key_at (r1 ++ r) = key_at r.
Proof.
  induction r1 as [|t r1 IH]; intros H; [reflexivity|].
  cbn in H. apply andb_prop in H. destruct H as [Ht H]. specialize (IH H).
  destruct t; cbn in Ht; try discriminate; cbn [app key_at]; exact IH.
Qed.

(** No <transpose> after the <key> in its measure: the written key. *)
Theorem key_written r1 f m r2 :
  forallb key_neutral r1 = true ->
  key_at (r1 ++ TKey f m :: r2) = Some (f, (if m =? 2 then 1 else 0), cursor qpm_at r2).
Proof. intros H. rewrite key_at_neutral by exact H. reflexivity. Qed.

(** One <transpose> after the <key> in its measure: the sounding key. *)
Theorem key_sounding r1 c r1' f m r2 :
  forallb key_neutral r1 = true -> forallb key_neutral r1' = true ->
  key_at (r1 ++ TTranspose c :: r1' ++ TKey f m :: r2) =
  Some (transpose_key f c, (if m =? 2 then 1 else 0), cursor qpm_at r2).
Proof.
  intros H H'. rewrite key_at_neutral by exact H. cbn [key_at].
  rewrite key_at_neutral by exact H'. reflexivity.
Qed.

(** * The reader *)
Theorem run_doc_ok sc o :
  run_doc sc = inr o ->
  let es := snd (run_toks init_st (tokens sc)) in
  q_notes o = ev_notes es /\
  q_tempos o = (match ev_tempos0 es with [] => [(0%Q, qpm_at (rev (tokens sc)))] | l => l end) /\
  q_tsigs o = map (fun x => let '(n, d, t) := x in (t, n, d)) (dedup (ev_times es)) /\
  conv_keys (match dedup (ev_keys es) with [] => [(0, 0, 0%Q)] | l => l end) = Some (q_ksigs o) /\
  q_chords o = ev_chords es /\
  s_err (fst (run_toks init_st (tokens sc))) = 0.
Proof.
  unfold run_doc. pose proof (final_state_refines (tokens sc)) as [Fq _].
  destruct (run_toks init_st (tokens sc)) as [s es] eqn:E. cbn [fst snd] in *.
  destruct (s_err s =? 0) eqn:Ee; cbn [negb]; [|discriminate].
  destruct (conv_keys _) as [ks|] eqn:Ek; [|discriminate].
  intros H. injection H as <-. cbn. rewrite <- Fq.
  repeat split; try reflexivity; try lia.
  - destruct (ev_tempos0 es); reflexivity.
  - destruct (dedup (ev_keys es)); exact Ek.
Qed.

(** A figure, spelled out: C#m7(add9)(b5)(no3)/Eb. *)
Fixpoint kind_index_from (i : Z) (name : list Z) (l : list (list Z * list Z)) : Z :=
  match l with
  | [] => -2
  | (n, _) :: r => if str_eqb n name then i else kind_index_from (i + 1) name r
  end.
Definition kind_index (name : list Z) : Z := kind_index_from 0 name CHORD_KINDS.
Definition MINOR_SEVENTH : list Z := [109; 105; 110; 111; 114; 45; 115; 101; 118; 101; 110; 116; 104].
Theorem figure_example :
  harmony_figure 0 (Some (0, Some 1)) (kind_index MINOR_SEVENTH)
                 [(9, None, 0); (5, Some (-1), 2); (3, None, 1)] (Some (2, Some (-1))) =
  Some [67; 35; 109; 55; 40; 97; 100; 100; 57; 41; 40; 98; 53; 41; 40; 110; 111; 51; 41; 47; 69; 98] /\
  harmony_figure (-2) (Some (0, None)) (kind_index MINOR_SEVENTH) [] None = None /\
  harmony_figure 0 None (kind_index MINOR_SEVENTH) [] None = None /\
  harmony_figure 0 (Some (0, None)) (-2) [] None = None /\
  harmony_figure 0 (Some (0, None)) (kind_index MINOR_SEVENTH) [(5, None, 2)] None = None.
Proof. vm_compute. repeat split; reflexivity. Qed.

Theorem run_doc_error sc e :
  run_doc sc = inl e ->
  s_err (fst (run_toks init_st (tokens sc))) = e /\ e <> 0 \/
  s_err (fst (run_toks init_st (tokens sc))) = 0 /\ e = E_INDEX.
Proof.
  unfold run_doc. destruct (run_toks init_st (tokens sc)) as [s es]. cbn [fst].
  destruct (s_err s =? 0) eqn:Ee; cbn [negb].
  - destruct (conv_keys _); [discriminate|]. intros H. injection H as <-. right. split; [lia|reflexivity].
  - intros H. injection H as <-. left. split; [reflexivity|lia].
Qed.

(** * Boolean comparison is complete for [ev_eq] (used by the refutations) *)
Lemma str_eqb_refl l : str_eqb l l = true.
Proof. induction l; cbn; [reflexivity|]. rewrite Z.eqb_refl. exact IHl. Qed.
Lemma ev_eqb_complete a b : ev_eq a b -> ev_eqb a b = true.
Proof.
  destruct a, b; cbn; try contradiction; intros H; decompose [and] H; subst;
    rewrite ?Z.eqb_refl, ?Bool.eqb_reflx, ?str_eqb_refl; cbn;
    repeat match goal with H : (_ == _)%Q |- _ => apply Qeq_bool_iff in H; rewrite H; clear H end; reflexivity.
Qed.
Lemma evs_eqb_complete a : forall b, Forall2 ev_eq a b -> evs_eqb a b = true.
Proof.
  induction a; intros b H; inversion H; subst; [reflexivity|].
  cbn. rewrite ev_eqb_complete by assumption. apply IHa. assumption.
Qed.

(** * F21: without [leak_free] the proper statement is false *)
Definition f21_score : score :=
  [ mkPart 0 0 [[TDiv 1; TTime 2 4; TNote false false 0 0 4 1 1 5 0 0 0; TTempo 60;
                 TNote false false 0 0 4 1 1 5 0 0 0]];
    mkPart 0 0 [[TDiv 1; TTime 2 4; TNote false false 2 0 4 1 1 5 0 0 0;
                 TNote false false 2 0 4 1 1 5 0 0 0]] ].

Theorem cursor_refuted :
  exists ts, ~ Forall2 ev_eq (filter is_nt (snd (run_toks init_st ts)))
                             (spec_from (qpm_proper (initial_tempo ts)) [] ts).
Proof.
  exists (tokens f21_score). intros H. apply evs_eqb_complete in H. vm_compute in H. discriminate.
Qed.

(** ... concretely: the second part's first note starts at 0 where 120 qpm is
    the only tempo in force in the score, yet lasts a full second. *)
Theorem cursor_refuted_witness :
  match run_doc f21_score with
  | inr o => map (fun n => (o_part n, Qred (o_start n), Qred (o_end n))) (q_notes o) =
             [(0, 0%Q, (1 # 2)%Q); (0, (1 # 2)%Q, (3 # 2)%Q); (1, 0%Q, 1%Q); (1, 1%Q, 2%Q)] /\
             q_tempos o = [((1 # 2)%Q, 60%Q)] /\ leak_free (tokens f21_score) = false
  | inl _ => False
  end.
Proof. vm_compute. repeat split; reflexivity. Qed.

(** The default tempo: with no mark in the first part the reader reports the
    parser's FINAL tempo state at time 0. *)
Theorem tempo_default sc o :
  run_doc sc = inr o ->
  ev_tempos0 (snd (run_toks init_st (tokens sc))) = [] ->
  leak_free_end (tokens sc) = true ->
  exists q, q_tempos o = [(0%Q, q)] /\ (q == initial_tempo (tokens sc))%Q.
Proof.
  intros H E L. destruct (run_doc_ok sc o H) as (_ & T & _). cbv zeta in T. rewrite E in T.
  eexists. split; [exact T|]. apply Qeq_bool_iff. exact L.
Qed.

Definition f21b_score : score :=
  [ mkPart 0 0 [[TDiv 1; TTime 1 4; TNote false false 0 0 4 1 1 5 0 0 0]];
    mkPart 0 0 [[TTempo 60; TDiv 1; TTime 1 4; TNote false false 2 0 4 1 1 5 0 0 0]] ].
Theorem tempo_default_refuted :
  exists sc o, run_doc sc = inr o /\ ev_tempos0 (snd (run_toks init_st (tokens sc))) = [] /\
               q_tempos o = [(0%Q, 60%Q)] /\ (initial_tempo (tokens sc) == 120)%Q.
Proof.
  exists f21b_score. destruct (run_doc f21b_score) as [e|o] eqn:E; [vm_compute in E; discriminate|].
  exists o. split; [reflexivity|]. split; [vm_compute; reflexivity|].
  vm_compute in E. injection E as <-. split; [reflexivity|]. vm_compute. reflexivity.
Qed.

(** * Non-vacuity: a two-part score with a transposing part, a chord, a second
    voice and an initial tempo satisfies every hypothesis and parses. *)
Definition demo_score : score :=
  [ mkPart 1 1 [[TTempo 90; TDiv 2; TKey 7 2; TTime 2 4;
                 TNote false false 0 (-1) 4 2 1 5 0 0 0; TNote false true 6 1 3 2 1 5 0 0 0;
                 TNote true false 0 0 0 2 1 5 0 0 0; TBackup 4; TNote false false 4 0 3 4 2 4 0 0 0]];
    mkPart 2 41 [[TDiv 2; TKey 7 1; TTime 2 4; TTranspose (-2);
                  TNote false false 0 0 4 3 1 5 1 0 0; TNote false false 1 0 4 1 1 6 0 0 0]] ].
Theorem demo_nonvacuous :
  leak_free (tokens demo_score) = true /\ all_complete [] (tokens demo_score) = true /\
  match run_doc demo_score with
  | inr o => map (fun n => (o_part n, o_pitch n, Qred (o_start n), Qred (o_end n))) (q_notes o) =
             [(0, 59, 0%Q, (2 # 3)%Q); (0, 60, 0%Q, (2 # 3)%Q); (0, 55, 0%Q, (4 # 3)%Q); (1, 58, 0%Q, 1%Q); (1, 60, 1%Q, (4 # 3)%Q)] /\
             q_ksigs o = [(0%Q, 1, 1); (0%Q, 11, 0)] /\ q_tsigs o = [(0%Q, 2, 4)] /\ q_tempos o = [(0%Q, 90%Q)]
  | inl _ => False
  end.
Proof. vm_compute. repeat split; reflexivity. Qed.
