(** Proofs/InferAssert.v — the assertion in infer_melody_for_sequence's writer
    loop ([assert pitch == note_pitch] on a sustain event) can never fire on the
    output of _melody_viterbi, whatever the likelihoods — even when every path
    has likelihood zero — provided the transition matrix has the structure
    _melody_transition_distribution gives it: a sustain state of pitch k is
    reachable (probability > 0) only from the onset state or the sustain state
    of the same pitch.  States: 0 = rest, 1..np = onsets, np+1..2np = sustains. *)
From Coq Require Import ZArith List Bool Lia Arith.
From NS Require Import Model.Viterbi Model.InferWrite Proofs.Viterbi Proofs.InferWrite.
Import ListNotations.

Definition safe_step (np i j : nat) : bool :=
  if Nat.ltb np j then Nat.eqb i j || Nat.eqb (i + np) j else true.
Definition ok_after (np : nat) (prev : option nat) (j : nat) : bool :=
  match prev with None => Nat.leb j np | Some i => safe_step np i j end.

(* forward-order safety of a state path *)
Fixpoint fsafe (np : nat) (prev : option nat) (path : list nat) : bool :=
  match path with
  | [] => true
  | j :: r => ok_after np prev j && fsafe np (Some j) r
  end.
Fixpoint last_opt (prev : option nat) (l : list nat) : option nat :=
  match l with [] => prev | j :: r => last_opt (Some j) r end.

Lemma fsafe_snoc np l : forall prev j,
  fsafe np prev (l ++ [j]) = fsafe np prev l && ok_after np (last_opt prev l) j.
Proof.
  induction l as [|x l IH]; intros prev j; cbn [app fsafe last_opt].
  - rewrite andb_true_r. reflexivity.
  - rewrite IH, andb_assoc. reflexivity.
Qed.
Lemma last_opt_snoc l : forall prev j, last_opt prev (l ++ [j]) = Some j.
Proof. induction l as [|x l IH]; intros prev j; cbn; [reflexivity | apply IH]. Qed.

(** * first-index argmax over extended integers: an all -inf column picks index 0 *)
Lemma argmax_from_some l : forall idx bi z, snd (argmax_from xle l idx bi (Some z)) <> None.
Proof.
  induction l as [|x r IH]; intros idx bi z; cbn [argmax_from]; [cbn; congruence|].
  destruct (xle x (Some z)) eqn:E; [apply IH|].
  destruct x as [y|]; [apply IH | cbn in E; discriminate].
Qed.
Lemma argmax_from_none l : forall idx bi bv,
  snd (argmax_from xle l idx bi bv) = None -> fst (argmax_from xle l idx bi bv) = bi.
Proof.
  induction l as [|x r IH]; intros idx bi bv H; cbn [argmax_from] in *; [reflexivity|].
  destruct (xle x bv) eqn:E; [apply IH; exact H|].
  destruct x as [y|].
  - exfalso. exact (argmax_from_some r _ _ y H).
  - destruct bv; cbn in E; discriminate.
Qed.
Lemma argmax_none_first l : snd (argmax xle None l) = None -> fst (argmax xle None l) = 0.
Proof. destruct l as [|x r]; cbn [argmax]; [reflexivity | apply argmax_from_none]. Qed.

Lemma xadd_some a b : xadd a b <> None -> a <> None /\ b <> None.
Proof. destruct a, b; cbn; intros H; split; congruence. Qed.

Section Safe.
  Variable np : nat.
  Variable cols : list (list (option Z)).
  Let n := Datatypes.S (2 * np).
  Hypothesis Hc : length cols = n.
  Hypothesis Hcs : Forall (fun c => length c = n) cols.
  (* log 0 wherever a sustain state would be entered from anything but its own pitch *)
  Hypothesis Hstruct : forall i j, i < n -> j < n -> safe_step np i j = false -> tr None cols i j = None.

  Notation stepx := (step xle xadd None).
  Notation forwardx := (forward xle xadd None).
  Notation argmaxx := (argmax xle None).

  Definition SInv (prev : list (option Z)) (acc : list (list nat)) : Prop :=
    length prev = n /\
    forall j, j < n -> (nth j prev None <> None \/ j = 0) ->
      fsafe np None (rev (backtrack j acc)) = true /\ Forall (fun s => s < n) (backtrack j acc).

  Lemma backtrack_head j acc : exists q, backtrack j acc = j :: q.
  Proof. destruct acc; cbn; eauto. Qed.

  Lemma SInv_step prev acc e : length e = n -> SInv prev acc ->
    SInv (fst (stepx cols prev e)) (snd (stepx cols prev e) :: acc).
  Proof.
    intros He (Hp & HI). assert (Hn : 0 < n) by (unfold n; lia).
    split.
    - destruct (step_spec xle xadd None n cols prev e 0 Hn Hc Hcs Hp He Hn) as (H1 & _). exact H1.
    - intros j Hj Hfin.
      destruct (step_spec xle xadd None n cols prev e j Hn Hc Hcs Hp He Hj) as (_ & _ & Hbp & Hv & Hlc).
      set (col := map2 xadd prev (nth j cols [])) in *.
      assert (Hne : col <> []) by (intro E; rewrite E in Hlc; cbn in Hlc; lia).
      destruct (argmax_spec xle None xle_refl xle_trans xle_total col Hne) as (Hi & Hnth & _).
      set (i := fst (argmaxx col)) in *. rewrite Hlc in Hi.
      assert (Hcolj : length (nth j cols []) = n).
      { rewrite Forall_forall in Hcs. apply Hcs. apply nth_In. lia. }
      assert (Hcoli : nth i col None = xadd (nth i prev None) (tr None cols i j)).
      { unfold col. rewrite map2_nth by lia. reflexivity. }
      (* either the best predecessor is finite (and then the transition is allowed), or the column is all -inf and i = 0 *)
      assert (Hcase : (nth i prev None <> None /\ tr None cols i j <> None) \/ (i = 0 /\ j = 0)).
      { destruct (snd (argmaxx col)) as [z|] eqn:Es.
        - left. apply xadd_some. rewrite <- Hcoli, Hnth. congruence.
        - destruct Hfin as [Hfin|Hj0].
          + exfalso. apply Hfin. rewrite Hv. reflexivity.
          + right. split; [|exact Hj0]. unfold i. apply argmax_none_first. exact Es. }
      assert (Hprev : nth i prev None <> None \/ i = 0) by (destruct Hcase as [[H _]|[H _]]; auto).
      destruct (HI i Hi Hprev) as [Hsafe Hrange].
      cbn [backtrack]. rewrite Hbp. fold i. split.
      + cbn [rev]. rewrite fsafe_snoc, Hsafe. cbn [andb].
        destruct (backtrack_head i acc) as (q & Eq). rewrite Eq. cbn [rev]. rewrite last_opt_snoc.
        cbn [ok_after].
        destruct Hcase as [[_ Htr]|[_ Hj0]].
        * destruct (safe_step np i j) eqn:Ess; [reflexivity|]. exfalso. apply Htr. apply Hstruct; assumption.
        * subst j. unfold safe_step. destruct (Nat.ltb np 0) eqn:E0; [apply Nat.ltb_lt in E0; lia | reflexivity].
      + constructor; assumption.
  Qed.

  Lemma forward_SInv : forall frames prev acc,
    Forall (fun e => length e = n) frames -> SInv prev acc ->
    SInv (fst (forwardx cols prev frames acc)) (snd (forwardx cols prev frames acc)).
  Proof.
    induction frames as [|e r IH]; intros prev acc Hf HI; [exact HI|].
    pose proof (Forall_inv Hf) as He. pose proof (Forall_inv_tail Hf) as Hr. cbn beta in He.
    cbn [forward]. destruct (stepx cols prev e) as [v bp] eqn:Es.
    apply IH; [exact Hr|]. pose proof (SInv_step prev acc e He HI) as H. rewrite Es in H. exact H.
  Qed.

  Lemma viterbi_path_safe init frames :
    length init = n -> Forall (fun e => length e = n) frames ->
    (forall j, j < n -> np < j -> nth j init None = None) ->
    let path := viterbi_x init cols frames in
    fsafe np None path = true /\ Forall (fun s => s < n) path.
  Proof.
    intros Hi Hf Hinit path. assert (Hn : 0 < n) by (unfold n; lia).
    assert (H0 : SInv init []).
    { split; [exact Hi|]. intros j Hj Hfin. cbn. split; [|constructor; [exact Hj | constructor]].
      rewrite andb_true_r. apply Nat.leb_le.
      destruct Hfin as [Hfin| ->]; [|lia].
      destruct (le_lt_dec j np) as [H|H]; [exact H|]. exfalso. apply Hfin. apply Hinit; assumption. }
    pose proof (forward_SInv frames init [] Hf H0) as HI.
    unfold path, viterbi_x, viterbi, viterbi_rev.
    destruct (forwardx cols init frames []) as [v bps] eqn:Ef. cbn [fst snd] in HI.
    destruct HI as (Hv & HI).
    assert (Hne : v <> []) by (intro E; rewrite E in Hv; cbn in Hv; lia).
    destruct (argmax_spec xle None xle_refl xle_trans xle_total v Hne) as (Hlast & Hnth & _). rewrite Hv in Hlast.
    assert (Hfin : nth (fst (argmaxx v)) v None <> None \/ fst (argmaxx v) = 0).
    { destruct (snd (argmaxx v)) as [z|] eqn:Es.
      - left. rewrite Hnth. congruence.
      - right. apply argmax_none_first. exact Es. }
    destruct (HI _ Hlast Hfin) as [Hs Hr]. split; [exact Hs|].
    apply Forall_rev. exact Hr.
  Qed.
End Safe.

(** * a forward-safe path never trips the writer's assertion *)
Local Open Scope Z_scope.

Definition cur_matches (pitches : list Z) (prev : option nat) (cur : option (Z * Z)) : Prop :=
  match prev with
  | None => cur = None
  | Some i => match index_to_event pitches i with
              | Rest => cur = None
              | Onset q | Sustain q => exists s, cur = Some (q, s)
              end
  end.

Lemma option_map_cons_some {A} (x : A) o : o <> None -> option_map (cons x) o <> None.
Proof. destruct o; cbn; congruence. Qed.

Lemma write_melody_safe pitches total : forall path prev cur times,
  fsafe (length pitches) prev path = true ->
  Forall (fun s => (s < Datatypes.S (2 * length pitches))%nat) path ->
  cur_matches pitches prev cur ->
  write_melody cur (combine (map (index_to_event pitches) path) times) total <> None.
Proof.
  set (np := length pitches).
  induction path as [|j r IH]; intros prev cur times Hs Hr Hm.
  - cbn. destruct cur as [[p s]|]; congruence.
  - destruct times as [|t ts]; [cbn; destruct cur as [[p s]|]; congruence|].
    cbn [map combine]. cbn [fsafe] in Hs. apply andb_prop in Hs. destruct Hs as [Hok Hs].
    pose proof (Forall_inv Hr) as Hj. pose proof (Forall_inv_tail Hr) as Hr'. cbn beta in Hj.
    assert (Hnext : forall cur', cur_matches pitches (Some j) cur' ->
              write_melody cur' (combine (map (index_to_event pitches) r) ts) total <> None).
    { intros cur' H. apply (IH (Some j) cur' ts Hs Hr' H). }
    destruct (index_to_event pitches j) as [|q|q] eqn:Ej; cbn [write_melody].
    + assert (H : cur_matches pitches (Some j) None) by (cbn; rewrite Ej; reflexivity).
      destruct cur as [[p s]|]; [apply option_map_cons_some|]; apply Hnext; exact H.
    + assert (H : cur_matches pitches (Some j) (Some (q, t))) by (cbn; rewrite Ej; eauto).
      destruct cur as [[p s]|]; [apply option_map_cons_some|]; apply Hnext; exact H.
    + (* sustain: the previous state is the onset or the sustain of the same pitch *)
      unfold index_to_event in Ej. destruct j as [|k]; [discriminate|]. fold np in Ej.
      destruct (Nat.leb (Datatypes.S k) np) eqn:El; [discriminate|]. apply Nat.leb_gt in El.
      inversion Ej as [Eq]. clear Ej.
      destruct prev as [i|]; cbn [ok_after] in Hok; [|apply Nat.leb_le in Hok; fold np in Hok; lia].
      unfold safe_step in Hok. fold np in Hok.
      destruct (Nat.ltb np (Datatypes.S k)) eqn:Elt; [|apply Nat.ltb_ge in Elt; lia].
      assert (Hcur : exists s, cur = Some (q, s)).
      { apply orb_prop in Hok. destruct Hok as [Hok|Hok]; apply Nat.eqb_eq in Hok.
        - subst i. cbn [cur_matches] in Hm. unfold index_to_event in Hm. fold np in Hm.
          destruct (Nat.leb (Datatypes.S k) np) eqn:El2; [apply Nat.leb_le in El2; lia|].
          rewrite Eq in Hm. exact Hm.
        - cbn [cur_matches] in Hm. unfold index_to_event in Hm. fold np in Hm.
          destruct i as [|k']; [lia|].
          assert (Hk' : (k' = k - np)%nat) by lia.
          destruct (Nat.leb (Datatypes.S k') np) eqn:El2; [|apply Nat.leb_gt in El2; lia].
          rewrite Hk', Eq in Hm. exact Hm. }
      destruct Hcur as (s & ->). rewrite ?Eq, Z.eqb_refl.
      apply Hnext. cbn [cur_matches]. unfold index_to_event. fold np.
      destruct (Nat.leb (Datatypes.S k) np) eqn:El2; [apply Nat.leb_le in El2; lia|].
      rewrite Eq. eauto.
Qed.

(** Main statement. *)
Theorem viterbi_melody_assert_safe pitches cols e0 frames times total :
  let np := length pitches in
  let n := Datatypes.S (2 * np) in
  length cols = n -> Forall (fun c => length c = n) cols ->
  length e0 = n -> Forall (fun e => length e = n) frames ->
  (forall i j, (i < n)%nat -> (j < n)%nat -> safe_step np i j = false -> tr None cols i j = None) ->
  let path := viterbi_x (melody_init cols e0) cols frames in
  write_melody None (combine (map (index_to_event pitches) path) times) total <> None.
Proof.
  intros np n Hc Hcs He Hf Hstruct path.
  assert (Hinit_len : length (melody_init cols e0) = n).
  { unfold melody_init. rewrite map2_length, map_length. lia. }
  assert (Hinit : forall j, (j < n)%nat -> (np < j)%nat -> nth j (melody_init cols e0) None = None).
  { intros j Hj Hlt. unfold melody_init. rewrite (map2_nth None xadd) by (rewrite ?map_length; lia).
    assert (Htr : tr None cols 0 j = None).
    { apply Hstruct; [unfold n; lia | exact Hj|]. unfold safe_step.
      destruct (Nat.ltb np j) eqn:E; [|apply Nat.ltb_ge in E; lia].
      destruct (Nat.eqb 0 j) eqn:E1; [apply Nat.eqb_eq in E1; lia|].
      destruct (Nat.eqb (0 + np) j) eqn:E2; [apply Nat.eqb_eq in E2; lia | reflexivity]. }
    unfold tr in Htr.
    rewrite nth_indep with (d' := (fun col => nth 0%nat col None) []) by (rewrite map_length; lia).
    rewrite (map_nth (fun col => nth 0%nat col None) cols [] j). rewrite Htr. reflexivity. }
  destruct (viterbi_path_safe np cols Hc Hcs Hstruct (melody_init cols e0) frames Hinit_len Hf Hinit) as [Hs Hr].
  apply write_melody_safe with (prev := None); [exact Hs | exact Hr | reflexivity].
Qed.
