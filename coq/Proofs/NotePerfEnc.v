(** Proofs/NotePerfEnc.v — NotePerformanceEventSequenceEncoderDecoder and the
    labels of ModuloPerformanceEventSequenceEncoderDecoder (C08).
    [np_num_steps] is the one of the code with notes/C08-fix-2.diff applied. *)
From Coq Require Import ZArith List Bool Lia ZifyBool.
From NS Require Import Gen.G09 Gen.G08 Model.OneHot Model.EncDec Model.NotePerfEnc Proofs.OneHot Proofs.EncDec Proofs.Lookback Proofs.LookbackInput.
Import ListNotations.
Local Open Scope Z_scope.
Ltac Zify.zify_post_hook ::= Z.to_euclidean_division_equations.

(** * optimal_num_segments *)
Lemma first_min_from_in key l : forall best,
  first_min_from key best l = best \/ In (first_min_from key best l) l.
Proof.
  induction l as [|x l IH]; intros best; cbn [first_min_from]; [now left|].
  destruct (IH (if key x <? key best then x else best)) as [H|H].
  - rewrite H. destruct (key x <? key best); [right; now left|now left].
  - right; now right.
Qed.

(* the key of the result is minimal *)
Lemma first_min_from_le key l : forall best,
  key (first_min_from key best l) <= key best /\
  forall x, In x l -> key (first_min_from key best l) <= key x.
Proof.
  induction l as [|x l IH]; intros best; cbn [first_min_from]; [split; [lia|intros ? []]|].
  destruct (IH (if key x <? key best then x else best)) as [H1 H2].
  destruct (key x <? key best) eqn:Hlt.
  - split; [lia|]. intros y [<-|Hy]; [exact H1|auto].
  - split; [exact H1|]. intros y [<-|Hy]; [lia|auto].
Qed.

Definition seg_candidates (steps : Z) : list Z :=
  filter (fun i => steps mod i =? 0) (map (fun i => i + 1) (EncDec.zrange (steps - 1))).

Lemma seg_candidates_in steps i : In i (seg_candidates steps) <-> 1 <= i < steps /\ steps mod i = 0.
Proof.
  unfold seg_candidates. rewrite filter_In, in_map_iff. split.
  - intros [(k & <- & Hk) Hm]. apply zrange_in in Hk. split; [lia|]. lia.
  - intros [Hi Hm]. split; [|lia]. exists (i - 1). split; [lia|]. apply zrange_in. lia.
Qed.

Lemma optimal_unfold steps :
  optimal_num_segments steps =
  match seg_candidates steps with [] => None | x :: r => Some (first_min_from (fun i => i + steps / i) x r) end.
Proof. reflexivity. Qed.

Theorem opt_seg_divides steps s :
  optimal_num_segments steps = Some s -> 1 <= s < steps /\ steps mod s = 0.
Proof.
  rewrite optimal_unfold. destruct (seg_candidates steps) as [|x r] eqn:Hc; [discriminate|].
  intros H; inversion H; subst. apply seg_candidates_in. rewrite Hc.
  destruct (first_min_from_in (fun i => i + steps / i) r x) as [->|Hin]; [now left|now right].
Qed.

(* min() of an empty sequence: exactly the limits below 2 *)
Theorem opt_seg_none_iff steps : optimal_num_segments steps = None <-> steps <= 1.
Proof.
  rewrite optimal_unfold. split.
  - destruct (seg_candidates steps) as [|x r] eqn:Hc; [|discriminate]. intros _.
    destruct (Z_le_gt_dec steps 1); [assumption|].
    assert (In 1 (seg_candidates steps)) as Hin by (apply seg_candidates_in; split; [lia|apply Z.mod_1_r]).
    rewrite Hc in Hin. destruct Hin.
  - intros Hs. destruct (seg_candidates steps) as [|x r] eqn:Hc; [reflexivity|].
    assert (In x (seg_candidates steps)) as Hin by (rewrite Hc; now left).
    apply seg_candidates_in in Hin. lia.
Qed.

(* the constructor's assert fires exactly when the limit has no divisor strictly between 1 and itself *)
Theorem opt_seg_one_iff steps :
  2 <= steps ->
  (optimal_num_segments steps = Some 1 <-> forall i, 1 < i < steps -> steps mod i <> 0).
Proof.
  intros Hs. rewrite optimal_unfold.
  assert (In 1 (seg_candidates steps)) as H1 by (apply seg_candidates_in; split; [lia|apply Z.mod_1_r]).
  destruct (seg_candidates steps) as [|x r] eqn:Hc; [destruct H1|].
  set (key := fun i => i + steps / i).
  destruct (first_min_from_le key r x) as [Hle Hall].
  assert (Hres : In (first_min_from key x r) (x :: r)).
  { destruct (first_min_from_in key r x) as [->|Hin]; [now left|now right]. }
  rewrite <- Hc in Hres. apply seg_candidates_in in Hres.
  split.
  - intros H; inversion H as [Hone]. intros i Hi Hm.
    assert (In i (x :: r)) as Hin by (rewrite <- Hc; apply seg_candidates_in; split; [lia|exact Hm]).
    assert (key 1 <= key i) as Hk.
    { rewrite <- Hone. destruct Hin as [<-|Hin]; [exact Hle|now apply Hall]. }
    unfold key in Hk. rewrite Z.div_1_r in Hk.
    (* i + steps / i < 1 + steps for a proper divisor *)
    assert (steps = i * (steps / i)) by lia.
    assert (2 <= steps / i) by nia. nia.
  - intros Hnone. f_equal.
    destruct Hres as [Hr Hm].
    destruct (Z.eq_dec (first_min_from key x r) 1) as [->|Hne]; [reflexivity|].
    exfalso. apply (Hnone (first_min_from key x r)); [lia|exact Hm].
Qed.

(** * The constructor *)
Definition np_cfg_ok (c : np_cfg) (nvb max_shift max_dur minp maxp : Z) : Prop :=
  np_shift_seg c * np_shift_per c = max_shift + 1 /\ 1 < np_shift_seg c /\ 1 <= np_shift_per c /\
  np_dur_seg c * np_dur_per c = max_dur /\ 1 < np_dur_seg c /\ 1 <= np_dur_per c /\
  np_min_pitch c = minp /\
  np_classes c = [np_shift_seg c; np_shift_per c; maxp - minp + 1; nvb; np_dur_seg c; np_dur_per c].

Lemma seg_factor steps s : 1 <= s < steps -> steps mod s = 0 -> s * (steps / s) = steps /\ 1 <= steps / s.
Proof.
  intros Hs Hm. assert (steps = s * (steps / s)) as H by (apply Z.div_exact; lia).
  split; [symmetry; exact H|]. set (q := steps / s) in *. clearbody q. nia.
Qed.

Theorem np_make_ok nvb max_shift max_dur minp maxp c :
  np_make nvb max_shift max_dur minp maxp = NpOk c -> np_cfg_ok c nvb max_shift max_dur minp maxp.
Proof.
  unfold np_make.
  destruct (optimal_num_segments (max_shift + 1)) as [ss|] eqn:H1; [|discriminate].
  destruct (1 <? ss) eqn:Hs1; cbn [negb]; [|discriminate].
  destruct (optimal_num_segments max_dur) as [ds|] eqn:H2; [|discriminate].
  destruct (1 <? ds) eqn:Hs2; cbn [negb]; [|discriminate].
  intros H; inversion H; subst; clear H. unfold np_cfg_ok; cbn.
  apply opt_seg_divides in H1, H2. destruct H1 as [Ha Hb], H2 as [Hc Hd].
  destruct (seg_factor _ _ Ha Hb), (seg_factor _ _ Hc Hd). repeat split; auto; lia.
Qed.

(* which limits are rejected, and how *)
Theorem np_make_rejects nvb max_shift max_dur minp maxp :
  (np_make nvb max_shift max_dur minp maxp = NpValueError <->
     max_shift + 1 <= 1 \/ (optimal_num_segments (max_shift + 1) <> Some 1 /\ max_dur <= 1)) /\
  (np_make nvb max_shift max_dur minp maxp = NpAssert <->
     optimal_num_segments (max_shift + 1) = Some 1 \/
     (2 <= max_shift + 1 /\ optimal_num_segments (max_shift + 1) <> Some 1 /\
      optimal_num_segments max_dur = Some 1)).
Proof.
  unfold np_make.
  destruct (optimal_num_segments (max_shift + 1)) as [ss|] eqn:H1.
  - pose proof (opt_seg_divides _ _ H1) as [Hss _].
    destruct (1 <? ss) eqn:Hs1; cbn [negb].
    + assert (Hne : Some ss <> Some 1) by (intros Heq; inversion Heq; lia).
      destruct (optimal_num_segments max_dur) as [ds|] eqn:H2.
      * pose proof (opt_seg_divides _ _ H2) as [Hds _].
        destruct (1 <? ds) eqn:Hs2; cbn [negb].
        -- split; split; intros HH; try discriminate HH; try reflexivity.
           ++ destruct HH as [HH|[_ HH]]; lia.
           ++ destruct HH as [HH|(_ & _ & HH)]; [contradiction|inversion HH; lia].
        -- split; split; intros HH; try discriminate HH; try reflexivity.
           ++ destruct HH as [HH|[_ HH]]; lia.
           ++ right. repeat split; [lia|exact Hne|f_equal; lia].
      * apply opt_seg_none_iff in H2.
        split; split; intros HH; try discriminate HH; try reflexivity.
        -- right. split; [exact Hne|exact H2].
        -- destruct HH as [HH|(_ & _ & HH)]; [contradiction|discriminate].
    + assert (ss = 1) by lia. subst ss.
      split; split; intros HH; try discriminate HH; try reflexivity.
      * destruct HH as [HH|[HH _]]; [lia|contradiction].
      * now left.
  - apply opt_seg_none_iff in H1.
    split; split; intros HH; try discriminate HH; try reflexivity.
    + now left.
    + destruct HH as [HH|(HH & _)]; [discriminate|lia].
Qed.

(** * Events, labels and their inverse *)
Definition np_valid (nvb max_shift max_dur minp maxp : Z) (e : npevent) : bool :=
  let '(ts, on, vel, dur) := e in
  (fst ts =? EV_TIME_SHIFT) && (0 <=? snd ts) && (snd ts <=? max_shift) &&
  (fst on =? EV_NOTE_ON) && (minp <=? snd on) && (snd on <=? maxp) &&
  (fst vel =? EV_VELOCITY) && (1 <=? snd vel) && (snd vel <=? nvb) &&
  (fst dur =? EV_DURATION) && (1 <=? snd dur) && (snd dur <=? max_dur).

Definition in_ranges (l ms : list Z) : Prop := Forall2 (fun x m => 0 <= x < m) l ms.

Ltac btrue H :=
  repeat (let H2 := fresh "Hb" in apply andb_true_iff in H; destruct H as [H H2]).

Lemma np_decode_6 c i0 i1 i2 i3 i4 i5 hist :
  np_decode c [i0; i1; i2; i3; i4; i5] hist =
  if (0 <=? i0 * np_shift_per c + i1) && (K_PERF_MIN_PITCH <=? i2 + np_min_pitch c) &&
     (i2 + np_min_pitch c <=? K_PERF_MAX_PITCH) && (1 <=? i3 + 1) &&
     (i3 + 1 <=? K_MAX_NUM_VELOCITY_BINS) && (1 <=? i4 * np_dur_per c + i5 + 1)
  then Some ((EV_TIME_SHIFT, i0 * np_shift_per c + i1), (EV_NOTE_ON, i2 + np_min_pitch c),
             (EV_VELOCITY, i3 + 1), (EV_DURATION, i4 * np_dur_per c + i5 + 1))
  else None.
Proof. reflexivity. Qed.

Lemma in_ranges_6 l m0 m1 m2 m3 m4 m5 :
  in_ranges l [m0; m1; m2; m3; m4; m5] ->
  exists i0 i1 i2 i3 i4 i5, l = [i0; i1; i2; i3; i4; i5] /\
    0 <= i0 < m0 /\ 0 <= i1 < m1 /\ 0 <= i2 < m2 /\ 0 <= i3 < m3 /\ 0 <= i4 < m4 /\ 0 <= i5 < m5.
Proof.
  unfold in_ranges. intros H.
  inversion H as [|i0 ? l0 ? R0 H0]; subst; clear H.
  inversion H0 as [|i1 ? l1 ? R1 H1]; subst; clear H0.
  inversion H1 as [|i2 ? l2 ? R2 H2]; subst; clear H1.
  inversion H2 as [|i3 ? l3 ? R3 H3]; subst; clear H2.
  inversion H3 as [|i4 ? l4 ? R4 H4]; subst; clear H3.
  inversion H4 as [|i5 ? l5 ? R5 H5]; subst; clear H4.
  inversion H5; subst; clear H5.
  exists i0, i1, i2, i3, i4, i5. repeat split; lia.
Qed.

Section NotePerf.
  Variables nvb max_shift max_dur minp maxp : Z.
  Variable c : np_cfg.
  Hypothesis cfg : np_cfg_ok c nvb max_shift max_dur minp maxp.
  (* the PerformanceEvent constructor validates pitch and velocity against the MIDI limits *)
  Hypothesis minp_ok : K_PERF_MIN_PITCH <= minp.
  Hypothesis maxp_ok : maxp <= K_PERF_MAX_PITCH.
  Hypothesis nvb_ok : nvb <= K_MAX_NUM_VELOCITY_BINS.

  Let valid := np_valid nvb max_shift max_dur minp maxp.

  Theorem noteperf_label_range e :
    valid e = true -> in_ranges (np_encode_event c e) (np_classes c).
  Proof.
    destruct cfg as (Hs & Hs1 & Hsp & Hd & Hd1 & Hdp & Hmp & Hcl).
    destruct e as [[[[t0 v0] [t1 v1]] [t2 v2]] [t3 v3]]. unfold valid, np_valid, in_ranges. cbn [fst snd].
    intros Hv. btrue Hv. rewrite Hcl. cbn [np_encode_event fst snd]. rewrite Hmp.
    assert (v0 / np_shift_per c < np_shift_seg c) by (apply Z.div_lt_upper_bound; nia).
    assert ((v3 - 1) / np_dur_per c < np_dur_seg c) by (apply Z.div_lt_upper_bound; nia).
    repeat constructor; try lia; try (apply Z.div_pos; lia).
  Qed.

  (* decode (encode e) = e : the div/mod split of time shift and duration recombines *)
  Theorem noteperf_decode_label e hist :
    valid e = true -> np_decode c (np_encode_event c e) hist = Some e.
  Proof.
    destruct cfg as (Hs & Hs1 & Hsp & Hd & Hd1 & Hdp & Hmp & Hcl).
    destruct e as [[[[t0 v0] [t1 v1]] [t2 v2]] [t3 v3]]. unfold valid, np_valid. cbn [fst snd].
    intros Hv. btrue Hv. cbn [np_encode_event fst snd]. rewrite np_decode_6, Hmp.
    replace (v0 / np_shift_per c * np_shift_per c + v0 mod np_shift_per c) with v0 by lia.
    replace ((v3 - 1) / np_dur_per c * np_dur_per c + (v3 - 1) mod np_dur_per c + 1) with v3 by lia.
    replace (v1 - minp + minp) with v1 by lia. replace (v2 - 1 + 1) with v2 by lia.
    destruct ((0 <=? v0) && (K_PERF_MIN_PITCH <=? v1) && (v1 <=? K_PERF_MAX_PITCH) && (1 <=? v2) &&
              (v2 <=? K_MAX_NUM_VELOCITY_BINS) && (1 <=? v3)) eqn:Hchk; [|exfalso; clear - Hchk Hb9 Hb6 Hb5 Hb3 Hb2 Hb0 minp_ok maxp_ok nvb_ok; lia].
    apply Z.eqb_eq in Hv, Hb7, Hb4, Hb1. subst. reflexivity.
  Qed.

  Theorem noteperf_decode_label_seq (es : list npevent) p e :
    0 <= p -> nth_error es (Z.to_nat p) = Some e -> valid e = true ->
    exists l, np_label c es p = Some l /\ in_ranges l (np_classes c) /\
              np_decode c l (firstn (Z.to_nat p) es) = Some e.
  Proof.
    intros Hp He Hv. exists (np_encode_event c e). unfold np_label.
    rewrite py_nth_pos, He by lia. cbn [bind]. split; [reflexivity|].
    split; [now apply noteperf_label_range|now apply noteperf_decode_label].
  Qed.

  (* every in-range label decodes to a valid event whose label it is *)
  Theorem noteperf_decode_total l hist :
    in_ranges l (np_classes c) ->
    exists e, np_decode c l hist = Some e /\ valid e = true /\ np_encode_event c e = l.
  Proof.
    destruct cfg as (Hs & Hs1 & Hsp & Hd & Hd1 & Hdp & Hmp & Hcl).
    rewrite Hcl. intros H. apply in_ranges_6 in H.
    destruct H as (i0 & i1 & i2 & i3 & i4 & i5 & -> & R0 & R1 & R2 & R3 & R4 & R5).
    rewrite np_decode_6, Hmp.
    assert (i0 * np_shift_per c + i1 <= max_shift) by nia.
    assert (i4 * np_dur_per c + i5 + 1 <= max_dur) by nia.
    assert (0 <= i0 * np_shift_per c) by nia. assert (0 <= i4 * np_dur_per c) by nia.
    destruct ((0 <=? i0 * np_shift_per c + i1) && (K_PERF_MIN_PITCH <=? i2 + minp) &&
              (i2 + minp <=? K_PERF_MAX_PITCH) && (1 <=? i3 + 1) &&
              (i3 + 1 <=? K_MAX_NUM_VELOCITY_BINS) && (1 <=? i4 * np_dur_per c + i5 + 1)) eqn:Hchk; [|lia].
    eexists. split; [reflexivity|]. split.
    - unfold valid, np_valid. cbn [fst snd]. rewrite !Z.eqb_refl. lia.
    - cbn [np_encode_event fst snd]. rewrite Hmp.
      replace (i4 * np_dur_per c + i5 + 1 - 1) with (i4 * np_dur_per c + i5) by lia.
      rewrite !Z.div_add_l, !Z.div_small by lia.
      rewrite (Z.add_comm (i0 * _)), (Z.add_comm (i4 * _)), !Z.mod_add, !Z.mod_small by lia.
      repeat f_equal; lia.
  Qed.

  Lemma generate_np ls : forall evs0 evs,
    opt_all (map (fun l => np_decode c l []) ls) = Some evs ->
    generate (np_decode c) ls evs0 = Some (evs0 ++ evs).
  Proof.
    induction ls as [|l ls IH]; intros evs0 evs H; cbn in H.
    - inversion H. cbn. now rewrite app_nil_r.
    - destruct (np_decode c l []) as [e|] eqn:He; cbn in H; [|discriminate].
      destruct (opt_all _) as [r|] eqn:Hr; cbn in H; [|discriminate]. inversion H; subst.
      cbn [generate]. change (np_decode c l evs0) with (np_decode c l []). rewrite He. cbn [bind].
      rewrite (IH _ r eq_refl), <- app_assoc. reflexivity.
  Qed.

  (* the generation loop never fails on in-range labels, and labels_to_num_steps is the sum of the
     time shifts of the generated events plus the duration of the last one (0 for no labels) *)
  Theorem noteperf_generation_total ls :
    Forall (fun l => in_ranges l (np_classes c)) ls ->
    exists evs, generate (np_decode c) ls [] = Some evs /\ length evs = length ls /\
                Forall (fun e => valid e = true) evs /\
                np_num_steps c ls = Some (zsum (map np_shift_of evs) +
                                          match rev evs with [] => 0 | e :: _ => np_dur_of e end).
  Proof.
    intros Hl.
    assert (exists evs, opt_all (map (fun l => np_decode c l []) ls) = Some evs /\ length evs = length ls /\
                        Forall (fun e => valid e = true) evs) as (evs & Hevs & Hlen & Hv).
    { induction Hl as [|l ls Hl _ IH]; [exists []; cbn; auto|].
      destruct IH as (evs & Hevs & Hlen & Hv).
      destruct (noteperf_decode_total l [] Hl) as (e & He & Hve & _).
      exists (e :: evs). cbn. rewrite He; cbn. rewrite Hevs; cbn. auto. }
    exists evs. split; [now apply (generate_np ls [] evs)|]. split; [exact Hlen|]. split; [exact Hv|].
    unfold np_num_steps. rewrite Hevs. reflexivity.
  Qed.

  Theorem noteperf_num_steps_nil : np_num_steps c [] = Some 0.
  Proof. reflexivity. Qed.

  (** events_to_input: np.hstack of six one-hot vectors, one per label component: exactly
      input_size entries, and each block (of the size num_classes[i]) has exactly one 1,
      at the index of the i-th label component. *)
  Theorem noteperf_input_shape (es : list npevent) p e :
    0 <= p -> nth_error es (Z.to_nat p) = Some e -> valid e = true ->
    exists hs,
      np_input c es p = Some (concat hs) /\ zlen (concat hs) = np_input_size c /\
      hs = map (fun ic : Z * Z => onehot (snd ic) (fst ic)) (combine (np_encode_event c e) (np_classes c)) /\
      Forall is_one_hot hs /\ Forall2 (fun h m => zlen h = m) hs (np_classes c) /\
      Forall2 (fun h i => nth (Z.to_nat i) h 0 = 1) hs (np_encode_event c e).
  Proof.
    intros Hp He Hv. pose proof (noteperf_label_range e Hv) as Hr.
    destruct cfg as (Hs & Hs1 & Hsp & Hd & Hd1 & Hdp & Hmp & Hcl).
    unfold np_input, np_input_size. rewrite py_nth_pos, He by lia. cbn [bind].
    rewrite Hcl in *.
    destruct e as [[[[t0 v0] [t1 v1]] [t2 v2]] [t3 v3]]. cbn [np_encode_event fst snd] in *.
    apply in_ranges_6 in Hr. destruct Hr as (i0 & i1 & i2 & i3 & i4 & i5 & Heq & R0 & R1 & R2 & R3 & R4 & R5).
    inversion Heq as [[E0 E1 E2 E3 E4 E5]]. rewrite <- E0, <- E1, <- E2, <- E3, <- E4, <- E5 in *. clear Heq.
    cbn [combine map fst snd].
    assert (Hset : forall m i, 0 <= i < m -> py_set (zeros m) i 1 = Some (onehot m i)).
    { intros m i Hi. unfold onehot. apply py_set_pos. rewrite zeros_length. lia. }
    rewrite !Hset by lia. cbn [opt_all bind].
    eexists. split; [reflexivity|]. split.
    { cbn [concat]. rewrite !zlen_app, !onehot_length by lia. rewrite zlen_nil. cbn [zsum fold_right]. lia. }
    split; [reflexivity|]. split.
    { repeat constructor; apply onehot_is_one_hot; lia. }
    split.
    { repeat constructor; apply onehot_length; lia. }
    { repeat constructor; unfold onehot; apply nth_upd_same; unfold zeros; rewrite repeat_length; lia. }
  Qed.

  (* default_event_label (shift 0, pitch 60, velocity 1, duration 1): an in-range label decoding to that
     event whenever pitch 60 is inside the pitch range and there is at least one velocity bin *)
  Theorem noteperf_default_label hist :
    minp <= 60 <= maxp -> 1 <= nvb ->
    in_ranges (np_default_label c) (np_classes c) /\
    np_decode c (np_default_label c) hist = Some np_default_event.
  Proof.
    intros Hp Hn. assert (valid np_default_event = true) as Hv.
    { destruct cfg as (Hs & Hs1 & Hsp & Hd & Hd1 & Hdp & _).
      unfold valid, np_valid, np_default_event. cbn [fst snd]. rewrite !Z.eqb_refl.
      assert (0 <= max_shift) by nia. assert (1 <= max_dur) by nia. lia. }
    split; [now apply noteperf_label_range|now apply noteperf_decode_label].
  Qed.

  Theorem noteperf_roundtrip es ins labs :
    Forall (fun e => valid e = true) es ->
    encode (np c) es = Some (ins, labs) ->
    generate (np_decode c) labs (firstn 1 es) = Some es.
  Proof.
    intros Hv Henc.
    apply (roundtrip_generic (np c) es ins labs Henc).
    intros p Hp.
    destruct (nth_error es (Z.to_nat p)) as [a|] eqn:Ha.
    2:{ apply nth_error_None in Ha. unfold zlen in *. lia. }
    assert (valid a = true) as Hva by (rewrite Forall_forall in Hv; apply Hv; eapply nth_error_In; eauto).
    destruct (noteperf_decode_label_seq es p a ltac:(lia) Ha Hva) as (l & Hl & _ & Hd).
    exists l, a. cbn [ed_label ed_decode np]. auto.
  Qed.
End NotePerf.

Example noteperf_nonvacuous :
  exists c, np_make 4 15 16 0 127 = NpOk c /\
    np_shift_seg c = 4 /\ np_shift_per c = 4 /\ np_dur_seg c = 4 /\ np_dur_per c = 4 /\
    let e := ((EV_TIME_SHIFT, 7), (EV_NOTE_ON, 60), (EV_VELOCITY, 3), (EV_DURATION, 10)) in
    np_valid 4 15 16 0 127 e = true /\ np_encode_event c e = [1; 3; 60; 2; 2; 1] /\
    np_decode c [1; 3; 60; 2; 2; 1] [] = Some e /\
    np_make 4 16 16 0 127 = NpAssert /\ np_make 4 0 16 0 127 = NpValueError.
Proof. eexists. vm_compute. repeat split. Qed.

(** * ModuloPerformanceEventSequenceEncoderDecoder: labels are the performance one-hot's *)
Lemma perf_pitch_range_ok : K_PERF_MIN_PITCH <= K_PERF_MAX_PITCH.
Proof. unfold K_PERF_MIN_PITCH, K_PERF_MAX_PITCH. lia. Qed.

Theorem modulo_decode_label nb ms (es : list pevent) p e :
  0 <= nb -> 1 <= ms -> 0 <= p -> nth_error es (Z.to_nat p) = Some e ->
  perf_valid nb ms K_PERF_MIN_PITCH K_PERF_MAX_PITCH (fst e) (snd e) ->
  exists l, mp_label nb ms es p = Some l /\ 0 <= l < mp_num_classes nb ms /\
            mp_decode nb ms l (firstn (Z.to_nat p) es) = Some e.
Proof.
  intros Hnb Hms Hp He Hv.
  assert (perf_cfg_ok nb ms K_PERF_MIN_PITCH K_PERF_MAX_PITCH) as Hc
    by (repeat split; auto; apply perf_pitch_range_ok).
  destruct (perf_enc_dec _ _ _ _ _ _ Hc Hv) as (l & Hl & Hr & Hd).
  exists l. unfold mp_label, mp_decode, mp_num_classes, mp_oh_ranges.
  rewrite py_nth_pos, He by lia. cbn [bind]. repeat split; auto; try lia.
  rewrite Hd. now destruct e.
Qed.

Theorem modulo_decode_total nb ms l hist :
  0 <= nb -> 1 <= ms -> 0 <= l < mp_num_classes nb ms ->
  exists e, mp_decode nb ms l hist = Some e /\
            perf_valid nb ms K_PERF_MIN_PITCH K_PERF_MAX_PITCH (fst e) (snd e).
Proof.
  intros Hnb Hms Hl.
  assert (perf_cfg_ok nb ms K_PERF_MIN_PITCH K_PERF_MAX_PITCH) as Hc
    by (repeat split; auto; apply perf_pitch_range_ok).
  destruct (perf_dec_enc _ _ _ _ l Hc Hl) as (t & v & Hd & _ & Hv).
  exists (t, v). unfold mp_decode, mp_oh_ranges. auto.
Qed.

(** * ModuloPerformance input: count and block structure.
    The real vector holds float cos/sin values, which are NOT modelled: [mp_input] returns the
    layout (size, offset of the valid bit, lookup table, row, row mod 12) from which the harness
    rebuilds the floats (correspondence only).  What is proved: the vector has input_size entries
    = the sum of the encoder widths of the event ranges; the written cells — the valid bit plus
    two cells per (cos, sin) pair: 5 for note events, 3 for time shifts and velocities — are
    exactly the block of the event's own range (consecutive, disjoint blocks in range order), inside
    the vector; the row is inside the lookup table that is indexed. *)
Definition mp_width (r : mrange) : Z := snd r.
Definition mp_written (t : Z) : Z := if t =? 0 then 5 else 3.

Theorem modulo_input_size_count nb ms :
  mp_input_size nb ms =
  zsum (map mp_width K_MODULO_EVENT_RANGES) + K_MODULO_TIME_SHIFT_WIDTH +
  (if 0 <? nb then K_MODULO_VELOCITY_WIDTH else 0).
Proof.
  unfold mp_input_size, mp_ranges, mp_width. destruct (0 <? nb); reflexivity.
Qed.

Theorem modulo_input_layout nb ms (es : list pevent) p e :
  0 <= nb -> 1 <= ms -> 0 <= p -> nth_error es (Z.to_nat p) = Some e ->
  perf_valid nb ms K_PERF_MIN_PITCH K_PERF_MAX_PITCH (fst e) (snd e) ->
  exists off t row k mn mx,
    mp_input nb ms es p = Some [mp_input_size nb ms; off; t; row; if t =? 0 then row mod 12 else 0] /\
    (* the block written is the block of the event's own range ... *)
    nth_error (mp_ranges nb ms) k = Some (fst e, mn, mx, mp_written t) /\
    off = zsum (map mp_width (firstn k (mp_ranges nb ms))) /\ row = snd e - mn /\
    (* ... and lies inside the vector *)
    0 <= off /\ off + mp_written t <= mp_input_size nb ms /\
    (* the lookup table indexed and the row inside it (144 notes / max_shift_steps / num_velocity_bins rows) *)
    ((t = 0 /\ (fst e = EV_NOTE_ON \/ fst e = EV_NOTE_OFF) /\ 0 <= row < 144) \/
     (t = 1 /\ fst e = EV_TIME_SHIFT /\ 0 <= row < ms) \/
     (t = 2 /\ fst e = EV_VELOCITY /\ 0 <= row < nb)).
Proof.
  intros Hnb Hms Hp He Hv. destruct e as [ty v]. cbn [fst snd] in *.
  unfold mp_input. rewrite py_nth_pos, He by lia. cbn [bind fst snd].
  rewrite modulo_input_size_count.
  unfold perf_valid, K_PERF_MIN_PITCH, K_PERF_MAX_PITCH in Hv.
  unfold mp_ranges, K_MODULO_EVENT_RANGES, K_MODULO_TIME_SHIFT_WIDTH, K_MODULO_VELOCITY_WIDTH, mp_width, mp_written,
    EV_NOTE_ON, EV_NOTE_OFF, EV_TIME_SHIFT, EV_VELOCITY in *.
  destruct Hv as [[-> Hr]|[[-> Hr]|[[-> Hr]|[-> [Hnb0 Hr]]]]].
  - (* NOTE_ON *)
    destruct (0 <? nb) eqn:Hb; cbn.
    all: destruct ((v - 0 <? 0) || (144 <=? v - 0)) eqn:Hc; [lia|].
    all: exists 0, 0, (v - 0), 0%nat, 0, 127; cbn; repeat split; try lia; left; repeat split; try lia; now left.
  - (* NOTE_OFF *)
    destruct (0 <? nb) eqn:Hb; cbn.
    all: destruct ((v - 0 <? 0) || (144 <=? v - 0)) eqn:Hc; [lia|].
    all: exists 5, 0, (v - 0), 1%nat, 0, 127; cbn; repeat split; try lia; left; repeat split; try lia; now right.
  - (* TIME_SHIFT *)
    destruct (0 <? nb) eqn:Hb; cbn.
    all: destruct ((v - 1 <? 0) || (ms <=? v - 1)) eqn:Hc; [lia|].
    all: exists 10, 1, (v - 1), 2%nat, 1, ms; cbn; repeat split; try lia; right; left; repeat split; lia.
  - (* VELOCITY *)
    destruct (0 <? nb) eqn:Hb; [|lia]. cbn.
    destruct ((v - 1 <? 0) || (nb <=? v - 1)) eqn:Hc; [lia|].
    exists 13, 2, (v - 1), 3%nat, 1, nb; cbn; repeat split; try lia; right; right; repeat split; lia.
Qed.
