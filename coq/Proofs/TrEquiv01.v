(** Proofs/TrEquiv01.v — sequences_lib._is_power_of_2 (`x and not x & (x - 1)`) re-translated from its
    source on every run (Gen/Tr.v) equals the hand-written model Model/Quantize.is_pow2 for all integers. *)
From Coq Require Import ZArith Bool Lia.
From NS Require Import Base.TrTac Gen.Tr Model.Quantize.
Local Open Scope Z_scope.

Lemma tr_is_power_of_2_eq x : tr_is_power_of_2 x = Some (is_pow2 x).
Proof.
  (* the only fact about [land] that is needed: for x < 0, x & (x-1) is negative, hence non-zero; after that the
     bit-and is an opaque integer and the rest is propositional + linear (robust against re-phrasings of the
     Python expression such as `x != 0 and (x & (x - 1)) == 0`) *)
  unfold tr_is_power_of_2, is_pow2.
  rewrite ?(Z.land_comm (x - 1) x).
  assert (Hl : x < 0 -> Z.land x (x - 1) < 0) by (intros; apply Z.land_neg; lia).
  generalize dependent (Z.land x (x - 1)). intros l Hl. tr_solve.
Qed.
