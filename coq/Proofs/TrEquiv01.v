(** Proofs/TrEquiv01.v — sequences_lib._is_power_of_2 (`x and not x & (x - 1)`) re-translated from its
    source on every run (Gen/Tr.v) equals the hand-written model Model/Quantize.is_pow2 for all integers. *)
From Coq Require Import ZArith Bool Lia.
From NS Require Import Gen.Tr Model.Quantize.
Local Open Scope Z_scope.

Lemma tr_is_power_of_2_eq x : tr_is_power_of_2 x = Some (is_pow2 x).
Proof.
  unfold tr_is_power_of_2, is_pow2. f_equal. rewrite negb_involutive.
  destruct (Z.ltb_spec 0 x) as [Hp|Hn].
  - replace (x =? 0) with false by (symmetry; apply Z.eqb_neq; lia). reflexivity.
  - destruct (Z.eqb_spec x 0) as [->|Hx]; [reflexivity|]. cbn [negb andb].
    (* x < 0: x & (x-1) is negative, hence non-zero *)
    assert (Hl : Z.land x (x - 1) < 0) by (apply Z.land_neg; lia).
    apply Z.eqb_neq. lia.
Qed.
