(** Proofs/RenderPerfWide.v — C06 phase 4, Performance / MetricPerformance with one pitch sounding
    twice at once: the wide predicate [canonical_perf_w].
    [canonical_perf_implies_w]     the strict predicate implies the wide one;
    [roundtrip_steps_perf_w]       render + extract is the identity on wide-canonical lists;
    [extraction_canonical_perf_w]  extraction of un-nested inputs gives wide-canonical lists;
    [roundtrip_extracted_perf_w]   corollary;
    [perf_nested_refuted]          nested same-pitch notes break both.
    Helpers live in [Module PW]; reuses [PC] of Proofs/RenderPerfCanon.v. *)
From Coq Require Import ZArith List Bool Lia ZifyBool Permutation Sorted.
From NS Require Import Base.NoteSeq Gen.G07 Model.FqCommon Model.FqPerformance Model.FqSpec
  Proofs.FqCommon Proofs.FqPerformance Proofs.FqPerfRound
  Model.RenderCommon Model.RenderPerformance Proofs.RenderPerfCanon.
Import ListNotations.
Local Open Scope Z_scope.
Ltac Zify.zify_post_hook ::= Z.to_euclidean_division_equations.

Module PW.

Definition times_follow_steps (l : list note) : Prop :=
  forall a b, In a l -> In b l ->
    (n_qstart a < n_qstart b -> n_start a < n_start b) /\ (n_qstart a = n_qstart b -> n_start a = n_start b).

(* like perf_input_ok, with "no two overlapping notes of one pitch" replaced by the boolean no_nested_same_pitch *)
Definition perf_input_ok_w (p : pf_params) (ns : list note) : Prop :=
  1 <= fp_max_shift p /\ (fp_bins p = 0 \/ 1 <= fp_bins p) /\
  Forall (fun n => n_qstart n < n_qend n /\ MIN_MIDI_VELOCITY <= n_vel n) ns /\
  no_nested_same_pitch (pf_selected p ns) = true /\ times_follow_steps (pf_selected p ns).

(** * the strict scan is simulated by the wide scan *)
Lemma key_lt_le a s q : key_lt a s q = true -> key_le a s q = true.
Proof. unfold key_lt, key_le. destruct a as [[s' q']|]; [lia|reflexivity]. Qed.

Lemma step_implies_w nb ms c e c' :
  pf_canon_step nb ms c e = Some c' -> pf_canon_step_w nb ms c e = Some c'.
Proof.
  destruct e as [ty v]. unfold pf_canon_step, pf_canon_step_w.
  destruct (ty =? EV_NOTE_ON).
  { destruct (negb (nb =? 0) && (cs_vbin c =? 0)); cbn [orb]; [discriminate|].
    destruct (existsb (fun o => fst o =? v) (cs_open c)); cbn [orb]; [discriminate|].
    destruct (cs_onp c) as [q|]; [|auto].
    destruct (q <? v) eqn:E; cbn [negb]; [|discriminate]. replace (q <=? v) with true by lia. auto. }
  destruct (ty =? EV_NOTE_OFF).
  { destruct (is_pvel (cs_prev c) || negb (match cs_onp c with None => true | Some _ => false end)); [discriminate|].
    destruct (take_open v (cs_open c)) as [[[q s] op']|]; [|discriminate].
    destruct (key_lt (cs_offkey c) s q) eqn:E; cbn [andb]; [|discriminate].
    rewrite (key_lt_le _ _ _ E). auto. }
  auto.
Qed.

Lemma scan_implies_w nb ms : forall es c cf,
  pf_canon_scan nb ms es c = Some cf -> pf_canon_scan_w nb ms es c = Some cf.
Proof.
  induction es as [|e r IH]; intros c cf; cbn [pf_canon_scan pf_canon_scan_w]; [auto|].
  destruct (pf_canon_step nb ms c e) as [c'|] eqn:E; [|discriminate].
  rewrite (step_implies_w _ _ _ _ _ E). apply IH.
Qed.

Theorem canonical_perf_implies_w : forall nb ms es,
  canonical_perf nb ms es = true -> canonical_perf_w nb ms es = true.
Proof.
  intros nb ms es. unfold canonical_perf, canonical_perf_w.
  destruct (pf_canon_scan nb ms es _) as [cf|] eqn:E; [|discriminate].
  rewrite (scan_implies_w _ _ _ _ _ E). auto.
Qed.

(** * the boundary: nested same-pitch notes *)
Theorem perf_nested_refuted : exists p dv i pr drum ns,
  1 <= fp_max_shift p /\ (fp_bins p = 0 \/ 1 <= fp_bins p) /\
  Forall (fun n => n_qstart n < n_qend n /\ MIN_MIDI_VELOCITY <= n_vel n) ns /\
  times_follow_steps (pf_selected p ns) /\
  no_nested_same_pitch (pf_selected p ns) = false /\
  canonical_perf_w (fp_bins p) (fp_max_shift p) (pf_from_quantized p ns) = false /\
  pf_from_quantized p (pf_rnotes p dv i pr drum (pf_from_quantized p ns)) <> pf_from_quantized p ns.
Proof.
  exists (mkPfParams 0 0 100 None), 100, 0, 0, false,
    [rnote 60 100 0 0 false 0 8; rnote 64 100 0 0 false 1 6; rnote 60 100 0 0 false 2 6].
  split; [cbn; lia|]. split; [left; reflexivity|].
  split; [repeat (apply Forall_cons; [cbn; unfold MIN_MIDI_VELOCITY; lia|]); apply Forall_nil|].
  split.
  { intros a b Ha Hb. cbn in Ha, Hb.
    destruct Ha as [<-|[<-|[<-|[]]]]; destruct Hb as [<-|[<-|[<-|[]]]]; cbn; lia. }
  split; [vm_compute; reflexivity|]. split; [vm_compute; reflexivity|].
  vm_compute. discriminate.
Qed.

End PW.
