(** Proofs/RenderPerfWide.v — C06 phase 4, Performance / MetricPerformance with one pitch sounding
    twice at once: the wide predicate [canonical_perf_w].
    [canonical_perf_implies_w]     the strict predicate implies the wide one;
    [roundtrip_steps_perf_w]       render + extract is the identity on wide-canonical lists;
    [extraction_canonical_perf_w]  extraction of un-nested inputs gives wide-canonical lists;
    [roundtrip_extracted_perf_w]   corollary;
    [perf_nested_refuted]          nested same-pitch notes break both.
    Helpers live in [Module PW]; reuses [PC] of Proofs/RenderPerfCanon.v.

    round trip: every decoded note gets a rank = the index of its NOTE_ON ([dec4], [Tm4]; the rank
    travels in the spare field [n_rest], which the extractor ignores: [pfq_map]).  The open list
    is kept in NOTE_ON order ([Inv]: ranks increase, (start, pitch) keys do not decrease), so the
    FIFO pairing closes notes of equal key in rank order; hence in the decoded list (creation order)
    the (start, pitch) order with ties in list order is the rank order ([dec4_pairs]) and the STABLE
    [isort pf_le] sorts by rank ([isort_stable]).  The timed reading [Tm4] is strictly sorted by
    (step, rank) and a permutation of the encoder's tuples, which are sorted by the same order
    non-strictly: equal ([PC.sorted_perm_unique]); the loop maps it back to the list ([Tm4_loop]).
    extraction: [stageW] = PC.stageC with the open list possibly holding a pitch twice: the oldest
    open entry of the pitch has the same (start, pitch) key as the note being closed (no nesting). *)
From Coq Require Import ZArith List Bool Lia ZifyBool Permutation Sorted.
From NS Require Import Base.NoteSeq Gen.G07 Model.FqCommon Model.FqPerformance Model.FqSpec
  Proofs.FqCommon Proofs.FqPerformance Proofs.FqPerfRound
  Model.RenderCommon Model.RenderPerformance Proofs.RenderPerfCanon.
Import ListNotations.
Local Open Scope Z_scope.
Ltac Zify.zify_post_hook ::= Z.to_euclidean_division_equations.

Module PW.

Definition times_follow_steps (l : list note) : Prop :=
  forall a b, In a l -> In b l ->
    (n_qstart a < n_qstart b -> n_start a < n_start b) /\ (n_qstart a = n_qstart b -> n_start a = n_start b).

(* like perf_input_ok, with "no two overlapping notes of one pitch" replaced by the boolean no_nested_same_pitch *)
Definition perf_input_ok_w (p : pf_params) (ns : list note) : Prop :=
  1 <= fp_max_shift p /\ (fp_bins p = 0 \/ 1 <= fp_bins p) /\
  Forall (fun n => n_qstart n < n_qend n /\ MIN_MIDI_VELOCITY <= n_vel n) ns /\
  no_nested_same_pitch (pf_selected p ns) = true /\ times_follow_steps (pf_selected p ns).

(** * the strict scan is simulated by the wide scan *)
Lemma key_lt_le a s q : key_lt a s q = true -> key_le a s q = true.
Proof. unfold key_lt, key_le. destruct a as [[s' q']|]; [lia|reflexivity]. Qed.

Lemma step_implies_w nb ms c e c' :
  pf_canon_step nb ms c e = Some c' -> pf_canon_step_w nb ms c e = Some c'.
Proof.
  destruct e as [ty v]. unfold pf_canon_step, pf_canon_step_w.
  destruct (ty =? EV_NOTE_ON).
  { destruct (negb (nb =? 0) && (cs_vbin c =? 0)); cbn [orb]; [discriminate|].
    destruct (existsb (fun o => fst o =? v) (cs_open c)); cbn [orb]; [discriminate|].
    destruct (cs_onp c) as [q|]; [|auto].
    destruct (q <? v) eqn:E; cbn [negb]; [|discriminate]. replace (q <=? v) with true by lia. auto. }
  destruct (ty =? EV_NOTE_OFF).
  { destruct (is_pvel (cs_prev c) || negb (match cs_onp c with None => true | Some _ => false end)); [discriminate|].
    destruct (take_open v (cs_open c)) as [[[q s] op']|]; [|discriminate].
    destruct (key_lt (cs_offkey c) s q) eqn:E; cbn [andb]; [|discriminate].
    rewrite (key_lt_le _ _ _ E). auto. }
  auto.
Qed.

Lemma scan_implies_w nb ms : forall es c cf,
  pf_canon_scan nb ms es c = Some cf -> pf_canon_scan_w nb ms es c = Some cf.
Proof.
  induction es as [|e r IH]; intros c cf; cbn [pf_canon_scan pf_canon_scan_w]; [auto|].
  destruct (pf_canon_step nb ms c e) as [c'|] eqn:E; [|discriminate].
  rewrite (step_implies_w _ _ _ _ _ E). apply IH.
Qed.

Theorem canonical_perf_implies_w : forall nb ms es,
  canonical_perf nb ms es = true -> canonical_perf_w nb ms es = true.
Proof.
  intros nb ms es. unfold canonical_perf, canonical_perf_w.
  destruct (pf_canon_scan nb ms es _) as [cf|] eqn:E; [|discriminate].
  rewrite (scan_implies_w _ _ _ _ _ E). auto.
Qed.

(** * the boundary: nested same-pitch notes *)
Theorem perf_nested_refuted : exists p dv i pr drum ns,
  1 <= fp_max_shift p /\ (fp_bins p = 0 \/ 1 <= fp_bins p) /\
  Forall (fun n => n_qstart n < n_qend n /\ MIN_MIDI_VELOCITY <= n_vel n) ns /\
  times_follow_steps (pf_selected p ns) /\
  no_nested_same_pitch (pf_selected p ns) = false /\
  canonical_perf_w (fp_bins p) (fp_max_shift p) (pf_from_quantized p ns) = false /\
  pf_from_quantized p (pf_rnotes p dv i pr drum (pf_from_quantized p ns)) <> pf_from_quantized p ns.
Proof.
  exists (mkPfParams 0 0 100 None), 100, 0, 0, false,
    [rnote 60 100 0 0 false 0 8; rnote 64 100 0 0 false 1 6; rnote 60 100 0 0 false 2 6].
  split; [cbn; lia|]. split; [left; reflexivity|].
  split; [repeat (apply Forall_cons; [cbn; unfold MIN_MIDI_VELOCITY; lia|]); apply Forall_nil|].
  split.
  { intros a b Ha Hb. cbn in Ha, Hb.
    destruct Ha as [<-|[<-|[<-|[]]]]; destruct Hb as [<-|[<-|[<-|[]]]]; cbn; lia. }
  split; [vm_compute; reflexivity|]. split; [vm_compute; reflexivity|].
  vm_compute. discriminate.
Qed.


(** * extraction of un-nested inputs gives wide-canonical lists *)
Lemma scan_app_w nb ms l1 : forall l2 c,
  pf_canon_scan_w nb ms (l1 ++ l2) c
  = match pf_canon_scan_w nb ms l1 c with Some c' => pf_canon_scan_w nb ms l2 c' | None => None end.
Proof.
  induction l1 as [|e l1 IH]; intros l2 c; cbn [app pf_canon_scan_w]; [reflexivity|].
  destruct (pf_canon_step_w nb ms c e); [apply IH|reflexivity].
Qed.

Lemma step_shift_w nb ms c v : PC.prevok ms c -> 1 <= v <= ms ->
  pf_canon_step_w nb ms c (EV_TIME_SHIFT, v) = Some (PC.shifted c v v).
Proof. intros H1 H2. apply step_implies_w. now apply PC.step_shift. Qed.

Lemma step_vel_w nb ms c v : nb <> 0 -> cs_prev c <> PVel -> 1 <= v -> v <> cs_vbin c ->
  pf_canon_step_w nb ms c (EV_VELOCITY, v)
  = Some (mkPfCst (cs_step c) (cs_open c) v PVel (cs_offkey c) (cs_onp c)).
Proof. intros. apply step_implies_w. now apply PC.step_vel. Qed.

Lemma step_on_w nb ms c v : (nb <> 0 -> cs_vbin c <> 0) ->
  match cs_onp c with None => True | Some q => q <= v end ->
  pf_canon_step_w nb ms c (EV_NOTE_ON, v)
  = Some (mkPfCst (cs_step c) (cs_open c ++ [(v, cs_step c)]) (cs_vbin c) POn (cs_offkey c) (Some v)).
Proof.
  intros Hvb Honp. unfold pf_canon_step_w. change (EV_NOTE_ON =? EV_NOTE_ON) with true. cbn iota.
  replace (negb (nb =? 0) && (cs_vbin c =? 0)) with false by lia.
  destruct (cs_onp c) as [q|]; [replace (q <=? v) with true by lia|]; reflexivity.
Qed.

Lemma step_off_w nb ms c v q s op' : cs_prev c <> PVel -> cs_onp c = None ->
  take_open v (cs_open c) = Some ((q, s), op') -> key_le (cs_offkey c) s q = true -> s < cs_step c ->
  pf_canon_step_w nb ms c (EV_NOTE_OFF, v) = Some (mkPfCst (cs_step c) op' (cs_vbin c) POff (Some (s, q)) None).
Proof.
  intros Hp Honp Htk Hk Hs. unfold pf_canon_step_w.
  change (EV_NOTE_OFF =? EV_NOTE_ON) with false. change (EV_NOTE_OFF =? EV_NOTE_OFF) with true. cbn iota.
  rewrite Honp, Htk, Hk. replace (s <? cs_step c) with true by lia.
  destruct (cs_prev c); try reflexivity. congruence.
Qed.

Lemma scan_repeat_shift_w nb ms v : 1 <= ms -> 1 <= v <= ms -> forall n c, PC.prevok ms c ->
  pf_canon_scan_w nb ms (repeat (EV_TIME_SHIFT, ms) n ++ [(EV_TIME_SHIFT, v)]) c
  = Some (PC.shifted c (Z.of_nat n * ms + v) v).
Proof.
  intros Hms Hv n c Hc. apply scan_implies_w. now apply PC.scan_repeat_shift.
Qed.

Lemma scan_pf_shifts_w nb ms d c : 1 <= ms -> 0 < d -> PC.prevok ms c ->
  exists u, pf_canon_scan_w nb ms (pf_shifts ms d) c = Some (PC.shifted c d u).
Proof.
  intros Hms Hd Hc. destruct (PC.scan_pf_shifts nb ms d c Hms Hd Hc) as (u & Hu).
  exists u. now apply scan_implies_w.
Qed.

Lemma map_const_shift {A B} (f : A -> B) k M T :
  (forall b, In b M -> f b = k) -> map f M ++ k :: T = k :: map f M ++ T.
Proof.
  induction M as [|b M IH]; intros H; cbn [map app]; [reflexivity|].
  rewrite (H b (or_introl eq_refl)). f_equal. apply IH. intros; apply H; now right.
Qed.

Lemma split_first_pitch q (L : list tev) :
  (forall b, In b L -> n_pitch (te_note b) <> q) \/
  exists A o B, L = A ++ o :: B /\ n_pitch (te_note o) = q /\ forall a, In a A -> n_pitch (te_note a) <> q.
Proof.
  induction L as [|x L IH]; [left; intros b []|].
  destruct (Z.eq_dec (n_pitch (te_note x)) q) as [E|E].
  - right. exists [], x, L. split; [reflexivity|]. split; [exact E|intros a []].
  - destruct IH as [IH|(A & o & B & -> & Ho & HA)].
    + left. intros b [<-|Hb]; [exact E|now apply IH].
    + right. exists (x :: A), o, B. split; [reflexivity|]. split; [exact Ho|].
      intros a [<-|Ha]; [exact E|now apply HA].
Qed.

Section StageW.
  Variable sel : list note.
  Variables start nb ms : Z.
  Hypothesis Hms : 1 <= ms.
  Hypothesis Hnb : nb = 0 \/ 1 <= nb.
  Hypothesis Hlen : forall n, In n sel -> n_qstart n < n_qend n.
  Hypothesis Hvel : forall n, In n sel -> MIN_MIDI_VELOCITY <= n_vel n.
  Hypothesis Hord : forall i j a b, (i < j)%nat -> nth_error sel i = Some a -> nth_error sel j = Some b ->
    n_qstart a < n_qstart b \/ (n_qstart a = n_qstart b /\ n_pitch a <= n_pitch b).
  Hypothesis Hnest : forall a b, In a sel -> In b sel -> n_pitch a = n_pitch b ->
    n_qstart a < n_qstart b -> n_qend a <= n_qend b.

  Lemma valid_ord x y : valid sel x -> valid sel y -> te_idx x < te_idx y ->
    n_qstart (te_note x) < n_qstart (te_note y) \/
    (n_qstart (te_note x) = n_qstart (te_note y) /\ n_pitch (te_note x) <= n_pitch (te_note y)).
  Proof. intros (Hx0 & Hx & _) (Hy0 & Hy & _) Hlt. eapply Hord; [|exact Hx|exact Hy]. lia. Qed.

  Lemma valid_in t : valid sel t -> In (te_note t) sel.
  Proof. intros (_ & Hx & _). eapply nth_error_In; eassumption. Qed.

  Definition okey (o : tev) : Z * Z := (n_pitch (te_note o), te_step o - start).

  Definition lowc (c : pf_cst) (t : tev) : Prop :=
    (te_off t = true -> cs_onp c = None /\
       key_le (cs_offkey c) (n_qstart (te_note t) - start) (n_pitch (te_note t)) = true) /\
    (te_off t = false -> match cs_onp c with None => True | Some q => q <= n_pitch (te_note t) end).

  Lemma stageW : forall R O cur vbin c,
    StronglySorted tlt R -> StronglySorted tlt O ->
    Forall (valid sel) R -> Forall (valid sel) O -> Forall (fun o => te_off o = false) O ->
    (forall o, In o O -> In (off_of (te_idx o) (te_note o)) R /\ forall t, In t R -> tlt o t) ->
    (forall t, In t R -> te_off t = true ->
       (exists o, In o O /\ t = off_of (te_idx o) (te_note o)) \/ In (on_of (te_idx t) (te_note t)) R) ->
    (forall t, In t R -> te_off t = false -> In (off_of (te_idx t) (te_note t)) R) ->
    (forall t, In t R -> cur <= te_step t) ->
    cs_step c = cur - start -> cs_open c = map okey O -> cs_vbin c = vbin ->
    (cs_prev c = PStart \/ cs_prev c = POff \/ (cs_prev c = POn /\ O <> [])) ->
    (forall t, In t R -> te_step t = cur -> lowc c t) ->
    exists cf, pf_canon_scan_w nb ms (pf_loop nb ms R cur vbin) c = Some cf /\ cs_open cf = [] /\
               (cs_prev cf = PStart \/ cs_prev cf = POff).
  Proof.
    induction R as [|t R' IH]; intros O cur vbin c HsR HsO HvR HvO HoffO Hc He Hg Hcur.
    - intros Hstep Hopen Hvb Hprev Hlow. assert (O = []) by (destruct O as [|o O']; [reflexivity|]; destruct (Hc o (or_introl eq_refl)) as ([] & _)).
      subst O. cbn [pf_loop pf_canon_scan_w]. exists c. split; [reflexivity|]. split; [exact Hopen|].
      destruct Hprev as [H|[H|(_ & H)]]; auto. contradiction.
    - inversion HsR as [|? ? HsR' HfR]; subst. rewrite Forall_forall in HfR.
      inversion HvR as [|? ? Hvt HvR']; subst.
      intros Hstep Hopen Hvb Hprev Hlow.
      assert (Hcur0 : cur <= te_step t) by (apply Hcur; now left).
      assert (Hcur' : (if cur <? te_step t then te_step t else cur) = te_step t)
        by (destruct (cur <? te_step t) eqn:E; lia).
      assert (Hnext : forall u, In u R' -> te_step t <= te_step u).
      { intros u Hu. specialize (HfR u Hu). unfold tlt in HfR. lia. }
      assert (Hpok : PC.prevok ms c).
      { split; [intros H|intros u H]; rewrite H in Hprev; destruct Hprev as [H'|[H'|(H' & _)]]; discriminate. }
      cbn [pf_loop]. rewrite Hcur'.
      (* the state after the time shifts *)
      assert (Hsh : exists c1,
        (forall rest, pf_canon_scan_w nb ms ((if cur <? te_step t then pf_shifts ms (te_step t - cur) else []) ++ rest) c
                      = pf_canon_scan_w nb ms rest c1) /\
        cs_step c1 = te_step t - start /\ cs_open c1 = cs_open c /\ cs_vbin c1 = vbin /\ cs_prev c1 <> PVel /\
        (forall t', In t' (t :: R') -> te_step t' = te_step t -> lowc c1 t')).
      { destruct (cur <? te_step t) eqn:E.
        - destruct (scan_pf_shifts_w nb ms (te_step t - cur) c Hms ltac:(lia) Hpok) as (u & Hu).
          exists (PC.shifted c (te_step t - cur) u). split; [intros rest; now rewrite scan_app_w, Hu|].
          unfold PC.shifted. cbn [cs_step cs_open cs_vbin cs_prev].
          split; [lia|]. split; [reflexivity|]. split; [exact Hvb|]. split; [discriminate|].
          intros t' _ _. split; intros _; [split; reflexivity|exact I].
        - exists c. assert (cur = te_step t) by lia.
          split; [intros; reflexivity|]. split; [lia|]. split; [reflexivity|]. split; [exact Hvb|].
          split; [apply Hpok|]. intros t' Ht' Hs'. apply Hlow; [exact Ht'|lia]. }
      destruct Hsh as (c1 & Hc1 & Hst1 & Hop1 & Hvb1 & Hpv1 & Hlow1).
      rewrite Hc1. clear Hc1.
      destruct (te_off t) eqn:Eoff.
      + (* NOTE_OFF *)
        cbn [negb]. rewrite andb_false_r. cbn [andb app pf_canon_scan_w].
        destruct (He t (or_introl eq_refl) Eoff) as [(o & HoO & Hto)|Hon].
        2:{ exfalso. destruct Hon as [Hon|Hon].
            - apply (f_equal te_off) in Hon. cbn in Hon. congruence.
            - specialize (HfR _ Hon). pose proof (valid_len sel Hlen t Hvt). destruct Hvt as (_ & _ & Hst).
              rewrite Eoff in Hst. unfold tlt in HfR. cbn in HfR. lia. }
        destruct (in_split o O HoO) as (O1 & O2 & HO). subst O.
        assert (Hvo : valid sel o) by (rewrite Forall_forall in HvO; now apply HvO).
        assert (Hoo : te_off o = false) by (rewrite Forall_forall in HoffO; now apply HoffO).
        assert (Hidx : te_idx t = te_idx o /\ te_note t = te_note o) by (rewrite Hto; split; reflexivity).
        destruct Hidx as (Hti & Htn).
        destruct (StronglySorted_app_inv _ _ _ HsO) as (_ & _ & Hcross).
        assert (Hsteps : te_step t = n_qend (te_note o) /\ te_step o = n_qstart (te_note o)).
        { destruct Hvo as (_ & _ & Hso). rewrite Hoo in Hso. rewrite Hto. cbn. auto. }
        destruct Hsteps as (Hst & Hso). pose proof (valid_len sel Hlen o Hvo) as Hl.
        (* an earlier open note of the same pitch started on the same step *)
        assert (HK : forall b, In b O1 -> n_pitch (te_note b) = n_pitch (te_note o) -> te_step b = te_step o).
        { intros b Hb Hp.
          assert (HbO : In b (O1 ++ o :: O2)) by (apply in_or_app; now left).
          assert (Hvb' : valid sel b) by (rewrite Forall_forall in HvO; now apply HvO).
          assert (Hob : te_off b = false) by (rewrite Forall_forall in HoffO; now apply HoffO).
          pose proof (Hcross b o Hb (or_introl eq_refl)) as Hlt.
          assert (Hneq : te_idx b <> te_idx o).
          { intros Heq. pose proof (valid_same_idx _ _ _ Hvb' Hvo Heq) as Hnote.
            assert (b = o) by (rewrite (valid_eta _ b Hvb'), (valid_eta _ o Hvo), Hoo, Hob, Heq, Hnote; reflexivity).
            subst b. exact (tlt_irrefl _ Hlt). }
          destruct (Hc b HbO) as (Hoffb & _).
          assert (HoffR : In (off_of (te_idx b) (te_note b)) R').
          { destruct Hoffb as [Heq|H]; [|exact H]. rewrite Hto in Heq.
            apply (f_equal te_idx) in Heq. cbn in Heq. congruence. }
          pose proof (HfR _ HoffR) as Htb. rewrite Hto in Htb. unfold tlt in Htb, Hlt.
          cbn [te_step te_idx te_off off_of] in Htb.
          assert (Hsb : te_step b = n_qstart (te_note b)) by (destruct Hvb' as (_ & _ & H'); now rewrite Hob in H').
          destruct (Z.eq_dec (te_step b) (te_step o)) as [E|E]; [exact E|exfalso].
          assert (Hlt' : n_qstart (te_note b) < n_qstart (te_note o)) by lia.
          pose proof (Hnest _ _ (valid_in b Hvb') (valid_in o Hvo) Hp Hlt') as Hn.
          assert (Hii : te_idx o < te_idx b) by (destruct Htb as [H|(H1 & [H|(_ & H & _)])]; [lia|exact H|discriminate]).
          pose proof (valid_ord o b Hvo Hvb' Hii). lia. }
        assert (Htk : take_open (n_pitch (te_note t)) (map okey (O1 ++ o :: O2))
                      = Some (okey o, map okey (O1 ++ O2))).
        { rewrite Htn. destruct (split_first_pitch (n_pitch (te_note o)) O1) as [Hnone|(A & o' & B & HO1 & Hpo' & HA)].
          - rewrite !map_app. cbn [map]. apply (PC.take_open_split _ _ (okey o)); [|reflexivity].
            intros y Hy Hp. apply in_map_iff in Hy. destruct Hy as (b & <- & Hb). exact (Hnone b Hb Hp).
          - subst O1.
            assert (Hso' : te_step o' = te_step o).
            { apply HK; [apply in_or_app; right; now left|exact Hpo']. }
            assert (Hko' : okey o' = okey o) by (unfold okey; rewrite Hpo', Hso'; reflexivity).
            assert (HB : forall b, In b B -> okey b = okey o).
            { intros b Hb.
              assert (HsO' := HsO). rewrite <- app_assoc in HsO'. cbn [app] in HsO'.
              destruct (StronglySorted_app_inv _ _ _ HsO') as (_ & Hs2 & _).
              apply StronglySorted_inv in Hs2. destruct Hs2 as (Hs3 & Hf3). rewrite Forall_forall in Hf3.
              assert (Hlt1 : tlt o' b) by (apply Hf3, in_or_app; now left).
              destruct (StronglySorted_app_inv _ _ _ Hs3) as (_ & _ & Hcr).
              assert (Hlt2 : tlt b o) by (apply Hcr; [exact Hb|now left]).
              assert (Hin1 : In o' ((A ++ o' :: B) ++ o :: O2))
                by (apply in_or_app; left; apply in_or_app; right; now left).
              assert (Hin2 : In b ((A ++ o' :: B) ++ o :: O2))
                by (apply in_or_app; left; apply in_or_app; right; now right).
              rewrite Forall_forall in HvO, HoffO.
              pose proof (HvO _ Hin1) as Hv1. pose proof (HvO _ Hin2) as Hv2.
              pose proof (HoffO _ Hin1) as Ho1. pose proof (HoffO _ Hin2) as Ho2.
              unfold tlt in Hlt1, Hlt2. rewrite Ho1, Ho2 in Hlt1. rewrite Ho2, Hoo in Hlt2.
              assert (Hsb : te_step b = te_step o) by lia.
              assert (Hi1 : te_idx o' < te_idx b) by (destruct Hlt1 as [H|(_ & [H|(_ & _ & H)])]; [lia|exact H|discriminate]).
              assert (Hi2 : te_idx b < te_idx o) by (destruct Hlt2 as [H|(_ & [H|(_ & _ & H)])]; [lia|exact H|discriminate]).
              pose proof (valid_ord o' b Hv1 Hv2 Hi1) as Q1. pose proof (valid_ord b o Hv2 Hvo Hi2) as Q2.
              assert (S1 : te_step o' = n_qstart (te_note o')) by (destruct Hv1 as (_ & _ & H'); now rewrite Ho1 in H').
              assert (S2 : te_step b = n_qstart (te_note b)) by (destruct Hv2 as (_ & _ & H'); now rewrite Ho2 in H').
              unfold okey. f_equal; lia. }
            rewrite <- app_assoc. cbn [app]. rewrite (map_app okey A). cbn [map].
            rewrite (PC.take_open_split _ _ (okey o') (map okey (B ++ o :: O2))).
            + rewrite Hko'. do 2 f_equal. rewrite !map_app. cbn [map]. rewrite <- app_assoc. cbn [app].
              f_equal. rewrite Hko'. apply map_const_shift. exact HB.
            + intros y Hy Hp. apply in_map_iff in Hy. destruct Hy as (a & <- & Ha). exact (HA a Ha Hp).
            + unfold okey. cbn [fst]. exact Hpo'. }
        destruct (Hlow1 t (or_introl eq_refl) eq_refl) as (Hlo & _). destruct (Hlo Eoff) as (Honp1 & Hkey1).
        rewrite (step_off_w nb ms c1 _ (n_pitch (te_note o)) (te_step o - start) (map okey (O1 ++ O2))); auto.
        2:{ rewrite Hop1, Hopen. exact Htk. }
        2:{ rewrite Htn, <- Hso in Hkey1. exact Hkey1. }
        2:{ lia. }
        apply (IH (O1 ++ O2) (te_step t) vbin); auto.
        * eapply StronglySorted_remove; exact HsO.
        * rewrite Forall_forall in *. intros x Hx. apply HvO. apply in_app_or in Hx. apply in_or_app.
          destruct Hx; [now left|right; now right].
        * rewrite Forall_forall in *. intros x Hx. apply HoffO. apply in_app_or in Hx. apply in_or_app.
          destruct Hx; [now left|right; now right].
        * intros o' Ho'.
          assert (Ho'O : In o' (O1 ++ o :: O2)).
          { apply in_app_or in Ho'. apply in_or_app. destruct Ho'; [now left|right; now right]. }
          destruct (Hc o' Ho'O) as (Hoff' & Hlt'). split; [|intros u Hu; apply Hlt'; now right].
          destruct Hoff' as [Heq|H]; [|exact H]. exfalso.
          rewrite Hto in Heq. injection Heq as _ Hi Hn.
          assert (Hvo' : valid sel o') by (rewrite Forall_forall in HvO; now apply HvO).
          assert (Hoo' : te_off o' = false) by (rewrite Forall_forall in HoffO; now apply HoffO).
          assert (o' = o).
          { rewrite (valid_eta _ o' Hvo'), (valid_eta _ o Hvo), Hoo, Hoo'. congruence. }
          subst o'. apply in_app_or in Ho'. destruct Ho' as [H1|H2].
          -- exact (tlt_irrefl _ (Hcross o o H1 (or_introl eq_refl))).
          -- apply StronglySorted_app_inv in HsO. destruct HsO as (_ & Hs2 & _).
             inversion Hs2 as [|? ? _ Hf2]; subst. rewrite Forall_forall in Hf2.
             exact (tlt_irrefl _ (Hf2 o H2)).
        * intros u Hu Huoff. destruct (He u (or_intror Hu) Huoff) as [(o'' & Ho'' & Hu'')|Hon].
          -- left. exists o''. split; [|exact Hu''].
             apply in_app_or in Ho''. apply in_or_app. destruct Ho'' as [H|[H|H]]; [now left| |now right].
             exfalso. subst o''. rewrite <- Hto in Hu''. subst u. exact (tlt_irrefl _ (HfR t Hu)).
          -- right. destruct Hon as [Heq|H]; [|exact H].
             apply (f_equal te_off) in Heq. cbn in Heq. congruence.
        * intros u Hu Huoff. destruct (Hg u (or_intror Hu) Huoff) as [Heq|H]; [|exact H].
          exfalso. rewrite Hto in Heq. injection Heq as _ Hi Hn.
          assert (Hvu : valid sel u) by (rewrite Forall_forall in HvR'; now apply HvR').
          assert (u = o).
          { rewrite (valid_eta _ u Hvu), (valid_eta _ o Hvo), Hoo, Huoff. congruence. }
          subst u. destruct (Hc o HoO) as (_ & Hlt). exact (tlt_irrefl _ (Hlt o (or_intror Hu))).
        * (* the bounds for the rest of this step *)
          intros u Hu Hus. unfold lowc. cbn [cs_onp cs_offkey].
          assert (Hvu : valid sel u) by (rewrite Forall_forall in HvR'; now apply HvR').
          split; [|intros _; exact I]. intros Huoff. split; [reflexivity|].
          pose proof (HfR u Hu) as Hlt. unfold tlt in Hlt. rewrite Eoff, Huoff in Hlt.
          assert (Hii : te_idx t < te_idx u) by (destruct Hlt as [H|(_ & [H|(_ & H & _)])]; [lia|exact H|discriminate]).
          pose proof (valid_ord t u Hvt Hvu Hii) as Ho. rewrite Htn in Ho. unfold key_le. lia.
      + (* NOTE_ON, possibly after a VELOCITY *)
        cbn [negb]. rewrite andb_true_r.
        set (b := vel_to_bin (n_vel (te_note t)) nb).
        set (change := negb (nb =? 0) && negb (b =? vbin)).
        assert (Hb : nb <> 0 -> 1 <= b).
        { intros Hz. apply vel_to_bin_pos; [lia|]. apply Hvel, valid_in, Hvt. }
        assert (Hve : exists c2,
          (forall rest, pf_canon_scan_w nb ms ((if change then [(EV_VELOCITY, b) : pevent] else []) ++ rest) c1
                        = pf_canon_scan_w nb ms rest c2) /\
          cs_step c2 = cs_step c1 /\ cs_open c2 = cs_open c1 /\ cs_vbin c2 = (if change then b else vbin) /\
          cs_offkey c2 = cs_offkey c1 /\ cs_onp c2 = cs_onp c1 /\ (nb <> 0 -> cs_vbin c2 <> 0)).
        { unfold change. destruct (nb =? 0) eqn:E0; cbn [negb andb].
          - exists c1. repeat split; auto. lia.
          - destruct (b =? vbin) eqn:Eb; cbn [negb].
            + exists c1. repeat split; auto. lia.
            + exists (mkPfCst (cs_step c1) (cs_open c1) b PVel (cs_offkey c1) (cs_onp c1)).
              split; [|cbn; repeat split; auto; lia].
              intros rest. cbn [app pf_canon_scan_w]. rewrite step_vel_w; auto; lia. }
        destruct Hve as (c2 & Hc2 & Hst2 & Hop2 & Hvb2 & Hok2 & Hon2 & Hnz2).
        rewrite Hc2. clear Hc2. cbn [app pf_canon_scan_w].
        assert (Hvst : te_step t = n_qstart (te_note t)) by (destruct Hvt as (_ & _ & H); now rewrite Eoff in H).
        destruct (Hlow1 t (or_introl eq_refl) eq_refl) as (_ & Hlo). specialize (Hlo Eoff).
        rewrite step_on_w; auto.
        2:{ rewrite Hon2. exact Hlo. }
        apply (IH (O ++ [t]) (te_step t) (if change then b else vbin)); auto.
        * apply StronglySorted_snoc; [exact HsO|]. intros y Hy. destruct (Hc y Hy) as (_ & Hlt). apply Hlt. now left.
        * apply Forall_app. split; [exact HvO|]. constructor; [exact Hvt|constructor].
        * apply Forall_app. split; [exact HoffO|]. constructor; [exact Eoff|constructor].
        * intros o Ho. apply in_app_or in Ho. destruct Ho as [Ho|[<-|[]]].
          -- destruct (Hc o Ho) as (Hoff & Hlt). split; [|intros u Hu; apply Hlt; now right].
             destruct Hoff as [Heq|H]; [|exact H]. apply (f_equal te_off) in Heq. cbn in Heq. congruence.
          -- split; [|intros u Hu; now apply HfR].
             destruct (Hg t (or_introl eq_refl) Eoff) as [Heq|H]; [|exact H].
             apply (f_equal te_off) in Heq. cbn in Heq. congruence.
        * intros u Hu Huoff. destruct (He u (or_intror Hu) Huoff) as [(o & Ho & Huo)|Hon].
          -- left. exists o. split; [apply in_or_app; now left|exact Huo].
          -- destruct Hon as [Heq|H]; [|right; exact H].
             left. exists t. split; [apply in_or_app; right; now left|].
             assert (Hvu : valid sel u) by (rewrite Forall_forall in HvR'; now apply HvR').
             pose proof (valid_eta _ u Hvu) as Hu'. rewrite Huoff in Hu'. rewrite Hu', Heq. reflexivity.
        * intros u Hu Huoff. destruct (Hg u (or_intror Hu) Huoff) as [Heq|H]; [|exact H].
          apply (f_equal te_off) in Heq. cbn in Heq. congruence.
        * cbn [cs_step]. lia.
        * cbn [cs_open]. rewrite Hop2, Hop1, Hopen, map_app. cbn [map okey]. rewrite Hst2, Hst1. reflexivity.
        * right. right. split; [reflexivity|]. intros H. apply app_eq_nil in H. destruct H; discriminate.
        * intros u Hu Hus. unfold lowc. cbn [cs_onp cs_offkey].
          assert (Hvu : valid sel u) by (rewrite Forall_forall in HvR'; now apply HvR').
          pose proof (HfR u Hu) as Hlt. unfold tlt in Hlt. rewrite Eoff in Hlt.
          pose proof (valid_len sel Hlen u Hvu) as Hlu.
          split.
          -- intros Huoff. exfalso. rewrite Huoff in Hlt.
             assert (Hsu : te_step u = n_qend (te_note u)) by (destruct Hvu as (_ & _ & H); now rewrite Huoff in H).
             destruct Hlt as [H|(_ & [H|(Hi & _)])]; [lia| |].
             ++ pose proof (valid_ord t u Hvt Hvu H). lia.
             ++ pose proof (valid_same_idx _ _ _ Hvt Hvu Hi) as Hn. rewrite Hn in Hvst. lia.
          -- intros Huoff. rewrite Huoff in Hlt.
             assert (Hsu : te_step u = n_qstart (te_note u)) by (destruct Hvu as (_ & _ & H); now rewrite Huoff in H).
             destruct Hlt as [H|(_ & [H|(_ & _ & H)])]; [lia| |discriminate].
             pose proof (valid_ord t u Hvt Hvu H). lia.
  Qed.
End StageW.

Lemma no_nested_spec l : no_nested_same_pitch l = true ->
  forall a b, In a l -> In b l -> n_pitch a = n_pitch b -> n_qstart a < n_qstart b -> n_qend a <= n_qend b.
Proof.
  unfold no_nested_same_pitch. intros H a b Ha Hb Hp Hs.
  rewrite forallb_forall in H. specialize (H a Ha). rewrite forallb_forall in H. specialize (H b Hb). lia.
Qed.

Theorem extraction_canonical_perf_w : forall p ns,
  perf_input_ok_w p ns ->
  canonical_perf_w (fp_bins p) (fp_max_shift p) (pf_from_quantized p ns) = true.
Proof.
  intros p ns (Hms & Hnb & Hwf & Hno & Htf). unfold pf_from_quantized.
  set (sel := pf_sorted_notes (fp_start p) (fp_instrument p) ns).
  set (start := fp_start p). set (nb := fp_bins p) in *. set (ms := fp_max_shift p) in *.
  assert (Hperm : Permutation sel (pf_selected p ns)) by apply isort_perm.
  assert (Hsel_in : forall n, In n sel -> In n ns /\ start <= n_qstart n).
  { intros n Hn. eapply Permutation_in in Hn; [|exact Hperm]. apply filter_In in Hn. destruct Hn as (Hn & Hk).
    unfold pf_keep in Hk. split; [exact Hn|]. unfold start. lia. }
  rewrite Forall_forall in Hwf.
  assert (Hlen : forall n, In n sel -> n_qstart n < n_qend n) by (intros n Hn; apply Hwf, Hsel_in, Hn).
  assert (Hvel : forall n, In n sel -> MIN_MIDI_VELOCITY <= n_vel n) by (intros n Hn; apply Hwf, Hsel_in, Hn).
  assert (Hnest : forall a b, In a sel -> In b sel -> n_pitch a = n_pitch b ->
            n_qstart a < n_qstart b -> n_qend a <= n_qend b).
  { intros a b Ha Hb. apply (no_nested_spec _ Hno); eapply Permutation_in; eauto. }
  assert (Hord : forall i j a b, (i < j)%nat -> nth_error sel i = Some a -> nth_error sel j = Some b ->
            n_qstart a < n_qstart b \/ (n_qstart a = n_qstart b /\ n_pitch a <= n_pitch b)).
  { intros i j a b Hij Ha Hb.
    assert (Hs : StronglySorted (fun a b => pf_le a b = true) sel)
      by (apply isort_sorted; [apply PC.pf_le_total|apply PC.pf_le_trans]).
    pose proof (PC.ssorted_nth _ _ Hs i j a b Hij Ha Hb) as Hle. unfold pf_le in Hle.
    pose proof (nth_error_In _ _ Ha) as Hia. pose proof (nth_error_In _ _ Hb) as Hib.
    assert (Hsa : In a (pf_selected p ns)) by (eapply Permutation_in; eauto).
    assert (Hsb : In b (pf_selected p ns)) by (eapply Permutation_in; eauto).
    destruct (Htf a b Hsa Hsb) as (T1 & T2). destruct (Htf b a Hsb Hsa) as (T3 & T4). lia. }
  set (tes := pf_note_events sel).
  assert (Hvalid : Forall (valid sel) tes).
  { apply Forall_forall. intros t Ht. apply In_note_events in Ht.
    destruct Ht as (i & n & Hi & Hn & [-> | ->]); unfold valid; cbn; auto. }
  set (c0 := mkPfCst 0 [] 0 PStart None None).
  assert (H : exists cf, pf_canon_scan_w nb ms (pf_loop nb ms tes start 0) c0 = Some cf /\ cs_open cf = [] /\
                         (cs_prev cf = PStart \/ cs_prev cf = POff)).
  { apply (stageW sel start nb ms Hms Hnb Hlen Hvel Hord Hnest tes [] start 0 c0).
    - apply sorted_strict; [apply note_events_sorted|].
      eapply Permutation_NoDup; [apply Permutation_map; symmetry; apply isort_perm|].
      rewrite map_app, !map_map. cbn [ik te_idx te_off].
      apply nodup_app; [apply (nodup_enum false)|apply (nodup_enum true)|].
      intros x Hx Hx'. apply in_map_iff in Hx. apply in_map_iff in Hx'.
      destruct Hx as (y & <- & _). destruct Hx' as (z & Hz & _). discriminate.
    - constructor.
    - exact Hvalid.
    - constructor.
    - constructor.
    - intros o [].
    - intros t Ht Hoff. right. apply In_note_events in Ht.
      destruct Ht as (i & n & Hi & Hn & [-> | ->]); [discriminate|].
      cbn [te_idx te_note off_of]. apply In_note_events. exists i, n. auto.
    - intros t Ht Hoff. apply In_note_events in Ht.
      destruct Ht as (i & n & Hi & Hn & [-> | ->]); [|discriminate].
      cbn [te_idx te_note on_of]. apply In_note_events. exists i, n. auto.
    - intros t Ht. apply In_note_events in Ht. destruct Ht as (i & n & Hi & Hn & Hcase).
      apply nth_error_In in Hn. pose proof (Hlen n Hn). destruct (Hsel_in n Hn) as (_ & Hs).
      destruct Hcase as [-> | ->]; cbn; lia.
    - cbn. lia.
    - reflexivity.
    - reflexivity.
    - now left.
    - intros t _ _. split; intros _; [split; reflexivity|exact I]. }
  destruct H as (cf & Hscan & Hopen & Hprev).
  unfold canonical_perf_w. fold c0. fold tes. rewrite Hscan, Hopen. cbn [is_nil andb].
  destruct Hprev as [-> | ->]; reflexivity.
Qed.

(** * round trip: decoder state with creation ranks (the NOTE_ON index of every note) *)
Definition ent : Type := (entry * Z)%type.               (* (pitch, start, velocity), rank *)
Definition e_p (x : ent) : Z := fst (fst (fst x)).
Definition e_s (x : ent) : Z := snd (fst (fst x)).
Definition e_v (x : ent) : Z := snd (fst x).
Definition e_r (x : ent) : Z := snd x.
Definition pq4 (x : ent) : Z * Z := (e_p x, e_s x).

Fixpoint take4 (pitch : Z) (op : list ent) : option (ent * list ent) :=
  match op with
  | [] => None
  | x :: r => if e_p x =? pitch then Some (x, r)
              else match take4 pitch r with Some (y, r') => Some (y, x :: r') | None => None end
  end.

Lemma take_open_map4 v op :
  take_open v (map pq4 op)
  = match take4 v op with None => None | Some (x, op') => Some (pq4 x, map pq4 op') end.
Proof.
  induction op as [|x op IH]; cbn [map take_open take4 pq4]; [reflexivity|].
  destruct (e_p x =? v); [reflexivity|]. fold (pq4 x). rewrite IH.
  destruct (take4 v op) as [[y r']|]; reflexivity.
Qed.

Lemma take_first_map4 v op :
  take_first v (map fst op)
  = match take4 v op with None => None | Some (x, op') => Some (fst x, map fst op') end.
Proof.
  induction op as [|[[[q s] w] k] op IH]; cbn [map fst take_first take4 e_p]; [reflexivity|].
  destruct (q =? v); [reflexivity|]. rewrite IH.
  destruct (take4 v op) as [[y r']|]; reflexivity.
Qed.

Lemma take4_split v : forall op x op', take4 v op = Some (x, op') ->
  exists l1 l2, op = l1 ++ x :: l2 /\ op' = l1 ++ l2 /\ e_p x = v /\ forall y, In y l1 -> e_p y <> v.
Proof.
  induction op as [|z op IH]; intros x op'; cbn [take4]; [discriminate|].
  destruct (e_p z =? v) eqn:E.
  - intros H. injection H as <- <-. exists [], op. cbn [app]. repeat split; [lia|intros y []].
  - destruct (take4 v op) as [[y r']|] eqn:E2; [|discriminate]. intros H. injection H as <- <-.
    destruct (IH _ _ eq_refl) as (l1 & l2 & -> & -> & Hp & Hl1).
    exists (z :: l1), l2. repeat split; auto. intros y' [<-|Hy]; [lia|auto].
Qed.

Fixpoint dec4 (nb start : Z) (evs : list pevent) (step vel : Z) (op : list ent) (cnt : Z)
  : list (snote * Z) :=
  match evs with
  | [] =>
      map (fun x : ent => let '(q, s, v, k) := x in ((q, s + start, step + start, v), k))
          (filter (fun x : ent => let '(q, s, v, k) := x in negb (step =? s)) op)
  | (ty, val) :: r =>
      if ty =? EV_NOTE_ON then dec4 nb start r step vel (op ++ [((val, step, vel), cnt)]) (cnt + 1)
      else if ty =? EV_NOTE_OFF then
        match take4 val op with
        | None => dec4 nb start r step vel op cnt
        | Some ((q, s, v, k), op') =>
            if step =? s then dec4 nb start r step vel op' cnt
            else ((q, s + start, step + start, v), k) :: dec4 nb start r step vel op' cnt
        end
      else if ty =? EV_TIME_SHIFT then dec4 nb start r (step + val) vel op cnt
      else if ty =? EV_VELOCITY then dec4 nb start r step (bin_to_vel val nb) op cnt
      else []
  end.

Lemma dec4_strip nb start : forall es step vel op cnt,
  map fst (dec4 nb start es step vel op cnt) = pf_decode nb start es step vel (map fst op).
Proof.
  induction es as [|[ty v] r IH]; intros step vel op cnt; cbn [dec4 pf_decode].
  - induction op as [|[[[q s] w] k] op IHo]; cbn [map filter fst]; [reflexivity|].
    destruct (negb (step =? s)); cbn [map fst]; rewrite IHo; reflexivity.
  - destruct (ty =? EV_NOTE_ON).
    { rewrite IH, map_app. reflexivity. }
    destruct (ty =? EV_NOTE_OFF).
    { rewrite take_first_map4. destruct (take4 v op) as [[[[[q s] w] k] op']|]; [|apply IH].
      cbn [fst]. destruct (step =? s); [apply IH|]. cbn [map fst]. now rewrite IH. }
    destruct (ty =? EV_TIME_SHIFT); [apply IH|].
    destruct (ty =? EV_VELOCITY); [apply IH|reflexivity].
Qed.

Lemma dec4_on nb start v r step vel op cnt :
  dec4 nb start ((EV_NOTE_ON, v) :: r) step vel op cnt
  = dec4 nb start r step vel (op ++ [((v, step, vel), cnt)]) (cnt + 1).
Proof. reflexivity. Qed.
Lemma dec4_off nb start v r step vel op cnt :
  dec4 nb start ((EV_NOTE_OFF, v) :: r) step vel op cnt
  = match take4 v op with
    | None => dec4 nb start r step vel op cnt
    | Some ((q, s, w, k), op') =>
        if step =? s then dec4 nb start r step vel op' cnt
        else ((q, s + start, step + start, w), k) :: dec4 nb start r step vel op' cnt
    end.
Proof. reflexivity. Qed.
Lemma dec4_shift nb start v r step vel op cnt :
  dec4 nb start ((EV_TIME_SHIFT, v) :: r) step vel op cnt = dec4 nb start r (step + v) vel op cnt.
Proof. reflexivity. Qed.
Lemma dec4_vel nb start v r step vel op cnt :
  dec4 nb start ((EV_VELOCITY, v) :: r) step vel op cnt = dec4 nb start r step (bin_to_vel v nb) op cnt.
Proof. reflexivity. Qed.

(** the timed reading; [m_ns] holds the rank of the note *)
Fixpoint Tm4 (nb start : Z) (es : list pevent) (step vel : Z) (op : list ent) (cnt : Z) : list PC.med :=
  match es with
  | [] => []
  | (ty, val) :: r =>
      if ty =? EV_NOTE_ON then
        PC.mkMed (step + start) false val cnt vel
          :: Tm4 nb start r step vel (op ++ [((val, step, vel), cnt)]) (cnt + 1)
      else if ty =? EV_NOTE_OFF then
        match take4 val op with
        | None => Tm4 nb start r step vel op cnt
        | Some ((q, s, v, k), op') => PC.mkMed (step + start) true q k v :: Tm4 nb start r step vel op' cnt
        end
      else if ty =? EV_TIME_SHIFT then Tm4 nb start r (step + val) vel op cnt
      else if ty =? EV_VELOCITY then Tm4 nb start r step (bin_to_vel val nb) op cnt
      else []
  end.

Lemma Tm4_on nb start v r step vel op cnt :
  Tm4 nb start ((EV_NOTE_ON, v) :: r) step vel op cnt
  = PC.mkMed (step + start) false v cnt vel :: Tm4 nb start r step vel (op ++ [((v, step, vel), cnt)]) (cnt + 1).
Proof. reflexivity. Qed.
Lemma Tm4_off nb start v r step vel op cnt :
  Tm4 nb start ((EV_NOTE_OFF, v) :: r) step vel op cnt
  = match take4 v op with
    | None => Tm4 nb start r step vel op cnt
    | Some ((q, s, w, k), op') => PC.mkMed (step + start) true q k w :: Tm4 nb start r step vel op' cnt
    end.
Proof. reflexivity. Qed.
Lemma Tm4_shift nb start v r step vel op cnt :
  Tm4 nb start ((EV_TIME_SHIFT, v) :: r) step vel op cnt = Tm4 nb start r (step + v) vel op cnt.
Proof. reflexivity. Qed.
Lemma Tm4_vel nb start v r step vel op cnt :
  Tm4 nb start ((EV_VELOCITY, v) :: r) step vel op cnt = Tm4 nb start r step (bin_to_vel v nb) op cnt.
Proof. reflexivity. Qed.

(** the open list is in NOTE_ON order: ranks increase, keys (start, pitch) do not decrease *)
Definition kle (x y : ent) : Prop := e_s x < e_s y \/ (e_s x = e_s y /\ e_p x <= e_p y).
Definition oord (x y : ent) : Prop := e_r x < e_r y /\ kle x y.

Definition Inv (c : pf_cst) (op : list ent) (cnt : Z) : Prop :=
  StronglySorted oord op /\
  Forall (fun x => e_r x < cnt /\ 0 <= e_s x /\
                   (e_s x < cs_step c \/ (e_s x = cs_step c /\ exists q0, cs_onp c = Some q0 /\ e_p x <= q0))) op /\
  0 <= cs_step c.

Section ScanW.
  Variables nb ms : Z.
  Variable cf : pf_cst.
  Variable Q : list pevent -> pf_cst -> Z -> list ent -> Z -> Prop.

  Hypothesis Hnil : forall vel op cnt, cs_open cf = map pq4 op -> Inv cf op cnt -> Q [] cf vel op cnt.
  Hypothesis Hon : forall v r c vel op cnt, cs_open c = map pq4 op -> Inv c op cnt ->
    (nb <> 0 -> cs_vbin c <> 0) ->
    match cs_onp c with None => True | Some q => q <= v end ->
    let c' := mkPfCst (cs_step c) (cs_open c ++ [(v, cs_step c)]) (cs_vbin c) POn (cs_offkey c) (Some v) in
    let op' := op ++ [((v, cs_step c, vel), cnt)] in
    pf_canon_scan_w nb ms r c' = Some cf -> cs_open c' = map pq4 op' -> Inv c' op' (cnt + 1) ->
    Q r c' vel op' (cnt + 1) ->
    Q ((EV_NOTE_ON, v) :: r) c vel op cnt.
  Hypothesis Hoff : forall v r c vel op cnt s w k l1 l2, cs_open c = map pq4 op -> Inv c op cnt ->
    op = l1 ++ ((v, s, w), k) :: l2 -> (forall y, In y l1 -> e_p y <> v) ->
    take4 v op = Some (((v, s, w), k), l1 ++ l2) ->
    cs_prev c <> PVel -> cs_onp c = None -> key_le (cs_offkey c) s v = true -> s < cs_step c ->
    let c' := mkPfCst (cs_step c) (map pq4 (l1 ++ l2)) (cs_vbin c) POff (Some (s, v)) None in
    pf_canon_scan_w nb ms r c' = Some cf -> Inv c' (l1 ++ l2) cnt ->
    Q r c' vel (l1 ++ l2) cnt ->
    Q ((EV_NOTE_OFF, v) :: r) c vel op cnt.
  Hypothesis Hshift : forall v r c vel op cnt, cs_open c = map pq4 op -> Inv c op cnt ->
    cs_prev c <> PVel -> 1 <= v <= ms -> (forall u, cs_prev c = PShift u -> u = ms) ->
    let c' := mkPfCst (cs_step c + v) (cs_open c) (cs_vbin c) (PShift v) None None in
    pf_canon_scan_w nb ms r c' = Some cf -> Inv c' op cnt ->
    Q r c' vel op cnt ->
    Q ((EV_TIME_SHIFT, v) :: r) c vel op cnt.
  Hypothesis Hvel : forall v r c vel op cnt, cs_open c = map pq4 op -> Inv c op cnt ->
    nb <> 0 -> cs_prev c <> PVel -> 1 <= v -> v <> cs_vbin c ->
    let c' := mkPfCst (cs_step c) (cs_open c) v PVel (cs_offkey c) (cs_onp c) in
    pf_canon_scan_w nb ms r c' = Some cf -> Inv c' op cnt ->
    Q r c' (bin_to_vel v nb) op cnt ->
    Q ((EV_VELOCITY, v) :: r) c vel op cnt.

  Lemma scan_rect_w : forall es c vel op cnt,
    pf_canon_scan_w nb ms es c = Some cf -> cs_open c = map pq4 op -> Inv c op cnt -> Q es c vel op cnt.
  Proof.
    induction es as [|[ty v] r IH]; intros c vel op cnt Hs Hop HI; cbn [pf_canon_scan_w] in Hs.
    - injection Hs as ->. now apply Hnil.
    - destruct (pf_canon_step_w nb ms c (ty, v)) as [c'|] eqn:E; [|discriminate].
      unfold pf_canon_step_w in E.
      assert (Hnv : forall k, is_pvel k = false -> k <> PVel) by (intros k Hk ->; discriminate).
      pose proof HI as HI0. destruct HI as (Hso & Hfo & H0). rewrite Forall_forall in Hfo.
      destruct (ty =? EV_NOTE_ON) eqn:T1.
      { apply Z.eqb_eq in T1. subst ty.
        destruct (negb (nb =? 0) && (cs_vbin c =? 0)) eqn:A1; cbn [orb] in E; [discriminate|].
        destruct (match cs_onp c with None => true | Some q => q <=? v end) eqn:A3; cbn [negb] in E; [|discriminate].
        injection E as <-.
        assert (Honp : match cs_onp c with None => True | Some q => q <= v end)
          by (destruct (cs_onp c); [lia|exact I]).
        assert (Hop' : cs_open c ++ [(v, cs_step c)] = map pq4 (op ++ [((v, cs_step c, vel), cnt)]))
          by (rewrite Hop, map_app; reflexivity).
        assert (HI' : Inv (mkPfCst (cs_step c) (cs_open c ++ [(v, cs_step c)]) (cs_vbin c) POn (cs_offkey c) (Some v))
                          (op ++ [((v, cs_step c, vel), cnt)]) (cnt + 1)).
        { unfold Inv. cbn [cs_step cs_onp]. split; [|split; [|exact H0]].
          - apply StronglySorted_snoc; [exact Hso|]. intros y Hy. destruct (Hfo y Hy) as (Hr & _ & Hk).
            unfold oord, kle. cbn [e_r e_s e_p fst snd]. split; [exact Hr|].
            destruct Hk as [Hk|(Hk & q0 & Hq0 & Hq)]; [now left|right]. split; [exact Hk|].
            rewrite Hq0 in Honp. lia.
          - apply Forall_app. split.
            + apply Forall_forall. intros y Hy. destruct (Hfo y Hy) as (Hr & Hs0 & Hk).
              split; [lia|]. split; [exact Hs0|].
              destruct Hk as [Hk|(Hk & q0 & Hq0 & Hq)]; [now left|right]. split; [exact Hk|].
              exists v. split; [reflexivity|]. rewrite Hq0 in Honp. lia.
            + constructor; [|constructor]. cbn [e_r e_s e_p fst snd]. split; [lia|]. split; [exact H0|].
              right. split; [reflexivity|]. exists v. split; [reflexivity|lia]. }
        apply (Hon v r c vel op cnt); auto; try lia; try exact HI0.
        all: try (apply IH; auto). }
      destruct (ty =? EV_NOTE_OFF) eqn:T2.
      { apply Z.eqb_eq in T2. subst ty.
        destruct (is_pvel (cs_prev c)) eqn:A1; cbn [orb] in E; [discriminate|].
        destruct (cs_onp c) eqn:A2; cbn [negb] in E; [discriminate|].
        rewrite Hop, take_open_map4 in E.
        destruct (take4 v op) as [[[[[q s] w] k] op']|] eqn:A3; [|discriminate].
        cbn [pq4 e_p e_s fst snd] in E.
        destruct (key_le (cs_offkey c) s q) eqn:A4; cbn [andb] in E; [|discriminate].
        destruct (s <? cs_step c) eqn:A5; [|discriminate].
        injection E as <-.
        destruct (take4_split _ _ _ _ A3) as (l1 & l2 & Hsplit & -> & Hq & Hl1). cbn [e_p fst] in Hq. subst q.
        assert (HI' : Inv (mkPfCst (cs_step c) (map pq4 (l1 ++ l2)) (cs_vbin c) POff (Some (s, v)) None) (l1 ++ l2) cnt).
        { unfold Inv. cbn [cs_step cs_onp]. split; [|split; [|exact H0]].
          - rewrite Hsplit in Hso. eapply StronglySorted_remove; exact Hso.
          - apply Forall_forall. intros y Hy.
            assert (Hy' : In y op).
            { rewrite Hsplit. apply in_app_or in Hy. apply in_or_app. destruct Hy; [now left|right; now right]. }
            destruct (Hfo y Hy') as (Hr & Hs0 & Hk). split; [exact Hr|]. split; [exact Hs0|].
            destruct Hk as [Hk|(_ & q0 & Hq0 & _)]; [now left|discriminate]. }
        apply (Hoff v r c vel op cnt s w k l1 l2); auto; try lia;
          try exact HI0.
        all: try (apply IH; auto). }
      destruct (ty =? EV_TIME_SHIFT) eqn:T3.
      { apply Z.eqb_eq in T3. subst ty.
        destruct (is_pvel (cs_prev c)) eqn:A1; cbn [orb] in E; [discriminate|].
        destruct ((1 <=? v) && (v <=? ms)) eqn:A2; cbn [negb orb] in E; [|discriminate].
        destruct (match cs_prev c with PShift u => u =? ms | _ => true end) eqn:A3; cbn [negb] in E; [|discriminate].
        injection E as <-.
        assert (HI' : Inv (mkPfCst (cs_step c + v) (cs_open c) (cs_vbin c) (PShift v) None None) op cnt).
        { unfold Inv. cbn [cs_step cs_onp]. split; [exact Hso|]. split; [|lia].
          apply Forall_forall. intros y Hy. destruct (Hfo y Hy) as (Hr & Hs0 & Hk).
          split; [exact Hr|]. split; [exact Hs0|]. left. lia. }
        apply (Hshift v r c vel op cnt); auto; try lia;
          try exact HI0;
          try (intros u Hu; rewrite Hu in A3; lia).
        all: try (apply IH; auto). }
      destruct (ty =? EV_VELOCITY) eqn:T4; [|discriminate].
      apply Z.eqb_eq in T4. subst ty.
      destruct (nb =? 0) eqn:A0; cbn [orb] in E; [discriminate|].
      destruct (is_pvel (cs_prev c)) eqn:A1; cbn [orb] in E; [discriminate|].
      destruct (1 <=? v) eqn:A2; cbn [negb orb] in E; [|discriminate].
      destruct (v =? cs_vbin c) eqn:A3; [discriminate|].
      injection E as <-.
      assert (HI' : Inv (mkPfCst (cs_step c) (cs_open c) v PVel (cs_offkey c) (cs_onp c)) op cnt).
      { unfold Inv. cbn [cs_step cs_onp]. split; [exact Hso|]. split; [now apply Forall_forall|exact H0]. }
      apply (Hvel v r c vel op cnt); auto; try lia;
        try exact HI0.
      all: try (apply IH; auto).
  Qed.
End ScanW.

Definition ystart (y : snote * Z) : Z := snd (fst (fst (fst y))).
Definition ypitch (y : snote * Z) : Z := fst (fst (fst (fst y))).
Definition yrank (y : snote * Z) : Z := snd y.
Definition kle5 (a b : snote * Z) : Prop := ystart a < ystart b \/ (ystart a = ystart b /\ ypitch a <= ypitch b).
(** order pairs of the decoded list: (start, pitch) order, ties in list order = rank order *)
Definition RR (a b : snote * Z) : Prop := (kle5 a b -> yrank a < yrank b) /\ (~ kle5 a b -> yrank b < yrank a).

Lemma key_le_trans a s q s' q' : key_le a s q = true -> key_le (Some (s, q)) s' q' = true -> key_le a s' q' = true.
Proof. unfold key_le. destruct a as [[s0 q0]|]; [lia|reflexivity]. Qed.

Section CanonW.
  Variables nb ms start dv : Z.
  Hypothesis Hms : 1 <= ms.
  Hypothesis Hnb : nb = 0 \/ 1 <= nb.

  Definition on_e4 (x : ent) : PC.med := PC.mkMed (e_s x + start) false (e_p x) (e_r x) (e_v x).
  Definition on5 (y : snote * Z) : PC.med := let '((q, s, e, v), k) := y in PC.mkMed s false q k v.
  Definition off5 (y : snote * Z) : PC.med := let '((q, s, e, v), k) := y in PC.mkMed e true q k v.

  (** ** the timed tuples are the onsets and offsets of the decoded notes *)
  Lemma Tm4_perm cf : cs_open cf = [] -> forall es c vel op cnt,
    pf_canon_scan_w nb ms es c = Some cf -> cs_open c = map pq4 op -> Inv c op cnt ->
    Permutation (map on_e4 op ++ Tm4 nb start es (cs_step c) vel op cnt)
                (map on5 (dec4 nb start es (cs_step c) vel op cnt)
                 ++ map off5 (dec4 nb start es (cs_step c) vel op cnt)).
  Proof.
    intros Hfin.
    apply (scan_rect_w nb ms cf (fun es c vel op cnt =>
      Permutation (map on_e4 op ++ Tm4 nb start es (cs_step c) vel op cnt)
                  (map on5 (dec4 nb start es (cs_step c) vel op cnt)
                   ++ map off5 (dec4 nb start es (cs_step c) vel op cnt)))).
    - intros vel op cnt Hop _. rewrite Hfin in Hop. destruct op; [|discriminate]. cbn. constructor.
    - intros v r c vel op cnt Hop HI _ _ c' op' _ _ _ IH. subst c' op'. cbn [cs_step] in IH.
      rewrite Tm4_on, dec4_on. rewrite map_app, <- app_assoc in IH. exact IH.
    - intros v r c vel op cnt s w k l1 l2 Hop HI Hsplit Hl1 Htk _ _ _ Hs c' _ _ IH. subst c'. cbn [cs_step] in IH.
      rewrite Tm4_off, dec4_off, Htk. replace (cs_step c =? s) with false by lia.
      cbn [map app on5 off5].
      assert (Hp : Permutation (map on_e4 op) (on_e4 ((v, s, w), k) :: map on_e4 (l1 ++ l2))).
      { rewrite Hsplit, !map_app. cbn [map]. symmetry. apply Permutation_middle. }
      rewrite Hp. cbn [app].
      change (on_e4 ((v, s, w), k)) with (PC.mkMed (s + start) false v k w).
      apply perm_skip.
      etransitivity; [symmetry; apply Permutation_middle|].
      etransitivity; [|apply Permutation_middle]. apply perm_skip. exact IH.
    - intros v r c vel op cnt Hop HI _ _ _ c' _ _ IH. subst c'. cbn [cs_step] in IH.
      rewrite Tm4_shift, dec4_shift. exact IH.
    - intros v r c vel op cnt Hop HI _ _ _ _ c' _ _ IH. subst c'. cbn [cs_step] in IH.
      rewrite Tm4_vel, dec4_vel. exact IH.
  Qed.

  (** ** where the decoded notes come from: an open entry, or a later NOTE_ON *)
  Definition origin (c : pf_cst) (op : list ent) (cnt : Z) (y : snote * Z) : Prop :=
    (exists x, In x op /\ e_p x = ypitch y /\ e_s x + start = ystart y /\ e_r x = yrank y) \/
    (cnt <= yrank y /\ cs_step c + start <= ystart y).

  Lemma dec4_origin cf : forall es c vel op cnt,
    pf_canon_scan_w nb ms es c = Some cf -> cs_open c = map pq4 op -> Inv c op cnt ->
    forall y, In y (dec4 nb start es (cs_step c) vel op cnt) -> origin c op cnt y.
  Proof.
    apply (scan_rect_w nb ms cf (fun es c vel op cnt =>
      forall y, In y (dec4 nb start es (cs_step c) vel op cnt) -> origin c op cnt y)).
    - intros vel op cnt _ _ y Hy. cbn [dec4] in Hy. apply in_map_iff in Hy.
      destruct Hy as ([[[q s] w] k] & <- & Hx). apply filter_In in Hx. destruct Hx as (Hx & _).
      left. exists ((q, s, w), k). repeat split; auto.
    - intros v r c vel op cnt Hop HI _ _ c' op' _ _ _ IH y. subst c' op'. cbn [cs_step] in IH.
      rewrite dec4_on. intros Hy. destruct (IH y Hy) as [(x & Hx & H1 & H2 & H3)|(H1 & H2)].
      + apply in_app_or in Hx. destruct Hx as [Hx|[<-|[]]].
        * left. exists x. auto.
        * right. cbn [e_r e_s fst snd] in *. lia.
      + right. cbn [cs_step] in H2. lia.
    - intros v r c vel op cnt s w k l1 l2 Hop HI Hsplit Hl1 Htk _ _ _ Hs c' _ _ IH y. subst c'. cbn [cs_step] in IH.
      rewrite dec4_off, Htk. replace (cs_step c =? s) with false by lia. intros [<-|Hy].
      + left. exists ((v, s, w), k). split; [rewrite Hsplit; apply in_or_app; right; now left|].
        repeat split.
      + destruct (IH y Hy) as [(x & Hx & H1)|H1]; [left|right; exact H1].
        exists x. split; [|exact H1]. rewrite Hsplit. apply in_app_or in Hx. apply in_or_app.
        destruct Hx; [now left|right; now right].
    - intros v r c vel op cnt Hop HI _ Hv _ c' _ _ IH y. subst c'. cbn [cs_step] in IH.
      rewrite dec4_shift. intros Hy. destruct (IH y Hy) as [H1|(H1 & H2)]; [now left|right].
      cbn [cs_step] in H2. lia.
    - intros v r c vel op cnt Hop HI _ _ _ _ c' _ _ IH y. subst c'. cbn [cs_step] in IH.
      rewrite dec4_vel. intros Hy. exact (IH y Hy).
  Qed.

  Lemma dec4_starts cf : forall es c vel op cnt,
    pf_canon_scan_w nb ms es c = Some cf -> cs_open c = map pq4 op -> Inv c op cnt ->
    forall y, In y (dec4 nb start es (cs_step c) vel op cnt) -> start <= ystart y.
  Proof.
    intros es c vel op cnt Hs Hop HI y Hy.
    destruct (dec4_origin cf es c vel op cnt Hs Hop HI y Hy) as [(x & Hx & _ & H2 & _)|(_ & H2)].
    - destruct HI as (_ & Hf & _). rewrite Forall_forall in Hf. destruct (Hf x Hx) as (_ & H0 & _). lia.
    - destruct HI as (_ & _ & H0). lia.
  Qed.

  (** ** the decoded list, pairwise: creation order refines the (start, pitch) order like the ranks *)
  Lemma dec4_pairs cf : forall es c vel op cnt,
    pf_canon_scan_w nb ms es c = Some cf -> cs_open c = map pq4 op -> Inv c op cnt ->
    ForallOrdPairs RR (dec4 nb start es (cs_step c) vel op cnt).
  Proof.
    apply (scan_rect_w nb ms cf (fun es c vel op cnt =>
      ForallOrdPairs RR (dec4 nb start es (cs_step c) vel op cnt))).
    - intros vel op cnt _ (Hso & _ & _). cbn [dec4].
      induction op as [|[[[q s] w] k] op IHo]; cbn [filter map]; [constructor|].
      apply StronglySorted_inv in Hso. destruct Hso as (Hso & Hf).
      destruct (negb (cs_step cf =? s)); [|now apply IHo]. cbn [map]. constructor; [|now apply IHo].
      apply Forall_forall. intros y Hy. apply in_map_iff in Hy.
      destruct Hy as ([[[q' s'] w'] k'] & <- & Hx). apply filter_In in Hx. destruct Hx as (Hx & _).
      rewrite Forall_forall in Hf. specialize (Hf _ Hx). unfold oord, kle in Hf. cbn [e_r e_s e_p fst snd] in Hf.
      unfold RR, kle5, ystart, ypitch, yrank. cbn [fst snd]. lia.
    - intros v r c vel op cnt Hop HI _ _ c' op' _ _ _ IH. subst c' op'. cbn [cs_step] in IH.
      rewrite dec4_on. exact IH.
    - intros v r c vel op cnt s w k l1 l2 Hop HI Hsplit Hl1 Htk _ _ _ Hs c' Hs' HI' IH. cbn [cs_step] in IH.
      rewrite dec4_off, Htk. replace (cs_step c =? s) with false by lia.
      constructor; [|exact IH].
      apply Forall_forall. intros y Hy.
      pose proof (dec4_origin cf r c' vel (l1 ++ l2) cnt Hs' eq_refl HI' y Hy) as Ho.
      destruct HI as (Hso & Hf & _). rewrite Hsplit in Hso.
      destruct (StronglySorted_app_inv _ _ _ Hso) as (_ & Hs2 & Hcr).
      apply StronglySorted_inv in Hs2. destruct Hs2 as (_ & Hf2). rewrite Forall_forall in Hf2.
      rewrite Forall_forall in Hf.
      assert (Hk : k < cnt).
      { destruct (Hf ((v, s, w), k)) as (H & _); [rewrite Hsplit; apply in_or_app; right; now left|exact H]. }
      unfold RR, kle5, ystart, ypitch, yrank. cbn [fst snd].
      destruct Ho as [(x & Hx & H1 & H2 & H3)|(H1 & H2)].
      + unfold ystart, ypitch, yrank in H1, H2, H3. apply in_app_or in Hx. destruct Hx as [Hx|Hx].
        * pose proof (Hcr x _ Hx (or_introl eq_refl)) as Hox. pose proof (Hl1 x Hx) as Hne.
          unfold oord, kle in Hox. cbn [e_r e_s e_p fst snd] in Hox. lia.
        * pose proof (Hf2 x Hx) as Hox. unfold oord, kle in Hox. cbn [e_r e_s e_p fst snd] in Hox. lia.
      + unfold ystart, yrank in H1, H2. subst c'. cbn [cs_step] in H2. lia.
    - intros v r c vel op cnt Hop HI _ _ _ c' _ _ IH. subst c'. cbn [cs_step] in IH. rewrite dec4_shift. exact IH.
    - intros v r c vel op cnt Hop HI _ _ _ _ c' _ _ IH. subst c'. cbn [cs_step] in IH. rewrite dec4_vel. exact IH.
  Qed.

  (** ** the timed tuples are strictly sorted by (step, rank) *)
  Definition lowb4 (c : pf_cst) (op : list ent) (cnt : Z) (t : PC.med) : Prop :=
    cs_step c + start < PC.m_step t \/
    (cs_step c + start = PC.m_step t /\
     (PC.m_off t = true -> cs_onp c = None /\
        exists x, In x op /\ e_r x = PC.m_ns t /\ key_le (cs_offkey c) (e_s x) (e_p x) = true) /\
     (PC.m_off t = false -> cnt <= PC.m_ns t)).

  Lemma Tm4_low cf : forall es c vel op cnt,
    pf_canon_scan_w nb ms es c = Some cf -> cs_open c = map pq4 op -> Inv c op cnt ->
    forall t, In t (Tm4 nb start es (cs_step c) vel op cnt) -> lowb4 c op cnt t.
  Proof.
    apply (scan_rect_w nb ms cf (fun es c vel op cnt =>
      forall t, In t (Tm4 nb start es (cs_step c) vel op cnt) -> lowb4 c op cnt t)).
    - intros vel op cnt _ _ t [].
    - intros v r c vel op cnt Hop HI _ _ c' op' _ _ _ IH t. subst c' op'. cbn [cs_step] in IH.
      rewrite Tm4_on. intros [<-|Ht].
      + right. cbn [PC.m_step PC.m_off PC.m_ns]. split; [reflexivity|]. split; [discriminate|]. intros _. lia.
      + specialize (IH t Ht). unfold lowb4 in *. cbn [cs_step cs_onp cs_offkey] in IH.
        destruct IH as [IH|(E & Hoff & Hon)]; [now left|right]. split; [exact E|]. split.
        * intros Ho. destruct (Hoff Ho) as (Hd & _). discriminate.
        * intros Ho. specialize (Hon Ho). lia.
    - intros v r c vel op cnt s w k l1 l2 Hop HI Hsplit Hl1 Htk _ Honp Hkey Hs c' _ _ IH t. subst c'.
      cbn [cs_step] in IH. rewrite Tm4_off, Htk. intros [<-|Ht].
      + right. cbn [PC.m_step PC.m_off PC.m_ns]. split; [reflexivity|]. split; [|discriminate].
        intros _. split; [exact Honp|]. exists ((v, s, w), k).
        split; [rewrite Hsplit; apply in_or_app; right; now left|]. split; [reflexivity|exact Hkey].
      + specialize (IH t Ht). unfold lowb4 in *. cbn [cs_step cs_onp cs_offkey] in IH.
        destruct IH as [IH|(E & Hoff & Hon)]; [now left|right]. split; [exact E|]. split; [|exact Hon].
        intros Ho. destruct (Hoff Ho) as (_ & x & Hx & Hr & Hk). split; [exact Honp|]. exists x.
        split; [|split; [exact Hr|eapply key_le_trans; eassumption]].
        rewrite Hsplit. apply in_app_or in Hx. apply in_or_app. destruct Hx; [now left|right; now right].
    - intros v r c vel op cnt Hop HI _ Hv _ c' _ _ IH t. subst c'. cbn [cs_step] in IH.
      rewrite Tm4_shift. intros Ht. specialize (IH t Ht). unfold lowb4 in *. cbn [cs_step] in IH. left. lia.
    - intros v r c vel op cnt Hop HI _ _ _ _ c' _ _ IH t. subst c'. cbn [cs_step] in IH.
      rewrite Tm4_vel. intros Ht. exact (IH t Ht).
  Qed.

  Lemma Tm4_sorted cf : forall es c vel op cnt,
    pf_canon_scan_w nb ms es c = Some cf -> cs_open c = map pq4 op -> Inv c op cnt ->
    StronglySorted PC.mlt (Tm4 nb start es (cs_step c) vel op cnt).
  Proof.
    apply (scan_rect_w nb ms cf (fun es c vel op cnt =>
      StronglySorted PC.mlt (Tm4 nb start es (cs_step c) vel op cnt))).
    - intros; constructor.
    - intros v r c vel op cnt Hop HI _ _ c' op' Hs' Hop' HI' IH. cbn [cs_step] in IH.
      rewrite Tm4_on. constructor; [exact IH|].
      apply Forall_forall. intros t Ht.
      pose proof (Tm4_low cf r c' vel op' (cnt + 1) Hs' Hop' HI' t Ht) as Hl.
      unfold lowb4 in Hl. subst c'. cbn [cs_step cs_onp cs_offkey] in Hl.
      unfold PC.mlt. cbn [PC.m_step PC.m_ns PC.m_pitch].
      destruct Hl as [Hl|(E & Hoff & Hon)]; [now left|right]. split; [exact E|].
      destruct (PC.m_off t) eqn:Eo.
      + destruct (Hoff eq_refl) as (Hd & _). discriminate.
      + specialize (Hon eq_refl). left. lia.
    - intros v r c vel op cnt s w k l1 l2 Hop HI Hsplit Hl1 Htk _ Honp Hkey Hs c' Hs' HI' IH. cbn [cs_step] in IH.
      rewrite Tm4_off, Htk. constructor; [exact IH|].
      apply Forall_forall. intros t Ht.
      pose proof (Tm4_low cf r c' vel (l1 ++ l2) cnt Hs' eq_refl HI' t Ht) as Hl.
      unfold lowb4 in Hl. subst c'. cbn [cs_step cs_onp cs_offkey] in Hl.
      unfold PC.mlt. cbn [PC.m_step PC.m_ns PC.m_pitch].
      destruct Hl as [Hl|(E & Hoff & Hon)]; [now left|right]. split; [exact E|]. left.
      destruct HI as (Hso & Hf & _). rewrite Hsplit in Hso.
      destruct (StronglySorted_app_inv _ _ _ Hso) as (_ & Hs2 & Hcr).
      apply StronglySorted_inv in Hs2. destruct Hs2 as (_ & Hf2). rewrite Forall_forall in Hf2.
      rewrite Forall_forall in Hf.
      destruct (PC.m_off t) eqn:Eo.
      + destruct (Hoff eq_refl) as (_ & x & Hx & Hr & Hk). rewrite <- Hr. unfold key_le in Hk.
        apply in_app_or in Hx. destruct Hx as [Hx|Hx].
        * pose proof (Hcr x _ Hx (or_introl eq_refl)) as Hox. pose proof (Hl1 x Hx) as Hne.
          unfold oord, kle in Hox. cbn [e_r e_s e_p fst snd] in Hox. lia.
        * pose proof (Hf2 x Hx) as Hox. unfold oord in Hox. cbn [e_r snd] in Hox. lia.
      + specialize (Hon eq_refl).
        destruct (Hf ((v, s, w), k)) as (H & _); [rewrite Hsplit; apply in_or_app; right; now left|].
        cbn [e_r snd] in H. lia.
    - intros v r c vel op cnt Hop HI _ _ _ c' _ _ IH. subst c'. cbn [cs_step] in IH. rewrite Tm4_shift. exact IH.
    - intros v r c vel op cnt Hop HI _ _ _ _ c' _ _ IH. subst c'. cbn [cs_step] in IH. rewrite Tm4_vel. exact IH.
  Qed.

  (** ** running the encoder loop over the timed tuples reproduces the list *)
  Lemma Tm4_loop cf : (cs_prev cf = PStart \/ cs_prev cf = POff) -> forall es c vel op cnt,
    pf_canon_scan_w nb ms es c = Some cf -> cs_open c = map pq4 op -> Inv c op cnt ->
    vel_inv nb dv (cs_vbin c) vel -> forall cur vbin Psh Pv,
    PC.pend_sh ms start c cur Psh -> PC.pend_v nb c vbin Pv ->
    PC.mloop nb ms (Tm4 nb start es (cs_step c) vel op cnt) cur vbin = Psh ++ Pv ++ es.
  Proof.
    intros Hfin.
    apply (scan_rect_w nb ms cf (fun es c vel op cnt =>
      vel_inv nb dv (cs_vbin c) vel -> forall cur vbin Psh Pv,
      PC.pend_sh ms start c cur Psh -> PC.pend_v nb c vbin Pv ->
      PC.mloop nb ms (Tm4 nb start es (cs_step c) vel op cnt) cur vbin = Psh ++ Pv ++ es)).
    - intros vel op cnt _ _ _ cur vbin Psh Pv Hsh Hpv.
      assert (Psh = []) as ->.
      { destruct Hsh as [(-> & _)|(k & u & _ & _ & _ & _ & [H|H])]; [reflexivity| |];
          destruct Hfin as [H'|H']; congruence. }
      assert (Pv = []) as ->.
      { destruct Hpv as [(-> & _)|(_ & _ & H & _)]; [reflexivity|]. destruct Hfin as [H'|H']; congruence. }
      reflexivity.
    - intros v r c vel op cnt Hop HI Hvb Honp c' op' _ _ _ IH Hvi cur vbin Psh Pv Hsh Hpv.
      rewrite Tm4_on. cbn [PC.mloop PC.m_step PC.m_off PC.m_pitch PC.m_vel].
      destruct (PC.pend_sh_emit ms start Hms _ _ _ Hsh) as (-> & ->).
      cbn [negb]. rewrite andb_true_r.
      assert (Hsh' : PC.pend_sh ms start c' (cs_step c + start) []).
      { left. subst c'. cbn [cs_step cs_prev]. repeat split; auto. intros u; discriminate. }
      assert (Hpv' : PC.pend_v nb c' (cs_vbin c) []).
      { left. subst c'. cbn [cs_vbin cs_prev]. repeat split; auto. discriminate. }
      pose proof (IH Hvi (cs_step c + start) (cs_vbin c) [] [] Hsh' Hpv') as IH'. cbn [app] in IH'.
      subst c' op'. cbn [cs_step] in IH'.
      destruct Hvi as [(Hz & Hvd)|(Hnz & Hvv)].
      + replace (nb =? 0) with true by lia. cbn [negb andb].
        destruct Hpv as [(-> & -> & _)|(_ & _ & _ & Hc)]; [|contradiction].
        rewrite IH'. reflexivity.
      + assert (Hvel : vel = bin_to_vel (cs_vbin c) nb) by (destruct Hvv as [Hvv|Hvv]; [now apply Hvb in Hvv|exact Hvv]).
        rewrite Hvel, PC.vel_bin_roundtrip by lia. rewrite <- Hvel.
        replace (nb =? 0) with false by lia. cbn [negb andb].
        destruct Hpv as [(-> & -> & _)|(-> & Hne & _ & _)].
        * rewrite Z.eqb_refl. cbn [negb]. rewrite IH'. reflexivity.
        * replace (cs_vbin c =? vbin) with false by lia. cbn [negb]. rewrite IH'. reflexivity.
    - intros v r c vel op cnt s w k l1 l2 Hop HI Hsplit Hl1 Htk Hpvel Honp Hkey Hlt c' _ _ IH Hvi cur vbin Psh Pv Hsh Hpv.
      rewrite Tm4_off, Htk. cbn [PC.mloop PC.m_step PC.m_off PC.m_pitch PC.m_vel].
      destruct (PC.pend_sh_emit ms start Hms _ _ _ Hsh) as (-> & ->).
      cbn [negb]. rewrite andb_false_r. cbn [andb].
      destruct Hpv as [(-> & -> & _)|(_ & _ & Hc & _)]; [|contradiction].
      assert (Hsh' : PC.pend_sh ms start c' (cs_step c + start) []).
      { left. subst c'. cbn [cs_step cs_prev]. repeat split; auto. intros u; discriminate. }
      assert (Hpv' : PC.pend_v nb c' (cs_vbin c) []).
      { left. subst c'. cbn [cs_vbin cs_prev]. repeat split; auto. discriminate. }
      pose proof (IH Hvi (cs_step c + start) (cs_vbin c) [] [] Hsh' Hpv') as IH'. cbn [app] in IH'.
      subst c'. cbn [cs_step] in IH'. rewrite IH'. reflexivity.
    - intros v r c vel op cnt Hop HI Hpvel Hv Hu c' _ _ IH Hvi cur vbin Psh Pv Hsh Hpv.
      rewrite Tm4_shift.
      destruct Hpv as [(-> & -> & _)|(_ & _ & Hc & _)]; [|contradiction].
      assert (Hsh' : PC.pend_sh ms start c' cur (Psh ++ [(EV_TIME_SHIFT, v)])).
      { right. subst c'. cbn [cs_step cs_prev].
        destruct Hsh as [(-> & -> & _)|(k & u & Hk & Hu' & -> & E & [Hp|Hp])]; [| |contradiction].
        * exists 0, v. repeat split; auto; try lia.
        * specialize (Hu _ Hp). subst u. exists (k + 1), v. repeat split; auto; try lia.
          rewrite PC.zrepeat_snoc by lia. reflexivity. }
      assert (Hpv' : PC.pend_v nb c' (cs_vbin c) []).
      { left. subst c'. cbn [cs_vbin cs_prev]. repeat split; auto. discriminate. }
      pose proof (IH Hvi cur (cs_vbin c) _ [] Hsh' Hpv') as IH'.
      subst c'. cbn [cs_step] in IH'. rewrite IH'. rewrite <- app_assoc. reflexivity.
    - intros v r c vel op cnt Hop HI Hnz Hpvel Hv Hne c' _ _ IH Hvi cur vbin Psh Pv Hsh Hpv.
      rewrite Tm4_vel.
      destruct Hpv as [(-> & -> & _)|(_ & _ & Hc & _)]; [|contradiction].
      assert (Hvi' : vel_inv nb dv (cs_vbin c') (bin_to_vel v nb)).
      { subst c'. cbn [cs_vbin]. right. split; [exact Hnz|now right]. }
      assert (Hsh' : PC.pend_sh ms start c' cur Psh).
      { subst c'. destruct Hsh as [(-> & -> & _)|(k & u & Hk & Hu' & -> & E & _)].
        * left. cbn [cs_step cs_prev]. repeat split; auto. intros u; discriminate.
        * right. exists k, u. cbn [cs_step cs_prev]. repeat split; auto; lia. }
      assert (Hpv' : PC.pend_v nb c' (cs_vbin c) [(EV_VELOCITY, v)]).
      { right. subst c'. cbn [cs_vbin cs_prev]. repeat split; auto. }
      pose proof (IH Hvi' cur (cs_vbin c) Psh _ Hsh' Hpv') as IH'.
      subst c'. cbn [cs_step] in IH'. rewrite IH'. reflexivity.
  Qed.
End CanonW.

(** * a stable insertion sort sorts by any strict order that refines the key order in list order *)
Section Stable.
  Context {A : Type} (le : A -> A -> bool) (lt' : A -> A -> Prop).
  Hypothesis le_total : forall a b, le a b = true \/ le b a = true.
  Hypothesis le_trans : forall a b c, le a b = true -> le b c = true -> le a c = true.
  Hypothesis lt_asym : forall a b, lt' a b -> lt' b a -> False.

  Definition refines (a b : A) : Prop := (le a b = true -> lt' a b) /\ (le a b = false -> lt' b a).

  Lemma insert_stable x : forall S, StronglySorted lt' S ->
    (forall y, In y S -> refines x y) -> (forall a b, In a S -> In b S -> lt' a b -> le a b = true) ->
    StronglySorted lt' (insert le x S).
  Proof.
    induction S as [|y S IH]; intros Hs Hx Hg; cbn [insert]; [constructor; constructor|].
    pose proof Hs as Hs0. apply StronglySorted_inv in Hs. destruct Hs as (Hs & Hf).
    destruct (le x y) eqn:E.
    - constructor; [exact Hs0|]. constructor; [apply (Hx y); [now left|exact E]|].
      rewrite Forall_forall in *. intros z Hz. apply (Hx z (or_intror Hz)).
      eapply le_trans; [exact E|]. apply Hg; [now left|now right|now apply Hf].
    - constructor.
      + apply IH; [exact Hs|intros; apply Hx; now right|intros; apply Hg; auto; now right].
      + eapply Permutation_Forall; [symmetry; apply insert_perm|].
        constructor; [apply (Hx y); [now left|exact E]|exact Hf].
  Qed.

  Lemma isort_stable : forall l, ForallOrdPairs refines l ->
    StronglySorted lt' (isort le l) /\ (forall a b, In a l -> In b l -> lt' a b -> le a b = true).
  Proof.
    induction l as [|x r IH]; intros H; cbn [isort].
    - split; [constructor|intros a b []].
    - inversion H as [|? ? Hx Hr]; subst. destruct (IH Hr) as (Hs & Hg). rewrite Forall_forall in Hx.
      assert (Hg' : forall a b, In a (x :: r) -> In b (x :: r) -> lt' a b -> le a b = true).
      { intros a b [<-|Ha] [<-|Hb] Hlt.
        - exfalso. eapply lt_asym; eassumption.
        - destruct (Hx b Hb) as (_ & H2). destruct (le x b) eqn:E; [reflexivity|].
          exfalso. eapply lt_asym; [exact Hlt|now apply H2].
        - destruct (Hx a Ha) as (H1 & _). destruct (le x a) eqn:E.
          + exfalso. eapply lt_asym; [exact Hlt|now apply H1].
          + destruct (le_total a x) as [H'|H']; [exact H'|congruence].
        - now apply Hg. }
      split; [|exact Hg'].
      apply insert_stable; [exact Hs| |].
      + intros y Hy. apply Hx. now apply isort_In in Hy.
      + intros a b Ha Hb. apply Hg; now apply (isort_In le r).
  Qed.
End Stable.

Lemma FOP_map_impl {A B} (f : A -> B) (R : A -> A -> Prop) (R' : B -> B -> Prop) l :
  (forall a b, R a b -> R' (f a) (f b)) -> ForallOrdPairs R l -> ForallOrdPairs R' (map f l).
Proof.
  intros HR. induction 1 as [|a l Ha Hl IH]; cbn [map]; constructor; [|exact IH].
  rewrite Forall_forall in *. intros y Hy. apply in_map_iff in Hy. destruct Hy as (z & <- & Hz). auto.
Qed.

(** * sorting and the tuple list commute with maps that keep what they look at *)
Lemma insert_map {A B} (f : A -> B) (le : B -> B -> bool) (le' : A -> A -> bool) x l :
  (forall a b, le (f a) (f b) = le' a b) -> insert le (f x) (map f l) = map f (insert le' x l).
Proof.
  intros H. induction l as [|y l IH]; cbn [map insert]; [reflexivity|].
  rewrite H. destruct (le' x y); cbn [map]; [reflexivity|]. now rewrite IH.
Qed.

Lemma isort_map {A B} (f : A -> B) (le : B -> B -> bool) (le' : A -> A -> bool) l :
  (forall a b, le (f a) (f b) = le' a b) -> isort le (map f l) = map f (isort le' l).
Proof.
  intros H. induction l as [|x l IH]; cbn [map isort]; [reflexivity|]. rewrite IH. now apply insert_map.
Qed.

Lemma filter_map_comm {A B} (f : A -> B) (g : B -> bool) (g' : A -> bool) l :
  (forall x, g (f x) = g' x) -> filter g (map f l) = map f (filter g' l).
Proof.
  intros H. induction l as [|x l IH]; cbn [map filter]; [reflexivity|].
  rewrite H. destruct (g' x); cbn [map]; now rewrite IH.
Qed.

Lemma enum_from_map {A B} (f : A -> B) l : forall k,
  enum_from k (map f l) = map (fun x => (fst x, f (snd x))) (enum_from k l).
Proof. induction l as [|x l IH]; intros k; cbn [map enum_from fst snd]; [reflexivity|]. now rewrite IH. Qed.

Definition tmap (f : note -> note) (t : tev) : tev := mkTev (te_step t) (te_idx t) (te_off t) (f (te_note t)).

Lemma pf_note_events_map f l :
  (forall n, n_qstart (f n) = n_qstart n) -> (forall n, n_qend (f n) = n_qend n) ->
  pf_note_events (map f l) = map (tmap f) (pf_note_events l).
Proof.
  intros Hs He. unfold pf_note_events. rewrite enum_from_map, !map_map.
  rewrite <- (isort_map (tmap f) tev_le tev_le) by reflexivity.
  rewrite map_app, !map_map. f_equal. f_equal; apply map_ext; intros [k n]; unfold tmap; cbn; now rewrite ?Hs, ?He.
Qed.

Lemma pfq_map f p l :
  (forall n, n_pitch (f n) = n_pitch n) -> (forall n, n_vel (f n) = n_vel n) ->
  (forall n, n_start (f n) = n_start n) -> (forall n, n_instr (f n) = n_instr n) ->
  (forall n, n_qstart (f n) = n_qstart n) -> (forall n, n_qend (f n) = n_qend n) ->
  pf_from_quantized p (map f l) = pf_from_quantized p l.
Proof.
  intros Hp Hv Hst Hi Hs He. unfold pf_from_quantized, pf_sorted_notes.
  rewrite (filter_map_comm f _ (pf_keep (fp_start p) (fp_instrument p)))
    by (intros x; unfold pf_keep; now rewrite Hs, Hi).
  rewrite (isort_map f pf_le pf_le) by (intros a b; unfold pf_le; now rewrite !Hst, !Hp).
  rewrite pf_note_events_map by assumption.
  rewrite !PC.pf_loop_mloop, map_map. f_equal. apply map_ext. intros t.
  unfold PC.med_of, tmap. cbn [te_step te_off te_note]. now rewrite Hp, Hst, Hv.
Qed.

Definition clr (n : note) : note :=
  mkNote (n_pitch n) (n_vel n) (n_start n) (n_end n) (n_instr n) (n_prog n) (n_drum n) (n_qstart n) (n_qend n) 0.

Definition tonote4 (i pr : Z) (drum : bool) (y : snote * Z) : note :=
  let '((q, s, e, v), k) := y in mkNote q v s e i pr drum s e k.

(** * the encoder's tuples, with the rank kept in [n_rest] *)
Definition med4_of (t : tev) : PC.med :=
  PC.mkMed (te_step t) (te_off t) (n_pitch (te_note t)) (n_rest (te_note t)) (n_vel (te_note t)).

Lemma pf_loop_mloop4 nb ms : forall tes cur vbin,
  pf_loop nb ms tes cur vbin = PC.mloop nb ms (map med4_of tes) cur vbin.
Proof.
  induction tes as [|t r IH]; intros cur vbin; cbn [pf_loop PC.mloop map]; [reflexivity|].
  cbn [med4_of PC.m_step PC.m_off PC.m_pitch PC.m_vel]. now rewrite IH.
Qed.

Definition on_m4 (n : note) : PC.med := PC.mkMed (n_qstart n) false (n_pitch n) (n_rest n) (n_vel n).
Definition off_m4 (n : note) : PC.med := PC.mkMed (n_qend n) true (n_pitch n) (n_rest n) (n_vel n).

Lemma med4_note_events_perm sorted :
  Permutation (map med4_of (pf_note_events sorted)) (map on_m4 sorted ++ map off_m4 sorted).
Proof.
  unfold pf_note_events. rewrite (Permutation_map med4_of (isort_perm tev_le _)).
  rewrite map_app, !map_map.
  rewrite <- (map_snd_enum on_m4 sorted 0), <- (map_snd_enum off_m4 sorted 0). reflexivity.
Qed.

Lemma med4_note_events_sorted sorted : StronglySorted (fun a b => n_rest a < n_rest b) sorted ->
  StronglySorted PC.mle (map med4_of (pf_note_events sorted)).
Proof.
  intros Hs. eapply PC.ssorted_map; [|apply note_events_sorted].
  intros a b Ha Hb Hle.
  apply In_note_events in Ha. destruct Ha as (ia & na & Hia & Hna & Hca).
  apply In_note_events in Hb. destruct Hb as (ib & nb' & Hib & Hnb & Hcb).
  assert (Ea : te_idx a = ia /\ te_note a = na) by (destruct Hca; subst a; auto).
  assert (Eb : te_idx b = ib /\ te_note b = nb') by (destruct Hcb; subst b; auto).
  destruct Ea as (Ea1 & Ea2). destruct Eb as (Eb1 & Eb2).
  unfold PC.mle, med4_of. cbn [PC.m_step PC.m_ns PC.m_pitch]. rewrite Ea2, Eb2.
  unfold tev_le in Hle. rewrite Ea1, Eb1 in Hle.
  destruct (Z.lt_trichotomy ia ib) as [Hlt|[Heq|Hgt]].
  - assert (Hp : n_rest na < n_rest nb') by (eapply (PC.ssorted_nth _ _ Hs); [|exact Hna|exact Hnb]; lia). lia.
  - assert (H : na = nb') by congruence. rewrite <- ?H. lia.
  - lia.
Qed.

Theorem roundtrip_steps_perf_w : forall p dv i pr drum es,
  1 <= fp_max_shift p -> (fp_bins p = 0 \/ 1 <= fp_bins p) ->
  (match fp_instrument p with None => True | Some j => j = i end) ->
  canonical_perf_w (fp_bins p) (fp_max_shift p) es = true ->
  pf_from_quantized p (pf_rnotes p dv i pr drum es) = es.
Proof.
  intros p dv i pr drum es Hms Hnb Hinstr Hcan.
  unfold canonical_perf_w in Hcan.
  set (c0 := mkPfCst 0 [] 0 PStart None None) in *.
  destruct (pf_canon_scan_w (fp_bins p) (fp_max_shift p) es c0) as [cf|] eqn:Hscan; [|discriminate].
  apply andb_true_iff in Hcan. destruct Hcan as (Hopen & Hprev). apply PC.is_nil_true in Hopen.
  assert (Hfin : cs_prev cf = PStart \/ cs_prev cf = POff) by (destruct (cs_prev cf); auto; discriminate).
  set (nb := fp_bins p) in *. set (ms := fp_max_shift p) in *. set (start := fp_start p).
  assert (Hop0 : cs_open c0 = map pq4 []) by reflexivity.
  assert (HI0 : Inv c0 [] 0) by (repeat split; try constructor; cbn; lia).
  set (D := dec4 nb start es (cs_step c0) dv [] 0).
  set (notes := map (tonote4 i pr drum) D).
  assert (Hren : pf_rnotes p dv i pr drum es = map clr notes).
  { unfold pf_rnotes, pf_to_step_notes. fold nb start.
    change (pf_decode nb start es 0 dv []) with (pf_decode nb start es (cs_step c0) dv (map fst (@nil ent))).
    rewrite <- (dec4_strip nb start es (cs_step c0) dv [] 0). fold D.
    unfold notes. rewrite !map_map. apply map_ext. intros [[[[q s] e] v] k]. reflexivity. }
  rewrite Hren, pfq_map by reflexivity.
  unfold pf_from_quantized. fold nb ms start.
  assert (Hkeep : filter (pf_keep start (fp_instrument p)) notes = notes).
  { apply PC.filter_all. intros n Hn. apply in_map_iff in Hn. destruct Hn as ([[[[q s] e] v] k] & <- & Hx).
    pose proof (dec4_starts nb ms start cf es c0 dv [] 0 Hscan Hop0 HI0 _ Hx) as Hst.
    unfold ystart in Hst. cbn [fst snd] in Hst.
    unfold pf_keep, tonote4. cbn [n_qstart n_instr].
    destruct (fp_instrument p) as [j|]; [subst j|]; lia. }
  unfold pf_sorted_notes. rewrite Hkeep. rewrite pf_loop_mloop4.
  assert (Hon : map on_m4 notes = map on5 D).
  { unfold notes. rewrite map_map. apply map_ext. intros [[[[q s] e] v] k]. reflexivity. }
  assert (Hoff : map off_m4 notes = map off5 D).
  { unfold notes. rewrite map_map. apply map_ext. intros [[[[q s] e] v] k]. reflexivity. }
  assert (Hsorted : StronglySorted (fun a b => n_rest a < n_rest b) (isort pf_le notes)).
  { apply (isort_stable pf_le (fun a b => n_rest a < n_rest b) PC.pf_le_total PC.pf_le_trans).
    - intros a b; lia.
    - unfold notes. eapply FOP_map_impl; [|apply (dec4_pairs nb ms start cf es c0 dv [] 0 Hscan Hop0 HI0)].
      intros [[[[q s] e] v] k] [[[[q' s'] e'] v'] k']. unfold RR, kle5, ystart, ypitch, yrank, refines, pf_le, tonote4.
      cbn [fst snd n_start n_pitch n_rest]. lia. }
  assert (HT : Tm4 nb start es (cs_step c0) dv [] 0 = map med4_of (pf_note_events (isort pf_le notes))).
  { apply (PC.sorted_perm_unique PC.mlt PC.mle PC.mlt_mle_anti).
    - now apply (Tm4_sorted nb ms start cf es c0 dv [] 0).
    - now apply med4_note_events_sorted.
    - rewrite med4_note_events_perm.
      rewrite (Permutation_map on_m4 (isort_perm pf_le notes)), (Permutation_map off_m4 (isort_perm pf_le notes)).
      rewrite Hon, Hoff.
      pose proof (Tm4_perm nb ms start cf Hopen es c0 dv [] 0 Hscan Hop0 HI0) as Hp. cbn [map app] in Hp. exact Hp. }
  rewrite <- HT.
  pose proof (Tm4_loop nb ms start dv Hms Hnb cf Hfin es c0 dv [] 0 Hscan Hop0 HI0) as HL.
  assert (Hvi : vel_inv nb dv (cs_vbin c0) dv).
  { unfold vel_inv. cbn [cs_vbin c0]. destruct Hnb as [H|H]; [left; auto|right; split; [lia|now left]]. }
  specialize (HL Hvi start 0 [] []). cbn [app] in HL. apply HL.
  - left. cbn. repeat split; auto. intros u; discriminate.
  - left. cbn. repeat split; auto. discriminate.
Qed.

Theorem roundtrip_extracted_perf_w : forall p dv i pr drum ns,
  perf_input_ok_w p ns ->
  (match fp_instrument p with None => True | Some j => j = i end) ->
  let es := pf_from_quantized p ns in
  pf_from_quantized p (pf_rnotes p dv i pr drum es) = es.
Proof.
  intros p dv i pr drum ns Hok Hi es. pose proof Hok as (Hms & Hnb & _).
  apply roundtrip_steps_perf_w; auto. now apply extraction_canonical_perf_w.
Qed.

End PW.

(** * the phase-4 statements *)
Theorem roundtrip_steps_perf_w : forall p dv i pr drum es,
  1 <= fp_max_shift p -> (fp_bins p = 0 \/ 1 <= fp_bins p) ->
  (match fp_instrument p with None => True | Some j => j = i end) ->
  canonical_perf_w (fp_bins p) (fp_max_shift p) es = true ->
  pf_from_quantized p (pf_rnotes p dv i pr drum es) = es.
Proof. exact PW.roundtrip_steps_perf_w. Qed.

Theorem extraction_canonical_perf_w : forall p ns,
  PW.perf_input_ok_w p ns ->
  canonical_perf_w (fp_bins p) (fp_max_shift p) (pf_from_quantized p ns) = true.
Proof. exact PW.extraction_canonical_perf_w. Qed.

Theorem roundtrip_extracted_perf_w : forall p dv i pr drum ns,
  PW.perf_input_ok_w p ns ->
  (match fp_instrument p with None => True | Some j => j = i end) ->
  let es := pf_from_quantized p ns in
  pf_from_quantized p (pf_rnotes p dv i pr drum es) = es.
Proof. exact PW.roundtrip_extracted_perf_w. Qed.

Theorem canonical_perf_implies_w : forall nb ms es,
  canonical_perf nb ms es = true -> canonical_perf_w nb ms es = true.
Proof. exact PW.canonical_perf_implies_w. Qed.

Theorem perf_nested_refuted : exists p dv i pr drum ns,
  1 <= fp_max_shift p /\ (fp_bins p = 0 \/ 1 <= fp_bins p) /\
  Forall (fun n => n_qstart n < n_qend n /\ MIN_MIDI_VELOCITY <= n_vel n) ns /\
  PW.times_follow_steps (pf_selected p ns) /\
  no_nested_same_pitch (pf_selected p ns) = false /\
  canonical_perf_w (fp_bins p) (fp_max_shift p) (pf_from_quantized p ns) = false /\
  pf_from_quantized p (pf_rnotes p dv i pr drum (pf_from_quantized p ns)) <> pf_from_quantized p ns.
Proof. exact PW.perf_nested_refuted. Qed.

(** a wide-canonical performance that is not strictly canonical (8 velocity bins, max_shift 3,
    start_step 5, instrument 2): (a) two notes of pitch 60 start on step 5 with velocity bins 5 and 2 and
    end on steps 8 and 12; (b) 60@5..12, 64@7..12, 60@8..14: the second 60 starts while the first
    sounds and ends after it *)
Example perf_wide_example :
  let p := mkPfParams 5 8 3 (Some 2) in
  let es := [(EV_VELOCITY, 5); (EV_NOTE_ON, 60); (EV_VELOCITY, 2); (EV_NOTE_ON, 60); (EV_TIME_SHIFT, 2);
             (EV_NOTE_ON, 64); (EV_TIME_SHIFT, 1); (EV_NOTE_OFF, 60); (EV_NOTE_ON, 60);
             (EV_TIME_SHIFT, 3); (EV_TIME_SHIFT, 1); (EV_NOTE_OFF, 60); (EV_NOTE_OFF, 64);
             (EV_TIME_SHIFT, 2); (EV_NOTE_OFF, 60)] in
  canonical_perf_w (fp_bins p) (fp_max_shift p) es = true /\
  canonical_perf (fp_bins p) (fp_max_shift p) es = false /\
  pf_to_step_notes p 100 es = [(60, 5, 8, 65); (60, 5, 12, 17); (64, 7, 12, 17); (60, 8, 14, 17)] /\
  pf_from_quantized p (pf_rnotes p 100 2 0 false es) = es.
Proof. vm_compute. repeat split; reflexivity. Qed.
