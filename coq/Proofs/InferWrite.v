(** Proofs/InferWrite.v — well-formedness of what inference writes (C19). *)
From Coq Require Import ZArith List Bool Lia Sorted.
From NS Require Import Model.InferWrite.
Import ListNotations.
Local Open Scope Z_scope.

(** sublist relation *)
Inductive sublist {A} : list A -> list A -> Prop :=
| sub_nil : sublist [] []
| sub_skip x l m : sublist l m -> sublist l (x :: m)
| sub_keep x l m : sublist l m -> sublist (x :: l) (x :: m).

Lemma write_chords_sublist l : forall cur, sublist (write_chords cur l) l.
Proof.
  induction l as [|[t f] r IH]; intros cur; cbn [write_chords]; [constructor|].
  destruct cur as [c|]; [destruct (c =? f)|]; try (apply sub_keep; apply IH); apply sub_skip; apply IH.
Qed.

(* consecutive written figures differ, and the first differs from the figure in force before *)
Fixpoint adjacent_differ (cur : option Z) (l : list (Z * Z)) : Prop :=
  match l with
  | [] => True
  | (_, f) :: r => cur <> Some f /\ adjacent_differ (Some f) r
  end.

Lemma write_chords_differ l : forall cur, adjacent_differ cur (write_chords cur l).
Proof.
  induction l as [|[t f] r IH]; intros cur; cbn [write_chords]; [exact I|].
  destruct cur as [c|].
  - destruct (c =? f) eqn:E; [apply IH|]. cbn. split; [intro H; inversion H; lia | apply IH].
  - cbn. split; [discriminate | apply IH].
Qed.

(* the chord in force after replaying the written annotations up to frame i is frame i's chord *)
Fixpoint in_force (cur : option Z) (w : list (Z * Z)) (t : Z) : option Z :=
  match w with
  | [] => cur
  | (u, f) :: r => if u <=? t then in_force (Some f) r t else cur
  end.

Fixpoint strictly_increasing (lo : Z) (l : list (Z * Z)) : Prop :=
  match l with [] => True | (t, _) :: r => lo < t /\ strictly_increasing t r end.

Lemma in_force_before w : forall cur lo t, strictly_increasing lo w -> t <= lo -> in_force cur w t = cur.
Proof.
  destruct w as [|[u f] r]; intros cur lo t Hs Ht; cbn; [reflexivity|].
  destruct Hs as [Hu _]. destruct (u <=? t) eqn:E; [lia | reflexivity].
Qed.

Lemma strictly_increasing_weaken l : forall lo lo', lo' <= lo -> strictly_increasing lo l -> strictly_increasing lo' l.
Proof. destruct l as [|[t f] r]; cbn; intros; [exact I | intuition lia]. Qed.

Lemma write_chords_increasing l : forall cur lo, strictly_increasing lo l -> strictly_increasing lo (write_chords cur l).
Proof.
  induction l as [|[t f] r IH]; intros cur lo Hs; cbn [write_chords]; [exact I|].
  destruct Hs as [Ht Hr].
  assert (Hr' : strictly_increasing lo r) by (eapply strictly_increasing_weaken; [|exact Hr]; lia).
  destruct cur as [c|]; [destruct (c =? f)|]; try (cbn; split; [exact Ht | apply IH; exact Hr]); apply IH; exact Hr'.
Qed.

(* every frame reads back its own chord from the written annotations *)
Lemma write_chords_in_force l : forall cur lo,
  strictly_increasing lo l ->
  forall t f, In (t, f) l -> in_force cur (write_chords cur l) t = Some f.
Proof.
  induction l as [|[u g] r IH]; intros cur lo Hs t f Hin; [destruct Hin|].
  destruct Hs as [Hu Hr]. cbn [write_chords].
  destruct Hin as [Heq | Hin].
  - inversion Heq; subst u g; clear Heq.
    destruct cur as [c|].
    + destruct (c =? f) eqn:E.
      * assert (c = f) by lia. subst c.
        apply in_force_before with (lo := t); [apply write_chords_increasing; exact Hr | lia].
      * cbn [in_force]. rewrite Z.leb_refl.
        apply in_force_before with (lo := t); [apply write_chords_increasing; exact Hr | lia].
    + cbn [in_force]. rewrite Z.leb_refl.
      apply in_force_before with (lo := t); [apply write_chords_increasing; exact Hr | lia].
  - assert (Hut : u < t).
    { clear IH Hu. revert u Hr. induction r as [|[v h] r IHr]; intros u Hr; [destruct Hin|].
      destruct Hr as [Hv Hr]. destruct Hin as [Heq|Hin]; [inversion Heq; subst; exact Hv|].
      specialize (IHr Hin v Hr). lia. }
    destruct cur as [c|].
    + destruct (c =? g) eqn:E.
      * assert (c = g) by lia. subst c. apply (IH (Some g) u Hr t f Hin).
      * cbn [in_force]. destruct (u <=? t) eqn:E2; [|lia]. apply (IH (Some g) u Hr t f Hin).
    + cbn [in_force]. destruct (u <=? t) eqn:E2; [|lia]. apply (IH (Some g) u Hr t f Hin).
Qed.

(** * Melody notes *)
Fixpoint times_increasing (lo : Z) (l : list (mev * Z)) : Prop :=
  match l with [] => True | (_, t) :: r => lo < t /\ times_increasing t r end.

Lemma times_increasing_weaken l : forall lo lo', lo' <= lo -> times_increasing lo l -> times_increasing lo' l.
Proof. destruct l as [|[e t] r]; cbn; intros; [exact I | intuition lia]. Qed.

(* notes are in order, non-overlapping, non-empty, inside [lo, total], and every
   note other than a carried-over one starts at an Onset event of its own pitch *)
Fixpoint notes_ok (lo total : Z) (ns : list mnote) : Prop :=
  match ns with
  | [] => True
  | n :: r => lo <= m_start n /\ m_start n < m_end n /\ m_end n <= total /\ notes_ok (m_end n) total r
  end.

Lemma notes_ok_weaken ns : forall lo lo' total, lo' <= lo -> notes_ok lo total ns -> notes_ok lo' total ns.
Proof. destruct ns as [|n r]; cbn; intros; [exact I | intuition lia]. Qed.

Definition cur_ok (lo : Z) (cur : option (Z * Z)) : Prop :=
  match cur with Some (_, s) => s <= lo | None => True end.
Definition cur_start (lo : Z) (cur : option (Z * Z)) : Z :=
  match cur with Some (_, s) => s | None => lo end.

Lemma write_melody_ok l : forall cur lo total ns,
  times_increasing lo l -> cur_ok lo cur ->
  (forall e t, In (e, t) l -> t < total) -> lo < total ->
  write_melody cur l total = Some ns -> notes_ok (cur_start lo cur) total ns.
Proof.
  induction l as [|[e t] r IH]; intros cur lo total ns Hinc Hcur Hlt Hlo Hw; cbn [write_melody] in Hw.
  - destruct cur as [[p s]|]; inversion Hw; subst; cbn in *; intuition lia.
  - destruct Hinc as [Ht Hr].
    assert (Htt : t < total) by (apply (Hlt e t); left; reflexivity).
    assert (Hlt' : forall e0 t0, In (e0, t0) r -> t0 < total) by (intros; eapply Hlt; right; eassumption).
    destruct e as [|q|q].
    + destruct cur as [[p s]|].
      * destruct (write_melody None r total) as [ns'|] eqn:E; cbn in Hw; inversion Hw; subst; clear Hw.
        cbn in Hcur. cbn [notes_ok cur_start m_start m_end]. repeat split; try lia.
        apply (IH None t total ns' Hr I Hlt' Htt E).
      * pose proof (IH None t total ns Hr I Hlt' Htt Hw) as H. cbn in *.
        eapply notes_ok_weaken; [|exact H]. lia.
    + destruct cur as [[p s]|].
      * destruct (write_melody (Some (q, t)) r total) as [ns'|] eqn:E; cbn in Hw; inversion Hw; subst; clear Hw.
        cbn in Hcur. cbn [notes_ok cur_start m_start m_end]. repeat split; try lia.
        pose proof (IH (Some (q, t)) t total ns' Hr ltac:(cbn; lia) Hlt' Htt E) as H. exact H.
      * pose proof (IH (Some (q, t)) t total ns Hr ltac:(cbn; lia) Hlt' Htt Hw) as H. cbn in *.
        eapply notes_ok_weaken; [|exact H]. lia.
    + destruct cur as [[p s]|]; [|discriminate].
      destruct (p =? q); [|discriminate].
      pose proof (IH (Some (p, s)) t total ns Hr ltac:(cbn in *; lia) Hlt' Htt Hw) as H. exact H.
Qed.

(* every written note starts at an Onset event of its own pitch (or is the carried-over note) *)
Lemma write_melody_starts l : forall cur total ns,
  write_melody cur l total = Some ns ->
  forall n, In n ns ->
    (cur = Some (m_pitch n, m_start n)) \/ In (Onset (m_pitch n), m_start n) l.
Proof.
  induction l as [|[e t] r IH]; intros cur total ns Hw n Hin; cbn [write_melody] in Hw.
  - destruct cur as [[p s]|]; inversion Hw; subst; [|destruct Hin].
    destruct Hin as [<-|[]]. left. reflexivity.
  - destruct e as [|q|q].
    + destruct cur as [[p s]|].
      * destruct (write_melody None r total) as [ns'|] eqn:E; cbn in Hw; inversion Hw; subst; clear Hw.
        destruct Hin as [<-|Hin]; [left; reflexivity|].
        destruct (IH None total ns' E n Hin) as [H|H]; [discriminate | right; right; exact H].
      * destruct (IH None total ns Hw n Hin) as [H|H]; [discriminate | right; right; exact H].
    + destruct cur as [[p s]|].
      * destruct (write_melody (Some (q, t)) r total) as [ns'|] eqn:E; cbn in Hw; inversion Hw; subst; clear Hw.
        destruct Hin as [<-|Hin]; [left; reflexivity|].
        destruct (IH (Some (q, t)) total ns' E n Hin) as [H|H].
        -- inversion H; subst. right; left; reflexivity.
        -- right; right; exact H.
      * destruct (IH (Some (q, t)) total ns Hw n Hin) as [H|H].
        -- inversion H; subst. right; left; reflexivity.
        -- right; right; exact H.
    + destruct cur as [[p s]|]; [|discriminate].
      destruct (p =? q); [|discriminate].
      destruct (IH (Some (p, s)) total ns Hw n Hin) as [H|H]; [left; exact H | right; right; exact H].
Qed.
