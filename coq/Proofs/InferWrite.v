(** Proofs/InferWrite.v — well-formedness of what inference writes (C19). *)
From Coq Require Import ZArith List Bool Lia Sorted Arith.
From NS Require Import Model.InferWrite.
Import ListNotations.
Local Open Scope Z_scope.

(** sublist relation *)
Inductive sublist {A} : list A -> list A -> Prop :=
| sub_nil : sublist [] []
| sub_skip x l m : sublist l m -> sublist l (x :: m)
| sub_keep x l m : sublist l m -> sublist (x :: l) (x :: m).

Lemma write_chords_sublist l : forall cur, sublist (write_chords cur l) l.
Proof.
  induction l as [|[t f] r IH]; intros cur; cbn [write_chords]; [constructor|].
  destruct cur as [c|]; [destruct (c =? f)|]; try (apply sub_keep; apply IH); apply sub_skip; apply IH.
Qed.

(* consecutive written figures differ, and the first differs from the figure in force before *)
Fixpoint adjacent_differ (cur : option Z) (l : list (Z * Z)) : Prop :=
  match l with
  | [] => True
  | (_, f) :: r => cur <> Some f /\ adjacent_differ (Some f) r
  end.

Lemma write_chords_differ l : forall cur, adjacent_differ cur (write_chords cur l).
Proof.
  induction l as [|[t f] r IH]; intros cur; cbn [write_chords]; [exact I|].
  destruct cur as [c|].
  - destruct (c =? f) eqn:E; [apply IH|]. cbn. split; [intro H; inversion H; lia | apply IH].
  - cbn. split; [discriminate | apply IH].
Qed.

(* the chord in force after replaying the written annotations up to frame i is frame i's chord *)
Fixpoint in_force (cur : option Z) (w : list (Z * Z)) (t : Z) : option Z :=
  match w with
  | [] => cur
  | (u, f) :: r => if u <=? t then in_force (Some f) r t else cur
  end.

Fixpoint strictly_increasing (lo : Z) (l : list (Z * Z)) : Prop :=
  match l with [] => True | (t, _) :: r => lo < t /\ strictly_increasing t r end.

Lemma in_force_before w : forall cur lo t, strictly_increasing lo w -> t <= lo -> in_force cur w t = cur.
Proof.
  destruct w as [|[u f] r]; intros cur lo t Hs Ht; cbn; [reflexivity|].
  destruct Hs as [Hu _]. destruct (u <=? t) eqn:E; [lia | reflexivity].
Qed.

Lemma strictly_increasing_weaken l : forall lo lo', lo' <= lo -> strictly_increasing lo l -> strictly_increasing lo' l.
Proof. destruct l as [|[t f] r]; cbn; intros; [exact I | intuition lia]. Qed.

Lemma write_chords_increasing l : forall cur lo, strictly_increasing lo l -> strictly_increasing lo (write_chords cur l).
Proof.
  induction l as [|[t f] r IH]; intros cur lo Hs; cbn [write_chords]; [exact I|].
  destruct Hs as [Ht Hr].
  assert (Hr' : strictly_increasing lo r) by (eapply strictly_increasing_weaken; [|exact Hr]; lia).
  destruct cur as [c|]; [destruct (c =? f)|]; try (cbn; split; [exact Ht | apply IH; exact Hr]); apply IH; exact Hr'.
Qed.

(* every frame reads back its own chord from the written annotations *)
Lemma write_chords_in_force l : forall cur lo,
  strictly_increasing lo l ->
  forall t f, In (t, f) l -> in_force cur (write_chords cur l) t = Some f.
Proof.
  induction l as [|[u g] r IH]; intros cur lo Hs t f Hin; [destruct Hin|].
  destruct Hs as [Hu Hr]. cbn [write_chords].
  destruct Hin as [Heq | Hin].
  - inversion Heq; subst u g; clear Heq.
    destruct cur as [c|].
    + destruct (c =? f) eqn:E.
      * assert (c = f) by lia. subst c.
        apply in_force_before with (lo := t); [apply write_chords_increasing; exact Hr | lia].
      * cbn [in_force]. rewrite Z.leb_refl.
        apply in_force_before with (lo := t); [apply write_chords_increasing; exact Hr | lia].
    + cbn [in_force]. rewrite Z.leb_refl.
      apply in_force_before with (lo := t); [apply write_chords_increasing; exact Hr | lia].
  - assert (Hut : u < t).
    { clear IH Hu. revert u Hr. induction r as [|[v h] r IHr]; intros u Hr; [destruct Hin|].
      destruct Hr as [Hv Hr]. destruct Hin as [Heq|Hin]; [inversion Heq; subst; exact Hv|].
      specialize (IHr Hin v Hr). lia. }
    destruct cur as [c|].
    + destruct (c =? g) eqn:E.
      * assert (c = g) by lia. subst c. apply (IH (Some g) u Hr t f Hin).
      * cbn [in_force]. destruct (u <=? t) eqn:E2; [|lia]. apply (IH (Some g) u Hr t f Hin).
    + cbn [in_force]. destruct (u <=? t) eqn:E2; [|lia]. apply (IH (Some g) u Hr t f Hin).
Qed.

(** * Melody notes *)
Fixpoint times_increasing (lo : Z) (l : list (mev * Z)) : Prop :=
  match l with [] => True | (_, t) :: r => lo < t /\ times_increasing t r end.

Lemma times_increasing_weaken l : forall lo lo', lo' <= lo -> times_increasing lo l -> times_increasing lo' l.
Proof. destruct l as [|[e t] r]; cbn; intros; [exact I | intuition lia]. Qed.

(* notes are in order, non-overlapping, non-empty, inside [lo, total], and every
   note other than a carried-over one starts at an Onset event of its own pitch *)
Fixpoint notes_ok (lo total : Z) (ns : list mnote) : Prop :=
  match ns with
  | [] => True
  | n :: r => lo <= m_start n /\ m_start n < m_end n /\ m_end n <= total /\ notes_ok (m_end n) total r
  end.

Lemma notes_ok_weaken ns : forall lo lo' total, lo' <= lo -> notes_ok lo total ns -> notes_ok lo' total ns.
Proof. destruct ns as [|n r]; cbn; intros; [exact I | intuition lia]. Qed.

Definition cur_ok (lo : Z) (cur : option (Z * Z)) : Prop :=
  match cur with Some (_, s) => s <= lo | None => True end.
Definition cur_start (lo : Z) (cur : option (Z * Z)) : Z :=
  match cur with Some (_, s) => s | None => lo end.

Lemma write_melody_ok l : forall cur lo total ns,
  times_increasing lo l -> cur_ok lo cur ->
  (forall e t, In (e, t) l -> t < total) -> lo < total ->
  write_melody cur l total = Some ns -> notes_ok (cur_start lo cur) total ns.
Proof.
  induction l as [|[e t] r IH]; intros cur lo total ns Hinc Hcur Hlt Hlo Hw; cbn [write_melody] in Hw.
  - destruct cur as [[p s]|]; inversion Hw; subst; cbn in *; intuition lia.
  - destruct Hinc as [Ht Hr].
    assert (Htt : t < total) by (apply (Hlt e t); left; reflexivity).
    assert (Hlt' : forall e0 t0, In (e0, t0) r -> t0 < total) by (intros; eapply Hlt; right; eassumption).
    destruct e as [|q|q].
    + destruct cur as [[p s]|].
      * destruct (write_melody None r total) as [ns'|] eqn:E; cbn in Hw; inversion Hw; subst; clear Hw.
        cbn in Hcur. cbn [notes_ok cur_start m_start m_end]. repeat split; try lia.
        apply (IH None t total ns' Hr I Hlt' Htt E).
      * pose proof (IH None t total ns Hr I Hlt' Htt Hw) as H. cbn in *.
        eapply notes_ok_weaken; [|exact H]. lia.
    + destruct cur as [[p s]|].
      * destruct (write_melody (Some (q, t)) r total) as [ns'|] eqn:E; cbn in Hw; inversion Hw; subst; clear Hw.
        cbn in Hcur. cbn [notes_ok cur_start m_start m_end]. repeat split; try lia.
        pose proof (IH (Some (q, t)) t total ns' Hr ltac:(cbn; lia) Hlt' Htt E) as H. exact H.
      * pose proof (IH (Some (q, t)) t total ns Hr ltac:(cbn; lia) Hlt' Htt Hw) as H. cbn in *.
        eapply notes_ok_weaken; [|exact H]. lia.
    + destruct cur as [[p s]|]; [|discriminate].
      destruct (p =? q); [|discriminate].
      pose proof (IH (Some (p, s)) t total ns Hr ltac:(cbn in *; lia) Hlt' Htt Hw) as H. exact H.
Qed.

(* every written note starts at an Onset event of its own pitch (or is the carried-over note) *)
Lemma write_melody_starts l : forall cur total ns,
  write_melody cur l total = Some ns ->
  forall n, In n ns ->
    (cur = Some (m_pitch n, m_start n)) \/ In (Onset (m_pitch n), m_start n) l.
Proof.
  induction l as [|[e t] r IH]; intros cur total ns Hw n Hin; cbn [write_melody] in Hw.
  - destruct cur as [[p s]|]; inversion Hw; subst; [|destruct Hin].
    destruct Hin as [<-|[]]. left. reflexivity.
  - destruct e as [|q|q].
    + destruct cur as [[p s]|].
      * destruct (write_melody None r total) as [ns'|] eqn:E; cbn in Hw; inversion Hw; subst; clear Hw.
        destruct Hin as [<-|Hin]; [left; reflexivity|].
        destruct (IH None total ns' E n Hin) as [H|H]; [discriminate | right; right; exact H].
      * destruct (IH None total ns Hw n Hin) as [H|H]; [discriminate | right; right; exact H].
    + destruct cur as [[p s]|].
      * destruct (write_melody (Some (q, t)) r total) as [ns'|] eqn:E; cbn in Hw; inversion Hw; subst; clear Hw.
        destruct Hin as [<-|Hin]; [left; reflexivity|].
        destruct (IH (Some (q, t)) total ns' E n Hin) as [H|H].
        -- inversion H; subst. right; left; reflexivity.
        -- right; right; exact H.
      * destruct (IH (Some (q, t)) total ns Hw n Hin) as [H|H].
        -- inversion H; subst. right; left; reflexivity.
        -- right; right; exact H.
    + destruct cur as [[p s]|]; [|discriminate].
      destruct (p =? q); [|discriminate].
      destruct (IH (Some (p, s)) total ns Hw n Hin) as [H|H]; [left; exact H | right; right; exact H].
Qed.

(** * Frame grids: sorting, de-duplication, strict monotonicity *)
Fixpoint incr (lo : Z) (l : list Z) : Prop :=
  match l with [] => True | t :: r => lo < t /\ incr t r end.
Fixpoint nondecr (lo : Z) (l : list Z) : Prop :=
  match l with [] => True | t :: r => lo <= t /\ nondecr t r end.

Lemma incr_weaken l : forall lo lo', lo' <= lo -> incr lo l -> incr lo' l.
Proof. destruct l as [|t r]; cbn; intros; [exact I | intuition lia]. Qed.

Lemma incr_lower l : forall lo t, incr lo l -> In t l -> lo < t.
Proof.
  induction l as [|x r IH]; intros lo t Hi Hin; [destruct Hin|].
  destruct Hi as [Hx Hr]. destruct Hin as [<-|Hin]; [exact Hx|].
  specialize (IH x t Hr Hin). lia.
Qed.

Lemma insert_In x l y : In y (insert x l) <-> y = x \/ In y l.
Proof.
  induction l as [|z r IH]; cbn [insert].
  - cbn. intuition.
  - destruct (x <=? z); cbn [In]; [intuition|]. rewrite IH. intuition.
Qed.

Lemma isort_In l y : In y (isort l) <-> In y l.
Proof.
  induction l as [|x r IH]; cbn [isort]; [reflexivity|].
  rewrite insert_In, IH. cbn. intuition.
Qed.

Lemma insert_nondecr x l : forall lo, lo <= x -> nondecr lo l -> nondecr lo (insert x l).
Proof.
  induction l as [|z r IH]; intros lo Hlo Hn; cbn [insert].
  - cbn. auto.
  - destruct Hn as [Hz Hr]. destruct (x <=? z) eqn:E.
    + cbn. repeat split; auto; lia.
    + cbn [nondecr]. split; [exact Hz|]. apply IH; [lia | exact Hr].
Qed.

Lemma isort_nondecr l : forall lo, (forall y, In y l -> lo <= y) -> nondecr lo (isort l).
Proof.
  induction l as [|x r IH]; intros lo H; cbn [isort]; [exact I|].
  apply insert_nondecr; [apply H; left; reflexivity|].
  apply IH. intros y Hy. apply H. right. exact Hy.
Qed.

Lemma uniq_from_incr l : forall prev, nondecr prev l -> incr prev (uniq_from prev l).
Proof.
  induction l as [|x r IH]; intros prev Hn; cbn [uniq_from]; [exact I|].
  destruct Hn as [Hx Hr]. destruct (prev <? x) eqn:E.
  - cbn. split; [lia | apply IH; exact Hr].
  - assert (x = prev) by lia. subst x. apply IH. exact Hr.
Qed.

Lemma uniq_from_In l : forall prev y, In y (uniq_from prev l) -> In y l.
Proof.
  induction l as [|x r IH]; intros prev y H; cbn [uniq_from] in H; [destruct H|].
  destruct (prev <? x); [destruct H as [<-|H]; [left; reflexivity|]|]; right; eapply IH; exact H.
Qed.

Lemma uniq_from_complete l : forall prev y, nondecr prev l -> In y l -> y = prev \/ In y (uniq_from prev l).
Proof.
  induction l as [|x r IH]; intros prev y Hn Hin; [destruct Hin|].
  destruct Hn as [Hx Hr]. cbn [uniq_from]. destruct (prev <? x) eqn:E.
  - destruct Hin as [<-|Hin]; [right; left; reflexivity|].
    destruct (IH x y Hr Hin) as [->|H]; right; [left; reflexivity | right; exact H].
  - assert (x = prev) by lia. subst x.
    destruct Hin as [<-|Hin]; [left; reflexivity | apply IH; assumption].
Qed.

Lemma uniq_sorted l lo : nondecr lo l -> (forall y, In y l -> lo < y) ->
  incr lo (uniq l) /\ forall y, In y (uniq l) <-> In y l.
Proof.
  destruct l as [|x r]; intros Hn Hlo; cbn [uniq]; [split; [exact I | reflexivity]|].
  destruct Hn as [Hx Hr]. split.
  - cbn. split; [apply Hlo; left; reflexivity | apply uniq_from_incr; exact Hr].
  - intros y. cbn [In]. split.
    + intros [<-|H]; [left; reflexivity | right; eapply uniq_from_In; exact H].
    + intros [<-|H]; [left; reflexivity|].
      destruct (uniq_from_complete r x y Hr H) as [->|H']; [left; reflexivity | right; exact H'].
Qed.

(* sorted + de-duplicated selection of [l] by a predicate that implies [lo < t] *)
Lemma uniq_isort_filter (f : Z -> bool) l lo :
  (forall t, f t = true -> lo < t) ->
  incr lo (uniq (isort (filter f l))) /\
  forall t, In t (uniq (isort (filter f l))) <-> In t l /\ f t = true.
Proof.
  intros Hf.
  assert (Hin : forall y, In y (isort (filter f l)) -> lo < y).
  { intros y Hy. rewrite isort_In, filter_In in Hy. apply Hf. apply Hy. }
  destruct (uniq_sorted (isort (filter f l)) lo) as [Hi Hu].
  - apply isort_nondecr. intros y Hy. rewrite filter_In in Hy. specialize (Hf y (proj2 Hy)). lia.
  - exact Hin.
  - split; [exact Hi|]. intros t. rewrite Hu, isort_In, filter_In. reflexivity.
Qed.

(** ** chord frames *)
Lemma interior_beats_spec beats total :
  incr 0 (interior_beats beats total) /\
  forall t, In t (interior_beats beats total) <-> In t beats /\ 0 < t < total.
Proof.
  unfold interior_beats.
  destruct (uniq_isort_filter (fun t => (0 <? t) && (t <? total)) beats 0) as [Hi Hu].
  - intros t H. apply andb_prop in H. lia.
  - split; [exact Hi|]. intros t. rewrite Hu. rewrite andb_true_iff, Z.ltb_lt, Z.ltb_lt. reflexivity.
Qed.

Lemma frame_times_beats_incr beats total : incr (-1) (frame_times_beats beats total).
Proof. cbn. split; [lia | apply interior_beats_spec]. Qed.

Lemma frame_times_fixed_from spc : 0 < spc -> forall n a,
  incr (Z.of_nat a * spc - 1) (map (fun k => Z.of_nat k * spc) (seq a n)).
Proof.
  intros Hs. induction n as [|n IH]; intros a; cbn [seq map incr]; [exact I|].
  split; [lia|]. eapply incr_weaken; [|apply IH]. nia.
Qed.

Lemma frame_times_fixed_incr spc n : 0 < spc -> incr (-1) (frame_times_fixed spc n).
Proof. intros Hs. apply (frame_times_fixed_from spc Hs n 0%nat). Qed.

Lemma frame_times_fixed_nth spc n k : (k < n)%nat -> nth k (frame_times_fixed spc n) 0 = Z.of_nat k * spc.
Proof.
  intros Hk. unfold frame_times_fixed.
  set (f := fun k => Z.of_nat k * spc).
  rewrite nth_indep with (d' := f O) by (rewrite map_length, seq_length; exact Hk).
  rewrite (map_nth f (seq 0 n) O k), seq_nth by exact Hk. reflexivity.
Qed.

Lemma incr_combine ts : forall lo (fs : list Z), incr lo ts -> strictly_increasing lo (combine ts fs).
Proof.
  induction ts as [|t r IH]; intros lo fs Hi; [exact I|].
  destruct fs as [|f fs]; [exact I|]. destruct Hi as [Ht Hr]. cbn. split; [exact Ht | apply IH; exact Hr].
Qed.

Lemma sublist_In {A} (l m : list A) : sublist l m -> forall x, In x l -> In x m.
Proof.
  induction 1; intros y Hy; [destruct Hy | right; auto |].
  destruct Hy as [<-|Hy]; [left; reflexivity | right; auto].
Qed.

(** Everything the property says about the chord annotations written for a path
    [figs] over a frame grid [times] (the same loop writes key signatures from
    the path of keys). *)
Definition chords_wf (lo : Z) (times figs : list Z) : Prop :=
  let frames := combine times figs in
  let w := chords_written times figs in
  sublist w frames /\                                        (* at most one per frame, in frame order *)
  (forall t f, In (t, f) w -> In t times) /\                 (* on frame boundaries *)
  strictly_increasing lo w /\                                (* times strictly increasing (after lo) *)
  adjacent_differ None w /\                                  (* consecutive symbols differ *)
  (forall t f, In (t, f) frames -> in_force None w t = Some f).  (* reading back gives the inferred path *)

Theorem chords_written_wf times figs lo : incr lo times -> chords_wf lo times figs.
Proof.
  intros Hi. unfold chords_wf, chords_written.
  set (frames := combine times figs).
  pose proof (incr_combine times lo figs Hi) as Hs. fold frames in Hs.
  split; [apply write_chords_sublist|]. split; [|split; [|split]].
  - intros t f Hin. apply (sublist_In _ _ (write_chords_sublist frames None)) in Hin.
    unfold frames in Hin. apply in_combine_l in Hin. exact Hin.
  - apply write_chords_increasing. exact Hs.
  - apply write_chords_differ.
  - apply write_chords_in_force with (lo := lo). exact Hs.
Qed.

(* quantized sequence: frame k starts at k * seconds_per_chord *)
Theorem chords_written_wf_quantized spc figs : 0 < spc ->
  let times := frame_times_fixed spc (length figs) in
  length times = length figs /\
  (forall k, (k < length figs)%nat -> nth k times 0 = Z.of_nat k * spc) /\
  chords_wf (-1) times figs.
Proof.
  intros Hs times. split; [|split].
  - unfold times, frame_times_fixed. rewrite map_length, seq_length. reflexivity.
  - intros k Hk. apply frame_times_fixed_nth. exact Hk.
  - apply chords_written_wf. apply frame_times_fixed_incr. exact Hs.
Qed.

(* beat-annotated sequence: frames start at 0 and at the distinct beat times strictly inside the
   sequence, whatever the storage order / multiplicity / range of the beat annotations *)
Theorem chords_written_wf_beats beats total figs :
  let times := frame_times_beats beats total in
  (forall t, In t times <-> t = 0 \/ (In t beats /\ 0 < t < total)) /\
  chords_wf (-1) times figs.
Proof.
  intros times. split.
  - intros t. unfold times, frame_times_beats. cbn [In].
    destruct (interior_beats_spec beats total) as [_ Hu]. rewrite Hu. intuition.
  - apply chords_written_wf. apply frame_times_beats_incr.
Qed.

(** ** melody frames *)
Lemma event_times_spec starts ends total :
  (forall t, In t (starts ++ ends) -> 0 <= t <= total) ->
  incr 0 (event_times starts ends total) /\
  forall t, In t (event_times starts ends total) <-> In t (starts ++ ends) /\ 0 < t < total.
Proof.
  intros Hr. unfold event_times.
  set (f := fun t => negb (t =? 0) && negb (t =? total)).
  set (g := fun t => (0 <? t) && (t <? total)).
  assert (Hfg : filter f (starts ++ ends) = filter g (starts ++ ends)).
  { apply filter_ext_in. intros t Ht. specialize (Hr t Ht). unfold f, g.
    destruct (t =? 0) eqn:E1, (t =? total) eqn:E2, (0 <? t) eqn:E3, (t <? total) eqn:E4; cbn; try reflexivity; lia. }
  rewrite Hfg.
  destruct (uniq_isort_filter g (starts ++ ends) 0) as [Hi Hu].
  - intros t H. unfold g in H. apply andb_prop in H. lia.
  - split; [exact Hi|]. intros t. rewrite Hu. unfold g. rewrite andb_true_iff, Z.ltb_lt, Z.ltb_lt. reflexivity.
Qed.

Lemma incr_combine_ev ts : forall lo (es : list mev), incr lo ts -> times_increasing lo (combine es ts).
Proof.
  induction ts as [|t r IH]; intros lo es Hi; [destruct es; exact I|].
  destruct es as [|e es]; [exact I|]. destruct Hi as [Ht Hr]. cbn. split; [exact Ht | apply IH; exact Hr].
Qed.

(** Everything the property says about the melody notes, for any strictly
    increasing list of event times inside (0, total). *)
Theorem melody_written_wf evs etimes total ns :
  incr 0 etimes -> (forall t, In t etimes -> t < total) -> 0 < total ->
  melody_written evs etimes total = Some ns ->
  notes_ok 0 total ns /\
  forall n, In n ns -> In (Onset (m_pitch n), m_start n) (combine evs (0 :: etimes)).
Proof.
  intros Hi Hlt Htot Hw. unfold melody_written in Hw. split.
  - destruct evs as [|e evs]; [cbn in Hw; inversion Hw; exact I|].
    cbn [combine] in Hw.
    assert (Hinc : times_increasing 0 (combine evs etimes)) by (apply incr_combine_ev; exact Hi).
    assert (Hlt' : forall e0 t0, In (e0, t0) (combine evs etimes) -> t0 < total).
    { intros e0 t0 H. apply in_combine_r in H. apply Hlt. exact H. }
    cbn [write_melody] in Hw. destruct e as [|q|q]; [| |discriminate].
    + exact (write_melody_ok _ None 0 total ns Hinc I Hlt' Htot Hw).
    + exact (write_melody_ok _ (Some (q, 0)) 0 total ns Hinc ltac:(cbn; lia) Hlt' Htot Hw).
  - intros n Hn. destruct (write_melody_starts _ None total ns Hw n Hn) as [H|H]; [discriminate | exact H].
Qed.

Corollary melody_written_wf_sequence evs starts ends total ns :
  (forall t, In t (starts ++ ends) -> 0 <= t <= total) -> 0 < total ->
  melody_written evs (event_times starts ends total) total = Some ns ->
  notes_ok 0 total ns /\
  forall n, In n ns -> In (Onset (m_pitch n), m_start n) (combine evs (0 :: event_times starts ends total)).
Proof.
  intros Hr Htot. destruct (event_times_spec starts ends total Hr) as [Hi Hu].
  apply melody_written_wf; [exact Hi | | exact Htot].
  intros t Ht. apply Hu in Ht. lia.
Qed.

(** ** frame summaries (sequence_note_frames): an onset mark sits in the frame
    that starts exactly at the start time of a real note of that pitch *)
Lemma incr_filter_le_nil l : forall lo s, incr lo l -> s <= lo -> filter (fun u => u <=? s) l = [].
Proof.
  induction l as [|x r IH]; intros lo s Hi Hs; [reflexivity|].
  destruct Hi as [Hx Hr]. cbn [filter]. destruct (x <=? s) eqn:E; [lia|]. apply (IH x); [exact Hr | lia].
Qed.

Lemma bisect_right_zero et : incr 0 et -> bisect_right et 0 = 0%nat.
Proof. intros Hi. unfold bisect_right. rewrite (incr_filter_le_nil et 0 0 Hi); [reflexivity | lia]. Qed.

Lemma bisect_right_nth et : forall lo x0 s, incr lo et -> In s et -> nth (bisect_right et s) (x0 :: et) 0 = s.
Proof.
  induction et as [|t r IH]; intros lo x0 s Hi Hin; [destruct Hin|].
  destruct Hi as [Ht Hr]. unfold bisect_right. cbn [filter].
  destruct Hin as [<-|Hin].
  - rewrite Z.leb_refl. cbn [length]. rewrite (incr_filter_le_nil r t t Hr) by lia. reflexivity.
  - pose proof (incr_lower r t s Hr Hin) as Hlt.
    destruct (t <=? s) eqn:E; [|lia]. cbn [length nth].
    apply (IH t t s Hr Hin).
Qed.

Theorem onset_frame_starts_at_note notes total f p :
  (forall n, In n notes -> 0 <= f_start n /\ 0 <= f_end n <= total) ->
  let ns := frame_notes notes total in
  let et := note_event_times ns total in
  has_onset ns et f p = true ->
  exists n, In n notes /\ melodic total n = true /\ f_pitch n = p /\ nth f (0 :: et) 0 = f_start n.
Proof.
  intros Hr ns et H. unfold has_onset in H. apply existsb_exists in H.
  destruct H as (n & Hn & Hc). apply andb_prop in Hc. destruct Hc as [Hp Hf].
  apply Z.eqb_eq in Hp. apply Nat.eqb_eq in Hf.
  unfold ns, frame_notes in Hn. apply filter_In in Hn. destruct Hn as [Hin Hm].
  exists n. repeat split; try assumption.
  assert (Hlt : f_start n < total).
  { unfold melodic in Hm. apply andb_prop in Hm. destruct Hm as [_ Hm]. lia. }
  assert (Hrange : forall t, In t (map f_start ns ++ map f_end ns) -> 0 <= t <= total).
  { intros t Ht. apply in_app_or in Ht. destruct Ht as [Ht|Ht]; apply in_map_iff in Ht; destruct Ht as (m & <- & Hm');
      unfold ns, frame_notes in Hm'; apply filter_In in Hm'; destruct Hm' as [Hm1 Hm2];
      specialize (Hr m Hm1); [|lia].
    unfold melodic in Hm2. apply andb_prop in Hm2. lia. }
  destruct (event_times_spec (map f_start ns) (map f_end ns) total Hrange) as [Hi Hu].
  fold (note_event_times ns total) in Hi, Hu. fold et in Hi, Hu.
  rewrite <- Hf.
  destruct (Z.eq_dec (f_start n) 0) as [E|E].
  - rewrite E, bisect_right_zero by exact Hi. reflexivity.
  - apply bisect_right_nth with (lo := 0); [exact Hi|].
    apply Hu. split.
    + apply in_or_app. left. apply in_map. unfold ns, frame_notes. apply filter_In. split; assumption.
    + specialize (Hr n Hin). lia.
Qed.

(* Without the [start < total] clause of [melodic] (the code before notes/C19-fix-1.diff) the
   statement is false: a note sitting on the end of the sequence marks an onset in the
   last frame, which starts earlier. *)
Lemma onset_frame_needs_end_filter :
  exists ns total f p,
    (forall n, In n ns -> 0 <= f_start n /\ 0 <= f_end n <= total) /\
    has_onset ns (note_event_times ns total) f p = true /\
    forall n, In n ns -> f_pitch n = p -> nth f (0 :: note_event_times ns total) 0 <> f_start n.
Proof.
  exists [mkF 60 0 64 false 0; mkF 72 64 64 false 0], 64, 0%nat, 72.
  split; [|split].
  - intros n [<-|[<-|[]]]; cbn; lia.
  - vm_compute. reflexivity.
  - intros n [<-|[<-|[]]]; cbn; intros; lia.
Qed.

(** The melody notes infer_melody_for_sequence adds, for any event path. *)
Theorem infer_melody_write_wf evs notes total ns :
  (forall n, In n notes -> 0 <= f_start n /\ 0 <= f_end n <= total) ->
  infer_melody_write evs notes total = Some ns ->
  notes_ok 0 total ns /\
  forall n, In n ns ->
    In (Onset (m_pitch n), m_start n) (combine evs (0 :: note_event_times (frame_notes notes total) total)).
Proof.
  intros Hr Hw. unfold infer_melody_write in Hw.
  destruct (frame_notes notes total) as [|x fn] eqn:Efn.
  - inversion Hw; subst. split; [exact I | intros n []].
  - assert (Hx : In x (frame_notes notes total)) by (rewrite Efn; left; reflexivity).
    unfold frame_notes in Hx. apply filter_In in Hx. destruct Hx as [Hx1 Hx2].
    assert (Htot : 0 < total).
    { specialize (Hr x Hx1). unfold melodic in Hx2. apply andb_prop in Hx2. lia. }
    unfold note_event_times in *.
    apply melody_written_wf_sequence; [|exact Htot|exact Hw].
    intros t Ht. rewrite <- Efn in Ht.
    apply in_app_or in Ht. destruct Ht as [Ht|Ht]; apply in_map_iff in Ht; destruct Ht as (m & <- & Hm);
      unfold frame_notes in Hm; apply filter_In in Hm; destruct Hm as [Hm1 Hm2]; specialize (Hr m Hm1); [|lia].
    unfold melodic in Hm2. apply andb_prop in Hm2. lia.
Qed.

(** ** Reading the melody back: at every frame start the written notes sound
    exactly the pitch of that frame's melody event (nothing on a rest) *)
Definition sounding (ns : list mnote) (t : Z) : list Z :=
  map m_pitch (filter (fun n => (m_start n <=? t) && (t <? m_end n)) ns).
Definition ev_pitches (e : mev) : list Z :=
  match e with Rest => [] | Onset q => [q] | Sustain q => [q] end.

Lemma notes_ok_lower ns : forall lo total, notes_ok lo total ns -> forall n, In n ns -> lo <= m_start n.
Proof.
  induction ns as [|x r IH]; intros lo total H n Hin; [destruct Hin|].
  destruct H as (H1 & H2 & H3 & H4). destruct Hin as [<-|Hin]; [exact H1|].
  specialize (IH _ _ H4 n Hin). lia.
Qed.

Lemma sounding_before ns u : (forall n, In n ns -> u < m_start n) -> sounding ns u = [].
Proof.
  induction ns as [|x r IH]; intros H; [reflexivity|].
  unfold sounding. cbn [filter]. assert (Hx := H x (or_introl eq_refl)).
  destruct (m_start x <=? u) eqn:E; [lia|]. cbn [andb]. apply IH. intros n Hn. apply H. right. exact Hn.
Qed.

Lemma sounding_cons x r u :
  sounding (x :: r) u = (if (m_start x <=? u) && (u <? m_end x) then [m_pitch x] else []) ++ sounding r u.
Proof. unfold sounding. cbn [filter]. destruct ((m_start x <=? u) && (u <? m_end x)); reflexivity. Qed.

(* while the sounding note (if any) is still open, it alone sounds *)
Lemma sounding_cur l : forall cur lo total ns,
  times_increasing lo l -> cur_ok lo cur -> (forall e t, In (e, t) l -> t < total) -> lo < total ->
  write_melody cur l total = Some ns ->
  forall u, u <= lo -> match cur with Some (_, s) => s <= u | None => True end ->
  sounding ns u = match cur with Some (p, _) => [p] | None => [] end.
Proof.
  induction l as [|[e t] r IH]; intros cur lo total ns Hinc Hcur Hlt Hlo Hw u Hu Hs; cbn [write_melody] in Hw.
  - destruct cur as [[p s]|]; inversion Hw; subst; [|reflexivity].
    rewrite sounding_cons. cbn [m_start m_end m_pitch].
    destruct (s <=? u) eqn:E1; [|lia]. destruct (u <? total) eqn:E2; [|lia]. reflexivity.
  - destruct Hinc as [Ht Hr].
    assert (Htt : t < total) by (apply (Hlt e t); left; reflexivity).
    assert (Hlt' : forall e0 t0, In (e0, t0) r -> t0 < total) by (intros; eapply Hlt; right; eassumption).
    destruct e as [|q|q].
    + destruct cur as [[p s]|].
      * destruct (write_melody None r total) as [ns'|] eqn:E; cbn in Hw; inversion Hw; subst; clear Hw.
        cbn in Hcur. rewrite sounding_cons. cbn [m_start m_end m_pitch].
        destruct (s <=? u) eqn:E1; [|lia]. destruct (u <? t) eqn:E2; [|lia]. cbn [andb app].
        rewrite (IH None t total ns' Hr I Hlt' Htt E u ltac:(lia) I). reflexivity.
      * exact (IH None t total ns Hr I Hlt' Htt Hw u ltac:(lia) I).
    + assert (Hnew : forall ns', write_melody (Some (q, t)) r total = Some ns' -> sounding ns' u = []).
      { intros ns' E. apply sounding_before. intros n Hn.
        pose proof (write_melody_ok r (Some (q, t)) t total ns' Hr ltac:(cbn; lia) Hlt' Htt E) as Hok.
        cbn [cur_start] in Hok. pose proof (notes_ok_lower _ _ _ Hok n Hn). lia. }
      destruct cur as [[p s]|].
      * destruct (write_melody (Some (q, t)) r total) as [ns'|] eqn:E; cbn in Hw; inversion Hw; subst; clear Hw.
        cbn in Hcur. rewrite sounding_cons. cbn [m_start m_end m_pitch].
        destruct (s <=? u) eqn:E1; [|lia]. destruct (u <? t) eqn:E2; [|lia]. cbn [andb app].
        rewrite (Hnew ns' eq_refl). reflexivity.
      * apply Hnew. exact Hw.
    + destruct cur as [[p s]|]; [|discriminate].
      destruct (p =? q); [|discriminate].
      exact (IH (Some (p, s)) t total ns Hr ltac:(cbn in *; lia) Hlt' Htt Hw u ltac:(lia) Hs).
Qed.

Lemma write_melody_readback l : forall cur lo total ns,
  times_increasing lo l -> cur_ok lo cur -> (forall e t, In (e, t) l -> t < total) -> lo < total ->
  write_melody cur l total = Some ns ->
  forall e t, In (e, t) l -> sounding ns t = ev_pitches e.
Proof.
  induction l as [|[e t] r IH]; intros cur lo total ns Hinc Hcur Hlt Hlo Hw e' t' Hin; [destruct Hin|].
  cbn [write_melody] in Hw. destruct Hinc as [Ht Hr].
  assert (Htt : t < total) by (apply (Hlt e t); left; reflexivity).
  assert (Hlt' : forall e0 t0, In (e0, t0) r -> t0 < total) by (intros; eapply Hlt; right; eassumption).
  assert (Hlater : In (e', t') r -> t < t').
  { clear - Hr. revert t Hr. induction r as [|[e0 t0] r IHr]; intros t Hr Hin; [destruct Hin|].
    destruct Hr as [H0 Hr]. destruct Hin as [Heq|Hin]; [inversion Heq; subst; exact H0|].
    specialize (IHr t0 Hr Hin). lia. }
  destruct e as [|q|q].
  - destruct cur as [[p s]|].
    + destruct (write_melody None r total) as [ns'|] eqn:E; cbn in Hw; inversion Hw; subst; clear Hw.
      cbn in Hcur. rewrite sounding_cons. cbn [m_start m_end m_pitch].
      destruct Hin as [Heq|Hin].
      * inversion Heq; subst e' t'. rewrite Z.ltb_irrefl, andb_false_r. cbn [app ev_pitches].
        exact (sounding_cur r None t total ns' Hr I Hlt' Htt E t ltac:(lia) I).
      * specialize (Hlater Hin). destruct (t' <? t) eqn:E2; [lia|]. rewrite andb_false_r. cbn [app].
        exact (IH None t total ns' Hr I Hlt' Htt E e' t' Hin).
    + destruct Hin as [Heq|Hin].
      * inversion Heq; subst e' t'. cbn [ev_pitches].
        exact (sounding_cur r None t total ns Hr I Hlt' Htt Hw t ltac:(lia) I).
      * exact (IH None t total ns Hr I Hlt' Htt Hw e' t' Hin).
  - assert (Hq : forall ns', write_melody (Some (q, t)) r total = Some ns' -> sounding ns' t' = ev_pitches e').
    { intros ns' E. destruct Hin as [Heq|Hin].
      - inversion Heq; subst e' t'. cbn [ev_pitches].
        exact (sounding_cur r (Some (q, t)) t total ns' Hr ltac:(cbn; lia) Hlt' Htt E t ltac:(lia) ltac:(cbn; lia)).
      - exact (IH (Some (q, t)) t total ns' Hr ltac:(cbn; lia) Hlt' Htt E e' t' Hin). }
    destruct cur as [[p s]|].
    + destruct (write_melody (Some (q, t)) r total) as [ns'|] eqn:E; cbn in Hw; inversion Hw; subst; clear Hw.
      cbn in Hcur. rewrite sounding_cons. cbn [m_start m_end m_pitch].
      assert (Hge : t <= t') by (destruct Hin as [Heq|Hin]; [inversion Heq; lia | specialize (Hlater Hin); lia]).
      destruct (t' <? t) eqn:E2; [lia|]. rewrite andb_false_r. cbn [app]. apply Hq. reflexivity.
    + apply Hq. exact Hw.
  - destruct cur as [[p s]|]; [|discriminate].
    destruct (p =? q) eqn:Epq; [|discriminate]. assert (p = q) by lia. subst q.
    destruct Hin as [Heq|Hin].
    + inversion Heq; subst e' t'. cbn [ev_pitches]. cbn in Hcur.
      exact (sounding_cur r (Some (p, s)) t total ns Hr ltac:(cbn; lia) Hlt' Htt Hw t ltac:(lia) ltac:(cbn; lia)).
    + exact (IH (Some (p, s)) t total ns Hr ltac:(cbn in *; lia) Hlt' Htt Hw e' t' Hin).
Qed.

Theorem infer_melody_readback evs notes total ns :
  (forall n, In n notes -> 0 <= f_start n /\ 0 <= f_end n <= total) ->
  frame_notes notes total <> [] ->
  infer_melody_write evs notes total = Some ns ->
  forall e t, In (e, t) (combine evs (0 :: note_event_times (frame_notes notes total) total)) ->
  sounding ns t = ev_pitches e.
Proof.
  intros Hr Hne Hw. unfold infer_melody_write in Hw.
  destruct (frame_notes notes total) as [|x fn] eqn:Efn; [congruence|].
  assert (Hx : In x (frame_notes notes total)) by (rewrite Efn; left; reflexivity).
  unfold frame_notes in Hx. apply filter_In in Hx. destruct Hx as [Hx1 Hx2].
  assert (Htot : 0 < total).
  { specialize (Hr x Hx1). unfold melodic in Hx2. apply andb_prop in Hx2. lia. }
  assert (Hrange : forall t, In t (map f_start (x :: fn) ++ map f_end (x :: fn)) -> 0 <= t <= total).
  { intros t Ht. rewrite <- Efn in Ht.
    apply in_app_or in Ht. destruct Ht as [Ht|Ht]; apply in_map_iff in Ht; destruct Ht as (m & <- & Hm);
      unfold frame_notes in Hm; apply filter_In in Hm; destruct Hm as [Hm1 Hm2]; specialize (Hr m Hm1); [|lia].
    unfold melodic in Hm2. apply andb_prop in Hm2. lia. }
  unfold note_event_times in *.
  destruct (event_times_spec _ _ total Hrange) as [Hi Hu].
  set (et := event_times (map f_start (x :: fn)) (map f_end (x :: fn)) total) in *.
  unfold melody_written in Hw.
  intros e t Hin.
  apply (write_melody_readback (combine evs (0 :: et)) None (-1) total ns); try assumption; try exact I; try lia.
  - apply incr_combine_ev. cbn. split; [lia | exact Hi].
  - intros e0 t0 H0. apply in_combine_r in H0. destruct H0 as [<-|H0]; [exact Htot|]. apply Hu in H0. lia.
Qed.
