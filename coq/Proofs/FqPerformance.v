(** Proofs/FqPerformance.v — perf_shifts, NotePerformance round trip, Performance round trip. *)
From Coq Require Import ZArith List Bool Lia ZifyBool Permutation Sorted.
From NS Require Import Base.NoteSeq Gen.G07 Model.FqCommon Model.FqPerformance Model.FqSpec Proofs.FqCommon.
Import ListNotations.
Local Open Scope Z_scope.
Ltac Zify.zify_post_hook ::= Z.to_euclidean_division_equations.

(** * time shifts *)
Definition shifts_ok (ms : Z) (evs : list pevent) : Prop :=
  forall e, In e evs -> fst e = EV_TIME_SHIFT -> 1 <= snd e <= ms.

Lemma sum_shifts_app a b : sum_shifts (a ++ b) = sum_shifts a + sum_shifts b.
Proof.
  induction a as [|e a IH]; cbn [app sum_shifts fold_right]; [reflexivity|].
  fold (sum_shifts (a ++ b)). fold (sum_shifts a). rewrite IH. destruct (fst e =? EV_TIME_SHIFT); lia.
Qed.

Lemma sum_shifts_repeat ms k : 0 <= k -> sum_shifts (zrepeat (EV_TIME_SHIFT, ms) k) = k * ms.
Proof.
  intros Hk. unfold zrepeat. rewrite <- (Z2Nat.id k) at 2 by exact Hk.
  induction (Z.to_nat k) as [|n IH]; [reflexivity|].
  cbn [repeat sum_shifts fold_right]. fold (sum_shifts (repeat (EV_TIME_SHIFT, ms) n)). rewrite IH.
  cbn [fst snd]. rewrite Z.eqb_refl. lia.
Qed.

Lemma pf_shifts_spec ms d : 1 <= ms -> 0 < d ->
  sum_shifts (pf_shifts ms d) = d /\ shifts_ok ms (pf_shifts ms d).
Proof.
  intros Hms Hd. unfold pf_shifts.
  assert (Hk : 0 <= (d - 1) / ms) by (apply Z.div_pos; lia).
  pose proof (Z.div_mod (d - 1) ms ltac:(lia)) as Hdm.
  pose proof (Z.mod_pos_bound (d - 1) ms ltac:(lia)) as Hmb.
  set (k := (d - 1) / ms) in *.
  assert (Hrest : 1 <= d - k * ms <= ms) by nia.
  split.
  - rewrite sum_shifts_app, sum_shifts_repeat by exact Hk.
    cbn [sum_shifts fold_right fst snd]. rewrite Z.eqb_refl. lia.
  - intros e He _. apply in_app_or in He. destruct He as [He|[<-|[]]].
    + unfold zrepeat in He. apply repeat_spec in He. subst e. cbn [snd]. nia.
    + cbn [snd]. exact Hrest.
Qed.

Definition last_step (tes : list tev) (cur : Z) : Z := fold_left (fun _ t => te_step t) tes cur.

Fixpoint steps_mono (cur : Z) (tes : list tev) : Prop :=
  match tes with [] => True | t :: r => cur <= te_step t /\ steps_mono (te_step t) r end.

Lemma ev_codes_distinct :
  (EV_NOTE_ON =? EV_TIME_SHIFT) = false /\ (EV_NOTE_OFF =? EV_TIME_SHIFT) = false /\
  (EV_VELOCITY =? EV_TIME_SHIFT) = false /\ (EV_NOTE_OFF =? EV_NOTE_ON) = false /\
  (EV_TIME_SHIFT =? EV_NOTE_ON) = false /\ (EV_VELOCITY =? EV_NOTE_ON) = false /\
  (EV_TIME_SHIFT =? EV_NOTE_OFF) = false /\ (EV_VELOCITY =? EV_NOTE_OFF) = false /\
  (EV_VELOCITY =? EV_TIME_SHIFT) = false.
Proof. repeat split; reflexivity. Qed.

Lemma pf_loop_shifts nb ms : 1 <= ms -> forall tes cur vbin,
  steps_mono cur tes ->
  sum_shifts (pf_loop nb ms tes cur vbin) = last_step tes cur - cur /\
  shifts_ok ms (pf_loop nb ms tes cur vbin).
Proof.
  intros Hms. induction tes as [|t r IH]; intros cur vbin Hmono; cbn [pf_loop last_step fold_left].
  - split; [cbn; lia|intros e []].
  - destruct Hmono as (Hcur & Hmono). fold (last_step r (te_step t)).
    set (b := vel_to_bin (n_vel (te_note t)) nb).
    set (change := negb (nb =? 0) && negb (te_off t) && negb (b =? vbin)).
    destruct (ev_codes_distinct) as (D1 & D2 & D3 & _).
    assert (Hve : forall (c : bool) x, sum_shifts (if c then [(EV_VELOCITY, x) : pevent] else []) = 0
                                       /\ shifts_ok ms (if c then [(EV_VELOCITY, x) : pevent] else [])).
    { intros [] x; (split; [cbn [sum_shifts fold_right fst]; try rewrite D3; reflexivity|]).
      - intros e [<-|[]] He. cbn [fst] in He. rewrite <- Z.eqb_eq, D3 in He. discriminate.
      - intros e []. }
    assert (Hnote : forall (c : bool) x, sum_shifts [((if c then EV_NOTE_OFF else EV_NOTE_ON), x) : pevent] = 0
                                         /\ shifts_ok ms [((if c then EV_NOTE_OFF else EV_NOTE_ON), x) : pevent]).
    { intros [] x; (split; [cbn [sum_shifts fold_right fst]; try rewrite D1; try rewrite D2; reflexivity|]);
        intros e [<-|[]] He; cbn [fst] in He; rewrite <- Z.eqb_eq in He; congruence. }
    destruct (cur <? te_step t) eqn:Elt.
    + destruct (pf_shifts_spec ms (te_step t - cur) Hms ltac:(lia)) as (Hs1 & Hs2).
      destruct (IH (te_step t) (if change then b else vbin) Hmono) as (IH1 & IH2).
      destruct (Hve change b) as (V1 & V2). destruct (Hnote (te_off t) (n_pitch (te_note t))) as (N1 & N2).
      split.
      * rewrite !sum_shifts_app.
        match goal with |- ?a + (?b + (?c + ?d)) = _ =>
          assert (Ha : a = te_step t - cur) by apply Hs1; assert (Hb : b = 0) by apply V1;
          assert (Hc : c = 0) by apply N1; assert (Hd : d = last_step r (te_step t) - te_step t) by apply IH1;
          rewrite Ha, Hb, Hc, Hd end. lia.
      * intros e He Hty. apply in_app_or in He. destruct He as [He|He]; [now apply Hs2|].
        apply in_app_or in He. destruct He as [He|He]; [now apply V2|].
        apply in_app_or in He. destruct He as [He|He]; [now apply N2|now apply IH2].
    + assert (cur = te_step t) by lia. subst cur.
      destruct (IH (te_step t) (if change then b else vbin) Hmono) as (IH1 & IH2).
      destruct (Hve change b) as (V1 & V2). destruct (Hnote (te_off t) (n_pitch (te_note t))) as (N1 & N2).
      split.
      * rewrite !sum_shifts_app.
        match goal with |- _ + (?b + (?c + ?d)) = _ =>
          assert (Hb : b = 0) by apply V1;
          assert (Hc : c = 0) by apply N1; assert (Hd : d = last_step r (te_step t) - te_step t) by apply IH1;
          rewrite Hb, Hc, Hd end. cbn [sum_shifts fold_right]. lia.
      * intros e He Hty. apply in_app_or in He. destruct He as [[]|He].
        apply in_app_or in He. destruct He as [He|He]; [now apply V2|].
        apply in_app_or in He. destruct He as [He|He]; [now apply N2|now apply IH2].
Qed.

(** * NotePerformance *)
Lemma np_roundtrip nb ms md start : forall sel cur evs,
  np_loop nb ms md sel cur = Ok evs ->
  np_decode nb start evs (cur - start)
  = map (fun n => (n_pitch n, n_qstart n, n_qend n, bin_to_vel (vel_to_bin (n_vel n) nb) nb)) sel
  /\ Forall (fun e => let '(sh, q, b, du) := e in 0 <= sh <= ms /\ 1 <= du <= md) evs.
Proof.
  induction sel as [|n r IH]; intros cur evs; cbn [np_loop].
  - intros H. apply Ok_inj in H. subst evs. split; [reflexivity|constructor].
  - destruct (ms <? n_qstart n - cur) eqn:E1; [discriminate|].
    destruct (n_qstart n - cur <? 0) eqn:E2; [discriminate|].
    destruct (nb =? 0) eqn:E3; [discriminate|].
    destruct (md <? n_qend n - n_qstart n) eqn:E4; [discriminate|].
    destruct (n_qend n - n_qstart n <? 1) eqn:E5; [discriminate|].
    destruct (np_loop nb ms md r (n_qstart n)) as [l|c] eqn:Er; cbn [bind]; [|discriminate].
    intros H. apply Ok_inj in H. subst evs. destruct (IH _ _ Er) as (IH1 & IH2).
    cbn [np_decode map]. split.
    + replace (cur - start + (n_qstart n - cur) + start) with (n_qstart n) by lia.
      replace (cur - start + (n_qstart n - cur) + (n_qend n - n_qstart n) + start) with (n_qend n) by lia.
      f_equal.
      replace (cur - start + (n_qstart n - cur)) with (n_qstart n - start) by lia. exact IH1.
    + constructor; [lia|exact IH2].
Qed.

Lemma np_errors nb ms md : forall sel cur c,
  nb <> 0 -> steps_mono cur (map (fun n => mkTev (n_qstart n) 0 false n) sel) ->
  Forall (fun n => n_qstart n < n_qend n) sel ->
  np_loop nb ms md sel cur = Err c ->
  (c = E_SHIFT /\ exists n, In n sel /\ True) \/ (c = E_DURATION /\ exists n, In n sel /\ md < n_qend n - n_qstart n).
Proof.
  induction sel as [|n r IH]; intros cur c Hnb Hmono Hwf; cbn [np_loop]; [discriminate|].
  cbn [map steps_mono te_step] in Hmono. destruct Hmono as (Hcur & Hmono).
  inversion Hwf as [|? ? Hn Hr]; subst.
  destruct (ms <? n_qstart n - cur) eqn:E1.
  { intros H. injection H as <-. left. split; [reflexivity|]. exists n. split; [now left|exact I]. }
  destruct (n_qstart n - cur <? 0) eqn:E2; [lia|].
  destruct (nb =? 0) eqn:E3; [lia|].
  destruct (md <? n_qend n - n_qstart n) eqn:E4.
  { intros H. injection H as <-. right. split; [reflexivity|]. exists n. split; [now left|lia]. }
  destruct (n_qend n - n_qstart n <? 1) eqn:E5; [lia|].
  destruct (np_loop nb ms md r (n_qstart n)) as [l|c'] eqn:Er; cbn [bind]; [discriminate|].
  intros H. injection H as <-.
  destruct (IH _ _ Hnb Hmono Hr Er) as [(-> & n' & Hn' & _)|(-> & n' & Hn' & Hd)].
  - left. split; [reflexivity|]. exists n'. split; [now right|exact I].
  - right. split; [reflexivity|]. exists n'. split; [now right|exact Hd].
Qed.

(** * the sorted (step, idx, is_offset) tuples *)
Lemma tev_le_total a b : tev_le a b = true \/ tev_le b a = true.
Proof. unfold tev_le. destruct (te_off a), (te_off b); cbn [implb]; lia. Qed.

Lemma tev_le_trans a b c : tev_le a b = true -> tev_le b c = true -> tev_le a c = true.
Proof. unfold tev_le. destruct (te_off a), (te_off b), (te_off c); cbn [implb]; lia. Qed.

Lemma In_enum_from {A} (l : list A) : forall k i x,
  In (i, x) (enum_from k l) <-> k <= i /\ nth_error l (Z.to_nat (i - k)) = Some x.
Proof.
  induction l as [|y l IH]; intros k i x; cbn [enum_from In].
  - split; [intros []|]. intros (_ & H). destruct (Z.to_nat (i - k)); discriminate.
  - rewrite IH. split.
    + intros [H|(H1 & H2)].
      * injection H as H1 H2. subst i y. split; [lia|]. now replace (k - k) with 0 by lia.
      * split; [lia|]. replace (Z.to_nat (i - k)) with (S (Z.to_nat (i - (k + 1)))) by lia. exact H2.
    + intros (H1 & H2). destruct (Z.eq_dec i k) as [->|Hne].
      * left. replace (k - k) with 0 in H2 by lia. cbn in H2. congruence.
      * right. split; [lia|]. replace (Z.to_nat (i - k)) with (S (Z.to_nat (i - (k + 1)))) in H2 by lia. exact H2.
Qed.

Definition on_of (i : Z) (n : note) : tev := mkTev (n_qstart n) i false n.
Definition off_of (i : Z) (n : note) : tev := mkTev (n_qend n) i true n.

Lemma In_note_events sel t :
  In t (pf_note_events sel) <->
  exists i n, 0 <= i /\ nth_error sel (Z.to_nat i) = Some n /\ (t = on_of i n \/ t = off_of i n).
Proof.
  unfold pf_note_events. rewrite isort_In, in_app_iff, !in_map_iff. split.
  - intros [([i n] & <- & H)|([i n] & <- & H)]; apply In_enum_from in H; destruct H as (H1 & H2);
      replace (i - 0) with i in H2 by lia; exists i, n; cbn [fst snd]; auto.
  - intros (i & n & Hi & Hn & [-> | ->]); [left|right]; exists (i, n); (split; [reflexivity|]);
      apply In_enum_from; (split; [lia|]); now replace (i - 0) with i by lia.
Qed.

Lemma note_events_sorted sel : StronglySorted (fun a b => tev_le a b = true) (pf_note_events sel).
Proof. apply isort_sorted; [apply tev_le_total|apply tev_le_trans]. Qed.

Lemma sorted_steps_mono tes cur :
  StronglySorted (fun a b => tev_le a b = true) tes -> (forall t, In t tes -> cur <= te_step t) ->
  steps_mono cur tes.
Proof.
  revert cur; induction tes as [|t r IH]; intros cur Hs Hc; cbn [steps_mono]; [exact I|].
  inversion Hs as [|? ? Hs' Hf]; subst. split; [apply Hc; now left|].
  apply IH; [exact Hs'|]. intros u Hu. rewrite Forall_forall in Hf. specialize (Hf u Hu).
  unfold tev_le in Hf. lia.
Qed.

Lemma last_step_spec tes : forall cur, steps_mono cur tes ->
  cur <= last_step tes cur /\ (forall t, In t tes -> te_step t <= last_step tes cur) /\
  (tes = [] \/ exists t, In t tes /\ te_step t = last_step tes cur).
Proof.
  induction tes as [|t r IH]; intros cur Hm; cbn [last_step fold_left].
  - split; [lia|]. split; [intros t []|now left].
  - destruct Hm as (Hc & Hm). fold (last_step r (te_step t)).
    destruct (IH _ Hm) as (H1 & H2 & H3). split; [lia|]. split.
    + intros u [<-|Hu]; [exact H1|now apply H2].
    + right. destruct H3 as [->|(u & Hu & Hs)]; [exists t; split; [now left|reflexivity]|].
      exists u. split; [now right|exact Hs].
Qed.

Lemma fold_max_char l m :
  (forall x, In x l -> x <= m) -> (m = 0 \/ In m l) -> 0 <= m -> fold_right Z.max 0 l = m.
Proof.
  intros Hle Hin Hm.
  assert (Hub : fold_right Z.max 0 l <= m).
  { clear Hin. induction l as [|x l IH]; cbn [fold_right]; [lia|].
    assert (x <= m) by (apply Hle; now left). assert (fold_right Z.max 0 l <= m) by (apply IH; intros; apply Hle; now right). lia. }
  assert (Hlb : m <= fold_right Z.max 0 l).
  { destruct Hin as [->|Hin].
    - clear. induction l; cbn [fold_right]; lia.
    - clear - Hin. induction l as [|x l IH]; [destruct Hin|]. cbn [fold_right]. destruct Hin as [->|Hin]; [lia|].
      specialize (IH Hin). lia. }
  lia.
Qed.

(** ** perf_shifts *)
Theorem perf_shifts p ns :
  1 <= fp_max_shift p -> Forall (fun n => n_qstart n <= n_qend n) ns ->
  (forall e, In e (pf_from_quantized p ns) -> fst e = EV_TIME_SHIFT -> 1 <= snd e <= fp_max_shift p) /\
  sum_shifts (pf_from_quantized p ns) = pf_elapsed p ns.
Proof.
  intros Hms Hwf. unfold pf_from_quantized.
  set (sel := pf_sorted_notes (fp_start p) (fp_instrument p) ns).
  assert (Hsel : forall n, In n sel <-> In n (pf_selected p ns)) by (intros n; apply isort_In).
  assert (Hselwf : forall n, In n sel -> fp_start p <= n_qstart n <= n_qend n).
  { intros n Hn. apply Hsel, filter_In in Hn. destruct Hn as (Hn & Hk). rewrite Forall_forall in Hwf.
    specialize (Hwf n Hn). unfold pf_keep in Hk. lia. }
  assert (Hmono : steps_mono (fp_start p) (pf_note_events sel)).
  { apply sorted_steps_mono; [apply note_events_sorted|]. intros t Ht. apply In_note_events in Ht.
    destruct Ht as (i & n & _ & Hn & [-> | ->]); apply nth_error_In in Hn; specialize (Hselwf n Hn); cbn; lia. }
  destruct (pf_loop_shifts (fp_bins p) (fp_max_shift p) Hms _ _ 0 Hmono) as (Hsum & Hok).
  split; [exact Hok|]. rewrite Hsum.
  destruct (last_step_spec _ _ Hmono) as (H1 & H2 & H3).
  symmetry. unfold pf_elapsed. apply fold_max_char.
  - intros x Hx. apply in_map_iff in Hx. destruct Hx as (n & <- & Hn). apply Hsel in Hn.
    apply In_nth_error in Hn. destruct Hn as (k & Hk).
    assert (Ht : In (off_of (Z.of_nat k) n) (pf_note_events sel)).
    { apply In_note_events. exists (Z.of_nat k), n. rewrite Nat2Z.id. repeat split; auto; lia. }
    specialize (H2 _ Ht). cbn in H2. lia.
  - destruct H3 as [Hnil|(t & Ht & Hstep)].
    + left. rewrite Hnil. cbn. lia.
    + apply In_note_events in Ht. destruct Ht as (i & n & Hi & Hn & Hcase).
      pose proof (nth_error_In _ _ Hn) as Hin.
      destruct Hcase as [-> | ->]; cbn [te_step on_of off_of] in Hstep.
      * (* an onset is last only if its own offset is on the same step *)
        assert (Ht : In (off_of i n) (pf_note_events sel)).
        { apply In_note_events. exists i, n. repeat split; auto. }
        specialize (H2 _ Ht). cbn [te_step off_of] in H2. specialize (Hselwf n Hin).
        right. apply in_map_iff. exists n. split; [lia|now apply Hsel].
      * right. apply in_map_iff. exists n. split; [lia|now apply Hsel].
  - lia.
Qed.

(** ** NotePerformance round trip *)
Theorem noteperf_roundtrip p md ns evs :
  np_from_quantized p md ns = Ok evs ->
  np_to_step_notes p evs
  = map (fun n => (n_pitch n, n_qstart n, n_qend n, bin_to_vel (vel_to_bin (n_vel n) (fp_bins p)) (fp_bins p)))
        (pf_sorted_notes (fp_start p) (fp_instrument p) ns)
  /\ Forall (fun e => let '(sh, q, b, du) := e in 0 <= sh <= fp_max_shift p /\ 1 <= du <= md) evs.
Proof.
  unfold np_from_quantized, np_to_step_notes. intros H.
  pose proof (np_roundtrip _ _ _ (fp_start p) _ _ _ H) as Hr.
  now replace (fp_start p - fp_start p) with 0 in Hr by lia.
Qed.

Theorem pf_sorted_notes_perm start instr ns :
  Permutation (pf_sorted_notes start instr ns) (filter (pf_keep start instr) ns).
Proof. apply isort_perm. Qed.

(** * program / is_drum of the performance *)
Lemma all_same_spec l : all_same l = true -> forall x y, In x l -> In y l -> x = y.
Proof.
  induction l as [|a [|b r] IH]; cbn [all_same].
  - intros _ x y [].
  - intros _ x y [<-|[]] [<-|[]]. reflexivity.
  - intros H. apply andb_true_iff in H. destruct H as (Hab & Hr). assert (a = b) by lia. subst b.
    specialize (IH Hr). intros x y Hx Hy.
    assert (Hx' : In x (a :: r)) by (destruct Hx as [<-|Hx]; [now left|exact Hx]).
    assert (Hy' : In y (a :: r)) by (destruct Hy as [<-|Hy]; [now left|exact Hy]).
    now apply IH.
Qed.

Theorem perf_program_is_drum_spec instr ns :
  let l := filter (fun n => match instr with None => true | Some i => n_instr n =? i end) ns in
  match pf_program_is_drum instr ns with
  | (pr, Some true) => pr = None /\ forall n, In n l -> n_drum n = true
  | (pr, Some false) =>
      (forall n, In n l -> n_drum n = false) /\
      match pr with Some x => l <> [] /\ forall n, In n l -> n_prog n = x | None => True end
  | (pr, None) => pr = None /\ (exists n, In n l /\ n_drum n = true) /\ (exists n, In n l /\ n_drum n = false)
  end.
Proof.
  intros l. unfold pf_program_is_drum. fold l.
  destruct (forallb n_drum l) eqn:E1.
  - split; [reflexivity|]. rewrite forallb_forall in E1. exact E1.
  - destruct (forallb (fun n => negb (n_drum n)) l) eqn:E2.
    + rewrite forallb_forall in E2. split; [intros n Hn; specialize (E2 n Hn); now destruct (n_drum n)|].
      destruct l as [|n0 r] eqn:El; [exact I|]. destruct (all_same (map n_prog (n0 :: r))) eqn:E3; [|exact I].
      split; [discriminate|]. intros n Hn. apply (all_same_spec _ E3); apply in_map; [exact Hn|now left].
    + split; [reflexivity|]. split.
      * apply not_true_iff_false in E2. destruct (existsb n_drum l) eqn:E; [apply existsb_exists in E; exact E|].
        exfalso. apply E2. apply forallb_forall. intros n Hn.
        destruct (n_drum n) eqn:Ed; [|reflexivity].
        assert (existsb n_drum l = true) by (apply existsb_exists; eauto). congruence.
      * apply not_true_iff_false in E1. destruct (existsb (fun n => negb (n_drum n)) l) eqn:E.
        -- apply existsb_exists in E. destruct E as (n & Hn & Hd). exists n. split; [exact Hn|now destruct (n_drum n)].
        -- exfalso. apply E1. apply forallb_forall. intros n Hn.
           destruct (n_drum n) eqn:Ed; [reflexivity|].
           assert (existsb (fun n => negb (n_drum n)) l = true) by (apply existsb_exists; exists n; rewrite Ed; auto).
           congruence.
Qed.
