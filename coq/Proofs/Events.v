(** Proofs/Events.v — C17 for the SimpleEventSequence family (generic in the
    event type and in what Melody / DrumTrack / ChordProgression override).
    Everything is proved for arbitrary states and arbitrary operation
    histories (induction over [fold_left step]). *)
From Coq Require Import ZArith List Bool Lia ZifyBool.
From NS Require Import Gen.G17 Model.Events.
Import ListNotations.
Local Open Scope Z_scope.

(* ------------------------------------------------------------------ *)
(** * Specification vocabulary *)

(** the step range is exactly as long as the event list *)
Definition Inv {E} (s : st E) : Prop := zlen (events s) = stop s - start s.

(** the event sounding at absolute step [t] *)
Definition event_at {E} (s : st E) (t : Z) : option E :=
  if (start s <=? t) && (t <? stop s) then nth_error (events s) (Z.to_nat (t - start s)) else None.

(** arguments for which the property makes a claim *)
Definition op_ok {E} (o : op E) : bool :=
  match o with
  | OSetLength n _ => 0 <=? n
  | OIncRes k => 1 <=? k
  | _ => true
  end.

(* ------------------------------------------------------------------ *)
(** * Lists *)

Lemma zlen_nonneg {A} (l : list A) : 0 <= zlen l.
Proof. unfold zlen; lia. Qed.
Lemma zlen_app {A} (l r : list A) : zlen (l ++ r) = zlen l + zlen r.
Proof. unfold zlen; rewrite app_length; lia. Qed.
Lemma zlen_repeat {A} (x : A) n : zlen (repeat x n) = Z.of_nat n.
Proof. unfold zlen; now rewrite repeat_length. Qed.
Lemma zlen_firstn {A} n (l : list A) : zlen (firstn n l) = Z.min (Z.of_nat n) (zlen l).
Proof. unfold zlen; rewrite firstn_length; lia. Qed.
Lemma zlen_skipn {A} n (l : list A) : zlen (skipn n l) = Z.max 0 (zlen l - Z.of_nat n).
Proof. unfold zlen; rewrite skipn_length; lia. Qed.
Lemma zlen_nil {A} : zlen (@nil A) = 0.
Proof. reflexivity. Qed.
Lemma zlen_to_nat {A} (l : list A) : Z.to_nat (zlen l) = length l.
Proof. unfold zlen; lia. Qed.

Lemma nth_error_firstn_lt {A} : forall n (l : list A) j,
  (j < n)%nat -> nth_error (firstn n l) j = nth_error l j.
Proof.
  induction n; intros l j H; [lia|]. destruct l; [now destruct j|].
  destruct j; cbn; [reflexivity|]. apply IHn; lia.
Qed.
Lemma nth_error_skipn_add {A} : forall k (l : list A) j,
  nth_error (skipn k l) j = nth_error l (k + j).
Proof.
  induction k; intros; cbn; [reflexivity|]. destruct l; cbn; [now destruct j|apply IHk].
Qed.
Lemma nth_error_repeat_app {A} (x : A) k l j :
  nth_error (repeat x k ++ l) (k + j) = nth_error l j.
Proof. induction k; cbn; auto. Qed.
Lemma nth_error_repeat {A} (x : A) k j : (j < k)%nat -> nth_error (repeat x k) j = Some x.
Proof. revert j; induction k; intros j H; [lia|]. destruct j; cbn; [reflexivity|apply IHk; lia]. Qed.
Lemma nth_error_firstn_eq {A} n (l l' : list A) j :
  firstn n l = firstn n l' -> (j < n)%nat -> nth_error l j = nth_error l' j.
Proof.
  intros H Hj. rewrite <- (nth_error_firstn_lt n l j Hj), <- (nth_error_firstn_lt n l' j Hj).
  now rewrite H.
Qed.

Lemma clamp_index_range len i : 0 <= len -> 0 <= clamp_index len i <= len.
Proof. unfold clamp_index; intros; destruct (i <? 0) eqn:?; lia. Qed.
Lemma slice_lo_range len a : 0 <= len -> 0 <= slice_lo len a <= len.
Proof. destruct a; cbn; intros; [now apply clamp_index_range|lia]. Qed.
Lemma slice_hi_range len b : 0 <= len -> 0 <= slice_hi len b <= len.
Proof. destruct b; cbn; intros; [now apply clamp_index_range|lia]. Qed.

Lemma py_slice_zlen {A} (l : list A) a b :
  zlen (py_slice l a b) = Z.max 0 (slice_hi (zlen l) b - slice_lo (zlen l) a).
Proof.
  unfold py_slice. pose proof (slice_lo_range (zlen l) a (zlen_nonneg l)).
  pose proof (slice_hi_range (zlen l) b (zlen_nonneg l)).
  rewrite zlen_firstn, zlen_skipn. lia.
Qed.

Lemma py_slice_nth {A} (l : list A) a b j :
  (Z.of_nat j < zlen (py_slice l a b)) ->
  nth_error (py_slice l a b) j = nth_error l (Z.to_nat (slice_lo (zlen l) a) + j).
Proof.
  intros Hj. rewrite py_slice_zlen in Hj. unfold py_slice.
  rewrite nth_error_firstn_lt by lia. apply nth_error_skipn_add.
Qed.

Lemma py_range_length a b : length (py_range a b) = Z.to_nat (b - a).
Proof. unfold py_range. now rewrite map_length, seq_length. Qed.
Lemma py_range_nth a b j : (j < Z.to_nat (b - a))%nat ->
  nth_error (py_range a b) j = Some (a + Z.of_nat j).
Proof.
  intros H. unfold py_range. rewrite nth_error_map.
  rewrite (nth_error_nth' _ 0%nat) by (now rewrite seq_length).
  rewrite seq_nth by exact H. reflexivity.
Qed.

Lemma py_index_spec {A} (l : list A) i :
  (0 <= i < zlen l -> py_index l i = nth_error l (Z.to_nat i)) /\
  (- zlen l <= i < 0 -> py_index l i = nth_error l (Z.to_nat (i + zlen l))) /\
  (i < - zlen l \/ zlen l <= i -> py_index l i = None).
Proof.
  unfold py_index. repeat split; intros H;
    destruct (i <? 0) eqn:?; destruct ((0 <=? _) && (_ <? zlen l)) eqn:?; try reflexivity; try lia.
Qed.

Lemma Forall2_len {A B} (P : A -> B -> Prop) l l' : Forall2 P l l' -> length l = length l'.
Proof. induction 1; cbn; congruence. Qed.

Lemma Forall2_nth {A B} (P : A -> B -> Prop) l l' : Forall2 P l l' ->
  forall j x y, nth_error l j = Some x -> nth_error l' j = Some y -> P x y.
Proof.
  induction 1; intros [|j] x0 y0 H1 H2; cbn in *; try discriminate.
  - congruence.
  - eauto.
Qed.

Lemma nth_error_in_range {A} (l : list A) j : (j < length l)%nat -> exists e, nth_error l j = Some e.
Proof.
  intros H. destruct (nth_error l j) eqn:Hn; [eauto|]. apply nth_error_None in Hn. lia.
Qed.

(* ------------------------------------------------------------------ *)
(** * Observables agree with each other (any state, any class) *)

Section Observables.
  Variable E : Type.

  (** len(), iteration and indexing (non-negative, negative and out-of-range
      indices) describe the same list *)
  Lemma iter_index_len_agree (s : st E) :
    len s = zlen (iter s) /\
    (forall i, 0 <= i < len s ->
       exists e, nth_error (iter s) (Z.to_nat i) = Some e /\
                 getitem s i = Some e /\ getitem s (i - len s) = Some e) /\
    (forall i, i < - len s \/ len s <= i -> getitem s i = None).
  Proof.
    unfold len, iter, getitem. split; [reflexivity|]. split.
    - intros i Hi. destruct (nth_error_in_range (events s) (Z.to_nat i)) as [e He].
      { unfold zlen in Hi; lia. }
      exists e. split; [exact He|].
      destruct (py_index_spec (events s) i) as [H1 _].
      destruct (py_index_spec (events s) (i - zlen (events s))) as [_ [H2 _]].
      rewrite H1, H2 by lia. replace (i - zlen (events s) + zlen (events s)) with i by lia. auto.
    - intros i Hi. now apply py_index_spec.
  Qed.

  (** under the invariant, [steps] lists exactly one step per event, the
      j-th being [start + j] *)
  Lemma steps_one_per_event (s : st E) : Inv s ->
    length (steps s) = length (events s) /\
    forall j, (j < length (events s))%nat -> nth_error (steps s) j = Some (start s + Z.of_nat j).
  Proof.
    unfold Inv, steps, zlen. intros H. split.
    - rewrite py_range_length. lia.
    - intros j Hj. apply py_range_nth. lia.
  Qed.
End Observables.

(* ------------------------------------------------------------------ *)
(** * The edit operations *)

Section SimpleProofs.
  Variable E : Type.
  Variable class_pad : option E.
  Variable valid : E -> bool.
  Variable clean : list E -> list E.
  Variable fill : option E.
  Variable extend_fix : nat -> list E -> list E.
  (** what the proofs need to know about the subclass hooks; discharged for
      each concrete class below *)
  Variable R : E -> E -> Prop.      (* how [clean] may rewrite an event: new, old *)
  Hypothesis H_clean_R : forall l, Forall2 R (clean l) l.
  Hypothesis H_fix_len : forall n l, length (extend_fix n l) = length l.
  Hypothesis H_fix_keep : forall n l, firstn n (extend_fix n l) = firstn n l.

  Local Notation init := (init E class_pad valid clean).
  Local Notation set_length := (set_length E extend_fix).
  Local Notation increase_resolution := (increase_resolution E fill).
  Local Notation slice := (slice E class_pad valid clean).
  Local Notation deepcopy := (deepcopy E class_pad valid clean).
  Local Notation step := (step E class_pad valid clean fill extend_fix).
  Local Notation run_ops := (run_ops E class_pad valid clean fill extend_fix).
  Local Notation trace := (trace E class_pad valid clean fill extend_fix).

  Lemma H_clean_len l : length (clean l) = length l.
  Proof. exact (Forall2_len _ _ _ (H_clean_R l)). Qed.
  Lemma zlen_clean l : zlen (clean l) = zlen l.
  Proof. unfold zlen; now rewrite H_clean_len. Qed.
  Lemma zlen_fix n l : zlen (extend_fix n l) = zlen l.
  Proof. unfold zlen; now rewrite H_fix_len. Qed.

  (** every constructor call yields a consistent object *)
  Lemma init_inv p es s0 sb sq s : init p es s0 sb sq = Some s -> Inv s.
  Proof.
    unfold Events.init, Inv. destruct es as [es|].
    - destruct (forallb valid es); [|discriminate]. intros [= <-]; cbn. lia.
    - intros [= <-]; cbn. lia.
  Qed.

  Lemma init_fields p l s0 sb sq s : init p (Some l) s0 sb sq = Some s ->
    events s = clean l /\ start s = s0 /\ spb s = sb /\ spq s = sq /\ forallb valid l = true.
  Proof.
    unfold Events.init. destruct (forallb valid l); [|discriminate]. intros [= <-]; cbn. auto.
  Qed.

  (** the event list [set_length] of the base class produces *)
  Lemma base_set_length_events s n fl : 0 <= n ->
    events (base_set_length E s n fl) =
      if zlen (events s) <? n then
        if fl then repeat (pad s) (Z.to_nat (n - zlen (events s))) ++ events s
        else events s ++ repeat (pad s) (Z.to_nat (n - zlen (events s)))
      else if fl then skipn (Z.to_nat (zlen (events s) - n)) (events s)
           else firstn (Z.to_nat n) (events s).
  Proof.
    intros Hn. unfold base_set_length. pose proof (zlen_nonneg (events s)) as Hl.
    destruct fl; cbn [events]; destruct (zlen (events s) <? n) eqn:Hc; try reflexivity.
    - unfold py_del_slice, slice_lo, slice_hi, clamp_index.
      destruct (zlen (events s) - n <? 0) eqn:?; [lia|]. cbn [Z.to_nat firstn app].
      f_equal. lia.
    - unfold py_del_slice, slice_lo, slice_hi, clamp_index.
      destruct (n <? 0) eqn:?; [lia|].
      replace (Z.to_nat (Z.max (Z.min n (zlen (events s))) (zlen (events s)))) with (length (events s))
        by (unfold zlen; lia).
      rewrite skipn_all, app_nil_r. f_equal. lia.
  Qed.

  Lemma base_set_length_fields s n fl :
    let s' := base_set_length E s n fl in
    (if fl then stop s' = stop s /\ start s' = stop s - n else start s' = start s /\ stop s' = start s + n) /\
    spb s' = spb s /\ spq s' = spq s /\ pad s' = pad s.
  Proof. unfold base_set_length; destruct fl; cbn; auto. Qed.

  Lemma base_set_length_zlen s n fl : 0 <= n -> zlen (events (base_set_length E s n fl)) = n.
  Proof.
    intros Hn. rewrite base_set_length_events by exact Hn. pose proof (zlen_nonneg (events s)).
    destruct (zlen (events s) <? n) eqn:?; destruct fl;
      rewrite ?zlen_app, ?zlen_repeat, ?zlen_skipn, ?zlen_firstn; lia.
  Qed.

  Lemma set_length_fields s n fl :
    let s' := set_length s n fl in
    (if fl then stop s' = stop s /\ start s' = stop s - n else start s' = start s /\ stop s' = start s + n) /\
    spb s' = spb s /\ spq s' = spq s /\ pad s' = pad s.
  Proof.
    unfold Events.set_length. pose proof (base_set_length_fields s n fl) as H.
    destruct ((zlen (events s) <? n) && negb fl); cbn [start stop spb spq pad]; exact H.
  Qed.

  Lemma set_length_zlen s n fl : 0 <= n -> zlen (events (set_length s n fl)) = n.
  Proof.
    intros Hn. unfold Events.set_length.
    destruct ((zlen (events s) <? n) && negb fl); cbn [events];
      rewrite ?zlen_fix; now apply base_set_length_zlen.
  Qed.

  (** set_length(n) yields exactly n steps, anchored at the retained end *)
  Lemma set_length_exact s n fl : 0 <= n ->
    let s' := set_length s n fl in
    len s' = n /\ stop s' - start s' = n /\ Inv s' /\
    (if fl then stop s' = stop s else start s' = start s).
  Proof.
    intros Hn s'. pose proof (set_length_zlen s n fl Hn) as Hz.
    pose proof (set_length_fields s n fl) as [Hf _]. fold s' in Hz, Hf.
    unfold len, Inv. destruct fl; repeat split; lia.
  Qed.

  (** ... and keeps the event at every step that is in both the old and the
      new range *)
  Lemma set_length_keeps s n fl : Inv s -> 0 <= n ->
    let s' := set_length s n fl in
    forall t, start s <= t < stop s -> start s' <= t < stop s' -> event_at s' t = event_at s t.
  Proof.
    intros HI Hn s' t Ht Ht'. unfold Inv in HI.
    pose proof (set_length_fields s n fl) as [Hf _]. fold s' in Hf.
    unfold event_at.
    replace ((start s' <=? t) && (t <? stop s')) with true by lia.
    replace ((start s <=? t) && (t <? stop s)) with true by lia.
    subst s'. unfold Events.set_length in *.
    destruct (zlen (events s) <? n) eqn:Hc; destruct fl; cbn [andb negb events start stop] in *.
    - (* pad on the left *)
      rewrite base_set_length_events, Hc by exact Hn. destruct Hf as [Hf1 Hf2]. rewrite Hf2.
      replace (Z.to_nat (t - (stop s - n)))
        with (Z.to_nat (n - zlen (events s)) + Z.to_nat (t - start s))%nat by lia.
      apply nth_error_repeat_app.
    - (* pad on the right, then the subclass pass *)
      destruct Hf as [Hf1 Hf2]. rewrite Hf1.
      rewrite (nth_error_firstn_eq (length (events s)) _ _ _ (H_fix_keep _ _)) by (unfold zlen in HI; lia).
      rewrite base_set_length_events, Hc by exact Hn.
      apply nth_error_app1. unfold zlen in HI; lia.
    - (* truncate on the left *)
      rewrite base_set_length_events, Hc by exact Hn. destruct Hf as [Hf1 Hf2]. rewrite Hf2.
      rewrite nth_error_skipn_add. f_equal. lia.
    - (* truncate on the right *)
      rewrite base_set_length_events, Hc by exact Hn. destruct Hf as [Hf1 Hf2]. rewrite Hf1.
      apply nth_error_firstn_lt. lia.
  Qed.

  (** the new steps hold the pad event (classes without a subclass pass) *)
  Lemma set_length_pads s n fl : (forall k l, extend_fix k l = l) -> Inv s -> 0 <= n ->
    let s' := set_length s n fl in
    forall t, start s' <= t < stop s' -> ~ (start s <= t < stop s) -> event_at s' t = Some (pad s).
  Proof.
    intros Hid HI Hn s' t Ht' Ht. unfold Inv in HI.
    pose proof (set_length_fields s n fl) as [Hf _]. fold s' in Hf.
    unfold event_at. replace ((start s' <=? t) && (t <? stop s')) with true by lia.
    subst s'. unfold Events.set_length in *. rewrite Hid in *.
    assert (Hs : forall b : bool, (if b then mkst (events (base_set_length E s n fl)) (start (base_set_length E s n fl))
                   (stop (base_set_length E s n fl)) (spb (base_set_length E s n fl))
                   (spq (base_set_length E s n fl)) (pad (base_set_length E s n fl))
                 else base_set_length E s n fl) = base_set_length E s n fl).
    { intros []; [destruct (base_set_length E s n fl)|]; reflexivity. }
    rewrite Hs in *. rewrite base_set_length_events by exact Hn.
    destruct (zlen (events s) <? n) eqn:Hc; destruct fl; destruct Hf as [Hf1 Hf2].
    - rewrite Hf2. rewrite nth_error_app1 by (rewrite repeat_length; lia).
      apply nth_error_repeat. lia.
    - rewrite Hf1. rewrite nth_error_app2 by (unfold zlen in HI; lia).
      apply nth_error_repeat. unfold zlen in *; lia.
    - lia.
    - lia.
  Qed.

  Lemma inc_fill_length k e : 1 <= k -> length (inc_fill E fill k e) = Z.to_nat k.
  Proof. intros Hk. unfold inc_fill. destruct fill; cbn [length]; rewrite repeat_length; lia. Qed.

  Lemma flat_map_const_length {A B} (f : A -> list B) c l :
    (forall x, length (f x) = c) -> length (flat_map f l) = (c * length l)%nat.
  Proof. intros H. induction l; cbn; [lia|]. rewrite app_length, H, IHl. lia. Qed.

  Lemma increase_resolution_spec s k : 1 <= k ->
    let s' := increase_resolution s k in
    len s' = k * len s /\ start s' = start s * k /\ stop s' = stop s * k /\ (Inv s -> Inv s').
  Proof.
    intros Hk. unfold Events.increase_resolution, len, Inv; cbn.
    assert (H : zlen (flat_map (inc_fill E fill k) (events s)) = k * zlen (events s)).
    { unfold zlen. rewrite (flat_map_const_length _ (Z.to_nat k)) by (intros; now apply inc_fill_length). lia. }
    rewrite H. repeat split; lia.
  Qed.

  (** slices: the new object starts at the clamped, non-negative start of the
      slice and lies inside the old range *)
  Lemma slice_offset s a b s' : Inv s -> slice s a b = Some s' ->
    let lo := slice_lo (len s) a in
    Inv s' /\ 0 <= lo <= len s /\ start s' = start s + lo /\
    start s <= start s' /\ stop s' <= stop s /\
    events s' = clean (py_slice (events s) a b).
  Proof.
    intros HI Hs lo. unfold Events.slice in Hs. pose proof (init_inv _ _ _ _ _ _ Hs) as HI'.
    apply init_fields in Hs. destruct Hs as (He & Hst & _).
    pose proof (slice_lo_range (zlen (events s)) a (zlen_nonneg _)) as Hlo.
    pose proof (slice_hi_range (zlen (events s)) b (zlen_nonneg _)) as Hhi.
    assert (HI2 := HI'). unfold Inv in HI, HI2. rewrite He, zlen_clean, py_slice_zlen in HI2.
    unfold lo, len. split; [exact HI'|]. repeat split; try lia; exact He.
  Qed.

  (** ... and carries, at every one of its steps, the event the original had
      at that step (up to the rewriting [R] done by the subclass constructor) *)
  Lemma slice_elements s a b s' : Inv s -> slice s a b = Some s' ->
    forall t, start s' <= t < stop s' ->
      exists e' e, event_at s' t = Some e' /\ event_at s t = Some e /\ R e' e.
  Proof.
    intros HI Hs t Ht. destruct (slice_offset s a b s' HI Hs) as (HI' & Hlo & Hst & Hge & Hle & He).
    unfold event_at. replace ((start s' <=? t) && (t <? stop s')) with true by lia.
    replace ((start s <=? t) && (t <? stop s)) with true by lia.
    unfold Inv, len in *. set (j := Z.to_nat (t - start s')).
    assert (Hj : (j < length (events s'))%nat) by (unfold zlen in HI'; lia).
    destruct (nth_error_in_range _ _ Hj) as [e' He'].
    assert (Hj2 : Z.of_nat j < zlen (py_slice (events s) a b)).
    { rewrite <- zlen_clean, <- He. unfold zlen; lia. }
    pose proof (py_slice_nth (events s) a b j Hj2) as Hn.
    replace (Z.to_nat (slice_lo (zlen (events s)) a) + j)%nat with (Z.to_nat (t - start s)) in Hn by lia.
    destruct (nth_error_in_range (py_slice (events s) a b) j) as [e Hee]; [unfold zlen in Hj2; lia|].
    exists e', e. split; [exact He'|]. split; [congruence|].
    pose proof (H_clean_R (py_slice (events s) a b)) as HF. rewrite <- He in HF.
    exact (Forall2_nth _ _ _ HF _ _ _ He' Hee).
  Qed.

  Lemma deepcopy_spec s s' : deepcopy s = Some s' ->
    Inv s' /\ start s' = start s /\ len s' = len s /\ Forall2 R (events s') (events s).
  Proof.
    unfold Events.deepcopy. intros Hs. pose proof (init_inv _ _ _ _ _ _ Hs) as HI'.
    apply init_fields in Hs. destruct Hs as (He & Hst & _).
    unfold len. rewrite He, zlen_clean. repeat split; auto.
  Qed.

  (** * The invariant over arbitrary histories *)
  Lemma step_inv s o : Inv s -> op_ok o = true -> Inv (fst (step s o)).
  Proof.
    intros HI Hok. destruct o as [e|n fl|a b|k| |p es s0 sb sq| ]; cbn [Events.step fst op_ok] in *.
    - unfold append. destruct (valid e); cbn; [|exact HI].
      unfold Inv in *; cbn. rewrite zlen_app. cbn. lia.
    - apply set_length_exact. lia.
    - destruct (slice s a b) eqn:Hs; cbn; [|exact HI].
      now destruct (slice_offset _ _ _ _ HI Hs).
    - apply increase_resolution_spec; [lia|exact HI].
    - destruct (deepcopy s) eqn:Hs; cbn; [|exact HI]. now destruct (deepcopy_spec _ _ Hs).
    - destruct (init p es s0 sb sq) eqn:Hs; cbn; [|exact HI]. exact (init_inv _ _ _ _ _ _ Hs).
    - unfold Inv; cbn. lia.
  Qed.

  Theorem inv_reachable : forall ops s,
    Inv s -> forallb op_ok ops = true -> Inv (run_ops s ops).
  Proof.
    unfold Events.run_ops. induction ops as [|o ops IH]; intros s HI Hok; cbn in *; [exact HI|].
    apply andb_prop in Hok. destruct Hok as [Ho Hr]. apply IH; [|exact Hr]. now apply step_inv.
  Qed.

  (** the same for every intermediate state the correspondence check observes *)
  Theorem inv_trace : forall ops s,
    Inv s -> forallb op_ok ops = true -> Forall (fun so => Inv (fst so)) (trace s ops).
  Proof.
    induction ops as [|o ops IH]; intros s HI Hok; cbn in *; [constructor|].
    apply andb_prop in Hok. destruct Hok as [Ho Hr].
    constructor; [now apply step_inv|]. apply IH; [now apply step_inv|exact Hr].
  Qed.

  (** * Validity of events over arbitrary histories (no restriction on ops) *)
  Definition VInv (s : st E) : Prop :=
    Forall (fun e => valid e = true) (events s) /\ valid (pad s) = true.

  Hypothesis H_pad_valid : forall p, valid (eff_pad E class_pad p) = true.
  Hypothesis H_clean_valid : forall l,
    Forall (fun e => valid e = true) l -> Forall (fun e => valid e = true) (clean l).
  Hypothesis H_fix_valid : forall n l,
    Forall (fun e => valid e = true) l -> Forall (fun e => valid e = true) (extend_fix n l).
  Hypothesis H_fill_valid : match fill with Some f => valid f = true | None => True end.

  Local Notation V := (Forall (fun e => valid e = true)).

  Lemma V_firstn n l : V l -> V (firstn n l).
  Proof. intros H. apply Forall_forall. intros x Hx. rewrite Forall_forall in H. apply H.
         rewrite <- (firstn_skipn n l). apply in_or_app; auto. Qed.
  Lemma V_skipn n l : V l -> V (skipn n l).
  Proof. intros H. apply Forall_forall. intros x Hx. rewrite Forall_forall in H. apply H.
         rewrite <- (firstn_skipn n l). apply in_or_app; auto. Qed.
  Lemma V_repeat x n : valid x = true -> V (repeat x n).
  Proof. intros H. apply Forall_forall. intros y Hy. apply repeat_spec in Hy. now subst. Qed.

  Lemma init_valid p es s0 sb sq s : init p es s0 sb sq = Some s -> VInv s.
  Proof.
    unfold Events.init, VInv. destruct es as [es|].
    - destruct (forallb valid es) eqn:Hv; [|discriminate]. intros [= <-]; cbn. split; [|apply H_pad_valid].
      apply H_clean_valid. apply Forall_forall. intros x Hx. rewrite forallb_forall in Hv. auto.
    - intros [= <-]; cbn. split; [constructor|apply H_pad_valid].
  Qed.

  Lemma step_valid s o : VInv s -> VInv (fst (step s o)).
  Proof.
    intros [HV HP]. destruct o as [e|n fl|a b|k| |p es s0 sb sq| ]; cbn [Events.step fst].
    - unfold append. destruct (valid e) eqn:He; cbn; [|now split].
      split; cbn; [|exact HP]. apply Forall_app. split; [exact HV|]. now repeat constructor.
    - assert (HB : VInv (base_set_length E s n fl)).
      { unfold base_set_length, py_del_slice.
        destruct fl; destruct (zlen (events s) <? n); split; cbn; try exact HP;
          rewrite ?Forall_app; repeat split;
          auto using V_firstn, V_skipn, V_repeat. }
      unfold Events.set_length. destruct ((zlen (events s) <? n) && negb fl); [|exact HB].
      destruct HB as [HB1 HB2]. split; cbn; [now apply H_fix_valid|exact HB2].
    - unfold Events.slice. destruct (init _ _ _ _ _) eqn:Hs; cbn; [|now split].
      exact (init_valid _ _ _ _ _ _ Hs).
    - split; cbn; [|exact HP]. apply Forall_flat_map. revert HV. apply Forall_impl. intros e He.
      unfold inc_fill. destruct fill as [f|]; [constructor; [exact He|now apply V_repeat]|now apply V_repeat].
    - unfold Events.deepcopy. destruct (init _ _ _ _ _) eqn:Hs; cbn; [|now split].
      exact (init_valid _ _ _ _ _ _ Hs).
    - destruct (init p es s0 sb sq) eqn:Hs; cbn; [|now split]. exact (init_valid _ _ _ _ _ _ Hs).
    - split; cbn; [constructor|exact HP].
  Qed.

  Theorem valid_reachable : forall ops s, VInv s -> VInv (run_ops s ops).
  Proof.
    unfold Events.run_ops. induction ops as [|o ops IH]; intros s H; cbn; [exact H|].
    apply IH. now apply step_valid.
  Qed.
End SimpleProofs.

(* ------------------------------------------------------------------ *)
(** * The unrepaired methods violate the property (F3, F4) *)

(** F3: a 4-event sequence at steps 4..8; set_length(0, from_left=True) of the
    unrepaired code keeps all four events while the step range becomes empty. *)
Lemma set_length_exact_unfixed_refuted :
  exists (s : st Z) n fl, Inv s /\ 0 <= n /\
    let s' := base_set_length_unfixed s n fl in
    len s' = 4 /\ stop s' - start s' = 0 /\ ~ Inv s'.
Proof.
  exists (mkst [1; 2; 3; 4] 4 8 16 4 0), 0, true. unfold Inv. cbn. repeat split; try lia; discriminate.
Qed.

(** F4: the unrepaired slice offset for s[-2:] of the same sequence lies
    before the sequence's own start (the repaired one is start + 2). *)
Lemma slice_offset_unfixed_refuted :
  exists (s : st Z) a, Inv s /\
    slice_start_unfixed s a < start s /\ start s + slice_lo (len s) a = 6.
Proof.
  exists (mkst [1; 2; 3; 4] 4 8 16 4 0), (Some (-2)). unfold Inv. cbn. repeat split; lia.
Qed.
