(** Proofs/PermHyps.v — the quantifier of C12 ("no two same-pitch notes overlap or
    coincide, no two state events of one kind share a time") implies every
    distinctness hypothesis used by the perm_invariant theorems; a concrete pair of
    sequences (same music, stored in opposite orders) for the non-vacuity examples. *)
From Coq Require Import ZArith List Bool Lia Permutation Sorted.
From NS Require Import Base.NoteSeq Model.PermDefs Proofs.PermTools.
From NS Require Gen.G02 Gen.G07 Model.Extract Model.FqCommon Proofs.PermFq.
Import ListNotations.
Local Open Scope Z_scope.

Module X := NS.Model.Extract.
Module F := NS.Proofs.PermFq.

Lemma distinct_text_time_of_kind (ty : Z) (texts : list text) :
  distinct_on text_kind_time texts -> distinct_on tx_time (filter (fun a => tx_type a =? ty) texts).
Proof.
  intros D. apply (distinct_on_coarser text_kind_time tx_time).
  - intros a b Ha Hb E. apply filter_In in Ha as [_ Ha], Hb as [_ Hb].
    apply Z.eqb_eq in Ha, Hb. unfold text_kind_time. congruence.
  - now apply distinct_on_filter.
Qed.

Theorem seq_distinct_hyps s : seq_distinct s ->
  distinct_on tp_time (s_tempos s) /\ distinct_on ts_time (s_tsigs s) /\ distinct_on ks_time (s_ksigs s) /\
  distinct_on tx_time (X.chords_of s) /\ distinct_on cc_kind_time (s_ccs s) /\
  distinct_on F.start_pitch (s_notes s).
Proof.
  intros (N & Tp & Ts & Ks & Tx & Cc & _).
  repeat split; try assumption.
  - unfold X.chords_of. now apply distinct_text_time_of_kind.
  - apply FOP_distinct_on. eapply FOP_impl; [|exact N].
    intros a b H E. apply H. unfold F.start_pitch in E. inversion E. split; [assumption|now right].
Qed.

Theorem seq_qdistinct_hyps s : seq_qdistinct s ->
  distinct_on F.qstart_pitch (s_notes s) /\
  distinct_on tx_qstep (filter F.is_chord (s_texts s)).
Proof.
  intros (N & Tx). split.
  - apply FOP_distinct_on. eapply FOP_impl; [|exact N].
    intros a b H E. apply H. unfold F.qstart_pitch in E. inversion E. split; [assumption|now right].
  - apply (distinct_on_coarser (fun t => (tx_type t, tx_qstep t)) tx_qstep).
    + intros a b Ha Hb E. apply filter_In in Ha as [_ Ha], Hb as [_ Hb].
      unfold F.is_chord in *. apply Z.eqb_eq in Ha, Hb. congruence.
    + now apply distinct_on_filter.
Qed.

(** the hypotheses are properties of the multiset: they hold of every re-ordering too *)
Theorem seq_distinct_perm s s' : seq_perm s s' -> seq_distinct s -> seq_distinct s'.
Proof.
  intros P (N & Tp & Ts & Ks & Tx & Cc & Bd). destruct P.
  repeat split; try (eapply distinct_on_perm; eassumption).
  eapply FOP_perm; [|exact sp_notes|exact N].
  intros a b H C. apply H. destruct C as [E C]. split; [now symmetry|]. destruct C as [[? ?]|?]; [left|right]; lia.
Qed.

(** * a concrete instance: two notes starting together, a tempo change, two time signatures,
      a chord, a beat, two pedal events, stored in opposite orders *)
Definition ex_a : seq :=
  mkSeq [mkNote 60 100 0 8 0 0 false 0 2 0; mkNote 64 90 0 4 0 0 false 0 1 0; mkNote 60 80 8 12 0 0 false 2 3 0]
        [mkTempo 0 (120 * 2 ^ 20); mkTempo 6 (90 * 2 ^ 20)]
        [mkTsig 0 4 4; mkTsig 6 3 4] [mkKsig 0 0 0; mkKsig 5 7 0]
        [mkText 2 0 [67] 1; mkText 4 1 [] 2]
        [mkCc 1 0 64 127 0 0 false; mkCc 9 2 64 0 0 0 false] [mkBend 3 100 0 0 false] []
        12 0 0 0 (0, 0) 220 0.

Definition rev_fields (s : seq) : seq :=
  mkSeq (rev (s_notes s)) (rev (s_tempos s)) (rev (s_tsigs s)) (rev (s_ksigs s)) (rev (s_texts s))
        (rev (s_ccs s)) (rev (s_bends s)) (rev (s_sects s))
        (s_total s) (s_qsteps s) (s_spq s) (s_sps s) (s_sub s) (s_tpq s) (s_rest s).

Lemma rev_fields_perm s : seq_perm s (rev_fields s).
Proof. constructor; cbn; try apply Permutation_rev; reflexivity. Qed.

Lemma ex_a_distinct : seq_distinct ex_a.
Proof.
  unfold seq_distinct, distinct_on. cbn.
  split.
  { repeat constructor; unfold notes_clash; cbn; intros [E H]; lia. }
  repeat split; repeat constructor; cbn; intuition (try discriminate; try lia).
Qed.
