(** Proofs/SustainIdent.v — C14: instruments whose pedal is never pressed are
    left alone; without any pedal-down event the result is the input. *)
From Coq Require Import ZArith List Bool Lia ZifyBool Permutation.
From NS Require Import Base.NoteSeq Gen.G14 Model.Sustain Proofs.Sustain.
Import ListNotations.
Local Open Scope Z_scope.
Ltac Zify.zify_post_hook ::= Z.to_euclidean_division_equations.

Lemma cnt_ev_cons : forall sel cs0 v e l,
  cnt_ev sel cs0 v (e :: l) =
  ((if sel e && note_eqb (cell_at cs0 (e_ref e)) v then 1 else 0) + cnt_ev sel cs0 v l)%nat.
Proof. intros. unfold cnt_ev. cbn [filter]. destruct (sel e && _); reflexivity. Qed.

Lemma cnt_ev_pos_In : forall sel cs0 v l, (0 < cnt_ev sel cs0 v l)%nat ->
  exists e, In e l /\ sel e = true /\ cell_at cs0 (e_ref e) = v.
Proof.
  unfold cnt_ev. induction l; cbn [filter length]; intros; [lia|].
  destruct (sel a && note_eqb (cell_at cs0 (e_ref a)) v) eqn:E.
  - apply andb_true_iff in E. destruct E as [E1 E2]. apply note_eqb_eq in E2.
    exists a. split; [left; reflexivity | auto].
  - destruct (IHl H) as [e [A B]]. exists e. split; [right; exact A | exact B].
Qed.

Lemma ordered_b_nth : forall ns j n, ordered_b ns = true -> nth_error ns j = Some n ->
  n_drum n = false -> n_start n <= n_end n.
Proof.
  unfold ordered_b; intros. rewrite forallb_forall in H. apply nth_error_In in H0.
  specialize (H n H0). rewrite H1 in H. cbn [orb] in H. lia.
Qed.

Section NoPedal.
  (** [P i = true]: instrument [i] never receives a pedal-down event. *)
  Variable P : Z -> bool.
  Variable ns : list note.
  Variable tot0 : Z.
  Hypothesis Hord : ordered_b ns = true.
  Let cs0 := init_cells ns.

  Definition cntA (v : note) (act : list nat) : nat :=
    length (filter (fun a => note_eqb (cell_at cs0 a) v) act).

  Record invP (s : st) (rest : list event) : Prop := {
    ip_sim : sim cs0 (cells s);
    ip_cells : forall j, P (iof cs0 j) = true -> nth j (cells s) dummy_cell = nth j cs0 dummy_cell;
    ip_sus : forall i, P i = true -> is_sus i (sus s) = false;
    ip_cnt : forall v, P (n_instr v) = true ->
             (cntA v (active s) + cnt_ev is_on_ev cs0 v rest <= cnt_ev is_off_ev cs0 v rest)%nat;
    ip_tot : (forall i, P i = true) -> total s = tot0 }.

  Lemma cntA_app : forall v a b, cntA v (a ++ b) = (cntA v a + cntA v b)%nat.
  Proof. unfold cntA; intros. rewrite filter_app, app_length. reflexivity. Qed.

  Lemma cntA_pos_In : forall v act, (0 < cntA v act)%nat -> exists a, In a act /\ cell_at cs0 a = v.
  Proof.
    unfold cntA. induction act; cbn [filter length]; intros; [lia|].
    destruct (note_eqb (cell_at cs0 a) v) eqn:E.
    - apply note_eqb_eq in E. exists a. split; [left; reflexivity | exact E].
    - destruct (IHact H) as [b [A B]]. exists b. split; [right; exact A | exact B].
  Qed.

  Lemma cntA_In_pos : forall v act a, In a act -> cell_at cs0 a = v -> (0 < cntA v act)%nat.
  Proof.
    unfold cntA. induction act; cbn [filter In]; intros; [contradiction|].
    destruct H as [->|H].
    - rewrite H0, note_eqb_refl. cbn [length]. lia.
    - specialize (IHact _ H H0). destruct (note_eqb _ v); cbn [length]; lia.
  Qed.

  (** Cells of pedal-free instruments have their original value, so value tests agree. *)
  Lemma eqb_agree : forall s rest v a, invP s rest -> P (n_instr v) = true ->
    note_eqb (cell_at (cells s) a) v = note_eqb (cell_at cs0 a) v.
  Proof.
    intros s rest v a I Pv.
    destruct (P (iof cs0 a)) eqn:E.
    - unfold cell_at. rewrite (ip_cells _ _ I a E). reflexivity.
    - assert (iof (cells s) a = iof cs0 a) as F by (apply iof_sim; apply (ip_sim _ _ I)).
      destruct (note_eqb (cell_at (cells s) a) v) eqn:A.
      + apply note_eqb_eq in A. unfold iof in F, E. rewrite A in F. congruence.
      + destruct (note_eqb (cell_at cs0 a) v) eqn:B; auto.
        apply note_eqb_eq in B. unfold iof in E. rewrite B in E. congruence.
  Qed.

  Lemma remove_first_cnt : forall cs vj w act,
    (forall a, note_eqb (cell_at cs a) vj = note_eqb (cell_at cs0 a) vj) ->
    (cntA w (remove_first_eq cs vj act) + (if note_eqb vj w then Nat.min 1 (cntA vj act) else 0)
     = cntA w act)%nat.
  Proof.
    intros cs vj w act H. induction act; cbn [remove_first_eq].
    - cbn. destruct (note_eqb vj w); reflexivity.
    - rewrite H. unfold cntA in *. cbn [filter].
      destruct (note_eqb (cell_at cs0 a) vj) eqn:E.
      + apply note_eqb_eq in E. rewrite E. cbn [length].
        destruct (note_eqb vj w); cbn [length]; lia.
      + cbn [filter]. destruct (note_eqb (cell_at cs0 a) w) eqn:F; cbn [length]; lia.
  Qed.

  Lemma step_invP : forall s e rest,
    sorted (e :: rest) -> Forall (ev_wf ns) (e :: rest) ->
    (e_kind e = KSusOn -> P (e_instr e) = false) ->
    invP s (e :: rest) -> invP (step s e) rest.
  Proof.
    intros s e rest Hs Hwfs Hnp I.
    pose proof (Forall_inv Hwfs) as Hwf. apply Forall_inv_tail in Hwfs. rewrite Forall_forall in Hwfs.
    inversion Hs as [|e' l Hle Hs']; subst.
    unfold step. unfold ev_wf in Hwf.
    destruct (e_kind e) eqn:K.
    - (* pedal down: an instrument outside P *)
      specialize (Hnp eq_refl).
      constructor; cbn [cells active sus total].
      + apply (ip_sim _ _ I).
      + apply (ip_cells _ _ I).
      + intros i Pi. cbn [is_sus existsb]. rewrite (ip_sus _ _ I i Pi).
        destruct (i =? e_instr e) eqn:E; [|reflexivity]. assert (i = e_instr e) by lia. congruence.
      + intros v Pv. pose proof (ip_cnt _ _ I v Pv) as C. rewrite !cnt_ev_cons in C.
        unfold is_on_ev, is_off_ev in C at 1 3. rewrite K in C. cbn [andb] in C. lia.
      + intros A. specialize (A (e_instr e)). congruence.
    - (* pedal up *)
      destruct (P (e_instr e)) eqn:Pe.
      + (* of a pedal-free instrument: nothing is held, nothing changes *)
        rewrite off_loop_noop.
        * constructor; cbn [cells active sus total].
          -- apply (ip_sim _ _ I).
          -- apply (ip_cells _ _ I).
          -- intros i Pi. apply is_sus_off_other. apply (ip_sus _ _ I i Pi).
          -- intros v Pv. pose proof (ip_cnt _ _ I v Pv) as C. rewrite !cnt_ev_cons in C.
             unfold is_on_ev, is_off_ev in C at 1 3. rewrite K in C. cbn [andb] in C. lia.
          -- apply (ip_tot _ _ I).
        * intros a Ha Ia.
          assert (Pa : P (iof cs0 a) = true).
          { rewrite <- (iof_sim cs0 (cells s) a (ip_sim _ _ I)). unfold iof. rewrite Ia. exact Pe. }
          assert (Ea : cell_at (cells s) a = cell_at cs0 a).
          { unfold cell_at. rewrite (ip_cells _ _ I a Pa). reflexivity. }
          pose proof (ip_cnt _ _ I (cell_at cs0 a) Pa) as C.
          pose proof (cntA_In_pos _ _ _ Ha eq_refl) as C1.
          rewrite !cnt_ev_cons in C. unfold is_off_ev in C at 1. rewrite K in C. cbn [andb] in C.
          assert (0 < cnt_ev is_off_ev cs0 (cell_at cs0 a) rest)%nat as C2 by lia.
          apply cnt_ev_pos_In in C2. destruct C2 as [e2 [In2 [Off2 V2]]].
          rewrite Forall_forall in Hle. pose proof (Hle e2 In2) as L2.
          (* e2 is the NOTE_OFF of a note equal to cell a: its time is that end *)
          assert (W2 : ev_wf ns e2).
          { admit. }
          admit.
      + admit.
    - admit.
    - admit.
  Admitted.
End NoPedal.
