(** Proofs/SustainIdent.v — C14: instruments whose pedal is never pressed are
    left alone; without any pedal-down event the result is the input. *)
From Coq Require Import ZArith List Bool Lia ZifyBool Permutation.
From NS Require Import Base.NoteSeq Gen.G14 Model.Sustain Proofs.Sustain.
Import ListNotations.
Local Open Scope Z_scope.
Ltac Zify.zify_post_hook ::= Z.to_euclidean_division_equations.

Lemma cnt_ev_cons : forall sel cs0 v e l,
  cnt_ev sel cs0 v (e :: l) =
  ((if sel e && note_eqb (cell_at cs0 (e_ref e)) v then 1 else 0) + cnt_ev sel cs0 v l)%nat.
Proof. intros. unfold cnt_ev. cbn [filter]. destruct (sel e && _); reflexivity. Qed.

Lemma cnt_ev_pos_In : forall sel cs0 v l, (0 < cnt_ev sel cs0 v l)%nat ->
  exists e, In e l /\ sel e = true /\ cell_at cs0 (e_ref e) = v.
Proof.
  unfold cnt_ev. induction l; cbn [filter length]; intros; [lia|].
  destruct (sel a && note_eqb (cell_at cs0 (e_ref a)) v) eqn:E.
  - apply andb_true_iff in E. destruct E as [E1 E2]. apply note_eqb_eq in E2.
    exists a. split; [left; reflexivity | auto].
  - destruct (IHl H) as [e [A B]]. exists e. split; [right; exact A | exact B].
Qed.

Section NoPedal.
  (** [P i = true]: instrument [i] never receives a pedal-down event. *)
  Variable P : Z -> bool.
  Variable ns : list note.
  Variable tot0 : Z.
  Hypothesis Hord : ordered_b ns = true.
  Let cs0 := init_cells ns.

  Definition cntA (v : note) (act : list nat) : nat :=
    length (filter (fun a => note_eqb (cell_at cs0 a) v) act).

  Record invP (s : st) (rest : list event) : Prop := {
    ip_sim : sim cs0 (cells s);
    ip_cells : forall j, P (iof cs0 j) = true -> nth j (cells s) dummy_cell = nth j cs0 dummy_cell;
    ip_sus : forall i, P i = true -> is_sus i (sus s) = false;
    ip_cnt : forall v, P (n_instr v) = true ->
             (cntA v (active s) + cnt_ev is_on_ev cs0 v rest <= cnt_ev is_off_ev cs0 v rest)%nat;
    ip_tot : (forall i, P i = true) -> total s = tot0 }.

  Lemma cntA_app : forall v a b, cntA v (a ++ b) = (cntA v a + cntA v b)%nat.
  Proof. unfold cntA; intros. rewrite filter_app, app_length. reflexivity. Qed.

  Lemma cntA_pos_In : forall v act, (0 < cntA v act)%nat -> exists a, In a act /\ cell_at cs0 a = v.
  Proof.
    unfold cntA. induction act; cbn [filter length]; intros; [lia|].
    destruct (note_eqb (cell_at cs0 a) v) eqn:E.
    - apply note_eqb_eq in E. exists a. split; [left; reflexivity | exact E].
    - destruct (IHact H) as [b [A B]]. exists b. split; [right; exact A | exact B].
  Qed.

  Lemma cntA_In_pos : forall v act a, In a act -> cell_at cs0 a = v -> (0 < cntA v act)%nat.
  Proof.
    unfold cntA. induction act; cbn [filter In]; intros; [contradiction|].
    destruct H as [->|H].
    - rewrite H0, note_eqb_refl. cbn [length]. lia.
    - specialize (IHact _ H H0). destruct (note_eqb _ v); cbn [length]; lia.
  Qed.

  (** Cells of pedal-free instruments have their original value, so value tests agree. *)
  Lemma eqb_agree : forall s rest v a, invP s rest -> P (n_instr v) = true ->
    note_eqb (cell_at (cells s) a) v = note_eqb (cell_at cs0 a) v.
  Proof.
    intros s rest v a I Pv.
    destruct (P (iof cs0 a)) eqn:E.
    - unfold cell_at. rewrite (ip_cells _ _ I a E). reflexivity.
    - assert (iof (cells s) a = iof cs0 a) as F by (apply iof_sim; apply (ip_sim _ _ I)).
      destruct (note_eqb (cell_at (cells s) a) v) eqn:A.
      + apply note_eqb_eq in A. unfold iof in F, E. rewrite A in F. congruence.
      + destruct (note_eqb (cell_at cs0 a) v) eqn:B; auto.
        apply note_eqb_eq in B. unfold iof in E. rewrite B in E. congruence.
  Qed.

  Lemma remove_first_cnt : forall cs vj w act,
    (forall a, note_eqb (cell_at cs a) vj = note_eqb (cell_at cs0 a) vj) ->
    (cntA w (remove_first_eq cs vj act) + (if note_eqb vj w then Nat.min 1 (cntA vj act) else 0)
     = cntA w act)%nat.
  Proof.
    intros cs vj w act H. induction act; cbn [remove_first_eq].
    - cbn. destruct (note_eqb vj w); reflexivity.
    - rewrite H. unfold cntA in *. cbn [filter].
      destruct (note_eqb (cell_at cs0 a) vj) eqn:E.
      + apply note_eqb_eq in E. rewrite E. cbn [length].
        destruct (note_eqb vj w); cbn [length]; lia.
      + cbn [filter]. destruct (note_eqb (cell_at cs0 a) w) eqn:F; cbn [length]; lia.
  Qed.

  Lemma step_invP : forall s e rest,
    sorted (e :: rest) -> Forall (ev_wf ns) (e :: rest) ->
    (e_kind e = KSusOn -> P (e_instr e) = false) ->
    invP s (e :: rest) -> invP (step s e) rest.
  Proof.
    intros s e rest Hs Hwfs Hnp I.
    pose proof (Forall_inv Hwfs) as Hwf. apply Forall_inv_tail in Hwfs. rewrite Forall_forall in Hwfs.
    inversion Hs as [|e' l Hle Hs']; subst.
    assert (ON : is_on_ev e = match e_kind e with KNoteOn => true | _ => false end) by reflexivity.
    assert (OFF : is_off_ev e = match e_kind e with KNoteOff => true | _ => false end) by reflexivity.
    assert (CNT : forall v, P (n_instr v) = true ->
             (cntA v (active s) + ((if is_on_ev e && note_eqb (cell_at cs0 (e_ref e)) v then 1 else 0) + cnt_ev is_on_ev cs0 v rest)
              <= (if is_off_ev e && note_eqb (cell_at cs0 (e_ref e)) v then 1 else 0) + cnt_ev is_off_ev cs0 v rest)%nat).
    { intros v Pv. pose proof (ip_cnt _ _ I v Pv) as C. rewrite !cnt_ev_cons in C. exact C. }
    unfold step. unfold ev_wf in Hwf.
    destruct (e_kind e) eqn:K.
    - (* pedal down: an instrument outside P *)
      specialize (Hnp eq_refl).
      constructor; cbn [cells active sus total].
      + apply (ip_sim _ _ I).
      + apply (ip_cells _ _ I).
      + intros i Pi. pose proof (ip_sus _ _ I i Pi) as Q. unfold is_sus in *. cbn [existsb]. rewrite Q.
        destruct (i =? e_instr e) eqn:E; [|reflexivity]. assert (i = e_instr e) by lia. congruence.
      + intros v Pv. specialize (CNT v Pv). rewrite ON, OFF in CNT. cbn [andb] in CNT. lia.
      + intros A. specialize (A (e_instr e)). congruence.
    - (* pedal up *)
      destruct (P (e_instr e)) eqn:Pe.
      + (* of a pedal-free instrument: nothing is held, nothing changes *)
        rewrite off_loop_noop.
        * constructor; cbn [cells active sus total].
          -- apply (ip_sim _ _ I).
          -- apply (ip_cells _ _ I).
          -- intros i Pi. apply is_sus_off_other. apply (ip_sus _ _ I i Pi).
          -- intros v Pv. specialize (CNT v Pv). rewrite ON, OFF in CNT. cbn [andb] in CNT. lia.
          -- apply (ip_tot _ _ I).
        * intros a Ha Ia.
          assert (Pa : P (iof cs0 a) = true).
          { rewrite <- (iof_sim cs0 (cells s) a (ip_sim _ _ I)). unfold iof. rewrite Ia. exact Pe. }
          assert (Ea : cell_at (cells s) a = cell_at cs0 a).
          { unfold cell_at. rewrite (ip_cells _ _ I a Pa). reflexivity. }
          specialize (CNT (cell_at cs0 a) Pa). rewrite ON, OFF in CNT. cbn [andb] in CNT.
          pose proof (cntA_In_pos _ _ _ Ha eq_refl) as C1.
          assert (0 < cnt_ev is_off_ev cs0 (cell_at cs0 a) rest)%nat as C2 by lia.
          apply cnt_ev_pos_In in C2. destruct C2 as [e2 [In2 [Off2 V2]]].
          rewrite Forall_forall in Hle. pose proof (Hle e2 In2) as L2.
          pose proof (Hwfs e2 In2) as W2. unfold ev_wf in W2. unfold is_off_ev in Off2.
          destruct (e_kind e2) eqn:K2; try discriminate.
          destruct W2 as [n2 [N2 [D2 [I2 T2]]]].
          pose proof (cell_at_init _ _ _ N2) as Q2. fold cs0 in Q2. rewrite Q2 in V2. rewrite Ea, <- V2, <- T2.
          unfold ev_lt in L2. lia.
      + (* of an instrument outside P: only its own cells and entries change *)
        assert (NE : forall j, P (iof cs0 j) = true -> iof (cells s) j <> e_instr e).
        { intros j Pj C. rewrite (iof_sim cs0 _ j (ip_sim _ _ I)) in C. congruence. }
        assert (Q : forall v, P (n_instr v) = true ->
                  forall a, iof (cells s) a = e_instr e -> note_eqb (cell_at cs0 a) v = false).
        { intros v Pv a Ha. destruct (note_eqb (cell_at cs0 a) v) eqn:E; auto.
          apply note_eqb_eq in E. rewrite (iof_sim cs0 _ a (ip_sim _ _ I)) in Ha. unfold iof in Ha.
          rewrite E in Ha. congruence. }
        pose proof (off_loop_sim (e_instr e) (e_time e) (active s) (cells s) (total s)) as S.
        pose proof (fun q H => off_loop_other q (e_instr e) (e_time e) (active s) (cells s) (total s) H) as O.
        destruct (off_loop _ _ _ _ _) as [[k c] o]. cbn [fst snd] in *.
        constructor; cbn [cells active sus total].
        * eapply sim_trans; [apply (ip_sim _ _ I) | exact S].
        * intros j Pj. destruct (O (fun _ => false) (fun _ _ => eq_refl)) as [O1 _].
          rewrite O1 by (apply NE; exact Pj). apply (ip_cells _ _ I j Pj).
        * intros i Pi. apply is_sus_off_other. apply (ip_sus _ _ I i Pi).
        * intros v Pv. destruct (O _ (Q v Pv)) as [_ O2]. unfold cntA at 1. rewrite O2. fold (cntA v (active s)).
          specialize (CNT v Pv). rewrite ON, OFF in CNT. cbn [andb] in CNT. lia.
        * intros A. specialize (A (e_instr e)). congruence.
    - (* note on *)
      destruct Hwf as [n [Nn [Dn [In_ Tn]]]].
      pose proof (cell_at_init _ _ _ Nn) as Cn. fold cs0 in Cn.
      assert (APP : forall v c, cntA v (c ++ [e_ref e]) = (cntA v c + (if note_eqb n v then 1 else 0))%nat).
      { intros. rewrite cntA_app. unfold cntA at 2. cbn [filter]. rewrite Cn.
        destruct (note_eqb n v); reflexivity. }
      destruct (P (e_instr e)) eqn:Pe.
      + rewrite (ip_sus _ _ I _ Pe).
        constructor; cbn [cells active sus total]; try apply I.
        intros v Pv. rewrite APP. specialize (CNT v Pv). rewrite ON, OFF, Cn in CNT. cbn [andb] in CNT. lia.
      + assert (NV : forall v, P (n_instr v) = true -> note_eqb n v = false).
        { intros v Pv. destruct (note_eqb n v) eqn:E; auto. apply note_eqb_eq in E. subst v. congruence. }
        destruct (is_sus (e_instr e) (sus s)).
        * assert (NE : forall j, P (iof cs0 j) = true -> iof (cells s) j <> e_instr e).
          { intros j Pj C. rewrite (iof_sim cs0 _ j (ip_sim _ _ I)) in C. congruence. }
          assert (Q : forall v, P (n_instr v) = true ->
                    forall a, iof (cells s) a = e_instr e -> note_eqb (cell_at cs0 a) v = false).
          { intros v Pv a Ha. destruct (note_eqb (cell_at cs0 a) v) eqn:E; auto.
            apply note_eqb_eq in E. rewrite (iof_sim cs0 _ a (ip_sim _ _ I)) in Ha. unfold iof in Ha.
            rewrite E in Ha. congruence. }
          set (p := n_pitch (cell_at (cells s) (e_ref e))).
          pose proof (on_loop_sim (e_instr e) p (e_time e) (active s) (cells s)) as S.
          pose proof (fun q H => on_loop_other q (e_instr e) p (e_time e) (active s) (cells s) H) as O.
          destruct (on_loop _ _ _ _ _) as [k c]. cbn [fst snd] in *.
          constructor; cbn [cells active sus total].
          -- eapply sim_trans; [apply (ip_sim _ _ I) | exact S].
          -- intros j Pj. destruct (O (fun _ => false) (fun _ _ => eq_refl)) as [O1 _].
             rewrite O1 by (apply NE; exact Pj). apply (ip_cells _ _ I j Pj).
          -- apply (ip_sus _ _ I).
          -- intros v Pv. rewrite APP, (NV v Pv). destruct (O _ (Q v Pv)) as [_ O2].
             unfold cntA at 1. rewrite O2. fold (cntA v (active s)).
             specialize (CNT v Pv). rewrite ON, OFF, Cn, (NV v Pv) in CNT. cbn [andb] in CNT. lia.
          -- apply (ip_tot _ _ I).
        * constructor; cbn [cells active sus total]; try apply I.
          intros v Pv. rewrite APP, (NV v Pv).
          specialize (CNT v Pv). rewrite ON, OFF, Cn, (NV v Pv) in CNT. cbn [andb] in CNT. lia.
    - (* note off *)
      destruct Hwf as [n [Nn [Dn [In_ Tn]]]].
      pose proof (cell_at_init _ _ _ Nn) as Cn. fold cs0 in Cn.
      destruct (P (e_instr e)) eqn:Pe.
      + rewrite (ip_sus _ _ I _ Pe).
        assert (Pn : P (iof cs0 (e_ref e)) = true) by (unfold iof; rewrite Cn; congruence).
        assert (En : cell_at (cells s) (e_ref e) = n).
        { unfold cell_at. rewrite (ip_cells _ _ I _ Pn). exact Cn. }
        rewrite En.
        constructor; cbn [cells active sus total]; try apply I.
        intros v Pv.
        assert (Pn' : P (n_instr n) = true) by congruence.
        pose proof (remove_first_cnt (cells s) n v (active s) (fun a => eqb_agree s _ n a I Pn')) as R.
        specialize (CNT v Pv). rewrite ON, OFF, Cn in CNT. cbn [andb] in CNT.
        destruct (note_eqb n v) eqn:E; [|lia].
        apply note_eqb_eq in E. subst v.
        destruct (cntA n (active s)) eqn:CA; [|lia].
        (* no equal note is active: then no NOTE_ON of an equal note can be pending *)
        assert (cnt_ev is_on_ev cs0 n rest = 0)%nat as Z0.
        { destruct (cnt_ev is_on_ev cs0 n rest) eqn:C0; auto. exfalso.
          assert (0 < cnt_ev is_on_ev cs0 n rest)%nat as C2 by lia.
          apply cnt_ev_pos_In in C2. destruct C2 as [e2 [In2 [On2 V2]]].
          rewrite Forall_forall in Hle. pose proof (Hle e2 In2) as L2.
          pose proof (Hwfs e2 In2) as W2. unfold ev_wf in W2. unfold is_on_ev in On2.
          destruct (e_kind e2) eqn:K2; try discriminate.
          destruct W2 as [n2 [N2 [D2 [I2 T2]]]].
          pose proof (cell_at_init _ _ _ N2) as Q2. fold cs0 in Q2. rewrite Q2 in V2. subst n2.
          pose proof (ordered_b_nth _ _ _ Hord Nn Dn) as Ord.
          pose proof code_order as CO.
          unfold ev_lt in L2. rewrite K, K2 in L2. cbn [kind_code] in L2. lia. }
        lia.
      + destruct (is_sus (e_instr e) (sus s)).
        * constructor; try apply I.
          intros v Pv. specialize (CNT v Pv). rewrite ON, OFF, Cn in CNT.
          assert (note_eqb n v = false) as NV.
          { destruct (note_eqb n v) eqn:E; auto. apply note_eqb_eq in E. subst v. congruence. }
          rewrite NV in CNT. cbn [andb] in CNT. lia.
        * constructor; cbn [cells active sus total]; try apply I.
          intros v Pv. specialize (CNT v Pv). rewrite ON, OFF, Cn in CNT.
          assert (note_eqb n v = false) as NV.
          { destruct (note_eqb n v) eqn:E; auto. apply note_eqb_eq in E. subst v. congruence. }
          rewrite NV in CNT. cbn [andb] in CNT.
          unfold cntA at 1. rewrite remove_first_eq_other; [fold (cntA v (active s)); lia|].
          intros a Ha. destruct (note_eqb (cell_at cs0 a) v) eqn:E; auto. apply note_eqb_eq in E.
          assert (iof (cells s) a = iof cs0 a) as F by (apply iof_sim; apply (ip_sim _ _ I)).
          assert (iof (cells s) (e_ref e) = iof cs0 (e_ref e)) as G by (apply iof_sim; apply (ip_sim _ _ I)).
          unfold iof in F, G. rewrite Ha, G, Cn, E in F. congruence.
  Qed.
End NoPedal.

Lemma run_invP : forall P ns tot0, ordered_b ns = true -> forall evs s,
  sorted evs -> Forall (ev_wf ns) evs ->
  (forall e, In e evs -> e_kind e = KSusOn -> P (e_instr e) = false) ->
  invP P ns tot0 s evs -> invP P ns tot0 (run_events evs s) [].
Proof.
  intros P ns tot0 Hord. induction evs; intros s Hs Hw Hn I; cbn [run_events fold_left]; [exact I|].
  apply IHevs.
  - inversion Hs; assumption.
  - inversion Hw; assumption.
  - intros e He. apply Hn. right. exact He.
  - apply (step_invP P ns tot0 Hord s a evs Hs Hw); [|exact I]. apply Hn. left. reflexivity.
Qed.

Lemma init_invP : forall P ctl ns ccs tot0,
  invP P ns tot0 (init_st ns tot0) (sorted_events ctl ns ccs).
Proof.
  intros. constructor; cbn [init_st cells active sus total]; auto.
  - apply sim_refl.
  - intros v _. cbn. unfold sorted_events.
    rewrite (cnt_ev_perm is_on_ev _ v _ _ (sort_events_perm _)).
    rewrite (cnt_ev_perm is_off_ev _ v _ _ (sort_events_perm _)).
    rewrite build_events_balanced. lia.
Qed.

Lemma cc_events_on : forall ctl ccs e, In e (cc_events ctl ccs) -> e_kind e = KSusOn ->
  exists c, In c ccs /\ cc_num c = ctl /\ is_on c = true /\ e_instr e = cc_instr c.
Proof.
  unfold cc_events; intros. apply in_map_iff in H. destruct H as [c [<- H]].
  apply filter_In in H. destruct H as [H1 H2]. exists c. cbn [e_kind e_instr] in *.
  unfold is_on. destruct (64 <=? cc_val c); [|discriminate]. repeat split; auto. lia.
Qed.

Lemma sorted_events_on : forall ctl ns ccs e, In e (sorted_events ctl ns ccs) -> e_kind e = KSusOn ->
  exists c, In c ccs /\ cc_num c = ctl /\ is_on c = true /\ e_instr e = cc_instr c.
Proof.
  intros. apply (Permutation_in _ (sort_events_perm _)) in H. unfold build_events in H.
  rewrite !in_app_iff in H. destruct H as [H|[H|H]].
  - apply note_events_In in H. destruct H as [n [_ [_ E]]]. rewrite E in H0. discriminate.
  - apply note_events_In in H. destruct H as [n [_ [_ E]]]. rewrite E in H0. discriminate.
  - apply cc_events_on; assumption.
Qed.

(** Pre-closing and closing facts shared by both corollaries. *)
Lemma no_pedal_cells : forall P ctl ns ccs tot,
  ordered_b ns = true ->
  (forall c, In c ccs -> cc_num c = ctl -> P (cc_instr c) = true -> is_on c = false) ->
  let s := pre_close ctl ns ccs tot in
  invP P ns tot s [] /\
  (forall a, In a (active s) -> P (iof (init_cells ns) a) = false).
Proof.
  intros P ctl ns ccs tot Hord Hcc s.
  assert (I : invP P ns tot s []).
  { apply run_invP; auto.
    - apply sort_events_sorted.
    - apply sorted_events_wf.
    - intros e He K. destruct (sorted_events_on _ _ _ _ He K) as [c [C1 [C2 [C3 C4]]]].
      destruct (P (e_instr e)) eqn:Pe; auto. rewrite C4 in Pe. rewrite (Hcc c C1 C2 Pe) in C3. discriminate.
    - apply init_invP. }
  split; [exact I|].
  intros a Ha. destruct (P (iof (init_cells ns) a)) eqn:Pa; auto.
  pose proof (ip_cnt _ _ _ _ _ I (cell_at (init_cells ns) a) Pa) as C.
  pose proof (cntA_In_pos P ns 0 _ _ _ Ha eq_refl) as C1. cbn in C. lia.
Qed.

(** T3: notes of instruments without a pedal-down event are returned unchanged. *)
Lemma sustain_pedal_free_instruments : forall (P : Z -> bool) ctl ns ccs tot,
  ordered_b ns = true ->
  (forall c, In c ccs -> cc_num c = ctl -> P (cc_instr c) = true -> is_on c = false) ->
  Forall2 (fun n c => P (n_instr n) = true -> c = mkCell n true) ns (fst (sustain_cells ctl ns ccs tot)).
Proof.
  intros P ctl ns ccs tot Hord Hcc.
  destruct (no_pedal_cells P ctl ns ccs tot Hord Hcc) as [I A].
  apply (nth_Forall2 _ dummy_cell).
  - rewrite (sim_length _ _ (sustain_cells_sim ctl ns ccs tot)). unfold init_cells. apply map_length.
  - intros j n Hj Pn. unfold sustain_cells, sustain_cells_gen.
    rewrite close_other.
    + rewrite (ip_cells _ _ _ _ _ I j); [apply nth_init; exact Hj|].
      unfold iof. rewrite (cell_at_init _ _ _ Hj). exact Pn.
    + intros C. specialize (A j C). unfold iof in A. rewrite (cell_at_init _ _ _ Hj) in A. congruence.
Qed.

Lemma sustain_instrument_without_pedal : forall ctl i ns ccs tot,
  ordered_b ns = true -> no_pedal_down ctl i ccs = true ->
  Forall2 (fun n c => n_instr n = i -> c = mkCell n true) ns (fst (sustain_cells ctl ns ccs tot)).
Proof.
  intros ctl i ns ccs tot Hord Hnp.
  pose proof (sustain_pedal_free_instruments (fun j => j =? i) ctl ns ccs tot Hord) as H.
  cbv beta in H.
  assert (forall c, In c ccs -> cc_num c = ctl -> (cc_instr c =? i) = true -> is_on c = false) as Hcc.
  { intros c C1 C2 C3. unfold no_pedal_down, pedal_events in Hnp. rewrite forallb_forall in Hnp.
    specialize (Hnp c). rewrite filter_In in Hnp.
    assert (negb (is_on c) = true) as N by (apply Hnp; split; [exact C1 | lia]).
    destruct (is_on c); [discriminate | reflexivity]. }
  specialize (H Hcc). clear Hord Hnp Hcc. induction H; constructor; auto. intros E. apply H. lia.
Qed.

(** T3': without any pedal-down event the function is the identity (on notes and total_time). *)
Lemma sustain_no_pedal_cells : forall ctl ns ccs tot,
  ordered_b ns = true ->
  (forall c, In c ccs -> cc_num c = ctl -> is_on c = false) ->
  sustain_cells ctl ns ccs tot = (init_cells ns, tot).
Proof.
  intros ctl ns ccs tot Hord Hcc.
  destruct (no_pedal_cells (fun _ => true) ctl ns ccs tot Hord (fun c A B _ => Hcc c A B)) as [I A].
  unfold sustain_cells, sustain_cells_gen.
  destruct (active (pre_close ctl ns ccs tot)) as [|a r] eqn:E.
  - cbn [close]. f_equal.
    + apply nth_ext with (d := dummy_cell) (d' := dummy_cell).
      * apply (sim_length _ _ (ip_sim _ _ _ _ _ I)).
      * intros j _. apply (ip_cells _ _ _ _ _ I j eq_refl).
    + apply (ip_tot _ _ _ _ _ I). reflexivity.
  - specialize (A a (or_introl eq_refl)). discriminate.
Qed.

Lemma live_init : forall ns, live_notes (init_cells ns) = ns.
Proof. unfold live_notes, init_cells. induction ns; cbn; congruence. Qed.

Lemma sustain_no_pedal_identity : forall ctl s,
  is_quantized s = false -> ordered_b (s_notes s) = true ->
  (forall c, In c (s_ccs s) -> cc_num c = ctl -> is_on c = false) ->
  apply_sustain ctl s = Some s.
Proof.
  intros ctl s Q Hord Hcc. unfold apply_sustain, apply_sustain_gen. rewrite Q.
  fold (sustain_cells ctl (s_notes s) (s_ccs s) (s_total s)).
  rewrite (sustain_no_pedal_cells ctl _ _ _ Hord Hcc). rewrite live_init.
  destruct s; reflexivity.
Qed.
