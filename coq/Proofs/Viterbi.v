(** Proofs/Viterbi.v — optimality of the Viterbi model (C19), for any score
    type whose order is total and whose addition is monotone in its left
    argument (integers, integers with -inf, and — by monotonicity of rounding —
    IEEE addition on non-NaN values). *)
From Coq Require Import ZArith List Bool Arith Lia.
From NS Require Import Model.Viterbi.
Import ListNotations.

Section Proofs.
  Context {S : Type}.
  Variable le : S -> S -> bool.
  Variable add : S -> S -> S.
  Variable d : S.
  Hypothesis le_refl : forall a, le a a = true.
  Hypothesis le_trans : forall a b c, le a b = true -> le b c = true -> le a c = true.
  Hypothesis le_total : forall a b, le a b = false -> le b a = true.
  Hypothesis add_mono : forall a b c, le a b = true -> le (add a c) (add b c) = true.

  Notation argmax_from := (argmax_from le).
  Notation argmax := (argmax le d).
  Notation step := (step le add d).
  Notation forward := (forward le add d).
  Notation viterbi_rev := (viterbi_rev le add d).
  Notation score := (score add d).
  Notation tr := (tr d).

  Lemma argmax_from_spec : forall l idx bi bv pre,
    length pre = idx -> bi < idx -> nth bi pre d = bv ->
    (forall k, k < idx -> le (nth k pre d) bv = true) ->
    let r := argmax_from l idx bi bv in
    fst r < idx + length l /\ nth (fst r) (pre ++ l) d = snd r /\
    forall k, k < idx + length l -> le (nth k (pre ++ l) d) (snd r) = true.
  Proof.
    induction l as [|x r IH]; intros idx bi bv pre Hlen Hbi Hnth Hall; cbn [argmax_from length].
    - cbn [fst snd]. rewrite app_nil_r, Nat.add_0_r. repeat split; [lia | exact Hnth | exact Hall].
    - destruct (le x bv) eqn:E.
      + specialize (IH (Datatypes.S idx) bi bv (pre ++ [x])).
        rewrite <- app_assoc in IH. cbn [app] in IH.
        replace (idx + Datatypes.S (length r)) with (Datatypes.S idx + length r) by lia.
        apply IH.
        * rewrite app_length. cbn. lia.
        * lia.
        * rewrite app_nth1 by lia. exact Hnth.
        * intros k Hk. destruct (Nat.eq_dec k idx) as [->|Hne].
          -- rewrite app_nth2 by lia. rewrite Hlen, Nat.sub_diag. cbn. exact E.
          -- rewrite app_nth1 by lia. apply Hall. lia.
      + specialize (IH (Datatypes.S idx) idx x (pre ++ [x])).
        rewrite <- app_assoc in IH. cbn [app] in IH.
        replace (idx + Datatypes.S (length r)) with (Datatypes.S idx + length r) by lia.
        apply IH.
        * rewrite app_length. cbn. lia.
        * lia.
        * rewrite app_nth2 by lia. rewrite Hlen, Nat.sub_diag. reflexivity.
        * intros k Hk. destruct (Nat.eq_dec k idx) as [->|Hne].
          -- rewrite app_nth2 by lia. rewrite Hlen, Nat.sub_diag. cbn. apply le_refl.
          -- rewrite app_nth1 by lia. apply le_trans with bv; [apply Hall; lia | apply le_total; exact E].
  Qed.

  Lemma argmax_spec l : l <> [] ->
    fst (argmax l) < length l /\ nth (fst (argmax l)) l d = snd (argmax l) /\
    forall k, k < length l -> le (nth k l d) (snd (argmax l)) = true.
  Proof.
    destruct l as [|x r]; [congruence|]. intros _. unfold Viterbi.argmax.
    pose proof (argmax_from_spec r 1 0 x [x] eq_refl ltac:(lia) eq_refl) as H.
    cbn [app length] in *. apply H.
    intros k Hk. assert (k = 0) by lia. subst. cbn. apply le_refl.
  Qed.

  (** tie-breaking: the returned index is the FIRST maximal one (numpy argmax) *)
  Lemma argmax_from_first : forall l idx bi bv pre,
    length pre = idx -> bi < idx -> nth bi pre d = bv ->
    (forall k, k < idx -> le (nth k pre d) bv = true) ->
    (forall k, k < bi -> le bv (nth k pre d) = false) ->
    forall k, k < fst (argmax_from l idx bi bv) ->
      le (snd (argmax_from l idx bi bv)) (nth k (pre ++ l) d) = false.
  Proof.
    induction l as [|x r IH]; intros idx bi bv pre Hlen Hbi Hnth Hall Hfirst; cbn [argmax_from].
    - cbn [fst snd]. rewrite app_nil_r. exact Hfirst.
    - destruct (le x bv) eqn:E.
      + intros k Hk. specialize (IH (Datatypes.S idx) bi bv (pre ++ [x])).
        rewrite <- app_assoc in IH. cbn [app] in IH. apply IH; try assumption.
        * rewrite app_length. cbn. lia.
        * lia.
        * rewrite app_nth1 by lia. exact Hnth.
        * intros k0 Hk0. destruct (Nat.eq_dec k0 idx) as [->|Hne].
          -- rewrite app_nth2 by lia. rewrite Hlen, Nat.sub_diag. cbn. exact E.
          -- rewrite app_nth1 by lia. apply Hall. lia.
        * intros k0 Hk0. rewrite app_nth1 by lia. apply Hfirst. exact Hk0.
      + intros k Hk. specialize (IH (Datatypes.S idx) idx x (pre ++ [x])).
        rewrite <- app_assoc in IH. cbn [app] in IH. apply IH; try assumption.
        * rewrite app_length. cbn. lia.
        * lia.
        * rewrite app_nth2 by lia. rewrite Hlen, Nat.sub_diag. reflexivity.
        * intros k0 Hk0. destruct (Nat.eq_dec k0 idx) as [->|Hne].
          -- rewrite app_nth2 by lia. rewrite Hlen, Nat.sub_diag. cbn. apply le_refl.
          -- rewrite app_nth1 by lia. apply le_trans with bv; [apply Hall; lia | apply le_total; exact E].
        * intros k0 Hk0. rewrite app_nth1 by lia.
          destruct (le x (nth k0 pre d)) eqn:E2; [|reflexivity].
          rewrite (le_trans x (nth k0 pre d) bv E2 (Hall k0 Hk0)) in E. discriminate.
  Qed.

  Lemma argmax_first l : l <> [] ->
    forall k, k < fst (argmax l) -> le (snd (argmax l)) (nth k l d) = false.
  Proof.
    destruct l as [|x r]; [congruence|]. intros _ k Hk. unfold Viterbi.argmax in *.
    apply (argmax_from_first r 1 0 x [x] eq_refl ltac:(lia) eq_refl); [| |exact Hk].
    - intros k0 Hk0. assert (k0 = 0) by lia. subst. cbn. apply le_refl.
    - intros k0 Hk0. lia.
  Qed.

  Lemma argmax_first_index l : l <> [] ->
    fst (argmax l) < length l /\ nth (fst (argmax l)) l d = snd (argmax l) /\
    (forall k, k < length l -> le (nth k l d) (snd (argmax l)) = true) /\
    (forall k, k < fst (argmax l) -> le (snd (argmax l)) (nth k l d) = false).
  Proof.
    intros Hne. destruct (argmax_spec l Hne) as (H1 & H2 & H3).
    repeat split; try assumption. apply argmax_first. exact Hne.
  Qed.

  Lemma map2_length f (a b : list S) : length (map2 f a b) = Nat.min (length a) (length b).
  Proof. revert b; induction a as [|x a IH]; intros [|y b]; cbn; auto. Qed.

  Lemma map2_nth f (a b : list S) k :
    k < length a -> k < length b -> nth k (map2 f a b) d = f (nth k a d) (nth k b d).
  Proof.
    revert b k; induction a as [|x a IH]; intros [|y b] k Ha Hb; cbn in *; try lia.
    destruct k; [reflexivity | apply IH; lia].
  Qed.

  (** shape of a problem with [n] states *)
  Definition shape (n : nat) (cols : list (list S)) (frames : list (list S)) : Prop :=
    0 < n /\ length cols = n /\ Forall (fun c => length c = n) cols /\
    Forall (fun e => length e = n) frames.

  Definition valid_path (n len : nat) (p : list nat) : Prop :=
    length p = len /\ Forall (fun j => j < n) p.

  Lemma step_spec n cols prev e j :
    0 < n -> length cols = n -> Forall (fun c => length c = n) cols ->
    length prev = n -> length e = n -> j < n ->
    let col := map2 add prev (nth j cols []) in
    length (fst (step cols prev e)) = n /\ length (snd (step cols prev e)) = n /\
    nth j (snd (step cols prev e)) 0 = fst (argmax col) /\
    nth j (fst (step cols prev e)) d = add (snd (argmax col)) (nth j e d) /\
    length col = n.
  Proof.
    intros Hn Hc Hcs Hp He Hj col. unfold Viterbi.step. cbn [fst snd].
    assert (Hcol : length (nth j cols []) = n).
    { rewrite Forall_forall in Hcs. apply Hcs. apply nth_In. lia. }
    assert (Hlc : length col = n) by (unfold col; rewrite map2_length; lia).
    repeat split.
    - rewrite map2_length, !map_length. lia.
    - rewrite !map_length. exact Hc.
    - rewrite map_map. rewrite nth_indep with (d' := fst (argmax (map2 add prev []))) by (rewrite map_length; lia).
      rewrite (map_nth (fun c => fst (argmax (map2 add prev c))) cols [] j). reflexivity.
    - rewrite map2_nth by (rewrite ?map_length; lia). f_equal.
      rewrite map_map. rewrite nth_indep with (d' := snd (argmax (map2 add prev []))) by (rewrite map_length; lia).
      rewrite (map_nth (fun c => snd (argmax (map2 add prev c))) cols [] j). reflexivity.
    - exact Hlc.
  Qed.

  (** Invariant of the forward pass.  [hist]: emission rows consumed so far, most recent first. *)
  Definition Inv (n : nat) (init : list S) (cols : list (list S))
             (prev : list S) (acc : list (list nat)) (hist : list (list S)) : Prop :=
    length prev = n /\ length acc = length hist /\
    forall j, j < n ->
      (valid_path n (Datatypes.S (length hist)) (backtrack j acc) /\
       hd 0 (backtrack j acc) = j /\
       score init cols hist (backtrack j acc) = nth j prev d) /\
      (forall p, valid_path n (Datatypes.S (length hist)) p -> hd 0 p = j ->
                 le (score init cols hist p) (nth j prev d) = true).

  Lemma Inv_init n init cols : length init = n -> Inv n init cols init [] [].
  Proof.
    intros Hn. split; [exact Hn|]. split; [reflexivity|]. intros j Hj. split.
    - cbn. repeat split; auto.
    - intros p [Hl Hf] Hhd. destruct p as [|a [|b q]]; cbn in Hl; try lia.
      cbn in Hhd. subst a. cbn. apply le_refl.
  Qed.

  Lemma Inv_step n init cols prev acc hist e :
    0 < n -> length cols = n -> Forall (fun c => length c = n) cols -> length e = n ->
    Inv n init cols prev acc hist ->
    Inv n init cols (fst (step cols prev e)) (snd (step cols prev e) :: acc) (e :: hist).
  Proof.
    intros Hn Hc Hcs He (Hp & Hacc & HI).
    split; [|split].
    - destruct (step_spec n cols prev e 0 Hn Hc Hcs Hp He Hn) as (H1 & _). exact H1.
    - cbn. lia.
    - intros j Hj.
      destruct (step_spec n cols prev e j Hn Hc Hcs Hp He Hj) as (_ & _ & Hbp & Hv & Hlc).
      set (col := map2 add prev (nth j cols [])) in *.
      assert (Hne : col <> []) by (intro E; rewrite E in Hlc; cbn in Hlc; lia).
      destruct (argmax_spec col Hne) as (Hi & Hnth & Hmax).
      set (i := fst (argmax col)) in *.
      rewrite Hlc in Hi, Hmax.
      assert (Hcolj : length (nth j cols []) = n).
      { rewrite Forall_forall in Hcs. apply Hcs. apply nth_In. lia. }
      assert (Hcolk : forall k, k < n -> nth k col d = add (nth k prev d) (tr cols k j)).
      { intros k Hk. unfold col. rewrite map2_nth by lia. reflexivity. }
      destruct (HI i Hi) as ((Hvp & Hhd & Hsc) & _).
      split.
      + cbn [backtrack]. rewrite Hbp. fold i.
        split; [|split].
        * destruct Hvp as [Hl Hf]. split; [cbn; lia | constructor; assumption].
        * reflexivity.
        * destruct (backtrack i acc) as [|a q] eqn:Eb; [destruct Hvp as [Hl _]; cbn in Hl; lia|].
          cbn in Hhd. subst a. cbn [score].
          rewrite Hv, <- Hnth, Hcolk by exact Hi. rewrite <- Hsc.
          destruct q; reflexivity.
      + intros p [Hl Hf] Hhd2.
        destruct p as [|a [|b q]]; cbn in Hl; try lia.
        cbn in Hhd2. subst a. cbn [score].
        pose proof (Forall_inv_tail Hf) as Hf'. pose proof (Forall_inv Hf') as Hb. cbn beta in Hb.
        destruct (HI b Hb) as (_ & Hopt).
        specialize (Hopt (b :: q)). rewrite Hv.
        apply add_mono.
        apply le_trans with (add (nth b prev d) (tr cols b j)).
        * apply add_mono. apply Hopt; [split; [cbn in *; lia | exact Hf'] | reflexivity].
        * rewrite <- Hcolk by exact Hb. apply Hmax. exact Hb.
  Qed.

  Lemma forward_Inv n init cols : 0 < n -> length cols = n -> Forall (fun c => length c = n) cols ->
    forall frames prev acc hist,
      Forall (fun e => length e = n) frames -> Inv n init cols prev acc hist ->
      Inv n init cols (fst (forward cols prev frames acc)) (snd (forward cols prev frames acc))
          (rev frames ++ hist).
  Proof.
    intros Hn Hc Hcs. induction frames as [|e r IH]; intros prev acc hist Hf HI.
    - cbn. exact HI.
    - pose proof (Forall_inv Hf) as He. pose proof (Forall_inv_tail Hf) as Hr. cbn beta in He. cbn [Viterbi.forward rev].
      destruct (step cols prev e) as [v bp] eqn:Es.
      rewrite <- app_assoc. cbn [app]. apply IH; [exact Hr|].
      pose proof (Inv_step n init cols prev acc hist e Hn Hc Hcs He HI) as H.
      rewrite Es in H. exact H.
  Qed.

  (** Main theorem: the returned path is valid and no path of the same length scores higher. *)
  Theorem viterbi_optimal n init cols frames :
    shape n cols frames -> length init = n ->
    let best := viterbi_rev init cols frames in
    valid_path n (Datatypes.S (length frames)) best /\
    forall p, valid_path n (Datatypes.S (length frames)) p ->
              le (score init cols (rev frames) p) (score init cols (rev frames) best) = true.
  Proof.
    intros (Hn & Hc & Hcs & Hf) Hi best.
    pose proof (forward_Inv n init cols Hn Hc Hcs frames init [] [] Hf (Inv_init n init cols Hi)) as HI.
    rewrite app_nil_r in HI. unfold best, Viterbi.viterbi_rev.
    destruct (forward cols init frames []) as [v bps] eqn:Ef. cbn [fst snd] in HI.
    destruct HI as (Hv & Hacc & HI).
    assert (Hne : v <> []) by (intro E; rewrite E in Hv; cbn in Hv; lia).
    destruct (argmax_spec v Hne) as (Hlast & Hnth & Hmax). rewrite Hv in Hlast, Hmax.
    set (last := fst (argmax v)) in *.
    destruct (HI last Hlast) as ((Hvp & Hhd & Hsc) & _).
    rewrite rev_length in Hvp. split; [exact Hvp|].
    intros p Hp. rewrite Hsc.
    assert (Hj : hd 0 p < n).
    { destruct Hp as [Hl Hfp]. destruct p as [|a q]; cbn in Hl; [lia|]. exact (Forall_inv Hfp). }
    destruct (HI (hd 0 p) Hj) as (_ & Hopt).
    apply le_trans with (nth (hd 0 p) v d).
    - apply Hopt; [rewrite rev_length; exact Hp | reflexivity].
    - rewrite Hnth. apply Hmax. exact Hj.
  Qed.
End Proofs.

(** * The instance the harness runs: integers extended with -inf *)
Lemma xle_refl a : xle a a = true.
Proof. destruct a; cbn; [apply Z.leb_refl | reflexivity]. Qed.
Lemma xle_trans a b c : xle a b = true -> xle b c = true -> xle a c = true.
Proof. destruct a, b, c; cbn; try congruence; rewrite !Z.leb_le; lia. Qed.
Lemma xle_total a b : xle a b = false -> xle b a = true.
Proof. destruct a, b; cbn; try congruence. rewrite Z.leb_gt, Z.leb_le. lia. Qed.
Lemma xadd_mono a b c : xle a b = true -> xle (xadd a c) (xadd b c) = true.
Proof. destruct a, b, c; cbn; try congruence; rewrite !Z.leb_le; lia. Qed.

Theorem viterbi_x_optimal n init cols frames :
  shape n cols frames -> length init = n ->
  let best := @viterbi_rev (option Z) xle xadd None init cols frames in
  valid_path n (Datatypes.S (length frames)) best /\
  forall p, valid_path n (Datatypes.S (length frames)) p ->
            xle (score_x init cols (rev frames) p) (score_x init cols (rev frames) best) = true.
Proof.
  apply (viterbi_optimal xle xadd None xle_refl xle_trans xle_total xadd_mono).
Qed.

(** plain integers (no -inf) as a second instance *)
Theorem viterbi_Z_optimal n (init : list Z) cols frames :
  shape n cols frames -> length init = n ->
  let best := @viterbi_rev Z Z.leb Z.add 0%Z init cols frames in
  valid_path n (Datatypes.S (length frames)) best /\
  forall p, valid_path n (Datatypes.S (length frames)) p ->
            Z.leb (@score Z Z.add 0%Z init cols (rev frames) p)
                  (@score Z Z.add 0%Z init cols (rev frames) best) = true.
Proof.
  apply (viterbi_optimal Z.leb Z.add 0%Z).
  - intros a. apply Z.leb_refl.
  - intros a b c. rewrite !Z.leb_le. lia.
  - intros a b. rewrite Z.leb_gt, Z.leb_le. lia.
  - intros a b c. rewrite !Z.leb_le. lia.
Qed.
