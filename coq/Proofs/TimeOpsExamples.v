(** Proofs/TimeOpsExamples.v — concrete instances showing that the hypotheses
    of the C13 theorems are satisfiable by non-trivial values and that the
    interesting branches are reachable. *)
From Coq Require Import ZArith List Bool Lia.
From NS Require Import Base.Sx Base.NoteSeq Model.TimeOps Proofs.TimeOps Proofs.TimeOpsTidy
  Proofs.TimeOpsConcat Proofs.TimeOpsAdjust.
Import ListNotations.
Local Open Scope Z_scope.

(** One note and one event of every kind, all at time 4 (note 4..8), total 8. *)
Definition ex_seq : seq :=
  mkSeq [mkNote 60 80 4 8 0 0 false 0 0 0] [mkTempo 4 120] [mkTsig 4 4 4] [mkKsig 4 2 0]
        [mkText 4 0 [67] 1; mkText 2 0 [] ANN_BEAT; mkText 5 0 [] ANN_BEAT] [mkCc 4 0 64 127 0 0 false]
        [mkBend 4 100 0 0 false] [mkSect 4 7] 8 0 0 0 (1, 2) 220 99.

Lemma ex_seq_wf : seq_wf ex_seq.
Proof. unfold seq_wf, ex_seq, note_wf; cbn. repeat split; repeat constructor; cbn; lia. Qed.

Lemma shift_example :
  is_quantized ex_seq = false /\
  exists r, shift 10 ex_seq = Ok r /\ map sa_time (s_sects r) = [14] /\ map pb_time (s_bends r) = [14] /\
            map n_end (s_notes r) = [18] /\ s_total r = 18 /\ s_sub r = (0, 0).
Proof. split; [reflexivity|]. eexists; split; [vm_compute; reflexivity|]. repeat split; vm_compute; reflexivity. Qed.

Lemma stretch_example :
  is_quantized ex_seq = false /\ stretch_exact 3 1 ex_seq = true /\ stretch_exact 3 2 ex_seq = false /\
  exists r, stretch 3 1 ex_seq = Ok r /\ map sa_time (s_sects r) = [12] /\
            map tp_time (s_tempos r) = [12] /\ map tp_qpm (s_tempos r) = [40] /\ s_total r = 24.
Proof.
  split; [reflexivity|]. split; [vm_compute; reflexivity|]. split; [vm_compute; reflexivity|].
  eexists; split; [vm_compute; reflexivity|]. repeat split; vm_compute; reflexivity.
Qed.

(** Three pieces: the second repeats the tempo in force (dropped) and changes
    it later (kept); explicit durations leave a gap after the first piece. *)
Definition ex_piece (q1 : Z) (more : list tempo) : seq :=
  mkSeq [mkNote 60 80 0 8 0 0 false 0 0 0] (mkTempo 0 q1 :: more) [] [] [] [] [] [mkSect 1 0] 8 0 0 0 (0, 0) 220 0.

Lemma concat_example :
  let ps := [(ex_piece 120 [], Some 10); (ex_piece 120 [mkTempo 4 60], Some 8); (ex_piece 60 [], Some 8)] in
  Forall piece_ok ps /\
  exists r, concat_pairs ps = Ok r /\
    map n_start (s_notes r) = [0; 10; 18] /\
    s_tempos r = [mkTempo 0 120; mkTempo 14 60] /\
    map sa_time (s_sects r) = [1; 11; 19] /\ s_total r = 26.
Proof.
  intro ps. split.
  - unfold ps, piece_ok; repeat constructor; cbn; lia.
  - eexists; split; [vm_compute; reflexivity|]. repeat split; vm_compute; reflexivity.
Qed.

Lemma repeat_example :
  exists r, repeat_to_duration ex_seq 21 (Some 10) = Ok r /\
    map (fun n => (n_start n, n_end n)) (s_notes r) = [(4, 8); (14, 18)] /\ s_total r = 18 /\
    ceil_div 21 10 = 3.
Proof. eexists; split; [vm_compute; reflexivity|]. repeat split; vm_compute; reflexivity. Qed.

(** A monotone map (round down to a multiple of 4, doubled) that collapses a note;
    and a reversing one that is rejected. *)
Definition ex_f (t : Z) : Z := t / 4 * 8.

Lemma adjust_example :
  (forall a b, a <= b -> ex_f a <= ex_f b) /\ (forall t, 0 <= t -> 0 <= ex_f t) /\
  let s := mkSeq [mkNote 60 80 4 8 0 0 false 0 0 0; mkNote 61 80 5 6 0 0 false 0 0 0] [mkTempo 0 120] [] []
                 [] [] [] [mkSect 5 7] 8 0 0 0 (0, 0) 220 0 in
  exists r, adjust ex_f None s = Ok (r, 1) /\
    map (fun n => (n_pitch n, n_start n, n_end n)) (s_notes r) = [(60, 8, 16)] /\
    s_sects r = [mkSect 8 7] /\ s_tempos r = [] /\ s_total r = 16.
Proof.
  split; [|split].
  - intros a b H. unfold ex_f. apply Z.mul_le_mono_nonneg_r; [lia|]. apply Z.div_le_mono; lia.
  - intros t H. unfold ex_f. assert (0 <= t / 4) by (apply Z.div_pos; lia). lia.
  - intro s. eexists; split; [vm_compute; reflexivity|]. repeat split; vm_compute; reflexivity.
Qed.

Lemma adjust_reject_example :
  adjust_rejects (fun t => 10 - t) ex_seq = true /\ adjust (fun t => 10 - t) None ex_seq = Err EAdjust /\
  adjust_rejects (fun t => t - 5) ex_seq = true.
Proof. repeat split; vm_compute; reflexivity. Qed.

Lemma rectify_example :
  seq_wf ex_seq /\ beat_times ex_seq <> [] /\ rect_beats ex_seq = [0; 2; 5; 8] /\
  prod (deltas (rect_beats ex_seq)) = 18 /\
  map (rect_fun [0; 2; 5; 8] 18) [0; 1; 2; 3; 5; 8; 9; 100] = [0; 9; 18; 24; 36; 54; 54; 54] /\
  exists r, rectify 120 ex_seq = Ok (r, [0; 2; 5; 8], 18) /\
    map (fun n => (n_start n, n_end n)) (s_notes r) = [(30, 54)] /\ s_tempos r = [mkTempo 0 120].
Proof.
  split; [exact ex_seq_wf|]. split; [discriminate|]. split; [vm_compute; reflexivity|]. split; [vm_compute; reflexivity|].
  split; [vm_compute; reflexivity|]. eexists; split; [vm_compute; reflexivity|]. split; vm_compute; reflexivity.
Qed.
