(** Proofs/EventsClasses.v — the generic results of Proofs/Events.v
    instantiated for the concrete classes, and the LeadSheet wrapper.

    SimpleEventSequence, ChordProgression and DrumTrack do not override the
    constructor's normalisation or set_length; they are covered together by
    the section [IdClasses] (any event type, any validator, any pad and fill
    event).  Melody overrides both. *)
From Coq Require Import ZArith List Bool Lia ZifyBool.
From NS Require Import Gen.G17 Model.Events Proofs.Events.
Import ListNotations.
Local Open Scope Z_scope.

Lemma Forall2_eq_refl {A} (l : list A) : Forall2 eq l l.
Proof. induction l; constructor; auto. Qed.

(* ------------------------------------------------------------------ *)
Section IdClasses.
  Variable E : Type.
  Variable class_pad : option E.
  Variable valid : E -> bool.
  Variable fill : option E.

  Local Notation idc := (fun l : list E => l).
  Local Notation step := (step E class_pad valid idc fill no_fix).
  Local Notation run_ops := (run_ops E class_pad valid idc fill no_fix).
  Local Notation trace := (trace E class_pad valid idc fill no_fix).
  Local Notation slice := (slice E class_pad valid idc).

  Lemma id_clean_R : forall l : list E, Forall2 eq (idc l) l.
  Proof. intros; apply Forall2_eq_refl. Qed.
  Lemma id_fix_len : forall n (l : list E), length (no_fix n l) = length l.
  Proof. reflexivity. Qed.
  Lemma id_fix_keep : forall n (l : list E), firstn n (no_fix n l) = firstn n l.
  Proof. reflexivity. Qed.

  Lemma id_inv_reachable : forall ops s,
    Inv s -> forallb op_ok ops = true -> Inv (run_ops s ops).
  Proof. exact (inv_reachable E class_pad valid idc fill no_fix eq id_clean_R id_fix_len). Qed.

  Lemma id_inv_trace : forall ops s,
    Inv s -> forallb op_ok ops = true -> Forall (fun so => Inv (fst so)) (trace s ops).
  Proof. exact (inv_trace E class_pad valid idc fill no_fix eq id_clean_R id_fix_len). Qed.

  (** the same with a fill event chosen per call *)
  Lemma id_inv_trace_f : forall ops s,
    Inv s -> forallb (fun fo => op_ok (snd fo)) ops = true ->
    Forall (fun so => Inv (fst so)) (trace_f class_pad valid idc fill no_fix s ops).
  Proof.
    induction ops as [|[f o] ops IH]; intros s HI Hok; cbn [trace_f forallb snd] in *; [constructor|].
    apply andb_prop in Hok. destruct Hok as [Ho Hr].
    assert (H1 : Inv (fst (step_f class_pad valid idc fill no_fix s (f, o)))).
    { unfold step_f. cbn [fst snd].
      exact (step_inv E class_pad valid idc _ no_fix eq id_clean_R id_fix_len s o HI Ho). }
    constructor; [exact H1|]. apply IH; [exact H1|exact Hr].
  Qed.

  Lemma id_set_length_exact (s : st E) n fl : 0 <= n ->
    let s' := set_length E no_fix s n fl in
    len s' = n /\ stop s' - start s' = n /\ Inv s' /\
    (if fl then stop s' = stop s else start s' = start s).
  Proof. exact (set_length_exact E no_fix id_fix_len s n fl). Qed.

  (** the abstract list model of set_length *)
  Lemma id_set_length_events (s : st E) n fl : 0 <= n ->
    events (set_length E no_fix s n fl) =
      if len s <? n then
        if fl then repeat (pad s) (Z.to_nat (n - len s)) ++ events s
        else events s ++ repeat (pad s) (Z.to_nat (n - len s))
      else if fl then skipn (Z.to_nat (len s - n)) (events s)
           else firstn (Z.to_nat n) (events s).
  Proof.
    intros Hn. unfold len. rewrite <- (base_set_length_events E s n fl Hn).
    unfold set_length, no_fix. destruct ((zlen (events s) <? n) && negb fl); reflexivity.
  Qed.

  Lemma id_set_length_keeps (s : st E) n fl : Inv s -> 0 <= n ->
    let s' := set_length E no_fix s n fl in
    forall t, start s <= t < stop s -> start s' <= t < stop s' -> event_at s' t = event_at s t.
  Proof. exact (set_length_keeps E no_fix id_fix_keep s n fl). Qed.

  Lemma id_set_length_pads (s : st E) n fl : Inv s -> 0 <= n ->
    let s' := set_length E no_fix s n fl in
    forall t, start s' <= t < stop s' -> ~ (start s <= t < stop s) -> event_at s' t = Some (pad s).
  Proof. apply set_length_pads. reflexivity. Qed.

  Lemma id_slice_offset s a b s' : Inv s -> slice s a b = Some s' ->
    let lo := slice_lo (len s) a in
    Inv s' /\ 0 <= lo <= len s /\ start s' = start s + lo /\
    start s <= start s' /\ stop s' <= stop s /\
    events s' = py_slice (events s) a b.
  Proof. exact (slice_offset E class_pad valid idc eq id_clean_R s a b s'). Qed.

  Lemma id_slice_elements s a b s' : Inv s -> slice s a b = Some s' ->
    forall t, start s' <= t < stop s' -> exists e, event_at s' t = Some e /\ event_at s t = Some e.
  Proof.
    intros HI Hs t Ht.
    destruct (slice_elements E class_pad valid idc eq id_clean_R s a b s' HI Hs t Ht) as (e' & e & H1 & H2 & ->).
    eauto.
  Qed.
End IdClasses.

(* ------------------------------------------------------------------ *)
(** * Melody *)
Module MelodyP.
  Import Melody.

  (** how the Melody constructor may rewrite an event: NOTE_OFF before the
      first note becomes NO_EVENT *)
  Definition R (new old : Z) : Prop :=
    new = old \/ (new = MELODY_NO_EVENT /\ old = MELODY_NOTE_OFF).

  Definition in_range (e : Z) : Prop := MIN_MELODY_EVENT <= e <= MAX_MELODY_EVENT.

  Lemma valid_spec e : valid e = true <-> in_range e.
  Proof. unfold valid, in_range. lia. Qed.

  Lemma clean_R : forall l, Forall2 R (clean l) l.
  Proof.
    induction l as [|e r IH]; cbn [clean]; [constructor|].
    destruct ((e =? MELODY_NO_EVENT) || (e =? MELODY_NOTE_OFF)) eqn:Hc.
    - constructor; [|exact IH]. unfold R. lia.
    - constructor; [now left|]. clear. induction r; constructor; auto. now left.
  Qed.

  Lemma set_nth_length {A} (x : A) : forall n l, length (set_nth n x l) = length l.
  Proof. induction n; destruct l; cbn; auto. Qed.
  Lemma set_nth_firstn {A} (x : A) : forall n l, firstn n (set_nth n x l) = firstn n l.
  Proof. induction n; destruct l; cbn; auto. now rewrite IHn. Qed.
  Lemma set_nth_app {A} (x y : A) l r : set_nth (length l) x (l ++ y :: r) = l ++ x :: r.
  Proof. induction l; cbn; [reflexivity|now rewrite IHl]. Qed.

  Lemma fix_len : forall n l, length (extend_fix n l) = length l.
  Proof. intros; unfold extend_fix. destruct (sustained_rev _); [apply set_nth_length|reflexivity]. Qed.
  Lemma fix_keep : forall n l, firstn n (extend_fix n l) = firstn n l.
  Proof. intros; unfold extend_fix. destruct (sustained_rev _); [apply set_nth_firstn|reflexivity]. Qed.

  Local Notation V := (Forall (fun e => valid e = true)).
  Lemma no_event_valid : valid MELODY_NO_EVENT = true. Proof. reflexivity. Qed.
  Lemma note_off_valid : valid MELODY_NOTE_OFF = true. Proof. reflexivity. Qed.

  Lemma pad_valid : forall p, valid (eff_pad Z (Some MELODY_NO_EVENT) p) = true.
  Proof. reflexivity. Qed.
  Lemma clean_valid : forall l, V l -> V (clean l).
  Proof.
    induction l as [|e r IH]; cbn [clean]; intros H; [constructor|].
    destruct ((e =? MELODY_NO_EVENT) || (e =? MELODY_NOTE_OFF)); [|exact H].
    inversion H; subst. constructor; [reflexivity|auto].
  Qed.
  Lemma set_nth_valid x : valid x = true -> forall n l, V l -> V (set_nth n x l).
  Proof.
    intros Hx. induction n; destruct l; cbn; intros H; auto; inversion H; subst; constructor; auto.
  Qed.
  Lemma fix_valid : forall n l, V l -> V (extend_fix n l).
  Proof.
    intros n l H. unfold extend_fix. destruct (sustained_rev _); [|exact H].
    now apply set_nth_valid.
  Qed.

  Lemma inv_reachable : forall ops s,
    Inv s -> forallb op_ok ops = true -> Inv (run_ops s ops).
  Proof. exact (Events.inv_reachable _ _ _ _ _ _ R clean_R fix_len). Qed.

  Lemma inv_trace : forall ops s,
    Inv s -> forallb op_ok ops = true -> Forall (fun so => Inv (fst so)) (trace s ops).
  Proof. exact (Events.inv_trace _ _ _ _ _ _ R clean_R fix_len). Qed.

  Lemma set_length_exact (s : st Z) n fl : 0 <= n ->
    let s' := set_length s n fl in
    len s' = n /\ stop s' - start s' = n /\ Inv s' /\
    (if fl then stop s' = stop s else start s' = start s).
  Proof. exact (Events.set_length_exact Z extend_fix fix_len s n fl). Qed.

  Lemma set_length_keeps (s : st Z) n fl : Inv s -> 0 <= n ->
    let s' := set_length s n fl in
    forall t, start s <= t < stop s -> start s' <= t < stop s' -> event_at s' t = event_at s t.
  Proof. exact (Events.set_length_keeps Z extend_fix fix_keep s n fl). Qed.

  (** padding a melody on the right: the first new step ends a sounding note,
      all other new steps are NO_EVENT *)
  Lemma padding_ends_note (s : st Z) n : pad s = MELODY_NO_EVENT -> len s < n ->
    events (set_length s n false) =
      events s ++ (if sustained_rev (rev (events s)) then MELODY_NOTE_OFF else MELODY_NO_EVENT)
               :: repeat MELODY_NO_EVENT (Z.to_nat (n - len s - 1)).
  Proof.
    unfold len. intros Hp Hn. pose proof (zlen_nonneg (events s)) as Hl.
    unfold set_length, Events.set_length. replace (zlen (events s) <? n) with true by lia.
    cbn [andb negb events].
    rewrite (base_set_length_events Z s n false) by lia. replace (zlen (events s) <? n) with true by lia.
    rewrite Hp. replace (Z.to_nat (n - zlen (events s))) with (S (Z.to_nat (n - zlen (events s) - 1))) by lia.
    cbn [repeat]. unfold extend_fix. rewrite firstn_app, firstn_all, Nat.sub_diag. cbn [firstn].
    rewrite app_nil_r. destruct (sustained_rev (rev (events s))); [|reflexivity].
    apply set_nth_app.
  Qed.

  (** what "a sounding note" means: the last event that is not NO_EVENT is a
      note-on *)
  Lemma sustained_rev_spec m :
    sustained_rev m = true <->
    exists pre e post, rev m = pre ++ e :: post /\ e <> MELODY_NOTE_OFF /\ e <> MELODY_NO_EVENT /\
                       Forall (fun x => x = MELODY_NO_EVENT) post.
  Proof.
    induction m as [|e m IH]; cbn [sustained_rev].
    - split; [discriminate|]. intros (pre & e & post & H & _). destruct pre; discriminate.
    - destruct (e =? MELODY_NOTE_OFF) eqn:H1; [|destruct (e =? MELODY_NO_EVENT) eqn:H2]; cbn [negb].
      + split; [discriminate|]. intros (pre & x & post & H & Hx1 & Hx2 & HF). exfalso.
        cbn [rev] in H. destruct post as [|y post] using rev_ind.
        * apply app_inj_tail in H. destruct H as [_ ->]. lia.
        * clear IHpost. rewrite app_comm_cons, app_assoc in H. apply app_inj_tail in H. destruct H as [_ ->].
          rewrite Forall_app in HF. destruct HF as [_ HF]. inversion HF; subst.
          unfold MELODY_NO_EVENT, MELODY_NOTE_OFF in *. lia.
      + rewrite IH. cbn [rev]. split.
        * intros (pre & x & post & H & Hx1 & Hx2 & HF). exists pre, x, (post ++ [e]).
          rewrite H, <- app_assoc. repeat split; auto. rewrite Forall_app. split; [exact HF|].
          constructor; [lia|constructor].
        * intros (pre & x & post & H & Hx1 & Hx2 & HF).
          destruct post as [|y post] using rev_ind.
          { apply app_inj_tail in H. destruct H as [_ ->]. lia. }
          clear IHpost. rewrite app_comm_cons, app_assoc in H. apply app_inj_tail in H. destruct H as [H ->].
          rewrite Forall_app in HF. destruct HF as [HF _]. exists pre, x, post. auto.
      + split; [intros _|reflexivity]. exists (rev m), e, []. cbn [rev].
        repeat split; auto; try lia.
  Qed.

  Lemma sustained_spec l :
    sustained_rev (rev l) = true <->
    exists pre e post, l = pre ++ e :: post /\ e <> MELODY_NOTE_OFF /\ e <> MELODY_NO_EVENT /\
                       Forall (fun x => x = MELODY_NO_EVENT) post.
  Proof. rewrite sustained_rev_spec, rev_involutive. reflexivity. Qed.

  Lemma slice_offset s a b s' : Inv s -> slice Z (Some MELODY_NO_EVENT) valid clean s a b = Some s' ->
    let lo := slice_lo (len s) a in
    Inv s' /\ 0 <= lo <= len s /\ start s' = start s + lo /\
    start s <= start s' /\ stop s' <= stop s /\
    events s' = clean (py_slice (events s) a b).
  Proof. exact (Events.slice_offset _ _ _ _ R clean_R s a b s'). Qed.

  Lemma slice_elements s a b s' : Inv s -> slice Z (Some MELODY_NO_EVENT) valid clean s a b = Some s' ->
    forall t, start s' <= t < stop s' ->
      exists e' e, event_at s' t = Some e' /\ event_at s t = Some e /\ R e' e.
  Proof. exact (Events.slice_elements _ _ _ _ R clean_R s a b s'). Qed.

  (** Melody events stay within MIN_MELODY_EVENT..MAX_MELODY_EVENT under any
      history at all (no restriction on the arguments) *)
  Lemma range_reachable : forall ops s,
    VInv Z valid s -> VInv Z valid (run_ops s ops).
  Proof.
    exact (Events.valid_reachable Z (Some MELODY_NO_EVENT) valid clean (Some MELODY_NO_EVENT) extend_fix
             pad_valid clean_valid fix_valid no_event_valid).
  Qed.

  Lemma range_reachable_from_empty : forall ops,
    Forall in_range (events (run_ops (empty_st MELODY_NO_EVENT) ops)).
  Proof.
    intros ops. destruct (range_reachable ops (empty_st MELODY_NO_EVENT)) as [H _].
    { split; [constructor|reflexivity]. }
    revert H. apply Forall_impl. intros e. apply valid_spec.
  Qed.
End MelodyP.

(* ------------------------------------------------------------------ *)
(** * DrumTrack: every pitch of every event stays a MIDI pitch *)
Module DrumsP.
  Import Drums.
  Lemma range_reachable : forall ops s,
    VInv (list Z) valid s -> VInv (list Z) valid (run_ops s ops).
  Proof.
    apply (Events.valid_reachable (list Z) (Some []) valid (fun l => l) (Some []) no_fix); auto.
  Qed.
End DrumsP.

(* ------------------------------------------------------------------ *)
(** * LeadSheet: the melody and the chords stay in lock step *)
Module LeadSheetP.
  Import LeadSheet.

  Definition LsInv (s : ls) : Prop :=
    Inv (mel s) /\ Inv (chd s) /\
    Events.len (mel s) = Events.len (chd s) /\
    Events.start (mel s) = Events.start (chd s) /\ Events.stop (mel s) = Events.stop (chd s) /\
    spb (mel s) = spb (chd s) /\ spq (mel s) = spq (chd s).

  Definition ls_op_ok (o : op) : bool :=
    match o with
    | LSetLength n => 0 <=? n
    | LIncRes k => 1 <=? k
    | _ => true
    end.

  Lemma empty_inv : LsInv empty.
  Proof. unfold LsInv, Inv, empty, Events.len; cbn. repeat split; reflexivity. Qed.

  (** the constructor's own check, together with the consistency of the two
      parts, is the invariant *)
  Lemma make_inv m c s : Inv m -> Inv c -> make m c = Some s -> LsInv s.
  Proof.
    unfold make, LsInv. intros Hm Hc H.
    destruct (negb (Events.len m =? Events.len c) || negb (spb m =? spb c) || negb (spq m =? spq c)
              || negb (Events.start m =? Events.start c) || negb (Events.stop m =? Events.stop c)) eqn:Ht;
      [discriminate|]. injection H as <-. cbn. repeat split; auto; lia.
  Qed.

  Lemma make_total m c : Events.len m = Events.len c -> spb m = spb c -> spq m = spq c ->
    Events.start m = Events.start c -> Events.stop m = Events.stop c -> make m c = Some (mkls m c).
  Proof.
    unfold make. intros -> -> -> -> ->. now rewrite !Z.eqb_refl.
  Qed.

  Local Notation mstep := (Events.step Z (Some MELODY_NO_EVENT) Melody.valid Melody.clean
                                       (Some MELODY_NO_EVENT) Melody.extend_fix).
  Local Notation cstep := (Events.step Z (Some NO_CHORD_CODE) Chords.valid (fun l => l) None no_fix).

  Lemma mstep_inv s o : Inv s -> op_ok o = true -> Inv (fst (mstep s o)).
  Proof. exact (Events.step_inv _ _ _ _ _ _ MelodyP.R MelodyP.clean_R MelodyP.fix_len s o). Qed.
  Lemma cstep_inv s o : Inv s -> op_ok o = true -> Inv (fst (cstep s o)).
  Proof.
    exact (Events.step_inv _ _ _ _ _ _ eq (id_clean_R Z) (id_fix_len Z) s o).
  Qed.

  Lemma step_inv s o : LsInv s -> ls_op_ok o = true -> LsInv (fst (step s o)).
  Proof.
    intros HI Hok. pose proof HI as (Hm & Hc & Hl & Hs & He & Hb & Hq).
    destruct o as [me ce|n|a b|k| |mes ms msb msq ces cs csb csq| ];
      unfold step, Melody.step, Chords.step, Melody.init, Chords.init; cbn [ls_op_ok] in Hok.
    - (* append *)
      cbn [Events.step]. unfold append, Chords.valid. destruct (Melody.valid me); cbn; [|exact HI].
      unfold LsInv, Inv, Events.len in *; cbn. rewrite !zlen_app. cbn. repeat split; lia.
    - (* set_length *)
      cbn [Events.step fst].
      destruct (MelodyP.set_length_exact (mel s) n false) as (M1 & M2 & M3 & M4); [lia|].
      destruct (id_set_length_exact Z (chd s) n false) as (C1 & C2 & C3 & C4); [lia|].
      unfold Melody.set_length in *.
      pose proof (set_length_fields Z Melody.extend_fix (mel s) n false) as (_ & M5 & M6 & _).
      pose proof (set_length_fields Z no_fix (chd s) n false) as (_ & C5 & C6 & _).
      unfold LsInv; cbn. repeat split; auto; lia.
    - (* slice *)
      pose proof (mstep_inv (mel s) (OSlice a b) Hm eq_refl) as M.
      pose proof (cstep_inv (chd s) (OSlice a b) Hc eq_refl) as C.
      destruct (mstep (mel s) (OSlice a b)) as [m' om]; destruct (cstep (chd s) (OSlice a b)) as [c' oc].
      destruct om; cbn [fst snd]; try exact HI; destruct oc; cbn [fst snd]; try exact HI.
      cbn [fst] in M, C. unfold of_opt. destruct (make m' c') eqn:Hmk; cbn; [|exact HI].
      exact (make_inv _ _ _ M C Hmk).
    - (* increase_resolution *)
      cbn [Events.step fst].
      destruct (increase_resolution_spec Z (Some MELODY_NO_EVENT) (mel s) k) as (M1 & M2 & M3 & M4); [lia|].
      destruct (increase_resolution_spec Z None (chd s) k) as (C1 & C2 & C3 & C4); [lia|].
      unfold LsInv. cbn [mel chd]. repeat split; auto; try lia.
      + cbn. lia.
      + cbn. lia.
    - (* deepcopy *)
      pose proof (mstep_inv (mel s) ODeepcopy Hm eq_refl) as M.
      pose proof (cstep_inv (chd s) ODeepcopy Hc eq_refl) as C.
      destruct (mstep (mel s) ODeepcopy) as [m' om]; destruct (cstep (chd s) ODeepcopy) as [c' oc].
      destruct om; cbn [fst snd]; try exact HI; destruct oc; cbn [fst snd]; try exact HI.
      cbn [fst] in M, C. unfold of_opt. destruct (make m' c') eqn:Hmk; cbn; [|exact HI].
      exact (make_inv _ _ _ M C Hmk).
    - (* LeadSheet(Melody(...), ChordProgression(...)) *)
      destruct (Events.init Z (Some MELODY_NO_EVENT) Melody.valid Melody.clean 0 (Some mes) ms msb msq) as [m|] eqn:Hmi;
        [|destruct (Events.init Z (Some NO_CHORD_CODE) Chords.valid (fun l => l) 0 (Some ces) cs csb csq); exact HI].
      destruct (Events.init Z (Some NO_CHORD_CODE) Chords.valid (fun l => l) 0 (Some ces) cs csb csq) as [c|] eqn:Hci;
        [|exact HI].
      unfold of_opt. destruct (make m c) eqn:Hmk; cbn; [|exact HI].
      apply (make_inv m c); auto.
      + exact (init_inv _ _ _ _ _ _ _ _ _ _ Hmi).
      + exact (init_inv _ _ _ _ _ _ _ _ _ _ Hci).
    - exact empty_inv.
  Qed.

  Theorem lockstep_reachable : forall ops s,
    LsInv s -> forallb ls_op_ok ops = true -> LsInv (run_ops s ops).
  Proof.
    unfold run_ops. induction ops as [|o ops IH]; intros s HI Hok; cbn in *; [exact HI|].
    apply andb_prop in Hok. destruct Hok as [Ho Hr]. apply IH; [|exact Hr]. now apply step_inv.
  Qed.

  Theorem lockstep_trace : forall ops s,
    LsInv s -> forallb ls_op_ok ops = true -> Forall (fun so => LsInv (fst so)) (trace s ops).
  Proof.
    induction ops as [|o ops IH]; intros s HI Hok; cbn in *; [constructor|].
    apply andb_prop in Hok. destruct Hok as [Ho Hr].
    constructor; [now apply step_inv|]. apply IH; [now apply step_inv|exact Hr].
  Qed.

  (** in lock step, slicing and copying a lead sheet never trips the
      constructor's mismatch check *)
  Theorem no_mismatch s : LsInv s ->
    (forall a b, snd (step s (LSlice a b)) <> MismatchError) /\ snd (step s LDeepcopy) <> MismatchError.
  Proof.
    intros (Hm & Hc & Hl & Hs & He & Hb & Hq). split; [intros a b|];
      unfold step, Melody.step, Chords.step; cbn [Events.step].
    - destruct (slice Z (Some MELODY_NO_EVENT) Melody.valid Melody.clean (mel s) a b) as [m'|] eqn:Hms; cbn [Events.of_opt fst snd];
        [|destruct (slice Z (Some NO_CHORD_CODE) Chords.valid (fun l => l) (chd s) a b); cbn [Events.of_opt fst snd]; discriminate].
      destruct (slice Z (Some NO_CHORD_CODE) Chords.valid (fun l => l) (chd s) a b) as [c'|] eqn:Hcs; cbn [Events.of_opt fst snd];
        [|discriminate].
      destruct (MelodyP.slice_offset _ _ _ _ Hm Hms) as (M1 & _ & M3 & _ & _ & M6).
      destruct (id_slice_offset Z _ _ _ _ _ _ Hc Hcs) as (C1 & _ & C3 & _ & _ & C6).
      unfold Events.slice in Hms, Hcs.
      apply init_fields in Hms. apply init_fields in Hcs.
      destruct Hms as (_ & _ & M7 & M8 & _). destruct Hcs as (_ & _ & C7 & C8 & _).
      assert (HL : Events.len m' = Events.len c').
      { unfold Events.len in *. rewrite M6, C6.
        rewrite (zlen_clean Z Melody.clean MelodyP.R MelodyP.clean_R), !py_slice_zlen. now rewrite Hl. }
      unfold Inv, Events.len in *. rewrite Hl in M3.
      rewrite make_total; unfold Events.len; cbn; try discriminate; try congruence; try lia.
    - destruct (deepcopy Z (Some MELODY_NO_EVENT) Melody.valid Melody.clean (mel s)) as [m'|] eqn:Hms; cbn [Events.of_opt fst snd];
        [|destruct (deepcopy Z (Some NO_CHORD_CODE) Chords.valid (fun l => l) (chd s)); cbn [Events.of_opt fst snd]; discriminate].
      destruct (deepcopy Z (Some NO_CHORD_CODE) Chords.valid (fun l => l) (chd s)) as [c'|] eqn:Hcs; cbn [Events.of_opt fst snd];
        [|discriminate].
      destruct (deepcopy_spec _ _ _ _ MelodyP.R MelodyP.clean_R _ _ Hms) as (M1 & M2 & M3 & _).
      destruct (deepcopy_spec _ _ _ _ eq (id_clean_R Z) _ _ Hcs) as (C1 & C2 & C3 & _).
      unfold Events.deepcopy in Hms, Hcs.
      apply init_fields in Hms. apply init_fields in Hcs.
      destruct Hms as (_ & _ & M7 & M8 & _). destruct Hcs as (_ & _ & C7 & C8 & _).
      unfold Inv, Events.len in *.
      rewrite make_total; unfold Events.len; cbn; try discriminate; try congruence; try lia.
  Qed.

  (** len(), iteration and indexing of a lead sheet in lock step: iteration
      yields exactly len pairs, the i-th being (melody[i], chords[i]), and
      indexing returns that pair for i and i - len and fails outside *)
  Theorem observables_agree s : LsInv s ->
    len s = zlen (iter s) /\
    (forall i, 0 <= i < len s ->
       exists m c, nth_error (events (mel s)) (Z.to_nat i) = Some m /\
                   nth_error (events (chd s)) (Z.to_nat i) = Some c /\
                   nth_error (iter s) (Z.to_nat i) = Some (m, c) /\
                   getitem s i = Some (m, c) /\ getitem s (i - len s) = Some (m, c)) /\
    (forall i, i < - len s \/ len s <= i -> getitem s i = None) /\
    start s = Events.start (chd s) /\ stop s = Events.stop (chd s) /\ stop s - start s = len s.
  Proof.
    intros (Hm & Hc & Hl & Hs & He & Hb & Hq). unfold len, iter, getitem, start, stop.
    assert (HL : length (events (mel s)) = length (events (chd s))).
    { unfold Events.len, zlen in Hl. lia. }
    split; [|split; [|split]].
    - unfold Events.len, zlen. rewrite combine_length. lia.
    - intros i Hi.
      destruct (iter_index_len_agree Z (mel s)) as (_ & M & _).
      destruct (iter_index_len_agree Z (chd s)) as (_ & C & _).
      destruct (M i Hi) as (m & M1 & M2 & M3). rewrite Hl in Hi. destruct (C i Hi) as (c & C1 & C2 & C3).
      unfold Events.iter in *. exists m, c. rewrite M2, M3, C2. rewrite Hl, C3.
      repeat split; auto. clear - M1 C1. revert M1 C1. generalize (Z.to_nat i) as j.
      generalize (events (chd s)) as lc. induction (events (mel s)) as [|x l IH]; intros lc [|j] H1 H2;
        destruct lc; cbn in *; try discriminate; [congruence|eauto].
    - intros i Hi.
      destruct (iter_index_len_agree Z (mel s)) as (_ & _ & M).
      rewrite (M i Hi). reflexivity.
    - unfold Inv, Events.len in *. repeat split; lia.
  Qed.
End LeadSheetP.
