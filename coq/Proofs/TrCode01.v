(** Proofs/TrCode01.v — clauses of C01 stated DIRECTLY on the Gallina re-translated from the source on every run
    (Gen/Tr.v, Gen/TrF.v): the time-signature denominator test accepts exactly the powers of two; quantize_to_step, as it
    reads now (with the regenerated default cutoff), returns the nearest step and rounds exact ties up. *)
From Coq Require Import ZArith Bool Lia Lra Reals Floats.
From Flocq Require Import Core.
From NS Require Import Base.FloatBridge Gen.G01 Gen.Tr Gen.TrF Model.Quantize Proofs.Quantize Proofs.QuantizeFloat
  Proofs.TrEquiv01 Proofs.TrEquivF.
Local Open Scope Z_scope.

Theorem code_is_power_of_2 x :
  tr_is_power_of_2 x = Some true <-> exists k, 0 <= k /\ x = 2 ^ k.
Proof.
  rewrite tr_is_power_of_2_eq. split.
  - intros H. injection H as H. apply is_pow2_true. exact H.
  - intros (k & Hk & ->). f_equal. apply is_pow2_spec_pos. exact Hk.
Qed.

Lemma code_q2s_defined t s : fin t -> fin s -> (Rabs (R_of t * R_of s) <= bpow radix2 60)%R ->
  trf_quantize_to_step t s cutoff = Some (q2s t s).
Proof.
  intros Ft Fs Hb. apply trf_quantize_to_step_finite.
  destruct (prod_R t s Ft Fs Hb) as (_ & F & B). destruct (sum_R _ F B) as [_ F2]. exact F2.
Qed.

Theorem code_quantize_to_step_nearest t s :
  fin t -> fin s -> (0 <= R_of t * R_of s <= bpow radix2 60)%R ->
  (forall k : Z, (Rabs (R_of t * R_of s - (IZR k + / 2)) > bpow radix2 (-50) * (R_of t * R_of s + 1))%R) ->
  trf_quantize_to_step t s cutoff = Some (Zfloor (R_of t * R_of s + / 2)).
Proof.
  intros Ft Fs Hb Hk. rewrite code_q2s_defined; [|assumption|assumption|rewrite Rabs_pos_eq; lra].
  f_equal. apply q2s_nearest; assumption.
Qed.

Theorem code_quantize_to_step_tie_up t s k :
  fin t -> fin s -> 0 <= k < 2 ^ 51 -> (R_of t * R_of s = IZR k + / 2)%R ->
  trf_quantize_to_step t s cutoff = Some (k + 1).
Proof.
  intros Ft Fs Hk E. rewrite code_q2s_defined; [f_equal; apply q2s_tie_up; assumption|assumption|assumption|].
  rewrite E. assert (0 <= IZR k <= IZR (2 ^ 51 - 1))%R by (split; apply IZR_le; lia).
  assert (IZR (2 ^ 51 - 1) + / 2 <= bpow radix2 60)%R.
  { change (bpow radix2 60) with (IZR (2 ^ 60)). 
    apply Rle_trans with (IZR (2 ^ 51)); [rewrite minus_IZR; simpl (IZR 1); lra | apply IZR_le; lia]. }
  rewrite Rabs_pos_eq; lra.
Qed.
