(** Proofs/RenderChords.v — C06 for ChordProgression at step level:
    - [roundtrip_steps_chords]: rendering a canonical chord progression (after notes/C06-fix-1.diff)
      and extracting it again over [s0, e0) gives the same events;
    - [extraction_canonical_chords]: whatever [from_quantized_sequence] returns is canonical;
    - [chords_legacy_refuted]: with the code before the fix the round trip fails (witness);
    - [chords_canonical_example]: a concrete non-trivial canonical value and its round trip. *)
From Coq Require Import ZArith List Bool Lia ZifyBool Permutation Sorted.
From NS Require Import Base.NoteSeq Gen.G07 Model.FqCommon Model.FqChords Model.FqSpec
  Proofs.FqCommon Proofs.FqChords
  Model.RenderCommon Model.RenderChords.
Import ListNotations.
Local Open Scope Z_scope.
Ltac Zify.zify_post_hook ::= Z.to_euclidean_division_equations.

(** * generic list facts *)

(** insertion sort is the identity on a sorted list *)
Lemma isort_sorted_id {A} (le : A -> A -> bool) l :
  StronglySorted (fun x y => le x y = true) l -> isort le l = l.
Proof.
  induction 1 as [|x r Hs IH Hf]; cbn [isort]; [reflexivity|].
  rewrite IH. destruct r as [|y r']; cbn [insert]; [reflexivity|].
  inversion Hf as [|? ? Hxy _]; subst. now rewrite Hxy.
Qed.

Lemma filter_all {A} (f : A -> bool) l : (forall x, In x l -> f x = true) -> filter f l = l.
Proof.
  induction l as [|x r IH]; intros H; cbn [filter]; [reflexivity|].
  rewrite (H x (or_introl eq_refl)). f_equal. apply IH. intros y Hy. apply H. now right.
Qed.

(** lists of equal length that agree at every index are equal *)
Lemma znth_ext {A} (d : A) : forall l1 l2,
  len l1 = len l2 -> (forall i, 0 <= i < len l1 -> znth d i l1 = znth d i l2) -> l1 = l2.
Proof.
  induction l1 as [|x l1 IH]; intros [|y l2] Hl H.
  - reflexivity.
  - rewrite len_cons, len_nil in Hl. pose proof (len_nonneg l2). lia.
  - rewrite len_cons, len_nil in Hl. pose proof (len_nonneg l1). lia.
  - rewrite !len_cons in Hl. pose proof (len_nonneg l1). f_equal.
    + specialize (H 0). rewrite !znth_cons_0 in H. apply H. rewrite len_cons. lia.
    + apply IH; [lia|]. intros i Hi. specialize (H (i + 1)).
      rewrite !znth_cons_S in H by lia. replace (i + 1 - 1) with i in H by lia.
      apply H. rewrite len_cons. lia.
Qed.

(** * what [ch_render] produces *)

Lemma ch_render_In es : forall step cur c,
  In c (ch_render es step cur) ->
  tx_type c = CHORD_SYMBOL /\ step <= tx_qstep c < step + len es.
Proof.
  induction es as [|f r IH]; intros step cur c H; cbn [ch_render] in H; [destruct H|].
  rewrite len_cons. pose proof (len_nonneg r).
  destruct (zs_eqb f cur).
  - destruct (IH _ _ _ H) as (Ht & Hs). split; [exact Ht|lia].
  - destruct H as [<-|H]; [cbn [tx_type tx_qstep]; split; [reflexivity|lia]|].
    destruct (IH _ _ _ H) as (Ht & Hs). split; [exact Ht|lia].
Qed.

Lemma ch_render_sorted es : forall step cur,
  StronglySorted (fun x y => tx_qstep x < tx_qstep y) (ch_render es step cur).
Proof.
  induction es as [|f r IH]; intros step cur; cbn [ch_render]; [constructor|].
  destruct (zs_eqb f cur); [apply IH|].
  constructor; [apply IH|]. apply Forall_forall. intros c Hc.
  destruct (ch_render_In _ _ _ _ Hc) as (_ & Hs). cbn [tx_qstep]. lia.
Qed.

Lemma strict_sorted_le l :
  StronglySorted (fun x y => tx_qstep x < tx_qstep y) l ->
  StronglySorted (fun x y => ch_le x y = true) l.
Proof.
  induction 1 as [|x r Hs IH Hf]; constructor; [exact IH|].
  eapply Forall_impl; [|exact Hf]. intros y Hy. cbv beta in Hy. unfold ch_le. apply Z.leb_le. lia.
Qed.

Lemma strict_sorted_inj l : StronglySorted (fun x y => tx_qstep x < tx_qstep y) l ->
  forall c1 c2, In c1 l -> In c2 l -> tx_qstep c1 = tx_qstep c2 -> c1 = c2.
Proof.
  induction 1 as [|x r Hs IH Hf]; intros c1 c2 H1 H2 Heq; [destruct H1|].
  rewrite Forall_forall in Hf.
  destruct H1 as [<-|H1], H2 as [<-|H2].
  - reflexivity.
  - specialize (Hf _ H2). lia.
  - specialize (Hf _ H1). lia.
  - now apply IH.
Qed.

Lemma ch_sorted_render es step cur :
  ch_sorted (ch_render es step cur) = ch_render es step cur.
Proof.
  unfold ch_sorted. rewrite filter_all.
  - apply isort_sorted_id, strict_sorted_le, ch_render_sorted.
  - intros c Hc. destruct (ch_render_In _ _ _ _ Hc) as (-> & _). reflexivity.
Qed.

(** the chord in force, with an arbitrary initial figure *)
Definition force_from (acc : list Z) (cs : list text) (s : Z) : list Z :=
  fold_left (fun acc c => if tx_qstep c <=? s then tx_text c else acc) cs acc.

Lemma force_from_later cs : forall acc s,
  (forall c, In c cs -> s < tx_qstep c) -> force_from acc cs s = acc.
Proof.
  induction cs as [|c r IH]; intros acc s H; [reflexivity|].
  unfold force_from. cbn [fold_left].
  replace (tx_qstep c <=? s) with false by (specialize (H c (or_introl eq_refl)); lia).
  apply IH. intros c' Hc'. apply H. now right.
Qed.

(** the current figure of the renderer is the chord in force *)
Lemma ch_render_force es : forall step cur i,
  0 <= i < len es ->
  force_from cur (ch_render es step cur) (step + i) = znth NO_CHORD i es.
Proof.
  induction es as [|f r IH]; intros step cur i Hi; [unfold len in Hi; cbn in Hi; lia|].
  rewrite len_cons in Hi. cbn [ch_render].
  destruct (zs_eqb f cur) eqn:E.
  - apply zs_eqb_eq in E. subst f.
    destruct (Z.eq_dec i 0) as [->|Hne].
    + rewrite znth_cons_0. apply force_from_later. intros c Hc.
      destruct (ch_render_In _ _ _ _ Hc) as (_ & Hs). lia.
    + rewrite znth_cons_S by lia. rewrite <- (IH (step + 1) cur (i - 1)) by lia.
      f_equal. lia.
  - unfold force_from. cbn [fold_left tx_qstep tx_text].
    replace (step <=? step + i) with true by lia. fold (force_from f (ch_render r (step + 1) f) (step + i)).
    destruct (Z.eq_dec i 0) as [->|Hne].
    + rewrite znth_cons_0. apply force_from_later. intros c Hc.
      destruct (ch_render_In _ _ _ _ Hc) as (_ & Hs). lia.
    + rewrite znth_cons_S by lia. rewrite <- (IH (step + 1) f (i - 1)) by lia.
      f_equal. lia.
Qed.

(** * the round trip *)
Theorem roundtrip_steps_chords : forall s spb s0 e0 es,
  s_texts s = ch_to_step_texts false s0 es ->
  steps_per_bar s = Ok spb ->
  canonical_chords s0 e0 es = true ->
  ch_from_quantized s s0 e0 = Ok (mkChResult es s0 e0 spb (s_spq s)).
Proof.
  intros s spb s0 e0 es Htx Hspb Hcan.
  unfold canonical_chords in Hcan. unfold ch_to_step_texts in Htx.
  assert (Hs0 : 0 <= s0) by lia. assert (Hlen : 1 <= len es) by lia.
  assert (He0 : e0 = s0 + len es) by lia. clear Hcan.
  assert (Hcs : ch_sorted (s_texts s) = ch_render es s0 NO_CHORD)
    by (rewrite Htx; apply ch_sorted_render).
  destruct (ch_from_quantized s s0 e0) as [r|code] eqn:Er.
  - pose proof (chords_steps s s0 e0 spb r Hspb Er) as H. cbv zeta in H. rewrite Hcs in H.
    destruct H as (_ & H1 & H2 & H3 & H4 & H5 & H6 & _).
    destruct r as [evs st en spb' spq']. cbn [ce_events ce_start ce_end ce_spb ce_spq] in *.
    subst st en spb' spq'. f_equal. f_equal.
    apply (znth_ext NO_CHORD); [lia|].
    intros i Hi. rewrite H6 by lia.
    apply (ch_render_force es s0 NO_CHORD i). lia.
  - exfalso. pose proof (chords_errors s s0 e0 spb code Hspb Er) as H. cbv zeta in H. rewrite Hcs in H.
    destruct H as [(_ & c1 & c2 & H1 & H2 & Heq & _ & Hne)|(_ & Hle & _)]; [|lia].
    apply Hne. f_equal. eapply strict_sorted_inj; eauto. apply ch_render_sorted.
Qed.

(** * extraction gives canonical values *)
Theorem extraction_canonical_chords : forall s a b r,
  0 <= a -> ch_from_quantized s a b = Ok r ->
  canonical_chords (ce_start r) (ce_end r) (ce_events r) = true /\ ce_start r = a /\ ce_end r = b.
Proof.
  intros s a b r Ha Hr.
  destruct (steps_per_bar s) as [spb|code] eqn:Hspb.
  2:{ unfold ch_from_quantized in Hr. rewrite Hspb in Hr. discriminate. }
  pose proof (chords_steps s a b spb r Hspb Hr) as H. cbv zeta in H.
  destruct H as (Hab & H1 & H2 & _ & _ & H5 & _).
  split; [|split; assumption].
  unfold canonical_chords. rewrite H1, H2, H5. lia.
Qed.

(** * the legacy renderer (annotations without start_step) does not round-trip *)
Theorem chords_legacy_refuted : exists spq ts spb s0 e0 es,
  steps_per_bar (ch_rseq true spq ts s0 es) = Ok spb /\ canonical_chords s0 e0 es = true /\
  ch_from_quantized (ch_rseq true spq ts s0 es) s0 e0 <> Ok (mkChResult es s0 e0 spb spq).
Proof.
  (* 4 steps per quarter, 4/4, start_step 16, events C C G G *)
  exists 4, (mkTsig 0 4 4), 16, 16, 20, [[67]; [67]; [71]; [71]].
  split; [vm_compute; reflexivity|]. split; [vm_compute; reflexivity|].
  vm_compute. discriminate.
Qed.

(** * a non-trivial canonical value: start_step 8, N.C. C C Am Am G *)
Example chords_canonical_example :
  let es := [NO_CHORD; [67]; [67]; [65; 109]; [65; 109]; [71]] in
  let s := ch_rseq false 4 (mkTsig 0 3 4) 8 es in
  canonical_chords 8 14 es = true /\
  ch_to_step_texts false 8 es
    = [mkText 9 9 [67] CHORD_SYMBOL; mkText 11 11 [65; 109] CHORD_SYMBOL; mkText 13 13 [71] CHORD_SYMBOL] /\
  ch_from_quantized s 8 14 = Ok (mkChResult es 8 14 12 4).
Proof. vm_compute. repeat split; reflexivity. Qed.
