(** Proofs/Lookback.v — LookbackEventSequenceEncoderDecoder (C08): the label at
    every position decodes to the event there, documented precedence, label
    range, totality of the generation loop, round trip, input layout.
    Generic in the event type, its equality, the wrapped one-hot encoding, the
    lookback distances (any list of positive integers: sorted or not, with
    duplicates, longer than the sequence, empty) and the counter width. *)
From Coq Require Import ZArith List Bool Lia ZifyBool.
From NS Require Import Model.EncDec Model.Lookback Proofs.EncDec.
Import ListNotations.
Local Open Scope Z_scope.
Ltac Zify.zify_post_hook ::= Z.to_euclidean_division_equations.

(** * reversed(list(enumerate(ds))) by snoc-induction *)
Lemma combine_snoc {A B} (l1 : list A) (l2 : list B) a b :
  length l1 = length l2 -> combine (l1 ++ [a]) (l2 ++ [b]) = combine l1 l2 ++ [(a, b)].
Proof.
  revert l2; induction l1 as [|x l1 IH]; intros [|y l2] H; cbn in *; try discriminate; auto.
  f_equal. apply IH. lia.
Qed.

Lemma enumerate_snoc {A} (l : list A) d : enumerate (l ++ [d]) = enumerate l ++ [(zlen l, d)].
Proof.
  unfold enumerate. rewrite zlen_app. change (zlen [d]) with 1.
  rewrite zrange_succ by apply zlen_nonneg.
  apply combine_snoc. rewrite zrange_length. unfold zlen. lia.
Qed.

Lemma rev_enum_snoc {A} (l : list A) d : rev (enumerate (l ++ [d])) = (zlen l, d) :: rev (enumerate l).
Proof. rewrite enumerate_snoc, rev_app_distr. reflexivity. Qed.

Lemma rev_enum_nil {A} : rev (enumerate (@nil A)) = [].
Proof. reflexivity. Qed.

Lemma nth_error_snoc_last {A} (l : list A) d : nth_error (l ++ [d]) (length l) = Some d.
Proof. rewrite nth_error_app2, Nat.sub_diag by lia. reflexivity. Qed.

Lemma py_nth_last {A} (l : list A) d : py_nth (l ++ [d]) (-1) = Some d.
Proof.
  change (-1) with (- (1)).
  rewrite (py_nth_neg (l ++ [d]) 1) by (rewrite zlen_app; change (zlen [d]) with 1; pose proof (zlen_nonneg l); lia).
  rewrite zlen_app. change (zlen [d]) with 1.
  replace (Z.to_nat (zlen l + 1 - 1)) with (length l) by (unfold zlen; lia).
  apply nth_error_snoc_last.
Qed.

(** * The lookup of a repeat class: [lb_find] *)
Lemma lb_find_spec n (ds : list Z) c :
  lb_find n (rev (enumerate ds)) c =
  if (n <=? c) && (c <? n + zlen ds) then nth_error ds (Z.to_nat (c - n)) else None.
Proof.
  induction ds as [|d ds IH] using rev_ind.
  - cbn. destruct (_ && _); [|reflexivity]. now destruct (Z.to_nat (c - n)).
  - rewrite rev_enum_snoc. cbn [lb_find]. rewrite zlen_app. change (zlen [d]) with 1.
    pose proof (zlen_nonneg ds).
    destruct (c =? n + zlen ds) eqn:Hc.
    + destruct ((n <=? c) && (c <? n + (zlen ds + 1))) eqn:?; [|lia].
      replace (Z.to_nat (c - n)) with (length ds) by (unfold zlen in *; lia).
      now rewrite nth_error_snoc_last.
    + rewrite IH.
      destruct ((n <=? c) && (c <? n + zlen ds)) eqn:?;
        destruct ((n <=? c) && (c <? n + (zlen ds + 1))) eqn:?; try lia; try reflexivity.
      rewrite nth_error_app1 by (unfold zlen in *; lia). reflexivity.
Qed.

(** * The reversed scan: [lb_scan] *)
Section Scan.
  Variable E : Type.
  Variable eqb : E -> E -> bool.
  Hypothesis eqb_spec : forall a b, eqb a b = true <-> a = b.

  (* "position p repeats the event d steps back" *)
  Definition lb_match (es : list E) (p d : Z) : Prop :=
    d <= p /\ nth_error es (Z.to_nat (p - d)) = nth_error es (Z.to_nat p).

  (* what the scan returns: the LAST-LISTED matching distance, if any *)
  Definition scan_result (ds : list Z) (es : list E) (p : Z) (r : option Z) : Prop :=
    match r with
    | Some i =>
        0 <= i /\ (exists d, nth_error ds (Z.to_nat i) = Some d /\ lb_match es p d) /\
        forall j d', i < j -> nth_error ds (Z.to_nat j) = Some d' -> ~ lb_match es p d'
    | None => forall j d', nth_error ds j = Some d' -> ~ lb_match es p d'
    end.

  Lemma lb_scan_spec (ds : list Z) (es : list E) p a :
    Forall (fun d => 1 <= d) ds -> 0 <= p -> nth_error es (Z.to_nat p) = Some a ->
    exists r, lb_scan E eqb (rev (enumerate ds)) es p = Some r /\ scan_result ds es p r.
  Proof.
    intros Hpos Hp Ha. induction ds as [|d ds IH] using rev_ind.
    - exists None. split; [reflexivity|]. intros j d' Hj. now destruct j.
    - apply Forall_app in Hpos. destruct Hpos as [Hpos Hd]. inversion Hd as [|? ? Hd1 _]; subst.
      destruct (IH Hpos) as (r & Hr & Hspec). clear IH.
      rewrite rev_enum_snoc. cbn [lb_scan]. pose proof (zlen_nonneg ds) as Hk.
      assert (Hlast : nth_error (ds ++ [d]) (Z.to_nat (zlen ds)) = Some d).
      { replace (Z.to_nat (zlen ds)) with (length ds) by (unfold zlen; lia). apply nth_error_snoc_last. }
      destruct (p - d <? 0) eqn:Hlp.
      + (* too close to the start: skipped *)
        exists r. split; [exact Hr|].
        assert (Hno : ~ lb_match es p d) by (unfold lb_match; lia).
        destruct r as [i|]; cbn in *.
        * destruct Hspec as (Hi & (d0 & Hd0 & Hm) & Hlater).
          assert (Z.to_nat i < length ds)%nat by (apply nth_error_Some; congruence).
          split; [exact Hi|]. split.
          -- exists d0. rewrite nth_error_app1 by lia. auto.
          -- intros j d' Hj Hn.
             destruct (Z_lt_dec j (zlen ds)).
             ++ rewrite nth_error_app1 in Hn by (unfold zlen in *; lia). eauto.
             ++ assert (Z.to_nat j = length ds).
                { assert (nth_error (ds ++ [d]) (Z.to_nat j) <> None) as Hs by congruence.
                  apply nth_error_Some in Hs. rewrite app_length in Hs; cbn in Hs. unfold zlen in *; lia. }
                rewrite H0, nth_error_snoc_last in Hn. inversion Hn; subst. exact Hno.
        * intros j d' Hn. destruct (Nat.lt_ge_cases j (length ds)).
          -- rewrite nth_error_app1 in Hn by lia. eauto.
          -- assert (j = length ds).
             { assert (nth_error (ds ++ [d]) j <> None) as Hs by congruence.
               apply nth_error_Some in Hs. rewrite app_length in Hs; cbn in Hs. lia. }
             subst. rewrite nth_error_snoc_last in Hn. inversion Hn; subst. exact Hno.
      + rewrite (py_nth_pos es p), Ha by lia. cbn [bind].
        assert (Hb : exists b, nth_error es (Z.to_nat (p - d)) = Some b).
        { destruct (nth_error es (Z.to_nat (p - d))) eqn:Hb; [eauto|].
          apply nth_error_None in Hb. assert (nth_error es (Z.to_nat p) <> None) as Hs by congruence.
          apply nth_error_Some in Hs. lia. }
        destruct Hb as (b & Hb). rewrite (py_nth_pos es (p - d)), Hb by lia. cbn [bind].
        destruct (eqb a b) eqn:Hab.
        * (* the last-listed distance matches: it wins *)
          apply eqb_spec in Hab; subst b.
          exists (Some (zlen ds)). split; [reflexivity|]. cbn. split; [lia|]. split.
          -- exists d. split; [exact Hlast|]. unfold lb_match. split; [lia|congruence].
          -- intros j d' Hj Hn.
             assert (nth_error (ds ++ [d]) (Z.to_nat j) <> None) as Hs by congruence.
             apply nth_error_Some in Hs. rewrite app_length in Hs; cbn in Hs. unfold zlen in *; lia.
        * assert (Hno : ~ lb_match es p d).
          { unfold lb_match. intros [_ Hm]. rewrite Hb, Ha in Hm. inversion Hm; subst.
            assert (eqb a a = true) by now apply eqb_spec. congruence. }
          exists r. split; [exact Hr|].
          destruct r as [i|]; cbn in *.
          -- destruct Hspec as (Hi & (d0 & Hd0 & Hm) & Hlater).
             assert (Z.to_nat i < length ds)%nat by (apply nth_error_Some; congruence).
             split; [exact Hi|]. split.
             ++ exists d0. rewrite nth_error_app1 by lia. auto.
             ++ intros j d' Hj Hn.
                destruct (Z_lt_dec j (zlen ds)).
                ** rewrite nth_error_app1 in Hn by (unfold zlen in *; lia). eauto.
                ** assert (Z.to_nat j = length ds).
                   { assert (nth_error (ds ++ [d]) (Z.to_nat j) <> None) as Hs by congruence.
                     apply nth_error_Some in Hs. rewrite app_length in Hs; cbn in Hs. unfold zlen in *; lia. }
                   rewrite H0, nth_error_snoc_last in Hn. inversion Hn; subst. exact Hno.
          -- intros j d' Hn. destruct (Nat.lt_ge_cases j (length ds)).
             ++ rewrite nth_error_app1 in Hn by lia. eauto.
             ++ assert (j = length ds).
                { assert (nth_error (ds ++ [d]) j <> None) as Hs by congruence.
                  apply nth_error_Some in Hs. rewrite app_length in Hs; cbn in Hs. lia. }
                subst. rewrite nth_error_snoc_last in Hn. inversion Hn; subst. exact Hno.
  Qed.
End Scan.

Lemma py_nth_m1_cases {A} (l : list A) :
  (l = [] /\ py_nth l (-1) = None) \/ (exists l' d, l = l' ++ [d] /\ py_nth l (-1) = Some d).
Proof.
  induction l as [|d l' _] using rev_ind; [left; split; reflexivity|].
  right. exists l', d. split; [reflexivity|apply py_nth_last].
Qed.

Lemma Forall_nth_error {A} (P : A -> Prop) l k x : Forall P l -> nth_error l k = Some x -> P x.
Proof. intros H Hn. apply nth_error_In in Hn. rewrite Forall_forall in H. auto. Qed.

Lemma nth_error_zlen {A} (l : list A) k x : nth_error l k = Some x -> Z.of_nat k < zlen l.
Proof.
  intros H. assert (nth_error l k <> None) as Hs by congruence. apply nth_error_Some in Hs. unfold zlen; lia.
Qed.

(** * The encoder *)
Section Lookback.
  Variable E : Type.
  Variable eqb : E -> E -> bool.
  Variable n : Z.
  Variable enc : E -> option Z.
  Variable dec : Z -> option E.
  Variable dflt : E.
  Variable dists : list Z.
  Hypothesis eqb_spec : forall a b, eqb a b = true <-> a = b.
  (* the wrapped OneHotEncoding is a bijection onto [0, n) on the valid events (property C09) *)
  Variable valid : E -> Prop.
  Hypothesis enc_ok : forall e, valid e -> exists c, enc e = Some c /\ 0 <= c < n /\ dec c = Some e.
  Hypothesis dists_pos : Forall (fun d => 1 <= d) dists.

  Let label := lb_label E eqb n enc dflt dists.
  Let decode := lb_decode E n dec dflt dists.

  (* "position < lookback_distances[-1] and events[position] == default_event" *)
  Definition lb_init_cond (a : E) (p : Z) : Prop :=
    exists ds' dl, dists = ds' ++ [dl] /\ p < dl /\ a = dflt.

  (** The label the code returns, in full: the initial-default rule first, then
      the LAST-LISTED matching lookback (for an increasing list: the farthest),
      the plain one-hot class only if no lookback matches. *)
  Theorem lookback_precedence es p a :
    0 <= p -> nth_error es (Z.to_nat p) = Some a -> valid a ->
    exists l, label es p = Some l /\
      ((lb_init_cond a p /\ l = n + zlen dists - 1) \/
       (~ lb_init_cond a p /\
        exists r, scan_result E dists es p r /\
                  match r with Some i => l = n + i | None => enc a = Some l end)).
  Proof.
    intros Hp Ha Hv. unfold label, lb_label, lb_initial_default.
    set (rest := bind (lb_scan E eqb (lb_rev_enum dists) es p) _).
    destruct (lb_scan_spec E eqb eqb_spec dists es p a dists_pos Hp Ha) as (r & Hr & Hspec).
    destruct (enc_ok a Hv) as (c & Hc & Hcr & Hdc).
    assert (Hfin : ~ lb_init_cond a p ->
       exists l, rest = Some l /\
                 ((lb_init_cond a p /\ l = n + zlen dists - 1) \/
                  (~ lb_init_cond a p /\ exists r, scan_result E dists es p r /\
                     match r with Some i => l = n + i | None => enc a = Some l end))).
    { intros Hni. unfold rest, lb_rev_enum. rewrite Hr. cbn [bind]. destruct r as [i|].
      - exists (n + i). split; [reflexivity|]. right. split; [exact Hni|]. exists (Some i). auto.
      - rewrite (py_nth_pos es p), Ha by lia. cbn [bind]. exists c. split; [exact Hc|].
        right. split; [exact Hni|]. exists None. auto. }
    clearbody rest.
    destruct (py_nth_m1_cases dists) as [[Hnil Hm1]|(ds' & dl & Hsn & Hm1)]; rewrite Hm1.
    - cbn [bind]. apply Hfin. intros (ds'' & dl' & H & _). rewrite Hnil in H. now destruct ds''.
    - destruct (p <? dl) eqn:Hlt.
      + rewrite (py_nth_pos es p), Ha by lia. cbn [bind].
        destruct (eqb a dflt) eqn:Hd.
        * apply eqb_spec in Hd. exists (n + lb_k dists - 1). split; [reflexivity|]. left.
          split; [|reflexivity]. exists ds', dl. split; [exact Hsn|]. split; [lia|exact Hd].
        * apply Hfin. intros (ds'' & dl' & H & _ & Hd'). apply eqb_spec in Hd'. congruence.
      + cbn [bind]. apply Hfin. intros (ds'' & dl' & H & Hlt' & _).
        rewrite Hsn in H. apply app_inj_tail in H. destruct H as [_ <-]. lia.
  Qed.

  (** The label at position p, decoded against the events before p, is the event at p. *)
  Theorem lookback_decode_label es p a :
    0 <= p -> nth_error es (Z.to_nat p) = Some a -> valid a ->
    exists l, label es p = Some l /\ 0 <= l < lb_num_classes n dists /\
              decode l (firstn (Z.to_nat p) es) = Some a.
  Proof.
    intros Hp Ha Hv.
    destruct (lookback_precedence es p a Hp Ha Hv) as (l & Hl & Hcases).
    exists l. split; [exact Hl|].
    pose proof (zlen_nonneg dists) as Hk.
    pose proof (nth_error_zlen _ _ _ Ha) as Hplen.
    assert (Hflen : zlen (firstn (Z.to_nat p) es) = p) by (apply zlen_firstn; lia).
    assert (Hn0 : 0 <= n) by (destruct (enc_ok a Hv) as (? & _ & ? & _); lia).
    unfold decode, lb_decode, lb_rev_enum, lb_num_classes, lb_k. rewrite lb_find_spec.
    destruct Hcases as [[(ds' & dl & Hsn & Hlt & Hd) Hlv] | [Hni (r & Hspec & Hr)]].
    - (* initial default *)
      assert (Hkk : zlen dists = zlen ds' + 1) by (rewrite Hsn, zlen_app; reflexivity).
      pose proof (zlen_nonneg ds').
      split; [lia|].
      destruct ((n <=? l) && (l <? n + zlen dists)) eqn:?; [|lia].
      replace (Z.to_nat (l - n)) with (length ds') by (unfold zlen in *; lia).
      rewrite Hsn at 1. rewrite nth_error_snoc_last.
      rewrite Hflen. destruct (p <? dl) eqn:?; [|lia]. congruence.
    - destruct r as [i|].
      + (* a lookback matched *)
        cbn in Hspec. destruct Hspec as (Hi & (d & Hd & Hle & Hm) & _). subst l.
        pose proof (nth_error_zlen _ _ _ Hd).
        split; [lia|].
        destruct ((n <=? n + i) && (n + i <? n + zlen dists)) eqn:?; [|lia].
        replace (n + i - n) with i by lia. rewrite Hd.
        pose proof (Forall_nth_error _ _ _ _ dists_pos Hd) as Hd1. cbn in Hd1.
        rewrite Hflen. destruct (p <? d) eqn:?; [lia|].
        rewrite py_nth_neg by lia. rewrite Hflen.
        rewrite nth_error_firstn by lia. congruence.
      + (* the plain class *)
        destruct (enc_ok a Hv) as (c & Hc & Hcr & Hdc). rewrite Hc in Hr. inversion Hr; subst l.
        split; [lia|].
        destruct ((n <=? c) && (c <? n + zlen dists)) eqn:?; [lia|]. exact Hdc.
  Qed.

  Corollary lookback_label_range es p a l :
    0 <= p -> nth_error es (Z.to_nat p) = Some a -> valid a ->
    label es p = Some l -> 0 <= l < lb_num_classes n dists.
  Proof.
    intros Hp Ha Hv Hl. destruct (lookback_decode_label es p a Hp Ha Hv) as (l' & Hl' & Hr & _).
    unfold label in *. congruence.
  Qed.

  (** Every in-range class index decodes against every history. *)
  Theorem lookback_decode_total l evs :
    (forall c, 0 <= c < n -> dec c <> None) ->
    0 <= l < lb_num_classes n dists -> decode l evs <> None.
  Proof.
    intros Hdec Hl. unfold decode, lb_decode, lb_rev_enum, lb_num_classes, lb_k in *. rewrite lb_find_spec.
    destruct ((n <=? l) && (l <? n + zlen dists)) eqn:Hin.
    - destruct (nth_error dists (Z.to_nat (l - n))) as [d|] eqn:Hd.
      + pose proof (Forall_nth_error _ _ _ _ dists_pos Hd) as Hd1. cbn in Hd1.
        destruct (zlen evs <? d) eqn:?; [discriminate|].
        rewrite py_nth_neg by lia.
        intros Hnone. apply nth_error_None in Hnone. unfold zlen in *. lia.
      + apply nth_error_None in Hd. unfold zlen in *. lia.
    - apply Hdec. lia.
  Qed.

  (* out-of-range class indices fall through to the wrapped decoder *)
  Theorem lookback_decode_out_of_range l evs :
    (l < n \/ lb_num_classes n dists <= l) -> decode l evs = dec l.
  Proof.
    intros Hl. unfold decode, lb_decode, lb_rev_enum, lb_num_classes, lb_k in *. rewrite lb_find_spec.
    destruct ((n <=? l) && (l <? n + zlen dists)) eqn:Hin; [lia|reflexivity].
  Qed.

  (** default_event_label is an in-range class index that decodes, against any history, to the default event. *)
  Theorem lookback_default_label evs :
    valid dflt ->
    exists c, lb_default_label E enc dflt = Some c /\ 0 <= c < lb_num_classes n dists /\
              decode c evs = Some dflt.
  Proof.
    intros Hv. destruct (enc_ok dflt Hv) as (c & Hc & Hr & Hd). exists c.
    pose proof (zlen_nonneg dists). unfold lb_default_label, lb_num_classes, lb_k.
    split; [exact Hc|]. split; [lia|].
    rewrite lookback_decode_out_of_range by (left; lia). exact Hd.
  Qed.

  Variable steps : E -> Z.
  Variable bits : Z.

  Theorem lookback_generation_total ls evs :
    (forall c, 0 <= c < n -> dec c <> None) ->
    Forall (fun l => 0 <= l < lb_num_classes n dists) ls ->
    (exists out, generate decode ls evs = Some out /\ length out = (length evs + length ls)%nat) /\
    (exists g, generate decode ls [] = Some g /\ length g = length ls /\
               steps_by_generation decode steps ls = Some (zsum (map steps g))).
  Proof.
    intros Hdec Hg.
    assert (Ht : forall evs0, generate decode ls evs0 <> None).
    { intros evs0. apply (generate_total _ (fun l => 0 <= l < lb_num_classes n dists)); auto.
      intros l0 evs1 Hl0. now apply lookback_decode_total. }
    split.
    - destruct (generate decode ls evs) as [out|] eqn:Hgen; [|now apply Ht in Hgen].
      exists out. split; [reflexivity|]. now apply generate_extends in Hgen.
    - destruct (generate decode ls []) as [g|] eqn:Hgen; [|now apply Ht in Hgen].
      exists g. split; [reflexivity|]. split; [now apply generate_extends in Hgen|].
      unfold steps_by_generation. now rewrite Hgen.
  Qed.

  (** Decoding the labels [encode] produced reconstructs the sequence. *)
  Theorem lookback_roundtrip es ins labs :
    Forall valid es ->
    encode (lb E eqb n enc dec dflt steps dists bits) es = Some (ins, labs) ->
    generate decode labs (firstn 1 es) = Some es.
  Proof.
    intros Hv Henc.
    apply (roundtrip_generic (lb E eqb n enc dec dflt steps dists bits) es ins labs Henc).
    intros p Hp.
    destruct (nth_error es (Z.to_nat p)) as [a|] eqn:Ha.
    2:{ apply nth_error_None in Ha. unfold zlen in *. lia. }
    assert (valid a) as Hva by (eapply Forall_nth_error; eauto).
    destruct (lookback_decode_label es p a ltac:(lia) Ha Hva) as (l & Hl & _ & Hd).
    exists l, a. cbn [ed_label ed_decode lb]. auto.
  Qed.
End Lookback.
