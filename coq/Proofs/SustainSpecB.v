(** Proofs/SustainSpecB.v — C14: exact effect of the loops of the state machine
    on an active list without repetitions. *)
From Coq Require Import ZArith List Bool Lia ZifyBool Permutation.
From NS Require Import Base.NoteSeq Gen.G14 Model.Sustain Proofs.Sustain.
Import ListNotations.
Local Open Scope Z_scope.
Ltac Zify.zify_post_hook ::= Z.to_euclidean_division_equations.

Definition set_cell (c : cell) (t : Z) : cell := mkCell (set_end (c_n c) t) (c_alive c).

Lemma set_end_at_nth_eq : forall cs a t, (a < length cs)%nat ->
  nth a (set_end_at cs a t) dummy_cell = set_cell (nth a cs dummy_cell) t.
Proof. intros. unfold set_end_at. rewrite upd_nth_eq by assumption. reflexivity. Qed.

Lemma cell_at_set_end_at_neq : forall cs a b t, a <> b -> cell_at (set_end_at cs a t) b = cell_at cs b.
Proof. intros. unfold cell_at. rewrite set_end_at_nth_neq by assumption. reflexivity. Qed.

Lemma set_end_at_length : forall cs a t, length (set_end_at cs a t) = length cs.
Proof. intros. apply upd_length. Qed.

Definition off_cond (i t : Z) (cs : list cell) (a : nat) : bool :=
  (n_instr (cell_at cs a) =? i) && (n_end (cell_at cs a) <? t).

Lemma off_loop_char : forall i t act cs tot,
  NoDup act -> (forall a, In a act -> (a < length cs)%nat) ->
  fst (fst (off_loop i t act cs tot)) = filter (fun a => negb (off_cond i t cs a)) act /\
  (forall j, In j act -> off_cond i t cs j = true ->
     nth j (snd (fst (off_loop i t act cs tot))) dummy_cell = set_cell (nth j cs dummy_cell) t) /\
  (forall j, ~ (In j act /\ off_cond i t cs j = true) ->
     nth j (snd (fst (off_loop i t act cs tot))) dummy_cell = nth j cs dummy_cell).
Proof.
  induction act as [|a act IH]; intros cs tot ND RG; cbn [off_loop filter fst snd].
  - split; [reflexivity|]. split; [intros j [] | reflexivity].
  - inversion ND as [|a' l' NI ND']; subst.
    assert (RG' : forall b, In b act -> (b < length cs)%nat) by (intros; apply RG; right; assumption).
    unfold off_cond at 1. destruct (n_instr (cell_at cs a) =? i) eqn:E1; [destruct (n_end (cell_at cs a) <? t) eqn:E2|]; cbn [andb negb].
    + (* a is released *)
      set (cs1 := set_end_at cs a t).
      assert (SAME : forall b, b <> a -> off_cond i t cs1 b = off_cond i t cs b).
      { intros b Hb. unfold off_cond, cs1. rewrite cell_at_set_end_at_neq by congruence. reflexivity. }
      destruct (IH cs1 (if tot <? t then t else tot) ND') as [A [B C]].
      { intros b Hb. unfold cs1. rewrite set_end_at_length. apply RG'. exact Hb. }
      split; [|split].
      * rewrite A. apply filter_ext_in. intros b Hb. rewrite SAME; [reflexivity | intros ->; contradiction].
      * intros j [<-|Hj] Cj.
        -- rewrite C by (intros [X _]; contradiction). apply set_end_at_nth_eq. apply RG. left. reflexivity.
        -- assert (j <> a) by (intros ->; contradiction).
           rewrite B; [|exact Hj | rewrite SAME; assumption]. unfold cs1. rewrite set_end_at_nth_neq by congruence. reflexivity.
      * intros j Hj. assert (j <> a).
        { intros ->. apply Hj. split; [left; reflexivity|]. unfold off_cond. rewrite E1, E2. reflexivity. }
        rewrite C.
        -- unfold cs1. apply set_end_at_nth_neq. congruence.
        -- intros [X Y]. apply Hj. split; [right; exact X|]. rewrite <- SAME; assumption.
    + destruct (IH cs tot ND' RG') as [A [B C]]. destruct (off_loop i t act cs tot) as [[k c] o]. cbn [fst snd] in *.
      split; [rewrite A; reflexivity|]. split.
      * intros j [<-|Hj] Cj; [unfold off_cond in Cj; rewrite E1, E2 in Cj; discriminate | apply B; assumption].
      * intros j Hj. apply C. intros [X Y]. apply Hj. split; [right; exact X | exact Y].
    + destruct (IH cs tot ND' RG') as [A [B C]]. destruct (off_loop i t act cs tot) as [[k c] o]. cbn [fst snd] in *.
      split; [rewrite A; reflexivity|]. split.
      * intros j [<-|Hj] Cj; [unfold off_cond in Cj; rewrite E1 in Cj; discriminate | apply B; assumption].
      * intros j Hj. apply C. intros [X Y]. apply Hj. split; [right; exact X | exact Y].
Qed.

Definition on_cond (i p : Z) (cs : list cell) (a : nat) : bool :=
  (n_instr (cell_at cs a) =? i) && (n_pitch (cell_at cs a) =? p).

Lemma on_loop_char : forall i p t act cs,
  NoDup act -> (forall a, In a act -> (a < length cs)%nat) ->
  (forall a, In a act -> on_cond i p cs a = true -> n_start (cell_at cs a) <> t) ->
  fst (on_loop i p t act cs) = filter (fun a => negb (on_cond i p cs a)) act /\
  (forall j, In j act -> on_cond i p cs j = true ->
     nth j (snd (on_loop i p t act cs)) dummy_cell = set_cell (nth j cs dummy_cell) t) /\
  (forall j, ~ (In j act /\ on_cond i p cs j = true) ->
     nth j (snd (on_loop i p t act cs)) dummy_cell = nth j cs dummy_cell).
Proof.
  induction act as [|a act IH]; intros cs ND RG NK; cbn [on_loop filter fst snd].
  - split; [reflexivity|]. split; [intros j [] | reflexivity].
  - inversion ND as [|a' l' NI ND']; subst.
    assert (RG' : forall b, In b act -> (b < length cs)%nat) by (intros; apply RG; right; assumption).
    assert (NK' : forall b, In b act -> on_cond i p cs b = true -> n_start (cell_at cs b) <> t)
      by (intros; apply NK; [right|]; assumption).
    unfold on_cond at 1. destruct (n_instr (cell_at cs a) =? i) eqn:E1; [destruct (n_pitch (cell_at cs a) =? p) eqn:E2|]; cbn [andb negb].
    + assert (n_start (cell_at cs a) <> t) as NS.
      { apply NK; [left; reflexivity|]. unfold on_cond. rewrite E1, E2. reflexivity. }
      destruct (n_start (cell_at cs a) =? t) eqn:E3; [lia|].
      set (cs1 := set_end_at cs a t).
      assert (SAMEC : forall b, b <> a -> cell_at cs1 b = cell_at cs b).
      { intros b Hb. unfold cs1. apply cell_at_set_end_at_neq. congruence. }
      assert (SAME : forall b, b <> a -> on_cond i p cs1 b = on_cond i p cs b).
      { intros b Hb. unfold on_cond. rewrite SAMEC by exact Hb. reflexivity. }
      destruct (IH cs1 ND') as [A [B C]].
      { intros b Hb. unfold cs1. rewrite set_end_at_length. apply RG'. exact Hb. }
      { intros b Hb Cb. assert (b <> a) by (intros ->; contradiction).
        rewrite SAMEC by assumption. apply NK'; [exact Hb|]. rewrite <- SAME; assumption. }
      split; [|split].
      * rewrite A. apply filter_ext_in. intros b Hb. rewrite SAME; [reflexivity | intros ->; contradiction].
      * intros j [<-|Hj] Cj.
        -- rewrite C by (intros [X _]; contradiction). apply set_end_at_nth_eq. apply RG. left. reflexivity.
        -- assert (j <> a) by (intros ->; contradiction).
           rewrite B; [|exact Hj | rewrite SAME; assumption]. unfold cs1. rewrite set_end_at_nth_neq by congruence. reflexivity.
      * intros j Hj. assert (j <> a).
        { intros ->. apply Hj. split; [left; reflexivity|]. unfold on_cond. rewrite E1, E2. reflexivity. }
        rewrite C.
        -- unfold cs1. apply set_end_at_nth_neq. congruence.
        -- intros [X Y]. apply Hj. split; [right; exact X|]. rewrite <- SAME; assumption.
    + destruct (IH cs ND' RG' NK') as [A [B C]]. destruct (on_loop i p t act cs) as [k c]. cbn [fst snd] in *.
      split; [rewrite A; reflexivity|]. split.
      * intros j [<-|Hj] Cj; [unfold on_cond in Cj; rewrite E1, E2 in Cj; discriminate | apply B; assumption].
      * intros j Hj. apply C. intros [X Y]. apply Hj. split; [right; exact X | exact Y].
    + destruct (IH cs ND' RG' NK') as [A [B C]]. destruct (on_loop i p t act cs) as [k c]. cbn [fst snd] in *.
      split; [rewrite A; reflexivity|]. split.
      * intros j [<-|Hj] Cj; [unfold on_cond in Cj; rewrite E1 in Cj; discriminate | apply B; assumption].
      * intros j Hj. apply C. intros [X Y]. apply Hj. split; [right; exact X | exact Y].
Qed.

Lemma close_char : forall t act cs tot,
  NoDup act -> (forall a, In a act -> (a < length cs)%nat) ->
  forall j, In j act -> nth j (fst (close t act cs tot)) dummy_cell = set_cell (nth j cs dummy_cell) t.
Proof.
  induction act as [|a act IH]; intros cs tot ND RG j Hj; [contradiction|]. cbn [close].
  inversion ND as [|a' l' NI ND']; subst. destruct Hj as [<-|Hj].
  - rewrite close_other by exact NI. apply set_end_at_nth_eq. apply RG. left. reflexivity.
  - assert (j <> a) by (intros ->; contradiction).
    rewrite IH; auto.
    + rewrite set_end_at_nth_neq by congruence. reflexivity.
    + intros b Hb. rewrite set_end_at_length. apply RG. right. exact Hb.
Qed.

Lemma remove_first_eq_unique : forall cs k act,
  NoDup act -> In k act -> (forall a, In a act -> cell_at cs a = cell_at cs k -> a = k) ->
  (forall a, In a (remove_first_eq cs (cell_at cs k) act) <-> In a act /\ a <> k) /\
  NoDup (remove_first_eq cs (cell_at cs k) act).
Proof.
  induction act as [|b act IH]; intros ND Hk U; [contradiction|]. cbn [remove_first_eq].
  inversion ND as [|b' l' NI ND']; subst.
  destruct (note_eqb (cell_at cs b) (cell_at cs k)) eqn:E.
  - apply note_eqb_eq in E. assert (b = k) by (apply U; [left; reflexivity | exact E]). subst b.
    split; [|exact ND']. intros a. split.
    + intros Ha. split; [right; exact Ha | intros ->; contradiction].
    + intros [[<-|Ha] N]; [congruence | exact Ha].
  - assert (b <> k) by (intros ->; rewrite note_eqb_refl in E; discriminate).
    destruct Hk as [->|Hk]; [congruence|].
    destruct (IH ND' Hk) as [A B]. { intros a Ha. apply U. right. exact Ha. }
    split.
    + intros a. cbn [In]. rewrite A. split.
      * intros [<-|[X Y]]; [split; [left; reflexivity | exact H] | split; [right; exact X | exact Y]].
      * intros [[<-|X] Y]; [left; reflexivity | right; split; assumption].
    + constructor; [|exact B]. intros C. apply A in C. destruct C as [C _]. contradiction.
Qed.

Lemma remove_first_eq_none : forall cs v act,
  (forall a, In a act -> cell_at cs a <> v) -> remove_first_eq cs v act = act.
Proof.
  induction act; intros; cbn [remove_first_eq]; auto.
  destruct (note_eqb (cell_at cs a) v) eqn:E.
  - apply note_eqb_eq in E. exfalso. apply (H a (or_introl eq_refl) E).
  - f_equal. apply IHact. intros; apply H; right; assumption.
Qed.
