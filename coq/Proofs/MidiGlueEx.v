(** Proofs/MidiGlueEx.v — concrete witnesses for C03: non-vacuity, the code
    before notes/C03-fix-2.diff loses notes (F9), an inexact channel (F19)
    changes the tempo. *)
From Coq Require Import ZArith List Bool Lia.
From NS Require Import Base.NoteSeq Gen.G03 Model.TempoMap Model.MidiGlue Proofs.TempoMap Proofs.MidiGlue.
Import ListNotations.
Local Open Scope Z_scope.

Definition sec220 : Z := 220000000.

(** three groups on instrument 0 + one on instrument 2, two tempos stored out of
    time order, off-grid times, a minor key *)
Definition ex_seq : seq :=
  mkSeq [mkNote 60 80 (sec220 / 2 + 7) sec220 0 0 false 0 0 0;
         mkNote 62 81 (sec220 / 2) (sec220 + 13) 0 5 false 0 0 0;
         mkNote 36 82 (sec220 / 2) sec220 0 0 true 0 0 0;
         mkNote 64 83 (3 * sec220) (4 * sec220 + 1) 2 33 false 0 0 0]
        [mkTempo (2 * sec220 + 5) 600000; mkTempo 0 400000]
        [mkTsig 0 6 8] [mkKsig 0 9 1] []
        [mkCc sec220 0 64 127 0 5 false; mkCc sec220 0 64 127 7 0 false]
        [mkBend (sec220 + 3) (-100) 2 33 false] []
        (4 * sec220 + 1) 0 0 0 (0, 0) 220 0.

Lemma ex_valid : valid ex_seq = true.
Proof. vm_compute. reflexivity. Qed.

Lemma ex_chan_exact : chan_exact (fun x => x) ex_seq.
Proof. intros us _. reflexivity. Qed.

(** the round trip of [ex_seq]: 4 notes in 4 instruments, the cc of the note-less
    instrument 7 is gone, the other one and the bend are kept *)
Lemma ex_roundtrip :
  match roundtrip (fun x => x) ex_seq with
  | Some out =>
      map (fun n => (n_instr n, n_prog n, n_drum n, n_pitch n, n_vel n)) (s_notes out) =
        [(0, 0, false, 60, 80); (1, 0, true, 36, 82); (2, 5, false, 62, 81); (3, 33, false, 64, 83)] /\
      map (fun c => (cc_instr c, cc_num c, cc_val c)) (s_ccs out) = [(2, 64, 127)] /\
      map (fun b => (pb_instr b, pb_bend b)) (s_bends out) = [(3, -100)] /\
      map (fun k => (ks_key k, ks_mode k)) (s_ksigs out) = [(9, 1)] /\
      map tp_qpm (s_tempos out) = [400000; 600000]
  | None => False
  end.
Proof. vm_compute. repeat split. Qed.

(** F9: with the code as it was before notes/C03-fix-2.diff the three groups on
    instrument 0 share the single pre-created Instrument; only the last survives *)
Lemma f9_old_code_loses_notes :
  exists s out, valid s = true /\ chan_exact (fun x => x) s /\
    read (pm_roundtrip (fun x => x) (write_gen false s)) = Some out /\
    (length (s_notes out) < length (s_notes s))%nat.
Proof.
  exists ex_seq. eexists. split; [exact ex_valid|]. split; [exact ex_chan_exact|].
  split; [vm_compute; reflexivity|]. cbn. lia.
Qed.

(** F19: when the channel writes a tempo one microsecond short, the tempo read
    back is not the tempo written, and times drift *)
Definition f19_wr (us : Z) : Z := if us =? 819249 then 819248 else us.
Definition f19_seq : seq :=
  mkSeq [mkNote 60 80 sec220 (2 * sec220) 1 0 false 0 0 0] [mkTempo 0 819249] [] [] [] [] [] []
        (2 * sec220) 0 0 0 (0, 0) 220 0.

Lemma f19_inexact_channel_changes_tempo :
  exists wr s out, valid s = true /\ ~ chan_exact wr s /\ roundtrip wr s = Some out /\
    map tp_qpm (s_tempos out) <> map tp_qpm (s_tempos s) /\
    map n_end (s_notes out) <> map (fun n => snap_of s (n_end n)) (s_notes s).
Proof.
  exists f19_wr, f19_seq. eexists. split; [vm_compute; reflexivity|]. split.
  - intro H. specialize (H 819249 (or_introl eq_refl)). vm_compute in H. discriminate.
  - split; [vm_compute; reflexivity|]. split; vm_compute; discriminate.
Qed.

Lemma ex_nonvacuous :
  valid ex_seq = true /\ chan_exact (fun x => x) ex_seq /\
  match roundtrip (fun x => x) ex_seq with
  | Some out =>
      map (fun n => (n_instr n, n_prog n, n_drum n, n_pitch n, n_vel n)) (s_notes out) =
        [(0, 0, false, 60, 80); (1, 0, true, 36, 82); (2, 5, false, 62, 81); (3, 33, false, 64, 83)] /\
      map (fun c => (cc_instr c, cc_num c, cc_val c)) (s_ccs out) = [(2, 64, 127)] /\
      map (fun b => (pb_instr b, pb_bend b)) (s_bends out) = [(3, -100)] /\
      map (fun k => (ks_key k, ks_mode k)) (s_ksigs out) = [(9, 1)] /\
      map tp_qpm (s_tempos out) = [400000; 600000]
  | None => False
  end.
Proof. exact (conj ex_valid (conj ex_chan_exact ex_roundtrip)). Qed.
