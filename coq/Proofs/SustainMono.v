(** Proofs/SustainMono.v — C14, inputs inside the property's quantifier (no two
    notes of one pitch on one instrument overlap or start together, start <=
    end): no note is dropped and no note is shortened. *)
From Coq Require Import ZArith List Bool Lia ZifyBool Permutation.
From NS Require Import Base.NoteSeq Gen.G14 Model.Sustain Proofs.Sustain Proofs.SustainFrame.
Import ListNotations.
Local Open Scope Z_scope.
Ltac Zify.zify_post_hook ::= Z.to_euclidean_division_equations.

(** A cell is left alone or its end is moved forward to [t]; it stays alive. *)
Definition bumped (t : Z) (c c' : cell) : Prop :=
  c' = c \/ (c' = mkCell (set_end (c_n c) t) (c_alive c) /\ n_end (c_n c) <= t).

Lemma bumped_refl : forall t c, bumped t c c. Proof. left; reflexivity. Qed.

Lemma bumped_trans : forall t a b c, bumped t a b -> bumped t b c -> bumped t a c.
Proof.
  unfold bumped; intros t a b c [->|[-> H1]] [->|[-> H2]]; auto.
Qed.

Lemma set_end_at_bumped : forall cs a t j, n_end (cell_at cs a) <= t ->
  bumped t (nth j cs dummy_cell) (nth j (set_end_at cs a t) dummy_cell).
Proof.
  intros. destruct (Nat.eq_dec a j) as [->|N].
  - destruct (Nat.lt_ge_cases j (length cs)).
    + unfold set_end_at. rewrite upd_nth_eq by assumption. right. split; [reflexivity | exact H].
    + unfold set_end_at. rewrite upd_nth_ge by assumption. left; reflexivity.
  - rewrite set_end_at_nth_neq by exact N. left; reflexivity.
Qed.

Lemma off_loop_bumped : forall i t act cs tot j,
  bumped t (nth j cs dummy_cell) (nth j (snd (fst (off_loop i t act cs tot))) dummy_cell).
Proof.
  induction act; intros; cbn [off_loop]; [apply bumped_refl|].
  destruct (n_instr (cell_at cs a) =? i).
  - destruct (n_end (cell_at cs a) <? t) eqn:E.
    + eapply bumped_trans; [apply (set_end_at_bumped cs a t j); lia | apply IHact].
    + specialize (IHact cs tot j). destruct (off_loop i t act cs tot) as [[k c] o]. exact IHact.
  - specialize (IHact cs tot j). destruct (off_loop i t act cs tot) as [[k c] o]. exact IHact.
Qed.

Lemma close_bumped : forall t act cs tot j,
  (forall a, In a act -> n_end (cell_at cs a) <= t) ->
  bumped t (nth j cs dummy_cell) (nth j (fst (close t act cs tot)) dummy_cell).
Proof.
  induction act; intros; cbn [close]; [apply bumped_refl|].
  eapply bumped_trans; [apply (set_end_at_bumped cs a t j); apply H; left; reflexivity|].
  apply IHact. intros b Hb.
  pose proof (set_end_at_bumped cs a t b (H a (or_introl eq_refl))) as B. unfold cell_at.
  destruct B as [->|[-> _]]; [apply H; right; exact Hb | cbn; lia].
Qed.

Lemma on_loop_bumped : forall i p t act cs j,
  (forall a, In a act -> n_instr (cell_at cs a) = i -> n_pitch (cell_at cs a) = p ->
             n_start (cell_at cs a) <> t /\ n_end (cell_at cs a) <= t) ->
  bumped t (nth j cs dummy_cell) (nth j (snd (on_loop i p t act cs)) dummy_cell).
Proof.
  induction act; intros cs j H; cbn [on_loop]; [apply bumped_refl|].
  assert (H' : forall b, In b act -> n_instr (cell_at cs b) = i -> n_pitch (cell_at cs b) = p ->
               n_start (cell_at cs b) <> t /\ n_end (cell_at cs b) <= t)
    by (intros; apply H; [right|..]; assumption).
  destruct (n_instr (cell_at cs a) =? i) eqn:E1.
  - destruct (n_pitch (cell_at cs a) =? p) eqn:E2.
    + destruct (H a (or_introl eq_refl) (proj1 (Z.eqb_eq _ _) E1) (proj1 (Z.eqb_eq _ _) E2)) as [S1 S2].
      destruct (n_start (cell_at cs a) =? t) eqn:E3; [lia|].
      eapply bumped_trans; [apply (set_end_at_bumped cs a t j); exact S2 | apply IHact].
      intros b Hb Ib Pb.
      pose proof (sim_nth cs (set_end_at cs a t) b (sim_set_end_at cs a t)) as SS.
      apply strip_fields in SS. destruct SS as [Q1 [_ [Q3 [Q4 _]]]].
      rewrite Q1 in Pb. rewrite Q4 in Ib. rewrite Q3. split; [apply H'; assumption|].
      pose proof (set_end_at_bumped cs a t b S2) as B. unfold cell_at.
      destruct B as [->|[-> _]]; [apply H'; assumption | cbn; lia].
    + specialize (IHact cs j H'). destruct (on_loop i p t act cs) as [k c]. exact IHact.
  - specialize (IHact cs j H'). destruct (on_loop i p t act cs) as [k c]. exact IHact.
Qed.

(** * no_clash on indices *)
Lemma clash_sym : forall a b, clash a b = clash b a.
Proof.
  intros. unfold clash. destruct (n_drum a), (n_drum b); cbn [negb andb]; auto.
  rewrite (Z.eqb_sym (n_instr a)), (Z.eqb_sym (n_pitch a)), (Z.eqb_sym (n_start a) (n_start b)),
          (andb_comm (n_start a <? n_end b)). reflexivity.
Qed.

Lemma no_clash_nth : forall ns a b x y, no_clash ns = true ->
  nth_error ns a = Some x -> nth_error ns b = Some y -> a <> b -> clash x y = false.
Proof.
  induction ns; intros a0 b x y H Ha Hb N; [destruct a0; discriminate|].
  cbn [no_clash] in H. apply andb_true_iff in H. destruct H as [H1 H2]. rewrite forallb_forall in H1.
  destruct a0, b; cbn [nth_error] in *; try congruence.
  - injection Ha as <-. apply nth_error_In in Hb. specialize (H1 y Hb). destruct (clash a y); [discriminate|reflexivity].
  - injection Hb as <-. apply nth_error_In in Ha. specialize (H1 x Ha). rewrite clash_sym.
    destruct (clash a x); [discriminate|reflexivity].
  - apply (IHns a0 b); auto.
Qed.

(** * On-events have distinct references *)
Definition on_refs (l : list event) : list nat := map e_ref (filter is_on_ev l).

Lemma on_refs_perm : forall l l', Permutation l l' -> Permutation (on_refs l) (on_refs l').
Proof.
  unfold on_refs. induction 1; cbn [filter map].
  - reflexivity.
  - destruct (is_on_ev x); cbn [map]; [constructor|]; assumption.
  - destruct (is_on_ev x), (is_on_ev y); cbn [map]; try reflexivity; try apply perm_swap.
  - etransitivity; eassumption.
Qed.

Lemma NoDup_map_fst_filter_indexed : forall {A} (f : nat * A -> bool) (l : list A),
  NoDup (map fst (filter f (indexed l))).
Proof.
  intros. unfold indexed. generalize 0%nat. induction l; intros k; cbn; [constructor|].
  destruct (f (k, a)); cbn [map fst]; [|apply IHl].
  constructor; [|apply IHl].
  intros C. apply in_map_iff in C. destruct C as [[i x] [E C]]. cbn in E. subst i.
  apply filter_In in C. destruct C as [C _]. apply In_combine_seq in C. lia.
Qed.

Lemma filter_all : forall {A} (f : A -> bool) l, (forall x, In x l -> f x = true) -> filter f l = l.
Proof.
  induction l; intros; cbn [filter]; auto. rewrite (H a (or_introl eq_refl)). f_equal.
  apply IHl. intros; apply H; right; assumption.
Qed.

Lemma filter_none : forall {A} (f : A -> bool) l, (forall x, In x l -> f x = false) -> filter f l = [].
Proof.
  induction l; intros; cbn [filter]; auto. rewrite (H a (or_introl eq_refl)).
  apply IHl. intros; apply H; right; assumption.
Qed.

Lemma on_refs_build : forall ctl ns ccs, NoDup (on_refs (build_events ctl ns ccs)).
Proof.
  intros. unfold on_refs, build_events. rewrite !filter_app, !map_app.
  rewrite (filter_none is_on_ev (note_events KNoteOff n_end ns)).
  2:{ intros e H. apply note_events_In in H. destruct H as [n [_ [_ ->]]]. reflexivity. }
  rewrite (filter_none is_on_ev (cc_events ctl ccs)).
  2:{ intros e H. apply cc_events_kind in H. unfold is_on_ev. destruct H as [-> | ->]; reflexivity. }
  rewrite (filter_all is_on_ev (note_events KNoteOn n_start ns)).
  2:{ intros e H. apply note_events_In in H. destruct H as [n [_ [_ ->]]]. reflexivity. }
  cbn [map]. rewrite !app_nil_r. unfold note_events. rewrite map_map. cbn [e_ref].
  apply NoDup_map_fst_filter_indexed.
Qed.

Lemma sorted_time_le : forall e rest e', Forall (fun x => ev_lt x e = false) rest -> In e' rest -> e_time e <= e_time e'.
Proof. intros. rewrite Forall_forall in H. specialize (H e' H0). unfold ev_lt in H. lia. Qed.

Section Mono.
  Variable ns : list note.
  Hypothesis Hord : ordered_b ns = true.
  Hypothesis Hnc : no_clash ns = true.
  Variable T : Z.            (* an upper bound of all event times *)
  Let cs0 := init_cells ns.

  Record cells_ok (cs : list cell) (rest : list event) : Prop := {
    co_sim : sim cs0 cs;
    co_alive : forall j, c_alive (nth j cs dummy_cell) = c_alive (nth j cs0 dummy_cell);
    co_mono : forall j, n_end (cell_at cs0 j) <= n_end (cell_at cs j);
    co_past : forall j, n_end (cell_at cs j) = n_end (cell_at cs0 j) \/
                        forall e, In e rest -> n_end (cell_at cs j) <= e_time e;
    co_bound : forall j, n_end (cell_at cs j) = n_end (cell_at cs0 j) \/ n_end (cell_at cs j) <= T }.

  Definition act_ok (act : list nat) (rest : list event) : Prop :=
    forall a, In a act ->
      (exists n, nth_error ns a = Some n /\ n_drum n = false) /\
      (forall e, In e rest -> n_start (cell_at cs0 a) <= e_time e) /\
      ~ In a (on_refs rest).

  Lemma cells_ok_bumped : forall cs cs' e rest,
    cells_ok cs (e :: rest) -> Forall (fun x => ev_lt x e = false) rest -> e_time e <= T -> sim cs cs' ->
    (forall j, bumped (e_time e) (nth j cs dummy_cell) (nth j cs' dummy_cell)) ->
    cells_ok cs' rest.
  Proof.
    intros cs cs' e rest C Hle HT S B. constructor.
    - eapply sim_trans; [apply (co_sim _ _ C) | exact S].
    - intros j. rewrite <- (co_alive _ _ C j). destruct (B j) as [->|[-> _]]; reflexivity.
    - intros j. pose proof (co_mono _ _ C j) as M. unfold cell_at in *.
      destruct (B j) as [->|[-> L]]; [exact M | cbn; lia].
    - intros j. unfold cell_at in *. destruct (B j) as [->|[-> L]].
      + destruct (co_past _ _ C j) as [P|P]; [left; exact P | right; intros x Hx; apply P; right; exact Hx].
      + right. intros x Hx. cbn. apply (sorted_time_le e rest); assumption.
    - intros j. unfold cell_at in *. destruct (B j) as [->|[-> L]]; [apply (co_bound _ _ C j) | right; cbn; lia].
  Qed.

  Lemma cells_ok_tail : forall cs e rest,
    cells_ok cs (e :: rest) -> Forall (fun x => ev_lt x e = false) rest -> e_time e <= T -> cells_ok cs rest.
  Proof.
    intros. apply (cells_ok_bumped cs cs e rest); auto; [apply sim_refl | intros; apply bumped_refl].
  Qed.

  Lemma on_refs_cons_incl : forall e rest a, In a (on_refs rest) -> In a (on_refs (e :: rest)).
  Proof. unfold on_refs; intros. cbn [filter]. destruct (is_on_ev e); [right|]; exact H. Qed.

  Lemma act_ok_tail : forall act act' e rest, act_ok act (e :: rest) -> incl act' act -> act_ok act' rest.
  Proof.
    intros act act' e rest A IN a Ha. destruct (A a (IN a Ha)) as [A1 [A2 A3]].
    split; [exact A1|]. split.
    - intros x Hx. apply A2. right. exact Hx.
    - intros C. apply A3. apply on_refs_cons_incl. exact C.
  Qed.

  Record invM (s : st) (rest : list event) : Prop := {
    im_cells : cells_ok (cells s) rest;
    im_act : act_ok (active s) rest }.

  Lemma step_invM : forall s e rest,
    sorted (e :: rest) -> ev_wf ns e -> NoDup (on_refs (e :: rest)) -> e_time e <= T ->
    invM s (e :: rest) -> invM (step s e) rest.
  Proof.
    intros s e rest Hs Hwf Hnd HT [C A].
    inversion Hs as [|e' l Hle Hs']; subst.
    unfold step. unfold ev_wf in Hwf. destruct (e_kind e) eqn:K.
    - constructor; cbn [cells active].
      + apply (cells_ok_tail _ e); assumption.
      + apply (act_ok_tail _ _ e rest A). apply incl_refl.
    - pose proof (off_loop_sim (e_instr e) (e_time e) (active s) (cells s) (total s)) as S.
      pose proof (off_loop_incl (e_instr e) (e_time e) (active s) (cells s) (total s)) as IN.
      pose proof (off_loop_bumped (e_instr e) (e_time e) (active s) (cells s) (total s)) as B.
      destruct (off_loop _ _ _ _ _) as [[k c] o]. cbn [fst snd] in *.
      constructor; cbn [cells active].
      + apply (cells_ok_bumped (cells s) c e rest); assumption.
      + apply (act_ok_tail _ _ e rest A). exact IN.
    - destruct Hwf as [n [Nn [Dn [In_ Tn]]]].
      pose proof (cell_at_init _ _ _ Nn) as Cn. fold cs0 in Cn.
      assert (ON : is_on_ev e = true) by (unfold is_on_ev; rewrite K; reflexivity).
      assert (OR : on_refs (e :: rest) = e_ref e :: on_refs rest) by (unfold on_refs; cbn [filter]; rewrite ON; reflexivity).
      assert (NEW : act_ok [e_ref e] rest).
      { intros a [<-|[]]. split; [exists n; auto|]. split.
        - intros x Hx. rewrite Cn, <- Tn. apply (sorted_time_le e rest); assumption.
        - rewrite OR in Hnd. inversion Hnd; assumption. }
      assert (APP : forall k, act_ok k rest -> act_ok (k ++ [e_ref e]) rest).
      { intros k Hk a Ha. apply in_app_iff in Ha. destruct Ha as [Ha|Ha]; [apply Hk | apply NEW]; assumption. }
      destruct (is_sus _ _).
      + set (p := n_pitch (cell_at (cells s) (e_ref e))).
        assert (Pp : p = n_pitch n).
        { unfold p. pose proof (sim_nth _ _ (e_ref e) (co_sim _ _ C)) as Q. apply strip_fields in Q.
          destruct Q as [Q _]. rewrite Q, Cn. reflexivity. }
        pose proof (on_loop_sim (e_instr e) p (e_time e) (active s) (cells s)) as S.
        pose proof (on_loop_incl (e_instr e) p (e_time e) (active s) (cells s)) as IN.
        assert (B : forall j, bumped (e_time e) (nth j (cells s) dummy_cell)
                                     (nth j (snd (on_loop (e_instr e) p (e_time e) (active s) (cells s))) dummy_cell)).
        { intros j. apply on_loop_bumped. intros a Ha Ia Pa.
          destruct (A a Ha) as [[x [Nx Dx]] [A2 A3]].
          pose proof (cell_at_init _ _ _ Nx) as Cx. fold cs0 in Cx.
          pose proof (sim_nth _ _ a (co_sim _ _ C)) as Q. apply strip_fields in Q.
          destruct Q as [Q1 [_ [Q3 [Q4 _]]]]. rewrite Cx in Q1, Q3, Q4.
          assert (NA : a <> e_ref e). { intros ->. apply A3. rewrite OR. left. reflexivity. }
          pose proof (no_clash_nth ns a (e_ref e) x n Hnc Nx Nn NA) as CL.
          pose proof (A2 e (or_introl eq_refl)) as ST. rewrite Cx in ST.
          pose proof (ordered_b_nth _ _ _ Hord Nn Dn) as On.
          unfold clash in CL. rewrite Dx, Dn in CL. cbn [negb andb] in CL.
          assert (n_end x <= e_time e /\ n_start x <> e_time e) as [E1 E2] by lia.
          split; [lia|].
          destruct (co_past _ _ C a) as [P|P]; [rewrite P, Cx; exact E1 | apply P; left; reflexivity]. }
        destruct (on_loop _ _ _ _ _) as [k c]. cbn [fst snd] in *.
        constructor; cbn [cells active].
        * apply (cells_ok_bumped (cells s) c e rest); assumption.
        * apply APP. apply (act_ok_tail _ _ e rest A). exact IN.
      + constructor; cbn [cells active].
        * apply (cells_ok_tail _ e); assumption.
        * apply APP. apply (act_ok_tail _ _ e rest A). apply incl_refl.
    - destruct (is_sus _ _).
      + constructor; [apply (cells_ok_tail _ e); assumption | apply (act_ok_tail _ _ e rest A); apply incl_refl].
      + constructor; cbn [cells active].
        * apply (cells_ok_tail _ e); assumption.
        * apply (act_ok_tail _ _ e rest A). apply remove_first_eq_incl.
  Qed.

  Lemma on_refs_tail_NoDup : forall e rest, NoDup (on_refs (e :: rest)) -> NoDup (on_refs rest).
  Proof.
    unfold on_refs; intros. cbn [filter] in H. destruct (is_on_ev e); [|exact H].
    cbn [map] in H. inversion H; assumption.
  Qed.

  Lemma run_invM : forall evs s, sorted evs -> Forall (ev_wf ns) evs -> NoDup (on_refs evs) ->
    Forall (fun e => e_time e <= T) evs ->
    invM s evs -> invM (run_events evs s) [].
  Proof.
    induction evs; intros s Hs Hw Hn Ht I; cbn [run_events fold_left]; [exact I|].
    apply IHevs.
    - inversion Hs; assumption.
    - inversion Hw; assumption.
    - apply (on_refs_tail_NoDup a). exact Hn.
    - inversion Ht; assumption.
    - apply step_invM; auto; [inversion Hw | inversion Ht]; assumption.
  Qed.
End Mono.

Lemma last_time_max : forall evs, sorted evs -> forall e, In e evs -> e_time e <= last_time evs.
Proof.
  unfold last_time. induction 1; intros x Hx; [contradiction|].
  destruct l as [|y l'].
  - destruct Hx as [<-|[]]. cbn. lia.
  - change (last (map e_time (e :: y :: l')) 0) with (last (map e_time (y :: l')) 0).
    destruct Hx as [->|Hx]; [|apply IHsorted; exact Hx].
    etransitivity; [apply (sorted_time_le x (y :: l') y H); left; reflexivity|].
    apply IHsorted. left. reflexivity.
Qed.

Lemma off_event_time : forall ctl ns ccs a n, nth_error ns a = Some n -> n_drum n = false ->
  exists e, In e (sorted_events ctl ns ccs) /\ e_time e = n_end n.
Proof.
  intros. exists (mkEv (n_end n) KNoteOff a (n_instr n)). split; [|reflexivity].
  eapply Permutation_in; [symmetry; apply sort_events_perm|].
  unfold build_events. rewrite !in_app_iff. right. left. unfold note_events.
  apply in_map_iff. exists (a, n). split; [reflexivity|]. apply filter_In. split.
  - apply In_indexed. exact H.
  - cbn [snd]. rewrite H0. reflexivity.
Qed.

(** T4: inside the quantifier every note survives and no note is shortened. *)
Lemma sustain_ends_monotone : forall ctl ns ccs tot,
  ordered_b ns = true -> no_clash ns = true ->
  Forall2 (fun n c => c_alive c = true /\ n_end n <= n_end (c_n c)) ns (fst (sustain_cells ctl ns ccs tot)).
Proof.
  intros ctl ns ccs tot Hord Hnc.
  set (evs := sorted_events ctl ns ccs). set (T := last_time evs).
  assert (SE : sorted evs) by apply sort_events_sorted.
  assert (I : invM ns T (pre_close ctl ns ccs tot) []).
  { apply run_invM; auto.
    - apply sorted_events_wf.
    - eapply Permutation_NoDup; [apply on_refs_perm; symmetry; apply sort_events_perm | apply on_refs_build].
    - apply Forall_forall. intros e He. apply last_time_max; assumption.
    - constructor; cbn [init_st cells active].
      + constructor; auto; [apply sim_refl | intros; lia].
      + intros a []. }
  destruct I as [C A].
  apply (nth_Forall2 _ dummy_cell).
  - rewrite (sim_length _ _ (sustain_cells_sim ctl ns ccs tot)). unfold init_cells. apply map_length.
  - intros j n Hj. unfold sustain_cells, sustain_cells_gen. fold evs. fold T.
    pose proof (close_bumped T (active (pre_close ctl ns ccs tot)) (cells (pre_close ctl ns ccs tot))
                  (total (pre_close ctl ns ccs tot)) j) as B.
    pose proof (co_alive _ _ _ _ C j) as AL. pose proof (co_mono _ _ _ _ C j) as MO.
    rewrite (nth_init _ _ _ Hj) in AL. rewrite (cell_at_init _ _ _ Hj) in MO. cbn [c_alive] in AL.
    unfold cell_at in MO.
    destruct B as [->|[-> L]].
    + intros a Ha. destruct (A a Ha) as [[x [Nx Dx]] _].
      destruct (off_event_time ctl ns ccs a x Nx Dx) as [e [E1 E2]].
      pose proof (last_time_max evs SE e E1) as LT. fold T in LT.
      destruct (co_bound _ _ _ _ C a) as [P|P]; [|exact P].
      rewrite P, (cell_at_init _ _ _ Nx). lia.
    + split; [exact AL | exact MO].
    + cbn [c_alive c_n]. split; [exact AL|]. cbn. lia.
Qed.

Lemma live_all : forall cs, Forall (fun c => c_alive c = true) cs -> live_notes cs = map c_n cs.
Proof.
  unfold live_notes. induction 1; cbn [filter map]; auto. rewrite H. cbn [map]. congruence.
Qed.

(** ... on sequences: the returned notes are the input notes, in order, each
    with an end that is not earlier. *)
Lemma apply_sustain_monotone : forall ctl s s',
  ordered_b (s_notes s) = true -> no_clash (s_notes s) = true ->
  apply_sustain ctl s = Some s' ->
  Forall2 (fun n n' => n' = set_end n (n_end n') /\ n_end n <= n_end n') (s_notes s) (s_notes s').
Proof.
  intros ctl s s' Hord Hnc H. apply apply_sustain_result in H. subst s'. cbn [with_notes_total s_notes].
  pose proof (sustain_ends_monotone ctl (s_notes s) (s_ccs s) (s_total s) Hord Hnc) as M.
  pose proof (sustain_shape ctl (s_notes s) (s_ccs s) (s_total s)) as S. cbv zeta in S.
  set (cs := fst (sustain_cells ctl (s_notes s) (s_ccs s) (s_total s))) in *. clearbody cs.
  clear Hord Hnc. rewrite live_all.
  - revert S. induction M; intros S; inversion S; subst; cbn [map]; constructor; auto. tauto.
  - clear S. induction M; constructor; tauto.
Qed.

(** A worked instance (used as the non-vacuity example of Props/C14.v). *)
Definition c14_example_seq : seq :=
  mkSeq [mkNote 60 100 0 4 0 0 false 0 0 0; mkNote 60 90 6 8 0 0 false 0 0 0;
         mkNote 64 80 0 1 0 0 false 0 0 0; mkNote 60 70 0 4 1 0 false 0 0 0;
         mkNote 36 100 0 20 9 0 true 0 0 0]
        [] [] [] [] [mkCc 2 0 64 127 0 0 false; mkCc 12 0 64 0 0 0 false; mkCc 3 0 7 100 1 0 false] [] []
        20 0 0 0 (0, 0) 220 0.

Lemma c14_example_ok :
  ordered_b (s_notes c14_example_seq) = true /\ no_clash (s_notes c14_example_seq) = true /\
  covered_b (s_total c14_example_seq) (s_notes c14_example_seq) = true /\
  no_pedal_down 64 1 (s_ccs c14_example_seq) = true /\
  (exists s', apply_sustain 64 c14_example_seq = Some s' /\
     map n_end (s_notes s') = [6; 12; 1; 4; 20] /\ s_total s' = 20 /\
     s_notes s' = spec_notes 64 (s_notes c14_example_seq) (s_ccs c14_example_seq)).
Proof.
  repeat (split; [vm_compute; reflexivity|]).
  eexists. split; [vm_compute; reflexivity|]. repeat split; vm_compute; reflexivity.
Qed.
